import AlgoVerif.Proofs.C11Group
import AlgoVerif.Proofs.C11Check
/-!
# C11 — whole-expression grouping, part 2: the reference fails ⇒ the driver rejects; the theorem; the validator

* `climb_fail`: when a call of the reference returns `none` (with enough fuel) the driver runs into a rejection;
* `group_correct`: on a table of the operator-grammar shape, for every token string the driver accepts iff `Spec.climb`
  returns an expression, and then returns its tree;
* `opTableOK`: the executable test for the shape, `opTable_of_ok`: it is sound.
-/
namespace AlgoVerif.C11.Group
open AlgoVerif AlgoVerif.Gram AlgoVerif.C11 AlgoVerif.C11.Spec AlgoVerif.C11.Complete AlgoVerif.C11.Term

section
variable {ops : List String} {ls : List Level} {T : Tbl} (C : OpTable ops ls T) (hL : LevelsFor ops ls)
include hL

/-- in the state after an operand, an operator that binds tightly enough is shifted -/
theorem hold_shift (ctx : Ctx) (hctx : ctx.ok ops) {o : String} {s : Nat} {a : Assoc} (hs : strength ls o = some (s, a))
    (hge : ¬ s < ctx.min ls) : T.cell (holdS C ctx) o = [Action.shift (C.sop o)] := by
  have ho : o ∈ ops := (hL.listed o).mpr ⟨s, a, hs⟩
  cases ctx with
  | top => exact C.c1op o ho
  | rhs o' =>
    simp only [holdS]
    rcases C.credop o' hctx o ho with ⟨hd, _⟩ | ⟨_, hcell⟩
    · exfalso
      obtain ⟨s', a', hs'⟩ := (hL.listed o').mp hctx
      have := (declared_strength hs' hs (hL.assoc _ _ _ hs')).2 (by simp only [Ctx.min] at hge; omega)
      rw [this] at hd; cases hd
    · exact hcell

/-- in the state after `E o E`, a lookahead at which the operand call stopped reduces -/
theorem red_cell {o : String} (ho : o ∈ ops) {rest : List String} (hstop : Stop ls (minOf ls o) rest) :
    T.cell (C.sred o) (look rest) = [Action.reduce (pb o)] := by
  obtain ⟨s, a, hs⟩ := (hL.listed o).mp ho
  rcases hstop with hnil | ⟨o2, r2, s2, a2, hrest, hs2, hlt2⟩
  · rw [hnil]; exact C.credend o ho
  · rw [hrest]
    have ho2 : o2 ∈ ops := (hL.listed o2).mpr ⟨s2, a2, hs2⟩
    rcases C.credop o ho o2 ho2 with ⟨_, hcell⟩ | ⟨hd, _⟩
    · exact hcell
    · exfalso
      have := (declared_strength hs hs2 (hL.assoc _ _ _ hs)).1 hlt2
      rw [this] at hd; cases hd

omit hL in
theorem tok_eq_look (st : PState) : st.tok = look st.input := rfl

omit hL in
/-- the control part of reducing `E → E o E` -/
theorem reduce_bin_ctl (ctx : Ctx) (hctx : ctx.ok ops) {o : String} (st : PState) (below : List Int)
    (hstk : st.stack = C.sred o :: C.sop o :: holdS C ctx :: expS C ctx :: below)
    (hc : T.cell (C.sred o) st.tok = [Action.reduce (pb o)]) :
    ∃ st', Reaches T st st' ∧ st'.stack = holdS C ctx :: expS C ctx :: below ∧ st'.input = st.input := by
  have hc' : T.cell (peekState st.stack) st.tok = [Action.reduce (pb o)] := by rw [hstk]; exact hc
  refine ⟨_, step_reduce hc', ?_, rfl⟩
  simp only [pb, List.length_cons, List.length_nil, hstk, List.drop_succ_cons, List.drop_zero, peekState]
  cases ctx with
  | top => simp [expS, holdS, C.g0]
  | rhs o' => simp [expS, holdS, C.gop o' hctx]

omit hL in
theorem reduce_id_ctl (ctx : Ctx) (hctx : ctx.ok ops) (st : PState) (below : List Int)
    (hstk : st.stack = C.sid :: expS C ctx :: below) (htok : st.tok ∈ ops ∨ st.tok = endmarker) :
    ∃ st', Reaches T st st' ∧ st'.stack = holdS C ctx :: expS C ctx :: below ∧ st'.input = st.input := by
  have hc : T.cell (peekState st.stack) st.tok = [Action.reduce pid] := by
    rw [hstk]; exact C.cid _ htok
  refine ⟨_, step_reduce hc, ?_, rfl⟩
  simp only [pid, List.length_cons, List.length_nil, hstk, List.drop_succ_cons, List.drop_zero, peekState]
  cases ctx with
  | top => simp [expS, holdS, C.g0]
  | rhs o => simp [expS, holdS, C.gop o hctx]

/-- the calls of the reference that fail: the driver rejects -/
theorem climb_fail (hend : "id" ≠ endmarker) : ∀ (fuel : Nat),
    (∀ (min : Nat) (toks : List String), climbExpr ls fuel min toks = none → 2 * toks.length ≤ fuel →
      ∀ (ctx : Ctx), ctx.ok ops → min = ctx.min ls →
      ∀ (st : PState) (below : List Int), st.stack = expS C ctx :: below → st.input = toks → endmarker ∉ toks →
      RejectsFrom T st) ∧
    (∀ (lhs : Expr) (min : Nat) (toks : List String), climbLoop ls fuel lhs min toks = none →
      2 * toks.length + 1 ≤ fuel → ∀ (ctx : Ctx), ctx.ok ops → min = ctx.min ls →
      ∀ (st : PState) (below : List Int), st.stack = holdS C ctx :: expS C ctx :: below →
      st.input = toks → endmarker ∉ toks → RejectsFrom T st) := by
  -- the state that expects an operand rejects everything but `id`
  have hexp : ∀ (ctx : Ctx), ctx.ok ops → ∀ (st : PState) (below : List Int), st.stack = expS C ctx :: below →
      st.tok ≠ "id" → RejectsFrom T st := by
    intro ctx hctx st below hstk htok
    refine ⟨st, _, reaches_refl T st, pstep_reject ?_⟩
    rw [hstk]
    cases ctx with
    | top => exact C.c0other _ htok
    | rhs o => exact C.copother o hctx _ htok
  intro fuel
  induction fuel with
  | zero =>
    constructor
    · intro min toks _ hb ctx hctx _ st below hstk hin _
      have : toks = [] := by
        cases toks with
        | nil => rfl
        | cons _ _ => simp at hb
      subst this
      exact hexp ctx hctx st below hstk (by rw [tok_nil st hin]; exact fun h => hend h.symm)
    · intro lhs min toks _ hb; omega
  | succ fuel ih =>
    obtain ⟨ihE, ihL⟩ := ih
    constructor
    · intro min toks h hb ctx hctx hmin st below hstk hin hne
      unfold climbExpr at h
      split at h
      · rename_i rest0
        simp only [List.length_cons] at hb
        have hne0 : endmarker ∉ rest0 := fun hm => hne (List.mem_cons_of_mem _ hm)
        -- shift id
        have hc : T.cell (peekState st.stack) st.tok = [Action.shift C.sid] := by
          rw [hstk, tok_cons st hin]
          cases ctx with
          | top => exact C.c0id
          | rhs o => exact C.copid o hctx
        apply rejectsFrom_of_reaches (step_shift hc)
        have hstk1 : (shiftSt st C.sid).stack = C.sid :: expS C ctx :: below := by simp [shiftSt, hstk]
        have hin1 : (shiftSt st C.sid).input = rest0 := by simp [shiftSt, hin]
        cases rest0 with
        | nil =>
          -- the loop cannot fail on the empty input
          exfalso
          cases fuel with
          | zero => omega
          | succ f => simp [climbLoop] at h
        | cons o r =>
          by_cases ho : o ∈ ops
          · obtain ⟨st2, hr2, hstk2, hin2⟩ := reduce_id_ctl C ctx hctx (shiftSt st C.sid) below hstk1
              (by rw [tok_cons _ hin1]; exact Or.inl ho)
            apply rejectsFrom_of_reaches hr2
            exact ihL Expr.id min (o :: r) h (by simp only [List.length_cons] at hb ⊢; omega) ctx hctx hmin st2 below hstk2
              (by rw [hin2, hin1]) hne0
          · refine ⟨shiftSt st C.sid, _, reaches_refl T _, pstep_reject ?_⟩
            rw [hstk1, tok_cons _ hin1]
            exact C.cidother o ho (fun he => hne0 (by rw [← he]; simp))
      · -- the input does not start with `id`
        apply hexp ctx hctx st below hstk
        cases toks with
        | nil => rw [tok_nil st hin]; exact fun h' => hend h'.symm
        | cons t r =>
          rw [tok_cons st hin]
          intro ht
          rename_i hno
          exact hno r (by rw [ht])
    · intro lhs min toks h hb ctx hctx hmin st below hstk hin hne
      unfold climbLoop at h
      split at h
      · simp at h
      · rename_i o rest0
        simp only [List.length_cons] at hb
        have hne0 : endmarker ∉ rest0 := fun hm => hne (List.mem_cons_of_mem _ hm)
        have hone : o ≠ endmarker := fun he => hne (by rw [← he]; simp)
        cases hs : strength ls o with
        | none =>
          -- not an operator of the grammar
          have ho : o ∉ ops := by
            intro ho
            obtain ⟨s, a, hsa⟩ := (hL.listed o).mp ho
            rw [hs] at hsa; cases hsa
          refine ⟨st, _, reaches_refl T st, pstep_reject ?_⟩
          rw [hstk, tok_cons st hin]
          cases ctx with
          | top => exact C.c1other o ho hone
          | rhs o' => exact C.credother o' hctx o ho hone
        | some sa =>
          obtain ⟨s, a⟩ := sa
          simp only [hs] at h
          have ho : o ∈ ops := (hL.listed o).mpr ⟨s, a, hs⟩
          by_cases hlt : s < min
          · simp [hlt] at h
          · simp only [hlt, if_false] at h
            have hmo := minOf_eq hs
            -- shift o
            have hc : T.cell (peekState st.stack) st.tok = [Action.shift (C.sop o)] := by
              rw [hstk, tok_cons st hin]
              exact hold_shift C hL ctx hctx hs (by rw [← hmin]; exact hlt)
            apply rejectsFrom_of_reaches (step_shift hc)
            have hstk1 : (shiftSt st (C.sop o)).stack = expS C (Ctx.rhs o) :: st.stack := by simp [shiftSt, expS]
            have hin1 : (shiftSt st (C.sop o)).input = rest0 := by simp [shiftSt, hin]
            -- the operand call
            have hcases : climbExpr ls fuel (minOf ls o) rest0 = none ∨
                ∃ rhs rest', climbExpr ls fuel (minOf ls o) rest0 = some (rhs, rest') ∧
                  climbLoop ls fuel (Expr.bin lhs o rhs) min rest' = none := by
              rw [hmo]
              cases a with
              | none => exact absurd rfl (hL.assoc o s _ hs)
              | left =>
                simp only at h
                simp only [minOfSA]
                cases hce : climbExpr ls fuel (s + 1) rest0 with
                | none => exact Or.inl rfl
                | some rr => obtain ⟨rhs, rest'⟩ := rr; simp only [hce] at h; exact Or.inr ⟨rhs, rest', rfl, h⟩
              | right =>
                simp only at h
                simp only [minOfSA]
                cases hce : climbExpr ls fuel s rest0 with
                | none => exact Or.inl rfl
                | some rr => obtain ⟨rhs, rest'⟩ := rr; simp only [hce] at h; exact Or.inr ⟨rhs, rest', rfl, h⟩
            rcases hcases with hce | ⟨rhs, rest', hce, hcl⟩
            · exact ihE (minOf ls o) rest0 hce (by omega) (Ctx.rhs o) ho rfl _ st.stack hstk1 hin1 hne0
            · obtain ⟨st2, hr2, hstk2, _, hin2, hstop2, hlen2, hne2⟩ := (climb_sim C hL hend fuel).1 (minOf ls o) rest0 rhs
                rest' hce (Ctx.rhs o) ho rfl _ st.stack hstk1 hin1 hne0
              apply rejectsFrom_of_reaches hr2
              have hcr : T.cell (C.sred o) st2.tok = [Action.reduce (pb o)] := by
                rw [tok_eq_look, hin2]; exact red_cell C hL ho hstop2
              obtain ⟨st3, hr3, hstk3, hin3⟩ := reduce_bin_ctl C ctx hctx st2 below
                (by rw [hstk2, hstk1]; simp [holdS, expS, hstk]) hcr
              apply rejectsFrom_of_reaches hr3
              exact ihL (Expr.bin lhs o rhs) min rest' hcl (by omega) ctx hctx hmin st3 below hstk3
                (by rw [hin3, hin2]) hne2

include C in
/-- on a table of the operator-grammar shape the driver computes `Spec.climb` -/
theorem group_correct (hend : "id" ≠ endmarker) (w : List String) (hw : endmarker ∉ w) :
    (∀ e, climb ls w = some e → ∃ fuel π, parse T fuel w = Outcome.ok (PResult.accept π (treeOf e))) ∧
    (climb ls w = none → ∃ fuel pos, parse T fuel w = Outcome.ok (PResult.reject pos)) := by
  have hinit : (pinit w).stack = expS C Ctx.top :: [] := rfl
  cases hce : climbExpr ls (2 * w.length + 2) 0 w with
  | none =>
    have hcl : climb ls w = none := by unfold climb; rw [hce]
    refine ⟨fun e he => (by rw [hcl] at he; cases he), fun _ => ?_⟩
    obtain ⟨st', pos, ⟨n, hn⟩, hp⟩ := (climb_fail C hL hend _).1 0 w hce (by omega) Ctx.top trivial rfl (pinit w) []
      hinit rfl hw
    refine ⟨n + 1, pos, ?_⟩
    unfold parse
    rw [prun_iter n 1 _ st' hn]
    simp [prun, hp]
  | some er =>
    obtain ⟨e, rest⟩ := er
    obtain ⟨st', ⟨n, hn⟩, hstk, hnodes, hin, hstop, _, _⟩ := (climb_sim C hL hend _).1 0 w e rest hce Ctx.top trivial rfl
      (pinit w) [] hinit rfl hw
    have hrest : rest = [] := by
      rcases hstop with h | ⟨_, _, s, _, _, _, hlt⟩
      · exact h
      · omega
    subst hrest
    have hcl : climb ls w = some e := by unfold climb; rw [hce]
    refine ⟨fun e' he' => ?_, fun hn' => by rw [hcl] at hn'; cases hn'⟩
    rw [hcl] at he'
    have : e = e' := Option.some.inj he'
    subst this
    have hp : pstep T st' = .inr (PResult.accept st'.out.reverse (treeOf e)) := by
      unfold pstep
      have hc : T.cell (peekState st'.stack) st'.tok = [Action.accept] := by
        rw [hstk, tok_nil st' hin]; exact C.c1acc
      simp only [hc, hnodes]
    refine ⟨n + 1, st'.out.reverse, ?_⟩
    unfold parse
    rw [prun_iter n 1 _ st' hn]
    simp [prun, hp]

end

/-! ## the validator -/

def rejectsB (c : List Action) : Bool :=
  match c with
  | [_] => false
  | _ => true

theorem rejects_of_b {c : List Action} (h : rejectsB c = true) : Rejects c := by
  intro act hc
  rw [hc] at h
  simp [rejectsB] at h

def shiftOf (c : List Action) : Option Int :=
  match c with
  | [Action.shift t] => some t
  | _ => none

theorem shiftOf_some {c : List Action} {t : Int} (h : shiftOf c = some t) : c = [Action.shift t] := by
  unfold shiftOf at h
  split at h
  · simp only [Option.some.injEq] at h; rw [h]
  · cases h

/-- does the table have the shape of the resolved table of the operator grammar over `ops` with levels `ls`? -/
def opTableOK (ops : List String) (ls : List Level) (T : Table) : Bool :=
  match shiftOf (T.cell 0 "id"), T.goto 0 "E" with
  | some sid, some s1 =>
    let sop := fun o => (shiftOf (T.cell s1 o)).getD (-2)
    let sred := fun o => (T.goto (sop o) "E").getD (-2)
    T.actions.all (fun e => ("id" :: ops ++ [endmarker]).contains e.1.2) &&
    (ops ++ [endmarker]).all (fun a => rejectsB (T.cell 0 a)) &&
    (ops ++ [endmarker]).all (fun a => T.cell sid a == [Action.reduce pid]) && rejectsB (T.cell sid "id") &&
    (T.cell s1 endmarker == [Action.accept]) && rejectsB (T.cell s1 "id") &&
    ops.all (fun o =>
      (T.cell s1 o == [Action.shift (sop o)]) &&
      (T.cell (sop o) "id" == [Action.shift sid]) &&
      (ops ++ [endmarker]).all (fun a => rejectsB (T.cell (sop o) a)) &&
      (T.goto (sop o) "E" == some (sred o)) &&
      (T.cell (sred o) endmarker == [Action.reduce (pb o)]) && rejectsB (T.cell (sred o) "id") &&
      ops.all (fun o2 =>
        match declared ls (pb o) o2 with
        | Choice.reduce => T.cell (sred o) o2 == [Action.reduce (pb o)]
        | Choice.shift => T.cell (sred o) o2 == [Action.shift (sop o2)]
        | Choice.error => false))
  | _, _ => false

/-- the validator is sound -/
theorem opTable_of_ok {ops : List String} {ls : List Level} {T : Table} (h : opTableOK ops ls T = true) :
    Nonempty (OpTable ops ls T.toTbl) := by
  unfold opTableOK at h
  cases hs0 : shiftOf (T.cell 0 "id") with
  | none => simp [hs0] at h
  | some sid =>
    cases hg0 : T.goto 0 "E" with
    | none => simp [hs0, hg0] at h
    | some s1 =>
      simp only [hs0, hg0, Bool.and_eq_true, List.all_eq_true, beq_iff_eq] at h
      obtain ⟨⟨⟨⟨⟨⟨hknown, h0⟩, hsid⟩, hsidid⟩, h1acc⟩, h1id⟩, hops⟩ := h
      -- a terminal that is neither `id`, nor an operator, nor the endmarker has no entry at all
      have hforeign : ∀ s a, a ≠ "id" → a ∉ ops → a ≠ endmarker → T.cell s a = [] := by
        intro s a h1 h2 h3
        unfold Table.cell
        cases hl : T.actions.lookup (s, a) with
        | none => rfl
        | some acts =>
          exfalso
          have hmem := AlgoVerif.C11.Sound.lookup_mem _ _ _ hl
          have := hknown _ hmem
          simp only [List.contains_iff_mem, List.mem_cons, List.mem_append, List.mem_singleton, List.not_mem_nil,
            or_false] at this
          rcases this with (h' | h') | h'
          · exact h1 h'
          · exact h2 h'
          · exact h3 h'
      have hrej : ∀ s, (∀ a ∈ ops ++ [endmarker], rejectsB (T.cell s a) = true) → ∀ a, a ≠ "id" → Rejects (T.cell s a) := by
        intro s hs a ha
        by_cases hk : a ∈ ops ∨ a = endmarker
        · apply rejects_of_b
          apply hs
          simp only [List.mem_append, List.mem_singleton]
          exact hk
        · rw [hforeign s a ha (fun h' => hk (Or.inl h')) (fun h' => hk (Or.inr h'))]
          intro act hc; cases hc
      have hrej2 : ∀ s, rejectsB (T.cell s "id") = true → ∀ a, a ∉ ops → a ≠ endmarker → Rejects (T.cell s a) := by
        intro s hs a h2 h3
        by_cases h1 : a = "id"
        · rw [h1]; exact rejects_of_b hs
        · rw [hforeign s a h1 h2 h3]
          intro act hc; cases hc
      let sop := fun o => (shiftOf (T.cell s1 o)).getD (-2)
      let sred := fun o => (T.goto (sop o) "E").getD (-2)
      refine ⟨⟨sid, s1, sop, sred, shiftOf_some hs0, hrej 0 h0, hg0, ?_, hrej2 sid hsidid, h1acc, ?_, hrej2 s1 h1id, ?_, ?_, ?_, ?_,
        ?_, ?_⟩⟩
      · intro a ha
        apply hsid
        simp only [List.mem_append, List.mem_singleton]
        exact ha
      · intro o ho
        exact (hops o ho).1.1.1.1.1.1
      · intro o ho
        exact (hops o ho).1.1.1.1.1.2
      · intro o ho
        exact hrej (sop o) (hops o ho).1.1.1.1.2
      · intro o ho
        exact (hops o ho).1.1.1.2
      · intro o ho
        exact (hops o ho).1.1.2
      · intro o ho o2 ho2
        have := (hops o ho).2 o2 ho2
        cases hd : declared ls (pb o) o2 with
        | reduce =>
          rw [hd] at this
          simp only [beq_iff_eq] at this
          exact Or.inl ⟨rfl, this⟩
        | shift =>
          rw [hd] at this
          simp only [beq_iff_eq] at this
          exact Or.inr ⟨rfl, this⟩
        | error => rw [hd] at this; cases this
      · intro o ho
        exact hrej2 (sred o) (hops o ho).1.2

/-! ## levels -/

theorem precedenceOf_none_iff (ls : List Level) (h : Handle) : precedenceOf ls h = none ↔ ∀ l ∈ ls, h ∉ l.handles := by
  induction ls with
  | nil => simp [precedenceOf]
  | cons l ls ih =>
    unfold precedenceOf
    by_cases hm : h ∈ l.handles
    · simp [hm]
    · cases hp : precedenceOf ls h with
      | none => simp [hm, hp] at ih ⊢; exact ih
      | some r => simp [hm, hp] at ih ⊢; exact ih

theorem precedenceOf_assoc (ls : List Level) (h : Handle) (i : Nat) (a : Assoc) (hp : precedenceOf ls h = some (i, a)) :
    ∃ l ∈ ls, l.assoc = a := by
  induction ls generalizing i with
  | nil => simp [precedenceOf] at hp
  | cons l ls ih =>
    unfold precedenceOf at hp
    split at hp
    · simp only [Option.some.injEq, Prod.mk.injEq] at hp
      exact ⟨l, by simp, hp.2⟩
    · cases hq : precedenceOf ls h with
      | none => simp [hq] at hp
      | some r =>
        obtain ⟨i', a'⟩ := r
        simp only [hq, Option.some.injEq, Prod.mk.injEq] at hp
        obtain ⟨l', hl', ha'⟩ := ih i' (hp.2 ▸ hq)
        exact ⟨l', List.mem_cons_of_mem _ hl', ha'⟩

/-- `LevelsFor` from two checks on the level list -/
theorem levelsFor_of {ops : List String} {ls : List Level}
    (hlisted : ∀ o, o ∈ ops ↔ ∃ l ∈ ls, Handle.term o ∈ l.handles)
    (hassoc : ∀ l ∈ ls, l.assoc ≠ Assoc.none) (hid : "id" ∉ ops) (hen : endmarker ∉ ops) : LevelsFor ops ls := by
  refine ⟨?_, ?_, hid, hen⟩
  · intro o
    rw [hlisted o]
    unfold strength
    constructor
    · rintro ⟨l, hl, hm⟩
      cases hp : precedenceOf ls (Handle.term o) with
      | none => exact absurd hm ((precedenceOf_none_iff ls _).mp hp l hl)
      | some r => exact ⟨ls.length - r.1, r.2, rfl⟩
    · rintro ⟨s, a, hs⟩
      cases hp : precedenceOf ls (Handle.term o) with
      | none => rw [hp] at hs; cases hs
      | some r =>
        apply Classical.byContradiction
        intro hno
        have : precedenceOf ls (Handle.term o) = none := (precedenceOf_none_iff ls _).mpr (fun l hl hm => hno ⟨l, hl, hm⟩)
        rw [hp] at this; cases this
  · intro o s a hs
    unfold strength at hs
    cases hp : precedenceOf ls (Handle.term o) with
    | none => rw [hp] at hs; cases hs
    | some r =>
      obtain ⟨i, a'⟩ := r
      rw [hp] at hs
      simp only [Option.some.injEq, Prod.mk.injEq] at hs
      obtain ⟨l, hl, hla⟩ := precedenceOf_assoc ls _ i a' hp
      rw [← hs.2, ← hla]
      exact hassoc l hl

end AlgoVerif.C11.Group
