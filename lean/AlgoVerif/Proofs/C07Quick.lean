import AlgoVerif.Proofs.C07Basic
/-!
# C07 — quick sort and Select (`sort/quick.go`): `partition`, `quick`, the loop of `Select`
-/
namespace AlgoVerif.C07
open AlgoVerif

variable {α : Type}

/-! ## the two scans and the partition loop -/

theorem scanUp_spec {cmp : α → α → Int} (a : Array α) (v : α) (hi : Nat) (hhi : hi < a.size) :
    ∀ (f i : Nat), i ≤ hi → hi - i < f →
      ∃ i' : Nat, scanUp cmp a v (hi : Int) f (i : Int) = .ok (i' : Int) ∧ i ≤ i' ∧ i' ≤ hi ∧
        (∀ p, i ≤ p → p < i' → ∀ (h : p < a.size), cmp a[p] v < 0) ∧
        (i' < hi → ∀ (h : i' < a.size), ¬ cmp a[i'] v < 0) := by
  intro f
  induction f with
  | zero => intro i _ h; omega
  | succ f ih =>
    intro i hi' hf
    unfold scanUp
    by_cases hlt : i < hi
    · have h1 : (i : Int) < hi := by omega
      simp only [h1, ↓reduceIte]
      rw [get_nat (by omega : i < a.size)]
      simp only [ok_bind]
      by_cases hc : cmp a[i] v < 0
      · simp only [hc, ↓reduceIte]
        have e : ((i : Int) + 1) = ((i + 1 : Nat) : Int) := by omega
        rw [e]
        obtain ⟨i', g1, g2, g3, g4, g5⟩ := ih (i+1) (by omega) (by omega)
        refine ⟨i', g1, by omega, g3, ?_, g5⟩
        intro p hp hp' hs
        by_cases hpi : p = i
        · subst hpi; exact hc
        · exact g4 p (by omega) hp' hs
      · simp only [hc, ↓reduceIte]
        exact ⟨i, rfl, Nat.le_refl _, by omega, by intro p h1 h2; omega, fun _ _ => hc⟩
    · have h1 : ¬ (i : Int) < hi := by omega
      simp only [h1, ↓reduceIte]
      exact ⟨i, rfl, Nat.le_refl _, by omega, by intro p h1 h2; omega, fun h => by omega⟩

theorem scanDown_spec {cmp : α → α → Int} (a : Array α) (v : α) (lo : Nat) :
    ∀ (f j : Nat), lo ≤ j → j < a.size → j - lo < f →
      ∃ j' : Nat, scanDown cmp a v (lo : Int) f (j : Int) = .ok (j' : Int) ∧ lo ≤ j' ∧ j' ≤ j ∧
        (∀ p, j' < p → p ≤ j → ∀ (h : p < a.size), cmp a[p] v > 0) ∧
        (lo < j' → ∀ (h : j' < a.size), ¬ cmp a[j'] v > 0) := by
  intro f
  induction f with
  | zero => intro j _ _ h; omega
  | succ f ih =>
    intro j hlo hj hf
    unfold scanDown
    by_cases hlt : lo < j
    · have h1 : (j : Int) > lo := by omega
      simp only [h1, ↓reduceIte]
      rw [get_nat hj]
      simp only [ok_bind]
      by_cases hc : cmp a[j] v > 0
      · simp only [hc, ↓reduceIte]
        have e : ((j : Int) - 1) = ((j - 1 : Nat) : Int) := by omega
        rw [e]
        obtain ⟨j', g1, g2, g3, g4, g5⟩ := ih (j-1) (by omega) (by omega) (by omega)
        refine ⟨j', g1, g2, by omega, ?_, g5⟩
        intro p hp hp' hs
        by_cases hpi : p = j
        · subst hpi; exact hc
        · exact g4 p hp (by omega) hs
      · simp only [hc, ↓reduceIte]
        exact ⟨j, rfl, by omega, Nat.le_refl _, by intro p h1 h2; omega, fun _ _ => hc⟩
    · have h1 : ¬ (j : Int) > lo := by omega
      simp only [h1, ↓reduceIte]
      exact ⟨j, rfl, by omega, Nat.le_refl _, by intro p h1 h2; omega, fun h => by omega⟩


/-- invariant of `partLoop` at loop head -/
structure PartInv (cmp : α → α → Int) (v : α) (a : Array α) (lo hi i j : Nat) : Prop where
  hhi : hi < a.size
  hlo : lo ≤ i
  hij : i < j
  hih : i < hi
  hj : j ≤ hi + 1
  piv : ∀ (h : lo < a.size), a[lo] = v
  left : ∀ p, lo < p → p ≤ i → ∀ (h : p < a.size), cmp a[p] v ≤ 0
  right : ∀ p, j ≤ p → p ≤ hi → ∀ (h : p < a.size), cmp v a[p] ≤ 0

theorem partLoop_spec {cmp : α → α → Int} (tp : TotalPreorder cmp) (v : α) (lo hi : Nat) :
    ∀ (f i j : Nat) (a : Array α), PartInv cmp v a lo hi i j → hi - i < f →
      ∃ (a' : Array α) (j' : Nat), partLoop cmp v (lo : Int) (hi : Int) f (i : Int) (j : Int) a = .ok (a', (j' : Int)) ∧
        a'.size = a.size ∧ a'.Perm a ∧ lo ≤ j' ∧ j' ≤ hi ∧
        (∀ (h : lo < a'.size), a'[lo] = v) ∧
        (∀ p, (p < lo ∨ hi < p) → a'[p]? = a[p]?) ∧
        (∀ (h : j' < a'.size), cmp a'[j'] v ≤ 0) ∧
        (∀ p, lo < p → p < j' → ∀ (h : p < a'.size), cmp a'[p] v ≤ 0) ∧
        (∀ p, j' < p → p ≤ hi → ∀ (h : p < a'.size), cmp v a'[p] ≤ 0) := by
  intro f
  induction f with
  | zero => intro i j a inv h; have := inv.hij; have := inv.hj; omega
  | succ f ih =>
    intro i j a inv hf
    obtain ⟨hhi, hlo, hij, hih, hj, piv, left, right⟩ := inv
    unfold partLoop
    have e1 : ((i : Int) + 1) = ((i + 1 : Nat) : Int) := by omega
    have e2 : ((j : Int) - 1) = ((j - 1 : Nat) : Int) := by omega
    rw [e1, e2]
    obtain ⟨i', u1, u2, u3, u4, u5⟩ := scanUp_spec (cmp := cmp) a v hi hhi (a.size + 1) (i+1) (by omega) (by omega)
    obtain ⟨j', d1, d2, d3, d4, d5⟩ := scanDown_spec (cmp := cmp) a v lo (a.size + 1) (j-1) (show lo ≤ j - 1 by omega) (show j - 1 < a.size by omega) (show j - 1 - lo < a.size + 1 by omega)
    rw [u1]; simp only [ok_bind]; rw [d1]; simp only [ok_bind]
    by_cases hge : i' ≥ j'
    · have : (i' : Int) ≥ j' := by omega
      simp only [this, ↓reduceIte]
      refine ⟨a, j', rfl, rfl, Array.Perm.refl _, d2, by omega, piv, fun _ _ => rfl, ?_, ?_, ?_⟩
      · intro h
        by_cases hl : lo < j'
        · have := d5 hl h; omega
        · have : j' = lo := by omega
          subst this
          rw [piv h]; exact tp.refl v
      · intro p hp1 hp2 h
        by_cases hpi : p ≤ i
        · exact left p hp1 hpi h
        · have := u4 p (by omega) (by omega) h; omega
      · intro p hp1 hp2 h
        by_cases hpj : j ≤ p
        · exact right p hpj hp2 h
        · exact tp.le_of_gt (d4 p hp1 (by omega) h)
    · have : ¬ (i' : Int) ≥ j' := by omega
      simp only [this, ↓reduceIte]
      rw [swap_ok (by omega) (by omega) (by omega) (by omega)]
      simp only [ok_bind, Int.toNat_natCast]
      have hvi : cmp v (a[i']'(by omega)) ≤ 0 := tp.le_of_not_lt (u5 (by omega) (by omega))
      have hvj : cmp (a[j']'(by omega)) v ≤ 0 := by have := d5 (by omega) (by omega); omega
      have inv' : PartInv cmp v (a.swap i' j' (by omega) (by omega)) lo hi i' j' := by
        refine ⟨by simpa using hhi, by omega, by omega, by omega, by omega, ?_, ?_, ?_⟩
        · intro h
          rw [Array.getElem_swap_of_ne (by omega) (by omega)]
          exact piv (by omega)
        · intro p hp1 hp2 h
          simp only [Array.getElem_swap]
          split
          · exact hvj
          · split
            · omega
            · by_cases hpi : p ≤ i
              · exact left p hp1 hpi _
              · have := u4 p (by omega) (by omega) (by omega); omega
        · intro p hp1 hp2 h
          simp only [Array.getElem_swap]
          split
          · omega
          · split
            · exact hvi
            · by_cases hpj : j ≤ p
              · exact right p hpj hp2 _
              · exact tp.le_of_gt (d4 p (by omega) (by omega) (by omega))
      obtain ⟨a', j'', r1, r2, r3, r4, r5, r6, r7, r8, r9, r10⟩ := ih i' j' _ inv' (by omega)
      refine ⟨a', j'', r1, by simpa using r2, r3.trans (Array.swap_perm _ _), r4, r5, r6, ?_, r8, r9, r10⟩
      intro p hp
      rw [r7 p hp, Array.getElem?_swap]
      have h1 : ¬ i' = p := by omega
      have h2 : ¬ j' = p := by omega
      simp only [h1, h2, ↓reduceIte]


theorem partition_spec {cmp : α → α → Int} (tp : TotalPreorder cmp) (a : Array α) (lo hi : Nat)
    (hlo : lo < hi) (hhi : hi < a.size) :
    ∃ (a' : Array α) (j : Nat), partition cmp a (lo : Int) (hi : Int) = .ok (a', (j : Int)) ∧
      a'.size = a.size ∧ a'.Perm a ∧ lo ≤ j ∧ j ≤ hi ∧
      (∀ i, (i < lo ∨ hi < i) → a'[i]? = a[i]?) ∧
      (∀ i, lo ≤ i → i < j → ∀ (h : i < a'.size) (hj : j < a'.size), cmp a'[i] a'[j] ≤ 0) ∧
      (∀ i, j < i → i ≤ hi → ∀ (h : i < a'.size) (hj : j < a'.size), cmp a'[j] a'[i] ≤ 0) := by
  unfold partition
  rw [get_nat (by omega : lo < a.size)]
  simp only [ok_bind]
  have e : ((hi : Int) + 1) = ((hi + 1 : Nat) : Int) := by omega
  rw [e]
  have inv : PartInv cmp a[lo] a lo hi lo (hi+1) :=
    ⟨hhi, Nat.le_refl _, by omega, hlo, Nat.le_refl _, fun _ => rfl,
      fun p h1 h2 => by omega, fun p h1 h2 => by omega⟩
  obtain ⟨a1, j, r1, r2, r3, r4, r5, r6, r7, r8, r9, r10⟩ :=
    partLoop_spec tp a[lo] lo hi (a.size + 1) lo (hi+1) a inv (by omega)
  rw [r1]
  simp only [ok_bind]
  rw [swap_ok (by omega) (by omega) (by omega) (by omega)]
  simp only [ok_bind, Int.toNat_natCast]
  have hsz : (a1.swap lo j (by omega) (by omega)).size = a.size := by simpa using r2
  refine ⟨_, j, rfl, hsz, (Array.swap_perm _ _).trans r3, r4, r5, ?_, ?_, ?_⟩
  · intro p hp
    rw [Array.getElem?_swap, ← r7 p hp]
    have h1 : ¬ lo = p := by omega
    have h2 : ¬ j = p := by omega
    simp only [h1, h2, ↓reduceIte]
  · intro p hp1 hp2 h hj
    have hv : a1[lo] = a[lo] := r6 (by omega)
    simp only [Array.getElem_swap]
    grind
  · intro p hp1 hp2 h hj
    have hv : a1[lo] = a[lo] := r6 (by omega)
    simp only [Array.getElem_swap]
    grind


/-! ## frame reasoning -/

theorem seg_perm_of_frame {a' a : Array α} {lo hi1 : Nat} (hp : a'.Perm a)
    (frame : ∀ p, (p < lo ∨ hi1 ≤ p) → a'[p]? = a[p]?) :
    ((a'.toList.drop lo).take (hi1 - lo)).Perm ((a.toList.drop lo).take (hi1 - lo)) := by
  have hl := Array.perm_iff_toList_perm.1 hp
  have e1 : a'.toList.take lo = a.toList.take lo := by
    apply List.ext_getElem?
    intro i
    simp only [List.getElem?_take]
    split
    · simpa using frame i (by omega)
    · rfl
  have e2 : (a'.toList.drop lo).drop (hi1 - lo) = (a.toList.drop lo).drop (hi1 - lo) := by
    apply List.ext_getElem?
    intro i
    simp only [List.getElem?_drop]
    simpa using frame (lo + (hi1 - lo + i)) (by omega)
  rw [← List.take_append_drop lo a'.toList, ← List.take_append_drop lo a.toList, e1,
    List.perm_append_left_iff,
    ← List.take_append_drop (hi1 - lo) (a'.toList.drop lo), ← List.take_append_drop (hi1 - lo) (a.toList.drop lo), e2,
    List.perm_append_right_iff] at hl
  exact hl

theorem mem_seg {a : Array α} {lo hi1 : Nat} {x : α} :
    x ∈ (a.toList.drop lo).take (hi1 - lo) ↔ ∃ p, lo ≤ p ∧ p < hi1 ∧ ∃ (h : p < a.size), a[p] = x := by
  rw [List.mem_iff_getElem?]
  constructor
  · rintro ⟨i, hi⟩
    rw [List.getElem?_take] at hi
    split at hi
    · rw [List.getElem?_drop] at hi
      simp only [Array.getElem?_toList] at hi
      obtain ⟨h, e⟩ := Array.getElem?_eq_some_iff.1 hi
      exact ⟨lo + i, by omega, by omega, h, e⟩
    · cases hi
  · rintro ⟨p, h1, h2, h, e⟩
    refine ⟨p - lo, ?_⟩
    rw [List.getElem?_take, if_pos (by omega), List.getElem?_drop]
    have : lo + (p - lo) = p := by omega
    simp [this, h, e]

theorem seg_pred_of_frame {a' a : Array α} {lo hi1 : Nat} (hp : a'.Perm a)
    (frame : ∀ p, (p < lo ∨ hi1 ≤ p) → a'[p]? = a[p]?) (P : α → Prop)
    (h : ∀ p, lo ≤ p → p < hi1 → ∀ (hs : p < a.size), P a[p]) :
    ∀ p, lo ≤ p → p < hi1 → ∀ (hs : p < a'.size), P a'[p] := by
  intro p h1 h2 hs
  have hm : a'[p] ∈ (a'.toList.drop lo).take (hi1 - lo) := mem_seg.2 ⟨p, h1, h2, hs, rfl⟩
  rw [(seg_perm_of_frame hp frame).mem_iff] at hm
  obtain ⟨q, g1, g2, g3, g4⟩ := mem_seg.1 hm
  rw [← g4]
  exact h q g1 g2 g3


theorem getElem_of_getElem? {a b : Array α} {p : Nat} (h : a[p]? = b[p]?) (ha : p < a.size)
    (hb : p < b.size) : a[p] = b[p] := by
  simpa [ha, hb] using h

/-- `partition` only permutes the window `[lo, hi]` -/
theorem partition_seg_perm {cmp : α → α → Int} (tp : TotalPreorder cmp) (a : Array α) (lo hi : Nat)
    (hlo : lo < hi) (hhi : hi < a.size) {a' : Array α} {j : Int}
    (h : partition cmp a (lo : Int) (hi : Int) = .ok (a', j)) :
    ((a'.toList.drop lo).take (hi + 1 - lo)).Perm ((a.toList.drop lo).take (hi + 1 - lo)) := by
  obtain ⟨a1, j1, p1, _, p3, _, _, p6, _, _⟩ := partition_spec tp a lo hi hlo hhi
  rw [p1] at h
  cases h
  exact seg_perm_of_frame p3 (fun p hp => p6 p (by omega))

/-! ## quick -/

theorem quickAux_spec {cmp : α → α → Int} (tp : TotalPreorder cmp) :
    ∀ (f : Nat) (a : Array α) (lo hi1 : Nat), lo ≤ hi1 → hi1 ≤ a.size → hi1 - lo < f →
      ∃ a', quickAux cmp f a (lo : Int) ((hi1 : Int) - 1) = .ok a' ∧ a'.size = a.size ∧ a'.Perm a ∧
        (∀ p, (p < lo ∨ hi1 ≤ p) → a'[p]? = a[p]?) ∧ SortedSeg cmp a' lo hi1 := by
  intro f
  induction f with
  | zero => intro a lo hi1 _ _ h; omega
  | succ f ih =>
    intro a lo hi1 hle hsz hf
    unfold quickAux
    by_cases hge : lo + 1 ≥ hi1
    · have : (lo : Int) ≥ (hi1 : Int) - 1 := by omega
      simp only [this, ↓reduceIte]
      refine ⟨a, rfl, rfl, Array.Perm.refl _, fun _ _ => rfl, ?_⟩
      intro p q h1 h2 h3 h4; omega
    · have : ¬ (lo : Int) ≥ (hi1 : Int) - 1 := by omega
      simp only [this, ↓reduceIte]
      have e : ((hi1 : Int) - 1) = ((hi1 - 1 : Nat) : Int) := by omega
      obtain ⟨a1, j, p1, p2, p3, p4, p5, p6, p7, p8⟩ :=
        partition_spec tp a lo (hi1 - 1) (by omega) (by omega)
      rw [← e] at p1
      rw [p1]
      simp only [ok_bind]
      obtain ⟨a2, q1, q2, q3, q4, q5⟩ := ih a1 lo j p4 (by omega) (by omega)
      rw [q1]
      simp only [ok_bind]
      have e' : ((j : Int) + 1) = ((j + 1 : Nat) : Int) := by omega
      rw [e']
      obtain ⟨a3, r1, r2, r3, r4, r5⟩ := ih a2 (j+1) hi1 (by omega) (by omega) (by omega)
      refine ⟨a3, r1, by omega, (r3.trans q3).trans p3, ?_, ?_⟩
      · intro p hp
        rw [r4 p (by omega), q4 p (by omega), p6 p (by omega)]
      · have hj : j < a1.size := by omega
        have ej : ∀ (h : j < a3.size), a3[j] = a1[j] := fun h =>
          (getElem_of_getElem? (r4 j (by omega)) h (by omega)).trans
            (getElem_of_getElem? (q4 j (by omega)) (by omega) hj)
        have left2 : ∀ p, lo ≤ p → p < j → ∀ (hs : p < a2.size), cmp a2[p] a1[j] ≤ 0 :=
          seg_pred_of_frame q3 q4 (fun x => cmp x a1[j] ≤ 0)
            (fun p h1 h2 hs => p7 p h1 h2 hs hj)
        have left3 : ∀ p, lo ≤ p → p < j → ∀ (hs : p < a3.size), cmp a3[p] a1[j] ≤ 0 := by
          intro p h1 h2 hs
          rw [getElem_of_getElem? (r4 p (by omega)) hs (by omega)]
          exact left2 p h1 h2 _
        have right2 : ∀ p, j + 1 ≤ p → p < hi1 → ∀ (hs : p < a2.size), cmp a1[j] a2[p] ≤ 0 := by
          intro p h1 h2 hs
          rw [getElem_of_getElem? (q4 p (by omega)) hs (by omega)]
          exact p8 p (by omega) (by omega) _ hj
        have right3 : ∀ p, j + 1 ≤ p → p < hi1 → ∀ (hs : p < a3.size), cmp a1[j] a3[p] ≤ 0 :=
          seg_pred_of_frame r3 r4 (fun x => cmp a1[j] x ≤ 0) right2
        have sl : ∀ p q, lo ≤ p → (hpq : p < q) → q < j → ∀ (hq : q < a3.size), cmp (a3[p]'(by omega)) a3[q] ≤ 0 := by
          intro p q h1 h2 h3 hq
          rw [getElem_of_getElem? (r4 p (by omega)) (by omega) (by omega),
            getElem_of_getElem? (r4 q (by omega)) hq (by omega)]
          exact q5 p q h1 h2 h3 (by omega)
        intro p q h1 h2 h3 hq
        by_cases c1 : q < j
        · exact sl p q h1 h2 c1 hq
        · by_cases c2 : q = j
          · subst c2
            rw [ej hq]; exact left3 p h1 h2 _
          · by_cases c3 : p < j
            · exact tp.trans _ _ _ (left3 p h1 c3 (by omega)) (right3 q (by omega) h3 hq)
            · by_cases c4 : p = j
              · subst c4
                rw [ej (by omega)]; exact right3 q (by omega) h3 hq
              · exact r5 p q (by omega) h2 h3 hq


theorem quickCore_spec {cmp : α → α → Int} (tp : TotalPreorder cmp) (a : Array α) :
    ∃ out, quickCore cmp a = .ok out ∧ IsSortOf cmp out a := by
  obtain ⟨out, h1, h2, h3, _, h5⟩ := quickAux_spec tp (a.size + 1) a 0 a.size (Nat.zero_le _)
    (Nat.le_refl _) (by omega)
  refine ⟨out, by simpa [quickCore] using h1, isSortOf_of (by rw [h2]; exact h5) h3⟩

/-! ## Select -/

/-- invariant of `selectLoop`: everything left of the window is `≤` everything from the window on,
everything up to the window's end is `≤` everything right of it -/
structure SelectInv (cmp : α → α → Int) (a : Array α) (lo hi : Nat) : Prop where
  below : ∀ p q, p < lo → lo ≤ q → ∀ (hp : p < a.size) (hq : q < a.size), cmp a[p] a[q] ≤ 0
  above : ∀ p q, p ≤ hi → hi < q → ∀ (hp : p < a.size) (hq : q < a.size), cmp a[p] a[q] ≤ 0

theorem selectInv_frame {cmp : α → α → Int} {a' a : Array α} {lo hi : Nat} (hp : a'.Perm a)
    (hs : a'.size = a.size)
    (frame : ∀ p, (p < lo ∨ hi + 1 ≤ p) → a'[p]? = a[p]?) (inv : SelectInv cmp a lo hi) :
    SelectInv cmp a' lo hi := by
  constructor
  · intro p q h1 h2 hp' hq
    rw [getElem_of_getElem? (frame p (by omega)) hp' (by omega)]
    by_cases c : q < hi + 1
    · exact seg_pred_of_frame hp frame (fun x => cmp a[p] x ≤ 0)
        (fun q g1 g2 gs => inv.below p q h1 g1 _ gs) q h2 c hq
    · rw [getElem_of_getElem? (frame q (by omega)) hq (by omega)]
      exact inv.below p q h1 h2 _ _
  · intro p q h1 h2 hp' hq
    rw [getElem_of_getElem? (frame q (by omega)) hq (by omega)]
    by_cases c : lo ≤ p
    · exact seg_pred_of_frame hp frame (fun x => cmp x a[q] ≤ 0)
        (fun p g1 g2 gs => inv.above p q (by omega) h2 gs _) p c (by omega) hp'
    · rw [getElem_of_getElem? (frame p (by omega)) hp' (by omega)]
      exact inv.above p q h1 h2 _ _

theorem selectLoop_aux {cmp : α → α → Int} (tp : TotalPreorder cmp) (k : Nat) :
    ∀ (f lo hi : Nat) (a : Array α), lo ≤ k → k ≤ hi → hi < a.size → hi - lo < f → SelectInv cmp a lo hi →
      ∃ (out : Array α) (v : α), selectLoop cmp (k : Int) f (lo : Int) (hi : Int) a = .ok (out, v) ∧
        out.size = a.size ∧ out.Perm a ∧ (∀ (h : k < out.size), out[k] = v) ∧
        (∀ p, p < k → ∀ (hp : p < out.size) (hk : k < out.size), cmp out[p] out[k] ≤ 0) ∧
        (∀ q, k < q → ∀ (hq : q < out.size) (hk : k < out.size), cmp out[k] out[q] ≤ 0) := by
  intro f
  induction f with
  | zero => intro lo hi a _ _ _ h; omega
  | succ f ih =>
    intro lo hi a hlk hkh hhi hf inv
    unfold selectLoop
    by_cases hlt : lo < hi
    · have : (lo : Int) < hi := by omega
      simp only [this, ↓reduceIte]
      obtain ⟨a1, j, p1, p2, p3, p4, p5, p6, p7, p8⟩ := partition_spec tp a lo hi hlt hhi
      rw [p1]
      simp only [ok_bind]
      have inv1 : SelectInv cmp a1 lo hi := selectInv_frame p3 p2 (fun p hp => p6 p (by omega)) inv
      have hj : j < a1.size := by omega
      by_cases c1 : j < k
      · have : (j : Int) < k := by omega
        simp only [this, ↓reduceIte]
        have e : ((j : Int) + 1) = ((j + 1 : Nat) : Int) := by omega
        rw [e]
        have inv2 : SelectInv cmp a1 (j+1) hi := by
          refine ⟨?_, inv1.above⟩
          intro p q h1 h2 hp hq
          by_cases c : p < lo
          · exact inv1.below p q c (by omega) hp hq
          · by_cases c' : hi < q
            · exact inv1.above p q (by omega) c' hp hq
            · have hjq := p8 q (by omega) (by omega) hq hj
              by_cases c'' : p = j
              · subst c''; exact hjq
              · exact tp.trans _ _ _ (p7 p (by omega) (by omega) hp hj) hjq
        obtain ⟨out, v, r1, r2, r3, r4, r5, r6⟩ := ih (j+1) hi a1 (by omega) hkh (by omega) (by omega) inv2
        exact ⟨out, v, r1, by omega, r3.trans p3, r4, r5, r6⟩
      · have : ¬ (j : Int) < k := by omega
        simp only [this, ↓reduceIte]
        by_cases c2 : j > k
        · have : (j : Int) > k := by omega
          simp only [this, ↓reduceIte]
          have e : ((j : Int) - 1) = ((j - 1 : Nat) : Int) := by omega
          rw [e]
          have inv2 : SelectInv cmp a1 lo (j-1) := by
            refine ⟨inv1.below, ?_⟩
            intro p q h1 h2 hp hq
            by_cases c : hi < q
            · exact inv1.above p q (by omega) c hp hq
            · by_cases c' : p < lo
              · exact inv1.below p q c' (by omega) hp hq
              · have hpj := p7 p (by omega) (by omega) hp hj
                by_cases c'' : q = j
                · subst c''; exact hpj
                · exact tp.trans _ _ _ hpj (p8 q (by omega) (by omega) hq hj)
          obtain ⟨out, v, r1, r2, r3, r4, r5, r6⟩ := ih lo (j-1) a1 hlk (by omega) (by omega) (by omega) inv2
          exact ⟨out, v, r1, by omega, r3.trans p3, r4, r5, r6⟩
        · have : ¬ (j : Int) > k := by omega
          simp only [this, ↓reduceIte]
          have hjk : j = k := by omega
          subst hjk
          rw [get_nat hj]
          simp only [ok_bind]
          refine ⟨a1, _, rfl, p2, p3, fun _ => rfl, ?_, ?_⟩
          · intro p h1 hp hk
            by_cases c : p < lo
            · exact inv1.below p j c hlk hp hk
            · exact p7 p (by omega) h1 hp hk
          · intro q h1 hq hk
            by_cases c : hi < q
            · exact inv1.above j q hkh c hk hq
            · exact p8 q h1 (by omega) hq hk
    · have : ¬ (lo : Int) < hi := by omega
      simp only [this, ↓reduceIte]
      rw [get_nat (by omega : k < a.size)]
      simp only [ok_bind]
      refine ⟨a, _, rfl, rfl, Array.Perm.refl _, fun _ => rfl, ?_, ?_⟩
      · intro p h1 hp hk
        exact inv.below p k (by omega) hlk hp hk
      · intro q h1 hq hk
        exact inv.above k q hkh (by omega) hk hq


/-! ## rank -/

theorem hasRank_of_split {cmp : α → α → Int} (tp : TotalPreorder cmp) (l : List α) (k : Nat)
    (hk : k < l.length)
    (hl : ∀ p, p < k → ∀ (hp : p < l.length), cmp l[p] l[k] ≤ 0)
    (hr : ∀ q, k < q → ∀ (hq : q < l.length), cmp l[k] l[q] ≤ 0) :
    HasRank cmp l k l[k] := by
  refine ⟨List.getElem_mem hk, ?_, ?_⟩
  · have h0 : (l.drop k).countP (fun x => cmp x l[k] < 0) = 0 := by
      rw [List.countP_eq_zero]
      intro x hx
      obtain ⟨i, hi, e⟩ := List.mem_iff_getElem.1 hx
      rw [List.getElem_drop] at e
      simp only [List.length_drop] at hi
      have hle : cmp l[k] x ≤ 0 := by
        rw [← e]
        by_cases c : i = 0
        · subst c; exact tp.refl _
        · exact hr (k + i) (by omega) (by omega)
      have := tp.flip x l[k]
      simp only [decide_eq_true_eq]
      omega
    have h1 : (l.take k).countP (fun x => cmp x l[k] < 0) ≤ k := by
      refine Nat.le_trans List.countP_le_length ?_
      simp only [List.length_take]; omega
    calc l.countP (fun x => cmp x l[k] < 0)
        = (l.take k ++ l.drop k).countP (fun x => cmp x l[k] < 0) := by rw [List.take_append_drop]
      _ ≤ k := by rw [List.countP_append, h0]; omega
  · have h1 : (l.take (k+1)).countP (fun x => cmp x l[k] ≤ 0) = k + 1 := by
      have hlen : (l.take (k+1)).length = k + 1 := by simp only [List.length_take]; omega
      refine Eq.trans (List.countP_eq_length.2 ?_) hlen
      intro x hx
      obtain ⟨i, hi, e⟩ := List.mem_iff_getElem.1 hx
      rw [List.getElem_take] at e
      rw [hlen] at hi
      simp only [decide_eq_true_eq]
      rw [← e]
      by_cases c : i = k
      · subst c; exact tp.refl _
      · exact hl i (by omega) (by omega)
    calc k < (l.take (k+1)).countP (fun x => cmp x l[k] ≤ 0) + (l.drop (k+1)).countP (fun x => cmp x l[k] ≤ 0) := by omega
      _ = l.countP (fun x => cmp x l[k] ≤ 0) := by rw [← List.countP_append, List.take_append_drop]

theorem hasRank_perm {cmp : α → α → Int} {l l' : List α} {k : Nat} {v : α} (h : l'.Perm l)
    (hr : HasRank cmp l' k v) : HasRank cmp l k v := by
  obtain ⟨h1, h2, h3⟩ := hr
  exact ⟨h.mem_iff.1 h1, by rw [← h.countP_eq]; exact h2, by rw [← h.countP_eq]; exact h3⟩


theorem selectLoop_spec {cmp : α → α → Int} (tp : TotalPreorder cmp) (a : Array α) (k : Nat)
    (hk : k < a.size) :
    ∃ out v, selectLoop cmp (k : Int) (a.size + 1) 0 ((a.size : Int) - 1) a = .ok (out, v) ∧
      out.Perm a ∧ HasRank cmp a.toList k v := by
  have inv : SelectInv cmp a 0 (a.size - 1) :=
    ⟨fun p q h => by omega, fun p q h1 h2 hp hq => by omega⟩
  obtain ⟨out, v, r1, r2, r3, r4, r5, r6⟩ :=
    selectLoop_aux tp k (a.size + 1) 0 (a.size - 1) a (Nat.zero_le _) (by omega) (by omega) (by omega) inv
  have e : (((a.size - 1 : Nat)) : Int) = (a.size : Int) - 1 := by omega
  rw [e] at r1
  refine ⟨out, v, by simpa using r1, r3, ?_⟩
  have hko : k < out.size := by omega
  have hr : HasRank cmp out.toList k out.toList[k] :=
    hasRank_of_split tp out.toList k (by simpa using hko)
      (fun p h hp => by simpa using r5 p h (by simpa using hp) hko)
      (fun q h hq => by simpa using r6 q h (by simpa using hq) hko)
  have ev : out.toList[k]'(by simpa using hko) = v := by simpa using r4 hko
  rw [ev] at hr
  exact hasRank_perm (Array.perm_iff_toList_perm.1 r3) hr

end AlgoVerif.C07
