import AlgoVerif.Proofs.C12AST
/-!
# The AST builder with the explicit stack of node pointers (`astRun`) is `buildAST`

Invariant: the stack holds the paths of the incomplete nodes of the tree in pre-order (top = the leftmost
one), and an incomplete internal node has no children yet.  Then popping a pointer and completing the node
it points to is exactly `fillTree`.
-/
set_option linter.unusedSectionVars false
namespace AlgoVerif.C10
open AlgoVerif AlgoVerif.Gram
variable {T N : Type} [DecidableEq T] [DecidableEq N]

/-- the path one position to the right on the top level -/
def bump : List Nat → List Nat
  | [] => []
  | j :: π => (j + 1) :: π

mutual
/-- paths of the incomplete nodes, in pre-order -/
def holePaths : Tree T N → List (List Nat)
  | .leaf _ (some _) => []
  | .leaf _ none => [[]]
  | .node _ none _ => [[]]
  | .node _ (some _) kids => holePathsKids kids
def holePathsKids : List (Tree T N) → List (List Nat)
  | [] => []
  | k :: ks => (holePaths k).map (fun π => 0 :: π) ++ (holePathsKids ks).map bump
end

mutual
/-- an incomplete internal node has no children -/
def WFT : Tree T N → Prop
  | .leaf _ _ => True
  | .node _ none kids => kids = []
  | .node _ (some _) kids => WFTK kids
def WFTK : List (Tree T N) → Prop
  | [] => True
  | k :: ks => WFT k ∧ WFTK ks
end

/-- what a callback does to the node it pops -/
def complete (e : Event T N) : Tree T N → Outcome (Tree T N) :=
  match e with
  | .tok _ pos => completeLeaf pos
  | .prod p => completeNode p

/-- the pointers a callback pushes -/
def pushed (e : Event T N) (π : List Nat) : List (List Nat) :=
  match e with
  | .tok _ _ => []
  | .prod p => (List.range p.body.length).map (fun i => π ++ [i])

theorem holePathsKids_ne_nil : ∀ (ks : List (Tree T N)) (π : List Nat), π ∈ holePathsKids ks → π ≠ []
  | [], π, h => by simp [holePathsKids] at h
  | k :: ks, π, h => by
    simp only [holePathsKids, List.mem_append, List.mem_map] at h
    rcases h with ⟨π', _, rfl⟩ | ⟨π', hπ', rfl⟩
    · simp
    · have := holePathsKids_ne_nil ks π' hπ'
      cases π' with
      | nil => exact absurd rfl this
      | cons j r => simp [bump]

theorem holePathsKids_newKids (body : List (Sym T N)) :
    holePathsKids (newKids body : List (Tree T N)) = (List.range body.length).map (fun i => [i]) := by
  induction body with
  | nil => rfl
  | cons s b ih =>
    have step : ∀ k : Tree T N, holePaths k = [[]] →
        holePathsKids (k :: newKids b) = (List.range (b.length + 1)).map (fun i => [i]) := by
      intro k hk
      rw [holePathsKids, hk, ih, List.range_succ_eq_map]
      simp [Function.comp_def, bump]
    cases s with
    | term t => exact step (Tree.leaf t none) rfl
    | nonterm n => exact step (Tree.node n none []) rfl

theorem wftk_newKids (body : List (Sym T N)) : WFTK (newKids body : List (Tree T N)) := by
  induction body with
  | nil => trivial
  | cons s b ih =>
    cases s with
    | term t => exact ⟨trivial, ih⟩
    | nonterm n => exact ⟨rfl, ih⟩

theorem pushed_cons (e : Event T N) (j : Nat) (π : List Nat) :
    (pushed e π).map (fun ρ => j :: ρ) = pushed e (j :: π) := by
  cases e with
  | tok _ _ => rfl
  | prod p => simp [pushed, List.map_map, Function.comp_def]

theorem pushed_bump (e : Event T N) (j : Nat) (π : List Nat) :
    (pushed e (j :: π)).map bump = pushed e ((j + 1) :: π) := by
  cases e with
  | tok _ _ => rfl
  | prod p => simp [pushed, List.map_map, Function.comp_def, bump]

mutual
theorem fillTree_none_of_noHoles (e : Event T N) : ∀ t : Tree T N, holePaths t = [] → fillTree e t = none
  | .leaf _ (some _), _ => by simp [fillTree]
  | .leaf _ none, h => by simp [holePaths] at h
  | .node _ none _, h => by simp [holePaths] at h
  | .node A (some p) kids, h => by
    simp only [holePaths] at h
    simp [fillTree, fillKids_none_of_noHoles e kids h]
theorem fillKids_none_of_noHoles (e : Event T N) : ∀ ks : List (Tree T N), holePathsKids ks = [] → fillKids e ks = none
  | [], _ => by simp [fillKids]
  | k :: ks, h => by
    simp only [holePathsKids, List.append_eq_nil_iff, List.map_eq_nil_iff] at h
    simp [fillKids, fillTree_none_of_noHoles e k h.1, fillKids_none_of_noHoles e ks h.2]
end

/-- lifting an `Outcome` of a tree into the answer format of `fillTree` -/
def someO {α : Type} (o : Outcome α) : Option (Outcome α) := some o

mutual
theorem fillTree_eq_updateAt (e : Event T N) : ∀ (t : Tree T N) (π : List Nat) (rest : List (List Nat)),
    WFT t → holePaths t = π :: rest →
      fillTree e t = some (updateAt (complete e) π t) ∧
      ∀ t', updateAt (complete e) π t = .ok t' → WFT t' ∧ holePaths t' = pushed e π ++ rest
  | .leaf _ (some _), π, rest, _, h => by simp [holePaths] at h
  | .leaf t none, π, rest, _, h => by
    simp only [holePaths, List.cons.injEq] at h
    obtain ⟨rfl, rfl⟩ := h
    cases e with
    | tok x pos =>
      refine ⟨by simp [fillTree, updateAt, complete, completeLeaf], ?_⟩
      intro t' ht'
      simp [updateAt, complete, completeLeaf] at ht'
      subst ht'
      simp [WFT, holePaths, pushed]
    | prod p =>
      refine ⟨by simp [fillTree, updateAt, complete, completeNode], ?_⟩
      intro t' ht'
      simp [updateAt, complete, completeNode] at ht'
  | .node A none kids, π, rest, hw, h => by
    simp only [holePaths, List.cons.injEq] at h
    obtain ⟨rfl, rfl⟩ := h
    have hk : kids = [] := hw
    subst hk
    cases e with
    | tok x pos =>
      refine ⟨by simp [fillTree, updateAt, complete, completeLeaf], ?_⟩
      intro t' ht'
      simp [updateAt, complete, completeLeaf] at ht'
    | prod p =>
      refine ⟨by simp [fillTree, updateAt, complete, completeNode], ?_⟩
      intro t' ht'
      simp [updateAt, complete, completeNode] at ht'
      subst ht'
      refine ⟨by simpa [WFT] using wftk_newKids p.body, ?_⟩
      simp [holePaths, holePathsKids_newKids, pushed]
  | .node A (some p) kids, π, rest, hw, h => by
    simp only [holePaths] at h
    have hne : π ≠ [] := holePathsKids_ne_nil kids π (by rw [h]; simp)
    cases π with
    | nil => exact absurd rfl hne
    | cons i π' =>
      obtain ⟨h1, h2⟩ := fillKids_eq_updateKid e kids i π' rest hw h
      constructor
      · simp only [fillTree, h1, updateAt]
        cases updateKid (complete e) i π' kids <;> rfl
      · intro t' ht'
        simp only [updateAt] at ht'
        cases hu : updateKid (complete e) i π' kids with
        | ok kids' =>
          rw [hu] at ht'
          simp at ht'
          subst ht'
          obtain ⟨w1, w2⟩ := h2 kids' hu
          exact ⟨w1, by simpa [holePaths] using w2⟩
        | panic => rw [hu] at ht'; simp at ht'
        | diverge => rw [hu] at ht'; simp at ht'
theorem fillKids_eq_updateKid (e : Event T N) : ∀ (ks : List (Tree T N)) (i : Nat) (π : List Nat) (rest : List (List Nat)),
    WFTK ks → holePathsKids ks = (i :: π) :: rest →
      fillKids e ks = some (updateKid (complete e) i π ks) ∧
      ∀ ks', updateKid (complete e) i π ks = .ok ks' → WFTK ks' ∧ holePathsKids ks' = pushed e (i :: π) ++ rest
  | [], i, π, rest, _, h => by simp [holePathsKids] at h
  | k :: ks, i, π, rest, hw, h => by
    obtain ⟨hwk, hwks⟩ := hw
    simp only [holePathsKids] at h
    cases hk : holePaths k with
    | nil =>
      -- the first hole lies further right
      rw [hk] at h
      simp only [List.map_nil, List.nil_append] at h
      cases hks : holePathsKids ks with
      | nil => rw [hks] at h; simp at h
      | cons π₀ rest₀ =>
        rw [hks] at h
        simp only [List.map_cons, List.cons.injEq] at h
        obtain ⟨hπ, hrest⟩ := h
        have hne := holePathsKids_ne_nil ks π₀ (by rw [hks]; simp)
        cases π₀ with
        | nil => exact absurd rfl hne
        | cons j π₁ =>
          simp only [bump, List.cons.injEq] at hπ
          obtain ⟨hi, hπ'⟩ := hπ
          subst hi; subst hπ'
          obtain ⟨h1, h2⟩ := fillKids_eq_updateKid e ks j π₁ rest₀ hwks hks
          constructor
          · simp only [fillKids, fillTree_none_of_noHoles e k hk, h1, updateKid]
            cases updateKid (complete e) j π₁ ks <;> rfl
          · intro ks' hks'
            simp only [updateKid] at hks'
            cases hu : updateKid (complete e) j π₁ ks with
            | ok ks₁ =>
              rw [hu] at hks'
              simp at hks'
              subst hks'
              obtain ⟨w1, w2⟩ := h2 ks₁ hu
              refine ⟨⟨hwk, w1⟩, ?_⟩
              simp only [holePathsKids, hk, List.map_nil, List.nil_append, w2, List.map_append, pushed_bump, hrest]
            | panic => rw [hu] at hks'; simp at hks'
            | diverge => rw [hu] at hks'; simp at hks'
    | cons π₁ rest₁ =>
      rw [hk] at h
      simp only [List.map_cons, List.cons_append, List.cons.injEq] at h
      obtain ⟨⟨hi, hπ⟩, hrest⟩ := h
      subst hi; subst hπ
      obtain ⟨h1, h2⟩ := fillTree_eq_updateAt e k π₁ rest₁ hwk hk
      constructor
      · simp only [fillKids, h1, updateKid]
        cases updateAt (complete e) π₁ k <;> rfl
      · intro ks' hks'
        simp only [updateKid] at hks'
        cases hu : updateAt (complete e) π₁ k with
        | ok k' =>
          rw [hu] at hks'
          simp at hks'
          subst hks'
          obtain ⟨w1, w2⟩ := h2 k' hu
          refine ⟨⟨w1, hwks⟩, ?_⟩
          simp only [holePathsKids, w2, List.map_append, pushed_cons, List.append_assoc, hrest]
        | panic => rw [hu] at hks'; simp at hks'
        | diverge => rw [hu] at hks'; simp at hks'
end

/-- the two builders agree, step by step -/
theorem astRun_eq_buildAST : ∀ (es : List (Event T N)) (t : Tree T N), WFT t →
    astRun es (t, holePaths t) = (buildAST es t).bind (fun t' => .ok (t', holePaths t'))
  | [], t, _ => by simp [astRun, buildAST, Outcome.bind]
  | e :: es, t, hw => by
    cases hh : holePaths t with
    | nil =>
      simp [astRun, astStep, buildAST, fillTree_none_of_noHoles e t hh, Outcome.bind]
    | cons π rest =>
      obtain ⟨h1, h2⟩ := fillTree_eq_updateAt e t π rest hw hh
      simp only [astRun, astStep, buildAST, h1]
      cases e with
      | tok x pos =>
        cases hu : updateAt (complete (Event.tok x pos)) π t with
        | ok t' =>
          obtain ⟨w1, w2⟩ := h2 t' hu
          have hu' : updateAt (completeLeaf pos) π t = .ok t' := hu
          simp only [hu']
          have := astRun_eq_buildAST es t' w1
          rw [w2] at this
          simpa [pushed] using this
        | panic => have hu' : updateAt (completeLeaf pos) π t = .panic := hu; simp [hu', Outcome.bind]
        | diverge => have hu' : updateAt (completeLeaf pos) π t = .diverge := hu; simp [hu', Outcome.bind]
      | prod p =>
        cases hu : updateAt (complete (Event.prod p)) π t with
        | ok t' =>
          obtain ⟨w1, w2⟩ := h2 t' hu
          have hu' : updateAt (completeNode p) π t = .ok t' := hu
          simp only [hu']
          have := astRun_eq_buildAST es t' w1
          rw [w2] at this
          simpa [pushed] using this
        | panic => have hu' : updateAt (completeNode p) π t = .panic := hu; simp [hu', Outcome.bind]
        | diverge => have hu' : updateAt (completeNode p) π t = .diverge := hu; simp [hu', Outcome.bind]

/-- `ParseAndBuildAST` with the pointer stack returns the tree `buildAST` returns -/
theorem buildASTStack_eq (S : N) (es : List (Event T N)) :
    buildASTStack S es = buildAST es (Tree.node S none []) := by
  unfold buildASTStack
  have := astRun_eq_buildAST es (Tree.node S none [] : Tree T N) (by simp [WFT])
  simp only [holePaths] at this
  rw [this]
  cases buildAST es (Tree.node S none []) <;> rfl

end AlgoVerif.C10
