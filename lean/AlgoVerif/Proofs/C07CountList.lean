import AlgoVerif.Proofs.C07CountingDefs
/-!
# C07 — list lemmas behind key-indexed counting: bucket sizes, offsets, slices
-/
namespace AlgoVerif.C07
open AlgoVerif

variable {α : Type}

/-! ## array segments as lists -/

/-- `a[i..j)` as a list -/
def segL (a : Array α) (i j : Nat) : List α := (a.extract i j).toList

theorem segL_length (a : Array α) (i j : Nat) (h : j ≤ a.size) : (segL a i j).length = j - i := by
  simp [segL]; omega

theorem segL_getElem (a : Array α) (i j t : Nat) (hj : j ≤ a.size) (h : t < (segL a i j).length) :
    (segL a i j)[t] = a[i + t]'(by rw [segL_length a i j hj] at h; omega) := by
  simp [segL]

theorem segL_getElem? (a : Array α) (i j t : Nat) (hj : j ≤ a.size) (h : i + t < j) :
    (segL a i j)[t]? = some (a[i + t]'(by omega)) := by
  have : t < (segL a i j).length := by rw [segL_length a i j hj]; omega
  rw [List.getElem?_eq_getElem this, segL_getElem a i j t hj this]

/-! ## counting keys -/

/-- number of elements with key `r` -/
def cnt (k : α → Nat) (l : List α) (r : Nat) : Nat := l.countP (fun x => k x == r)
/-- number of elements with key `< r` -/
def cntLt (k : α → Nat) (l : List α) (r : Nat) : Nat := l.countP (fun x => decide (k x < r))
/-- number of elements with key in `[h, r)` -/
def cntIn (k : α → Nat) (l : List α) (h r : Nat) : Nat := l.countP (fun x => decide (h ≤ k x ∧ k x < r))

theorem bucket_length (k : α → Nat) (l : List α) (r : Nat) : (bucket k l r).length = cnt k l r := by
  simp [bucket, cnt, List.countP_eq_length_filter]

theorem countP_split (l : List α) (p q s : α → Bool)
    (h : ∀ x, x ∈ l → (p x = true ↔ (q x = true ∨ s x = true)) ∧ ¬ (q x = true ∧ s x = true)) :
    l.countP p = l.countP q + l.countP s := by
  induction l with
  | nil => simp
  | cons x l ih =>
    have hx := h x List.mem_cons_self
    have ih' := ih (fun y hy => h y (List.mem_cons_of_mem _ hy))
    simp only [List.countP_cons]
    cases hp : p x <;> cases hq : q x <;> cases hs : s x <;> simp_all <;> omega

theorem cntLt_succ (k : α → Nat) (l : List α) (r : Nat) : cntLt k l (r+1) = cntLt k l r + cnt k l r := by
  unfold cntLt cnt
  apply countP_split
  intro x _
  simp only [decide_eq_true_eq, beq_iff_eq]
  omega

theorem cntIn_succ (k : α → Nat) (l : List α) (h r : Nat) (hr : h ≤ r) :
    cntIn k l h (r+1) = cntIn k l h r + cnt k l r := by
  unfold cntIn cnt
  apply countP_split
  intro x _
  simp only [decide_eq_true_eq, beq_iff_eq]
  omega

theorem cntIn_self (k : α → Nat) (l : List α) (h : Nat) : cntIn k l h h = 0 := by
  unfold cntIn
  rw [List.countP_eq_zero]
  intro x _
  simp only [decide_eq_true_eq]
  omega

theorem cntLt_zero (k : α → Nat) (l : List α) : cntLt k l 0 = 0 := by
  unfold cntLt
  rw [List.countP_eq_zero]
  intro x _
  simp

theorem cntLt_all (k : α → Nat) (l : List α) (R : Nat) (h : ∀ x, x ∈ l → k x < R) : cntLt k l R = l.length := by
  unfold cntLt
  rw [List.countP_eq_length]
  intro x hx
  simpa using h x hx

/-- `#(k < R) = #(k < h) + #(h ≤ k < R)` -/
theorem cntLt_add_cntIn (k : α → Nat) (l : List α) (h R : Nat) (hR : h ≤ R) :
    cntLt k l R = cntLt k l h + cntIn k l h R := by
  unfold cntLt cntIn
  apply countP_split
  intro x _
  simp only [decide_eq_true_eq]
  omega

theorem cnt_take_succ (k : α → Nat) (l : List α) (t : Nat) (ht : t < l.length) (r : Nat) :
    cnt k (l.take (t+1)) r = cnt k (l.take t) r + (if k l[t] = r then 1 else 0) := by
  unfold cnt
  rw [List.take_succ_eq_append_getElem ht, List.countP_append]
  simp [List.countP_cons]

theorem cnt_take_le (k : α → Nat) (l : List α) (t : Nat) (r : Nat) : cnt k (l.take t) r ≤ cnt k l r := by
  unfold cnt
  exact (List.take_sublist t l).countP_le

/-- the element at position `t` is the `#(take t, key = its key)`-th element of its bucket -/
theorem bucket_getElem_of_pos (k : α → Nat) (l : List α) (t : Nat) (ht : t < l.length) :
    (bucket k l (k l[t]))[cnt k (l.take t) (k l[t])]? = some l[t] := by
  unfold bucket cnt
  generalize hr : k l[t] = r
  have hf : l.filter (fun x => k x == r) =
      (l.take t).filter (fun x => k x == r) ++ l[t] :: (l.drop (t+1)).filter (fun x => k x == r) := by
    conv => lhs; rw [← List.take_append_drop t l, List.drop_eq_getElem_cons ht]
    rw [List.filter_append, List.filter_cons]
    simp [hr]
  rw [hf, List.countP_eq_length_filter, List.getElem?_append_right (Nat.le_refl _)]
  simp

theorem cnt_take_lt (k : α → Nat) (l : List α) (t : Nat) (ht : t < l.length) :
    cnt k (l.take t) (k l[t]) < cnt k l (k l[t]) := by
  have h := bucket_getElem_of_pos k l t ht
  have := (List.getElem?_eq_some_iff.1 h).1
  rwa [bucket_length] at this

/-! ## buckets laid out one after the other -/

/-- `S r` is the offset of bucket `r` when the buckets `B r` (`r ∈ ord`) are laid out from `s0` on -/
def Chain (S : Nat → Nat) (len : Nat → Nat) : Nat → List Nat → Prop
  | _, [] => True
  | s0, r :: rest => S r = s0 ∧ Chain S len (s0 + len r) rest

def total (len : Nat → Nat) (ord : List Nat) : Nat := (ord.map len).sum

theorem chain_append (S : Nat → Nat) (len : Nat → Nat) : ∀ (l1 l2 : List Nat) (s0 : Nat),
    Chain S len s0 (l1 ++ l2) ↔ Chain S len s0 l1 ∧ Chain S len (s0 + total len l1) l2 := by
  intro l1
  induction l1 with
  | nil => intro l2 s0; simp [Chain, total]
  | cons r l1 ih =>
    intro l2 s0
    simp only [List.cons_append, Chain, ih, total, List.map_cons, List.sum_cons]
    constructor
    · rintro ⟨h1, h2, h3⟩; exact ⟨⟨h1, h2⟩, by rw [← Nat.add_assoc]; exact h3⟩
    · rintro ⟨⟨h1, h2⟩, h3⟩; exact ⟨h1, h2, by rw [Nat.add_assoc]; exact h3⟩

/-- bounds and disjointness of the bucket ranges of a chain -/
theorem chain_bounds (S : Nat → Nat) (len : Nat → Nat) : ∀ (ord : List Nat) (s0 : Nat), Chain S len s0 ord →
    (∀ r, r ∈ ord → s0 ≤ S r ∧ S r + len r ≤ s0 + total len ord) := by
  intro ord
  induction ord with
  | nil => intro s0 _ r hr; cases hr
  | cons r0 rest ih =>
    intro s0 hc r hr
    obtain ⟨h1, h2⟩ := hc
    simp only [total, List.map_cons, List.sum_cons]
    rcases List.mem_cons.1 hr with rfl | hr'
    · have : 0 ≤ (rest.map len).sum := Nat.zero_le _
      omega
    · have := ih (s0 + len r0) h2 r hr'
      simp only [total] at this
      omega

theorem chain_disjoint (S : Nat → Nat) (len : Nat → Nat) : ∀ (ord : List Nat) (s0 : Nat), Chain S len s0 ord →
    ord.Nodup → ∀ r r', r ∈ ord → r' ∈ ord → r ≠ r' → (S r + len r ≤ S r' ∨ S r' + len r' ≤ S r) := by
  intro ord
  induction ord with
  | nil => intro s0 _ _ r r' hr; cases hr
  | cons r0 rest ih =>
    intro s0 hc hnd r r' hr hr' hne
    obtain ⟨h1, h2⟩ := hc
    have hnd' := (List.nodup_cons.1 hnd).2
    rcases List.mem_cons.1 hr with rfl | hr1 <;> rcases List.mem_cons.1 hr' with rfl | hr1'
    · exact absurd rfl hne
    · have := chain_bounds S len rest _ h2 r' hr1'
      left; omega
    · have := chain_bounds S len rest _ h2 r hr1
      right; omega
    · exact ih _ h2 hnd' r r' hr1 hr1' hne

/-- a list whose slices at the chain offsets are the buckets is the concatenation of the buckets -/
theorem take_eq_flatMap (L : List α) (B : Nat → List α) (S : Nat → Nat) :
    ∀ (ord : List Nat) (s0 : Nat), Chain S (fun r => (B r).length) s0 ord →
      (∀ r, r ∈ ord → ∀ u, (hu : u < (B r).length) → L[S r + u]? = some (B r)[u]) →
      (L.drop s0).take (total (fun r => (B r).length) ord) = ord.flatMap B := by
  intro ord
  induction ord with
  | nil => intro s0 _ _; simp [total]
  | cons r rest ih =>
    intro s0 hc hpt
    obtain ⟨h1, h2⟩ := hc
    simp only [total, List.map_cons, List.sum_cons, List.flatMap_cons]
    rw [List.take_add]
    congr 1
    · apply List.ext_getElem?
      intro u
      by_cases hu : u < (B r).length
      · rw [List.getElem?_take_of_lt hu, List.getElem?_drop, ← h1, hpt r List.mem_cons_self u hu,
          List.getElem?_eq_getElem hu]
      · have h1' : ((L.drop s0).take (B r).length).length ≤ u := by
          simp only [List.length_take]; omega
        rw [List.getElem?_eq_none h1', List.getElem?_eq_none (by omega)]
    · rw [List.drop_drop]
      have := ih (s0 + (B r).length) h2 (fun r' hr' => hpt r' (List.mem_cons_of_mem _ hr'))
      simpa [total, Nat.add_comm] using this

end AlgoVerif.C07
