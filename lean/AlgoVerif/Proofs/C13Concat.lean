import AlgoVerif.Proofs.C13ConcatLang
/-! C13: what the loops of `Concat` (after the fix) build, and the language theorem. -/
namespace AlgoVerif.C13
open AlgoVerif AlgoVerif.C13.Spec

/-- new bindings are made for identifier `id` only -/
def SM.NewAt (id : Nat) (m m' : SM) : Prop :=
  ∀ id' s v, m'.find id' s = some v → m.find id' s = some v ∨ id' = id

theorem SM.NewAt.refl (id : Nat) (m : SM) : SM.NewAt id m m := fun _ _ _ h => Or.inl h

theorem SM.NewAt.trans {id : Nat} {a b c : SM} (h1 : SM.NewAt id a b) (h2 : SM.NewAt id b c) : SM.NewAt id a c := by
  intro id' s v h
  rcases h2 id' s v h with h' | h'
  · exact h1 id' s v h'
  · right; exact h'

theorem SM.get_newAt (m : SM) (id : Nat) (s : Int) : SM.NewAt id m (m.get id s).1 := by
  intro id' s' v h
  cases hf : m.find id s with
  | some v' => rw [SM.get_of_find hf] at h; left; exact h
  | none =>
    simp only [SM.get, hf] at h
    simp only [SM.find, List.find?_append] at h ⊢
    cases hf' : List.find? (fun e => e.1 == (id', s')) m.tbl with
    | some e => left; simp [hf'] at h ⊢; exact h
    | none =>
      right
      simp only [hf', Option.none_or] at h
      by_cases hk : ((id, s) == (id', s')) = true
      · simp at hk; exact hk.1.symm
      · simp [List.find?, hk] at h

theorem SM.mapList_newAt (m : SM) (id : Nat) (ts : List Int) : SM.NewAt id m (m.mapList id ts).1 := by
  simp only [SM.mapList]
  suffices h : ∀ (m0 : SM) (acc : List Int), SM.NewAt id m0
      (ts.foldl (fun (acc : SM × List State) t => ((acc.1.get id t).1, acc.2 ++ [(acc.1.get id t).2])) (m0, acc)).1 from h m []
  induction ts with
  | nil => intro m0 acc; exact SM.NewAt.refl _ _
  | cons t ts ih =>
    intro m0 acc
    simp only [List.foldl_cons]
    exact SM.NewAt.trans (SM.get_newAt m0 id t) (ih _ _)

/-! ### the loops -/

theorem NFA.Δ_foldl_add_sources (sp : List Int) (a : Int) (nx : List Int) (C : NFA) (x b y : Int) :
    (sp.foldl (fun c s => c.add s a nx) C).Δ x b y ↔ C.Δ x b y ∨ (x ∈ sp ∧ b = a ∧ y ∈ nx) := by
  induction sp generalizing C with
  | nil => simp
  | cons s sp ih =>
    simp only [List.foldl_cons]
    rw [ih, NFA.Δ_add]
    simp only [List.mem_cons]
    constructor
    · rintro ((h | ⟨h1, h2, h3⟩) | ⟨h1, h2, h3⟩)
      · left; exact h
      · right; exact ⟨Or.inl h1, h2, h3⟩
      · right; exact ⟨Or.inr h1, h2, h3⟩
    · rintro (h | ⟨h1 | h1, h2, h3⟩)
      · left; left; exact h
      · left; right; exact ⟨h1, h2, h3⟩
      · right; exact ⟨h1, h2, h3⟩

theorem NFA.start_foldl_add_sources (sp : List Int) (a : Int) (nx : List Int) (C : NFA) :
    (sp.foldl (fun c s => c.add s a nx) C).start = C.start ∧ (sp.foldl (fun c s => c.add s a nx) C).final = C.final := by
  induction sp generalizing C with
  | nil => simp
  | cons s sp ih => simp only [List.foldl_cons]; rw [(ih _).1, (ih _).2]; simp

def concatInner (id : Nat) (sp : List Int) (es : List (Int × List Int)) (m : SM) (C : NFA) : SM × NFA :=
  es.foldl (fun (a : SM × NFA) e =>
    ((a.1.mapList id e.2).1, sp.foldl (fun c s => c.add s e.1 (a.1.mapList id e.2).2) a.2)) (m, C)

theorem concatInner_spec (id : Nat) (sp : List Int) (es : List (Int × List Int)) (m : SM) (C : NFA) (lo : Int)
    (hm : m.Inv lo) :
    m.Le (concatInner id sp es m C).1 ∧ (concatInner id sp es m C).1.Inv lo ∧
    SM.NewAt id m (concatInner id sp es m C).1 ∧
    (concatInner id sp es m C).2.start = C.start ∧
    (∀ e ∈ es, ∀ t ∈ e.2, ∃ y, (concatInner id sp es m C).1.find id t = some y) ∧
    (∀ x a y, (concatInner id sp es m C).2.Δ x a y ↔ C.Δ x a y ∨
      (x ∈ sp ∧ ∃ nx, (a, nx) ∈ es ∧ ∃ t ∈ nx, (concatInner id sp es m C).1.find id t = some y)) := by
  induction es generalizing m C with
  | nil => simp [concatInner]; exact ⟨SM.Le.refl _, hm, SM.NewAt.refl _ _⟩
  | cons e es ih =>
    simp only [concatInner, List.foldl_cons]
    obtain ⟨g1, g2, g3, g4⟩ := SM.mapList_spec m lo hm id e.2
    have := ih (m.mapList id e.2).1 (sp.foldl (fun c s => c.add s e.1 (m.mapList id e.2).2) C) g2
    simp only [concatInner] at this
    obtain ⟨k1, k2, kn, k3, k5, k6⟩ := this
    refine ⟨SM.Le.trans g1 k1, k2, SM.NewAt.trans (SM.mapList_newAt m id e.2) kn,
      by rw [k3]; exact (NFA.start_foldl_add_sources _ _ _ _).1, ?_, ?_⟩
    · intro e' he' t ht
      simp at he'; rcases he' with rfl | he'
      · obtain ⟨y, hy⟩ := g3 t ht; exact ⟨y, k1.keep _ _ _ hy⟩
      · exact k5 e' he' t ht
    · intro x a y
      rw [k6, NFA.Δ_foldl_add_sources, g4]
      obtain ⟨a1, nx1⟩ := e
      simp only [List.mem_cons]
      constructor
      · rintro ((h | ⟨h1, h2, t, h3, h4⟩) | ⟨h1, nx, h2, h3⟩)
        · left; exact h
        · right; exact ⟨h1, nx1, Or.inl (by rw [h2]), t, h3, k1.keep _ _ _ h4⟩
        · right; exact ⟨h1, nx, Or.inr h2, h3⟩
      · rintro (h | ⟨h1, nx, h2 | h2, t, h3, h4⟩)
        · left; left; exact h
        · injection h2 with e1 e2; subst e1; subst e2
          left; right
          obtain ⟨y', hy'⟩ := g3 t h3
          have := SM.find_fun h4 (k1.keep _ _ _ hy'); subst this
          exact ⟨h1, rfl, t, h3, hy'⟩
        · right; exact ⟨h1, nx, h2, t, h3, h4⟩

/-- the main loop of `Concat` for one operand, on a raw table -/
def concatTransL (id : Nat) (startN : Int) (extra : List Int) (tr : List (Int × List (Int × List Int)))
    (m : SM) (C : NFA) : SM × NFA :=
  tr.foldl (fun (a : SM × NFA) st =>
    concatInner id (if st.1 = startN then extra else [(a.1.get id st.1).2]) st.2
      (if st.1 = startN then a.1 else (a.1.get id st.1).1) a.2) (m, C)

theorem concatTransL_spec (id : Nat) (startN : Int) (extra : List Int) (tr : List (Int × List (Int × List Int)))
    (m : SM) (C : NFA) (lo : Int) (hm : m.Inv lo) :
    m.Le (concatTransL id startN extra tr m C).1 ∧ (concatTransL id startN extra tr m C).1.Inv lo ∧
    SM.NewAt id m (concatTransL id startN extra tr m C).1 ∧
    (concatTransL id startN extra tr m C).2.start = C.start ∧
    (∀ s a t, tblΔ tr s a t → (∃ y, (concatTransL id startN extra tr m C).1.find id t = some y) ∧
      (s ≠ startN → ∃ x, (concatTransL id startN extra tr m C).1.find id s = some x)) ∧
    (∀ x a y, (concatTransL id startN extra tr m C).2.Δ x a y ↔ C.Δ x a y ∨
      ∃ s t, tblΔ tr s a t ∧ (concatTransL id startN extra tr m C).1.find id t = some y ∧
        ((s ≠ startN ∧ (concatTransL id startN extra tr m C).1.find id s = some x) ∨ (s = startN ∧ x ∈ extra))) := by
  induction tr generalizing m C with
  | nil => simp [concatTransL, tblΔ]; exact ⟨SM.Le.refl _, hm, SM.NewAt.refl _ _⟩
  | cons st tr ih =>
    obtain ⟨s1, es1⟩ := st
    simp only [concatTransL, List.foldl_cons]
    by_cases hs1 : s1 = startN
    · -- the start state of the operand: sources are the previous final states (and its own copy)
      subst hs1
      simp only [if_true]
      obtain ⟨c1, c2, cn, c3, c5, c6⟩ := concatInner_spec id extra es1 m C lo hm
      have := ih (concatInner id extra es1 m C).1 (concatInner id extra es1 m C).2 c2
      simp only [concatTransL] at this
      obtain ⟨k1, k2, kn, k3, k5, k6⟩ := this
      refine ⟨SM.Le.trans c1 k1, k2, SM.NewAt.trans cn kn, by rw [k3, c3], ?_, ?_⟩
      · intro s a t hd
        obtain ⟨st', h1, nx, h2, h3⟩ := hd
        simp at h1; rcases h1 with h1 | h1
        · obtain ⟨rfl, rfl⟩ := h1
          obtain ⟨y, hy⟩ := c5 (a, nx) h2 t h3
          exact ⟨⟨y, k1.keep _ _ _ hy⟩, fun h => absurd rfl h⟩
        · exact k5 s a t ⟨st', h1, nx, h2, h3⟩
      · intro x a y
        rw [k6, c6]
        constructor
        · rintro ((h | ⟨h1, nx, h2, t, h3, h4⟩) | ⟨s, t, h1, h2, h3⟩)
          · left; exact h
          · right
            exact ⟨s1, t, ⟨es1, by simp, nx, h2, h3⟩, k1.keep _ _ _ h4, Or.inr ⟨rfl, h1⟩⟩
          · right
            obtain ⟨st', g1', g2'⟩ := h1
            exact ⟨s, t, ⟨st', by simp [g1'], g2'⟩, h2, h3⟩
        · rintro (h | ⟨s, t, ⟨st', h1, nx, h2, h3⟩, h4, h5⟩)
          · left; left; exact h
          · simp at h1; rcases h1 with h1 | h1
            · obtain ⟨rfl, rfl⟩ := h1
              left; right
              obtain ⟨y', hy'⟩ := c5 (a, nx) h2 t h3
              have e2 := SM.find_fun h4 (k1.keep _ _ _ hy'); subst e2
              rcases h5 with ⟨hne, _⟩ | ⟨_, hx⟩
              · exact absurd rfl hne
              · exact ⟨hx, nx, h2, t, h3, hy'⟩
            · right; exact ⟨s, t, ⟨st', h1, nx, h2, h3⟩, h4, h5⟩
    · simp only [hs1, if_false]
      obtain ⟨g1, g2, g3⟩ := SM.get_spec m lo hm id s1
      obtain ⟨c1, c2, cn, c3, c5, c6⟩ := concatInner_spec id [(m.get id s1).2] es1 (m.get id s1).1 C lo g2
      have := ih (concatInner id [(m.get id s1).2] es1 (m.get id s1).1 C).1
        (concatInner id [(m.get id s1).2] es1 (m.get id s1).1 C).2 c2
      simp only [concatTransL] at this
      obtain ⟨k1, k2, kn, k3, k5, k6⟩ := this
      have hss := k1.keep _ _ _ (c1.keep _ _ _ g3)
      refine ⟨SM.Le.trans g1 (SM.Le.trans c1 k1), k2,
        SM.NewAt.trans (SM.get_newAt m id s1) (SM.NewAt.trans cn kn), by rw [k3, c3], ?_, ?_⟩
      · intro s a t hd
        obtain ⟨st', h1, nx, h2, h3⟩ := hd
        simp at h1; rcases h1 with h1 | h1
        · obtain ⟨rfl, rfl⟩ := h1
          obtain ⟨y, hy⟩ := c5 (a, nx) h2 t h3
          exact ⟨⟨y, k1.keep _ _ _ hy⟩, fun _ => ⟨_, hss⟩⟩
        · exact k5 s a t ⟨st', h1, nx, h2, h3⟩
      · intro x a y
        rw [k6, c6]
        constructor
        · rintro ((h | ⟨h1, nx, h2, t, h3, h4⟩) | ⟨s, t, h1, h2, h3⟩)
          · left; exact h
          · right
            simp at h1
            exact ⟨s1, t, ⟨es1, by simp, nx, h2, h3⟩, k1.keep _ _ _ h4, Or.inl ⟨hs1, by rw [h1]; exact hss⟩⟩
          · right
            obtain ⟨st', g1', g2'⟩ := h1
            exact ⟨s, t, ⟨st', by simp [g1'], g2'⟩, h2, h3⟩
        · rintro (h | ⟨s, t, ⟨st', h1, nx, h2, h3⟩, h4, h5⟩)
          · left; left; exact h
          · simp at h1; rcases h1 with h1 | h1
            · obtain ⟨rfl, rfl⟩ := h1
              left; right
              obtain ⟨y', hy'⟩ := c5 (a, nx) h2 t h3
              have e2 := SM.find_fun h4 (k1.keep _ _ _ hy'); subst e2
              rcases h5 with ⟨_, hx⟩ | ⟨he, _⟩
              · have e1 := SM.find_fun hx hss; subst e1
                exact ⟨by simp, nx, h2, t, h3, hy'⟩
              · exact absurd he hs1
            · right; exact ⟨s, t, ⟨st', h1, nx, h2, h3⟩, h4, h5⟩

/-- the finals loop of `Concat` -/
def concatFinals (id : Nat) (startN : Int) (P startL : List Int) (fin : List Int) (m : SM) (acc : List Int) : SM × List Int :=
  fin.foldl (fun (a : SM × List Int) f =>
    if f = startN then (a.1, a.2 ++ P ++ startL) else ((a.1.get id f).1, a.2 ++ [(a.1.get id f).2])) (m, acc)

theorem concatFinals_spec (id : Nat) (startN : Int) (P startL : List Int) (fin : List Int) (m : SM) (acc : List Int)
    (lo : Int) (hm : m.Inv lo) :
    m.Le (concatFinals id startN P startL fin m acc).1 ∧ (concatFinals id startN P startL fin m acc).1.Inv lo ∧
    SM.NewAt id m (concatFinals id startN P startL fin m acc).1 ∧
    (∀ f ∈ fin, f ≠ startN → ∃ x, (concatFinals id startN P startL fin m acc).1.find id f = some x) ∧
    (∀ x, x ∈ (concatFinals id startN P startL fin m acc).2 ↔ x ∈ acc ∨
      (∃ f ∈ fin, f ≠ startN ∧ (concatFinals id startN P startL fin m acc).1.find id f = some x) ∨
      (startN ∈ fin ∧ (x ∈ P ∨ x ∈ startL))) := by
  induction fin generalizing m acc with
  | nil => simp [concatFinals]; exact ⟨SM.Le.refl _, hm, SM.NewAt.refl _ _⟩
  | cons f fin ih =>
    simp only [concatFinals, List.foldl_cons]
    by_cases hf : f = startN
    · subst hf
      simp only [if_true]
      have := ih m (acc ++ P ++ startL) hm
      simp only [concatFinals] at this
      obtain ⟨k1, k2, kn, k3, k4⟩ := this
      refine ⟨k1, k2, kn, ?_, ?_⟩
      · intro f' hf' hne
        simp at hf'; rcases hf' with rfl | hf'
        · exact absurd rfl hne
        · exact k3 f' hf' hne
      · intro x
        rw [k4]
        simp only [List.mem_append, List.mem_cons]
        constructor
        · rintro (((h | h) | h) | ⟨f', h1, h2, h3⟩ | ⟨h1, h2⟩)
          · left; exact h
          · right; right; exact ⟨Or.inl trivial, Or.inl h⟩
          · right; right; exact ⟨Or.inl trivial, Or.inr h⟩
          · right; left; exact ⟨f', Or.inr h1, h2, h3⟩
          · right; right; exact ⟨Or.inr h1, h2⟩
        · rintro (h | ⟨f', h1 | h1, h2, h3⟩ | ⟨_, h2 | h2⟩)
          · left; left; left; exact h
          · exact absurd h1 h2
          · right; left; exact ⟨f', h1, h2, h3⟩
          · left; left; right; exact h2
          · left; right; exact h2
    · simp only [hf, if_false]
      obtain ⟨g1, g2, g3⟩ := SM.get_spec m lo hm id f
      have := ih (m.get id f).1 (acc ++ [(m.get id f).2]) g2
      simp only [concatFinals] at this
      obtain ⟨k1, k2, kn, k3, k4⟩ := this
      refine ⟨SM.Le.trans g1 k1, k2, SM.NewAt.trans (SM.get_newAt m id f) kn, ?_, ?_⟩
      · intro f' hf' hne
        simp at hf'; rcases hf' with rfl | hf'
        · exact ⟨_, k1.keep _ _ _ g3⟩
        · exact k3 f' hf' hne
      · intro x
        rw [k4]
        simp only [List.mem_append, List.mem_cons, List.not_mem_nil, or_false]
        constructor
        · rintro ((h | h) | ⟨f', h1, h2, h3⟩ | ⟨h1, h2⟩)
          · left; exact h
          · right; left; exact ⟨f, Or.inl rfl, hf, by rw [h]; exact k1.keep _ _ _ g3⟩
          · right; left; exact ⟨f', Or.inr h1, h2, h3⟩
          · right; right; exact ⟨Or.inr h1, h2⟩
        · rintro (h | ⟨f', h1 | h1, h2, h3⟩ | ⟨h1 | h1, h2⟩)
          · left; left; exact h
          · subst h1; left; right; exact SM.find_fun h3 (k1.keep _ _ _ g3)
          · right; left; exact ⟨f', h1, h2, h3⟩
          · exact absurd h1.symm hf
          · right; right; exact ⟨h1, h2⟩

theorem NFA.hasEdgeTo_iff (n : NFA) (q : Int) : n.hasEdgeTo q = true ↔ ∃ s a, tblΔ n.trans s a q := by
  simp only [NFA.hasEdgeTo, List.any_eq_true, tblΔ]
  constructor
  · rintro ⟨st, h1, e, h2, h3⟩
    exact ⟨st.1, e.1, st.2, h1, e.2, h2, by simpa using h3⟩
  · rintro ⟨s, a, st, h1, nx, h2, h3⟩
    exact ⟨(s, st), h1, (a, nx), h2, by simpa using h3⟩

theorem concatStep_eq (acc : ConcatSt) (id : Nat) (nfa : NFA) :
    concatStep acc id nfa =
      let m0 := if nfa.hasEdgeTo nfa.start then (acc.m.get id nfa.start).1 else acc.m
      let startL : List State := if nfa.hasEdgeTo nfa.start then [(acc.m.get id nfa.start).2] else []
      let r := concatTransL id nfa.start (acc.final ++ startL) nfa.trans m0 acc.nfa
      let fin := concatFinals id nfa.start acc.final startL nfa.final r.1 []
      ⟨fin.1, r.2, fin.2⟩ := rfl

end AlgoVerif.C13

namespace AlgoVerif.C13
open AlgoVerif AlgoVerif.C13.Spec

/-- invariant of the `for id, nfa := range nfas` loop of `Concat` -/
structure CInv (k : Nat) (st : ConcatSt) (Acc : Lang) : Prop where
  inv : st.m.Inv 0
  ids : ∀ id s v, st.m.find id s = some v → id < k
  start : st.nfa.start = 0
  edges : ∀ x a y, st.nfa.Δ x a y → x ≤ st.m.last ∧ y ≤ st.m.last
  fin : ∀ p : Int, p ∈ st.final → p ≤ st.m.last
  lang : ∀ w, (∃ p ∈ st.final, Steps st.nfa.Δ 0 w p) ↔ Acc w

theorem concatStep_inv (k : Nat) (st : ConcatSt) (Acc : Lang) (n : NFA) (hwf : n.WF) (h : CInv k st Acc) :
    CInv (k + 1) (concatStep st k n) (Lang.concat Acc n.lang) := by
  rw [concatStep_eq]
  -- the pre-scan
  obtain ⟨m0, startL, hm0, hle0, hnew0, hsl1, hsl2, hdef⟩ : ∃ (m0 : SM) (startL : List Int), m0.Inv 0 ∧ st.m.Le m0 ∧
      SM.NewAt k st.m m0 ∧
      (∀ x ∈ startL, n.hasEdgeTo n.start = true ∧ m0.find k n.start = some x) ∧
      (n.hasEdgeTo n.start = true → ∃ x, x ∈ startL) ∧
      m0 = (if n.hasEdgeTo n.start then (st.m.get k n.start).1 else st.m) ∧
      startL = (if n.hasEdgeTo n.start then [(st.m.get k n.start).2] else []) := by
    by_cases hl : n.hasEdgeTo n.start = true
    · obtain ⟨g1, g2, g3⟩ := SM.get_spec st.m 0 h.inv k n.start
      exact ⟨(st.m.get k n.start).1, [(st.m.get k n.start).2], g2, g1, SM.get_newAt _ _ _,
        by intro x hx; simp at hx; subst hx; exact ⟨hl, g3⟩,
        fun _ => ⟨(st.m.get k n.start).2, by simp⟩, by simp [hl], by simp [hl]⟩
    · exact ⟨st.m, [], h.inv, SM.Le.refl _, SM.NewAt.refl _ _, by simp, fun h' => absurd h' hl, by simp [hl], by simp [hl]⟩
  obtain ⟨hdef1, hdef2⟩ := hdef
  simp only [← hdef1, ← hdef2]
  obtain ⟨t1, t2, tn, t3, t5, t6⟩ := concatTransL_spec k n.start (st.final ++ startL) n.trans m0 st.nfa 0 hm0
  generalize concatTransL k n.start (st.final ++ startL) n.trans m0 st.nfa = r at t1 t2 tn t3 t5 t6
  obtain ⟨f1, f2, fn, f3, f4⟩ := concatFinals_spec k n.start st.final startL n.final r.1 [] 0 t2
  generalize concatFinals k n.start st.final startL n.final r.1 [] = fin at f1 f2 fn f3 f4
  have hle : st.m.Le fin.1 := SM.Le.trans hle0 (SM.Le.trans t1 f1)
  have hnew : SM.NewAt k st.m fin.1 := SM.NewAt.trans hnew0 (SM.NewAt.trans tn fn)
  have hL : (0 : Int) ≤ st.m.last := h.inv.lo_le
  -- freshness of the copies
  have hfresh : ∀ s x, fin.1.find k s = some x → st.m.last < x := by
    intro s x hx
    rcases hle.fresh k s x hx with h' | h'
    · exact absurd (h.ids _ _ _ h') (by omega)
    · exact h'
  have hloop : ∀ s a, n.Δ s a n.start → n.hasEdgeTo n.start = true := by
    intro s a hd
    exact (n.hasEdgeTo_iff _).2 ⟨s, a, (tblΔ_iff hwf _ _ _).2 hd⟩
  have hbound : ∀ s a t, n.Δ s a t → ∃ y, fin.1.find k t = some y := by
    intro s a t hd
    obtain ⟨⟨y, hy⟩, _⟩ := t5 s a t ((tblΔ_iff hwf _ _ _).2 hd)
    exact ⟨y, f1.keep _ _ _ hy⟩
  have hstartL : ∀ x, x ∈ startL ↔ (n.hasEdgeTo n.start = true ∧ fin.1.find k n.start = some x) := by
    intro x
    constructor
    · intro hx; obtain ⟨a1, a2⟩ := hsl1 x hx
      exact ⟨a1, f1.keep _ _ _ (t1.keep _ _ _ a2)⟩
    · rintro ⟨a1, a2⟩
      obtain ⟨x', hx'⟩ := hsl2 a1
      have := SM.find_fun a2 (f1.keep _ _ _ (t1.keep _ _ _ (hsl1 x' hx').2))
      rw [this]; exact hx'
  have h5 : ∀ x a y, r.2.Δ x a y ↔ st.nfa.Δ x a y ∨
      ∃ s t, n.Δ s a t ∧ fin.1.find k t = some y ∧
        (Copy n (fin.1.find k) (n.hasEdgeTo n.start = true) s x ∨ (s = n.start ∧ x ∈ st.final)) := by
    intro x a y
    rw [t6]
    constructor
    · rintro (h' | ⟨s, t, a1, a2, a3⟩)
      · left; exact h'
      · right
        refine ⟨s, t, (tblΔ_iff hwf _ _ _).1 a1, f1.keep _ _ _ a2, ?_⟩
        rcases a3 with ⟨b1, b2⟩ | ⟨b1, b2⟩
        · left; exact ⟨f1.keep _ _ _ b2, fun hs => absurd hs b1⟩
        · simp only [List.mem_append] at b2
          rcases b2 with b2 | b2
          · right; exact ⟨b1, b2⟩
          · left; rw [b1]; exact ⟨((hstartL x).1 b2).2, fun _ => ((hstartL x).1 b2).1⟩
    · rintro (h' | ⟨s, t, a1, a2, a3⟩)
      · left; exact h'
      · right
        have hd := (tblΔ_iff hwf _ _ _).2 a1
        obtain ⟨⟨y', hy'⟩, hsb⟩ := t5 s a t hd
        have e := SM.find_fun a2 (f1.keep _ _ _ hy'); subst e
        refine ⟨s, t, hd, hy', ?_⟩
        rcases a3 with ⟨b1, b2⟩ | ⟨b1, b2⟩
        · by_cases hs : s = n.start
          · right; refine ⟨hs, ?_⟩
            simp only [List.mem_append]; right
            exact (hstartL x).2 ⟨b2 hs, by rw [← hs]; exact b1⟩
          · left
            obtain ⟨x', hx'⟩ := hsb hs
            have e := SM.find_fun b1 (f1.keep _ _ _ hx'); subst e
            exact ⟨hs, hx'⟩
        · right; exact ⟨b1, by simp [b2]⟩
  have h6 : ∀ x, x ∈ fin.2 ↔ (∃ f ∈ n.final, Copy n (fin.1.find k) (n.hasEdgeTo n.start = true) f x) ∨
      (n.start ∈ n.final ∧ x ∈ st.final) := by
    intro x
    rw [f4]
    simp only [List.not_mem_nil, false_or]
    constructor
    · rintro (⟨f, a1, a2, a3⟩ | ⟨a1, a2 | a2⟩)
      · left; exact ⟨f, a1, a3, fun hs => absurd hs a2⟩
      · right; exact ⟨a1, a2⟩
      · left; exact ⟨n.start, a1, ((hstartL x).1 a2).2, fun _ => ((hstartL x).1 a2).1⟩
    · rintro (⟨f, a1, a2, a3⟩ | ⟨a1, a2⟩)
      · by_cases hf : f = n.start
        · right; subst hf; exact ⟨a1, Or.inr ((hstartL x).2 ⟨a3 rfl, a2⟩)⟩
        · left; exact ⟨f, a1, hf, a2⟩
      · right; exact ⟨a1, Or.inl a2⟩
  refine ⟨f2, ?_, by rw [t3]; exact h.start, ?_, ?_, ?_⟩
  · intro id s v hv
    rcases hnew id s v hv with h' | h'
    · have := h.ids _ _ _ h'; omega
    · omega
  · intro x a y hd
    show x ≤ fin.1.last ∧ y ≤ fin.1.last
    rcases (h5 x a y).1 hd with h' | ⟨s, t, a1, a2, a3⟩
    · have := h.edges _ _ _ h'; have := hle.last; omega
    · have hy := (SM.find_range f2 a2).2
      rcases a3 with b | ⟨_, b⟩
      · have := (SM.find_range f2 b.1).2; omega
      · have := h.fin _ b; have := hle.last; omega
  · intro p hp
    show p ≤ fin.1.last
    rcases (h6 p).1 hp with ⟨f, _, b⟩ | ⟨_, b⟩
    · exact (SM.find_range f2 b.1).2
    · have := h.fin _ b; have := hle.last; omega
  · intro w
    show (∃ p ∈ fin.2, Steps r.2.Δ 0 w p) ↔ _
    rw [concat_step_lang st.nfa.Δ r.2.Δ st.final fin.2 st.m.last n (fin.1.find k) (n.hasEdgeTo n.start = true)
      h.edges h.fin hfresh (fun s s' x a b => (SM.inj f2 a b).2) hbound hloop h5 h6 0 hL w]
    simp only [Lang.concat]
    constructor
    · rintro ⟨u, v, e, hu, hv⟩; exact ⟨u, v, e, (h.lang u).1 hu, hv⟩
    · rintro ⟨u, v, e, hu, hv⟩; exact ⟨u, v, e, (h.lang u).2 hu, hv⟩

/-- left-nested concatenation, as the loop accumulates it -/
def leftConcat (Acc : Lang) : List Lang → Lang
  | [] => Acc
  | L :: Ls => leftConcat (Lang.concat Acc L) Ls

theorem leftConcat_iff (Acc : Lang) (Ls : List Lang) (w : Word) :
    leftConcat Acc Ls w ↔ Lang.concat Acc (Lang.concatAll Ls) w := by
  induction Ls generalizing Acc w with
  | nil =>
    simp only [leftConcat, Lang.concat, Lang.concatAll]
    constructor
    · intro h; exact ⟨w, [], by simp, h, rfl⟩
    · rintro ⟨u, v, e, hu, rfl⟩; simpa [e] using hu
  | cons L Ls ih =>
    simp only [leftConcat]
    rw [ih]
    simp only [Lang.concat, Lang.concatAll]
    constructor
    · rintro ⟨u, v, e, ⟨u1, u2, e1, h1, h2⟩, hv⟩
      exact ⟨u1, u2 ++ v, by rw [e, e1]; simp, h1, u2, v, rfl, h2, hv⟩
    · rintro ⟨u, v, e, hu, v1, v2, e1, h1, h2⟩
      exact ⟨u ++ v1, v2, by rw [e, e1]; simp, ⟨u, v1, rfl, hu, h1⟩, h2⟩

theorem concatFold_inv (nfas : List NFA) (k : Nat) (st : ConcatSt) (Acc : Lang) (hwf : ∀ n ∈ nfas, n.WF)
    (h : CInv k st Acc) :
    CInv (k + nfas.length) (foldlIdx concatStep st nfas k) (leftConcat Acc (nfas.map NFA.lang)) := by
  induction nfas generalizing k st Acc with
  | nil => simpa [foldlIdx, leftConcat] using h
  | cons n nfas ih =>
    simp only [foldlIdx, List.map_cons, leftConcat, List.length_cons]
    have := ih (k + 1) (concatStep st k n) _ (fun n' hn' => hwf n' (by simp [hn']))
      (concatStep_inv k st Acc n (hwf n (by simp)) h)
    rw [show k + (nfas.length + 1) = k + 1 + nfas.length by omega]
    exact this

/-- `Concat` accepts exactly the concatenation of the operand languages, for every word -/
theorem NFA.concat_lang (nfas : List NFA) (hwf : ∀ n ∈ nfas, n.WF) (w : Word) :
    (NFA.concat nfas).lang w ↔ Lang.concatAll (nfas.map NFA.lang) w := by
  have h0 : CInv 0 ⟨SM.new 0, NFA.new 0 [0], [0]⟩ (fun w => w = []) := by
    refine ⟨SM.Inv_new 0, ?_, rfl, ?_, ?_, ?_⟩
    · intro id s v hv; simp [SM.find, SM.new] at hv
    · intro x a y hd; exact absurd hd (by simp [NFA.new, NFA.empty_Δ])
    · intro p hp; simp at hp; subst hp; simp [SM.new]
    · intro w
      constructor
      · rintro ⟨p, _, hs⟩
        cases hs with
        | nil => rfl
        | eps hd _ => exact absurd hd (by simp [NFA.new, NFA.empty_Δ])
        | sym hd _ => exact absurd hd (by simp [NFA.new, NFA.empty_Δ])
      · rintro rfl; exact ⟨0, by simp, Steps.nil _⟩
  have hinv := concatFold_inv nfas 0 _ _ hwf h0
  obtain ⟨r, hr⟩ : ∃ r, r = foldlIdx concatStep ⟨SM.new 0, NFA.new 0 [0], [0]⟩ nfas 0 := ⟨_, rfl⟩
  rw [← hr] at hinv
  have hc : NFA.concat nfas = { r.nfa with final := mkSet r.final } := by rw [hr]; rfl
  have key : (NFA.concat nfas).lang w ↔ ∃ p ∈ r.final, Steps r.nfa.Δ 0 w p := by
    rw [hc]
    simp only [NFA.lang, nfaLang]
    have hΔ : ({ r.nfa with final := mkSet r.final } : NFA).Δ = r.nfa.Δ := rfl
    rw [hΔ, show ({ r.nfa with final := mkSet r.final } : NFA).start = 0 from hinv.start]
    constructor
    · rintro ⟨f, hf, hp⟩; exact ⟨f, by simpa using hf, Steps.of_path hp⟩
    · rintro ⟨p, hp, hs⟩; exact ⟨p, by simpa using hp, Steps.to_path hs⟩
  rw [key, hinv.lang w, leftConcat_iff]
  simp only [Lang.concat]
  constructor
  · rintro ⟨u, v, e, rfl, hv⟩; simpa [e] using hv
  · intro hv; exact ⟨[], w, rfl, rfl, hv⟩

end AlgoVerif.C13
