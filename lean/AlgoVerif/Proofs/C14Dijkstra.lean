import AlgoVerif.Proofs.C14Heap
/-!
# C14 proofs — Dijkstra (`ShortestPathTree`) on a directed graph without negative weights

Ghost state: `D`, the vertices already deleted from the queue.  Invariant `DInv`: queue keys are the
tentative distances of the queued (not yet deleted) vertices; every reached vertex is deleted or queued;
deleted vertices have all their out-edges relaxed and are never changed again; every reached vertex has an
`edgeTo` chain back to the source through deleted vertices whose weight is exactly its `distTo`.
At the end nothing is queued, so no edge is relaxable and every finite `distTo` is realised: `distTo` is the
shortest distance.
-/
namespace AlgoVerif.C14

def SPT.dist (t : SPT) (v : Nat) : Option Int := t.distTo.getD v none
def SPT.par (t : SPT) (v : Nat) : Edge := t.edgeTo.getD v Edge.zero

/-- the `edgeTo` chain from the source to `v`, as the list of its edges -/
inductive SChain (g : Graph) (s : Nat) (t : SPT) (D : Array Bool) : Nat → List Edge → Prop
  | base : t.par s = Edge.zero → t.dist s = some 0 → SChain g s t D s []
  | step {v : Nat} {e : Edge} {p : List Edge} {da : Int} : t.par v = e → e ≠ Edge.zero → e.b = v →
      g.HasEdge e.a e.b e → Vis D e.a → t.dist e.a = some da → t.dist v = some (da + e.w) →
      SChain g s t D e.a p → SChain g s t D v (p ++ [e])

theorem walkWeight_append (p : List Edge) (e : Edge) : walkWeight (p ++ [e]) = walkWeight p + e.w := by
  simp [walkWeight, List.sum_append]

theorem SChain.dist {g : Graph} {s : Nat} {t : SPT} {D : Array Bool} {v : Nat} {p : List Edge}
    (h : SChain g s t D v p) : t.dist v = some (walkWeight p) := by
  induction h with
  | base _ h0 => simpa [walkWeight] using h0
  | step _ _ _ _ _ hda hdv _ ih =>
    rw [hda] at ih
    rw [walkWeight_append, hdv]
    cases ih; rfl

theorem isEdgeWalk_snoc {g : Graph} : ∀ (p : List Edge) (s u : Nat) (e : Edge), IsEdgeWalk g s u p →
    e.a = u → g.HasEdge e.a e.b e → IsEdgeWalk g s e.b (p ++ [e]) := by
  intro p
  induction p with
  | nil =>
    intro s u e h1 h2 h3
    simp only [IsEdgeWalk] at h1
    subst h1
    exact ⟨h2, h3, rfl⟩
  | cons a r ih =>
    intro s u e h1 h2 h3
    obtain ⟨k1, k2, k3⟩ := h1
    exact ⟨k1, k2, ih _ _ e k3 h2 h3⟩

theorem SChain.walk {g : Graph} {s : Nat} {t : SPT} {D : Array Bool} {v : Nat} {p : List Edge}
    (h : SChain g s t D v p) : IsEdgeWalk g s v p := by
  induction h with
  | base _ _ => rfl
  | step _ _ hb he _ _ _ _ ih => exact hb ▸ isEdgeWalk_snoc _ _ _ _ ih rfl he

/-- chains survive updates at one vertex `w` that is not deleted, except the chain of `w` itself -/
theorem SChain.congr {g : Graph} {s : Nat} {t t' : SPT} {D D' : Array Bool} {w : Nat}
    (hD : ∀ x, Vis D x → Vis D' x) (hw : ¬ Vis D w)
    (hd : ∀ x, x ≠ w → t'.dist x = t.dist x) (hp : ∀ x, x ≠ w → t'.par x = t.par x)
    {v : Nat} {p : List Edge} (h : SChain g s t D v p) (hv : v ≠ w) : SChain g s t' D' v p := by
  induction h with
  | base h1 h2 => exact .base (by rw [hp _ hv]; exact h1) (by rw [hd _ hv]; exact h2)
  | @step v e p da h1 h2 h3 h4 h5 h6 h7 _ ih =>
    have hne : e.a ≠ w := fun e' => hw (e' ▸ h5)
    exact .step (by rw [hp _ hv]; exact h1) h2 h3 h4 (hD _ h5) (by rw [hd _ hne]; exact h6)
      (by rw [hd _ hv]; exact h7) (ih hne)

/-- the loop of `PathTo` along a chain -/
theorem pathLoop_chain {g : Graph} {s : Nat} {t : SPT} {D : Array Bool} (hsz : t.edgeTo.size = g.n)
    (hD : ∀ x, Vis D x → x < g.n) {v : Nat} {p : List Edge} (h : SChain g s t D v p) :
    ∀ fuel stk, p.length < fuel → t.pathLoop fuel (t.par v) stk = .ok (p ++ stk) := by
  induction h with
  | base h1 _ =>
    intro fuel stk hf
    cases fuel with
    | zero => omega
    | succ fuel => simp [SPT.pathLoop, h1]
  | @step v e p da h1 h2 h3 h4 h5 h6 h7 _ ih =>
    intro fuel stk hf
    cases fuel with
    | zero => omega
    | succ fuel =>
      have hlt : e.a < t.edgeTo.size := by rw [hsz]; exact hD _ h5
      have : t.edgeTo[e.a]? = some (t.par e.a) := getD_of_lt _ _ hlt
      rw [h1]
      simp only [SPT.pathLoop, h2, if_false, this]
      rw [ih fuel (e :: stk) (by simp at hf; omega)]
      simp

/-! ## the invariant -/

structure DInv (g : Graph) (s : Nat) (t : SPT) (D : Array Bool) : Prop where
  dsz : t.distTo.size = g.n
  esz : t.edgeTo.size = g.n
  Dsz : D.size = g.n
  hv : HInv g.n t.pq
  src : t.dist s = some 0 ∧ t.par s = Edge.zero
  nonneg : ∀ v d, t.dist v = some d → 0 ≤ d
  keys : ∀ v k, t.pq.ky v = some k → t.dist v = some k ∧ ¬ Vis D v
  reached : ∀ v d, t.dist v = some d → Vis D v ∨ t.pq.ky v = some d
  chain : ∀ v d, t.dist v = some d → ∃ p, SChain g s t D v p ∧ p.length + cntF D ≤ g.n
  relaxed : ∀ v, Vis D v → ∀ x ∈ g.adj.getD v [],
    ∃ dv dw, t.dist v = some dv ∧ t.dist x.to = some dw ∧ dw ≤ dv + x.e.w
  lowkeys : ∀ v dv, Vis D v → t.dist v = some dv → ∀ u ku, t.pq.ky u = some ku → dv ≤ ku
  donefin : ∀ v, Vis D v → ∃ d, t.dist v = some d

/-- inside the relaxation loop of the vertex `u` just deleted with distance `du` -/
structure DIn (g : Graph) (s : Nat) (t : SPT) (D : Array Bool) (u : Nat) (du : Int) (done : List Arc) : Prop where
  dsz : t.distTo.size = g.n
  esz : t.edgeTo.size = g.n
  Dsz : D.size = g.n
  hv : HInv g.n t.pq
  src : t.dist s = some 0 ∧ t.par s = Edge.zero
  nonneg : ∀ v d, t.dist v = some d → 0 ≤ d
  keys : ∀ v k, t.pq.ky v = some k → t.dist v = some k ∧ ¬ Vis D v
  reached : ∀ v d, t.dist v = some d → Vis D v ∨ t.pq.ky v = some d
  chain : ∀ v d, t.dist v = some d → ∃ p, SChain g s t D v p ∧ p.length + cntF D ≤ g.n
  relaxed : ∀ v, Vis D v → v ≠ u → ∀ x ∈ g.adj.getD v [],
    ∃ dv dw, t.dist v = some dv ∧ t.dist x.to = some dw ∧ dw ≤ dv + x.e.w
  urelaxed : ∀ x ∈ done, ∃ dw, t.dist x.to = some dw ∧ dw ≤ du + x.e.w
  udist : t.dist u = some du
  udone : Vis D u
  uchain : ∃ p, SChain g s t D u p ∧ p.length + cntF D + 1 ≤ g.n
  donele : ∀ v dv, Vis D v → t.dist v = some dv → dv ≤ du
  keysge : ∀ v k, t.pq.ky v = some k → du ≤ k
  donefin : ∀ v, Vis D v → ∃ d, t.dist v = some d

theorem upsert_spec {cap : Nat} {h : IHeap} (hv : HInv cap h) {w : Nat} (hw : w < cap) (key : Int)
    (hle : ∀ old, h.ky w = some old → key ≤ old) :
    ∃ h', h.upsert w key = .ok h' ∧ HInv cap h' ∧ KyUpd h h' w (some key) := by
  unfold IHeap.upsert
  rw [containsIndex_spec hv.s]
  cases hk : h.ky w with
  | none => simpa using insert_spec hv hw hk key
  | some old => simpa using changeKey_spec hv hk key (hle old hk)

theorem dist_set {t : SPT} (hsz : t.distTo.size = n) {w : Nat} (hw : w < n) (d : Option Int) (e : Array Edge)
    (pq : IHeap) (v : Nat) :
    (SPT.dist { edgeTo := e, distTo := t.distTo.set! w d, pq := pq } v) = if v = w then d else t.dist v := by
  simp only [SPT.dist, getD_set!, hsz]
  by_cases h : w = v
  · subst h; simp [hw]
  · have : ¬ v = w := fun e => h e.symm
    simp [h, this]

theorem par_set {t : SPT} (hsz : t.edgeTo.size = n) {w : Nat} (hw : w < n) (e : Edge) (d : Array (Option Int))
    (pq : IHeap) (v : Nat) :
    (SPT.par { edgeTo := t.edgeTo.set! w e, distTo := d, pq := pq } v) = if v = w then e else t.par v := by
  simp only [SPT.par, getD_set!, hsz]
  by_cases h : w = v
  · subst h; simp [hw]
  · have : ¬ v = w := fun e => h e.symm
    simp [h, this]

section

variable {g : Graph} (hg : g.WF) (hdw : g.DWF) (hnn : g.NonNeg) (s : Nat)
include hg hdw hnn

theorem dijkstraInner_spec (u : Nat) (du : Int) (D : Array Bool) :
    ∀ rest done (t : SPT), g.adj.getD u [] = done ++ rest → DIn g s t D u du done →
      ∃ t', dijkstraInner rest t = .ok t' ∧ DIn g s t' D u du (g.adj.getD u []) := by
  intro rest
  induction rest with
  | nil =>
    intro done t hadj hin
    refine ⟨t, rfl, ?_⟩
    have : g.adj.getD u [] = done := by simpa using hadj
    rw [this]; exact hin
  | cons x rest ih =>
    intro done t hadj hin
    have hxmem : x ∈ g.adj.getD u [] := by rw [hadj]; simp
    have hadj' : g.adj.getD u [] = (done ++ [x]) ++ rest := by rw [hadj]; simp
    obtain ⟨hxa, hxb⟩ := hdw u x hxmem
    have hwn : x.to < g.n := hg.bound u x hxmem
    have hun : u < g.n := by rw [← hin.Dsz]; exact vis_lt hin.udone
    have hwt : 0 ≤ x.e.w := hnn u x hxmem
    have hga : t.distTo[x.e.a]? = some (t.dist u) := by
      rw [hxa]; exact getD_of_lt _ _ (by rw [hin.dsz]; exact hun)
    have hgb : t.distTo[x.e.b]? = some (t.dist x.to) := by
      rw [hxb]; exact getD_of_lt _ _ (by rw [hin.dsz]; exact hwn)
    have hstep : dijkstraInner (x :: rest) t =
        if ltDist (du + x.e.w) (t.dist x.to) then
          match t.pq.upsert x.to (du + x.e.w) with
          | .ok pq => dijkstraInner rest { edgeTo := t.edgeTo.set! x.to x.e,
                                           distTo := t.distTo.set! x.to (some (du + x.e.w)), pq := pq }
          | .panic => .panic
          | .diverge => .diverge
        else dijkstraInner rest t := by
      rw [dijkstraInner, hga, hgb, hin.udist]
      simp only [hxb]
      have : x.to < t.edgeTo.size := by rw [hin.esz]; exact hwn
      simp only [this, if_true]
      rfl
    by_cases hlt : ltDist (du + x.e.w) (t.dist x.to) = true
    · -- relax
      -- the target is not deleted
      have hnd : ¬ Vis D x.to := by
        intro hd
        obtain ⟨dw, hdw'⟩ := hin.donefin _ hd
        have := hin.donele _ dw hd hdw'
        rw [hdw'] at hlt
        simp [ltDist] at hlt
        omega
      have hwu : x.to ≠ u := fun e => hnd (e ▸ hin.udone)
      have hws : x.to ≠ s := by
        intro e
        rw [e, hin.src.1] at hlt
        have := hin.nonneg u du hin.udist
        simp [ltDist] at hlt
        omega
      have hle : ∀ old, t.pq.ky x.to = some old → du + x.e.w ≤ old := by
        intro old ho
        have := (hin.keys _ old ho).1
        rw [this] at hlt
        simp [ltDist] at hlt
        omega
      obtain ⟨pq', e1, hv1, hk1⟩ := upsert_spec hin.hv hwn (du + x.e.w) hle
      let t' : SPT := { edgeTo := t.edgeTo.set! x.to x.e, distTo := t.distTo.set! x.to (some (du + x.e.w)), pq := pq' }
      have hdist : ∀ v, t'.dist v = if v = x.to then some (du + x.e.w) else t.dist v :=
        fun v => dist_set hin.dsz hwn _ _ _ v
      have hpar : ∀ v, t'.par v = if v = x.to then x.e else t.par v :=
        fun v => par_set hin.esz hwn _ _ _ v
      have hdn : ∀ v, v ≠ x.to → t'.dist v = t.dist v := fun v hv => by rw [hdist]; simp [hv]
      have hpn : ∀ v, v ≠ x.to → t'.par v = t.par v := fun v hv => by rw [hpar]; simp [hv]
      have hky : ∀ v, t'.pq.ky v = if v = x.to then some (du + x.e.w) else t.pq.ky v := by
        intro v
        by_cases e : v = x.to
        · rw [e]; simp only [if_true]; exact hk1.1
        · simp only [e, if_false]; exact hk1.2 v e
      -- distances only decrease
      have hdec : ∀ v d, t.dist v = some d → ∃ d', t'.dist v = some d' ∧ d' ≤ d := by
        intro v d hd
        by_cases e : v = x.to
        · subst e
          refine ⟨du + x.e.w, by rw [hdist]; simp, ?_⟩
          rw [hd] at hlt; simp [ltDist] at hlt; omega
        · exact ⟨d, by rw [hdn v e]; exact hd, Int.le_refl _⟩
      obtain ⟨pu, hcu, hlu⟩ := hin.uchain
      have hcu' : SChain g s t' D u pu :=
        hcu.congr (fun _ h => h) hnd hdn hpn (fun e => hwu e.symm)
      have hin' : DIn g s t' D u du (done ++ [x]) :=
        { dsz := by show (t.distTo.set! _ _).size = _; rw [size_set!]; exact hin.dsz
          esz := by show (t.edgeTo.set! _ _).size = _; rw [size_set!]; exact hin.esz
          Dsz := hin.Dsz
          hv := hv1
          src := ⟨by rw [hdn s (fun e => hws e.symm)]; exact hin.src.1,
                  by rw [hpn s (fun e => hws e.symm)]; exact hin.src.2⟩
          nonneg := by
            intro v d hd
            rw [hdist] at hd
            by_cases e : v = x.to
            · simp only [e, if_true] at hd
              cases hd
              have := hin.nonneg u du hin.udist
              omega
            · simp only [e, if_false] at hd
              exact hin.nonneg v d hd
          keys := by
            intro v k hk
            rw [hky] at hk
            rw [hdist]
            by_cases e : v = x.to
            · simp only [e, if_true] at hk ⊢
              exact ⟨hk, hnd⟩
            · simp only [e, if_false] at hk ⊢
              exact hin.keys v k hk
          reached := by
            intro v d hd
            rw [hdist] at hd
            rw [hky]
            by_cases e : v = x.to
            · simp only [e, if_true] at hd ⊢
              exact Or.inr hd
            · simp only [e, if_false] at hd ⊢
              exact hin.reached v d hd
          chain := by
            intro v d hd
            by_cases e : v = x.to
            · refine ⟨pu ++ [x.e], ?_, by simp; omega⟩
              rw [e]
              have hxe : x.e.b = x.to := hxb
              have h4 : g.HasEdge x.e.a x.e.b x.e := by
                unfold Graph.HasEdge
                rw [hxa, hxb]
                exact hxmem
              have h2 : x.e ≠ Edge.zero := by
                intro ez
                have h1 : x.e.a = x.e.b := by rw [ez]; rfl
                rw [hxa, hxb] at h1
                exact hwu h1.symm
              have hcu'' : SChain g s t' D x.e.a pu := by rw [hxa]; exact hcu'
              refine SChain.step (da := du) (by rw [hpar]; simp) h2 hxe h4 (by rw [hxa]; exact hin.udone)
                (by rw [hxa, hdn u (fun e => hwu e.symm)]; exact hin.udist) (by rw [hdist]; simp) hcu''
            · rw [hdn v e] at hd
              obtain ⟨p, hc, hl⟩ := hin.chain v d hd
              exact ⟨p, hc.congr (fun _ h => h) hnd hdn hpn e, hl⟩
          relaxed := by
            intro v hvd hvu y hy
            obtain ⟨dv, dw, k1, k2, k3⟩ := hin.relaxed v hvd hvu y hy
            have hvw : v ≠ x.to := fun e => hnd (e ▸ hvd)
            obtain ⟨d', k4, k5⟩ := hdec _ dw k2
            exact ⟨dv, d', by rw [hdn v hvw]; exact k1, k4, by omega⟩
          urelaxed := by
            intro y hy
            rcases List.mem_append.1 hy with h | h
            · obtain ⟨dw, k1, k2⟩ := hin.urelaxed y h
              obtain ⟨d', k4, k5⟩ := hdec _ dw k1
              exact ⟨d', k4, by omega⟩
            · have : y = x := by simpa using h
              subst this
              exact ⟨du + y.e.w, by rw [hdist]; simp, Int.le_refl _⟩
          udist := by rw [hdn u (fun e => hwu e.symm)]; exact hin.udist
          udone := hin.udone
          uchain := ⟨pu, hcu', hlu⟩
          donele := by
            intro v dv hvd hd
            have hvw : v ≠ x.to := fun e => hnd (e ▸ hvd)
            rw [hdn v hvw] at hd
            exact hin.donele v dv hvd hd
          keysge := by
            intro v k hk
            rw [hky] at hk
            by_cases e : v = x.to
            · simp only [e, if_true] at hk
              cases hk; omega
            · simp only [e, if_false] at hk
              exact hin.keysge v k hk
          donefin := by
            intro v hvd
            have hvw : v ≠ x.to := fun e => hnd (e ▸ hvd)
            rw [hdn v hvw]
            exact hin.donefin v hvd }
      obtain ⟨t2, k1, k2⟩ := ih (done ++ [x]) t' hadj' hin'
      refine ⟨t2, ?_, k2⟩
      rw [hstep]
      simp only [hlt, if_true, e1]
      exact k1
    · -- no relaxation
      have hnlt : ltDist (du + x.e.w) (t.dist x.to) = false := by simpa using hlt
      have hin' : DIn g s t D u du (done ++ [x]) :=
        { hin with
          urelaxed := by
            intro y hy
            rcases List.mem_append.1 hy with h | h
            · exact hin.urelaxed y h
            · have : y = x := by simpa using h
              subst this
              cases hd : t.dist y.to with
              | none => rw [hd] at hnlt; simp [ltDist] at hnlt
              | some dw =>
                rw [hd] at hnlt
                simp [ltDist] at hnlt
                exact ⟨dw, rfl, hnlt⟩ }
      obtain ⟨t2, k1, k2⟩ := ih (done ++ [x]) t hadj' hin'
      refine ⟨t2, ?_, k2⟩
      rw [hstep]
      simp only [hnlt, Bool.false_eq_true, if_false]
      exact k1

end

end AlgoVerif.C14

namespace AlgoVerif.C14

theorem SChain.mono_D {g : Graph} {s : Nat} {t : SPT} {D D' : Array Bool} (hD : ∀ x, Vis D x → Vis D' x)
    {v : Nat} {p : List Edge} (h : SChain g s t D v p) : SChain g s t D' v p := by
  induction h with
  | base h1 h2 => exact .base h1 h2
  | step h1 h2 h3 h4 h5 h6 h7 _ ih => exact .step h1 h2 h3 h4 (hD _ h5) h6 h7 ih

theorem SChain.of_eq {g : Graph} {s : Nat} {t t' : SPT} {D : Array Bool}
    (hd : ∀ x, t'.dist x = t.dist x) (hp : ∀ x, t'.par x = t.par x)
    {v : Nat} {p : List Edge} (h : SChain g s t D v p) : SChain g s t' D v p := by
  induction h with
  | base h1 h2 => exact .base (by rw [hp]; exact h1) (by rw [hd]; exact h2)
  | step h1 h2 h3 h4 h5 h6 h7 _ ih =>
    exact .step (by rw [hp]; exact h1) h2 h3 h4 h5 (by rw [hd]; exact h6) (by rw [hd]; exact h7) ih

/-- no relaxable edge ⇒ `dist` is a lower bound for every walk -/
theorem noRelaxP_walk (g : Graph) (dist : Nat → Option Int)
    (h : ∀ u du, dist u = some du → ∀ x ∈ g.adj.getD u [], ∃ dw, dist x.to = some dw ∧ dw ≤ du + x.e.w) :
    ∀ (q : List Edge) (u v : Nat) (du : Int), IsEdgeWalk g u v q → dist u = some du →
      ∃ dv, dist v = some dv ∧ dv ≤ du + walkWeight q := by
  intro q
  induction q with
  | nil =>
    intro u v du hw hd
    simp only [IsEdgeWalk] at hw
    subst hw
    exact ⟨du, hd, by simp [walkWeight]⟩
  | cons e r ih =>
    intro u v du hw hd
    obtain ⟨h1, h2, h3⟩ := hw
    subst h1
    obtain ⟨dw, k1, k2⟩ := h e.a du hd ⟨e.b, e⟩ h2
    obtain ⟨dv, k3, k4⟩ := ih e.b v dw h3 k1
    refine ⟨dv, k3, ?_⟩
    simp only [walkWeight, List.map_cons, List.sum_cons] at k4 ⊢
    simp only at k2
    omega

section

variable {g : Graph} (hg : g.WF) (hdw : g.DWF) (hnn : g.NonNeg) (s : Nat)
include hg hdw hnn

theorem dijkstraLoop_spec :
    ∀ fuel (t : SPT) (D : Array Bool), DInv g s t D → cntF D ≤ fuel →
      ∃ t' D', dijkstraLoop g fuel t = .ok t' ∧ DInv g s t' D' ∧ t'.pq.isEmpty = true := by
  intro fuel
  induction fuel with
  | zero =>
    intro t D hinv hc
    have hemp : t.pq.isEmpty = true := by
      rw [isEmpty_iff hinv.hv.s]
      intro j
      cases hk : t.pq.ky j with
      | none => rfl
      | some k =>
        exfalso
        have hj := (hinv.hv.s.pos_of_key hk).1
        have hnd := (hinv.keys j k hk).2
        rcases vis_or_false (by rw [hinv.Dsz]; exact hj : j < D.size) with h | h
        · exact hnd h
        · have := cntF_set h; omega
    exact ⟨t, D, by simp [dijkstraLoop, hemp], hinv, hemp⟩
  | succ fuel ih =>
    intro t D hinv hc
    by_cases hemp : t.pq.isEmpty = true
    · exact ⟨t, D, by simp [dijkstraLoop, hemp], hinv, hemp⟩
    · have hne : t.pq.isEmpty = false := by simpa using hemp
      obtain ⟨pq', u, du, e1, hv1, hun, hku, hmin, hupd⟩ := delete_spec hinv.hv hne
      obtain ⟨hdu, hnd⟩ := hinv.keys u du hku
      have hunv : D[u]? = some false := by
        rcases vis_or_false (by rw [hinv.Dsz]; exact hun : u < D.size) with h | h
        · exact absurd h hnd
        · exact h
      have hcnt := cntF_set hunv
      let D' := D.set! u true
      have hDm : ∀ x, Vis D x → Vis D' x := fun x hx => vis_set_of_vis hx
      have hDu : Vis D' u := vis_set_self (by rw [hinv.Dsz]; exact hun)
      have hD' : ∀ x, Vis D' x → x = u ∨ Vis D x := by
        intro x hx
        rcases vis_set.1 hx with ⟨e, _⟩ | h
        · exact Or.inl e.symm
        · exact Or.inr h
      let t1 : SPT := { t with pq := pq' }
      have hky : ∀ v, v ≠ u → pq'.ky v = t.pq.ky v := hupd.2
      have hin : DIn g s t1 D' u du [] :=
        { dsz := hinv.dsz
          esz := hinv.esz
          Dsz := by show (D.set! u true).size = _; rw [size_set!]; exact hinv.Dsz
          hv := hv1
          src := hinv.src
          nonneg := hinv.nonneg
          keys := by
            intro v k hk
            have hvu : v ≠ u := by
              intro e; rw [e, hupd.1] at hk; simp at hk
            have hk' : t.pq.ky v = some k := by rw [← hky v hvu]; exact hk
            obtain ⟨k1, k2⟩ := hinv.keys v k hk'
            refine ⟨k1, ?_⟩
            intro h
            rcases hD' v h with e | h'
            · exact hvu e
            · exact k2 h'
          reached := by
            intro v d hd
            by_cases hvu : v = u
            · rw [hvu]; exact Or.inl hDu
            · rcases hinv.reached v d hd with h | h
              · exact Or.inl (hDm v h)
              · exact Or.inr (by show pq'.ky v = _; rw [hky v hvu]; exact h)
          chain := by
            intro v d hd
            obtain ⟨p, hc', hl⟩ := hinv.chain v d hd
            exact ⟨p, (hc'.mono_D hDm).of_eq (t := t) (t' := t1) (fun _ => rfl) (fun _ => rfl),
              by show p.length + cntF (D.set! u true) ≤ g.n; omega⟩
          relaxed := by
            intro v hvd hvu x hx
            rcases hD' v hvd with e | h
            · exact absurd e hvu
            · exact hinv.relaxed v h x hx
          urelaxed := by simp
          udist := hdu
          udone := hDu
          uchain := by
            obtain ⟨p, hc', hl⟩ := hinv.chain u du hdu
            exact ⟨p, (hc'.mono_D hDm).of_eq (t := t) (t' := t1) (fun _ => rfl) (fun _ => rfl),
              by show p.length + cntF (D.set! u true) + 1 ≤ g.n; omega⟩
          donele := by
            intro v dv hvd hd
            have hd' : t.dist v = some dv := hd
            rcases hD' v hvd with e | h
            · rw [e, hdu] at hd'; cases hd'; exact Int.le_refl _
            · exact hinv.lowkeys v dv h hd' u du hku
          keysge := by
            intro v k hk
            have hvu : v ≠ u := by
              intro e; rw [e, hupd.1] at hk; simp at hk
            exact hmin v k (by rw [← hky v hvu]; exact hk)
          donefin := by
            intro v hvd
            rcases hD' v hvd with e | h
            · exact ⟨du, by rw [e]; exact hdu⟩
            · exact hinv.donefin v h }
      obtain ⟨t2, e2, hin2⟩ := dijkstraInner_spec hg hdw hnn s u du D' (g.adj.getD u []) [] t1 (by simp) hin
      have hinv2 : DInv g s t2 D' :=
        { dsz := hin2.dsz
          esz := hin2.esz
          Dsz := hin2.Dsz
          hv := hin2.hv
          src := hin2.src
          nonneg := hin2.nonneg
          keys := hin2.keys
          reached := hin2.reached
          chain := hin2.chain
          relaxed := by
            intro v hvd x hx
            by_cases hvu : v = u
            · subst hvu
              obtain ⟨dw, k1, k2⟩ := hin2.urelaxed x hx
              exact ⟨du, dw, hin2.udist, k1, k2⟩
            · exact hin2.relaxed v hvd hvu x hx
          lowkeys := by
            intro v dv hvd hd w kw hk
            have := hin2.donele v dv hvd hd
            have := hin2.keysge w kw hk
            omega
          donefin := hin2.donefin }
      obtain ⟨t3, D3, e3, k1, k2⟩ := ih t2 D' hinv2 (by show cntF (D.set! u true) ≤ fuel; omega)
      refine ⟨t3, D3, ?_, k1, k2⟩
      rw [dijkstraLoop]
      simp only [hne, Bool.false_eq_true, if_false, e1]
      show (dijkstraInner (g.adj.getD u []) t1 >>= dijkstraLoop g fuel) = _
      rw [e2]
      exact e3

/-- **ShortestPathTree** (Dijkstra): for a valid source, `distTo`/`PathTo` are the shortest distances with
paths of exactly that weight; unreachable vertices get `(nil, -1, false)`. -/
theorem spt_spec_sz (hs : s < g.n) :
    ∃ t, g.shortestPathTree (s : Int) = .ok t ∧ t.distTo.size = g.n ∧
      ∀ v, v < g.n →
        (t.pathTo (v : Int) = .ok none ∧ ¬ ∃ q, IsEdgeWalk g s v q) ∨
        (∃ p d, t.pathTo (v : Int) = .ok (some (p, d)) ∧ IsEdgeWalk g s v p ∧ walkWeight p = d ∧
          ∀ q, IsEdgeWalk g s v q → d ≤ walkWeight q) := by
  let t00 : SPT := { edgeTo := Array.replicate g.n Edge.zero, distTo := Array.replicate g.n none,
                     pq := IHeap.new g.n }
  obtain ⟨pq0, e0, hv0, hk0⟩ := insert_spec (hinv_new g.n) hs (ky_new g.n s) 0
  let t0 : SPT := { t00 with distTo := t00.distTo.set! s (some 0), pq := pq0 }
  have hdist0 : ∀ v, t0.dist v = if v = s then some 0 else none := by
    intro v
    simp only [t0, t00, SPT.dist, getD_set!, Array.size_replicate]
    by_cases e : s = v
    · subst e; simp [hs]
    · have : ¬ v = s := fun e' => e e'.symm
      simp only [e, false_and, if_false, this]
      rw [getD_eq, Array.getElem?_replicate]; split <;> rfl
  have hpar0 : ∀ v, t0.par v = Edge.zero := by
    intro v
    simp only [t0, t00, SPT.par]
    rw [getD_eq, Array.getElem?_replicate]; split <;> rfl
  have hky0 : ∀ v, pq0.ky v = if v = s then some 0 else none := by
    intro v
    by_cases e : v = s
    · rw [e]; simp only [if_true]; exact hk0.1
    · simp only [e, if_false]; rw [hk0.2 v e]; exact ky_new _ _
  let D0 := Array.replicate g.n false
  have hinv0 : DInv g s t0 D0 :=
    { dsz := by simp [t0, t00, size_set!]
      esz := by simp [t0, t00]
      Dsz := by simp [D0]
      hv := hv0
      src := ⟨by rw [hdist0]; simp, hpar0 s⟩
      nonneg := by
        intro v d hd
        rw [hdist0] at hd
        split at hd
        · cases hd; exact Int.le_refl _
        · simp at hd
      keys := by
        intro v k hk
        have hk' : pq0.ky v = some k := hk
        rw [hky0] at hk'
        rw [hdist0]
        split at hk'
        · rename_i e; simp only [e, if_true]; exact ⟨hk', vis_replicate_false⟩
        · simp at hk'
      reached := by
        intro v d hd
        rw [hdist0] at hd
        right
        show pq0.ky v = _
        rw [hky0]
        split at hd
        · rename_i e; simp only [e, if_true]; exact hd
        · simp at hd
      chain := by
        intro v d hd
        rw [hdist0] at hd
        split at hd
        · rename_i e
          subst e
          refine ⟨[], .base (hpar0 v) (by rw [hdist0]; simp), ?_⟩
          have := cntF_le_size D0
          simp [D0] at this ⊢
          exact this
        · simp at hd
      relaxed := fun v hv => absurd hv vis_replicate_false
      lowkeys := fun v _ hv => absurd hv vis_replicate_false
      donefin := fun v hv => absurd hv vis_replicate_false }
  obtain ⟨t, D, e1, hinv, hemp⟩ := dijkstraLoop_spec hg hdw hnn s (g.n + 1) t0 D0 hinv0 (by
    show cntF (Array.replicate g.n false) ≤ g.n + 1
    have := cntF_le_size (Array.replicate g.n false)
    simp at this; omega)
  refine ⟨t, ?_, hinv.dsz, ?_⟩
  · unfold Graph.shortestPathTree Graph.shortestPathTreeFuel
    simp only [Int.toNat_natCast]
    rw [if_pos (by simp [hs])]
    have e0' : (IHeap.new g.n).insert s 0 = .ok pq0 := e0
    simp only [e0']
    exact e1
  · have hallK : ∀ j, t.pq.ky j = none := (isEmpty_iff hinv.hv.s).1 hemp
    have hdone : ∀ v d, t.dist v = some d → Vis D v := by
      intro v d hd
      rcases hinv.reached v d hd with h | h
      · exact h
      · rw [hallK] at h; simp at h
    have hnr : ∀ u du, t.dist u = some du → ∀ x ∈ g.adj.getD u [],
        ∃ dw, t.dist x.to = some dw ∧ dw ≤ du + x.e.w := by
      intro u du hd x hx
      obtain ⟨dv, dw, k1, k2, k3⟩ := hinv.relaxed u (hdone u du hd) x hx
      rw [hd] at k1; cases k1
      exact ⟨dw, k2, k3⟩
    have hlow : ∀ v q, IsEdgeWalk g s v q → ∃ dv, t.dist v = some dv ∧ dv ≤ walkWeight q := by
      intro v q hq
      obtain ⟨dv, k1, k2⟩ := noRelaxP_walk g t.dist hnr q s v 0 hq hinv.src.1
      exact ⟨dv, k1, by omega⟩
    intro v hvn
    have hgd : t.distTo[v]? = some (t.dist v) := getD_of_lt _ _ (by rw [hinv.dsz]; exact hvn)
    have hge : t.edgeTo[v]? = some (t.par v) := getD_of_lt _ _ (by rw [hinv.esz]; exact hvn)
    cases hd : t.dist v with
    | none =>
      left
      refine ⟨?_, ?_⟩
      · unfold SPT.pathTo
        simp only [Int.natCast_nonneg, if_true, Int.toNat_natCast, hgd, hd]
      · intro ⟨q, hq⟩
        obtain ⟨dv, k1, _⟩ := hlow v q hq
        rw [hd] at k1; simp at k1
    | some d =>
      right
      obtain ⟨p, hc, hl⟩ := hinv.chain v d hd
      have hw : walkWeight p = d := by
        have := hc.dist; rw [hd] at this; cases this; rfl
      refine ⟨p, d, ?_, hc.walk, hw, ?_⟩
      · unfold SPT.pathTo
        simp only [Int.natCast_nonneg, if_true, Int.toNat_natCast, hgd, hd, hge]
        have := pathLoop_chain hinv.esz (fun x hx => by rw [← hinv.Dsz]; exact vis_lt hx) hc
          (t.edgeTo.size + 1) [] (by rw [hinv.esz]; omega)
        rw [this]; simp
      · intro q hq
        obtain ⟨dv, k1, k2⟩ := hlow v q hq
        rw [hd] at k1; cases k1; exact k2

theorem spt_spec (hs : s < g.n) :
    ∃ t, g.shortestPathTree (s : Int) = .ok t ∧
      ∀ v, v < g.n →
        (t.pathTo (v : Int) = .ok none ∧ ¬ ∃ q, IsEdgeWalk g s v q) ∨
        (∃ p d, t.pathTo (v : Int) = .ok (some (p, d)) ∧ IsEdgeWalk g s v p ∧ walkWeight p = d ∧
          ∀ q, IsEdgeWalk g s v q → d ≤ walkWeight q) := by
  obtain ⟨t, h1, _, h3⟩ := spt_spec_sz hg hdw hnn s hs
  exact ⟨t, h1, h3⟩

end

/-- `PathTo(v)` with `v` outside `[0, n)` indexes `distTo` out of range -/
theorem pathTo_out_of_range (t : SPT) (n : Nat) (hsz : t.distTo.size = n) (v : Int)
    (hv : ¬ (0 ≤ v ∧ v < (n : Int))) : t.pathTo v = .panic := by
  unfold SPT.pathTo
  by_cases h0 : 0 ≤ v
  · rw [if_pos h0]
    have : t.distTo[v.toNat]? = none := by
      apply Array.getElem?_eq_none_iff.2
      rw [hsz]
      have : ¬ v < (n : Int) := fun h => hv ⟨h0, h⟩
      omega
    rw [this]
  · rw [if_neg h0]


end AlgoVerif.C14
