import AlgoVerif.Proofs.C09LeftRecSem
/-!
# The invariant of `EliminateLeftRecursion`'s loops (C09)

`nts` is the order `A₁ … Aₙ` (duplicate-free); `done` the prefix already processed.  Invariant:

* `k1` every body that begins with a non-terminal begins with one of `nts` (fresh `A′` are never first);
* `k2` a body of an `nts`-head that begins with a non-terminal has a second symbol, not a fresh one (no unit
  productions; this is what makes the `α` of `A → A α` non-empty and `A′ → α A′` harmless);
* `k3` heads of ε-productions are fresh names or occur in no body;
* `j1` a body of a processed head `Aᵢ` begins with a terminal, a dead non-terminal, or some `Aₖ` with `k > i`.
-/
set_option linter.unusedSectionVars false
namespace AlgoVerif.C08
open AlgoVerif AlgoVerif.Gram AlgoVerif.C08.Spec AlgoVerif.C09.Spec

/-! ## position in a list -/

def pos : List String → String → Nat
  | [], _ => 0
  | y :: l, x => if x = y then 0 else pos l x + 1

theorem pos_lt_of_mem {l : List String} {x : String} (h : x ∈ l) : pos l x < l.length := by
  induction l with
  | nil => cases h
  | cons y l ih =>
    simp only [pos, List.length_cons]
    split
    · omega
    · rename_i hne
      rcases List.mem_cons.1 h with rfl | h
      · exact absurd rfl hne
      · have := ih h; omega

theorem pos_of_not_mem {l : List String} {x : String} (h : x ∉ l) : pos l x = l.length := by
  induction l with
  | nil => rfl
  | cons y l ih =>
    simp only [pos, List.length_cons]
    have hne : x ≠ y := fun e => h (e ▸ List.mem_cons_self ..)
    simp [hne, ih (fun hm => h (List.mem_cons_of_mem _ hm))]

theorem pos_append_left {l m : List String} {x : String} (h : x ∈ l) : pos (l ++ m) x = pos l x := by
  induction l with
  | nil => cases h
  | cons y l ih =>
    simp only [List.cons_append, pos]
    split
    · rfl
    · rename_i hne
      rcases List.mem_cons.1 h with rfl | h
      · exact absurd rfl hne
      · rw [ih h]

theorem pos_append_right {l m : List String} {x : String} (h : x ∉ l) : pos (l ++ m) x = l.length + pos m x := by
  induction l with
  | nil => simp
  | cons y l ih =>
    have hne : x ≠ y := fun e => h (e ▸ List.mem_cons_self ..)
    simp only [List.cons_append, pos, hne, if_false, List.length_cons]
    rw [ih (fun hm => h (List.mem_cons_of_mem _ hm))]
    omega

theorem pos_le_length (l : List String) (x : String) : pos l x ≤ l.length := by
  by_cases h : x ∈ l
  · exact Nat.le_of_lt (pos_lt_of_mem h)
  · rw [pos_of_not_mem h]; exact Nat.le_refl _

/-- appending never lowers a position, and keeps those of members -/
theorem pos_append_mono (l m : List String) (x : String) : pos l x ≤ pos (l ++ m) x := by
  by_cases h : x ∈ l
  · rw [pos_append_left h]; exact Nat.le_refl _
  · rw [pos_append_right h, pos_of_not_mem h]; omega

/-! ## the invariant -/

structure LRInv9 (nts done : List String) (g : G) : Prop where
  wf : WellFormed g
  decl : ∀ X, X ∈ nts → X ∈ g.nonterms
  k1 : ∀ p, p ∈ g.prods → ∀ Y rest, p.body = Sym.nonterm Y :: rest → Y ∈ nts
  k2 : ∀ p, p ∈ g.prods → p.head ∈ nts → ∀ Y rest, p.body = Sym.nonterm Y :: rest →
    ∃ s rest', rest = s :: rest' ∧ ∀ Z, s = Sym.nonterm Z → Z ∈ nts
  k3 : ∀ p, p ∈ g.prods → p.body = [] → p.head ∉ nts ∨ ∀ q, q ∈ g.prods → Sym.nonterm p.head ∉ q.body
  j1 : ∀ p, p ∈ g.prods → p.head ∈ done → ∀ Y rest, p.body = Sym.nonterm Y :: rest →
    Dead g Y ∨ pos done p.head < pos done Y

/-- while `Aᵢ` is being processed: its bodies do not begin with one of `pre` any more -/
def Mid (pre : List String) (Ai : String) (g : G) : Prop :=
  ∀ p, p ∈ g.prods → p.head = Ai → ∀ Y rest, p.body = Sym.nonterm Y :: rest → Dead g Y ∨ Y ∉ pre

/-- a body of an `nts`-head production that begins with a non-terminal of `nts`-head ε-free productions … :
the productions of a non-terminal that occurs in a body are non-empty -/
theorem LRInv9.nonempty_of_inBody {nts done : List String} {g : G} (h : LRInv9 nts done g) {r q : SProd}
    (hr : r ∈ g.prods) (hq : q ∈ g.prods) (hin : Sym.nonterm r.head ∈ q.body) (hmem : r.head ∈ nts) :
    r.body ≠ [] := by
  intro hb
  rcases h.k3 r hr hb with h1 | h1
  · exact h1 hmem
  · exact h1 q hq hin

/-! ## `lrSubst` -/

theorem lrSubst_cases (g : G) (Ai Aj : String) :
    ((prodsOf g.prods Ai = [] ∨ prodsOf g.prods Aj = []) ∧ lrSubst g Ai Aj = g) ∨
    ((lrSubst g Ai Aj).nonterms = g.nonterms ∧
     ∀ q, q ∈ (lrSubst g Ai Aj).prods ↔
       (q ∈ g.prods ∧ ¬ IsAiAj g Ai Aj q) ∨
       (∃ p r, IsAiAj g Ai Aj p ∧ r ∈ g.prods ∧ r.head = Aj ∧ q = { head := Ai, body := r.body ++ p.body.tail })) := by
  by_cases he : ((prodsOf g.prods Ai).isEmpty || (prodsOf g.prods Aj).isEmpty) = true
  · left
    refine ⟨?_, ?_⟩
    · simp only [Bool.or_eq_true, List.isEmpty_iff] at he
      exact he
    · unfold lrSubst; simp only [he, if_true]
  · right
    rcases lrSubst_spec g Ai Aj with h | ⟨_, hn, _, hp⟩
    · -- the result happens to equal `g`: read the productions off the definition anyway
      refine ⟨by rw [h], ?_⟩
      unfold lrSubst
      simp only [he, Bool.false_eq_true, if_false]
      intro q
      rw [mem_insAll, List.mem_filter, List.mem_flatMap]
      constructor
      · rintro (⟨h1, h2⟩ | ⟨p, hp, hq⟩)
        · exact Or.inl ⟨h1, fun hc => (of_decide_eq_true h2) (mem_AiAj.2 hc)⟩
        · right
          obtain ⟨r, hr, rfl⟩ := List.mem_map.1 hq
          have hr' := List.mem_filter.1 hr
          exact ⟨p, r, mem_AiAj.1 hp, hr'.1, by simpa using hr'.2, rfl⟩
      · rintro (⟨h1, h2⟩ | ⟨p, r, hp, hr1, hr2, rfl⟩)
        · exact Or.inl ⟨h1, decide_eq_true (fun hc => h2 (mem_AiAj.1 hc))⟩
        · right
          exact ⟨p, mem_AiAj.2 hp, List.mem_map.2 ⟨r, List.mem_filter.2 ⟨hr1, by simpa using hr2⟩, rfl⟩⟩
    · exact ⟨hn, hp⟩

theorem prodsOf_eq_nil_iff {ps : List SProd} {A : String} : prodsOf ps A = [] ↔ ∀ p, p ∈ ps → p.head ≠ A := by
  unfold prodsOf
  rw [List.filter_eq_nil_iff]
  constructor
  · intro h p hp e; exact h p hp (by simpa using e)
  · intro h p hp e; exact h p hp (by simpa using e)

theorem lrSubst_inv {nts done pre post : List String} {g : G} {Ai Aj : String}
    (hdone : done = pre ++ Aj :: post) (hnd : done.Nodup) (hAi : Ai ∉ done)
    (h : LRInv9 nts done g) (hm : Mid pre Ai g) :
    LRInv9 nts done (lrSubst g Ai Aj) ∧ Mid (pre ++ [Aj]) Ai (lrSubst g Ai Aj) := by
  have hAj : Aj ∈ done := by rw [hdone]; simp
  have hAjpre : Aj ∉ pre := by
    rw [hdone] at hnd
    have := (List.nodup_append.1 hnd).2.2
    intro hm'
    exact this Aj hm' Aj (by simp) rfl
  have hposAj : pos done Aj = pre.length := by
    rw [hdone, pos_append_right hAjpre]; simp [pos]
  -- a first symbol strictly after `Aj` in `done` is not in `pre ++ [Aj]`
  have after : ∀ Y, pos done Aj < pos done Y → Y ∉ pre ++ [Aj] := by
    intro Y hlt hmem
    rcases List.mem_append.1 hmem with hY | hY
    · have : pos done Y < pre.length := by
        rw [hdone, pos_append_left hY]; exact pos_lt_of_mem hY
      omega
    · simp at hY; subst hY; omega
  rcases lrSubst_cases g Ai Aj with ⟨hempty, heq⟩ | ⟨hn, hp⟩
  · rw [heq]
    refine ⟨h, ?_⟩
    intro p hp hpA Y rest hb
    rcases hempty with he | he
    · exact absurd hpA (prodsOf_eq_nil_iff.1 he p hp)
    · rcases hm p hp hpA Y rest hb with hd | hY
      · exact Or.inl hd
      · by_cases e : Y = Aj
        · left; subst e; exact prodsOf_eq_nil_iff.1 he
        · right
          intro hmem
          rcases List.mem_append.1 hmem with h1 | h1
          · exact hY h1
          · simp at h1; exact e h1
  · -- dead non-terminals stay dead
    have dead : ∀ Y, Dead g Y → Dead (lrSubst g Ai Aj) Y := by
      intro Y hd q hq
      rcases (hp q).1 hq with ⟨hq1, _⟩ | ⟨p, r, ⟨hp1, hp2, _⟩, _, _, rfl⟩
      · exact hd q hq1
      · intro e; exact hd p hp1 (hp2.trans e)
    -- facts about a new production `Ai → r.body ++ tl`
    have newprod : ∀ p r, IsAiAj g Ai Aj p → r ∈ g.prods → r.head = Aj →
        ∃ s b, r.body = s :: b := by
      intro p r ⟨hp1, hp2, tl, hp3⟩ hr1 hr2
      have hAjn : Aj ∈ nts := h.k1 p hp1 Aj tl hp3
      have := h.nonempty_of_inBody hr1 hp1 (by rw [hr2, hp3]; simp) (hr2 ▸ hAjn)
      cases hb : r.body with
      | nil => exact absurd hb this
      | cons s b => exact ⟨s, b, rfl⟩
    have symsub : ∀ q, q ∈ (lrSubst g Ai Aj).prods → ∀ s, s ∈ q.body → ∃ q0, q0 ∈ g.prods ∧ s ∈ q0.body := by
      intro q hq s hs
      rcases (hp q).1 hq with ⟨hq1, _⟩ | ⟨p, r, ⟨hp1, _, tl, hp3⟩, hr1, _, rfl⟩
      · exact ⟨q, hq1, hs⟩
      · simp only [List.mem_append] at hs
        rcases hs with hs | hs
        · exact ⟨r, hr1, hs⟩
        · exact ⟨p, hp1, List.mem_of_mem_tail hs⟩
    refine ⟨⟨lrSubst_wf h.wf Ai Aj, by rw [hn]; exact h.decl, ?_, ?_, ?_, ?_⟩, ?_⟩
    · -- k1
      intro q hq Y rest hb
      rcases (hp q).1 hq with ⟨hq1, _⟩ | ⟨p, r, hpp, hr1, hr2, rfl⟩
      · exact h.k1 q hq1 Y rest hb
      · obtain ⟨s, b, hrb⟩ := newprod p r hpp hr1 hr2
        simp only [hrb, List.cons_append, List.cons.injEq] at hb
        exact h.k1 r hr1 Y b (by rw [hrb, hb.1])
    · -- k2
      intro q hq hqh Y rest hb
      rcases (hp q).1 hq with ⟨hq1, _⟩ | ⟨p, r, hpp, hr1, hr2, rfl⟩
      · exact h.k2 q hq1 hqh Y rest hb
      · obtain ⟨s, b, hrb⟩ := newprod p r hpp hr1 hr2
        obtain ⟨hp1, _, tl, hp3⟩ := hpp
        simp only [hrb, List.cons_append, List.cons.injEq] at hb
        obtain ⟨hs, hrest⟩ := hb
        have hAjn : Aj ∈ nts := h.k1 p hp1 Aj tl hp3
        obtain ⟨s2, rest2, hb2, hs2⟩ := h.k2 r hr1 (hr2 ▸ hAjn) Y b (by rw [hrb, hs])
        exact ⟨s2, rest2 ++ p.body.tail, by rw [← hrest, hb2]; simp, hs2⟩
    · -- k3
      intro q hq hb
      rcases (hp q).1 hq with ⟨hq1, _⟩ | ⟨p, r, hpp, hr1, hr2, rfl⟩
      · rcases h.k3 q hq1 hb with h1 | h1
        · exact Or.inl h1
        · right
          intro q' hq' hin
          obtain ⟨q0, hq0, hin0⟩ := symsub q' hq' _ hin
          exact h1 q0 hq0 hin0
      · obtain ⟨s, b, hrb⟩ := newprod p r hpp hr1 hr2
        simp [hrb] at hb
    · -- j1
      intro q hq hqd Y rest hb
      rcases (hp q).1 hq with ⟨hq1, _⟩ | ⟨p, r, _, _, _, rfl⟩
      · rcases h.j1 q hq1 hqd Y rest hb with hd | hlt
        · exact Or.inl (dead Y hd)
        · exact Or.inr hlt
      · exact absurd hqd hAi
    · -- Mid (pre ++ [Aj])
      intro q hq hqA Y rest hb
      rcases (hp q).1 hq with ⟨hq1, hnot⟩ | ⟨p, r, hpp, hr1, hr2, rfl⟩
      · rcases hm q hq1 hqA Y rest hb with hd | hY
        · exact Or.inl (dead Y hd)
        · right
          intro hmem
          rcases List.mem_append.1 hmem with h1 | h1
          · exact hY h1
          · simp at h1; subst h1
            exact hnot ⟨hq1, hqA, rest, hb⟩
      · obtain ⟨s, b, hrb⟩ := newprod p r hpp hr1 hr2
        simp only [hrb, List.cons_append, List.cons.injEq] at hb
        rcases h.j1 r hr1 (hr2 ▸ hAj) Y b (by rw [hrb, hb.1]) with hd | hlt
        · exact Or.inl (dead Y hd)
        · rw [hr2] at hlt
          exact Or.inr (after Y hlt)

theorem lrSubst_fold_inv9 {nts done : List String} {Ai : String} (hnd : done.Nodup) (hAi : Ai ∉ done) :
    ∀ (post pre : List String) (g : G), done = pre ++ post → LRInv9 nts done g → Mid pre Ai g →
      LRInv9 nts done (post.foldl (fun g Aj => lrSubst g Ai Aj) g) ∧
      Mid done Ai (post.foldl (fun g Aj => lrSubst g Ai Aj) g) := by
  intro post
  induction post with
  | nil =>
    intro pre g hd h hm
    simp at hd; subst hd
    exact ⟨h, hm⟩
  | cons Aj post ih =>
    intro pre g hd h hm
    obtain ⟨h1, h2⟩ := lrSubst_inv hd hnd hAi h hm
    simp only [List.foldl_cons]
    exact ih (pre ++ [Aj]) _ (by rw [hd]; simp) h1 h2

end AlgoVerif.C08
