import AlgoVerif.Proofs.C05Reg
/-!
# C05 helper lemmas: the indexed binomial heap Model keeps the index-map invariant
-/
namespace AlgoVerif.C05

namespace BT

theorem chainIds_sub : ∀ (t : BT) (x : Nat), x ∈ chainIds t → x ∈ ids t
  | nil, _, h => by simp [chainIds] at h
  | node id o c s, x, h => by
    simp only [chainIds, List.mem_cons] at h
    simp only [ids, List.mem_cons, List.mem_append]
    rcases h with h | h
    · exact Or.inl h
    · exact Or.inr (Or.inr (chainIds_sub s x h))

theorem ancestors_sub (target : Nat) : ∀ (t : BT) (par l : List Nat), ancestors target t par = some l →
    ∀ x, x ∈ l → x ∈ ids t ∨ x ∈ par
  | nil, _, _, h => by simp [ancestors] at h
  | node id o c s, par, l, h => by
    intro x hx
    simp only [ancestors] at h
    simp only [ids, List.mem_cons, List.mem_append]
    split at h
    · cases h; exact Or.inr hx
    · split at h
      · rename_i r hr
        cases h
        rcases ancestors_sub target c (id :: par) _ hr x hx with h1 | h1
        · exact Or.inl (Or.inr (Or.inl h1))
        · rcases List.mem_cons.mp h1 with h2 | h2
          · exact Or.inl (Or.inl h2)
          · exact Or.inr h2
      · rcases ancestors_sub target s par l h x hx with h1 | h1
        · exact Or.inl (Or.inr (Or.inr h1))
        · exact Or.inr h1

theorem childrenOf_sub (target : Nat) : ∀ (t c : BT), childrenOf target t = some c → ∀ x, x ∈ ids c → x ∈ ids t
  | nil, _, h => by simp [childrenOf] at h
  | node id o c s, r, h => by
    intro x hx
    simp only [childrenOf] at h
    simp only [ids, List.mem_cons, List.mem_append]
    split at h
    · cases h; exact Or.inr (Or.inl hx)
    · split at h
      · rename_i r' hr
        cases h
        exact Or.inr (Or.inl (childrenOf_sub target c _ hr x hx))
      · exact Or.inr (Or.inr (childrenOf_sub target s r h x hx))

theorem chainChild_sub (target : Nat) : ∀ (t c : BT), chainChild target t = some c → ∀ x, x ∈ ids c → x ∈ ids t
  | nil, _, h => by simp [chainChild] at h
  | node id o c s, r, h => by
    intro x hx
    simp only [chainChild] at h
    simp only [ids, List.mem_cons, List.mem_append]
    split at h
    · cases h; exact Or.inr (Or.inl hx)
    · exact Or.inr (Or.inr (chainChild_sub target s r h x hx))

theorem removeRoot_perm (target : Nat) : ∀ (t rest ch : BT), removeRoot target t = some (rest, ch) →
    (ids t).Perm (target :: (ids ch ++ ids rest))
  | nil, _, _, h => by simp [removeRoot] at h
  | node id o c s, rest, ch, h => by
    simp only [removeRoot] at h
    split at h
    · rename_i hid
      cases h; subst hid
      simp only [ids]; exact List.Perm.refl _
    · split at h
      · rename_i s' ch' hr
        cases h
        have ih := removeRoot_perm target s s' ch hr
        simp only [ids]
        -- id :: (ids c ++ ids s) ~ target :: (ids ch ++ (id :: (ids c ++ ids s')))
        have h1 : (id :: (ids c ++ ids s)).Perm (id :: (ids c ++ (target :: (ids ch ++ ids s')))) :=
          List.Perm.cons _ (List.Perm.append_left _ ih)
        refine h1.trans ?_
        have h2 : (id :: (ids c ++ target :: (ids ch ++ ids s'))).Perm
            (target :: (ids ch ++ id :: (ids c ++ ids s'))) := by
          simp only [List.perm_iff_count]
          intro a
          simp only [List.count_cons, List.count_append]
          omega
        exact h2
      · cases h

theorem revChain_perm : ∀ (c acc : BT), (ids (revChain c acc)).Perm (ids c ++ ids acc)
  | nil, acc => by simp [revChain, ids]
  | node id o c s, acc => by
    simp only [revChain]
    refine (revChain_perm s (node id o c acc)).trans ?_
    simp only [ids, List.perm_iff_count]
    intro a
    simp only [List.count_cons, List.count_append]
    omega

theorem merge_perm : ∀ (fuel : Nat) (a b r : BT), merge fuel a b = .ok r → (ids r).Perm (ids a ++ ids b)
  | 0, _, _, _, h => by simp [merge] at h
  | fuel + 1, nil, b, r, h => by simp [merge] at h; subst h; simp [ids]
  | fuel + 1, node i1 o1 c1 s1, nil, r, h => by simp [merge] at h; subst h; simp [ids]
  | fuel + 1, node i1 o1 c1 s1, node i2 o2 c2 s2, r, h => by
    simp only [merge] at h
    split at h
    · split at h
      · rename_i r' hr
        cases h
        have ih := merge_perm fuel _ _ _ hr
        simp only [ids] at ih ⊢
        refine (List.Perm.cons _ (List.Perm.append_left _ ih)).trans ?_
        simp only [List.perm_iff_count]
        intro a
        simp only [List.count_cons, List.count_append]
        omega
      · cases h
      · cases h
    · split at h
      · rename_i r' hr
        cases h
        have ih := merge_perm fuel _ _ _ hr
        simp only [ids] at ih ⊢
        refine (List.Perm.cons _ (List.Perm.append_left _ ih)).trans ?_
        simp only [List.perm_iff_count]
        intro a
        simp only [List.count_cons, List.count_append]
        omega
      · cases h
      · cases h

end BT

namespace IBinomial
variable {K V : Type} {cmp : K → K → Int}

theorem consolidateLoop_perm (h : IBinomial K V) : ∀ (rest : BT) (cid : Nat) (co : Int) (cc r : BT),
    consolidateLoop cmp h cid co cc rest = .ok r → (BT.ids r).Perm (cid :: (BT.ids cc ++ BT.ids rest))
  | .nil, cid, co, cc, r, hr => by
    simp only [consolidateLoop] at hr; cases hr; simp [BT.ids]
  | .node nid no nc ns, cid, co, cc, r, hr => by
    simp only [consolidateLoop] at hr
    split at hr
    · split at hr
      · rename_i r' hr'
        cases hr
        have ih := consolidateLoop_perm h ns nid no nc r' hr'
        simp only [BT.ids] at ih ⊢
        exact List.Perm.cons _ (List.Perm.append_left _ ih)
      · cases hr
      · cases hr
    · split at hr
      · split at hr
        · have ih := consolidateLoop_perm h ns cid (co + 1) (.node nid no nc cc) r hr
          refine ih.trans ?_
          simp only [BT.ids, List.perm_iff_count]
          intro a
          simp only [List.count_cons, List.count_append]
          omega
        · have ih := consolidateLoop_perm h ns nid (no + 1) (.node cid co cc nc) r hr
          refine ih.trans ?_
          simp only [BT.ids, List.perm_iff_count]
          intro a
          simp only [List.count_cons, List.count_append]
          omega
      · cases hr

theorem consolidate_perm (h : IBinomial K V) (t r : BT) (hr : consolidate cmp h t = .ok r) :
    (BT.ids r).Perm (BT.ids t) := by
  cases t with
  | nil => simp only [consolidate] at hr; cases hr; exact List.Perm.refl _
  | node id o c s => simp only [consolidate] at hr; simpa [BT.ids] using consolidateLoop_perm h s id o c r hr

theorem union_perm (h : IBinomial K V) (a b r : BT) (hr : union cmp h a b = .ok r) :
    (BT.ids r).Perm (BT.ids a ++ BT.ids b) := by
  unfold union at hr
  split at hr
  · rename_i m hm
    exact (consolidate_perm h m r hr).trans (BT.merge_perm _ _ _ _ hm)
  · cases hr
  · cases hr

theorem findExtLoop_mem (h : IBinomial K V) : ∀ (l : List Nat) (e x : Nat),
    findExtLoop cmp h e l = .ok x → x = e ∨ x ∈ l
  | [], e, x, hx => by simp only [findExtLoop] at hx; cases hx; exact Or.inl rfl
  | s :: rest, e, x, hx => by
    simp only [findExtLoop] at hx
    split at hx
    · split at hx
      · rcases findExtLoop_mem h rest s x hx with h1 | h1
        · exact Or.inr (by rw [h1]; exact List.mem_cons_self)
        · exact Or.inr (List.mem_cons_of_mem _ h1)
      · rcases findExtLoop_mem h rest e x hx with h1 | h1
        · exact Or.inl h1
        · exact Or.inr (List.mem_cons_of_mem _ h1)
    · cases hx

theorem findExt_mem (h : IBinomial K V) (l : List Nat) (x : Nat) (hx : findExt cmp h l = .ok (some x)) :
    x ∈ l := by
  cases l with
  | nil => simp [findExt] at hx
  | cons a rest =>
    simp only [findExt] at hx
    split at hx
    · rename_i e he
      cases hx
      rcases findExtLoop_mem h rest a x he with h1 | h1
      · rw [h1]; exact List.mem_cons_self
      · exact List.mem_cons_of_mem _ h1
    · cases hx
    · cases hx

theorem findExt_none (h : IBinomial K V) (l : List Nat) (hx : findExt cmp h l = .ok none) : l = [] := by
  cases l with
  | nil => rfl
  | cons a rest =>
    simp only [findExt] at hx
    split at hx <;> cases hx

/-! ### abstraction, invariant, `swap` -/

def abs (h : IBinomial K V) : Spec.Map K V := absOf h.nodes h.cells

/-- the index-map invariant of the indexed binomial heap -/
structure Inv (cap : Nat) (h : IBinomial K V) : Prop where
  reg : Reg cap h.head.ids h.nodes h.cells
  card : h.n = (Spec.card cap (abs h) : Int)

theorem swap_spec {cap : Nat} {S : List Nat} {h : IBinomial K V} (r : Reg cap S h.nodes h.cells)
    {c p : Nat} (hc : c ∈ S) (hp : p ∈ S) :
    ∃ h', h.swap c p = .ok h' ∧ Reg cap S h'.nodes h'.cells ∧ abs h' = abs h ∧ h'.head = h.head ∧
      h'.n = h.n ∧ h'.cells[p]? = h.cells[c]? ∧ h'.cells[c]? = h.cells[p]? ∧
      (∀ x, x ≠ c → x ≠ p → h'.cells[x]? = h.cells[x]?) := by
  obtain ⟨cc, hcc, hncc⟩ := r.reg c hc
  obtain ⟨pc, hpc, hnpc⟩ := r.reg p hp
  have hcs : c < h.cells.size := by
    by_cases hh : c < h.cells.size
    · exact hh
    · rw [Array.getElem?_eq_none (by omega)] at hcc; cases hcc
  have hps : p < h.cells.size := by
    by_cases hh : p < h.cells.size
    · exact hh
    · rw [Array.getElem?_eq_none (by omega)] at hpc; cases hpc
  have hci : cc.index < h.nodes.size := by
    by_cases hh : cc.index < h.nodes.size
    · exact hh
    · rw [Array.getElem?_eq_none (by omega)] at hncc; cases hncc
  have hpi : pc.index < h.nodes.size := by
    by_cases hh : pc.index < h.nodes.size
    · exact hh
    · rw [Array.getElem?_eq_none (by omega)] at hnpc; cases hnpc
  -- distinct nodes have distinct indices
  have hinj : c ≠ p → cc.index ≠ pc.index := by
    intro hne heq; rw [heq, hnpc] at hncc; cases hncc; exact hne rfl
  let cells' := (h.cells.setIfInBounds c pc).setIfInBounds p cc
  let nodes' := (h.nodes.setIfInBounds pc.index (some c)).setIfInBounds cc.index (some p)
  have hcells : ∀ x, cells'[x]? = if x = p then some cc else if x = c then some pc else h.cells[x]? := by
    intro x
    simp only [cells', Array.getElem?_setIfInBounds, Array.size_setIfInBounds]
    grind
  have hnodes : ∀ i, nodes'[i]? =
      if i = cc.index then some (some p) else if i = pc.index then some (some c) else h.nodes[i]? := by
    intro i
    simp only [nodes', Array.getElem?_setIfInBounds, Array.size_setIfInBounds]
    grind
  refine ⟨{ h with cells := cells', nodes := nodes' }, ?_, ?_, ?_, rfl, rfl, ?_, ?_, ?_⟩
  · unfold swap
    simp only [hcc, hpc, hncc, hnpc]
    rfl
  · refine ⟨by simp [nodes', r.nsize], r.nodup, ?_, ?_⟩
    · intro id hid
      show ∃ d, cells'[id]? = some d ∧ nodes'[d.index]? = some (some id)
      by_cases h1 : id = p
      · subst h1; exact ⟨cc, by rw [hcells]; simp, by rw [hnodes]; simp⟩
      · by_cases h2 : id = c
        · subst h2
          refine ⟨pc, by rw [hcells]; simp [h1], ?_⟩
          rw [hnodes, if_neg (fun h => hinj h1 h.symm), if_pos rfl]
        · obtain ⟨d, hd, hnd⟩ := r.reg id hid
          refine ⟨d, by rw [hcells, if_neg h1, if_neg h2]; exact hd, ?_⟩
          have e1 : d.index ≠ cc.index := by
            intro heq; rw [heq, hncc] at hnd; cases hnd; exact h2 rfl
          have e2 : d.index ≠ pc.index := by
            intro heq; rw [heq, hnpc] at hnd; cases hnd; exact h1 rfl
          rw [hnodes, if_neg e1, if_neg e2]; exact hnd
    · intro i id hi
      show id ∈ S ∧ ∃ d, cells'[id]? = some d ∧ d.index = i
      rw [hnodes] at hi
      by_cases h1 : i = cc.index
      · rw [if_pos h1] at hi; cases hi
        exact ⟨hp, cc, by rw [hcells]; simp, h1.symm⟩
      · rw [if_neg h1] at hi
        by_cases h2 : i = pc.index
        · rw [if_pos h2] at hi; cases hi
          have hne : c ≠ p := by intro heq; subst heq; rw [hcc] at hpc; cases hpc; exact h1 h2
          exact ⟨hc, pc, by rw [hcells, if_neg hne, if_pos rfl], h2.symm⟩
        · rw [if_neg h2] at hi
          obtain ⟨hmem, d, hd, hdi⟩ := r.back i id hi
          have e1 : id ≠ p := by intro heq; subst heq; rw [hpc] at hd; cases hd; exact h2 hdi.symm
          have e2 : id ≠ c := by intro heq; subst heq; rw [hcc] at hd; cases hd; exact h1 hdi.symm
          exact ⟨hmem, d, by rw [hcells, if_neg e1, if_neg e2]; exact hd, hdi⟩
  · funext j
    show absOf nodes' cells' j = absOf h.nodes h.cells j
    unfold absOf
    have hsz : nodes'.size = h.nodes.size := by simp [nodes']
    rw [hsz]
    split
    · rename_i hr
      rw [hnodes]
      by_cases h1 : j.toNat = cc.index
      · rw [if_pos h1, h1, hncc]
        simp only []
        rw [hcells, if_pos rfl, hcc]
      · rw [if_neg h1]
        by_cases h2 : j.toNat = pc.index
        · rw [if_pos h2, h2, hnpc]
          simp only []
          have hne : c ≠ p := by intro heq; subst heq; rw [hcc] at hpc; cases hpc; exact h1 h2
          rw [hcells, if_neg hne, if_pos rfl, hpc]
        · rw [if_neg h2]
          split
          · rename_i id hid
            obtain ⟨_, d, hd, hdi⟩ := r.back _ _ hid
            have e1 : id ≠ p := by intro heq; subst heq; rw [hpc] at hd; cases hd; exact h2 hdi.symm
            have e2 : id ≠ c := by intro heq; subst heq; rw [hcc] at hd; cases hd; exact h1 hdi.symm
            rw [hcells, if_neg e1, if_neg e2]
          · rfl
    · rfl
  · show cells'[p]? = h.cells[c]?
    rw [hcells, if_pos rfl, hcc]
  · show cells'[c]? = h.cells[p]?
    rw [hcells]
    by_cases hne : c = p
    · subst hne; rw [if_pos rfl, hcc]
    · rw [if_neg hne, if_pos rfl, hpc]
  · intro x hxc hxp
    show cells'[x]? = h.cells[x]?
    rw [hcells, if_neg hxp, if_neg hxc]


/-! ### the loops that only swap contents -/

theorem promoteLoop_spec {cap : Nat} {S : List Nat} : ∀ (anc : List Nat) (h h' : IBinomial K V) (n : Nat),
    Reg cap S h.nodes h.cells → n ∈ S → (∀ x, x ∈ anc → x ∈ S) → promoteLoop cmp h n anc = .ok h' →
    Reg cap S h'.nodes h'.cells ∧ abs h' = abs h ∧ h'.head = h.head ∧ h'.n = h.n
  | [], h, h', n, r, _, _, he => by
    simp only [promoteLoop] at he; cases he; exact ⟨r, rfl, rfl, rfl⟩
  | p :: ps, h, h', n, r, hn, hanc, he => by
    simp only [promoteLoop] at he
    split at he
    · split at he
      · obtain ⟨h1, hsw, r1, ha1, hh1, hn1, _, _⟩ := swap_spec r hn (hanc p List.mem_cons_self)
        rw [hsw] at he
        simp only [] at he
        obtain ⟨r2, ha2, hh2, hn2⟩ := promoteLoop_spec ps h1 h' p r1 (hanc p List.mem_cons_self)
          (fun x hx => hanc x (List.mem_cons_of_mem _ hx)) he
        exact ⟨r2, by rw [ha2, ha1], by rw [hh2, hh1], by rw [hn2, hn1]⟩
      · cases he; exact ⟨r, rfl, rfl, rfl⟩
    · cases he

theorem bubbleUp_spec {cap : Nat} {S : List Nat} : ∀ (anc : List Nat) (h h' : IBinomial K V) (n r' : Nat),
    Reg cap S h.nodes h.cells → n ∈ S → (∀ x, x ∈ anc → x ∈ S) → bubbleUp h n anc = .ok (h', r') →
    Reg cap S h'.nodes h'.cells ∧ abs h' = abs h ∧ h'.head = h.head ∧ h'.n = h.n ∧ r' ∈ S ∧
      h'.cells[r']? = h.cells[n]?
  | [], h, h', n, r', r, hn, _, he => by
    simp only [bubbleUp] at he; cases he; exact ⟨r, rfl, rfl, rfl, hn, rfl⟩
  | p :: ps, h, h', n, r', r, hn, hanc, he => by
    simp only [bubbleUp] at he
    obtain ⟨h1, hsw, r1, ha1, hh1, hn1, hcp, _⟩ := swap_spec r hn (hanc p List.mem_cons_self)
    rw [hsw] at he
    simp only [] at he
    obtain ⟨r2, ha2, hh2, hn2, hmem, hcell⟩ := bubbleUp_spec ps h1 h' p r' r1 (hanc p List.mem_cons_self)
      (fun x hx => hanc x (List.mem_cons_of_mem _ hx)) he
    exact ⟨r2, by rw [ha2, ha1], by rw [hh2, hh1], by rw [hn2, hn1], hmem, by rw [hcell, hcp]⟩

theorem demote_spec {cap : Nat} {S : List Nat} : ∀ (fuel : Nat) (h h' : IBinomial K V) (n : Nat) (ch : BT),
    Reg cap S h.nodes h.cells → n ∈ S → (∀ x, x ∈ ch.ids → x ∈ S) → demote cmp fuel h n ch = .ok h' →
    Reg cap S h'.nodes h'.cells ∧ abs h' = abs h ∧ h'.head = h.head ∧ h'.n = h.n
  | 0, h, h', n, ch, _, _, _, he => by simp [demote] at he
  | fuel + 1, h, h', n, ch, r, hn, hch, he => by
    simp only [demote] at he
    split at he
    · cases he; exact ⟨r, rfl, rfl, rfl⟩
    · rename_i c hfe
      have hc : c ∈ S := hch c (BT.chainIds_sub _ _ (findExt_mem h _ c hfe))
      split at he
      · split at he
        · obtain ⟨h1, hsw, r1, ha1, hh1, hn1, _, _⟩ := swap_spec r hc hn
          rw [hsw] at he
          simp only [] at he
          split at he
          · rename_i ch' hch'
            obtain ⟨r2, ha2, hh2, hn2⟩ := demote_spec fuel h1 h' c ch' r1 hc
              (fun x hx => hch x (BT.chainChild_sub c ch ch' hch' x hx)) he
            exact ⟨r2, by rw [ha2, ha1], by rw [hh2, hh1], by rw [hn2, hn1]⟩
          · cases he
        · cases he; exact ⟨r, rfl, rfl, rfl⟩
      · cases he
    · cases he
    · cases he

/-! ### the operations (what they do *if they return*) -/

theorem containsIndex_eq {cap : Nat} {S : List Nat} {h : IBinomial K V} (r : Reg cap S h.nodes h.cells)
    (i : Int) : h.containsIndex i = (abs h i).isSome := by
  unfold containsIndex abs absOf
  split
  · split
    · rename_i id hid
      obtain ⟨_, c, hc, _⟩ := r.back _ _ hid
      rw [hid]; simp [hc]
    · rename_i hne
      split
      · rename_i id hid; exact absurd hid (hne id)
      · rfl
  · rfl

theorem node_of_held {cap : Nat} {S : List Nat} {h : IBinomial K V} (r : Reg cap S h.nodes h.cells) {i : Int}
    (hc : h.containsIndex i = true) :
    Spec.InRange cap i ∧ ∃ id c, h.nodes[i.toNat]? = some (some id) ∧ id ∈ S ∧ h.cells[id]? = some c ∧
      c.index = i.toNat ∧ abs h i = some (c.key, c.val) := by
  rw [containsIndex_eq r] at hc
  cases ha : abs h i with
  | none => rw [ha] at hc; cases hc
  | some e =>
    obtain ⟨hr, id, c, h1, h2, h3, h4, h5⟩ := absOf_some r ha
    exact ⟨hr, id, c, h1, h2, h3, h4, by rw [h5]⟩

theorem insert_sim {eq : V → V → Bool} {cap : Nat} {h h' : IBinomial K V} (inv : Inv cap h) (i : Int) (key : K)
    (val : V) (b : Bool) (he : h.insert cmp i key val = .ok (h', b)) :
    Inv cap h' ∧ Spec.AdmitWeak cmp eq cap (abs h) (.insert i key val) (.bool b) (abs h') := by
  have r := inv.reg
  have ns := r.nsize
  unfold insert at he
  split at he
  · rename_i hcond
    cases he
    refine ⟨inv, .insert_fail ?_⟩
    rintro ⟨hr, hnone⟩
    unfold Spec.InRange at hr
    rcases hcond with h1 | h1 | h1
    · omega
    · omega
    · rw [containsIndex_eq r, hnone] at h1; cases h1
  · rename_i hcond
    have hr : Spec.InRange cap i := by unfold Spec.InRange; omega
    have hfreeb : h.containsIndex i = false := by
      cases hx : h.containsIndex i with
      | true => exact absurd (Or.inr (Or.inr hx)) hcond
      | false => rfl
    have hnone : abs h i = none := by
      rw [containsIndex_eq r] at hfreeb
      cases hx : abs h i with
      | none => rfl
      | some e => rw [hx] at hfreeb; cases hfreeb
    have hilt : i.toNat < cap := by unfold Spec.InRange at hr; omega
    have hji : ((i.toNat : Nat) : Int) = i := by unfold Spec.InRange at hr; omega
    have hfree : h.nodes[i.toNat]? = some none := by
      rw [← absOf_none_iff r hilt, hji]; exact hnone
    simp only [] at he
    split at he
    · rename_i hd hun
      split at he
      · cases he
        obtain ⟨r', habs⟩ := r.insert hilt hfree key val
        have hperm := union_perm _ _ _ _ hun
        have hp2 : (BT.ids hd).Perm (h.cells.size :: h.head.ids) := by
          refine hperm.trans ?_
          simp only [BT.ids, List.append_nil]
          exact List.perm_append_comm
        have habs' : absOf (h.nodes.setIfInBounds i.toNat (some h.cells.size))
            (h.cells.push { index := i.toNat, key := key, val := val }) = (abs h).set i (some (key, val)) := by
          rw [habs, hji]; rfl
        refine ⟨⟨r'.perm hp2.symm, ?_⟩, ?_⟩
        · show h.n + 1 = _
          unfold abs
          show h.n + 1 = ((Spec.card cap (absOf (h.nodes.setIfInBounds i.toNat (some h.cells.size))
            (h.cells.push { index := i.toNat, key := key, val := val })) : Nat) : Int)
          rw [habs', Spec.card_set_some_new _ hr hnone, inv.card]
          simp
        · show Spec.AdmitWeak cmp eq cap (abs h) _ _ (absOf _ _)
          rw [habs']
          exact .insert_ok hr hnone
      · cases he
    · cases he
    · cases he

theorem changeKey_sim {eq : V → V → Bool} {cap : Nat} {h h' : IBinomial K V} (inv : Inv cap h) (i : Int)
    (key : K) (b : Bool) (he : h.changeKey cmp i key = .ok (h', b)) :
    Inv cap h' ∧ Spec.AdmitWeak cmp eq cap (abs h) (.changeKey i key) (.bool b) (abs h') := by
  have r := inv.reg
  unfold changeKey at he
  split at he
  · rename_i hcond
    cases he
    refine ⟨inv, .changeKey_fail ?_⟩
    rw [containsIndex_eq r] at hcond
    cases hx : abs h i with
    | none => rfl
    | some e => rw [hx] at hcond; cases hcond
  · rename_i hcond
    have hheld : h.containsIndex i = true := by
      cases hx : h.containsIndex i with
      | true => rfl
      | false => exact absurd hx hcond
    obtain ⟨hr, id, c, hnode, hmem, hcell, hci, habs⟩ := node_of_held r hheld
    have hji : ((i.toNat : Nat) : Int) = i := by unfold Spec.InRange at hr; omega
    rw [hnode] at he
    simp only [] at he
    rw [hcell] at he
    simp only [] at he
    obtain ⟨r1, habs1⟩ := r.setKey hmem hcell key
    split at he
    · rename_i h2 hpr
      unfold promote at hpr
      split at hpr
      · rename_i anc hanc
        have hsub : ∀ x, x ∈ anc → x ∈ h.head.ids := by
          intro x hx
          rcases BT.ancestors_sub id _ _ _ hanc x hx with h1 | h1
          · exact h1
          · cases h1
        obtain ⟨r2, ha2, hh2, hn2⟩ := promoteLoop_spec anc _ h2 id r1 hmem hsub hpr
        split at he
        · cases he
        · rename_i ch hch
          split at he
          · rename_i h3 hde
            cases he
            have hsub2 : ∀ x, x ∈ ch.ids → x ∈ h.head.ids := by
              intro x hx
              have := BT.childrenOf_sub id _ ch hch x hx
              rw [hh2] at this; exact this
            obtain ⟨r3, ha3, hh3, hn3⟩ := demote_spec _ h2 h' id ch r2 hmem hsub2 hde
            have habs' : abs h' = (abs h).set i (some (key, c.val)) := by
              rw [ha3, ha2]
              show absOf h.nodes _ = _
              rw [habs1, hci, hji]; rfl
            refine ⟨⟨by rw [hh3, hh2]; exact r3, ?_⟩, ?_⟩
            · rw [hn3, hn2, habs', Spec.card_set_some_old _ _ hr habs]
              exact inv.card
            · rw [habs']; exact .changeKey_ok habs (Or.inl rfl)
          · cases he
          · cases he
      · cases hpr
    · cases he
    · cases he

theorem removeAndUnion_spec {cap : Nat} {h h' : IBinomial K V} {e : Nat} {c : Cell K V}
    (r : Reg cap h.head.ids h.nodes h.cells) (he : removeAndUnion cmp h e = .ok (h', c)) :
    Reg cap h'.head.ids h'.nodes h'.cells ∧ abs h' = (abs h).set (c.index : Int) none ∧
      abs h (c.index : Int) = some (c.key, c.val) ∧ c.index < cap ∧ h'.n = h.n - 1 ∧ h.cells[e]? = some c := by
  unfold removeAndUnion at he
  split at he
  · cases he
  · rename_i rest ch hrem
    simp only [] at he
    split at he
    · rename_i head' hun
      split at he
      · rename_i c' hc'
        split at he
        · cases he
          have hp1 := BT.removeRoot_perm e _ _ _ hrem
          have hp2 := union_perm _ _ _ _ hun
          have hp3 := BT.revChain_perm ch .nil
          have hperm : (h.head.ids).Perm (e :: head'.ids) := by
            refine hp1.trans (List.Perm.cons _ ?_)
            refine List.Perm.trans ?_ hp2.symm
            refine List.perm_append_comm.trans (List.Perm.append_left _ ?_)
            simp only [BT.ids, List.append_nil] at hp3
            exact hp3.symm
          obtain ⟨r', h1, h2, h3⟩ := r.remove hperm hc'
          exact ⟨r', h1, h2, h3, rfl, hc'⟩
        · cases he
      · cases he
    · cases he
    · cases he

theorem chainIds_nil : ∀ (t : BT), t.chainIds = [] → t = .nil
  | .nil, _ => rfl
  | .node _ _ _ _, h => by simp [BT.chainIds] at h

theorem empty_of_head_nil {cap : Nat} {h : IBinomial K V} (r : Reg cap h.head.ids h.nodes h.cells)
    (hn : h.head = .nil) (i : Int) : abs h i = none := by
  cases ha : abs h i with
  | none => rfl
  | some e =>
    obtain ⟨_, id, _, _, hmem, _⟩ := absOf_some r ha
    rw [hn] at hmem; cases hmem

theorem delete_sim {eq : V → V → Bool} {cap : Nat} {h h' : IBinomial K V} (inv : Inv cap h)
    (res : Option (Int × K × V)) (he : h.delete cmp = .ok (h', res)) :
    Inv cap h' ∧ Spec.AdmitWeak cmp eq cap (abs h) .delete (.ikv res) (abs h') := by
  have r := inv.reg
  unfold delete at he
  split at he
  · rename_i hfe
    cases he
    exact ⟨inv, .delete_none (empty_of_head_nil r (chainIds_nil _ (findExt_none _ _ hfe)))⟩
  · rename_i e hfe
    split at he
    · rename_i h1 c hrm
      cases he
      obtain ⟨r', habs', habs, hlt, hn, _⟩ := removeAndUnion_spec r hrm
      have hr : Spec.InRange cap (c.index : Int) := by unfold Spec.InRange; omega
      refine ⟨⟨r', ?_⟩, ?_⟩
      · rw [hn, habs']
        have := Spec.card_set_none _ hr habs
        have := inv.card
        omega
      · rw [habs']; exact .delete_some habs trivial
    · cases he
    · cases he
  · cases he
  · cases he

theorem deleteIndex_sim {eq : V → V → Bool} {cap : Nat} {h h' : IBinomial K V} (inv : Inv cap h) (i : Int)
    (res : Option (K × V)) (he : h.deleteIndex cmp i = .ok (h', res)) :
    Inv cap h' ∧ Spec.AdmitWeak cmp eq cap (abs h) (.deleteIndex i) (.kv res) (abs h') := by
  have r := inv.reg
  unfold deleteIndex at he
  split at he
  · rename_i hcond
    cases he
    refine ⟨inv, .deleteIndex_none ?_⟩
    rw [containsIndex_eq r] at hcond
    cases hx : abs h i with
    | none => rfl
    | some e => rw [hx] at hcond; cases hcond
  · rename_i hcond
    have hheld : h.containsIndex i = true := by
      cases hx : h.containsIndex i with
      | true => rfl
      | false => exact absurd hx hcond
    obtain ⟨hr, id, c, hnode, hmem, hcell, hci, habs⟩ := node_of_held r hheld
    have hji : ((i.toNat : Nat) : Int) = i := by unfold Spec.InRange at hr; omega
    rw [hnode] at he
    simp only [] at he
    split at he
    · cases he
    · rename_i anc hanc
      have hsub : ∀ x, x ∈ anc → x ∈ h.head.ids := by
        intro x hx
        rcases BT.ancestors_sub id _ _ _ hanc x hx with h1 | h1
        · exact h1
        · cases h1
      split at he
      · rename_i h1 rt hbu
        obtain ⟨r1, ha1, hh1, hn1, _, hcell1⟩ := bubbleUp_spec anc h h1 id rt r hmem hsub hbu
        split at he
        · rename_i h2 c2 hrm
          cases he
          obtain ⟨r2, habs2, _, _, hn2, hc2⟩ := removeAndUnion_spec (by rw [hh1]; exact r1) hrm
          have : c2 = c := by rw [hcell1, hcell] at hc2; exact (Option.some.inj hc2).symm
          subst this
          have habs' : abs h' = (abs h).set i none := by rw [habs2, ha1, hci, hji]
          refine ⟨⟨r2, ?_⟩, ?_⟩
          · rw [hn2, hn1, habs']
            have := Spec.card_set_none _ hr habs
            have := inv.card
            omega
          · rw [habs']; exact .deleteIndex_some habs
        · cases he
        · cases he
      · cases he
      · cases he

theorem peek_sim {eq : V → V → Bool} {cap : Nat} {h : IBinomial K V} (inv : Inv cap h)
    (res : Option (Int × K × V)) (he : h.peek cmp = .ok res) :
    Spec.AdmitWeak cmp eq cap (abs h) .peek (.ikv res) (abs h) := by
  have r := inv.reg
  unfold peek at he
  split at he
  · rename_i hfe
    cases he
    exact .peek_none (empty_of_head_nil r (chainIds_nil _ (findExt_none _ _ hfe)))
  · rename_i e hfe
    have hmem : e ∈ h.head.ids := BT.chainIds_sub _ _ (findExt_mem h _ e hfe)
    obtain ⟨c, hc, hn⟩ := r.reg e hmem
    rw [hc] at he
    cases he
    exact .peek_some (absOf_held hn hc) trivial
  · cases he
  · cases he

theorem peekIndex_sim {eq : V → V → Bool} {cap : Nat} {h : IBinomial K V} (inv : Inv cap h) (i : Int)
    (res : Option (K × V)) (he : h.peekIndex i = .ok res) :
    Spec.AdmitWeak cmp eq cap (abs h) (.peekIndex i) (.kv res) (abs h) := by
  have r := inv.reg
  have key := Spec.AdmitG.peekIndex (P := fun _ _ => True) (cmp := cmp) (eq := eq) (cap := cap) (m := abs h) (i := i)
  unfold peekIndex at he
  split at he
  · rename_i hcond
    cases he
    rw [containsIndex_eq r] at hcond
    cases hx : abs h i with
    | none => rw [hx] at key; exact key
    | some e => rw [hx] at hcond; cases hcond
  · rename_i hcond
    have hheld : h.containsIndex i = true := by
      cases hx : h.containsIndex i with
      | true => rfl
      | false => exact absurd hx hcond
    obtain ⟨_, id, c, hnode, _, hcell, _, habs⟩ := node_of_held r hheld
    rw [hnode] at he
    simp only [] at he
    rw [hcell] at he
    cases he
    rw [habs] at key; exact key

theorem isEmpty_iff {cap : Nat} {h : IBinomial K V} (r : Reg cap h.head.ids h.nodes h.cells) :
    h.isEmpty = true ↔ ∀ i, abs h i = none := by
  unfold isEmpty
  cases hh : h.head with
  | nil => simp only [true_iff]; exact empty_of_head_nil r hh
  | node id o c s =>
    simp only [Bool.false_eq_true, false_iff]
    intro hall
    obtain ⟨cl, hc, hn⟩ := r.reg id (by rw [hh]; simp [BT.ids])
    have := absOf_held hn hc
    rw [show absOf h.nodes h.cells = abs h from rfl, hall] at this
    cases this

theorem step_sim (eq : V → V → Bool) {cap : Nat} (h : IBinomial K V) (op : Op K V) (h' : IBinomial K V)
    (res : Res K V) (inv : Inv cap h) (he : step cmp eq h op = .ok (h', res)) :
    Inv cap h' ∧ Spec.AdmitWeak cmp eq cap (abs h) op res (abs h') := by
  cases op with
  | insert i k v =>
    simp only [step, Outcome.map] at he
    split at he
    · rename_i p hp; obtain ⟨h1, b⟩ := p; cases he; exact insert_sim inv i k v b hp
    · cases he
    · cases he
  | changeKey i k =>
    simp only [step, Outcome.map] at he
    split at he
    · rename_i p hp; obtain ⟨h1, b⟩ := p; cases he; exact changeKey_sim inv i k b hp
    · cases he
    · cases he
  | delete =>
    simp only [step, Outcome.map] at he
    split at he
    · rename_i p hp; obtain ⟨h1, b⟩ := p; cases he; exact delete_sim inv b hp
    · cases he
    · cases he
  | deleteIndex i =>
    simp only [step, Outcome.map] at he
    split at he
    · rename_i p hp; obtain ⟨h1, b⟩ := p; cases he; exact deleteIndex_sim inv i b hp
    · cases he
    · cases he
  | deleteAll =>
    simp only [step] at he
    cases he
    have r := inv.reg
    have habs : abs h.deleteAll = Spec.Map.empty := absOf_replicate _ _
    refine ⟨⟨r.clear, ?_⟩, ?_⟩
    · show (0 : Int) = _
      rw [habs, Spec.card_empty]; rfl
    · rw [habs]; exact .deleteAll
  | peek =>
    simp only [step, Outcome.map] at he
    split at he
    · rename_i p hp; cases he; exact ⟨inv, peek_sim inv p hp⟩
    · cases he
    · cases he
  | peekIndex i =>
    simp only [step, Outcome.map] at he
    split at he
    · rename_i p hp; cases he; exact ⟨inv, peekIndex_sim inv i p hp⟩
    · cases he
    · cases he
  | containsIndex i =>
    simp only [step] at he
    cases he
    rw [containsIndex_eq inv.reg]
    exact ⟨inv, .containsIndex⟩
  | containsKey k =>
    simp only [step, Outcome.map] at he
    split at he
    · rename_i b hb
      cases he
      refine ⟨inv, .containsKey ?_⟩
      have := anyCell_spec inv.reg (fun c => cmp c.key k == 0) (fun kv => cmp kv.1 k == 0) (fun _ => rfl) hb
      rw [this]
      constructor
      · rintro ⟨i, k', v, ha, hq⟩; exact ⟨i, k', v, ha, by simpa using hq⟩
      · rintro ⟨i, k', v, ha, hq⟩; exact ⟨i, k', v, ha, by simpa using hq⟩
    · cases he
    · cases he
  | containsValue v =>
    simp only [step, Outcome.map] at he
    split at he
    · rename_i b hb
      cases he
      refine ⟨inv, .containsValue ?_⟩
      have := anyCell_spec inv.reg (fun c => eq c.val v) (fun kv => eq kv.2 v) (fun _ => rfl) hb
      rw [this]
      constructor
      · rintro ⟨i, k', v', ha, hq⟩; exact ⟨i, k', v', ha, hq⟩
      · rintro ⟨i, k', v', ha, hq⟩; exact ⟨i, k', v', ha, hq⟩
    · cases he
    · cases he
  | size =>
    simp only [step] at he
    cases he
    refine ⟨inv, ?_⟩
    have := Spec.AdmitG.size (P := fun _ _ => True) (cmp := cmp) (eq := eq) (cap := cap) (m := abs h)
    rw [← inv.card] at this; exact this
  | isEmpty =>
    simp only [step] at he
    cases he
    exact ⟨inv, .isEmpty (isEmpty_iff inv.reg)⟩

theorem inv_new (cap : Nat) : Inv cap (new cap : IBinomial K V) := by
  refine ⟨Reg.empty cap, ?_⟩
  show (0 : Int) = _
  have : abs (new cap : IBinomial K V) = Spec.Map.empty := absOf_replicate _ _
  rw [this, Spec.card_empty]; rfl

theorem abs_new (cap : Nat) : abs (new cap : IBinomial K V) = Spec.Map.empty := absOf_replicate _ _

end IBinomial
end AlgoVerif.C05
