import AlgoVerif.Proofs.C07Counting
import AlgoVerif.Proofs.C07RIns
import AlgoVerif.Proofs.C07Words
/-!
# C07 — the MSD radix sorts on machine words (`radixsort/msd.go`: `MSDUint`, `MSDInt`)

`msdUint_spec` / `msdInt_spec`: for every input the Model returns `ok out` (no panic, fuel suffices)
and `out.toList` is core's `List.mergeSort` of the input by the native order `uLe` / `iLe`.

Structure: (1) the native orders as comparators `cmpW signed` with natural-number key `wk`, and the
order facts about the bytes above a digit (`wk_lt_of_bucket`); (2) list facts turning the
`bucketConcat` statement of `countingPass_spec` into index facts (`pass_facts`); (3) generic
machinery for "256 buckets laid out in a segment, each handled by one recursive call"
(`Lay`, `BOK`, `proc_bucket`, `bucketLoop_ok`, `Sched`, `loop_phase`, `tail_phase`);
(4) the recursion `msdWordAux_spec` by induction on the fuel; (5) the exported sorts.
-/
namespace AlgoVerif.C07
open AlgoVerif

/-! ## the native orders as comparators -/

/-- order-preserving natural-number key of the native order -/
def wk (signed : Bool) (v : UInt64) : Nat := if signed then skey v else v.toNat

/-- the native three-way comparison -/
def cmpW (signed : Bool) (x y : UInt64) : Int := (wk signed x : Int) - (wk signed y : Int)

theorem cmpW_tp (signed : Bool) : TotalPreorder (cmpW signed) := by
  constructor
  · intro a b; unfold cmpW; omega
  · intro a b c; unfold cmpW; omega

theorem ltW_iff (signed : Bool) (x y : UInt64) :
    (if signed then iLt else uLt) x y = true ↔ cmpW signed x y < 0 := by
  cases signed
  · simp only [Bool.false_eq_true, ↓reduceIte, uLt_eq, cmpW, wk, decide_eq_true_eq]; omega
  · simp only [↓reduceIte, iLt_eq, cmpW, wk, decide_eq_true_eq]; omega

theorem wk_injective (signed : Bool) {x y : UInt64} (h : wk signed x = wk signed y) : x = y := by
  cases signed
  · exact toNat_injective (by simpa [wk] using h)
  · exact skey_injective (by simpa [wk] using h)

/-! ## bytes above a position -/

theorem high_shift (v : UInt64) (m j : Nat) : high v (m + j) = high v m / 256 ^ j := by
  unfold high
  rw [Nat.pow_add, Nat.div_div_eq_div_mul]

/-- rank of a digit value in the bucket order of the pass at depth `d` -/
def rho (signed : Bool) (d : Nat) (r : Nat) : Nat := if signed = true ∧ d = 0 then (r + 128) % 256 else r

theorem toNat_lt_of_bucket (d : Nat) (h r r' : Nat) (x y : UInt64)
    (hx : high x (7 - d) = h * 256 + r) (hy : high y (7 - d) = h * 256 + r') (hrr : r < r') :
    x.toNat < y.toNat := by
  have e1 := toNat_eq_high_low x (7 - d)
  have e2 := toNat_eq_high_low y (7 - d)
  have l1 := low_lt x (7 - d)
  have h1 : (high x (7 - d) + 1) * 256 ^ (7 - d) ≤ high y (7 - d) * 256 ^ (7 - d) :=
    Nat.mul_le_mul_right _ (by omega)
  rw [Nat.add_mul, Nat.one_mul] at h1
  omega

theorem top_of_bucket (d : Nat) (hd : d ≤ 7) (hd0 : 0 < d) (h r : Nat) (hr : r < 256) (x : UInt64)
    (hx : high x (7 - d) = h * 256 + r) : high x 7 = h / 256 ^ (d - 1) := by
  have e : 7 = (7 - d) + ((d - 1) + 1) := by omega
  rw [e, high_shift, hx, Nat.pow_succ', ← Nat.div_div_eq_div_mul]
  congr 1
  omega

theorem skey_lt_of_top (x y : UInt64) (ht : high x 7 = high y 7) (h : x.toNat < y.toNat) : skey x < skey y := by
  have e1 := toNat_eq_high_low x 7
  have e2 := toNat_eq_high_low y 7
  rw [skey_eq_high, skey_eq_high, ht]
  rw [ht] at e1
  omega

theorem wk_lt_of_bucket (signed : Bool) (d : Nat) (hd : d ≤ 7) (h r r' : Nat) (hr : r < 256) (hr' : r' < 256)
    (x y : UInt64) (hx : high x (7 - d) = h * 256 + r) (hy : high y (7 - d) = h * 256 + r')
    (hrr : rho signed d r < rho signed d r') : wk signed x < wk signed y := by
  cases signed
  · simp only [rho, Bool.false_eq_true, false_and, ↓reduceIte] at hrr
    simpa [wk] using toNat_lt_of_bucket d h r r' x y hx hy hrr
  · simp only [wk, ↓reduceIte]
    by_cases hd0 : d = 0
    · subst hd0
      simp only [rho, and_self, ↓reduceIte] at hrr
      have hx7 : high x 7 < 256 := by have := x.toNat_lt; unfold high; omega
      have hy7 : high y 7 < 256 := by have := y.toNat_lt; unfold high; omega
      have l1 := low_lt x 7
      have l2 := low_lt y 7
      simp only [Nat.sub_zero] at hx hy
      rw [skey_eq_high, skey_eq_high, hx, hy]
      have h0 : h = 0 := by omega
      subst h0
      omega
    · have hrr : r < r' := by simpa [rho, hd0] using hrr
      apply skey_lt_of_top
      · rw [top_of_bucket d hd (by omega) h r hr x hx, top_of_bucket d hd (by omega) h r' hr' y hy]
      · exact toNat_lt_of_bucket d h r r' x y hx hy hrr

theorem rho_inj (signed : Bool) (d : Nat) (r r' : Nat) (hr : r < 256) (hr' : r' < 256)
    (h : rho signed d r = rho signed d r') : r = r' := by
  unfold rho at h
  split at h <;> omega

theorem eq_of_high_zero (x y : UInt64) (h : high x 0 = high y 0) : x = y := by
  rw [high_zero, high_zero] at h
  exact toNat_injective h

variable {α : Type}

/-! ## chains of buckets -/

/-- in a chain, the element at offset `u` of bucket `r` of the concatenation is at `S r + u` -/
theorem flatMap_chain_getElem? (B : Nat → List α) (S : Nat → Nat) : ∀ (ord : List Nat) (pre : List α),
    Chain S (fun r => (B r).length) pre.length ord → ∀ r, r ∈ ord → ∀ u, u < (B r).length →
      (pre ++ ord.flatMap B)[S r + u]? = (B r)[u]? := by
  intro ord
  induction ord with
  | nil => intro _ _ r hr; cases hr
  | cons r0 rest ih =>
    intro pre hc r hr u hu
    obtain ⟨h1, h2⟩ := hc
    rw [List.flatMap_cons, ← List.append_assoc]
    rcases List.mem_cons.1 hr with rfl | hr'
    · rw [h1, List.getElem?_append_left (by simp; omega), List.getElem?_append_right (by omega)]
      simp
    · exact ih (pre ++ B r0) (by simpa using h2) r hr' u hu

theorem chain_cover (S : Nat → Nat) (len : Nat → Nat) : ∀ (ord : List Nat) (s0 : Nat), Chain S len s0 ord →
    ∀ t, s0 ≤ t → t < s0 + total len ord → ∃ r, r ∈ ord ∧ S r ≤ t ∧ t < S r + len r := by
  intro ord
  induction ord with
  | nil => intro s0 _ t h1 h2; simp [total] at h2; omega
  | cons r0 rest ih =>
    intro s0 hc t h1 h2
    obtain ⟨e1, e2⟩ := hc
    simp only [total, List.map_cons, List.sum_cons] at h2
    by_cases ht : t < s0 + len r0
    · exact ⟨r0, List.mem_cons_self, by omega, by omega⟩
    · obtain ⟨r, hr, h3, h4⟩ := ih (s0 + len r0) e2 t (by omega) (by simp only [total]; omega)
      exact ⟨r, List.mem_cons_of_mem _ hr, h3, h4⟩

theorem chain_mono (S : Nat → Nat) (len : Nat → Nat) (ρ : Nat → Nat) : ∀ (ord : List Nat) (s0 : Nat),
    Chain S len s0 ord → ord.Pairwise (fun r s => ρ r < ρ s) →
    ∀ r r', r ∈ ord → r' ∈ ord → ρ r < ρ r' → S r + len r ≤ S r' := by
  intro ord
  induction ord with
  | nil => intro s0 _ _ r r' hr; cases hr
  | cons r0 rest ih =>
    intro s0 hc hp r r' hr hr' hlt
    obtain ⟨e1, e2⟩ := hc
    obtain ⟨p1, p2⟩ := List.pairwise_cons.1 hp
    rcases List.mem_cons.1 hr with rfl | hr1 <;> rcases List.mem_cons.1 hr' with rfl | hr1'
    · omega
    · have := chain_bounds S len rest _ e2 r' hr1'
      omega
    · have := p1 r hr1
      omega
    · exact ih _ e2 p2 r r' hr1 hr1' hlt

/-- the bucket order of a 256-way pass is increasing in the rank -/
theorem msd_bucketOrder_pairwise (signed : Bool) (d : Nat) :
    (bucketOrder 256 (if signed = true ∧ d = 0 then some true else none)).Pairwise
      (fun r s => (if signed = true ∧ d = 0 then (r + 128) % 256 else r) <
                  (if signed = true ∧ d = 0 then (s + 128) % 256 else s)) := by
  split
  · simp only [bucketOrder]
    rw [List.pairwise_append]
    refine ⟨?_, ?_, ?_⟩
    · refine List.Pairwise.imp_of_mem ?_ (List.pairwise_lt_range' (s := 256 / 2) (n := 256 - 256 / 2))
      intro r s hr hs hrs
      simp only [List.mem_range'_1] at hr hs
      omega
    · refine List.Pairwise.imp_of_mem ?_ (List.pairwise_lt_range (n := 256 / 2))
      intro r s hr hs hrs
      simp only [List.mem_range] at hr hs
      omega
    · intro r hr s hs
      simp only [List.mem_range'_1] at hr
      simp only [List.mem_range] at hs
      omega
  · exact List.pairwise_lt_range

/-! ## a frame plus a permuted segment is a permutation -/

theorem perm_of_seg {a a' : Array α} {lo n : Nat}
    (hf : ∀ i, (i < lo ∨ lo + n ≤ i) → a'[i]? = a[i]?)
    (hp : (segL a' lo (lo + n)).Perm (segL a lo (lo + n))) : a'.Perm a := by
  have dec : ∀ b : Array α,
      b.toList = b.toList.take lo ++ segL b lo (lo + n) ++ (b.toList.drop lo).drop n := by
    intro b
    have : segL b lo (lo + n) = (b.toList.drop lo).take n := by simp [segL]
    rw [this, List.append_assoc, List.take_append_drop, List.take_append_drop]
  have e1 : a'.toList.take lo = a.toList.take lo := by
    apply List.ext_getElem?
    intro i
    simp only [List.getElem?_take]
    split
    · simpa using hf i (by omega)
    · rfl
  have e2 : (a'.toList.drop lo).drop n = (a.toList.drop lo).drop n := by
    apply List.ext_getElem?
    intro i
    simp only [List.getElem?_drop]
    simpa using hf (lo + (n + i)) (by omega)
  rw [Array.perm_iff_toList_perm, dec a, dec a', e1, e2]
  exact (hp.append_left _).append_right _

/-- the buckets in a duplicate-free order that covers all keys are a permutation -/
theorem msd_bucketConcat_perm_filter (k : α → Nat) (T : List α) :
    ∀ (ord : List Nat), ord.Nodup →
      (bucketConcat k ord T).Perm (T.filter (fun x => decide (k x ∈ ord))) := by
  intro ord
  induction ord with
  | nil => intro _; simp [bucketConcat]
  | cons r ord ih =>
    intro hnd
    have hr := (List.nodup_cons.1 hnd).1
    have ih' := ih (List.nodup_cons.1 hnd).2
    have h := List.filter_append_perm (fun x => k x == r) (T.filter (fun x => decide (k x ∈ r :: ord)))
    refine List.Perm.trans ?_ h
    simp only [bucketConcat, List.flatMap_cons, bucket] at ih' ⊢
    rw [List.filter_filter, List.filter_filter]
    have e1 : T.filter (fun a => (k a == r) && decide (k a ∈ r :: ord)) = T.filter (fun x => k x == r) := by
      apply List.filter_congr
      intro x _
      by_cases hx : k x = r <;> simp [hx]
    have e2 : T.filter (fun a => (!(k a == r)) && decide (k a ∈ r :: ord)) = T.filter (fun x => decide (k x ∈ ord)) := by
      apply List.filter_congr
      intro x _
      by_cases hx : k x = r
      · simp [hx, hr]
      · simp [hx]
    rw [e1, e2]
    exact List.Perm.append_left _ ih'

theorem msd_bucketConcat_perm (k : α → Nat) (T : List α) (ord : List Nat) (hnd : ord.Nodup)
    (hk : ∀ x, x ∈ T → k x ∈ ord) : (bucketConcat k ord T).Perm T := by
  refine (msd_bucketConcat_perm_filter k T ord hnd).trans ?_
  rw [List.filter_eq_self.2]
  intro x hx
  simpa using hk x hx

/-- what the counting pass did to the array, in index form -/
theorem pass_facts (k : α → Nat) (R : Nat) (rot : Option Bool) (hR : 0 < R) (heven : rot.isSome → R % 2 = 0)
    (a a1 : Array α) (lo n : Nat) (hsz : lo + n ≤ a.size) (hs : a1.size = a.size)
    (hk : ∀ i, lo ≤ i → (h : i < lo + n) → k (a[i]'(by omega)) < R)
    (hf : ∀ i, (i < lo ∨ lo + n ≤ i) → a1[i]? = a[i]?)
    (hseg : segL a1 lo (lo + n) = bucketConcat k (bucketOrder R rot) (segL a lo (lo + n))) :
    a1.Perm a ∧ (∀ P : α → Prop, AllSeg P a lo (lo + n) → AllSeg P a1 lo (lo + n)) ∧
    (∀ r, r < R → AllSeg (fun x => k x = r) a1 (lo + startPos k R rot (segL a lo (lo + n)) r)
      (lo + startPos k R rot (segL a lo (lo + n)) r + cnt k (segL a lo (lo + n)) r)) := by
  have hall : ∀ x, x ∈ segL a lo (lo + n) → k x < R := by
    intro x hx
    obtain ⟨t, ht, rfl⟩ := mem_segL hsz hx
    exact hk _ (by omega) ht
  obtain ⟨hch, hnd, hmem, htot⟩ := layout k (segL a lo (lo + n)) R rot hR heven hall
  have hperm : (segL a1 lo (lo + n)).Perm (segL a lo (lo + n)) := by
    rw [hseg]
    exact msd_bucketConcat_perm k _ _ hnd (fun x hx => (hmem _).2 (hall x hx))
  have hlen := segL_length a lo (lo + n) hsz
  refine ⟨perm_of_seg hf hperm, ?_, ?_⟩
  · intro P hP p hp1 hp2 hpa
    have h1 := segL_getElem? a1 lo (lo + n) (p - lo) (by omega) (by omega)
    have e : lo + (p - lo) = p := by omega
    simp only [e] at h1
    have hm : a1[p] ∈ segL a lo (lo + n) := hperm.mem_iff.1 (List.mem_of_getElem? h1)
    obtain ⟨t, ht, hx⟩ := mem_segL hsz hm
    rw [hx]
    exact hP _ (by omega) ht (by omega)
  · intro r hr p hp1 hp2 hpa
    have hb := chain_bounds _ _ _ _ hch r ((hmem r).2 hr)
    rw [htot, hlen] at hb
    have hch' : Chain (startPos k R rot (segL a lo (lo + n)))
        (fun r => (bucket k (segL a lo (lo + n)) r).length) ([] : List α).length (bucketOrder R rot) := by
      have : (fun r => (bucket k (segL a lo (lo + n)) r).length) = cnt k (segL a lo (lo + n)) := by
        funext r; exact bucket_length _ _ _
      rw [this]; exact hch
    have h2 := flatMap_chain_getElem? (bucket k (segL a lo (lo + n))) _ _ [] hch' r ((hmem r).2 hr)
      (p - lo - startPos k R rot (segL a lo (lo + n)) r) (by rw [bucket_length]; omega)
    have h1 := segL_getElem? a1 lo (lo + n) (p - lo) (by omega) (by omega)
    have e : lo + (p - lo) = p := by omega
    have e' : startPos k R rot (segL a lo (lo + n)) r + (p - lo - startPos k R rot (segL a lo (lo + n)) r) = p - lo := by
      omega
    simp only [e] at h1
    rw [e', List.nil_append] at h2
    rw [hseg] at h1
    unfold bucketConcat at h1
    rw [h1] at h2
    have hm := List.mem_of_getElem? h2.symm
    simpa [bucket] using (List.mem_filter.1 hm).2

/-! ## steps that only rearrange a segment -/

/-- `a'` is `a` with `a[lo..hi1)` rearranged -/
structure MStep (a a' : Array α) (lo hi1 : Nat) : Prop where
  size : a'.size = a.size
  perm : a'.Perm a
  frame : ∀ p, (p < lo ∨ hi1 ≤ p) → (h : p < a.size) → (h' : p < a'.size) → a'[p] = a[p]
  pres : ∀ P : α → Prop, AllSeg P a lo hi1 → AllSeg P a' lo hi1

theorem MStep.refl (a : Array α) (lo hi1 : Nat) : MStep a a lo hi1 :=
  ⟨rfl, Array.Perm.refl _, fun _ _ _ _ => rfl, fun _ h => h⟩

theorem MStep.widen {a a' : Array α} {l h lo hi1 : Nat} (s : MStep a a' l h) (h1 : lo ≤ l)
    (h2 : h ≤ hi1) : MStep a a' lo hi1 := by
  refine ⟨s.size, s.perm, fun p hp hpa hpa' => s.frame p (by omega) hpa hpa', ?_⟩
  intro P hP p hp1 hp2 hpa'
  have hsz := s.size
  by_cases hin : l ≤ p ∧ p < h
  · exact s.pres P (fun q hq1 hq2 hq => hP q (by omega) (by omega) hq) p hin.1 hin.2 hpa'
  · rw [s.frame p (by omega) (by omega) hpa']
    exact hP p hp1 hp2 (by omega)

theorem MStep.trans {a a1 a2 : Array α} {lo hi1 : Nat} (s : MStep a a1 lo hi1)
    (t : MStep a1 a2 lo hi1) : MStep a a2 lo hi1 := by
  have h1 := s.size
  have h2 := t.size
  refine ⟨by omega, t.perm.trans s.perm, ?_, fun P hP => t.pres P (s.pres P hP)⟩
  intro p hp hpa hpa'
  rw [t.frame p hp (by omega) hpa', s.frame p hp hpa (by omega)]

theorem MStep.allSeg_disjoint {a a' : Array α} {l h l' h' : Nat} (s : MStep a a' l h)
    (hd : h' ≤ l ∨ h ≤ l') {P : α → Prop} (hP : AllSeg P a l' h') : AllSeg P a' l' h' := by
  intro p hp1 hp2 hpa'
  have hsz := s.size
  rw [s.frame p (by omega) (by omega) hpa']
  exact hP p hp1 hp2 (by omega)

theorem MStep.sortedSeg_disjoint {cmp : α → α → Int} {a a' : Array α} {l h l' h' : Nat}
    (s : MStep a a' l h) (hd : h' ≤ l ∨ h ≤ l') (hs : SortedSeg cmp a l' h') :
    SortedSeg cmp a' l' h' := by
  intro p q hp hpq hq hqa'
  have hsz := s.size
  rw [s.frame p (by omega) (by omega) (by omega), s.frame q (by omega) (by omega) hqa']
  exact hs p q hp hpq hq (by omega)

/-! ## buckets laid out in a segment -/

/-- the geometry of the 256 buckets of `[lo, lo+n)` (bucket `r` at offset `S r`, size `c r`, rank
`ρ r`, content predicate `Q r`) and what it means for the order `cmp` -/
structure Lay (cmp : α → α → Int) (Q : Nat → α → Prop) (ρ : Nat → Nat) (n : Nat) (S c : Nat → Nat) : Prop where
  bnd : ∀ r, r < 256 → S r + c r ≤ n
  mono : ∀ r r', r < 256 → r' < 256 → ρ r < ρ r' → S r + c r ≤ S r'
  cover : ∀ t, t < n → ∃ r, r < 256 ∧ S r ≤ t ∧ t < S r + c r
  inj : ∀ r r', r < 256 → r' < 256 → ρ r = ρ r' → r = r'
  ord : ∀ r r' x y, r < 256 → r' < 256 → ρ r < ρ r' → Q r x → Q r' y → cmp x y ≤ 0

theorem Lay.disjoint {cmp : α → α → Int} {Q : Nat → α → Prop} {ρ : Nat → Nat} {n : Nat} {S c : Nat → Nat}
    (L : Lay cmp Q ρ n S c) {r r' : Nat} (hr : r < 256) (hr' : r' < 256) (hne : r ≠ r') :
    S r + c r ≤ S r' ∨ S r' + c r' ≤ S r := by
  have h1 := L.inj r r' hr hr'
  have h2 := L.mono r r' hr hr'
  have h3 := L.mono r' r hr' hr
  by_cases h : ρ r < ρ r'
  · exact Or.inl (h2 h)
  · exact Or.inr (h3 (by omega))

/-- every bucket holds what it should; the buckets in `D` are sorted -/
def BOK (cmp : α → α → Int) (Q : Nat → α → Prop) (lo : Nat) (S c : Nat → Nat) (a : Array α)
    (D : Nat → Prop) : Prop :=
  ∀ b, b < 256 → AllSeg (Q b) a (lo + S b) (lo + S b + c b) ∧
    (D b → SortedSeg cmp a (lo + S b) (lo + S b + c b))

theorem sorted_of_buckets {cmp : α → α → Int} {Q : Nat → α → Prop} {ρ : Nat → Nat} {lo n : Nat}
    {S c : Nat → Nat} (L : Lay cmp Q ρ n S c) (a : Array α) (D : Nat → Prop)
    (hb : BOK cmp Q lo S c a D) (hD : ∀ b, b < 256 → D b) : SortedSeg cmp a lo (lo + n) := by
  intro p q hp hpq hq hqa
  obtain ⟨r, hr, hr1, hr2⟩ := L.cover (p - lo) (by omega)
  obtain ⟨r', hr', hr1', hr2'⟩ := L.cover (q - lo) (by omega)
  by_cases he : r = r'
  · subst he
    exact (hb r hr).2 (hD r hr) p q (by omega) hpq (by omega) hqa
  · have h1 := L.inj r r' hr hr'
    have h3 := L.mono r' r hr' hr
    have hlt : ρ r < ρ r' := by
      apply Classical.byContradiction
      intro hn
      have := h3 (by omega)
      omega
    exact L.ord r r' _ _ hr hr' hlt ((hb r hr).1 p (by omega) (by omega) (by omega))
      ((hb r' hr').1 q (by omega) (by omega) hqa)

/-- what a recursive call on a bucket does -/
def RecSpec (cmp : α → α → Int) (Q : Nat → α → Prop)
    (rec : Array α → Array α → Int → Int → Outcome (Array α × Array α)) : Prop :=
  ∀ (a aux : Array α) (l m b : Nat), l + m ≤ a.size → aux.size = a.size → AllSeg (Q b) a l (l + m) →
    ∃ a' aux', rec a aux (l : Int) (((l + m : Nat) : Int) - 1) = .ok (a', aux') ∧ aux'.size = aux.size ∧
      MStep a a' l (l + m) ∧ SortedSeg cmp a' l (l + m)

theorem proc_bucket {cmp : α → α → Int} {Q : Nat → α → Prop} {ρ : Nat → Nat} {lo n : Nat}
    {S c : Nat → Nat} (L : Lay cmp Q ρ n S c)
    {rec : Array α → Array α → Int → Int → Outcome (Array α × Array α)} (hrec : RecSpec cmp Q rec)
    (a1 a aux : Array α) (hlo : lo + n ≤ a1.size) (hsz : a.size = a1.size) (haux : aux.size = a1.size)
    (hst : MStep a1 a lo (lo + n)) (D : Nat → Prop) (hb : BOK cmp Q lo S c a D) (b : Nat) (hb256 : b < 256) :
    ∃ a' aux', rec a aux ((lo + S b : Nat) : Int) (((lo + S b + c b : Nat) : Int) - 1) = .ok (a', aux') ∧
      a'.size = a1.size ∧ aux'.size = a1.size ∧ MStep a1 a' lo (lo + n) ∧
      BOK cmp Q lo S c a' (fun b' => D b' ∨ b' = b) := by
  have hbnd := L.bnd b hb256
  obtain ⟨a', aux', h1, h2, h3, h4⟩ := hrec a aux (lo + S b) (c b) b (by omega) (by omega) (hb b hb256).1
  have hs' := h3.size
  refine ⟨a', aux', h1, by omega, by omega, hst.trans (h3.widen (by omega) (by omega)), ?_⟩
  intro b' hb'
  by_cases he : b' = b
  · subst he
    exact ⟨h3.pres _ (hb b' hb').1, fun _ => h4⟩
  · have hd := L.disjoint hb' hb256 he
    refine ⟨h3.allSeg_disjoint (by omega) (hb b' hb').1, ?_⟩
    intro hD
    rcases hD with hD | hD
    · exact h3.sortedSeg_disjoint (by omega) ((hb b' hb').2 hD)
    · exact absurd hD he

theorem skip_bucket {cmp : α → α → Int} {Q : Nat → α → Prop} {lo : Nat}
    {S c : Nat → Nat} (a : Array α) (D : Nat → Prop) (hb : BOK cmp Q lo S c a D) (b : Nat) (hc : c b = 0) :
    BOK cmp Q lo S c a (fun b' => D b' ∨ b' = b) := by
  intro b' hb'
  refine ⟨(hb b' hb').1, ?_⟩
  intro hD
  rcases hD with hD | hD
  · exact (hb b' hb').2 hD
  · subst hD
    intro p q _ _ _ _
    omega

theorem BOK.weaken {cmp : α → α → Int} {Q : Nat → α → Prop} {lo : Nat}
    {S c : Nat → Nat} {a : Array α} {D D' : Nat → Prop} (hb : BOK cmp Q lo S c a D)
    (h : ∀ b, b < 256 → D' b → D b) : BOK cmp Q lo S c a D' :=
  fun b hb' => ⟨(hb b hb').1, fun hD => (hb b hb').2 (h b hb' hD)⟩

/-! ## the loop over the buckets -/

theorem bucketLoop_ok (rec : Array α → Array α → Int → Int → Outcome (Array α × Array α))
    (count : Array Int) (lo : Int) (R : Nat) (I : Nat → Array α → Array α → Prop)
    (hstep : ∀ r, r < R → ∀ a aux, I r a aux → ∃ c1 c0, get count ((r : Int) + 1) = .ok c1 ∧
      get count (r : Int) = .ok c0 ∧ ((¬ c1 > c0) → I (r + 1) a aux) ∧
      (c1 > c0 → ∃ a' aux', rec a aux (lo + c0) (lo + c1 - 1) = .ok (a', aux') ∧ I (r + 1) a' aux')) :
    ∀ (f r : Nat) (a aux : Array α), r ≤ R → R - r < f → I r a aux →
      ∃ a' aux', bucketLoop true rec count lo (R : Int) f (r : Int) a aux = .ok (a', aux') ∧ I R a' aux' := by
  intro f
  induction f with
  | zero => intro r a aux _ h; omega
  | succ f ih =>
    intro r a aux hr hf hI
    unfold bucketLoop
    by_cases hlt : r < R
    · have c : (r : Int) < (R : Int) := by omega
      simp only [c, ↓reduceIte]
      obtain ⟨c1, c0, g1, g0, hskip, hrec⟩ := hstep r hlt a aux hI
      rw [g1, g0]
      simp only [ok_bind, Bool.true_and]
      have e : (r : Int) + 1 = ((r + 1 : Nat) : Int) := by omega
      by_cases hg : c1 > c0
      · obtain ⟨a', aux', h1, h2⟩ := hrec hg
        simp only [hg, decide_true, Bool.not_true, Bool.false_eq_true, ↓reduceIte, h1, ok_bind]
        rw [e]
        exact ih (r + 1) a' aux' (by omega) (by omega) h2
      · simp only [hg, decide_false, Bool.not_false, ↓reduceIte]
        rw [e]
        exact ih (r + 1) a aux (by omega) (by omega) (hskip hg)
    · have c : ¬ (r : Int) < (R : Int) := by omega
      simp only [c, ↓reduceIte]
      have : r = R := by omega
      subst this
      exact ⟨a, aux, rfl, hI⟩

/-- which bucket the loop handles at index `r`, and which buckets are done before index `r` -/
structure Sched (S c : Nat → Nat) (C : Nat → Int) (tgt : Nat → Option Nat) (D : Nat → Nat → Prop) : Prop where
  some : ∀ r b, r < 256 → tgt r = some b → b < 256 ∧ C r = (S b : Int) ∧ C (r + 1) = ((S b + c b : Nat) : Int) ∧
    ∀ b', b' < 256 → D (r + 1) b' → D r b' ∨ b' = b
  none : ∀ r, r < 256 → tgt r = none → C (r + 1) ≤ C r ∧ ∀ b', b' < 256 → D (r + 1) b' → D r b'

theorem sched_none (k : α → Nat) (seg : List α) (hall : ∀ x, x ∈ seg → k x < 256) :
    Sched (startPos k 256 none seg) (cnt k seg) (countAfter k 256 none seg)
      (fun r => if r < 255 then some (r + 1) else none) (fun r b => b ≤ r) := by
  have hC := countAfter_eq k seg 256 none (by decide) (by simp) hall
  constructor
  · intro r b hr ht
    have hr' : r < 255 := by
      apply Classical.byContradiction; intro hn; simp [hn] at ht
    have hb : b = r + 1 := by simpa [hr'] using ht.symm
    subst hb
    have h1 := hC r (by omega)
    have h2 := hC (r + 1) (by omega)
    simp only [hr, ↓reduceIte, show r + 1 < 256 by omega] at h1 h2
    refine ⟨by omega, ?_, h2.symm, fun b' _ h => by omega⟩
    rw [← h1]
    simp only [startPos, cntLt_succ]
  · intro r hr ht
    have hr' : r = 255 := by
      apply Classical.byContradiction; intro hn
      have : r < 255 := by omega
      simp [this] at ht
    subst hr'
    have h1 := hC 255 (by omega)
    have h2 := hC 256 (by omega)
    simp only [show (255 : Nat) < 256 by decide, ↓reduceIte, Nat.lt_irrefl, topVal] at h1 h2
    refine ⟨?_, fun b' _ _ => by omega⟩
    rw [← h1, ← h2]
    have := cntLt_all k seg 256 hall
    have : cntLt k seg 256 = cntLt k seg 255 + cnt k seg 255 := cntLt_succ k seg 255
    simp only [startPos]
    omega

theorem sched_rot (k : α → Nat) (seg : List α) (hall : ∀ x, x ∈ seg → k x < 256) :
    Sched (startPos k 256 (some true) seg) (cnt k seg) (countAfter k 256 (some true) seg)
      (fun r => if r = 127 then none else if r = 255 then some 0 else some (r + 1))
      (fun r b => b = 128 ∨ (1 ≤ b ∧ b ≤ r) ∨ (b = 0 ∧ r = 256)) := by
  have hC := countAfter_eq k seg 256 (some true) (by decide) (by simp) hall
  have hn := cntLt_all k seg 256 hall
  have hsplit := cntLt_add_cntIn k seg 128 256 (by decide)
  constructor
  · intro r b hr ht
    have hr127 : r ≠ 127 := by intro hn; simp [hn] at ht
    by_cases hr255 : r = 255
    · subst hr255
      have hb : b = 0 := by simpa using ht.symm
      subst hb
      have h1 := hC 255 (by omega)
      have h2 := hC 256 (by omega)
      simp only [show (255 : Nat) < 256 by decide, ↓reduceIte, Nat.lt_irrefl, topVal] at h1 h2
      refine ⟨by omega, ?_, ?_, fun b' _ h => by omega⟩
      · rw [← h1]
        have : cntIn k seg 128 256 = cntIn k seg 128 255 + cnt k seg 255 := cntIn_succ k seg 128 255 (by decide)
        have := cntLt_zero k seg
        simp only [startPos, Nat.reduceDiv, Nat.reduceLT, ↓reduceIte]
        omega
      · rw [← h2]
        have : cntLt k seg 1 = cntLt k seg 0 + cnt k seg 0 := cntLt_succ k seg 0
        have := cntLt_zero k seg
        simp only [startPos, Nat.reduceDiv, Nat.reduceLT, ↓reduceIte] at *
        omega
    · have hb : b = r + 1 := by simpa [hr127, hr255] using ht.symm
      subst hb
      have h1 := hC r (by omega)
      have h2 := hC (r + 1) (by omega)
      simp only [hr, ↓reduceIte, show r + 1 < 256 by omega] at h1 h2
      refine ⟨by omega, ?_, h2.symm, fun b' _ h => by omega⟩
      rw [← h1]
      simp only [startPos, Nat.reduceDiv]
      by_cases hlt : r < 128
      · have : r + 1 < 128 := by omega
        simp only [hlt, this, ↓reduceIte, cntLt_succ]
        omega
      · have : ¬ r + 1 < 128 := by omega
        simp only [hlt, this, ↓reduceIte]
        rw [cntIn_succ k seg 128 r (by omega)]
  · intro r hr ht
    have hr' : r = 127 := by
      apply Classical.byContradiction; intro hn
      by_cases h : r = 255 <;> simp [hn, h] at ht
    subst hr'
    have h1 := hC 127 (by omega)
    have h2 := hC 128 (by omega)
    simp only [show (127 : Nat) < 256 by decide, show (128 : Nat) < 256 by decide, ↓reduceIte] at h1 h2
    refine ⟨?_, fun b' _ _ => by omega⟩
    rw [← h1, ← h2]
    have : cntLt k seg 128 = cntLt k seg 127 + cnt k seg 127 := cntLt_succ k seg 127
    have := cntIn_self k seg 128
    have hle : cnt k seg 128 ≤ seg.length := List.countP_le_length
    simp only [startPos, Nat.reduceDiv, Nat.reduceLT, ↓reduceIte, Nat.lt_irrefl]
    omega

/-! ## the loop phase of one call -/

theorem get_of_getElem? {count : Array Int} {r : Nat} {v : Int} (h : count[r]? = some v) :
    get count (r : Int) = .ok v := by
  obtain ⟨hr, hv⟩ := Array.getElem?_eq_some_iff.1 h
  rw [get_nat hr, hv]

theorem loop_phase {cmp : α → α → Int} {Q : Nat → α → Prop} {ρ : Nat → Nat} {lo n : Nat}
    {S c : Nat → Nat} (L : Lay cmp Q ρ n S c)
    {rec : Array α → Array α → Int → Int → Outcome (Array α × Array α)} (hrec : RecSpec cmp Q rec)
    {C : Nat → Int} {tgt : Nat → Option Nat} {D : Nat → Nat → Prop} (Sc : Sched S c C tgt D)
    (count : Array Int) (hC : ∀ r, r ≤ 256 → count[r]? = some (C r))
    (a1 a aux : Array α) (hlo : lo + n ≤ a1.size) (hsz : a.size = a1.size) (haux : aux.size = a1.size)
    (hst : MStep a1 a lo (lo + n)) (hb : BOK cmp Q lo S c a (D 0)) :
    ∃ a' aux', bucketLoop true rec count (lo : Int) (256 : Int) 257 (0 : Int) a aux = .ok (a', aux') ∧
      a'.size = a1.size ∧ aux'.size = a1.size ∧ MStep a1 a' lo (lo + n) ∧ BOK cmp Q lo S c a' (D 256) := by
  have key := bucketLoop_ok rec count (lo : Int) 256
    (fun r a aux => a.size = a1.size ∧ aux.size = a1.size ∧ MStep a1 a lo (lo + n) ∧ BOK cmp Q lo S c a (D r))
    ?_ 257 0 a aux (by omega) (by omega) ⟨hsz, haux, hst, hb⟩
  · exact key
  · intro r hr a aux ⟨i1, i2, i3, i4⟩
    have e : (r : Int) + 1 = ((r + 1 : Nat) : Int) := by omega
    refine ⟨C (r + 1), C r, by rw [e]; exact get_of_getElem? (hC (r + 1) (by omega)),
      get_of_getElem? (hC r (by omega)), ?_, ?_⟩
    · intro hg
      refine ⟨i1, i2, i3, ?_⟩
      cases ht : tgt r with
      | none => exact i4.weaken (Sc.none r hr ht).2
      | some b =>
        obtain ⟨hb256, h1, h2, h3⟩ := Sc.some r b hr ht
        have hc : c b = 0 := by omega
        exact (skip_bucket a (D r) i4 b hc).weaken h3
    · intro hg
      cases ht : tgt r with
      | none => have := (Sc.none r hr ht).1; omega
      | some b =>
        obtain ⟨hb256, h1, h2, h3⟩ := Sc.some r b hr ht
        obtain ⟨a', aux', g1, g2, g3, g4, g5⟩ := proc_bucket L hrec a1 a aux hlo i1 i2 i3 (D r) i4 b hb256
        have e1 : (lo : Int) + C r = ((lo + S b : Nat) : Int) := by omega
        have e2 : (lo : Int) + C (r + 1) - 1 = ((lo + S b + c b : Nat) : Int) - 1 := by omega
        rw [e1, e2]
        exact ⟨a', aux', g1, g2, g3, g4, g5.weaken h3⟩

/-! ## one pass of the word sorts -/

/-- the digit the pass at depth `d` sorts by -/
def mkey (d : Nat) (v : UInt64) : Nat := dig v (7 - d)

/-- the rotation of the pass at depth `d` -/
def mrot (signed : Bool) (d : Nat) : Option Bool := if signed = true ∧ d = 0 then some true else none

theorem mrot_pairwise (signed : Bool) (d : Nat) :
    (bucketOrder 256 (mrot signed d)).Pairwise (fun r s => rho signed d r < rho signed d s) := by
  unfold mrot rho
  exact msd_bucketOrder_pairwise signed d

theorem lay_of_pass (signed : Bool) (d : Nat) (hd : d ≤ 7) (h : Nat) (seg : List UInt64) :
    Lay (cmpW signed) (fun b x => high x (7 - d) = h * 256 + b) (rho signed d) seg.length
      (startPos (mkey d) 256 (mrot signed d) seg) (cnt (mkey d) seg) := by
  have hall : ∀ x, x ∈ seg → mkey d x < 256 := fun x _ => dig_lt x _
  have heven : (mrot signed d).isSome → 256 % 2 = 0 := fun _ => rfl
  obtain ⟨hch, hnd, hmem, htot⟩ := layout (mkey d) seg 256 (mrot signed d) (by decide) heven hall
  constructor
  · intro r hr
    have := chain_bounds _ _ _ _ hch r ((hmem r).2 hr)
    omega
  · intro r r' hr hr' hlt
    exact chain_mono _ _ _ _ _ hch (mrot_pairwise signed d) r r' ((hmem r).2 hr) ((hmem r').2 hr') hlt
  · intro t ht
    obtain ⟨r, hr, h1, h2⟩ := chain_cover _ _ _ _ hch t (by omega) (by omega)
    exact ⟨r, (hmem r).1 hr, h1, h2⟩
  · intro r r' hr hr' he
    exact rho_inj signed d r r' hr hr' he
  · intro r r' x y hr hr' hlt hx hy
    have := wk_lt_of_bucket signed d hd h r r' hr hr' x y hx hy hlt
    unfold cmpW
    omega

theorem bok_of_pass (signed : Bool) (d : Nat) (hd : d ≤ 7) (h : Nat) (a a1 : Array UInt64) (lo n : Nat)
    (hsz : lo + n ≤ a.size) (hs : a1.size = a.size)
    (hpre : AllSeg (fun v => high v (8 - d) = h) a lo (lo + n))
    (hf : ∀ i, (i < lo ∨ lo + n ≤ i) → a1[i]? = a[i]?)
    (hseg : segL a1 lo (lo + n) = bucketConcat (mkey d) (bucketOrder 256 (mrot signed d)) (segL a lo (lo + n))) :
    MStep a a1 lo (lo + n) ∧
    BOK (cmpW signed) (fun b x => high x (7 - d) = h * 256 + b) lo
      (startPos (mkey d) 256 (mrot signed d) (segL a lo (lo + n))) (cnt (mkey d) (segL a lo (lo + n))) a1
      (fun _ => False) := by
  obtain ⟨p1, p2, p3⟩ := pass_facts (mkey d) 256 (mrot signed d) (by decide) (fun _ => rfl) a a1 lo n hsz hs
    (fun i _ _ => dig_lt _ _) hf hseg
  have L := lay_of_pass signed d hd h (segL a lo (lo + n))
  rw [segL_length a lo (lo + n) hsz] at L
  refine ⟨⟨hs, p1, ?_, p2⟩, ?_⟩
  · intro p hp hpa hpa'
    have := hf p hp
    rw [Array.getElem?_eq_getElem hpa, Array.getElem?_eq_getElem hpa'] at this
    exact Option.some.inj this
  · intro b hb
    refine ⟨?_, fun hF => hF.elim⟩
    intro p hp1 hp2 hpa
    have hbnd := L.bnd b hb
    have h1 := p3 b hb p hp1 hp2 hpa
    have h2 := p2 _ hpre p (by omega) (by omega) hpa
    have h3 := high_eq a1[p] (7 - d)
    have e : 7 - d + 1 = 8 - d := by omega
    rw [e, h2] at h3
    simp only [mkey] at h1
    rw [h1] at h3
    exact h3

/-! ## the recursion -/

/-- the "special case" call and the loop over the other buckets -/
theorem tail_phase {cmp : α → α → Int} {Q : Nat → α → Prop} {ρ : Nat → Nat} {lo n : Nat}
    {S c : Nat → Nat} (L : Lay cmp Q ρ n S c)
    {rec : Array α → Array α → Int → Int → Outcome (Array α × Array α)} (hrec : RecSpec cmp Q rec)
    {C : Nat → Int} {tgt : Nat → Option Nat} {D : Nat → Nat → Prop} (Sc : Sched S c C tgt D)
    (b0 : Nat) (hb0 : b0 < 256) (hS0 : S b0 = 0) (hC0 : C b0 = (c b0 : Int))
    (hD0 : ∀ b, b < 256 → D 0 b → b = b0) (hDfin : ∀ b, b < 256 → D 256 b)
    (count : Array Int) (hC : ∀ r, r ≤ 256 → count[r]? = some (C r))
    (a1 aux1 : Array α) (hlo : lo + n ≤ a1.size) (haux : aux1.size = a1.size)
    (hb : BOK cmp Q lo S c a1 (fun _ => False)) :
    ∃ a2 aux2 a3 aux3,
      (if C b0 > 0 then rec a1 aux1 (lo : Int) ((lo : Int) + C b0 - 1) else .ok (a1, aux1)) = .ok (a2, aux2) ∧
      bucketLoop true rec count (lo : Int) (256 : Int) 257 (0 : Int) a2 aux2 = .ok (a3, aux3) ∧
      aux3.size = a1.size ∧ MStep a1 a3 lo (lo + n) ∧ SortedSeg cmp a3 lo (lo + n) := by
  have sp : ∃ a2 aux2,
      (if C b0 > 0 then rec a1 aux1 (lo : Int) ((lo : Int) + C b0 - 1) else .ok (a1, aux1)) = .ok (a2, aux2) ∧
      a2.size = a1.size ∧ aux2.size = a1.size ∧ MStep a1 a2 lo (lo + n) ∧ BOK cmp Q lo S c a2 (D 0) := by
    by_cases hg : C b0 > 0
    · simp only [hg, ↓reduceIte]
      obtain ⟨a', aux', g1, g2, g3, g4, g5⟩ :=
        proc_bucket L hrec a1 a1 aux1 hlo rfl haux (MStep.refl _ _ _) _ hb b0 hb0
      have e1 : ((lo + S b0 : Nat) : Int) = (lo : Int) := by omega
      have e2 : ((lo + S b0 + c b0 : Nat) : Int) - 1 = (lo : Int) + C b0 - 1 := by omega
      rw [e1, e2] at g1
      refine ⟨a', aux', g1, g2, g3, g4, g5.weaken ?_⟩
      intro b hb hD
      exact Or.inr (hD0 b hb hD)
    · simp only [hg, ↓reduceIte]
      refine ⟨a1, aux1, rfl, rfl, haux, MStep.refl _ _ _, (skip_bucket a1 _ hb b0 (by omega)).weaken ?_⟩
      intro b hb hD
      exact Or.inr (hD0 b hb hD)
  obtain ⟨a2, aux2, s1, s2, s3, s4, s5⟩ := sp
  obtain ⟨a3, aux3, l1, l2, l3, l4, l5⟩ := loop_phase L hrec Sc count hC a1 a2 aux2 hlo s2 s3 s4 s5
  exact ⟨a2, aux2, a3, aux3, s1, l1, l3, l4, sorted_of_buckets L a3 _ l5 hDfin⟩

theorem cAfter_special (k : α → Nat) (seg : List α) (rot : Option Bool) (hall : ∀ x, x ∈ seg → k x < 256)
    (b0 : Nat) (hb0 : b0 < 256) (hS : startPos k 256 rot seg b0 = 0) (heven : rot.isSome → 256 % 2 = 0 := fun _ => rfl) :
    countAfter k 256 rot seg b0 = (cnt k seg b0 : Int) := by
  have := countAfter_eq k seg 256 rot (by decide) heven hall b0 (by omega)
  simp only [hb0, ↓reduceIte, hS, Nat.zero_add] at this
  exact this.symm

theorem mrot_eq (signed : Bool) (d : Nat) :
    (if (signed && ((d : Int) == 0)) = true then some true else none) = mrot signed d := by
  unfold mrot
  cases signed <;> simp

theorem msdWordAux_spec (signed : Bool) : ∀ (f d : Nat), d ≤ 7 → 8 ≤ f + d →
    RecSpec (cmpW signed) (fun h v => high v (8 - d) = h)
      (fun a aux lo hi => msdWordAux signed 15 8 256 8 64 f a aux lo hi (d : Int)) := by
  intro f
  induction f with
  | zero => intro d h1 h2; omega
  | succ f ih =>
    intro d hd hf a aux lo n h hsz haux hpre
    simp only []
    unfold msdWordAux
    by_cases hn : n ≤ 16
    · have c : ((lo + n : Nat) : Int) - 1 ≤ (lo : Int) + 15 := by omega
      simp only [c, ↓reduceIte]
      obtain ⟨a', h1, h2, h3, h4, h5, h6⟩ := rInsertion_spec' (cmpW_tp signed) (ltW_iff signed) a lo n hsz
      rw [h1]
      exact ⟨a', aux, rfl, rfl, ⟨h2, h3, h4, h5⟩, h6⟩
    · have c : ¬ ((lo + n : Nat) : Int) - 1 ≤ (lo : Int) + 15 := by omega
      simp only [c, ↓reduceIte]
      obtain ⟨a1, aux1, count, p1, p2, p3, p4, p5, p6, p7⟩ :=
        countingPass_spec (fun v => digitAt v (64 - 8 - 8 * (d : Int))) (mkey d) 256 (mrot signed d) a aux lo n
          (by decide) (fun _ => rfl) hsz (by omega) (fun i _ _ => ⟨digitAt_msd _ d (by omega), dig_lt _ _⟩)
      rw [mrot_eq]
      have e256 : ((256 : Nat) : Int) = 256 := rfl
      rw [e256] at p1
      rw [p1]
      simp only [ok_bind]
      obtain ⟨m1, m2⟩ := bok_of_pass signed d hd h a a1 lo n hsz p2 hpre p5 p6
      have L := lay_of_pass signed d hd h (segL a lo (lo + n))
      rw [segL_length a lo (lo + n) hsz, Nat.add_sub_cancel_left] at L
      have hall : ∀ x, x ∈ segL a lo (lo + n) → mkey d x < 256 := fun x _ => dig_lt x _
      by_cases hd7 : d = 7
      · subst hd7
        have c7 : (((7 : Nat) : Int) == 8 - 1) = true := by decide
        simp only [c7, ↓reduceIte]
        refine ⟨a1, aux1, rfl, by omega, m1, ?_⟩
        refine sorted_of_buckets L a1 (fun _ => True) ?_ (fun _ _ => trivial)
        intro b hb
        refine ⟨(m2 b hb).1, fun _ => ?_⟩
        intro p q hp hpq hq hqa
        have h1 := (m2 b hb).1 p hp (by omega) (by omega)
        have h2 := (m2 b hb).1 q (by omega) hq hqa
        simp only [Nat.sub_self] at h1 h2
        rw [eq_of_high_zero _ _ (h1.trans h2.symm)]
        exact (cmpW_tp signed).refl _
      · have c7 : ((d : Int) == 8 - 1) = false := by
          simp only [Int.reduceSub, beq_eq_false_iff_ne, ne_eq]; omega
        simp only [c7, Bool.false_eq_true, ↓reduceIte]
        have hrec : RecSpec (cmpW signed) (fun b x => high x (7 - d) = h * 256 + b)
            (fun a aux lo hi => msdWordAux signed 15 8 256 8 64 f a aux lo hi ((d : Int) + 1)) := by
          intro a' aux' l m b h1 h2 h3
          have e : 8 - (d + 1) = 7 - d := by omega
          have := ih (d + 1) (by omega) (by omega) a' aux' l m (h * 256 + b) h1 h2 (by simp only [e]; exact h3)
          simpa only [Int.natCast_succ] using this
        have e257 : Int.toNat 256 + 1 = 257 := rfl
        rw [e257]
        have hlo1 : lo + n ≤ a1.size := by omega
        have haux1 : aux1.size = a1.size := by omega
        have g0 : get count (0 : Int) = .ok (countAfter (mkey d) 256 (mrot signed d) (segL a lo (lo + n)) 0) :=
          get_of_getElem? (p7 0 (by omega))
        have g128 : get count (256 / 2 : Int) = .ok (countAfter (mkey d) 256 (mrot signed d) (segL a lo (lo + n)) 128) :=
          get_of_getElem? (p7 128 (by omega))
        by_cases hrot : signed = true ∧ d = 0
        · obtain ⟨rfl, rfl⟩ := hrot
          have hm : mrot true 0 = some true := by simp [mrot]
          rw [hm] at p7 m2 L g0 g128
          have Sc := sched_rot (mkey 0) (segL a lo (lo + n)) hall
          have hS0 : startPos (mkey 0) 256 (some true) (segL a lo (lo + n)) 128 = 0 := by
            simp [startPos, cntIn_self]
          obtain ⟨a2, aux2, a3, aux3, t1, t2, t3, t4, t5⟩ := tail_phase L hrec Sc 128 (by decide) hS0
            (cAfter_special _ _ _ hall 128 (by decide) hS0) (fun b _ hD => by omega) (fun b _ => by omega)
            count p7 a1 aux1 hlo1 haux1 m2
          have hz : (((0 : Nat) : Int) == 0) = true := by decide
          have hnz : (((0 : Nat) : Int) != 0) = false := by decide
          simp only [↓reduceIte, g128, ok_bind, hz, hnz, Bool.true_and, Bool.false_and, decide_eq_true_eq,
            Bool.false_eq_true]
          rw [t1]
          simp only [ok_bind, g0]
          rw [t2]
          exact ⟨a3, aux3, rfl, by omega, m1.trans t4, t5⟩
        · have hm : mrot signed d = none := by simp [mrot, hrot]
          rw [hm] at p7 m2 L g0 g128
          have Sc := sched_none (mkey d) (segL a lo (lo + n)) hall
          have hS0 : startPos (mkey d) 256 none (segL a lo (lo + n)) 0 = 0 := by
            simp [startPos, cntLt_zero]
          obtain ⟨a2, aux2, a3, aux3, t1, t2, t3, t4, t5⟩ := tail_phase L hrec Sc 0 (by decide) hS0
            (cAfter_special _ _ _ hall 0 (by decide) hS0) (fun b _ hD => by omega) (fun b _ => by omega)
            count p7 a1 aux1 hlo1 haux1 m2
          cases signed with
          | false =>
            simp only [Bool.false_eq_true, ↓reduceIte, g0, ok_bind]
            rw [t1]
            simp only [ok_bind]
            rw [t2]
            exact ⟨a3, aux3, rfl, by omega, m1.trans t4, t5⟩
          | true =>
            have hd0 : d ≠ 0 := fun h0 => hrot ⟨rfl, h0⟩
            have hz : ((d : Int) == 0) = false := by
              simp only [beq_eq_false_iff_ne, ne_eq]; omega
            have hnz : ((d : Int) != 0) = true := by
              simp only [bne_iff_ne, ne_eq]; omega
            simp only [↓reduceIte, g128, g0, ok_bind, hz, hnz, Bool.true_and, Bool.false_and, decide_eq_true_eq,
              Bool.false_eq_true]
            rw [t1]
            simp only [ok_bind]
            rw [t2]
            exact ⟨a3, aux3, rfl, by omega, m1.trans t4, t5⟩

/-! ## the exported sorts -/

theorem msdWord_top (signed : Bool) (a : Array UInt64) :
    ∃ a' aux', msdWordAux signed 15 8 256 8 64 9 a (Array.replicate a.size 0) 0 ((a.size : Int) - 1) 0 =
        .ok (a', aux') ∧ a'.toList.Perm a.toList ∧
      a'.toList.Pairwise (fun x y => wk signed x ≤ wk signed y) := by
  obtain ⟨a', aux', h1, _, h3, h4⟩ := msdWordAux_spec signed 9 0 (by omega) (by omega) a
    (Array.replicate a.size 0) 0 a.size 0 (by omega) (by simp) (fun p _ _ _ => high_eight _)
  have hs := h3.size
  simp only [Nat.zero_add] at h1 h4
  refine ⟨a', aux', h1, Array.perm_iff_toList_perm.1 h3.perm, ?_⟩
  rw [← hs] at h4
  have := sorted_of_sortedSeg h4
  unfold Sorted at this
  refine this.imp ?_
  intro x y hxy
  unfold cmpW at hxy
  omega

/-- `MSDUint` neither panics nor diverges and returns the input sorted by the native `uint` order -/
theorem msdUint_spec (a : Array UInt64) :
    ∃ out, msdUint a = .ok out ∧ out.toList = a.toList.mergeSort uLe := by
  obtain ⟨a', aux', h1, h2, h3⟩ := msdWord_top false a
  refine ⟨a', ?_, ?_⟩
  · unfold msdUint msdUintAt
    simp only [Generated.radixsort_msdUint_CUTOFF, Generated.radixsort_msdUint_W,
      Generated.radixsort_msdUint_R, Generated.radixsort_msdUint_BYTE_SIZE,
      Generated.radixsort_msdUint_INT_SIZE]
    change (msdWordAux false 15 8 256 8 64 9 a (Array.replicate a.size 0) 0 ((a.size : Int) - 1) 0 >>=
      fun x => Outcome.ok x.fst) = _
    rw [h1]
    rfl
  · exact eq_mergeSort_of_key uLe (wk false) (fun x y => by simp [uLe_eq, wk])
      (fun x y h => wk_injective false h) _ _ h2 h3

/-- `MSDInt` neither panics nor diverges and returns the input sorted by the native `int` order -/
theorem msdInt_spec (a : Array UInt64) :
    ∃ out, msdInt a = .ok out ∧ out.toList = a.toList.mergeSort iLe := by
  obtain ⟨a', aux', h1, h2, h3⟩ := msdWord_top true a
  refine ⟨a', ?_, ?_⟩
  · unfold msdInt msdIntAt
    simp only [Generated.radixsort_msdInt_CUTOFF, Generated.radixsort_msdInt_W,
      Generated.radixsort_msdInt_R, Generated.radixsort_msdInt_BYTE_SIZE,
      Generated.radixsort_msdInt_INT_SIZE]
    change (msdWordAux true 15 8 256 8 64 9 a (Array.replicate a.size 0) 0 ((a.size : Int) - 1) 0 >>=
      fun x => Outcome.ok x.fst) = _
    rw [h1]
    rfl
  · exact eq_mergeSort_of_key iLe (wk true) (fun x y => by simp [iLe_eq, wk])
      (fun x y h => wk_injective true h) _ _ h2 h3

end AlgoVerif.C07
