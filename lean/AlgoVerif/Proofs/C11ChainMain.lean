import AlgoVerif.Proofs.C11LalrFollow
import AlgoVerif.Proofs.C11ChainFill
import AlgoVerif.Proofs.C11Reach
/-!
# C11 — the success chain SLR(1) ⇒ LALR(1) ⇒ canonical LR(1), without a certificate

* `lr0_cover`: every LR(0) kernel state of the LALR construction is contained in a state of the SLR collection
  (induction along the way the kernel collection was found; the SLR collection is closed under GOTO);
* `lr1_cover`: every state of the canonical LR(1) collection is contained in the closure of an LALR kernel
  (induction along the way the LR(1) collection was found; the LALR lookaheads are closed under GOTO, `la_closed`);
* `chain_slr_lalr`: an LALR row asks for no more than the SLR row of its core does (`las_follow`: LALR lookaheads ⊆ FOLLOW),
  so a conflict in the LALR table is a conflict in the SLR table;
* `chain_lalr_lr1`: an LR(1) row asks for no more than the LALR row that covers it.

No hypothesis on the fuel of any of the builders, and none on productivity.
-/
namespace AlgoVerif.C11.Lalr
open AlgoVerif AlgoVerif.Gram AlgoVerif.C11 AlgoVerif.C11.Spec AlgoVerif.C11.Built AlgoVerif.C11.BuiltComplete

theorem clo_sub_closed {g : SGrammar} {nl : List String} {fe : Env} {seed : Item → Prop} {M : List Item}
    (hs : ∀ i, seed i → i ∈ M) (hM : ClosedSet g nl fe M) {x : Item} (hx : Clo g nl fe seed x) : x ∈ M := by
  induction hx with
  | base h => exact hs _ h
  | step _ hj ih => exact hM _ ih _ hj

theorem hasAK_mono {start : String} {reduceOn : Item → List String} {c c' : List Item} (h : ∀ x ∈ c, x ∈ c')
    {a : String} {k : AK} (hk : HasAK start reduceOn c a k) : HasAK start reduceOn c' a k := by
  cases k with
  | shift =>
    obtain ⟨it, hit, hd⟩ := hk
    exact ⟨it, h it hit, hd⟩
  | reduce p =>
    obtain ⟨it, hit, hrest⟩ := hk
    exact ⟨it, h it hit, hrest⟩
  | accept =>
    obtain ⟨ha, it, hit, hf⟩ := hk
    exact ⟨ha, it, h it hit, hf⟩

/-- an LR(0) row that holds the cores of an LR(1) row, and reduces on FOLLOW, asks for everything the LR(1) row asks for -/
theorem hasAK_core {g' : SGrammar} {c c0 : List Item} (follow : String → List String)
    (hcore : ∀ x ∈ c, x.core ∈ c0) (hgood : ∀ x ∈ c, Good g' x)
    (hfol : ∀ x ∈ c, ∀ b, x.la = some b → b ∈ follow x.prod.head)
    {a : String} {k : AK} (hk : HasAK g'.start la1 c a k) :
    HasAK g'.start (fun item => follow item.prod.head) c0 a k := by
  cases k with
  | shift =>
    obtain ⟨it, hit, hd⟩ := hk
    exact ⟨it.core, hcore it hit, hd⟩
  | reduce p =>
    obtain ⟨it, hit, hp, hc, hf, ha⟩ := hk
    have hla : it.la = some a := by
      unfold la1 at ha
      cases hl : it.la with
      | none => rw [hl] at ha; simp at ha
      | some b => rw [hl] at ha; simp at ha; rw [ha]
    refine ⟨it.core, hcore it hit, hp, hc, ?_, hfol it hit a hla⟩
    have hne : it.prod.head ≠ g'.start := by
      intro hh
      have := (hgood it hit).2 hh
      simp [Item.isFinal, hh, hc, this] at hf
    simp [Item.isFinal, Item.core, hne]
  | accept =>
    obtain ⟨ha, it, hit, hf⟩ := hk
    refine ⟨ha, it.core, hcore it hit, ?_⟩
    simp only [Item.isFinal, Bool.and_eq_true, beq_iff_eq] at hf ⊢
    exact ⟨⟨hf.1.1, hf.1.2⟩, by simp [Item.core, laIsEnd]⟩

section
variable {g g' : SGrammar} (hv : ValidG g) (ht : TermsListed g) (ha : augment g = Outcome.ok g')
include hv ht ha

/-- every LR(0) kernel set of the kernel automaton lies inside a set of the complete-item-set collection -/
theorem lr0_cover {f1 f2 : Nat} {C K0 : List (List Item)}
    (hC : (mkAuto g' false false f1).canonical = Outcome.ok C)
    (hK0 : (mkAuto g' false true f2).canonical = Outcome.ok K0) :
    ∀ Ks ∈ K0, ∃ I ∈ C, ∀ x ∈ Ks, x ∈ I := by
  have h := augOK_of_augment hv ha
  have hQi : (mkAuto g' false false f1).initialItem.la = none := by simp [Auto.initialItem, mkAuto]
  obtain ⟨hsets, hgoto⟩ := canonical_complete (A := mkAuto g' false false f1) rfl (itemProp_none _ _ _) hQi hC
  obtain ⟨I0f, hI0f, hI0fC, _⟩ := canonical_reach hC
  obtain ⟨I0k, hI0k, _, hreach⟩ := canonical_reach hK0
  have hI0k' : I0k = [(mkAuto g' false true f2).initialItem] := by simpa [mkAuto] using hI0k.symm
  refine hreach (fun Ks => ∃ I ∈ C, ∀ x ∈ Ks, x ∈ I) ?_ ?_
  · refine ⟨I0f, hI0fC, ?_⟩
    intro x hx
    rw [hI0k'] at hx
    simp only [List.mem_singleton] at hx
    subst hx
    replace hI0f : (mkAuto g' false false f1).closure [(mkAuto g' false false f1).initialItem] = Outcome.ok I0f := hI0f
    replace hI0f : closure g' (nullableOf g') (firstEnv g' (nullableOf g')) f1
        [(mkAuto g' false false f1).initialItem] = Outcome.ok I0f := hI0f
    exact (closure_fix _ _ _ _ _ _ hI0f).2.1 _ (by simp; rfl)
  · rintro Ks _ ⟨I, hIC, hsub⟩ X hX J hJ hne _
    obtain ⟨ck, hck, rfl⟩ := kgoto_spec h (A := mkAuto g' false true f2) rfl rfl hJ
    replace hck : closure g' (nullableOf g') (firstEnv g' (nullableOf g')) f2 Ks = Outcome.ok ck := hck
    have hckI : ∀ x ∈ ck, x ∈ I := (closure_fix _ _ _ _ _ _ hck).2.2 I hsub (hsets I hIC).1
    obtain ⟨J', hJ', hor⟩ := hgoto I hIC X hX
    have hJJ' : ∀ y ∈ advance ck X, y ∈ J' := by
      intro y hy
      obtain ⟨y0, hy0, hd, rfl⟩ := mem_advance.mp hy
      exact goto_next (A := mkAuto g' false false f1) rfl hJ' (hckI y0 hy0) hd
    rcases hor with hemp | ⟨K, hK, hsame⟩
    · exfalso
      obtain ⟨y, hy⟩ := List.exists_mem_of_ne_nil _ hne
      have := hJJ' y hy
      rw [hemp] at this
      simp at this
    · exact ⟨K, hK, fun y hy => (hsame y).mpr (hJJ' y hy)⟩

variable {fuel : Nat} {K1 : List (List Item)} (R : LalrRun g' fuel K1)

omit hv ht ha in
/-- the initial kernel item has the endmarker as a lookahead -/
theorem la_init {k0 : Item} (h00 : R.S0[0]?.bind (fun I => I[0]?) = some k0) : LA R.S0 R.las 0 k0 endmarker := by
  obtain ⟨hle1, _⟩ := lalrStates_done R.hlp
  obtain ⟨hle2, _⟩ := propagate_spec R.lp.2 fuel R.lp.1 R.las R.hlas
  have h0 : laGet ([((0, 0), [endmarker])] : LaTable) (0, 0) = some [endmarker] := by
    simp [laGet, List.lookup]
  obtain ⟨ls1, hls1, he1⟩ := hle1.1 (0, 0) [endmarker] endmarker h0 (by simp)
  obtain ⟨ls2, hls2, he2⟩ := hle2 (0, 0) ls1 endmarker hls1 he1
  cases hI : R.S0[0]? with
  | none => rw [hI] at h00; simp at h00
  | some I =>
    rw [hI] at h00
    simp only [Option.bind_some] at h00
    exact ⟨I, 0, ls2, hI, h00, hls2, he2⟩

omit hv ht ha in
/-- the members of an LALR kernel: a kernel item of its LR(0) state with one of its lookaheads -/
theorem kernel_src {K : List Item} (hK : K ∈ K1) :
    ∃ (s : Nat) (Is : List Item), R.S0[s]? = some Is ∧ ∀ x, x ∈ K ↔ ∃ k a, LA R.S0 R.las s k a ∧ x = withLa k a := by
  obtain ⟨s, Is, hIs, hKs⟩ := kernels_src R K hK
  exact ⟨s, Is, hIs, kernelOf_mem R hIs hKs⟩

include R in
/-- every set of the canonical LR(1) collection lies inside the closure of an LALR kernel -/
theorem lr1_cover {f3 : Nat} {C1 : List (List Item)} (hC1 : (mkAuto g' true false f3).canonical = Outcome.ok C1) :
    ∀ I ∈ C1, ∃ K ∈ K1, ∀ x ∈ I, Clo g' (nullableOf g') (firstEnv g' (nullableOf g')) (fun i => i ∈ K) x := by
  have h := augOK_of_augment hv ha
  obtain ⟨I0, hI0, _, hreach⟩ := canonical_reach hC1
  replace hI0 : (mkAuto g' true false f3).closure [(mkAuto g' true false f3).initialItem] = Outcome.ok I0 := hI0
  replace hI0 : closure g' (nullableOf g') (firstEnv g' (nullableOf g')) f3
      [(mkAuto g' true false f3).initialItem] = Outcome.ok I0 := hI0
  refine hreach (fun I => ∃ K ∈ K1, ∀ x ∈ I, Clo g' (nullableOf g') (firstEnv g' (nullableOf g')) (fun i => i ∈ K) x) ?_ ?_
  · -- the initial set
    have hS0 := s0_ok hv ht ha R
    obtain ⟨I00, hI00⟩ : ∃ I00, R.S0[0]? = some I00 := by
      cases hS : R.S0 with
      | nil => exact absurd hS hS0.ne
      | cons x xs => exact ⟨x, by simp⟩
    -- state 0 of the kernel state map starts with the initial item
    have hK0 := R.hK0
    unfold Auto.canonical at hK0
    obtain ⟨I0k, hI0k, hrest⟩ := bind_eq_ok hK0
    have hI0k' : I0k = [(mkAuto g' false true fuel).initialItem] := by simpa [mkAuto] using hI0k.symm
    subst hI0k'
    obtain ⟨rest0, hK0eq⟩ := canonicalLoop_head _ _ _ _ _ hrest
    have hC0 := kcanonical_spec h (A := mkAuto g' false true fuel) rfl rfl R.hK0
    obtain ⟨I0', rest0', hEq, h0, hr0⟩ := hC0
    rw [hK0eq] at hEq
    simp only [List.cons.injEq] at hEq
    obtain ⟨rfl, rfl⟩ := hEq
    have hinit0Eq := initialItem_eq h (A := mkAuto g' false true fuel) rfl
    have hinit0 : (mkAuto g' false true fuel).initialItem.isInitial g'.start = true := by
      rw [hinit0Eq]; simp [mkAuto, Item.isInitial, startProd, laIsEnd]
    obtain ⟨_, tail0, hS0eq, _⟩ := stateMap_specK' hinit0 h0 (fun J hJ => (hr0 J hJ).2)
    have hsort1 : sortBy (cmpItem g'.start) [(mkAuto g' false true fuel).initialItem]
        = [(mkAuto g' false true fuel).initialItem] := by simp [sortBy, insertBy]
    rw [hsort1] at hS0eq
    have hget : R.S0[0]? = some [(mkAuto g' false true fuel).initialItem] := by
      unfold LalrRun.S0; rw [hK0eq, hS0eq]; simp
    have hLA := la_init R (k0 := (mkAuto g' false true fuel).initialItem) (by rw [hget]; simp)
    obtain ⟨J0, hJ0, K, hK, hKJ⟩ := kernels_all R 0 _ hget
    have hmem : withLa (mkAuto g' false true fuel).initialItem endmarker ∈ K :=
      (hKJ _).mpr ((kernelOf_mem R hget hJ0 _).mpr ⟨_, _, hLA, rfl⟩)
    refine ⟨K, hK, ?_⟩
    intro x hx
    refine clo_mono ?_ ((mem_closure_iff (g := g') hI0 x).mp hx)
    intro z hz
    simp only [List.mem_singleton] at hz
    subst hz
    exact hmem
  · rintro I _ ⟨K, hK, hcov⟩ X _ J' hJ' hne _
    obtain ⟨s, Is, hIs, hKmem⟩ := kernel_src R hK
    rw [goto_eq (A := mkAuto g' true false f3) rfl] at hJ'
    replace hJ' : closure g' (nullableOf g') (firstEnv g' (nullableOf g')) f3 (advance I X) = Outcome.ok J' := hJ'
    -- one transition on X
    have hstep : ∀ y ∈ I, y.dotSym = some X →
        ∃ (nextI : List Item) (n : Nat) (Kn : List Item),
          (mkAuto g' false true fuel).goto Is X = Outcome.ok nextI ∧ findItemSet R.S0 nextI = (n : Int) ∧
          R.S0[n]? = some Kn ∧ (∀ z, z ∈ Kn ↔ z ∈ nextI) ∧ ∃ b, y.la = some b ∧ LA R.S0 R.las n y.next.core b := by
      intro y hy hyd
      obtain ⟨k0, hk0, hclo⟩ := clo_single (hcov y hy)
      obtain ⟨k, a, hLA, rfl⟩ := (hKmem k0).mp hk0
      exact la_closed hv ht ha R hIs hLA hclo hyd
    have hadvne : advance I X ≠ [] := by
      intro he
      rw [he] at hJ'
      exact hne (closure_nil _ _ _ _ _ hJ')
    obtain ⟨y1, hy1⟩ := List.exists_mem_of_ne_nil _ hadvne
    obtain ⟨y0, hy0, hy0d, _⟩ := mem_advance.mp hy1
    obtain ⟨nextI, n, Kn, hgo, hn, hKn, _, _⟩ := hstep y0 hy0 hy0d
    obtain ⟨Jn, hJn, Kc, hKc, hKcJ⟩ := kernels_all R n Kn hKn
    refine ⟨Kc, hKc, ?_⟩
    intro x hx
    refine clo_mono ?_ ((mem_closure_iff (g := g') hJ' x).mp hx)
    intro z hz
    obtain ⟨y, hy, hyd, rfl⟩ := mem_advance.mp hz
    obtain ⟨nextI', n', Kn', hgo', hn', _, _, b, hyb, hLA'⟩ := hstep y hy hyd
    rw [hgo] at hgo'
    simp only [Outcome.ok.injEq] at hgo'
    subst hgo'
    have hnn : n' = n := by rw [hn] at hn'; omega
    subst hnn
    rw [hKcJ, kernelOf_mem R hKn hJn]
    exact ⟨y.next.core, b, hLA', (withLa_core (x := y.next) (b := b) hyb).symm⟩

end

/-! ## the chain -/

/-- SLR(1) conflict-free ⇒ LALR(1) conflict-free -/
theorem chain_slr_lalr (g : SGrammar) (hv : ValidG g) (ht : TermsListed g) (f1 f2 : Nat) (bS bL : Built)
    (hS : buildSLR g f1 = Outcome.ok bS) (hL : buildLALR g f2 = Outcome.ok bL)
    (hcf : chkConflictFree bS.table = true) : chkConflictFree bL.table = true := by
  unfold buildSLR at hS
  obtain ⟨g', hg', hS1⟩ := bind_eq_ok hS
  obtain ⟨C, hC, hS2⟩ := bind_eq_ok hS1
  obtain ⟨TS, hTS, hS3⟩ := bind_eq_ok hS2
  have hbS := pure_eq_ok hS3
  subst hbS
  unfold buildLALR at hL
  rw [hg'] at hL
  obtain ⟨g'', hg'', hL1⟩ := bind_eq_ok hL
  have : g' = g'' := by simpa using hg''
  subst this
  obtain ⟨K, hK, hL2⟩ := bind_eq_ok hL1
  obtain ⟨⟨TL, cl⟩, hrows, hL3⟩ := bind_eq_ok hL2
  have hbL := pure_eq_ok hL3
  subst hbL
  simp only at hcf ⊢
  obtain ⟨R⟩ := lalrRun_of_ok hK
  have h := augOK_of_augment hv hg'
  have hAg : (mkAuto g' true true f2).g = g' := rfl
  have hAk : (mkAuto g' true true f2).kernel = true := rfl
  have hinitEq := initialItem_eq h hAg
  have hinit : (mkAuto g' true true f2).initialItem.isInitial g'.start = true := by
    rw [hinitEq]; simp [mkAuto, Item.isInitial, startProd, laIsEnd]
  have hSL := stateMap_specK hinit (lalrKernels_spec h hK)
  have hS0 := s0_ok hv ht hg' R
  -- the SLR collection
  have hQi : (mkAuto g' false false f1).initialItem.la = none := by simp [Auto.initialItem, mkAuto]
  obtain ⟨hsets, _⟩ := canonical_complete (A := mkAuto g' false false f1) rfl (itemProp_none _ _ _) hQi hC
  refine cf_of_semCF (rowL_fun _ _) (tgtL_fun _ _) ?_ (lalrRows_nodup g' _ _ hrows) (lalrRows_sem g' _ _ hrows)
  rintro i c ⟨I, hI, hc⟩
  -- the LR(0) state behind the kernel I
  obtain ⟨K', hK', rfl⟩ := mem_buildStateMap.mp (List.mem_of_getElem? hI)
  obtain ⟨s, Is, hIs, hKmem⟩ := kernel_src R hK'
  obtain ⟨Ks, hKs, hIsEq⟩ := mem_buildStateMap.mp (List.mem_of_getElem? hIs)
  obtain ⟨I0, hI0C, hcov⟩ := lr0_cover hv ht hg' hC R.hK0 Ks hKs
  -- the SLR row
  have hmemS : sortBy (cmpItem g'.start) I0 ∈ buildStateMap g'.start C := mem_buildStateMap.mpr ⟨I0, hI0C, rfl⟩
  obtain ⟨m, hm⟩ := List.mem_iff_getElem?.mp hmemS
  have hsemS := semCF_of_cf hcf (fillFull_filled _ _ _ hTS m _ hm)
  -- the items of the LALR row
  replace hc : closure g' (nullableOf g') (firstEnv g' (nullableOf g')) f2 (sortBy (cmpItem g'.start) K') =
      Outcome.ok c := hc
  have hcmem := mem_closure_iff (g := g') hc
  have hseed : ∀ z, z ∈ sortBy (cmpItem g'.start) K' → ∃ k a, LA R.S0 R.las s k a ∧ z = withLa k a := by
    intro z hz
    exact (hKmem z).mp ((mem_sortBy _ _ _).mp hz)
  have hLAin : ∀ k a, LA R.S0 R.las s k a → k ∈ Is := by
    rintro k a ⟨Is', i', ls, hIs', hki, _, _⟩
    rw [hIs] at hIs'
    simp only [Option.some.injEq] at hIs'
    subst hIs'
    exact List.mem_of_getElem? hki
  have hcore : ∀ x ∈ c, x.core ∈ sortBy (cmpItem g'.start) I0 := by
    intro x hx
    rw [mem_sortBy]
    have hx' := clo_core (g := g') (fun i hi => by
      obtain ⟨k, a, _, rfl⟩ := hseed i hi; rfl) ((hcmem x).mp hx)
    refine clo_sub_closed ?_ (hsets I0 hI0C).1 hx'
    rintro y ⟨z, hz, rfl⟩
    obtain ⟨k, a, hLA, rfl⟩ := hseed z hz
    have hkIs := hLAin k a hLA
    have hknone : k.la = none := s0_la_none R Is (List.mem_of_getElem? hIs) k hkIs
    rw [core_withLa, core_of_none hknone]
    apply hcov
    rw [hIsEq] at hkIs
    exact (mem_sortBy _ _ _).mp hkIs
  have hgood : ∀ x ∈ c, Good g' x := by
    obtain ⟨_, _, hg⟩ := auto_closure_spec h hAg hAk (I := sortBy (cmpItem g'.start) K') (K := c) hc
      (statesOK_good hSL i _ hI)
    exact hg
  have hfol : ∀ x ∈ c, ∀ b, x.la = some b → b ∈ FO g' x.prod.head := by
    intro x hx b hb
    obtain ⟨b', hb', hfo⟩ := clo_follow hv ht hg' (seed := fun i => i ∈ sortBy (cmpItem g'.start) K') (by
      intro z hz
      obtain ⟨k, a, hLA, rfl⟩ := hseed z hz
      have hkIs := hLAin k a hLA
      exact ⟨(statesOK_good hS0 s Is hIs k hkIs).1, a, rfl, (las_follow hv ht hg' R hLA : a ∈ FO g' k.prod.head)⟩) ((hcmem x).mp hx)
    rw [hb] at hb'
    simp only [Option.some.injEq] at hb'
    rw [hb']; exact hfo
  intro a k1 k2 h1 h2
  exact hsemS a k1 k2 (hasAK_core (FO g') hcore hgood hfol h1) (hasAK_core (FO g') hcore hgood hfol h2)

/-- LALR(1) conflict-free ⇒ canonical LR(1) conflict-free -/
theorem chain_lalr_lr1 (g : SGrammar) (hv : ValidG g) (ht : TermsListed g) (f2 f3 : Nat) (bL bC : Built)
    (hL : buildLALR g f2 = Outcome.ok bL) (hC : buildLR1 g f3 = Outcome.ok bC)
    (hcf : chkConflictFree bL.table = true) : chkConflictFree bC.table = true := by
  unfold buildLR1 at hC
  obtain ⟨g', hg', hC1⟩ := bind_eq_ok hC
  obtain ⟨C1, hC1c, hC2⟩ := bind_eq_ok hC1
  obtain ⟨TC, hTC, hC3⟩ := bind_eq_ok hC2
  have hbC := pure_eq_ok hC3
  subst hbC
  unfold buildLALR at hL
  rw [hg'] at hL
  obtain ⟨g'', hg'', hL1⟩ := bind_eq_ok hL
  have : g' = g'' := by simpa using hg''
  subst this
  obtain ⟨K, hK, hL2⟩ := bind_eq_ok hL1
  obtain ⟨⟨TL, cl⟩, hrows, hL3⟩ := bind_eq_ok hL2
  have hbL := pure_eq_ok hL3
  subst hbL
  simp only at hcf ⊢
  obtain ⟨R⟩ := lalrRun_of_ok hK
  have hAg : (mkAuto g' true true f2).g = g' := rfl
  obtain ⟨_, cs, hcs, hrel⟩ := rowsL_spec g' _ hAg _ _ 0 _ [] TL cl (by intro k I hk; simpa using hk)
    ⟨by simp, by simp⟩ hrows
  refine cf_of_semCF (rowFull_fun _) (tgtFull_fun _ _) ?_ (fillFull_nodup _ _ _ hTC) (fillFull_sem _ _ _ hTC)
  intro m I hrow
  obtain ⟨I', hI', rfl⟩ := mem_buildStateMap.mp (List.mem_of_getElem? hrow)
  obtain ⟨Kc, hKc, hcov⟩ := lr1_cover hv ht hg' R hC1c I' hI'
  -- the LALR row that covers the LR(1) state
  have hmemL : sortBy (cmpItem g'.start) Kc ∈ buildStateMap g'.start K := mem_buildStateMap.mpr ⟨Kc, hKc, rfl⟩
  obtain ⟨i, hi⟩ := List.mem_iff_getElem?.mp hmemL
  obtain ⟨c, hc, _⟩ := hrel.2 i _ hi
  have hsemL := semCF_of_cf hcf (lalrRows_filled g' _ _ hrows i c ⟨_, hi, hc⟩)
  replace hc : closure g' (nullableOf g') (firstEnv g' (nullableOf g')) f2 (sortBy (cmpItem g'.start) Kc) =
      Outcome.ok c := hc
  have hsub : ∀ x ∈ sortBy (cmpItem g'.start) I', x ∈ c := by
    intro x hx
    apply (mem_closure_iff (g := g') hc x).mpr
    refine clo_mono ?_ (hcov x ((mem_sortBy _ _ _).mp hx))
    intro z hz
    exact (mem_sortBy _ _ _).mpr hz
  intro a k1 k2 h1 h2
  exact hsemL a k1 k2 (hasAK_mono hsub h1) (hasAK_mono hsub h2)

end AlgoVerif.C11.Lalr
