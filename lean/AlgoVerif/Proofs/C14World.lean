import AlgoVerif.Proofs.C14State
/-!
# C14 proofs — histories: the Model's world of objects refines the Spec's world of edge lists
-/
namespace AlgoVerif.C14

theorem eval_obj (sw : SWorld) : sw.eval.obj = sw.obj.eval := by
  unfold SWorld.eval World.obj SWorld.obj
  simp only [getD_eq, Array.getElem?_map]
  cases sw.objs[sw.cur]? <;> rfl

theorem eval_step (sw : SWorld) (op : Op) :
    sw.eval.step op =
      ((sw.step op).eval, match op with
        | .query q => sw.obj.eval.answer q
        | _ => .ok .unit) := by
  cases op with
  | edge u v wt =>
    simp only [World.step, SWorld.step, eval_obj]
    congr 1
    simp only [SWorld.eval, Array.map_setIfInBounds, SObj.eval, build_append]
  | query q => simp only [World.step, SWorld.step, eval_obj]
  | mkrev =>
    simp only [World.step, SWorld.step, eval_obj]
    congr 1
    have hk : sw.obj.eval.kind = sw.obj.k := build_kind _ _ _
    rw [hk]
    cases hd : sw.obj.k.isDirected
    · simp
    · simp only [if_true, SWorld.eval, Array.map_push, SObj.eval]
      rw [build_reverse _ hd]
  | use i =>
    simp only [World.step, SWorld.step]
    congr 1
    simp only [SWorld.eval, Array.size_map]
    split <;> rfl
  | mknew n es =>
    simp only [World.step, SWorld.step, eval_obj]
    congr 1
    have hk : sw.obj.eval.kind = sw.obj.k := build_kind _ _ _
    rw [hk]
    simp only [SWorld.eval, Array.map_push, SObj.eval]

/-- **Refinement.**  Running a history on the Model's objects is running it on (kind, n, edge list) triples:
the objects at the end are the graphs built from the lists, and every step returned what the Spec world says. -/
theorem run_refines (ops : List Op) : ∀ sw : SWorld,
    sw.eval.run ops = ((sw.run ops).1.eval, (sw.run ops).2) := by
  induction ops with
  | nil => intro sw; rfl
  | cons op ops ih =>
    intro sw
    simp only [World.run, SWorld.run]
    rw [eval_step, ih]
    cases op <;> rfl

theorem init_eval (k : Kind) (n : Nat) : (SWorld.init k n).eval = World.init k n := by
  simp [SWorld.init, SWorld.eval, World.init, SObj.eval, GObj.build]

/-- a history on a single object (`AddEdge` calls and queries): the Spec world keeps one edge list, the calls so far;
every query is answered on the graph built from the calls made before it -/
theorem run_single (k : Kind) (n : Nat) (ops : List Op) (hs : ∀ op ∈ ops, op.single = true) : ∀ es0 : List EdgeIn,
    ((⟨#[⟨k, n, es0⟩], 0⟩ : SWorld).run ops).1.objs = #[⟨k, n, es0 ++ edgesOf ops⟩] ∧
    ((⟨#[⟨k, n, es0⟩], 0⟩ : SWorld).run ops).1.cur = 0 ∧
    ((⟨#[⟨k, n, es0⟩], 0⟩ : SWorld).run ops).2.length = ops.length ∧
    ∀ i q, ops[i]? = some (.query q) →
      ((⟨#[⟨k, n, es0⟩], 0⟩ : SWorld).run ops).2[i]? =
        some ((GObj.build k n (es0 ++ edgesOf (ops.take i))).answer q) := by
  induction ops with
  | nil => intro es0; simp [SWorld.run, edgesOf]
  | cons op ops ih =>
    intro es0
    have hs' : ∀ op ∈ ops, op.single = true := fun o ho => hs o (by simp [ho])
    have hop := hs op (by simp)
    cases op with
    | edge u v w =>
      have hstep : (⟨#[⟨k, n, es0⟩], 0⟩ : SWorld).step (.edge u v w) = ⟨#[⟨k, n, es0 ++ [⟨u, v, w⟩]⟩], 0⟩ := by
        simp [SWorld.step, SWorld.obj]
      obtain ⟨h1, h2, h3, h4⟩ := ih hs' (es0 ++ [⟨u, v, w⟩])
      simp only [SWorld.run, hstep, edgesOf]
      refine ⟨by rw [h1]; simp, h2, by simp [h3], ?_⟩
      intro i q hi
      cases i with
      | zero => simp at hi
      | succ i =>
        simp only [List.getElem?_cons_succ] at hi ⊢
        rw [h4 i q hi]
        simp [edgesOf, List.append_assoc]
    | query q' =>
      have hstep : (⟨#[⟨k, n, es0⟩], 0⟩ : SWorld).step (.query q') = ⟨#[⟨k, n, es0⟩], 0⟩ := rfl
      obtain ⟨h1, h2, h3, h4⟩ := ih hs' es0
      simp only [SWorld.run, hstep, edgesOf]
      refine ⟨h1, h2, by simp [h3], ?_⟩
      intro i q hi
      cases i with
      | zero =>
        simp only [List.getElem?_cons_zero, Option.some.injEq, Op.query.injEq] at hi
        subst hi
        simp [SWorld.obj, SObj.eval, edgesOf]
      | succ i =>
        simp only [List.getElem?_cons_succ] at hi ⊢
        rw [h4 i q hi]
        simp [edgesOf]
    | mkrev => simp [Op.single] at hop
    | use i => simp [Op.single] at hop
    | mknew n es => simp [Op.single] at hop

/-! ## running parts of a history -/

theorem srun_append (a b : List Op) : ∀ sw : SWorld,
    (sw.run (a ++ b)).1 = ((sw.run a).1.run b).1 := by
  induction a with
  | nil => intro sw; rfl
  | cons op a ih => intro sw; simp only [List.cons_append, SWorld.run]; rw [ih]

/-- a run of `AddEdge` calls on the current object appends them to its list and changes no other object -/
theorem srun_edges (es : List EdgeIn) : ∀ sw : SWorld, sw.cur < sw.objs.size →
    (sw.run (es.map fun e => Op.edge e.u e.v e.w)).1 =
      { sw with objs := sw.objs.setIfInBounds sw.cur { sw.obj with es := sw.obj.es ++ es } } := by
  induction es with
  | nil =>
    intro sw hc
    simp only [List.map_nil, SWorld.run, List.append_nil]
    cases sw with
    | mk objs cur =>
      simp only [SWorld.obj, SWorld.mk.injEq, and_true]
      apply Array.ext_getElem?
      intro i
      rw [Array.getElem?_setIfInBounds]
      split
      · rename_i h
        have hc' : cur < objs.size := hc
        simp [getD_eq, Array.getElem?_eq_getElem hc']
        subst h
        exact Array.getElem?_eq_getElem hc'
      · rfl
  | cons e es ih =>
    intro sw hc
    simp only [List.map_cons, SWorld.run]
    have hc' : (sw.step (.edge e.u e.v e.w)).cur < (sw.step (.edge e.u e.v e.w)).objs.size := by
      simp [SWorld.step, hc]
    rw [ih _ hc']
    simp only [SWorld.step, SWorld.obj, SWorld.mk.injEq, and_true]
    simp [getD_eq, hc, List.append_assoc]

end AlgoVerif.C14
