import AlgoVerif.Proofs.C05FibOrder
/-!
# C05 helper: `consolidate` of the indexed Fibonacci heap Model returns, stays inside its `roots` table,
keeps shape and heap order, and ends with every root entered in the table
-/
namespace AlgoVerif.C05
open AlgoVerif.C05.Hole

namespace IFib
variable {K V : Type} {cmp : K → K → Int}

/-! ### list facts about the root list -/

theorem dropWhile_split {α : Type} (p : α → Bool) : ∀ (A : List α) (x : α) (B : List α),
    (∀ a, a ∈ A → p a = true) → p x = false → (A ++ x :: B).dropWhile p = x :: B
  | [], x, B, _, hx => by simp [List.dropWhile, hx]
  | a :: A, x, B, hA, hx => by
    simp only [List.cons_append, List.dropWhile, hA a List.mem_cons_self]
    exact dropWhile_split p A x B (fun b hb => hA b (List.mem_cons_of_mem _ hb)) hx

theorem takeWhile_split {α : Type} (p : α → Bool) : ∀ (A : List α) (x : α) (B : List α),
    (∀ a, a ∈ A → p a = true) → p x = false → (A ++ x :: B).takeWhile p = A
  | [], x, B, _, hx => by simp [List.takeWhile, hx]
  | a :: A, x, B, hA, hx => by
    simp only [List.cons_append, List.takeWhile, hA a List.mem_cons_self]
    rw [takeWhile_split p A x B (fun b hb => hA b (List.mem_cons_of_mem _ hb)) hx]

theorem findRoot_split : ∀ (l : List FN) (x : Nat) (xn : FN), findRoot x l = some xn →
    ∃ A B, l = A ++ xn :: B ∧ (∀ a, a ∈ A → a.id ≠ x) ∧ xn.id = x
  | [], _, _, h => by simp [findRoot] at h
  | r :: rs, x, xn, h => by
    simp only [findRoot] at h
    split at h
    · rename_i hid; cases h; exact ⟨[], rs, rfl, fun a ha => absurd ha (by simp), hid⟩
    · rename_i hid
      obtain ⟨A, B, hl, hA, hx⟩ := findRoot_split rs x xn h
      refine ⟨r :: A, B, by rw [hl]; rfl, ?_, hx⟩
      intro a ha
      rcases List.mem_cons.mp ha with rfl | ha
      · exact hid
      · exact hA a ha

theorem nodup_topIds : ∀ (l : List FN), (rootsIds l).Nodup → (topIds l).Nodup
  | [], _ => by simp [topIds]
  | r :: rs, h => by
    rw [rootsIds_cons] at h
    have hs := List.nodup_append.mp h
    simp only [topIds, List.map_cons, List.nodup_cons]
    refine ⟨?_, nodup_topIds rs hs.2.1⟩
    intro hmem
    exact hs.2.2 r.id (by simp [FN.ids]) r.id (topIds_sub rs r.id hmem) rfl

theorem findRoot_of_mem : ∀ (l : List FN), (topIds l).Nodup → ∀ f, f ∈ l → findRoot f.id l = some f
  | [], _, f, hf => by cases hf
  | r :: rs, hnd, f, hf => by
    simp only [topIds, List.map_cons, List.nodup_cons] at hnd
    simp only [findRoot]
    rcases List.mem_cons.mp hf with rfl | hf
    · rw [if_pos rfl]
    · have : r.id ≠ f.id := by
        intro e; apply hnd.1; rw [e]; exact List.mem_map.mpr ⟨f, hf, rfl⟩
      rw [if_neg this]
      exact findRoot_of_mem rs hnd.2 f hf

theorem nextOf_split (l A B : List FN) (xn : FN) (hl : l = A ++ xn :: B) (hA : ∀ a, a ∈ A → a.id ≠ xn.id) :
    nextOf xn.id l = ((B ++ (A ++ [xn])).head?).map (·.id) := by
  unfold nextOf
  rw [hl, dropWhile_split _ A xn B (fun a ha => by simpa using hA a ha) (by simp)]
  cases B with
  | nil => cases A <;> simp
  | cons b B' => simp

/-- `curr.next` read off a rotation of the root list -/
theorem nextOf_rot {roots P Q V R : List FN} {cn : FN} (hnd : (topIds roots).Nodup) (hr : roots = P ++ Q)
    (hrot : Q ++ P = V ++ cn :: R) :
    nextOf cn.id roots = ((R ++ (V ++ [cn])).head?).map (·.id) := by
  have hne : ∀ (A B : List FN), roots = A ++ cn :: B → ∀ a, a ∈ A → a.id ≠ cn.id := by
    intro A B hl a ha e
    rw [hl] at hnd
    simp only [topIds, List.map_append, List.map_cons] at hnd
    have := (List.nodup_append.mp hnd).2.2 a.id (List.mem_map.mpr ⟨a, ha, rfl⟩) cn.id List.mem_cons_self
    exact this e
  rcases List.append_eq_append_iff.mp hrot with ⟨a', hV, hP⟩ | ⟨c', hQ, hc⟩
  · -- cn lies in P
    have hl : roots = a' ++ cn :: (R ++ Q) := by rw [hr, hP]; simp
    rw [nextOf_split roots a' (R ++ Q) cn hl (hne _ _ hl), hV]
    simp
  · cases c' with
    | nil =>
      have hP : P = cn :: R := by simpa using hc.symm
      have hQ' : Q = V := by simpa using hQ
      have hl : roots = [] ++ cn :: (R ++ V) := by rw [hr, hP, hQ']; simp
      rw [nextOf_split roots [] (R ++ V) cn hl (hne _ _ hl)]
      simp
    | cons c0 c'' =>
      have h1 : cn = c0 ∧ R = c'' ++ P := by simpa using hc
      obtain ⟨rfl, hR⟩ := h1
      have hl : roots = (P ++ V) ++ cn :: c'' := by rw [hr, hQ]; simp
      rw [nextOf_split roots (P ++ V) c'' cn hl (hne _ _ hl), hR]
      simp

theorem rotateTo_spec (l : List FN) (x : Nat) (hx : x ∈ topIds l) :
    ∃ l', rotateTo x l = some l' ∧ l'.Perm l ∧ ∃ e, l'.head? = some e ∧ e.id = x := by
  obtain ⟨xn, hxn⟩ := (findRoot_some_iff l x).mpr hx
  obtain ⟨A, B, hl, hA, hid⟩ := findRoot_split l x xn hxn
  have hd : l.dropWhile (fun r => r.id != x) = xn :: B := by
    rw [hl]; exact dropWhile_split _ A xn B (fun a ha => by simpa using hA a ha) (by simp [hid])
  have ht : l.takeWhile (fun r => r.id != x) = A := by
    rw [hl]; exact takeWhile_split _ A xn B (fun a ha => by simpa using hA a ha) (by simp [hid])
  refine ⟨xn :: B ++ A, ?_, ?_, xn, rfl, hid⟩
  · unfold rotateTo; rw [hd, ht]
  · rw [hl]; exact List.perm_append_comm

theorem ids_length_le : ∀ (l : List FN) (f : FN), f ∈ l → (FN.ids f).length ≤ (rootsIds l).length
  | [], _, h => by cases h
  | r :: rs, f, h => by
    rw [rootsIds_cons, List.length_append]
    rcases List.mem_cons.mp h with rfl | h
    · omega
    · have := ids_length_le rs f h; omega

theorem topIds_eraseRoot : ∀ (l : List FN) (x z : Nat), z ≠ x → z ∈ topIds l → z ∈ topIds (eraseRoot x l)
  | [], _, _, _, h => by simp [topIds] at h
  | r :: rs, x, z, hne, h => by
    simp only [topIds, List.map_cons, List.mem_cons] at h
    simp only [eraseRoot]
    split
    · rename_i hid
      rcases h with h | h
      · exact absurd (h.trans hid) hne
      · exact h
    · simp only [topIds, List.map_cons, List.mem_cons]
      rcases h with h | h
      · exact Or.inl h
      · exact Or.inr (topIds_eraseRoot rs x z hne h)

theorem topIds_linkUnder (ch : FN) : ∀ (l : List FN) (y : Nat), topIds (linkUnder ch y l) = topIds l
  | [], _ => rfl
  | r :: rs, y => by
    simp only [linkUnder]
    split
    · simp [topIds]
    · simp only [topIds, List.map_cons]
      have := topIds_linkUnder ch rs y
      simp only [topIds] at this
      rw [this]

theorem length_linkUnder (ch : FN) : ∀ (l : List FN) (y : Nat), (linkUnder ch y l).length = l.length
  | [], _ => rfl
  | r :: rs, y => by
    simp only [linkUnder]
    split
    · simp
    · simp [length_linkUnder ch rs y]

theorem length_eraseRoot : ∀ (l : List FN) (x : Nat) (xn : FN), findRoot x l = some xn →
    (eraseRoot x l).length + 1 = l.length
  | [], _, _, h => by simp [findRoot] at h
  | r :: rs, x, xn, h => by
    simp only [findRoot] at h
    simp only [eraseRoot]
    split at h
    · rename_i hid; rw [if_pos hid]; simp
    · rename_i hid; rw [if_neg hid]; simp [length_eraseRoot rs x xn h]

theorem findRoot_linkUnder_other (ch : FN) : ∀ (l : List FN) (y z : Nat), z ≠ y →
    findRoot z (linkUnder ch y l) = findRoot z l
  | [], _, _, _ => rfl
  | r :: rs, y, z, hne => by
    simp only [linkUnder]
    split
    · rename_i hid
      simp only [findRoot]
      have : ¬ r.id = z := by rw [hid]; exact fun e => hne e.symm
      rw [if_neg this, if_neg this]
    · simp only [findRoot]
      split
      · rfl
      · exact findRoot_linkUnder_other ch rs y z hne

theorem findRoot_functional {l : List FN} {x : Nat} {a b : FN} (ha : findRoot x l = some a)
    (hb : findRoot x l = some b) : a = b := by rw [ha] at hb; exact Option.some.inj hb

/-! ### the invariant of the two loops -/

/-- what holds of `(root list, table)` throughout `consolidate`; `S` = the ids of the heap, `T` = table size -/
structure CI (cmp : K → K → Int) (h : IFib K V) (S : List Nat) (T : Nat) (roots : List FN)
    (tbl : Array (Option Nat)) : Prop where
  perm : (rootsIds roots).Perm S
  ok : ∀ f, f ∈ roots → f.OK
  ho : HO cmp (kf h) roots
  tsize : tbl.size = T
  tv : ∀ (d y : Nat), tbl[d]? = some (some y) → ∃ yn, findRoot y roots = some yn ∧ yn.degree = ((d : Nat) : Int)

section
variable (hc : LawfulCmp cmp) {h : IFib K V} {S : List Nat} {T : Nat}

theorem CI.deg_lt (hT : ∀ d, fib (d + 2) ≤ S.length → d < T) {roots : List FN} {tbl : Array (Option Nat)}
    (ci : CI cmp h S T roots tbl) {f : FN} (hf : f ∈ roots) : 0 ≤ f.degree ∧ f.degree.toNat < T := by
  have hok := ci.ok f hf
  have h1 := FN.OK.size_bound hok
  have h2 := ids_length_le roots f hf
  have h3 := ci.perm.length_eq
  have : f.degree.toNat = f.child.len := by rw [hok.1]; simp
  refine ⟨by rw [hok.1]; omega, ?_⟩
  rw [this]
  exact hT _ (by omega)

/-- one link: `lo` (the root that compares after) becomes the newest child of `su` -/
theorem link_ci {roots : List FN} {tbl : Array (Option Nat)} (hS : S.Nodup) (ci : CI cmp h S T roots tbl)
    {lo su : Nat} {lon sun : FN} (hlo : findRoot lo roots = some lon) (hsu : findRoot su roots = some sun)
    (hne : lo ≠ su) (hdeg : lon.degree = sun.degree) (hd0 : 0 ≤ sun.degree)
    (hle : LeP cmp (kf h) su lo) :
    CI cmp h S T (linkUnder lon su (eraseRoot lo roots)) (tbl.setIfInBounds sun.degree.toNat none) := by
  have hsu' : findRoot su (eraseRoot lo roots) = some sun := findRoot_erase roots lo su sun (fun e => hne e.symm) hsu
  have hloid := findRoot_id _ _ _ hlo
  refine ⟨?_, ?_, ?_, by simp [ci.tsize], ?_⟩
  · exact (link_step_perm hlo hsu (fun e => hne e.symm)).trans ci.perm
  · apply linkUnder_ok lon (ci.ok lon (findRoot_mem _ _ _ hlo))
    · intro f hf; exact ci.ok f (eraseRoot_sub _ _ _ hf)
    · intro yn hyn
      rw [findRoot_functional hyn hsu', hdeg]
  · intro a b hab
    rcases linkUnder_pairs lon _ su a b hab with ⟨ha, hb⟩ | h1 | h1
    · rw [ha, hb, hloid]; exact hle
    · exact ci.ho a b (findRoot_pairs hlo _ h1)
    · exact ci.ho a b (eraseRoot_pairs _ _ _ h1)
  · intro d y hy
    rw [Array.getElem?_setIfInBounds] at hy
    split at hy
    · split at hy <;> cases hy
    · rename_i hdne
      obtain ⟨yn, hyn, hyd⟩ := ci.tv d y hy
      have hylo : y ≠ lo := by
        intro e; subst e
        have := findRoot_functional hyn hlo
        subst this
        apply hdne; omega
      have hysu : y ≠ su := by
        intro e; subst e
        have := findRoot_functional hyn hsu
        subst this
        apply hdne; omega
      refine ⟨yn, ?_, hyd⟩
      rw [findRoot_linkUnder_other _ _ _ _ hysu]
      exact findRoot_erase roots lo y yn hylo hyn

end

end IFib
end AlgoVerif.C05
