import AlgoVerif.Proofs.C05FibOrder
/-!
# C05 helper: `consolidate` of the indexed Fibonacci heap Model returns, stays inside its `roots` table,
keeps shape and heap order, and ends with every root entered in the table
-/
namespace AlgoVerif.C05
open AlgoVerif.C05.Hole

namespace IFib
variable {K V : Type} {cmp : K → K → Int}

/-! ### list facts about the root list -/

theorem dropWhile_split {α : Type} (p : α → Bool) : ∀ (A : List α) (x : α) (B : List α),
    (∀ a, a ∈ A → p a = true) → p x = false → (A ++ x :: B).dropWhile p = x :: B
  | [], x, B, _, hx => by simp [List.dropWhile, hx]
  | a :: A, x, B, hA, hx => by
    simp only [List.cons_append, List.dropWhile, hA a List.mem_cons_self]
    exact dropWhile_split p A x B (fun b hb => hA b (List.mem_cons_of_mem _ hb)) hx

theorem takeWhile_split {α : Type} (p : α → Bool) : ∀ (A : List α) (x : α) (B : List α),
    (∀ a, a ∈ A → p a = true) → p x = false → (A ++ x :: B).takeWhile p = A
  | [], x, B, _, hx => by simp [List.takeWhile, hx]
  | a :: A, x, B, hA, hx => by
    simp only [List.cons_append, List.takeWhile, hA a List.mem_cons_self]
    rw [takeWhile_split p A x B (fun b hb => hA b (List.mem_cons_of_mem _ hb)) hx]

theorem findRoot_split : ∀ (l : List FN) (x : Nat) (xn : FN), findRoot x l = some xn →
    ∃ A B, l = A ++ xn :: B ∧ (∀ a, a ∈ A → a.id ≠ x) ∧ xn.id = x
  | [], _, _, h => by simp [findRoot] at h
  | r :: rs, x, xn, h => by
    simp only [findRoot] at h
    split at h
    · rename_i hid; cases h; exact ⟨[], rs, rfl, fun a ha => absurd ha (by simp), hid⟩
    · rename_i hid
      obtain ⟨A, B, hl, hA, hx⟩ := findRoot_split rs x xn h
      refine ⟨r :: A, B, by rw [hl]; rfl, ?_, hx⟩
      intro a ha
      rcases List.mem_cons.mp ha with rfl | ha
      · exact hid
      · exact hA a ha

theorem nodup_topIds : ∀ (l : List FN), (rootsIds l).Nodup → (topIds l).Nodup
  | [], _ => by simp [topIds]
  | r :: rs, h => by
    rw [rootsIds_cons] at h
    have hs := List.nodup_append.mp h
    simp only [topIds, List.map_cons, List.nodup_cons]
    refine ⟨?_, nodup_topIds rs hs.2.1⟩
    intro hmem
    exact hs.2.2 r.id (by simp [FN.ids]) r.id (topIds_sub rs r.id hmem) rfl

theorem findRoot_of_mem : ∀ (l : List FN), (topIds l).Nodup → ∀ f, f ∈ l → findRoot f.id l = some f
  | [], _, f, hf => by cases hf
  | r :: rs, hnd, f, hf => by
    simp only [topIds, List.map_cons, List.nodup_cons] at hnd
    simp only [findRoot]
    rcases List.mem_cons.mp hf with rfl | hf
    · rw [if_pos rfl]
    · have : r.id ≠ f.id := by
        intro e; apply hnd.1; rw [e]; exact List.mem_map.mpr ⟨f, hf, rfl⟩
      rw [if_neg this]
      exact findRoot_of_mem rs hnd.2 f hf

theorem nextOf_split (l A B : List FN) (xn : FN) (hl : l = A ++ xn :: B) (hA : ∀ a, a ∈ A → a.id ≠ xn.id) :
    nextOf xn.id l = ((B ++ (A ++ [xn])).head?).map (·.id) := by
  unfold nextOf
  rw [hl, dropWhile_split _ A xn B (fun a ha => by simpa using hA a ha) (by simp)]
  cases B with
  | nil => cases A <;> simp
  | cons b B' => simp

/-- `curr.next` read off a rotation of the root list -/
theorem nextOf_rot {roots P Q V R : List FN} {cn : FN} (hnd : (topIds roots).Nodup) (hr : roots = P ++ Q)
    (hrot : Q ++ P = V ++ cn :: R) :
    nextOf cn.id roots = ((R ++ (V ++ [cn])).head?).map (·.id) := by
  have hne : ∀ (A B : List FN), roots = A ++ cn :: B → ∀ a, a ∈ A → a.id ≠ cn.id := by
    intro A B hl a ha e
    rw [hl] at hnd
    simp only [topIds, List.map_append, List.map_cons] at hnd
    have := (List.nodup_append.mp hnd).2.2 a.id (List.mem_map.mpr ⟨a, ha, rfl⟩) cn.id List.mem_cons_self
    exact this e
  rcases List.append_eq_append_iff.mp hrot with ⟨a', hV, hP⟩ | ⟨c', hQ, hc⟩
  · -- cn lies in P
    have hl : roots = a' ++ cn :: (R ++ Q) := by rw [hr, hP]; simp
    rw [nextOf_split roots a' (R ++ Q) cn hl (hne _ _ hl), hV]
    simp
  · cases c' with
    | nil =>
      have hP : P = cn :: R := by simpa using hc.symm
      have hQ' : Q = V := by simpa using hQ
      have hl : roots = [] ++ cn :: (R ++ V) := by rw [hr, hP, hQ']; simp
      rw [nextOf_split roots [] (R ++ V) cn hl (hne _ _ hl)]
      simp
    | cons c0 c'' =>
      have h1 : cn = c0 ∧ R = c'' ++ P := by simpa using hc
      obtain ⟨rfl, hR⟩ := h1
      have hl : roots = (P ++ V) ++ cn :: c'' := by rw [hr, hQ]; simp
      rw [nextOf_split roots (P ++ V) c'' cn hl (hne _ _ hl), hR]
      simp

theorem rotateTo_spec (l : List FN) (x : Nat) (hx : x ∈ topIds l) :
    ∃ l', rotateTo x l = some l' ∧ l'.Perm l ∧ ∃ e, l'.head? = some e ∧ e.id = x := by
  obtain ⟨xn, hxn⟩ := (findRoot_some_iff l x).mpr hx
  obtain ⟨A, B, hl, hA, hid⟩ := findRoot_split l x xn hxn
  have hd : l.dropWhile (fun r => r.id != x) = xn :: B := by
    rw [hl]; exact dropWhile_split _ A xn B (fun a ha => by simpa using hA a ha) (by simp [hid])
  have ht : l.takeWhile (fun r => r.id != x) = A := by
    rw [hl]; exact takeWhile_split _ A xn B (fun a ha => by simpa using hA a ha) (by simp [hid])
  refine ⟨xn :: B ++ A, ?_, ?_, xn, rfl, hid⟩
  · unfold rotateTo; rw [hd, ht]
  · rw [hl]; exact List.perm_append_comm

theorem ids_length_le : ∀ (l : List FN) (f : FN), f ∈ l → (FN.ids f).length ≤ (rootsIds l).length
  | [], _, h => by cases h
  | r :: rs, f, h => by
    rw [rootsIds_cons, List.length_append]
    rcases List.mem_cons.mp h with rfl | h
    · omega
    · have := ids_length_le rs f h; omega

theorem topIds_eraseRoot : ∀ (l : List FN) (x z : Nat), z ≠ x → z ∈ topIds l → z ∈ topIds (eraseRoot x l)
  | [], _, _, _, h => by simp [topIds] at h
  | r :: rs, x, z, hne, h => by
    simp only [topIds, List.map_cons, List.mem_cons] at h
    simp only [eraseRoot]
    split
    · rename_i hid
      rcases h with h | h
      · exact absurd (h.trans hid) hne
      · exact h
    · simp only [topIds, List.map_cons, List.mem_cons]
      rcases h with h | h
      · exact Or.inl h
      · exact Or.inr (topIds_eraseRoot rs x z hne h)

theorem topIds_linkUnder (ch : FN) : ∀ (l : List FN) (y : Nat), topIds (linkUnder ch y l) = topIds l
  | [], _ => rfl
  | r :: rs, y => by
    simp only [linkUnder]
    split
    · simp [topIds]
    · simp only [topIds, List.map_cons]
      have := topIds_linkUnder ch rs y
      simp only [topIds] at this
      rw [this]

theorem length_linkUnder (ch : FN) : ∀ (l : List FN) (y : Nat), (linkUnder ch y l).length = l.length
  | [], _ => rfl
  | r :: rs, y => by
    simp only [linkUnder]
    split
    · simp
    · simp [length_linkUnder ch rs y]

theorem length_eraseRoot : ∀ (l : List FN) (x : Nat) (xn : FN), findRoot x l = some xn →
    (eraseRoot x l).length + 1 = l.length
  | [], _, _, h => by simp [findRoot] at h
  | r :: rs, x, xn, h => by
    simp only [findRoot] at h
    simp only [eraseRoot]
    split at h
    · rename_i hid; rw [if_pos hid]; simp
    · rename_i hid; rw [if_neg hid]; simp [length_eraseRoot rs x xn h]

theorem findRoot_linkUnder_other (ch : FN) : ∀ (l : List FN) (y z : Nat), z ≠ y →
    findRoot z (linkUnder ch y l) = findRoot z l
  | [], _, _, _ => rfl
  | r :: rs, y, z, hne => by
    simp only [linkUnder]
    split
    · rename_i hid
      simp only [findRoot]
      have : ¬ r.id = z := by rw [hid]; exact fun e => hne e.symm
      rw [if_neg this, if_neg this]
    · simp only [findRoot]
      split
      · rfl
      · exact findRoot_linkUnder_other ch rs y z hne

theorem findRoot_functional {l : List FN} {x : Nat} {a b : FN} (ha : findRoot x l = some a)
    (hb : findRoot x l = some b) : a = b := by rw [ha] at hb; exact Option.some.inj hb

/-! ### the invariant of the two loops -/

/-- what holds of `(root list, table)` throughout `consolidate`; `S` = the ids of the heap, `T` = table size -/
structure CI (cmp : K → K → Int) (h : IFib K V) (S : List Nat) (T : Nat) (roots : List FN)
    (tbl : Array (Option Nat)) : Prop where
  perm : (rootsIds roots).Perm S
  ok : ∀ f, f ∈ roots → f.OK
  ho : HO cmp (kf h) roots
  tsize : tbl.size = T
  tv : ∀ (d y : Nat), tbl[d]? = some (some y) → ∃ yn, findRoot y roots = some yn ∧ yn.degree = ((d : Nat) : Int)

section
variable {h : IFib K V} {S : List Nat} {T : Nat}

theorem CI.deg_lt (hT : ∀ d, fib (d + 2) ≤ S.length → d < T) {roots : List FN} {tbl : Array (Option Nat)}
    (ci : CI cmp h S T roots tbl) {f : FN} (hf : f ∈ roots) : 0 ≤ f.degree ∧ f.degree.toNat < T := by
  have hok := ci.ok f hf
  have h1 := FN.OK.size_bound hok
  have h2 := ids_length_le roots f hf
  have h3 := ci.perm.length_eq
  have : f.degree.toNat = f.child.len := by rw [hok.1]; simp
  refine ⟨by rw [hok.1]; omega, ?_⟩
  rw [this]
  exact hT _ (by omega)

/-- one link: `lo` (the root that compares after) becomes the newest child of `su` -/
theorem link_ci {roots : List FN} {tbl : Array (Option Nat)} (hS : S.Nodup) (ci : CI cmp h S T roots tbl)
    {lo su : Nat} {lon sun : FN} (hlo : findRoot lo roots = some lon) (hsu : findRoot su roots = some sun)
    (hne : lo ≠ su) (hdeg : lon.degree = sun.degree) (hd0 : 0 ≤ sun.degree)
    (hle : LeP cmp (kf h) su lo) :
    CI cmp h S T (linkUnder lon su (eraseRoot lo roots)) (tbl.setIfInBounds sun.degree.toNat none) := by
  have hsu' : findRoot su (eraseRoot lo roots) = some sun := findRoot_erase roots lo su sun (fun e => hne e.symm) hsu
  have hloid := findRoot_id _ _ _ hlo
  refine ⟨?_, ?_, ?_, by simp [ci.tsize], ?_⟩
  · exact (link_step_perm hlo hsu (fun e => hne e.symm)).trans ci.perm
  · apply linkUnder_ok lon (ci.ok lon (findRoot_mem _ _ _ hlo))
    · intro f hf; exact ci.ok f (eraseRoot_sub _ _ _ hf)
    · intro yn hyn
      rw [findRoot_functional hyn hsu', hdeg]
  · intro a b hab
    rcases linkUnder_pairs lon _ su a b hab with ⟨ha, hb⟩ | h1 | h1
    · rw [ha, hb, hloid]; exact hle
    · exact ci.ho a b (findRoot_pairs hlo _ h1)
    · exact ci.ho a b (eraseRoot_pairs _ _ _ h1)
  · intro d y hy
    rw [Array.getElem?_setIfInBounds] at hy
    split at hy
    · split at hy <;> cases hy
    · rename_i hdne
      obtain ⟨yn, hyn, hyd⟩ := ci.tv d y hy
      have hylo : y ≠ lo := by
        intro e; subst e
        have := findRoot_functional hyn hlo
        subst this
        apply hdne; omega
      have hysu : y ≠ su := by
        intro e; subst e
        have := findRoot_functional hyn hsu
        subst this
        apply hdne; omega
      refine ⟨yn, ?_, hyd⟩
      rw [findRoot_linkUnder_other _ _ _ _ hysu]
      exact findRoot_erase roots lo y yn hylo hyn


/-- readable keys for all ids of the heap -/
def Readable (h : IFib K V) (S : List Nat) : Prop := ∀ id, id ∈ S → ∃ k, kf h id = some k

theorem CI.top_mem {roots : List FN} {tbl : Array (Option Nat)} (ci : CI cmp h S T roots tbl) {x : Nat}
    (hx : x ∈ topIds roots) : x ∈ S := ci.perm.mem_iff.mp (topIds_sub roots x hx)

theorem consInner_spec (hc : LawfulCmp cmp) (hS : S.Nodup) (rd : Readable h S) (hT : ∀ d, fib (d + 2) ≤ S.length → d < T) :
    ∀ (fuel : Nat) (roots : List FN) (tbl : Array (Option Nat)) (x : Nat) (linked : Bool),
    CI cmp h S T roots tbl → x ∈ topIds roots → roots.length < fuel →
    ∃ roots' tbl' x' lk xn', consInner cmp h fuel roots tbl x linked = .ok (roots', tbl', x', lk) ∧
      CI cmp h S T roots' tbl' ∧ findRoot x' roots' = some xn' ∧
      (tbl'[xn'.degree.toNat]? = some none ∨ tbl'[xn'.degree.toNat]? = some (some x')) ∧
      ((lk = linked ∧ roots' = roots ∧ tbl' = tbl ∧ x' = x) ∨ (lk = true ∧ roots'.length < roots.length))
  | 0, _, _, _, _, _, _, hf => by omega
  | fuel + 1, roots, tbl, x, linked, ci, hx, hf => by
    obtain ⟨xn, hxn⟩ := (findRoot_some_iff roots x).mpr hx
    obtain ⟨hd0, hdT⟩ := ci.deg_lt hT (findRoot_mem _ _ _ hxn)
    simp only [consInner, hxn]
    rw [if_neg (by omega)]
    have hin : xn.degree.toNat < tbl.size := by rw [ci.tsize]; exact hdT
    rw [Array.getElem?_eq_getElem hin]
    cases hy : tbl[xn.degree.toNat] with
    | none =>
      simp only []
      exact ⟨roots, tbl, x, linked, xn, rfl, ci, hxn, Or.inl (by rw [Array.getElem?_eq_getElem hin, hy]),
        Or.inl ⟨rfl, rfl, rfl, rfl⟩⟩
    | some y =>
      simp only []
      have hy' : tbl[xn.degree.toNat]? = some (some y) := by rw [Array.getElem?_eq_getElem hin, hy]
      by_cases hyx : y = x
      · rw [if_pos hyx]
        exact ⟨roots, tbl, x, linked, xn, rfl, ci, hxn, Or.inr (by rw [hy', hyx]), Or.inl ⟨rfl, rfl, rfl, rfl⟩⟩
      · rw [if_neg hyx]
        obtain ⟨yn, hyn, hyd⟩ := ci.tv _ _ hy'
        have hydeg : yn.degree = xn.degree := by rw [hyd]; omega
        simp only [hyn]
        have hytop : y ∈ topIds roots := (findRoot_some_iff roots y).mp ⟨yn, hyn⟩
        obtain ⟨kx, hkx⟩ := rd x (ci.top_mem hx)
        obtain ⟨ky, hky⟩ := rd y (ci.top_mem hytop)
        rw [keyOf_of_kf hkx, keyOf_of_kf hky]
        simp only []
        by_cases hgt : 0 < cmp kx ky
        · rw [if_pos hgt]
          -- x goes under y
          have hle : LeP cmp (kf h) y x := ⟨ky, kx, hky, hkx, hc.anti _ _ (by omega)⟩
          have ci1 := link_ci hS ci hxn hyn (fun e => hyx e.symm) hydeg.symm (by omega) hle
          rw [hydeg] at ci1
          have hlen : (linkUnder xn y (eraseRoot x roots)).length + 1 = roots.length := by
            rw [length_linkUnder]; exact length_eraseRoot _ _ _ hxn
          have hy1 : y ∈ topIds (linkUnder xn y (eraseRoot x roots)) := by
            rw [topIds_linkUnder]; exact topIds_eraseRoot _ _ _ hyx hytop
          obtain ⟨r', t', x', lk, xn', he, ci', hf', ht', hor⟩ :=
            consInner_spec hc hS rd hT fuel _ _ y true ci1 hy1 (by omega)
          refine ⟨r', t', x', lk, xn', he, ci', hf', ht', Or.inr ?_⟩
          rcases hor with ⟨h1, h2, _, _⟩ | ⟨h1, h2⟩
          · exact ⟨h1, by rw [h2]; omega⟩
          · exact ⟨h1, by omega⟩
        · rw [if_neg hgt]
          -- y goes under x
          have hle : LeP cmp (kf h) x y := ⟨kx, ky, hkx, hky, by omega⟩
          have ci1 := link_ci hS ci hyn hxn hyx hydeg hd0 hle
          have hlen : (linkUnder yn x (eraseRoot y roots)).length + 1 = roots.length := by
            rw [length_linkUnder]; exact length_eraseRoot _ _ _ hyn
          have hx1 : x ∈ topIds (linkUnder yn x (eraseRoot y roots)) := by
            rw [topIds_linkUnder]; exact topIds_eraseRoot _ _ _ (fun e => hyx e.symm) hx
          obtain ⟨r', t', x', lk, xn', he, ci', hf', ht', hor⟩ :=
            consInner_spec hc hS rd hT fuel _ _ x true ci1 hx1 (by omega)
          refine ⟨r', t', x', lk, xn', he, ci', hf', ht', Or.inr ?_⟩
          rcases hor with ⟨h1, h2, _, _⟩ | ⟨h1, h2⟩
          · exact ⟨h1, by rw [h2]; omega⟩
          · exact ⟨h1, by omega⟩


theorem mul_step {a b : Nat} (h : a + 1 ≤ b) : a * (a + 1) + a + 1 ≤ b * (b + 1) := by
  have h1 : (a + 1) * (a + 2) ≤ b * (b + 1) := Nat.mul_le_mul h (by omega)
  have h2 : (a + 1) * (a + 2) = a * (a + 1) + a + a + 2 := by
    simp only [Nat.add_mul, Nat.mul_add, Nat.mul_one, Nat.one_mul]; omega
  omega

/-- `roots[x.degree] = x` -/
theorem ci_record {roots : List FN} {tbl : Array (Option Nat)} (ci : CI cmp h S T roots tbl) {x : Nat} {xn : FN}
    (hx : findRoot x roots = some xn) (hd0 : 0 ≤ xn.degree) :
    CI cmp h S T roots (tbl.setIfInBounds xn.degree.toNat (some x)) := by
  refine ⟨ci.perm, ci.ok, ci.ho, by simp [ci.tsize], ?_⟩
  intro d y hy
  rw [Array.getElem?_setIfInBounds] at hy
  split at hy
  · rename_i hd
    split at hy
    · cases hy; exact ⟨xn, hx, by omega⟩
    · cases hy
  · exact ci.tv d y hy

theorem head_ne {V R' : List FN} {cn r1 : FN} {stop : Nat}
    (hnd : (topIds (V ++ cn :: r1 :: R')).Nodup) (hhead : (V ++ [cn]).head?.map (·.id) = some stop) :
    r1.id ≠ stop := by
  intro e
  cases V with
  | nil =>
    simp only [List.nil_append, List.head?_cons, Option.map_some, Option.some.injEq] at hhead
    simp only [topIds, List.nil_append, List.map_cons, List.nodup_cons, List.mem_cons] at hnd
    exact hnd.1 (Or.inl (by rw [hhead, e]))
  | cons v0 V' =>
    simp only [List.cons_append, List.head?_cons, Option.map_some, Option.some.injEq] at hhead
    simp only [topIds, List.cons_append, List.map_cons, List.map_append, List.nodup_cons, List.mem_append,
      List.mem_cons] at hnd
    exact hnd.1 (Or.inr (Or.inr (Or.inl (by rw [hhead, e]))))

theorem consOuter_spec (hc : LawfulCmp cmp) (hS : S.Nodup) (rd : Readable h S)
    (hT : ∀ d, fib (d + 2) ≤ S.length → d < T) :
    ∀ (fuel : Nat) (roots : List FN) (tbl : Array (Option Nat)) (stop curr : Nat) (P Q V R : List FN) (cn : FN),
    CI cmp h S T roots tbl → roots = P ++ Q → Q ++ P = V ++ cn :: R → cn.id = curr →
    ((V ++ [cn]).head?.map (·.id) = some stop) →
    (∀ v, v ∈ V → tbl[v.degree.toNat]? = some (some v.id)) →
    roots.length * (roots.length + 1) + R.length < fuel →
    ∃ roots' tbl', consOuter cmp h fuel roots tbl stop curr = .ok (roots', tbl') ∧ CI cmp h S T roots' tbl' ∧
      roots' ≠ [] ∧ ∀ f, f ∈ roots' → tbl'[f.degree.toNat]? = some (some f.id)
  | 0, _, _, _, _, _, _, _, _, _, _, _, _, _, _, _, hf => by omega
  | fuel + 1, roots, tbl, stop, curr, P, Q, V, R, cn, ci, hr, hrot, hcn, hhead, hrec, hf => by
    have hndS : (rootsIds roots).Nodup := ci.perm.nodup_iff.mpr hS
    have hnd : (topIds roots).Nodup := nodup_topIds roots hndS
    have hpermrot : (Q ++ P).Perm roots := by rw [hr]; exact List.perm_append_comm
    have hndrot : (topIds (V ++ cn :: R)).Nodup := by
      rw [← hrot]; exact (List.Perm.map _ hpermrot).nodup_iff.mpr hnd
    have hcnmem : cn ∈ roots := hpermrot.mem_iff.mp (by rw [hrot]; simp)
    have hcurr : curr ∈ topIds roots := by rw [← hcn]; exact List.mem_map.mpr ⟨cn, hcnmem, rfl⟩
    obtain ⟨r', t', x', lk, xn', he, ci', hf', ht', hor⟩ :=
      consInner_spec hc hS rd hT (roots.length + 1) roots tbl curr false ci hcurr (by omega)
    simp only [consOuter, he]
    obtain ⟨hd0, hdT⟩ := ci'.deg_lt hT (findRoot_mem _ _ _ hf')
    simp only [hf']
    rw [if_neg (by rw [ci'.tsize]; omega)]
    have ci2 := ci_record ci' hf' hd0
    rcases hor with ⟨hlk, hr', ht'', hx'⟩ | ⟨hlk, hlen⟩
    · -- no link: the scan advances
      subst hlk; subst hr'; subst ht''
      rw [hx'] at he hf' ht' ci2 ⊢
      clear hx'
      have hxn : xn' = cn := by
        have := findRoot_of_mem r' hnd cn hcnmem
        rw [hcn] at this
        exact findRoot_functional hf' this
      subst hxn
      simp only [Bool.false_eq_true, if_false]
      have hnext := nextOf_rot hnd hr hrot
      rw [hcn] at hnext
      rw [hnext]
      -- entries recorded for V are not overwritten
      have hrec2 : ∀ v, v ∈ V ++ [xn'] →
          (t'.setIfInBounds xn'.degree.toNat (some curr))[v.degree.toNat]? = some (some v.id) := by
        intro v hv
        have hin : xn'.degree.toNat < t'.size := by rw [ci'.tsize]; exact hdT
        rcases List.mem_append.mp hv with hv | hv
        · rw [Array.getElem?_setIfInBounds]
          have hne : xn'.degree.toNat ≠ v.degree.toNat := by
            intro e
            have h1 := hrec v hv
            rw [← e] at h1
            have hvid : v.id ≠ xn'.id := by
              intro e2
              simp only [topIds, List.map_append, List.map_cons] at hndrot
              exact (List.nodup_append.mp hndrot).2.2 v.id (List.mem_map.mpr ⟨v, hv, rfl⟩) xn'.id
                List.mem_cons_self e2
            rcases ht' with h2 | h2
            · rw [h1] at h2; cases h2
            · rw [h1] at h2
              have : v.id = curr := Option.some.inj (Option.some.inj h2)
              exact hvid (this.trans hcn.symm)
          rw [if_neg hne]; exact hrec v hv
        · simp only [List.mem_singleton] at hv
          subst hv
          rw [Array.getElem?_setIfInBounds, if_pos rfl, if_pos hin, hcn]
      cases R with
      | nil =>
        simp only [List.nil_append, hhead, Option.map_some, if_true]
        refine ⟨_, _, rfl, ci2, ?_, ?_⟩
        · intro e; rw [e] at hcnmem; cases hcnmem
        · intro f hf
          apply hrec2
          have := hpermrot.mem_iff.mpr hf
          rw [hrot] at this
          simpa using this
      | cons r1 R' =>
        simp only [List.cons_append, List.head?_cons, Option.map_some]
        have hr1 : r1.id ≠ stop := head_ne hndrot hhead
        rw [if_neg hr1]
        refine consOuter_spec hc hS rd hT fuel r' _ stop r1.id P Q (V ++ [xn']) R' r1 ci2 hr
          (by rw [hrot]; simp) rfl ?_ hrec2 (by simp only [List.length_cons] at hf; omega)
        rw [← hhead]
        cases V <;> simp
    · -- a link happened: restart the scan at x'
      subst hlk
      simp only [if_true]
      obtain ⟨A, B, hl, hA, hid⟩ := findRoot_split _ _ _ hf'
      have hndS' : (rootsIds r').Nodup := ci'.perm.nodup_iff.mpr hS
      have hnd' : (topIds r').Nodup := nodup_topIds r' hndS'
      have hrot' : (xn' :: B) ++ A = [] ++ xn' :: (B ++ A) := by simp
      have hnext := nextOf_rot hnd' hl hrot'
      rw [hid] at hnext
      rw [hnext]
      have hin : xn'.degree.toNat < t'.size := by rw [ci'.tsize]; exact hdT
      have hrecx : (t'.setIfInBounds xn'.degree.toNat (some x'))[xn'.degree.toNat]? = some (some xn'.id) := by
        rw [Array.getElem?_setIfInBounds, if_pos rfl, if_pos hin, hid]
      cases hBA : B ++ A with
      | nil =>
        simp only [List.nil_append, List.head?_cons, Option.map_some, hid, if_true]
        refine ⟨_, _, rfl, ci2, by rw [hl]; simp, ?_⟩
        intro f hf
        have hB : B = [] := (List.append_eq_nil_iff.mp hBA).1
        have hA' : A = [] := (List.append_eq_nil_iff.mp hBA).2
        rw [hl, hA', hB] at hf
        simp only [List.nil_append, List.mem_singleton] at hf
        subst hf
        exact hrecx
      | cons r1 R' =>
        simp only [List.cons_append, List.head?_cons, Option.map_some]
        have hr1 : r1.id ≠ x' := by
          intro e
          have hperm : (xn' :: (B ++ A)).Perm r' := by
            rw [hl]
            exact ((List.perm_middle (l₁ := A) (a := xn') (l₂ := B)).trans
              (List.Perm.cons _ List.perm_append_comm)).symm
          have hnd2 : (topIds (xn' :: (B ++ A))).Nodup := (List.Perm.map _ hperm).nodup_iff.mpr hnd'
          rw [hBA] at hnd2
          simp only [topIds, List.map_cons, List.nodup_cons, List.mem_cons] at hnd2
          exact hnd2.1 (Or.inl (by rw [hid, e]))
        rw [if_neg hr1]
        have hlenR : R'.length + 2 = r'.length := by
          rw [hl]
          have := congrArg List.length hBA
          simp only [List.length_append, List.length_cons] at this ⊢
          omega
        have hms := mul_step (a := r'.length) (b := roots.length) (by omega)
        refine consOuter_spec hc hS rd hT fuel r' _ x' r1.id A (xn' :: B) [xn'] R' r1 ci2 hl
          (by simp [hBA]) rfl (by simp [hid]) ?_ (by omega)
        intro v hv
        simp only [List.mem_singleton] at hv
        subst hv
        exact hrecx


theorem pickLoop_spec (hc : LawfulCmp cmp) (rd : Readable h S) : ∀ (l : List (Option Nat)) (e : Nat), e ∈ S →
    (∀ r, some r ∈ l → r ∈ S) →
    ∃ x, pickLoop cmp h e l = .ok x ∧ (x = e ∨ some x ∈ l) ∧ LeP cmp (kf h) x e ∧
      ∀ r, some r ∈ l → LeP cmp (kf h) x r
  | [], e, he, _ => by
    obtain ⟨k, hk⟩ := rd e he
    exact ⟨e, rfl, Or.inl rfl, LeP.refl hc hk, fun r hr => by cases hr⟩
  | none :: rest, e, he, hl => by
    obtain ⟨x, h1, h2, h3, h4⟩ := pickLoop_spec hc rd rest e he (fun r hr => hl r (List.mem_cons_of_mem _ hr))
    refine ⟨x, by simpa only [pickLoop] using h1, ?_, h3, ?_⟩
    · rcases h2 with h2 | h2
      · exact Or.inl h2
      · exact Or.inr (List.mem_cons_of_mem _ h2)
    · intro r hr
      rcases List.mem_cons.mp hr with hr | hr
      · cases hr
      · exact h4 r hr
  | some r0 :: rest, e, he, hl => by
    have hr0 : r0 ∈ S := hl r0 List.mem_cons_self
    obtain ⟨ke, hke⟩ := rd e he
    obtain ⟨kr, hkr⟩ := rd r0 hr0
    simp only [pickLoop, keyOf_of_kf hke, keyOf_of_kf hkr]
    by_cases hle : cmp ke kr ≤ 0
    · rw [if_pos hle]
      obtain ⟨x, h1, h2, h3, h4⟩ := pickLoop_spec hc rd rest e he (fun r hr => hl r (List.mem_cons_of_mem _ hr))
      refine ⟨x, h1, ?_, h3, ?_⟩
      · rcases h2 with h2 | h2
        · exact Or.inl h2
        · exact Or.inr (List.mem_cons_of_mem _ h2)
      · intro r hr
        rcases List.mem_cons.mp hr with hr | hr
        · cases hr
          exact LeP.trans hc h3 ⟨ke, kr, hke, hkr, hle⟩
        · exact h4 r hr
    · rw [if_neg hle]
      obtain ⟨x, h1, h2, h3, h4⟩ := pickLoop_spec hc rd rest r0 hr0 (fun r hr => hl r (List.mem_cons_of_mem _ hr))
      have hre : LeP cmp (kf h) r0 e := ⟨kr, ke, hkr, hke, hc.anti _ _ (by omega)⟩
      refine ⟨x, h1, ?_, LeP.trans hc h3 hre, ?_⟩
      · rcases h2 with h2 | h2
        · rw [h2]; exact Or.inr List.mem_cons_self
        · exact Or.inr (List.mem_cons_of_mem _ h2)
      · intro r hr
        rcases List.mem_cons.mp hr with hr | hr
        · cases hr; exact h3
        · exact h4 r hr

theorem mem_toList_iff (tbl : Array (Option Nat)) (r : Nat) :
    some r ∈ tbl.toList ↔ ∃ d : Nat, tbl[d]? = some (some r) := by
  rw [List.mem_iff_getElem?]
  simp

end

/-- `consolidate` returns; shape, heap order and the set of ids are kept, and the new entry root is before
every node -/
theorem consolidate_full (hc : LawfulCmp cmp) {h : IFib K V} (hne : h.roots ≠ [])
    (hS : (rootsIds h.roots).Nodup) (rd : Readable h (rootsIds h.roots))
    (hn : h.n = ((rootsIds h.roots).length : Int)) (hok : ∀ f, f ∈ h.roots → f.OK)
    (ho : HO cmp (kf h) h.roots) :
    ∃ h', consolidate cmp h = .ok h' ∧ (rootsIds h'.roots).Perm (rootsIds h.roots) ∧ h'.nodes = h.nodes ∧
      h'.cells = h.cells ∧ h'.n = h.n ∧ (∀ f, f ∈ h'.roots → f.OK) ∧ HO cmp (kf h') h'.roots ∧
      ExtAll cmp (kf h') h'.roots := by
  cases hroots : h.roots with
  | nil => exact absurd hroots hne
  | cons e rest =>
    have hlen1 : 1 ≤ (rootsIds h.roots).length := by
      rw [hroots, rootsIds_cons, List.length_append]; simp [FN.ids]; omega
    have hmax : fibMaxDegree h.n = .ok (logPhi (rootsIds h.roots).length + 1) := by
      unfold fibMaxDegree; rw [hn, if_neg (by omega)]; simp
    have hT : ∀ d, fib (d + 2) ≤ (rootsIds h.roots).length → d < logPhi (rootsIds h.roots).length + 1 :=
      fun d hd => degree_lt_maxDegree hd
    have ci0 : CI cmp h (rootsIds h.roots) (logPhi (rootsIds h.roots).length + 1) h.roots
        (Array.replicate (logPhi (rootsIds h.roots).length + 1) none) := by
      refine ⟨List.Perm.refl _, hok, ho, by simp, ?_⟩
      intro d y hy
      rw [Array.getElem?_replicate] at hy
      split at hy <;> cases hy
    have hfuel : h.roots.length * (h.roots.length + 1) + rest.length <
        (h.roots.length + 1) * (h.roots.length + 1) + 1 := by
      have : rest.length + 1 = h.roots.length := by rw [hroots]; simp
      have e1 : (h.roots.length + 1) * (h.roots.length + 1) = h.roots.length * (h.roots.length + 1) + h.roots.length + 1 := by
        simp only [Nat.add_mul, Nat.mul_add, Nat.mul_one, Nat.one_mul]; omega
      omega
    obtain ⟨roots', tbl', hout, ci', hne', hcomplete⟩ :=
      consOuter_spec hc hS rd hT _ h.roots _ e.id e.id [] h.roots [] rest e ci0 (by simp) (by simp [hroots]) rfl
        (by simp) (fun v hv => by cases hv) hfuel
    unfold consolidate
    rw [hmax]
    simp only [hroots]
    rw [hroots] at hout
    rw [hout]
    cases hr' : roots' with
    | nil => exact absurd hr' hne'
    | cons e' rest' =>
      simp only []
      have he'top : e'.id ∈ topIds roots' := by rw [hr']; simp [topIds]
      have hvalid : ∀ r, some r ∈ tbl'.toList → r ∈ topIds roots' := by
        intro r hr
        obtain ⟨d, hd⟩ := (mem_toList_iff tbl' r).mp hr
        obtain ⟨yn, hyn, _⟩ := ci'.tv d r hd
        exact (findRoot_some_iff roots' r).mp ⟨yn, hyn⟩
      obtain ⟨x, hpick, hxmem, hxe, hxall⟩ := pickLoop_spec hc rd tbl'.toList e'.id (ci'.top_mem he'top)
        (fun r hr => ci'.top_mem (hvalid r hr))
      rw [hpick]
      simp only []
      have hxtop : x ∈ topIds roots' := by
        rcases hxmem with rfl | hxmem
        · exact he'top
        · exact hvalid x hxmem
      obtain ⟨roots'', hrot, hperm, e'', hhead, hid⟩ := rotateTo_spec roots' x hxtop
      rw [← hr', hrot]
      refine ⟨_, rfl, by rw [← hroots]; exact (rootsIds_perm hperm).trans ci'.perm, rfl, rfl, rfl, ?_,
        ho_perm hperm ci'.ho, ?_⟩
      · intro f hf; exact ci'.ok f (hperm.mem_iff.mp hf)
      · intro e0 he0 y hy
        show LeP cmp (kf h) e0.id y
        rw [show (roots'' : List FN).head? = some e'' from hhead] at he0
        cases he0
        rw [hid]
        have hy' : y ∈ rootsIds roots' := (rootsIds_perm hperm).mem_iff.mp hy
        obtain ⟨ρ, hρ, hle⟩ := ho_root hc ci'.ho
          (fun z hz => rd z (ci'.perm.mem_iff.mp hz)) y hy'
        obtain ⟨f, hf, hfid⟩ := List.mem_map.mp hρ
        have hin := hcomplete f hf
        have : some ρ ∈ tbl'.toList := (mem_toList_iff tbl' ρ).mpr ⟨_, by rw [← hfid]; exact hin⟩
        exact LeP.trans hc (hxall ρ this) hle

end IFib
end AlgoVerif.C05
