import AlgoVerif.Proofs.C19Retract
/-!
# C19 — the copy loop of `Lexeme`

Under the invariant the loop started at the buffer index of absolute position `q` ends at `forward` after
`p - q ≤ n` steps and has copied exactly the source bytes `[q, p)`, wrapping around the end of the buffer.
-/
set_option maxHeartbeats 400000
namespace AlgoVerif.C19
open AlgoVerif AlgoVerif.Generated

theorem idx_succ (n s B q : Nat) (hn : 0 < n) (hs : s = 0 ∨ s = n) (hlo : B ≤ q + n) (hq : q < B + n) :
    (if idx n s B q + 1 = 2 * n then 0 else idx n s B q + 1) = idx n s B (q + 1) := by
  simp only [idx]
  rcases hs with hs | hs <;> subst hs <;> (repeat' split) <;> omega

theorem idx_ne (n s B q p : Nat) (hn : 0 < n) (hs : s = 0 ∨ s = n) (hlo : B ≤ q + n) (hqp : q < p)
    (hpq : p ≤ q + n) (hp : p ≤ B + n) : idx n s B q ≠ idx n s B p := by
  simp only [idx]
  rcases hs with hs | hs <;> subst hs <;> (repeat' split) <;> omega

theorem lexemeLoop_spec {S : List UInt8} {n : Nat} {i : Input} {p B cnt s : Nat} (hinv : Inv S n i p B cnt s) :
    ∀ (d q : Nat) (acc : List UInt8) (fuel : Nat), q + d = p → B ≤ q + n → d ≤ n → d < fuel →
      lexemeLoop fuel i.buff (idx n s B q) (idx n s B p) acc
        = .ok (acc.reverse ++ (S.drop q).take d, idx n s B p) := by
  have hn := hinv.npos
  have hphi := hinv.p_hi
  have hcl := hinv.cnt_le
  have hL := hinv.hiL
  intro d
  induction d with
  | zero =>
    intro q acc fuel hqp _ _ hf
    have : q = p := by omega
    subst this
    cases fuel with
    | zero => omega
    | succ f => simp [lexemeLoop]
  | succ d ih =>
    intro q acc fuel hqp hlo hdn hf
    cases fuel with
    | zero => omega
    | succ f =>
      have hne := idx_ne n s B q p hn hinv.s01 hlo (by omega) (by omega) (by omega)
      have hqL : q < S.length := by omega
      obtain ⟨x, hx, _⟩ := getElem?_of_lt hqL
      have hread : i.buff[idx n s B q]? = some x := by rw [buff_at hinv q hlo (by omega), hx]
      have hsucc := idx_succ n s B q hn hinv.s01 hlo (by omega)
      unfold lexemeLoop
      simp only [ne_eq, hne, not_false_eq_true, if_true, hread, hinv.size, hsucc]
      rw [ih (q + 1) (x :: acc) f (by omega) (by omega) (by omega) (by omega)]
      congr 2
      rw [List.reverse_cons, List.append_assoc]
      congr 1
      rw [List.drop_eq_getElem_cons hqL, List.take_succ_cons]
      rw [List.getElem?_eq_getElem hqL] at hx
      simp [Option.some.inj hx]

end AlgoVerif.C19
