import AlgoVerif.Proofs.C04Tree
import AlgoVerif.Proofs.C04Machine
/-!
# C04, binomial heap: multiset and heap order through `merge`, `consolidate`, `findExt`; refinement
-/
namespace AlgoVerif.C04
variable {K V : Type}
open Tree

/-! ### merge -/

theorem merge_nodes (a b : List (Tree K V)) : (nodesF (Binomial.merge a b)).Perm (nodesF a ++ nodesF b) := by
  fun_induction Binomial.merge a b with
  | case1 h2 => simp
  | case2 h1 hne => simp
  | case3 a r1 b r2 hlt ih =>
    simp only [nodesF_cons, List.append_assoc]
    exact List.Perm.append_left _ (by simpa using ih)
  | case4 a r1 b r2 hlt ih =>
    simp only [nodesF_cons] at ih ⊢
    exact (List.Perm.append_left _ ih).trans (by c04_perm)

theorem merge_ord {cmp : K → K → Int} (a b : List (Tree K V)) (ha : OrdAll cmp a) (hb : OrdAll cmp b) :
    OrdAll cmp (Binomial.merge a b) := by
  fun_induction Binomial.merge a b with
  | case1 h2 => exact hb
  | case2 h1 hne => exact ha
  | case3 a r1 b r2 hlt ih =>
    rw [OrdAll_cons] at ha ⊢
    exact ⟨ha.1, ih ha.2 hb⟩
  | case4 a r1 b r2 hlt ih =>
    rw [OrdAll_cons] at hb ⊢
    exact ⟨hb.1, ih ha hb.2⟩

/-! ### consolidate -/

theorem consLoop_spec {cmp : K → K → Int} (hc : LawfulCmp cmp) :
    ∀ (rest pre : List (Tree K V)) (curr : Tree K V), OrdAll cmp pre → Ord cmp curr → OrdAll cmp rest →
      (nodesF (Binomial.consLoop cmp pre curr rest)).Perm (nodesF pre ++ (nodes curr ++ nodesF rest)) ∧
      OrdAll cmp (Binomial.consLoop cmp pre curr rest) := by
  intro rest
  induction rest with
  | nil =>
    intro pre curr hpre hcurr _
    simp only [Binomial.consLoop, nodesF_append, nodesF_cons, nodesF_nil, List.append_nil]
    exact ⟨List.Perm.append_right _ (nodesF_reverse pre),
      OrdAll_append.mpr ⟨OrdAll_reverse hpre, OrdAll_cons.mpr ⟨hcurr, OrdAll_nil cmp⟩⟩⟩
  | cons next rest ih =>
    intro pre curr hpre hcurr hrest
    rw [OrdAll_cons] at hrest
    unfold Binomial.consLoop
    by_cases hcond : (curr.deg != next.deg || Binomial.sibSameOrder rest curr) = true
    · -- advance
      rw [if_pos hcond]
      obtain ⟨h1, h2⟩ := ih (curr :: pre) next (OrdAll_cons.mpr ⟨hcurr, hpre⟩) hrest.1 hrest.2
      refine ⟨h1.trans ?_, h2⟩
      simp only [nodesF_cons]
      c04_perm
    · rw [if_neg hcond]
      by_cases hgt : cmp next.key curr.key > 0
      · -- next becomes a child of curr
        rw [if_pos hgt]
        have hle : cmp curr.key next.key ≤ 0 := hc.sign _ _ (by omega)
        obtain ⟨h1, h2⟩ := ih pre (link next curr) hpre (Ord_link next curr hrest.1 hcurr hle) hrest.2
        refine ⟨h1.trans ?_, h2⟩
        simp only [nodesF_cons]
        exact (List.Perm.append_left _ (List.Perm.append_right _ (nodes_link next curr))).trans (by c04_perm)
      · -- curr becomes a child of next
        rw [if_neg hgt]
        have hle : cmp next.key curr.key ≤ 0 := by omega
        obtain ⟨h1, h2⟩ := ih pre (link curr next) hpre (Ord_link curr next hcurr hrest.1 hle) hrest.2
        refine ⟨h1.trans ?_, h2⟩
        simp only [nodesF_cons]
        exact (List.Perm.append_left _ (List.Perm.append_right _ (nodes_link curr next))).trans (by c04_perm)

theorem union_spec {cmp : K → K → Int} (hc : LawfulCmp cmp) (a b : List (Tree K V))
    (ha : OrdAll cmp a) (hb : OrdAll cmp b) :
    (nodesF (Binomial.union cmp a b)).Perm (nodesF a ++ nodesF b) ∧ OrdAll cmp (Binomial.union cmp a b) := by
  unfold Binomial.union Binomial.consolidate
  have hm := merge_nodes a b
  have ho := merge_ord a b ha hb
  cases hmerge : Binomial.merge a b with
  | nil => rw [hmerge] at hm; exact ⟨hm, OrdAll_nil cmp⟩
  | cons t ts =>
    rw [hmerge] at hm ho
    rw [OrdAll_cons] at ho
    obtain ⟨h1, h2⟩ := consLoop_spec hc ts [] t (OrdAll_nil cmp) ho.1 ho.2
    exact ⟨(h1.trans (by simp)).trans hm, h2⟩

/-! ### findExt -/

theorem findExtLoop_spec {cmp : K → K → Int} (hc : LawfulCmp cmp) :
    ∀ (rest pre : List (Tree K V)) (ext : Tree K V) (mid : List (Tree K V)),
      (∀ t ∈ pre, cmp ext.key t.key ≤ 0) → (∀ t ∈ mid, cmp ext.key t.key ≤ 0) →
      let r := Binomial.findExtLoop cmp pre ext mid rest
      r.1 ++ r.2.1 :: r.2.2 = pre.reverse ++ ext :: (mid.reverse ++ rest) ∧
      ∀ t ∈ pre.reverse ++ ext :: (mid.reverse ++ rest), cmp r.2.1.key t.key ≤ 0 := by
  intro rest
  induction rest with
  | nil =>
    intro pre ext mid hpre hmid
    simp only [Binomial.findExtLoop, List.append_nil, true_and]
    intro t ht
    simp only [List.mem_append, List.mem_reverse, List.mem_cons] at ht
    rcases ht with ht | rfl | ht
    · exact hpre t ht
    · exact hc.refl _
    · exact hmid t ht
  | cons s rest ih =>
    intro pre ext mid hpre hmid
    unfold Binomial.findExtLoop
    split
    · rename_i hlt
      have hse : cmp s.key ext.key ≤ 0 := by omega
      obtain ⟨h1, h2⟩ := ih (mid ++ ext :: pre) s [] (by
        intro t ht
        simp only [List.mem_append, List.mem_cons] at ht
        rcases ht with ht | rfl | ht
        · exact hc.trans _ _ _ hse (hmid t ht)
        · exact hse
        · exact hc.trans _ _ _ hse (hpre t ht)) (by intro t ht; cases ht)
      simp only [List.reverse_append, List.reverse_cons, List.reverse_nil, List.nil_append, List.append_assoc,
        List.cons_append] at h1 h2 ⊢
      exact ⟨h1, h2⟩
    · rename_i hlt
      have hes : cmp ext.key s.key ≤ 0 := hc.sign _ _ (by omega)
      obtain ⟨h1, h2⟩ := ih pre ext (s :: mid) hpre (by
        intro t ht
        rcases List.mem_cons.mp ht with rfl | ht
        · exact hes
        · exact hmid t ht)
      simp only [List.reverse_cons, List.append_assoc, List.cons_append, List.nil_append] at h1 h2 ⊢
      exact ⟨h1, h2⟩

theorem findExt_spec {cmp : K → K → Int} (hc : LawfulCmp cmp) (head : List (Tree K V)) (hne : head ≠ []) :
    ∃ b e a, Binomial.findExt cmp head = some (b, e, a) ∧ head = b ++ e :: a ∧ ∀ t ∈ head, cmp e.key t.key ≤ 0 := by
  cases head with
  | nil => exact absurd rfl hne
  | cons n rest =>
    obtain ⟨h1, h2⟩ := findExtLoop_spec hc rest [] n [] (by intro t ht; cases ht) (by intro t ht; cases ht)
    simp only [List.reverse_nil, List.nil_append] at h1 h2
    exact ⟨_, _, _, rfl, h1.symm, h2⟩

/-! ### the invariant, the abstraction function, the refinement -/

structure BnInv (cmp : K → K → Int) (h : Binomial K V) : Prop where
  ord : OrdAll cmp h.head
  n : h.n = ((nodesF h.head).length : Int)

def Binomial.abs (h : Binomial K V) : Bag K V := nodesF h.head

theorem nodesF_split (b a : List (Tree K V)) (e : Tree K V) :
    (nodesF (b ++ e :: a)).Perm ((e.key, e.val) :: (nodesF (b ++ a) ++ nodesF e.children)) := by
  simp only [nodesF_append, nodesF_cons, nodes_eq e]
  c04_perm

theorem Binomial.step_spec {cmp : K → K → Int} (hc : LawfulCmp cmp) (eqV : V → V → Bool) (h : Binomial K V)
    (hinv : BnInv cmp h) (op : Op K V) :
    ∃ h' out, Binomial.step cmp eqV h op = .ok (h', out) ∧ BnInv cmp h' ∧ Step cmp eqV h.abs op out h'.abs := by
  obtain ⟨hord, hn⟩ := hinv
  cases op with
  | insert k v =>
    obtain ⟨h1, h2⟩ := union_spec hc h.head [leaf k v] hord (OrdAll_cons.mpr ⟨Ord_leaf cmp k v, OrdAll_nil cmp⟩)
    have hperm : (nodesF (Binomial.union cmp h.head [leaf k v])).Perm ((k, v) :: nodesF h.head) :=
      h1.trans (by simp only [nodesF_cons, nodesF_nil, nodes_leaf]; c04_perm)
    refine ⟨h.insert cmp k v, .unit, rfl, ⟨h2, ?_⟩, hperm⟩
    have := hperm.length_eq
    simp only [Binomial.insert, hn, this, List.length_cons]; omega
  | delete =>
    by_cases hne : h.head = []
    · refine ⟨h, .kv none, by simp [Binomial.step, Binomial.delete, Binomial.findExt, hne], ⟨hord, hn⟩, ?_⟩
      simp [Step, Binomial.abs, hne]
    · obtain ⟨b, e, a, hfind, hsplit, hmin⟩ := findExt_spec hc h.head hne
      have hord' := hord
      rw [hsplit, OrdAll_append, OrdAll_cons] at hord'
      obtain ⟨h1, h2⟩ := union_spec hc (b ++ a) e.children.reverse (OrdAll_append.mpr ⟨hord'.1, hord'.2.2⟩)
        (OrdAll_reverse (Ord_children e hord'.2.1))
      have hperm : (nodesF h.head).Perm ((e.key, e.val) :: nodesF (Binomial.union cmp (b ++ a) e.children.reverse)) := by
        conv => lhs; rw [hsplit]
        refine (nodesF_split b a e).trans ((List.perm_cons _).mpr ?_)
        exact (List.Perm.append_left _ (nodesF_reverse e.children).symm).trans h1.symm
      refine ⟨(h.delete cmp).1, .kv (h.delete cmp).2, rfl, ?_, ?_⟩
      · simp only [Binomial.delete, hfind]
        refine ⟨h2, ?_⟩
        have := hperm.length_eq
        simp only [hn, this, List.length_cons]; omega
      · simp only [Binomial.delete, hfind, Step]
        exact ⟨ext_extremal hc h.head hord e hmin, hperm⟩
  | deleteAll =>
    exact ⟨h.deleteAll, .unit, rfl, ⟨OrdAll_nil cmp, by simp [Binomial.deleteAll]⟩, by simp [Step, Binomial.abs, Binomial.deleteAll]⟩
  | peek =>
    by_cases hne : h.head = []
    · refine ⟨h, .kv none, by simp [Binomial.step, Binomial.peek, Binomial.findExt, hne], ⟨hord, hn⟩, ?_⟩
      simp [Step, Binomial.abs, hne]
    · obtain ⟨b, e, a, hfind, hsplit, hmin⟩ := findExt_spec hc h.head hne
      refine ⟨h, .kv (some (e.key, e.val)), by simp [Binomial.step, Binomial.peek, hfind], ⟨hord, hn⟩, ?_, ?_, List.Perm.refl _⟩
      · show (e.key, e.val) ∈ nodesF h.head
        rw [hsplit, nodesF_append, nodesF_cons, nodes_eq e]
        simp
      · exact ext_extremal hc h.head hord e hmin
  | size => exact ⟨h, .int h.n, rfl, ⟨hord, hn⟩, hn, List.Perm.refl _⟩
  | isEmpty =>
    refine ⟨h, .bool h.isEmpty, rfl, ⟨hord, hn⟩, ?_, List.Perm.refl _⟩
    show h.head.isEmpty = (nodesF h.head).isEmpty
    cases hh : h.head with
    | nil => simp
    | cons t ts => simp [nodes_eq t]
  | containsKey k =>
    refine ⟨h, .bool (h.containsKey cmp k), rfl, ⟨hord, hn⟩, ?_, List.Perm.refl _⟩
    show h.containsKey cmp k = (nodesF h.head).any _
    unfold Binomial.containsKey
    rw [anyF_eq]
    cases hh : h.head with
    | nil => simp
    | cons t ts => simp
  | containsValue v =>
    refine ⟨h, .bool (h.containsValue eqV v), rfl, ⟨hord, hn⟩, ?_, List.Perm.refl _⟩
    show h.containsValue eqV v = (nodesF h.head).any _
    unfold Binomial.containsValue
    rw [anyF_eq]
    cases hh : h.head with
    | nil => simp
    | cons t ts => simp

theorem Binomial.merge_spec {cmp : K → K → Int} (hc : LawfulCmp cmp) (a b : Binomial K V)
    (ha : BnInv cmp a) (hb : BnInv cmp b) :
    BnInv cmp (a.mergeWith cmp b).1 ∧ BnInv cmp (a.mergeWith cmp b).2 ∧
      (a.mergeWith cmp b).1.abs.Perm (a.abs ++ b.abs) ∧ (a.mergeWith cmp b).2.abs = [] := by
  obtain ⟨h1, h2⟩ := union_spec hc a.head b.head ha.ord hb.ord
  refine ⟨⟨h2, ?_⟩, ⟨OrdAll_nil cmp, by simp [Binomial.mergeWith]⟩, h1, by simp [Binomial.mergeWith, Binomial.abs]⟩
  have := h1.length_eq
  simp only [Binomial.mergeWith, ha.n, hb.n, this, List.length_append]; omega

/-- the binomial heap Model refines the multiset Spec -/
def binomialRefines {cmp : K → K → Int} (hc : LawfulCmp cmp) (eqV : V → V → Bool) :
    Refines (binomialImpl cmp eqV) cmp eqV where
  Inv := BnInv cmp
  abs := Binomial.abs
  init_inv := ⟨OrdAll_nil cmp, by simp [binomialImpl, Binomial.new]⟩
  init_abs := by simp [binomialImpl, Binomial.new, Binomial.abs]
  step_ok := fun s op hs => Binomial.step_spec hc eqV s hs op
  merge_ok := fun a b ha hb =>
    have h := Binomial.merge_spec hc a b ha hb
    ⟨_, _, rfl, h.1, h.2.1, h.2.2.1, h.2.2.2⟩

end AlgoVerif.C04
