import AlgoVerif.Proofs.C08TermL
import AlgoVerif.Proofs.C08BinL
/-!
# `ChomskyNormalForm` = START, TERM, BIN, DEL, UNIT, unreachable: language preservation
-/
namespace AlgoVerif.C08
open AlgoVerif AlgoVerif.Gram AlgoVerif.C08.Spec

/-- the two shapes of START's result -/
theorem cnfStart_ok {g g' : G} (h : cnfStart g = .ok g') :
    g' = g ∨ ∃ s', s' ∉ g.nonterms ∧
      g' = { terms := g.terms, nonterms := g.nonterms ++ [s'], start := s',
             prods := ins g.prods { head := s', body := [Sym.nonterm g.start] } } := by
  unfold cnfStart at h
  split at h
  · cases hn : addNew g g.start primes with
    | ok r =>
      obtain ⟨g1, s'⟩ := r
      simp only [hn, bind, Outcome.bind, pure] at h
      cases h
      obtain ⟨hf, rfl⟩ := addNew_ok hn
      exact Or.inr ⟨s', hf, rfl⟩
    | panic => simp [hn, bind, Outcome.bind] at h
    | diverge => simp [hn, bind, Outcome.bind] at h
  · cases h; exact Or.inl rfl

theorem cnfStart_wf {g g' : G} (h : cnfStart g = .ok g') (hw : WellFormed g) : WellFormed g' := by
  rcases cnfStart_ok h with rfl | ⟨s', _, rfl⟩
  · exact hw
  · refine ⟨by simp, ?_⟩
    intro p hp
    rcases mem_ins.mp hp with hp | rfl
    · obtain ⟨h1, h2⟩ := hw.2 p hp
      refine ⟨by simp; exact Or.inl h1, fun s hs => ?_⟩
      have := h2 s hs
      cases s with
      | term t => exact this
      | nonterm m => unfold SymDeclared at this ⊢; simp; exact Or.inl this
    · refine ⟨by simp, fun s hs => ?_⟩
      simp at hs; subst hs
      unfold SymDeclared; simp; exact Or.inl hw.1

theorem cnf_ok {g g' : G} (h : cnf g = .ok g') :
    ∃ g1 g2 g3 g4 g5, cnfStart g = .ok g1 ∧ cnfTerm g1 = .ok g2 ∧ cnfBin g2 = .ok g3 ∧ elimEmpty g3 = .ok g4 ∧
      elimSingle g4 = .ok g5 ∧ elimUnreachable g5 = .ok g' := by
  unfold cnf at h
  cases h1 : cnfStart g with
  | ok g1 =>
    simp only [h1, bind, Outcome.bind] at h
    cases h2 : cnfTerm g1 with
    | ok g2 =>
      simp only [h2] at h
      cases h3 : cnfBin g2 with
      | ok g3 =>
        simp only [h3] at h
        cases h4 : elimEmpty g3 with
        | ok g4 =>
          simp only [h4] at h
          cases h5 : elimSingle g4 with
          | ok g5 =>
            simp only [h5] at h
            exact ⟨g1, g2, g3, g4, g5, rfl, h2, h3, h4, h5, h⟩
          | panic => simp [h5] at h
          | diverge => simp [h5] at h
        | panic => simp [h4] at h
        | diverge => simp [h4] at h
      | panic => simp [h3] at h
      | diverge => simp [h3] at h
    | panic => simp [h2] at h
    | diverge => simp [h2] at h
  | panic => simp [h1, bind, Outcome.bind] at h
  | diverge => simp [h1, bind, Outcome.bind] at h

theorem cnf_language {g g' : G} (h : cnf g = .ok g') (hw : WellFormed g) (w : List String) :
    Language g' w ↔ Language g w := by
  obtain ⟨g1, g2, g3, g4, g5, h1, h2, h3, h4, h5, h6⟩ := cnf_ok h
  have w1 := cnfStart_wf h1 hw
  have w2 := cnfTerm_wf h2 w1
  have w3 := cnfBin_wf h3 w2
  have w4 := elimEmpty_wf h4 w3
  rw [elimUnreachable_language h6, elimSingle_language h5 w4, elimEmpty_language h4 w3, cnfBin_language h3 w2,
    cnfTerm_language h2 w1, cnfStart_language h1 hw]

end AlgoVerif.C08
