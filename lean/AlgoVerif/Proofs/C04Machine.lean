import AlgoVerif.Model.C04Run
/-!
# C04: from per-operation refinement lemmas to "every history on a family of heaps is admitted"
-/
namespace AlgoVerif.C04
variable {K V : Type}

/-- what has to be shown about a mergeable heap Model: an invariant and an abstraction function such that
every operation succeeds, keeps the invariant and is admitted by the Spec -/
structure Refines (I : Impl K V) (cmp : K → K → Int) (eqV : V → V → Bool) where
  Inv : I.σ → Prop
  abs : I.σ → Bag K V
  init_inv : Inv I.init
  init_abs : abs I.init = []
  step_ok : ∀ s op, Inv s → ∃ s' out, I.step s op = .ok (s', out) ∧ Inv s' ∧ Step cmp eqV (abs s) op out (abs s')
  merge_ok : ∀ a b, Inv a → Inv b → ∃ c c', I.merge a b = .ok (c, c') ∧ Inv c ∧ Inv c' ∧
    (abs c).Perm (abs a ++ abs b) ∧ abs c' = []

theorem Refines.admittedFrom {I : Impl K V} {cmp : K → K → Int} {eqV : V → V → Bool} (R : Refines I cmp eqV) :
    ∀ (ops : List (MOp K V)) (regs : Nat → I.σ), (∀ r, R.Inv (regs r)) →
      Admitted cmp eqV (fun r => R.abs (regs r)) ops (I.runFrom regs ops) := by
  intro ops
  induction ops with
  | nil => intro regs _; simp [Impl.runFrom, Admitted]
  | cons op ops ih =>
    intro regs hinv
    cases op with
    | on r o =>
      obtain ⟨s', out, hrun, hinv', hstep⟩ := R.step_ok (regs r) o (hinv r)
      simp only [Impl.runFrom, Impl.mstep, hrun, obind, Admitted]
      refine ⟨fun r' => R.abs (update regs r s' r'), ⟨?_, ?_⟩, ih _ ?_⟩
      · simpa [update] using hstep
      · intro r' hr'; simp [update, hr']
      · intro r'; unfold update; split
        · exact hinv'
        · exact hinv r'
    | mergeOther d =>
      simp only [Impl.runFrom, Impl.mstep, Admitted]
      exact ⟨fun r => R.abs (regs r), by simp [MStep], ih regs hinv⟩
    | merge d s =>
      by_cases hds : d = s
      · simp only [Impl.runFrom, Impl.mstep, hds, if_true, Admitted]
        exact ⟨fun r => R.abs (regs r), ⟨fun _ => rfl, fun h => absurd rfl h⟩, ih regs hinv⟩
      · obtain ⟨c, c', hrun, hinv', hinv'', hperm, hempty⟩ := R.merge_ok (regs d) (regs s) (hinv d) (hinv s)
        simp only [Impl.runFrom, Impl.mstep, hds, if_false, hrun, obind, Admitted]
        refine ⟨fun r' => R.abs (update (update regs d c) s c' r'), ⟨fun h => absurd h hds, fun _ => ⟨?_, ?_, ?_⟩⟩, ih _ ?_⟩
        · simpa [update, hds] using hperm
        · simp [update, hempty]
        · intro r' h1 h2; simp [update, h1, h2]
        · intro r'; unfold update; split
          · exact hinv''
          · split
            · exact hinv'
            · exact hinv r'

theorem Refines.admitted {I : Impl K V} {cmp : K → K → Int} {eqV : V → V → Bool} (R : Refines I cmp eqV)
    (ops : List (MOp K V)) :
    Admitted cmp eqV (fun _ => []) ops (I.run ops) := by
  have := R.admittedFrom ops (fun _ => I.init) (fun _ => R.init_inv)
  simpa [R.init_abs, Impl.run] using this

end AlgoVerif.C04
