import AlgoVerif.Model.C04Run
/-!
# C04: from per-operation refinement lemmas to "every history on a family of heaps is admitted"
-/
namespace AlgoVerif.C04
variable {K V : Type}

/-- what has to be shown about a mergeable heap Model: an invariant and an abstraction function such that
every operation succeeds, keeps the invariant and is admitted by the Spec -/
structure Refines (I : Impl K V) (cmp : K → K → Int) (eqV : V → V → Bool) where
  Inv : I.σ → Prop
  abs : I.σ → Bag K V
  init_inv : Inv I.init
  init_abs : abs I.init = []
  step_ok : ∀ s op, Inv s → ∃ s' out, I.step s op = .ok (s', out) ∧ Inv s' ∧ Step cmp eqV (abs s) op out (abs s')
  merge_ok : ∀ a b, Inv a → Inv b → ∃ c, I.merge a b = .ok c ∧ Inv c ∧ (abs c).Perm (abs a ++ abs b)

theorem Refines.admittedFrom {I : Impl K V} {cmp : K → K → Int} {eqV : V → V → Bool} (R : Refines I cmp eqV) :
    ∀ (ops : List (MOp K V)) (regs : Nat → I.σ), (∀ r, R.Inv (regs r)) → WellFormed ops →
      Admitted cmp eqV (fun r => R.abs (regs r)) ops (I.runFrom regs ops) := by
  intro ops
  induction ops with
  | nil => intro regs _ _; simp [Impl.runFrom, Admitted]
  | cons op ops ih =>
    intro regs hinv hwf
    have hwf' : WellFormed ops := fun d s h => hwf d s (List.mem_cons_of_mem _ h)
    cases op with
    | on r o =>
      obtain ⟨s', out, hrun, hinv', hstep⟩ := R.step_ok (regs r) o (hinv r)
      simp only [Impl.runFrom, Impl.mstep, hrun, obind, Admitted]
      refine ⟨fun r' => R.abs (update regs r s' r'), ⟨?_, ?_⟩, ih _ ?_ hwf'⟩
      · simpa [update] using hstep
      · intro r' hr'; simp [update, hr']
      · intro r'; unfold update; split
        · exact hinv'
        · exact hinv r'
    | merge d s =>
      have hds : d ≠ s := hwf d s (List.mem_cons_self)
      obtain ⟨c, hrun, hinv', hperm⟩ := R.merge_ok (regs d) (regs s) (hinv d) (hinv s)
      simp only [Impl.runFrom, Impl.mstep, hrun, obind, Admitted]
      refine ⟨fun r' => R.abs (update (update regs d c) s I.init r'), ⟨?_, ?_, ?_⟩, ih _ ?_ hwf'⟩
      · simpa [update, hds] using hperm
      · simp [update, R.init_abs]
      · intro r' h1 h2; simp [update, h1, h2]
      · intro r'; unfold update; split
        · exact R.init_inv
        · split
          · exact hinv'
          · exact hinv r'

theorem Refines.admitted {I : Impl K V} {cmp : K → K → Int} {eqV : V → V → Bool} (R : Refines I cmp eqV)
    (ops : List (MOp K V)) (hwf : WellFormed ops) :
    Admitted cmp eqV (fun _ => []) ops (I.run ops) := by
  have := R.admittedFrom ops (fun _ => I.init) (fun _ => R.init_inv) hwf
  simpa [R.init_abs, Impl.run] using this

end AlgoVerif.C04
