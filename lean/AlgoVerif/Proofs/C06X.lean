import AlgoVerif.Proofs.C06BinarySim
import AlgoVerif.Model.C06X
/-!
# C06 — the rest of `trie.Trie` on the binary trie (simulation under `BInv`)

`Traverse`-order facts, and the extended step function `Binary.xstep` against `Spec.admits`.
-/
namespace AlgoVerif.C06
variable {V σ : Type}

/-! ## the general traversal specialises to the two the property's queries use -/
namespace BNode

theorem andThen_eq (a : σ × Bool) (f : σ → σ × Bool) : andThen a f = if !a.2 then (a.1, false) else f a.1 := by
  obtain ⟨x, b⟩ := a
  cases b <;> rfl

theorem trav_asc (visit : σ → Key → V → Bool → σ × Bool) (n : BNode V) (pre : Key) (s : σ) :
    trav .asc visit n pre s = travAsc visit n pre s := by
  induction n generalizing pre s with
  | nil => rfl
  | node ch val term l r ihl ihr =>
    simp only [trav, travAsc, andThen_eq, ihl, ihr]
    by_cases h1 : (visit s (pre ++ [ch]) val term).2 = true <;> simp [h1]

theorem trav_vlr (visit : σ → Key → V → Bool → σ × Bool) (n : BNode V) (pre : Key) (s : σ) :
    trav .vlr visit n pre s = travAsc visit n pre s := by
  induction n generalizing pre s with
  | nil => rfl
  | node ch val term l r ihl ihr =>
    simp only [trav, travAsc, andThen_eq, ihl, ihr]
    by_cases h1 : (visit s (pre ++ [ch]) val term).2 = true <;> simp [h1]

theorem trav_desc (visit : σ → Key → V → Bool → σ × Bool) (n : BNode V) (pre : Key) (s : σ) :
    trav .desc visit n pre s = travDesc visit n pre s := by
  induction n generalizing pre s with
  | nil => rfl
  | node ch val term l r ihl ihr =>
    simp only [trav, travDesc, andThen_eq, ihl, ihr]
    by_cases h1 : (travDesc visit r pre s).2 = true <;> simp [h1]

theorem trav_rlv (visit : σ → Key → V → Bool → σ × Bool) (n : BNode V) (pre : Key) (s : σ) :
    trav .rlv visit n pre s = travDesc visit n pre s := by
  induction n generalizing pre s with
  | nil => rfl
  | node ch val term l r ihl ihr =>
    simp only [trav, travDesc, andThen_eq, ihl, ihr]
    by_cases h1 : (travDesc visit r pre s).2 = true <;> simp [h1]

theorem trav_bad (visit : σ → Key → V → Bool → σ × Bool) (n : BNode V) (pre : Key) (s : σ) :
    trav .bad visit n pre s = (s, n.isNil) := by
  cases n <;> rfl

end BNode

/-! ## folds with boolean / option / trie state -/

theorem foldE_allB (q : Key → V → Bool) (m : List (Key × V)) :
    (foldE (fun (s : Unit) k v => (s, q k v)) m ()).2 = m.all fun e => q e.1 e.2 := by
  induction m with
  | nil => simp [foldE]
  | cons e m ih =>
    simp only [foldE, List.all_cons]
    cases h : q e.1 e.2 <;> simp [ih]

theorem foldE_find (p : Key → V → Bool) (m : List (Key × V)) :
    (foldE (fun (s : Option (Key × V)) k v => if p k v then (some (k, v), false) else (s, true)) m none).1
      = m.find? fun e => p e.1 e.2 := by
  induction m with
  | nil => simp [foldE]
  | cons e m ih =>
    simp only [foldE, List.find?_cons]
    cases h : p e.1 e.2 <;> simp [ih]

namespace Spec

theorem Map.put_last {m : Map V} {k : Key} (v : V) (h : ∀ e ∈ m, klt e.1 k = true) : Map.put m k v = m ++ [(k, v)] := by
  induction m with
  | nil => rfl
  | cons x m ih =>
    obtain ⟨k', v'⟩ := x
    have h1 : klt k' k = true := h (k', v') (List.mem_cons_self ..)
    have h2 : klt k k' = false := klt_asymm h1
    have h3 : (k == k') = false := by
      simp only [beq_eq_false_iff_ne, ne_eq]
      exact fun he => klt_ne h1 he.symm
    simp only [Map.put, h2, Bool.false_eq_true, if_false, h3, List.cons_append]
    rw [ih (fun e he => h e (List.mem_cons_of_mem _ he))]

end Spec

namespace Spec

/-- with an `eqVal` that decides equality, `Equal` on sorted maps is equality of the maps -/
theorem Map.equal_iff (eqv : V → V → Bool) (heq : ∀ a b, eqv a b = true ↔ a = b) {m m2 : Map V}
    (hs : Sorted m) (hs2 : Sorted m2) : Map.equal eqv m m2 = true ↔ m = m2 := by
  constructor
  · intro h
    simp only [Map.equal, Bool.and_eq_true, List.all_eq_true] at h
    apply Sorted.ext hs hs2
    intro e
    constructor
    · intro he
      have := h.1 e he
      cases hg : Map.get m2 e.1 with
      | none => simp [hg] at this
      | some v2 =>
        simp only [hg] at this
        have hv : e.2 = v2 := (heq _ _).mp this
        have := (Map.get_eq_some hs2 e.1 v2).mp hg
        rw [← hv] at this
        exact this
    · intro he
      have := h.2 e he
      cases hg : Map.get m e.1 with
      | none => simp [hg] at this
      | some v =>
        simp only [hg] at this
        have hv : e.2 = v := (heq _ _).mp this
        have := (Map.get_eq_some hs e.1 v).mp hg
        rw [← hv] at this
        exact this
  · rintro rfl
    simp only [Map.equal, Bool.and_self, List.all_eq_true]
    intro e he
    have : Map.get m e.1 = some e.2 := (Map.get_eq_some hs e.1 e.2).mpr he
    simp only [this]
    exact (heq _ _).mpr rfl

end Spec

namespace Binary
open Spec

theorem isEmpty_eq {t : Binary V} {m : Map V} (h : BInv t m) : t.isEmpty = m.isEmpty := by
  unfold Binary.isEmpty
  rw [h.size]
  cases m <;> simp
  omega

theorem anyMatch_eq {t : Binary V} {m : Map V} (h : BInv t m) (p : Key → V → Bool) : t.anyMatch p = m.anyMatch p := by
  unfold Binary.anyMatch Map.anyMatch
  rw [BNode.trav_vlr, BNode.travAsc_eq _ (fun (s : Unit) k v => (s, !p k v))
    (fun s k v term => by cases term <;> simp), map_prep_nil, h.ents, foldE_allB]
  generalize m = l
  induction l with
  | nil => rfl
  | cons e l ih => simp only [List.all_cons, List.any_cons]; cases p e.1 e.2 <;> simp_all

theorem allMatch_eq {t : Binary V} {m : Map V} (h : BInv t m) (p : Key → V → Bool) : t.allMatch p = m.allMatch p := by
  unfold Binary.allMatch Map.allMatch
  rw [BNode.trav_vlr, BNode.travAsc_eq _ (fun (s : Unit) k v => (s, p k v))
    (fun s k v term => by cases term <;> simp), map_prep_nil, h.ents, foldE_allB]

/-- the binary trie's `FirstMatch` is exact: the first match in ascending key order -/
theorem firstMatch_eq {t : Binary V} {m : Map V} (h : BInv t m) (p : Key → V → Bool) :
    t.firstMatch p = m.find? fun e => p e.1 e.2 := by
  unfold Binary.firstMatch
  rw [BNode.trav_vlr, BNode.travAsc_eq _ (fun (s : Option (Key × V)) k v => if p k v then (some (k, v), false) else (s, true))
    (fun s k v term => by cases term <;> simp), map_prep_nil, h.ents, foldE_find]

/-- folding `Put` over (part of) a sorted list whose keys are above everything inserted so far -/
theorem foldE_select [Inhabited V] (p : Key → V → Bool) (xs : List (Key × V)) (acc : Map V) (n : Binary V)
    (hn : BInv n acc) (hs : Sorted (acc ++ xs)) (hne : ∀ e ∈ xs, e.1 ≠ []) :
    ∃ n', (foldE (fun (s : Outcome (Binary V)) k v =>
        if p k v then
          match s with
          | .ok n => (match n.put k v with
            | .ok n' => (.ok n', true)
            | .panic => (.panic, false)
            | .diverge => (.diverge, false))
          | e => (e, false)
        else (s, true)) xs (.ok n)) = (.ok n', true) ∧ BInv n' (acc ++ xs.filter fun e => p e.1 e.2) := by
  induction xs generalizing acc n with
  | nil => exact ⟨n, by simp [foldE], by simpa using hn⟩
  | cons x xs ih =>
    obtain ⟨k, v⟩ := x
    have hk : k ≠ [] := hne (k, v) (List.mem_cons_self ..)
    obtain ⟨c, rest, rfl⟩ : ∃ c rest, k = c :: rest := by
      cases k with
      | nil => exact absurd rfl hk
      | cons c rest => exact ⟨c, rest, rfl⟩
    simp only [foldE, List.filter_cons]
    by_cases hp : p (c :: rest) v = true
    · have hlast : ∀ e ∈ acc, klt e.1 (c :: rest) = true := by
        intro e he
        have := List.pairwise_append.mp hs
        exact this.2.2 e he (c :: rest, v) (List.mem_cons_self ..)
      have hput := put_sim hn c rest v
      rw [Map.put_last v hlast] at hput
      have hs' : Sorted ((acc ++ [(c :: rest, v)]) ++ xs) := by simpa using hs
      obtain ⟨n', h1, h2⟩ := ih (acc ++ [(c :: rest, v)]) _ hput hs' (fun e he => hne e (List.mem_cons_of_mem _ he))
      refine ⟨n', ?_, by simpa [hp] using h2⟩
      simp only [hp, if_true, Binary.put, Bool.not_true, Bool.false_eq_true, if_false]
      exact h1
    · have hp' : p (c :: rest) v = false := by simpa using hp
      have hs' : Sorted (acc ++ xs) := by
        have := List.pairwise_append.mp hs
        exact List.pairwise_append.mpr ⟨this.1, this.2.1.tail, fun a ha b hb => this.2.2 a ha b (List.mem_cons_of_mem _ hb)⟩
      obtain ⟨n', h1, h2⟩ := ih acc n hn hs' (fun e he => hne e (List.mem_cons_of_mem _ he))
      refine ⟨n', ?_, by simpa [hp'] using h2⟩
      simp only [hp', Bool.false_eq_true, if_false, Bool.not_true]
      exact h1

theorem selectMatch_sim [Inhabited V] {t : Binary V} {m : Map V} (h : BInv t m) (p : Key → V → Bool) :
    ∃ r, t.selectMatch p = .ok r ∧ BInv r (m.selectMatch p) := by
  unfold Binary.selectMatch Map.selectMatch
  rw [BNode.trav_vlr, BNode.travAsc_eq _ (fun (s : Outcome (Binary V)) k v =>
        if p k v then
          match s with
          | .ok n => (match n.put k v with
            | .ok n' => (.ok n', true)
            | .panic => (.panic, false)
            | .diverge => (.diverge, false))
          | e => (e, false)
        else (s, true))
    (fun s k v term => by cases term <;> first | rfl | (simp; rfl)), map_prep_nil, h.ents]
  obtain ⟨n', h1, h2⟩ := foldE_select p m [] Binary.new BInv.new (by simpa using h.sorted)
    (fun e he => by rw [← h.ents] at he; exact BNode.ents_key_ne_nil _ e he)
  exact ⟨n', by rw [h1], by simpa using h2⟩

/-- `PartitionMatch`: two accumulators -/
theorem foldE_partition [Inhabited V] (p : Key → V → Bool) (xs : List (Key × V)) (am au : Map V) (nm nu : Binary V)
    (hm : BInv nm am) (hu : BInv nu au) (hsm : Sorted (am ++ xs)) (hsu : Sorted (au ++ xs)) (hne : ∀ e ∈ xs, e.1 ≠ []) :
    ∃ nm' nu', (foldE (fun (s : Outcome (Binary V × Binary V)) k v =>
        match s with
        | .ok (m, u) =>
          (match (if p k v then (m.put k v).map (fun m' => (m', u)) else (u.put k v).map (fun u' => (m, u'))) with
          | .ok x => (.ok x, true)
          | .panic => (.panic, false)
          | .diverge => (.diverge, false))
        | e => (e, false)) xs (.ok (nm, nu))) = (.ok (nm', nu'), true) ∧
      BInv nm' (am ++ xs.filter fun e => p e.1 e.2) ∧ BInv nu' (au ++ xs.filter fun e => !p e.1 e.2) := by
  induction xs generalizing am au nm nu with
  | nil => exact ⟨nm, nu, by simp [foldE], by simpa using hm, by simpa using hu⟩
  | cons x xs ih =>
    obtain ⟨k, v⟩ := x
    have hk : k ≠ [] := hne (k, v) (List.mem_cons_self ..)
    obtain ⟨c, rest, rfl⟩ : ∃ c rest, k = c :: rest := by
      cases k with
      | nil => exact absurd rfl hk
      | cons c rest => exact ⟨c, rest, rfl⟩
    have tailS : ∀ {a : Map V}, Sorted (a ++ (c :: rest, v) :: xs) → Sorted (a ++ xs) := by
      intro a h
      have := List.pairwise_append.mp h
      exact List.pairwise_append.mpr ⟨this.1, this.2.1.tail, fun x hx y hy => this.2.2 x hx y (List.mem_cons_of_mem _ hy)⟩
    have lastS : ∀ {a : Map V}, Sorted (a ++ (c :: rest, v) :: xs) → ∀ e ∈ a, klt e.1 (c :: rest) = true := by
      intro a h e he
      exact (List.pairwise_append.mp h).2.2 e he (c :: rest, v) (List.mem_cons_self ..)
    simp only [foldE, List.filter_cons]
    by_cases hp : p (c :: rest) v = true
    · have hput := put_sim hm c rest v
      rw [Map.put_last v (lastS hsm)] at hput
      obtain ⟨nm', nu', h1, h2, h3⟩ := ih (am ++ [(c :: rest, v)]) au _ nu hput hu (by simpa using hsm) (tailS hsu)
        (fun e he => hne e (List.mem_cons_of_mem _ he))
      refine ⟨nm', nu', ?_, by simpa [hp] using h2, by simpa [hp] using h3⟩
      simp only [hp, if_true, Binary.put, Outcome.map, Bool.not_true, Bool.false_eq_true, if_false]
      exact h1
    · have hp' : p (c :: rest) v = false := by simpa using hp
      have hput := put_sim hu c rest v
      rw [Map.put_last v (lastS hsu)] at hput
      obtain ⟨nm', nu', h1, h2, h3⟩ := ih am (au ++ [(c :: rest, v)]) nm _ hm hput (tailS hsm) (by simpa using hsu)
        (fun e he => hne e (List.mem_cons_of_mem _ he))
      refine ⟨nm', nu', ?_, by simpa [hp'] using h2, by simpa [hp'] using h3⟩
      simp only [hp', Bool.false_eq_true, if_false, Binary.put, Outcome.map, Bool.not_true]
      exact h1

theorem partitionMatch_sim [Inhabited V] {t : Binary V} {m : Map V} (h : BInv t m) (p : Key → V → Bool) :
    ∃ r u, t.partitionMatch p = .ok (r, u) ∧ BInv r (m.selectMatch p) ∧ BInv u (m.rejectMatch p) := by
  unfold Binary.partitionMatch Map.selectMatch Map.rejectMatch
  rw [BNode.trav_vlr, BNode.travAsc_eq _ (fun (s : Outcome (Binary V × Binary V)) k v =>
        match s with
        | .ok (m, u) =>
          (match (if p k v then (m.put k v).map (fun m' => (m', u)) else (u.put k v).map (fun u' => (m, u'))) with
          | .ok x => (.ok x, true)
          | .panic => (.panic, false)
          | .diverge => (.diverge, false))
        | e => (e, false))
    (fun s k v term => by cases term <;> first | rfl | (simp; rfl)), map_prep_nil, h.ents]
  obtain ⟨nm', nu', h1, h2, h3⟩ := foldE_partition p m [] [] Binary.new Binary.new BInv.new BInv.new
    (by simpa using h.sorted) (by simpa using h.sorted)
    (fun e he => by rw [← h.ents] at he; exact BNode.ents_key_ne_nil _ e he)
  exact ⟨nm', nu', by rw [h1], by simpa using h2, by simpa using h3⟩

/-- a fold whose visit never changes the state and continues while `q` holds -/
theorem foldE_allS (q : Key → V → Bool) (m : List (Key × V)) (s : σ) :
    foldE (fun (s : σ) k v => (s, q k v)) m s = (s, m.all fun e => q e.1 e.2) := by
  induction m with
  | nil => simp [foldE]
  | cons e m ih =>
    simp only [foldE, List.all_cons]
    cases h : q e.1 e.2 <;> simp [ih]

theorem foldE_congr (g g' : σ → Key → V → σ × Bool) (m : List (Key × V)) (s : σ)
    (h : ∀ e ∈ m, ∀ s, g s e.1 e.2 = g' s e.1 e.2) : foldE g m s = foldE g' m s := by
  induction m generalizing s with
  | nil => rfl
  | cons e m ih =>
    simp only [foldE, h e (List.mem_cons_self ..) s]
    rw [ih _ (fun x hx => h x (List.mem_cons_of_mem _ hx))]

theorem subsetOf_eq [Inhabited V] (eqv : V → V → Bool) {t t2 : Binary V} {m m2 : Map V} (h : BInv t m) (h2 : BInv t2 m2) :
    t.subsetOf eqv t2 = .ok (m.all fun e => match Map.get m2 e.1 with
      | some v2 => eqv e.2 v2
      | none => false) := by
  unfold Binary.subsetOf
  rw [BNode.trav_asc, BNode.travAsc_eq _ (fun (s : Outcome Unit) k v =>
      match t2.get k with
      | .ok (some v2) => (s, eqv v v2)
      | .ok none => (s, false)
      | .panic => (.panic, false)
      | .diverge => (.diverge, false))
    (fun s k v term => by cases term <;> first | rfl | (simp; rfl)), map_prep_nil, h.ents,
    foldE_congr _ (fun (s : Outcome Unit) k v => (s, match Map.get m2 k with
      | some v2 => eqv v v2
      | none => false)) m _ ?_, foldE_allS]
  · rfl
  · intro e he s
    have hk : e.1 ≠ [] := by rw [← h.ents] at he; exact BNode.ents_key_ne_nil _ e he
    obtain ⟨k, v⟩ := e
    cases k with
    | nil => exact absurd rfl hk
    | cons c rest =>
      simp only [Binary.get, get_eq h2]
      cases Map.get m2 (c :: rest) <;> rfl

theorem equal_eq [Inhabited V] (eqv : V → V → Bool) {t t2 : Binary V} {m m2 : Map V} (h : BInv t m) (h2 : BInv t2 m2) :
    t.equal eqv t2 = .ok (Map.equal eqv m m2) := by
  unfold Binary.equal Map.equal
  rw [subsetOf_eq eqv h h2]
  simp only [bind, Outcome.bind]
  cases hA : (m.all fun e => match Map.get m2 e.1 with
      | some v2 => eqv e.2 v2
      | none => false)
  · simp [pure]
  · simp only [subsetOf_eq eqv h2 h, Bool.not_true, Bool.false_eq_true, if_false, Bool.true_and]
    rfl

theorem holds_of_inv {t : Binary V} {m : Map V} (h : BInv t m) : t.Holds m := ⟨all_eq h, h.size⟩

theorem traverse_bad [Inhabited V] (t : Binary V) (visit : σ → Key → V → σ × Bool) (s : σ) :
    t.traverse .bad visit s = (s, false) := rfl

/-- every extended operation on non-empty keys succeeds, is admitted by the two sorted maps and keeps the invariant
of both registers -/
theorem xstep_sim [Inhabited V] (eqv : V → V → Bool) {a b : Binary V} {ma mb : Map V} (ha : BInv a ma) (hb : BInv b mb)
    (op : XOp V) (hk : op.keysNonempty = true) :
    ∃ a' b' o, Binary.xstep eqv (a, b) op = .ok ((a', b'), o) ∧
      BInv a' (Spec.xnext (ma, mb) op).1 ∧ BInv b' (Spec.xnext (ma, mb) op).2 ∧
      Spec.admits false eqv Binary.Holds (ma, mb) op o := by
  cases op with
  | base op =>
    obtain ⟨a', h1, h2⟩ := step_sim ha op hk
    exact ⟨a', b, _, by simp [Binary.xstep, h1, Outcome.map], h2, hb, rfl⟩
  | isEmpty => exact ⟨a, b, _, rfl, ha, hb, by simp [Spec.admits, isEmpty_eq ha]⟩
  | height => exact ⟨a, b, _, rfl, ha, hb, ⟨_, rfl⟩⟩
  | traverse o stop =>
    refine ⟨a, b, _, rfl, ha, hb, ⟨_, rfl, ?_⟩⟩
    cases o <;> simp [traverse_bad]
  | anyMatch p => exact ⟨a, b, _, rfl, ha, hb, by simp [Spec.admits, anyMatch_eq ha]⟩
  | allMatch p => exact ⟨a, b, _, rfl, ha, hb, by simp [Spec.admits, allMatch_eq ha]⟩
  | firstMatch p =>
    refine ⟨a, b, _, rfl, ha, hb, ⟨_, rfl, ?_⟩⟩
    rw [firstMatch_eq ha]
    cases hf : ma.find? fun e => p e.1 e.2 with
    | none =>
      simp only [Map.anyMatch]
      rw [List.find?_eq_none] at hf
      simpa using hf
    | some e =>
      have := List.find?_some hf
      exact ⟨List.mem_of_find?_eq_some hf, this⟩
  | selectMatch p =>
    obtain ⟨r, h1, h2⟩ := selectMatch_sim ha p
    exact ⟨a, r, _, by simp [Binary.xstep, h1, Outcome.map], ha, h2, ⟨r, rfl, holds_of_inv h2⟩⟩
  | partitionMatch p =>
    obtain ⟨r, u, h1, h2, h3⟩ := partitionMatch_sim ha p
    exact ⟨a, u, _, by simp [Binary.xstep, h1, Outcome.map], ha, h3, ⟨r, u, rfl, holds_of_inv h2, holds_of_inv h3⟩⟩
  | equal => exact ⟨a, b, _, by simp [Binary.xstep, equal_eq eqv ha hb, Outcome.map], ha, hb, rfl⟩
  | equalOther => exact ⟨a, b, _, rfl, ha, hb, rfl⟩
  | swap => exact ⟨b, a, _, rfl, hb, ha, rfl⟩

theorem xrun_sim [Inhabited V] (eqv : V → V → Bool) {a b : Binary V} {ma mb : Map V} (ha : BInv a ma) (hb : BInv b mb)
    (ops : List (XOp V)) (hk : ∀ op ∈ ops, op.keysNonempty = true) :
    Spec.Admitted false eqv Binary.Holds (ma, mb) ops (Binary.xrun eqv (a, b) ops) := by
  induction ops generalizing a b ma mb with
  | nil => trivial
  | cons op ops ih =>
    obtain ⟨a', b', o, h1, h2, h3, h4⟩ := xstep_sim eqv ha hb op (hk op (List.mem_cons_self ..))
    simp only [Binary.xrun, runTrace, h1, Spec.Admitted]
    exact ⟨h4, ih h2 h3 (fun o ho => hk o (List.mem_cons_of_mem _ ho))⟩

end Binary
end AlgoVerif.C06

/-! ## every node without a left child ends a key (why `Max`'s visitor never sees a non-`term` node) -/
namespace AlgoVerif.C06
variable {V σ : Type}

namespace BNode

/-- `n.left == nil` implies `n.term`, everywhere below `n` -/
def Tight : BNode V → Prop
  | nil => True
  | node _ _ term l r => Tight l ∧ Tight r ∧ (l.isNil = true → term = true)

theorem chain_not_nil [Inhabited V] (c : UInt8) (rest : Key) (v : V) : (chain c rest v).isNil = false := by
  cases rest <;> rfl

theorem chain_tight [Inhabited V] (c : UInt8) (rest : Key) (v : V) : Tight (chain c rest v) := by
  induction rest generalizing c with
  | nil => simp [chain, Tight]
  | cons c' rest ih => simp [chain, Tight, ih, chain_not_nil]

theorem put_not_nil [Inhabited V] (n : BNode V) (c : UInt8) (rest : Key) (v : V) (sz : Int) :
    (put n c rest v sz).1.isNil = false := by
  cases n with
  | nil => simp [put, chain_not_nil]
  | node ch val term l r =>
    simp only [put]
    split
    · cases rest <;> rfl
    · split
      · cases rest <;> rfl
      · rfl

theorem put_tight [Inhabited V] (n : BNode V) (c : UInt8) (rest : Key) (v : V) (sz : Int) (h : Tight n) :
    Tight (put n c rest v sz).1 := by
  induction n generalizing c rest sz with
  | nil => simp [put, chain_tight]
  | node ch val term l r ihl ihr =>
    obtain ⟨hl, hr, ht⟩ := h
    simp only [put]
    split
    · cases rest with
      | nil => exact ⟨trivial, ⟨hl, hr, ht⟩, fun _ => rfl⟩
      | cons c' rest' => exact ⟨chain_tight .., ⟨hl, hr, ht⟩, fun hh => by simp [chain_not_nil] at hh⟩
    · split
      · cases rest with
        | nil => exact ⟨hl, hr, fun _ => rfl⟩
        | cons c' rest' => exact ⟨ihl c' rest' sz hl, hr, fun hh => by simp [put_not_nil] at hh⟩
      · exact ⟨hl, ihr c rest sz hr, ht⟩

theorem delete_tight [Inhabited V] (n : BNode V) (c : UInt8) (rest : Key) (sz : Int) (h : Tight n) :
    Tight (delete n c rest sz).1 := by
  induction n generalizing c rest sz with
  | nil => simp [delete, Tight]
  | node ch val term l r ihl ihr =>
    obtain ⟨hl, hr, ht⟩ := h
    simp only [delete]
    split
    · exact ⟨hl, hr, ht⟩
    · split
      · cases rest with
        | cons c' rest' =>
          simp only
          split
          · exact hr
          · rename_i hc
            refine ⟨ihl c' rest' sz hl, hr, fun hh => ?_⟩
            cases term <;> simp_all
        | nil =>
          simp only
          cases term <;> cases hln : l.isNil <;> simp only [if_true, if_false, Bool.false_eq_true]
          · exact ⟨hl, hr, fun hh => by simp [hln] at hh⟩
          · exact hr
          · exact ⟨hl, hr, fun hh => by simp [hln] at hh⟩
          · exact hr
      · exact ⟨hl, ihr c rest sz hr, ht⟩

/-- on a non-empty tight trie a descending traversal whose visitor stops at the first `term` node stops at its very
first call: what the visitor would do on a non-`term` node is never asked for -/
theorem travDesc_first_term (v1 v2 : σ → Key → V → Bool → σ × Bool)
    (hagree : ∀ s k v, v1 s k v true = v2 s k v true) (hstop : ∀ s k v, (v1 s k v true).2 = false)
    (n : BNode V) (hn : n.isNil = false) (ht : Tight n) (pre : Key) (s : σ) :
    travDesc v1 n pre s = travDesc v2 n pre s ∧ (travDesc v1 n pre s).2 = false := by
  induction n generalizing pre s with
  | nil => simp [isNil] at hn
  | node ch val term l r ihl ihr =>
    obtain ⟨hl, hr, htm⟩ := ht
    simp only [travDesc]
    cases hrn : r.isNil with
    | false =>
      obtain ⟨h1, h2⟩ := ihr hrn hr pre s
      rw [← h1]
      simp [h2]
    | true =>
      have hr0 : r = nil := by cases r <;> simp_all [isNil]
      subst hr0
      simp only [travDesc, Bool.not_true, Bool.false_eq_true, if_false]
      cases hln : l.isNil with
      | false =>
        obtain ⟨h1, h2⟩ := ihl hln hl (pre ++ [ch]) s
        have h2' : (travDesc v2 l (pre ++ [ch]) s).2 = false := h1 ▸ h2
        simp [h1, h2']
      | true =>
        have hl0 : l = nil := by cases l <;> simp_all [isNil]
        subst hl0
        have : term = true := htm rfl
        subst this
        simp only [travDesc, Bool.not_true, Bool.false_eq_true, if_false]
        exact ⟨hagree .., hstop ..⟩

end BNode

namespace Binary

/-- every operation keeps "a node without a left child ends a key" -/
theorem step_tight [Inhabited V] {t t' : Binary V} {o : Out V} (op : Op V) (h : t.root.Tight)
    (hs : t.step op = .ok (t', o)) : t'.root.Tight := by
  have hdel : ∀ k (r : Binary V × Option V), t.delete k = .ok r → r.1.root.Tight := by
    intro k r hr
    cases k with
    | nil => simp [Binary.delete] at hr
    | cons c rest =>
      simp only [Binary.delete, Outcome.ok.injEq] at hr
      subst hr
      exact BNode.delete_tight _ _ _ _ h
  cases op with
  | put k v =>
    cases k with
    | nil => simp [Binary.step, Binary.put, Outcome.map] at hs
    | cons c rest =>
      simp only [Binary.step, Binary.put, Outcome.map, Outcome.ok.injEq, Prod.mk.injEq] at hs
      rw [← hs.1]
      exact BNode.put_tight _ _ _ _ _ h
  | delete k =>
    simp only [Binary.step] at hs
    cases hd : t.delete k with
    | ok r =>
      simp only [hd, Outcome.map, Outcome.ok.injEq, Prod.mk.injEq] at hs
      rw [← hs.1]; exact hdel k r hd
    | panic => simp [hd, Outcome.map] at hs
    | diverge => simp [hd, Outcome.map] at hs
  | deleteMin =>
    simp only [Binary.step, Binary.deleteMin] at hs
    cases hm : t.min with
    | none =>
      simp only [hm, Outcome.map, Outcome.ok.injEq, Prod.mk.injEq] at hs
      rw [← hs.1]; exact h
    | some kv =>
      obtain ⟨k, v⟩ := kv
      simp only [hm] at hs
      cases hd : t.delete k with
      | ok r =>
        obtain ⟨t1, o1⟩ := r
        have := hdel k _ hd
        cases o1 <;> simp only [hd, Outcome.map, Outcome.ok.injEq, Prod.mk.injEq] at hs <;> (rw [← hs.1]; exact this)
      | panic => simp [hd, Outcome.map] at hs
      | diverge => simp [hd, Outcome.map] at hs
  | deleteMax =>
    simp only [Binary.step, Binary.deleteMax] at hs
    cases hm : t.max with
    | none =>
      simp only [hm, Outcome.map, Outcome.ok.injEq, Prod.mk.injEq] at hs
      rw [← hs.1]; exact h
    | some kv =>
      obtain ⟨k, v⟩ := kv
      simp only [hm] at hs
      cases hd : t.delete k with
      | ok r =>
        obtain ⟨t1, o1⟩ := r
        have := hdel k _ hd
        cases o1 <;> simp only [hd, Outcome.map, Outcome.ok.injEq, Prod.mk.injEq] at hs <;> (rw [← hs.1]; exact this)
      | panic => simp [hd, Outcome.map] at hs
      | diverge => simp [hd, Outcome.map] at hs
  | deleteAll =>
    simp only [Binary.step, Outcome.ok.injEq, Prod.mk.injEq] at hs
    rw [← hs.1]; trivial
  | get k =>
    simp only [Binary.step] at hs
    cases hg : t.get k <;> simp only [hg, Outcome.map, Outcome.ok.injEq, Prod.mk.injEq, reduceCtorEq] at hs
    rw [← hs.1]; exact h
  | _ =>
    simp only [Binary.step, Outcome.ok.injEq, Prod.mk.injEq] at hs
    rw [← hs.1]; exact h

end Binary
end AlgoVerif.C06
