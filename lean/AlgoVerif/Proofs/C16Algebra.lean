import AlgoVerif.Proofs.C16Ops
/-!
# C16 helper lemmas, part 4: sets of plain values (`R` is `=`): Add/Remove in membership form, `All`,
IsSubset/IsSuperset, Union/Intersection/Difference with any list of operands of any implementations
-/
namespace AlgoVerif.C16
variable {α : Type} {σ : Type}

/-- all that is assumed of `math/rand`'s `Shuffle`: it returns a permutation of the indices -/
def ShLaw (sh : Shuffle σ) : Prop := ∀ n g, (sh n g).1.Perm (List.range n)

theorem bind_ok_id {β} (x : Outcome β) : (x >>= fun a => Outcome.ok a) = x := by
  cases x <;> rfl

theorem MSet.add_singleton (s : MSet α) (v : α) : s.add [v] = s.add1 v := by
  simp only [MSet.add]
  exact bind_ok_id _

theorem MSet.remove_singleton (s : MSet α) (v : α) : s.remove [v] = s.remove1 v := by
  simp only [MSet.remove]
  exact bind_ok_id _

/-! ### Add / Remove on a set of plain values -/

theorem MSet.add1_spec0 {s : MSet α} (h : WF0 s) (v : α) :
    ∃ s', s.add1 v = .ok s' ∧ WF0 s' ∧ s'.impl = s.impl ∧
      (∀ x, x ∈ s'.members ↔ x = v ∨ x ∈ s.members) ∧
      (v ∈ s.members → s' = s) ∧
      (v ∉ s.members → s'.members.length = s.members.length + 1) ∧
      (v ∉ s.members → s.impl.isSorted = false → s'.members = s.members ++ [v]) := by
  obtain ⟨s', h₁, hw, hi, hcase⟩ := MSet.add1_spec eq_equivalence h (v := v) trivial
  refine ⟨s', h₁, hw, hi, ?_⟩
  rcases hcase with ⟨hm, rfl⟩ | ⟨hn, l₁, l₂, hs, hs', hl⟩
  · have hm' : v ∈ s'.members := by simpa using hm
    refine ⟨fun x => ?_, fun _ => rfl, fun hn => absurd hm' hn, fun hn => absurd hm' hn⟩
    constructor
    · exact fun hx => .inr hx
    · rintro (rfl | hx)
      · exact hm'
      · exact hx
  · have hn' : v ∉ s.members := by simpa using hn
    refine ⟨fun x => ?_, fun hm => absurd hm hn', fun _ => ?_, fun _ hl' => ?_⟩
    · rw [hs, hs']; simp only [List.mem_append, List.mem_cons]
      constructor
      · rintro (h | rfl | h)
        · exact .inr (.inl h)
        · exact .inl rfl
        · exact .inr (.inr h)
      · rintro (rfl | h | h)
        · exact .inr (.inl rfl)
        · exact .inl h
        · exact .inr (.inr h)
    · rw [hs, hs']; simp only [List.length_append, List.length_cons]; omega
    · rw [hs', hs, hl hl']; simp

theorem MSet.remove1_spec0 {s : MSet α} (h : WF0 s) (v : α) :
    ∃ s', s.remove1 v = .ok s' ∧ WF0 s' ∧ s'.impl = s.impl ∧
      (∀ x, x ∈ s'.members ↔ x ∈ s.members ∧ x ≠ v) ∧
      s'.members.Sublist s.members := by
  obtain ⟨s', h₁, hw, hi, hcase⟩ := MSet.remove1_spec eq_equivalence h (v := v) trivial
  refine ⟨s', h₁, hw, hi, ?_⟩
  rcases hcase with ⟨hn, rfl⟩ | ⟨l₁, m, l₂, hs, rfl, hs'⟩
  · have hn' : v ∉ s'.members := by simpa using hn
    refine ⟨fun x => ⟨fun hx => ⟨hx, fun h => hn' (h ▸ hx)⟩, fun hx => hx.1⟩, List.Sublist.refl _⟩
  · have hnd : (l₁ ++ m :: l₂).Nodup := hs ▸ h.nodup
    have hnd' := List.nodup_append.1 hnd
    have hm₁ : m ∉ l₁ := fun hm => hnd'.2.2 m hm m (List.mem_cons_self ..) rfl
    have hm₂ : m ∉ l₂ := (List.nodup_cons.1 hnd'.2.1).1
    refine ⟨fun x => ?_, ?_⟩
    · rw [hs, hs']; simp only [List.mem_append, List.mem_cons]
      constructor
      · rintro (hx | hx)
        · exact ⟨.inl hx, fun h => hm₁ (h ▸ hx)⟩
        · exact ⟨.inr (.inr hx), fun h => hm₂ (h ▸ hx)⟩
      · rintro ⟨hx | rfl | hx, hne⟩
        · exact .inl hx
        · exact absurd rfl hne
        · exact .inr hx
    · rw [hs, hs']
      exact List.Sublist.append (List.Sublist.refl _) (List.sublist_cons_self _ _)

/-- `Add(vals...)`: the result holds the old members and the values -/
theorem MSet.add_spec0 {s : MSet α} (h : WF0 s) (vs : List α) :
    ∃ s', s.add vs = .ok s' ∧ WF0 s' ∧ s'.impl = s.impl ∧
      (∀ x, x ∈ s'.members ↔ x ∈ s.members ∨ x ∈ vs) := by
  induction vs generalizing s with
  | nil => exact ⟨s, rfl, h, rfl, by simp⟩
  | cons v vs ih =>
    obtain ⟨s₁, h₁, hw₁, hi₁, hm₁, _⟩ := MSet.add1_spec0 h v
    obtain ⟨s₂, h₂, hw₂, hi₂, hm₂⟩ := ih hw₁
    refine ⟨s₂, by simp [MSet.add, h₁, h₂], hw₂, hi₂.trans hi₁, fun x => ?_⟩
    rw [hm₂, hm₁]; simp only [List.mem_cons]
    constructor
    · rintro ((rfl | h) | h)
      · exact .inr (.inl rfl)
      · exact .inl h
      · exact .inr (.inr h)
    · rintro (h | rfl | h)
      · exact .inl (.inr h)
      · exact .inl (.inl rfl)
      · exact .inr h

/-- `Remove(vals...)`: the result holds the old members that are not among the values, in their old order -/
theorem MSet.remove_spec0 {s : MSet α} (h : WF0 s) (vs : List α) :
    ∃ s', s.remove vs = .ok s' ∧ WF0 s' ∧ s'.impl = s.impl ∧
      (∀ x, x ∈ s'.members ↔ x ∈ s.members ∧ x ∉ vs) ∧ s'.members.Sublist s.members := by
  induction vs generalizing s with
  | nil => exact ⟨s, rfl, h, rfl, by simp, List.Sublist.refl _⟩
  | cons v vs ih =>
    obtain ⟨s₁, h₁, hw₁, hi₁, hm₁, hsub₁⟩ := MSet.remove1_spec0 h v
    obtain ⟨s₂, h₂, hw₂, hi₂, hm₂, hsub₂⟩ := ih hw₁
    refine ⟨s₂, by simp [MSet.remove, h₁, h₂], hw₂, hi₂.trans hi₁, fun x => ?_, hsub₂.trans hsub₁⟩
    rw [hm₂, hm₁]; simp only [List.mem_cons, not_or]
    constructor
    · rintro ⟨⟨h, hne⟩, hn⟩; exact ⟨h, hne, hn⟩
    · rintro ⟨h, hne, hn⟩; exact ⟨⟨h, hne⟩, hn⟩

/-! ### All -/

theorem pick_eq_filterMap (l : List α) : ∀ idx : List Nat, (∀ i ∈ idx, i < l.length) →
    pick l idx = .ok (idx.filterMap (fun i => l[i]?))
  | [], _ => rfl
  | i :: is, h => by
    have hi : i < l.length := h i (List.mem_cons_self ..)
    have ih := pick_eq_filterMap l is (fun j hj => h j (List.mem_cons_of_mem _ hj))
    simp [pick, List.getElem?_eq_getElem hi, ih]

theorem filterMap_range' : ∀ (l pre : List α),
    (List.range' pre.length l.length).filterMap (fun i => (pre ++ l)[i]?) = l
  | [], _ => by simp
  | a :: l, pre => by
    have ih := filterMap_range' l (pre ++ [a])
    simp only [List.length_append, List.length_cons, List.length_nil, Nat.zero_add, List.append_assoc,
      List.cons_append, List.nil_append] at ih
    simp only [List.length_cons, List.range'_succ, List.filterMap_cons]
    have : (pre ++ a :: l)[pre.length]? = some a := by simp
    rw [this, ih]

theorem filterMap_range (l : List α) : (List.range l.length).filterMap (fun i => l[i]?) = l := by
  have := filterMap_range' l []
  simpa [List.range_eq_range'] using this

/-- ranging over `All()` yields a permutation of the members; for `stable` and `sorted` the members in
their stored order, without touching the random generator -/
theorem MSet.all_spec {sh : Shuffle σ} (hsh : ShLaw sh) (s : MSet α) (g : σ) :
    ∃ ms g', s.all sh g = .ok (ms, g') ∧ ms.Perm s.members ∧
      (s.impl.isUnordered = false → ms = s.members ∧ g' = g) := by
  obtain ⟨impl, members⟩ := s
  cases impl with
  | unordered equal =>
    have hp := hsh members.length g
    have hlt : ∀ i ∈ (sh members.length g).1, i < members.length := by
      intro i hi
      exact List.mem_range.1 (hp.subset hi)
    refine ⟨(sh members.length g).1.filterMap (fun i => members[i]?), (sh members.length g).2, ?_, ?_, by simp [Impl.isUnordered]⟩
    · simp only [MSet.all]
      rw [pick_eq_filterMap members _ hlt]
      rfl
    · have := hp.filterMap (fun i => members[i]?)
      rw [filterMap_range] at this
      exact this
  | stable equal => exact ⟨members, g, rfl, List.Perm.refl _, fun _ => ⟨rfl, rfl⟩⟩
  | sorted compare => exact ⟨members, g, rfl, List.Perm.refl _, fun _ => ⟨rfl, rfl⟩⟩

/-! ### IsSubset / IsSuperset / Equal -/

theorem containsEach_spec0 {rhs : MSet α} (h : WF0 rhs) (ms : List α) :
    ∃ r, containsEach rhs ms = .ok r ∧ (r = true ↔ ∀ x ∈ ms, x ∈ rhs.members) := by
  obtain ⟨r, hr, hiff⟩ := containsEach_spec eq_equivalence h ms (fun _ _ => trivial)
  exact ⟨r, hr, by simpa [SubR] using hiff⟩

theorem MSet.isSubset_spec0 {sh : Shuffle σ} (hsh : ShLaw sh) {s t : MSet α} (ht : WF0 t) (g : σ) :
    ∃ r g', s.isSubset sh t g = .ok (r, g') ∧ (r = true ↔ ∀ x ∈ s.members, x ∈ t.members) := by
  obtain ⟨ms, g', ha, hp, _⟩ := MSet.all_spec hsh s g
  obtain ⟨r, hr, hiff⟩ := containsEach_spec0 ht ms
  refine ⟨r, g', by simp [MSet.isSubset, ha, hr], ?_⟩
  rw [hiff]
  exact ⟨fun h x hx => h x (hp.symm.subset hx), fun h x hx => h x (hp.subset hx)⟩

theorem MSet.isSuperset_spec0 {sh : Shuffle σ} (hsh : ShLaw sh) {s t : MSet α} (hs : WF0 s) (g : σ) :
    ∃ r g', s.isSuperset sh t g = .ok (r, g') ∧ (r = true ↔ ∀ x ∈ t.members, x ∈ s.members) := by
  obtain ⟨ms, g', ha, hp, _⟩ := MSet.all_spec hsh t g
  obtain ⟨r, hr, hiff⟩ := containsEach_spec0 hs ms
  refine ⟨r, g', by simp [MSet.isSuperset, ha, hr], ?_⟩
  rw [hiff]
  exact ⟨fun h x hx => h x (hp.symm.subset hx), fun h x hx => h x (hp.subset hx)⟩

theorem MSet.equal_spec0 {s t : MSet α} (hs : WF0 s) (ht : WF0 t) :
    ∃ r, s.equal t = .ok r ∧ (r = true ↔ ∀ x, x ∈ s.members ↔ x ∈ t.members) := by
  obtain ⟨r, hr, hiff⟩ := MSet.equal_spec eq_equivalence hs ht
  refine ⟨r, hr, ?_⟩
  rw [hiff]
  simp only [SameR, SubR, memR_eq]
  exact ⟨fun h x => ⟨h.1 x, h.2 x⟩, fun h => ⟨fun x => (h x).1, fun x => (h x).2⟩⟩

/-! ### Union -/

theorem addEach_spec0 {t : MSet α} (h : WF0 t) (ms : List α) :
    ∃ t', addEach t ms = .ok t' ∧ WF0 t' ∧ t'.impl = t.impl ∧
      (∀ x, x ∈ t'.members ↔ x ∈ t.members ∨ x ∈ ms) ∧
      (t.impl.isSorted = false → t.members <+: t'.members) := by
  induction ms generalizing t with
  | nil => exact ⟨t, rfl, h, rfl, by simp, fun _ => List.prefix_refl _⟩
  | cons m ms ih =>
    obtain ⟨t₁, h₁, hw₁, hi₁, hm₁, hsame, _, happ⟩ := MSet.add1_spec0 h m
    obtain ⟨t₂, h₂, hw₂, hi₂, hm₂, hpre₂⟩ := ih hw₁
    refine ⟨t₂, by simp [addEach, MSet.add_singleton, h₁, h₂], hw₂, hi₂.trans hi₁, fun x => ?_, fun hl => ?_⟩
    · rw [hm₂, hm₁]; simp only [List.mem_cons]
      constructor
      · rintro ((rfl | h) | h)
        · exact .inr (.inl rfl)
        · exact .inl h
        · exact .inr (.inr h)
      · rintro (h | rfl | h)
        · exact .inl (.inr h)
        · exact .inl (.inl rfl)
        · exact .inr h
    · have hpre₁ : t.members <+: t₁.members := by
        by_cases hmem : m ∈ t.members
        · rw [hsame hmem]; exact List.prefix_refl _
        · rw [happ hmem hl]; exact List.prefix_append _ _
      exact hpre₁.trans (hpre₂ (by rw [hi₁]; exact hl))

theorem unionLoop_spec0 {sh : Shuffle σ} (hsh : ShLaw sh) {t : MSet α} (h : WF0 t) (sets : List (MSet α)) (g : σ) :
    ∃ t' g', unionLoop sh t sets g = .ok (t', g') ∧ WF0 t' ∧ t'.impl = t.impl ∧
      (∀ x, x ∈ t'.members ↔ x ∈ t.members ∨ ∃ u ∈ sets, x ∈ u.members) ∧
      (t.impl.isSorted = false → t.members <+: t'.members) := by
  induction sets generalizing t g with
  | nil => exact ⟨t, g, rfl, h, rfl, by simp, fun _ => List.prefix_refl _⟩
  | cons u sets ih =>
    obtain ⟨ms, g₁, ha, hp, _⟩ := MSet.all_spec hsh u g
    obtain ⟨t₁, h₁, hw₁, hi₁, hm₁, hpre₁⟩ := addEach_spec0 h ms
    obtain ⟨t₂, g₂, h₂, hw₂, hi₂, hm₂, hpre₂⟩ := ih hw₁ g₁
    refine ⟨t₂, g₂, by simp [unionLoop, ha, h₁, h₂], hw₂, hi₂.trans hi₁, fun x => ?_, fun hl => ?_⟩
    · rw [hm₂, hm₁]; simp only [List.mem_cons, exists_eq_or_imp]
      have : x ∈ ms ↔ x ∈ u.members := ⟨fun h => hp.subset h, fun h => hp.symm.subset h⟩
      rw [this]
      constructor
      · rintro ((h | h) | h)
        · exact .inl h
        · exact .inr (.inl h)
        · exact .inr (.inr h)
      · rintro (h | h | h)
        · exact .inl (.inl h)
        · exact .inl (.inr h)
        · exact .inr h
    · exact (hpre₁ hl).trans (hpre₂ (by rw [hi₁]; exact hl))

/-- `Union`: of the receiver's implementation; holds exactly the members of the receiver and of all
operands; for `set`/`stable` receivers the receiver's members come first, in their order -/
theorem MSet.union_spec0 {sh : Shuffle σ} (hsh : ShLaw sh) {s : MSet α} (h : WF0 s) (sets : List (MSet α)) (g : σ) :
    ∃ t g', s.union sh sets g = .ok (t, g') ∧ WF0 t ∧ t.impl = s.impl ∧
      (∀ x, x ∈ t.members ↔ x ∈ s.members ∨ ∃ u ∈ sets, x ∈ u.members) ∧
      (s.impl.isSorted = false → s.members <+: t.members) :=
  unionLoop_spec0 hsh (t := s.clone) h sets g

/-! ### Intersection -/

theorem allContain_spec0 (m : α) : ∀ sets : List (MSet α), (∀ u ∈ sets, WF0 u) →
    ∃ r, allContain m sets = .ok r ∧ (r = true ↔ ∀ u ∈ sets, m ∈ u.members)
  | [], _ => ⟨true, rfl, by simp⟩
  | u :: sets, hw => by
    obtain ⟨r₁, hr₁, hiff₁⟩ := MSet.contains1_spec eq_equivalence (hw u (List.mem_cons_self ..)) (v := m) trivial
    obtain ⟨r₂, hr₂, hiff₂⟩ := allContain_spec0 m sets (fun w hw' => hw w (List.mem_cons_of_mem _ hw'))
    rw [memR_eq] at hiff₁
    cases r₁ with
    | false =>
      refine ⟨false, by simp [allContain, hr₁], ?_⟩
      simp only [Bool.false_eq_true, false_iff]
      intro hall
      have := hiff₁.2 (hall u (List.mem_cons_self ..))
      simp at this
    | true =>
      refine ⟨r₂, by simp [allContain, hr₁, hr₂], ?_⟩
      rw [hiff₂]
      simp only [List.mem_cons, forall_eq_or_imp]
      exact ⟨fun h => ⟨hiff₁.1 rfl, h⟩, fun h => h.2⟩

theorem interLoop_spec0 {sets : List (MSet α)} (hsets : ∀ u ∈ sets, WF0 u) {t : MSet α} (h : WF0 t)
    (ms : List α) (hnd : ms.Nodup) (hdisj : ∀ m ∈ ms, m ∉ t.members) :
    ∃ t', interLoop sets t ms = .ok t' ∧ WF0 t' ∧ t'.impl = t.impl ∧
      (∀ x, x ∈ t'.members ↔ x ∈ t.members ∨ (x ∈ ms ∧ ∀ u ∈ sets, x ∈ u.members)) ∧
      (t.impl.isSorted = false → ∃ ms', t'.members = t.members ++ ms' ∧ ms'.Sublist ms) := by
  induction ms generalizing t with
  | nil => exact ⟨t, rfl, h, rfl, by simp, fun _ => ⟨[], by simp, List.Sublist.refl _⟩⟩
  | cons m ms ih =>
    obtain ⟨r, hr, hiff⟩ := allContain_spec0 m sets hsets
    have hnd' := List.nodup_cons.1 hnd
    cases r with
    | false =>
      obtain ⟨t', h', hw', hi', hm', hsub'⟩ := ih h hnd'.2 (fun x hx => hdisj x (List.mem_cons_of_mem _ hx))
      refine ⟨t', by simp [interLoop, hr, h'], hw', hi', fun x => ?_, fun hl => ?_⟩
      · rw [hm']; simp only [List.mem_cons]
        constructor
        · rintro (h | ⟨h, hall⟩)
          · exact .inl h
          · exact .inr ⟨.inr h, hall⟩
        · rintro (h | ⟨rfl | h, hall⟩)
          · exact .inl h
          · have := hiff.2 hall; simp at this
          · exact .inr ⟨h, hall⟩
      · obtain ⟨ms', he, hs⟩ := hsub' hl
        exact ⟨ms', he, hs.cons _⟩
    | true =>
      have hall := hiff.1 rfl
      have hmt : m ∉ t.members := hdisj m (List.mem_cons_self ..)
      obtain ⟨t₁, h₁, hw₁, hi₁, hm₁, _, _, happ⟩ := MSet.add1_spec0 h m
      obtain ⟨t', h', hw', hi', hm', hsub'⟩ := ih hw₁ hnd'.2 (by
        intro x hx
        rw [hm₁]
        rintro (rfl | hxt)
        · exact hnd'.1 hx
        · exact hdisj x (List.mem_cons_of_mem _ hx) hxt)
      refine ⟨t', by simp [interLoop, hr, MSet.add_singleton, h₁, h'], hw', hi'.trans hi₁, fun x => ?_, fun hl => ?_⟩
      · rw [hm', hm₁]; simp only [List.mem_cons]
        constructor
        · rintro ((rfl | h) | ⟨h, hall'⟩)
          · exact .inr ⟨.inl rfl, hall⟩
          · exact .inl h
          · exact .inr ⟨.inr h, hall'⟩
        · rintro (h | ⟨rfl | h, hall'⟩)
          · exact .inl (.inr h)
          · exact .inl (.inl rfl)
          · exact .inr ⟨h, hall'⟩
      · obtain ⟨ms', he, hs⟩ := hsub' (by rw [hi₁]; exact hl)
        refine ⟨m :: ms', ?_, hs.cons_cons _⟩
        rw [he, happ hmt hl]; simp

/-- `Intersection`: of the receiver's implementation; the receiver's members that every operand
contains; for `set`/`stable` receivers in the receiver's order -/
theorem MSet.intersection_spec0 {s : MSet α} (h : WF0 s) (sets : List (MSet α)) (hsets : ∀ u ∈ sets, WF0 u) :
    ∃ t, s.intersection sets = .ok t ∧ WF0 t ∧ t.impl = s.impl ∧
      (∀ x, x ∈ t.members ↔ x ∈ s.members ∧ ∀ u ∈ sets, x ∈ u.members) ∧
      (s.impl.isSorted = false → t.members.Sublist s.members) := by
  have hempty : WF0 s.cloneEmpty :=
    ⟨by simp [MSet.cloneEmpty], by simp [MSet.cloneEmpty], h.law, fun c hc => by simp [MSet.cloneEmpty, SortedBy]⟩
  obtain ⟨t, h₁, hw, hi, hm, hsub⟩ := interLoop_spec0 hsets hempty s.members h.nodup (by simp [MSet.cloneEmpty])
  refine ⟨t, h₁, hw, hi, fun x => ?_, fun hl => ?_⟩
  · rw [hm]; simp [MSet.cloneEmpty]
  · obtain ⟨ms', he, hs⟩ := hsub hl
    rw [he]; simpa [MSet.cloneEmpty] using hs

/-! ### Difference -/

theorem removeEach_spec0 {t : MSet α} (h : WF0 t) (ms : List α) :
    ∃ t', removeEach t ms = .ok t' ∧ WF0 t' ∧ t'.impl = t.impl ∧
      (∀ x, x ∈ t'.members ↔ x ∈ t.members ∧ x ∉ ms) ∧ t'.members.Sublist t.members := by
  induction ms generalizing t with
  | nil => exact ⟨t, rfl, h, rfl, by simp, List.Sublist.refl _⟩
  | cons m ms ih =>
    obtain ⟨t₁, h₁, hw₁, hi₁, hm₁, hsub₁⟩ := MSet.remove1_spec0 h m
    obtain ⟨t₂, h₂, hw₂, hi₂, hm₂, hsub₂⟩ := ih hw₁
    refine ⟨t₂, by simp [removeEach, MSet.remove_singleton, h₁, h₂], hw₂, hi₂.trans hi₁, fun x => ?_, hsub₂.trans hsub₁⟩
    rw [hm₂, hm₁]; simp only [List.mem_cons, not_or]
    constructor
    · rintro ⟨⟨h, hne⟩, hn⟩; exact ⟨h, hne, hn⟩
    · rintro ⟨h, hne, hn⟩; exact ⟨⟨h, hne⟩, hn⟩

theorem diffLoop_spec0 {sh : Shuffle σ} (hsh : ShLaw sh) {t : MSet α} (h : WF0 t) (sets : List (MSet α)) (g : σ) :
    ∃ t' g', diffLoop sh t sets g = .ok (t', g') ∧ WF0 t' ∧ t'.impl = t.impl ∧
      (∀ x, x ∈ t'.members ↔ x ∈ t.members ∧ ∀ u ∈ sets, x ∉ u.members) ∧ t'.members.Sublist t.members := by
  induction sets generalizing t g with
  | nil => exact ⟨t, g, rfl, h, rfl, by simp, List.Sublist.refl _⟩
  | cons u sets ih =>
    obtain ⟨ms, g₁, ha, hp, _⟩ := MSet.all_spec hsh u g
    obtain ⟨t₁, h₁, hw₁, hi₁, hm₁, hsub₁⟩ := removeEach_spec0 h ms
    obtain ⟨t₂, g₂, h₂, hw₂, hi₂, hm₂, hsub₂⟩ := ih hw₁ g₁
    refine ⟨t₂, g₂, by simp [diffLoop, ha, h₁, h₂], hw₂, hi₂.trans hi₁, fun x => ?_, hsub₂.trans hsub₁⟩
    rw [hm₂, hm₁]; simp only [List.mem_cons, forall_eq_or_imp]
    have : x ∈ ms ↔ x ∈ u.members := ⟨fun h => hp.subset h, fun h => hp.symm.subset h⟩
    rw [this]
    constructor
    · rintro ⟨⟨h, hn⟩, hall⟩; exact ⟨h, hn, hall⟩
    · rintro ⟨h, hn, hall⟩; exact ⟨⟨h, hn⟩, hall⟩

/-- `Difference`: of the receiver's implementation; the receiver's members that no operand contains, in
the receiver's order -/
theorem MSet.difference_spec0 {sh : Shuffle σ} (hsh : ShLaw sh) {s : MSet α} (h : WF0 s) (sets : List (MSet α)) (g : σ) :
    ∃ t g', s.difference sh sets g = .ok (t, g') ∧ WF0 t ∧ t.impl = s.impl ∧
      (∀ x, x ∈ t.members ↔ x ∈ s.members ∧ ∀ u ∈ sets, x ∉ u.members) ∧ t.members.Sublist s.members :=
  diffLoop_spec0 hsh (t := s.clone) h sets g

/-! ### SelectMatch / PartitionMatch -/

theorem partitionLoop_spec0 (p : α → Bool) {t u : MSet α} (ht : WF0 t) (hu : WF0 u)
    (ms : List α) (hnd : ms.Nodup) (hdt : ∀ m ∈ ms, m ∉ t.members) (hdu : ∀ m ∈ ms, m ∉ u.members) :
    ∃ t' u', partitionLoop p t u ms = .ok (t', u') ∧ WF0 t' ∧ WF0 u' ∧ t'.impl = t.impl ∧ u'.impl = u.impl ∧
      (∀ x, x ∈ t'.members ↔ x ∈ t.members ∨ (x ∈ ms ∧ p x = true)) ∧
      (∀ x, x ∈ u'.members ↔ x ∈ u.members ∨ (x ∈ ms ∧ p x = false)) ∧
      (t.impl.isSorted = false → ∃ ms', t'.members = t.members ++ ms' ∧ ms'.Sublist ms) ∧
      (u.impl.isSorted = false → ∃ ms', u'.members = u.members ++ ms' ∧ ms'.Sublist ms) := by
  induction ms generalizing t u with
  | nil =>
    exact ⟨t, u, rfl, ht, hu, rfl, rfl, by simp, by simp, fun _ => ⟨[], by simp, List.Sublist.refl _⟩,
      fun _ => ⟨[], by simp, List.Sublist.refl _⟩⟩
  | cons m ms ih =>
    have hnd' := List.nodup_cons.1 hnd
    cases hp : p m with
    | true =>
      have hmt : m ∉ t.members := hdt m (List.mem_cons_self ..)
      obtain ⟨t₁, h₁, hw₁, hi₁, hm₁, _, _, happ⟩ := MSet.add1_spec0 ht m
      obtain ⟨t', u', h', hwt', hwu', hit', hiu', hmt', hmu', hst', hsu'⟩ := ih hw₁ hu hnd'.2 (by
        intro x hx
        rw [hm₁]
        rintro (rfl | hxt)
        · exact hnd'.1 hx
        · exact hdt x (List.mem_cons_of_mem _ hx) hxt) (fun x hx => hdu x (List.mem_cons_of_mem _ hx))
      refine ⟨t', u', by simp [partitionLoop, hp, MSet.add_singleton, h₁, h'], hwt', hwu', hit'.trans hi₁, hiu',
        fun x => ?_, fun x => ?_, fun hl => ?_, fun hl => ?_⟩
      · rw [hmt', hm₁]; simp only [List.mem_cons]
        constructor
        · rintro ((rfl | h) | ⟨h, hpx⟩)
          · exact .inr ⟨.inl rfl, hp⟩
          · exact .inl h
          · exact .inr ⟨.inr h, hpx⟩
        · rintro (h | ⟨rfl | h, hpx⟩)
          · exact .inl (.inr h)
          · exact .inl (.inl rfl)
          · exact .inr ⟨h, hpx⟩
      · rw [hmu']; simp only [List.mem_cons]
        constructor
        · rintro (h | ⟨h, hpx⟩)
          · exact .inl h
          · exact .inr ⟨.inr h, hpx⟩
        · rintro (h | ⟨rfl | h, hpx⟩)
          · exact .inl h
          · rw [hp] at hpx; cases hpx
          · exact .inr ⟨h, hpx⟩
      · obtain ⟨ms', he, hs⟩ := hst' (by rw [hi₁]; exact hl)
        refine ⟨m :: ms', ?_, hs.cons_cons _⟩
        rw [he, happ hmt hl]; simp
      · obtain ⟨ms', he, hs⟩ := hsu' hl
        exact ⟨ms', he, hs.cons _⟩
    | false =>
      have hmu : m ∉ u.members := hdu m (List.mem_cons_self ..)
      obtain ⟨u₁, h₁, hw₁, hi₁, hm₁, _, _, happ⟩ := MSet.add1_spec0 hu m
      obtain ⟨t', u', h', hwt', hwu', hit', hiu', hmt', hmu', hst', hsu'⟩ := ih ht hw₁ hnd'.2
        (fun x hx => hdt x (List.mem_cons_of_mem _ hx)) (by
        intro x hx
        rw [hm₁]
        rintro (rfl | hxt)
        · exact hnd'.1 hx
        · exact hdu x (List.mem_cons_of_mem _ hx) hxt)
      refine ⟨t', u', by simp [partitionLoop, hp, MSet.add_singleton, h₁, h'], hwt', hwu', hit', hiu'.trans hi₁,
        fun x => ?_, fun x => ?_, fun hl => ?_, fun hl => ?_⟩
      · rw [hmt']; simp only [List.mem_cons]
        constructor
        · rintro (h | ⟨h, hpx⟩)
          · exact .inl h
          · exact .inr ⟨.inr h, hpx⟩
        · rintro (h | ⟨rfl | h, hpx⟩)
          · exact .inl h
          · rw [hp] at hpx; cases hpx
          · exact .inr ⟨h, hpx⟩
      · rw [hmu', hm₁]; simp only [List.mem_cons]
        constructor
        · rintro ((rfl | h) | ⟨h, hpx⟩)
          · exact .inr ⟨.inl rfl, hp⟩
          · exact .inl h
          · exact .inr ⟨.inr h, hpx⟩
        · rintro (h | ⟨rfl | h, hpx⟩)
          · exact .inl (.inr h)
          · exact .inl (.inl rfl)
          · exact .inr ⟨h, hpx⟩
      · obtain ⟨ms', he, hs⟩ := hst' hl
        exact ⟨ms', he, hs.cons _⟩
      · obtain ⟨ms', he, hs⟩ := hsu' (by rw [hi₁]; exact hl)
        refine ⟨m :: ms', ?_, hs.cons_cons _⟩
        rw [he, happ hmu hl]; simp

/-- `SelectMatch` is the first component of the `PartitionMatch` loop -/
theorem selectLoop_eq (p : α → Bool) : ∀ (ms : List α) (t u : MSet α) (t' u' : MSet α),
    partitionLoop p t u ms = .ok (t', u') → selectLoop p t ms = .ok t'
  | [], t, u, t', u', h => by cases h; rfl
  | m :: ms, t, u, t', u', h => by
    simp only [partitionLoop] at h
    cases hp : p m with
    | true =>
      simp only [hp, ↓reduceIte] at h
      cases h₁ : t.add [m] with
      | ok t₁ =>
        simp only [h₁, ok_bind] at h
        simp [selectLoop, hp, h₁, selectLoop_eq p ms t₁ u t' u' h]
      | panic => simp [h₁] at h
      | diverge => simp [h₁] at h
    | false =>
      simp only [hp, Bool.false_eq_true, ↓reduceIte] at h
      cases h₁ : u.add [m] with
      | ok u₁ =>
        simp only [h₁, ok_bind] at h
        simp [selectLoop, hp, selectLoop_eq p ms t u₁ t' u' h]
      | panic => simp [h₁] at h
      | diverge => simp [h₁] at h

theorem wf0_cloneEmpty' {s : MSet α} (h : WF0 s) : WF0 s.cloneEmpty :=
  ⟨by simp [MSet.cloneEmpty], by simp [MSet.cloneEmpty], h.law, fun c _ => by simp [MSet.cloneEmpty, SortedBy]⟩

/-- `PartitionMatch`: two valid sets of the receiver's implementation, the members satisfying / not
satisfying the predicate, for `set`/`stable` in the receiver's order; `SelectMatch` returns the first -/
theorem MSet.partitionMatch_spec0 {s : MSet α} (h : WF0 s) (p : α → Bool) :
    ∃ t u, s.partitionMatch p = .ok (t, u) ∧ s.selectMatch p = .ok t ∧ WF0 t ∧ WF0 u ∧
      t.impl = s.impl ∧ u.impl = s.impl ∧
      (∀ x, x ∈ t.members ↔ x ∈ s.members ∧ p x = true) ∧
      (∀ x, x ∈ u.members ↔ x ∈ s.members ∧ p x = false) ∧
      (s.impl.isSorted = false → t.members.Sublist s.members ∧ u.members.Sublist s.members) := by
  obtain ⟨t, u, h₁, hwt, hwu, hit, hiu, hmt, hmu, hst, hsu⟩ :=
    partitionLoop_spec0 p (wf0_cloneEmpty' h) (wf0_cloneEmpty' h) s.members h.nodup
      (by simp [MSet.cloneEmpty]) (by simp [MSet.cloneEmpty])
  refine ⟨t, u, h₁, selectLoop_eq p _ _ _ _ _ h₁, hwt, hwu, hit, hiu, ?_, ?_, fun hl => ⟨?_, ?_⟩⟩
  · intro x; rw [hmt]; simp [MSet.cloneEmpty]
  · intro x; rw [hmu]; simp [MSet.cloneEmpty]
  · obtain ⟨ms', he, hs⟩ := hst hl
    rw [he]; simpa [MSet.cloneEmpty] using hs
  · obtain ⟨ms', he, hs⟩ := hsu hl
    rw [he]; simpa [MSet.cloneEmpty] using hs

end AlgoVerif.C16
