import AlgoVerif.Proofs.C11TermMain
import AlgoVerif.Proofs.C11LalrComplete
import AlgoVerif.Proofs.C11ChainMain
/-!
# C11 — termination of the driver, part 4: the conflict-free tables BUILT by the canonical LR(1) and LALR(1) constructions
satisfy `TermHyp`, hence the driver halts on every input

What is added to the two validators: the item sets of the built tables are closures of kernels (`td_of_closure`), items
are dotted productions of `G′`, every body has a forest (productivity), and states are numbered below `nstates`.
-/
namespace AlgoVerif.C11.Term
open AlgoVerif AlgoVerif.Gram AlgoVerif.C11 AlgoVerif.C11.Spec AlgoVerif.C11.Built AlgoVerif.C11.BuiltComplete
  AlgoVerif.C11.Complete AlgoVerif.C11.Sound AlgoVerif.C11.Lalr

/-- every string of terminals and productive non-terminals has a forest -/
theorem forest_exists {g : SGrammar} (hprod : Productive g) : ∀ (β : List Sy),
    (∀ B, Sym.nonterm B ∈ β → B ∈ g.nonterms) → ∃ ks, derivesL g ks β
  | [], _ => ⟨[], by simp [derivesL]⟩
  | .term t :: rest, h => by
    obtain ⟨ks, hks⟩ := forest_exists hprod rest (fun B hB => h B (List.mem_cons_of_mem _ hB))
    exact ⟨Tree.leaf t :: ks, by simp only [derivesL]; exact ⟨_, _, rfl, by simp [derivesT], hks⟩⟩
  | .nonterm B :: rest, h => by
    obtain ⟨ks, hks⟩ := forest_exists hprod rest (fun B' hB' => h B' (List.mem_cons_of_mem _ hB'))
    obtain ⟨w, hw⟩ := hprod B (h B (by simp))
    have h0 : HasForest g w (w.map Sym.term) := ⟨_, (derivesL_terms g w).1, (derivesL_terms g w).2⟩
    obtain ⟨k0, hk0, _⟩ := hasForest_of_derives hw h0
    exact ⟨k0 ++ ks, derivesL_append hk0 hks⟩

/-- the items of a closure of kernel items have the top-down structure -/
theorem td_of_closure {g' : SGrammar} {nl : List String} {fe : Env} {fuel : Nat} {J I : List Item} {start' : String}
    {items : Int → List Item} {s : Int} (hc : closure g' nl fe fuel J = Outcome.ok I)
    (hJ : ∀ x ∈ J, 0 < x.dot ∨ x.prod.head = start') (hitems : ∀ x, x ∈ items s ↔ x ∈ I) :
    ∀ x ∈ I, TD items start' s x := by
  obtain ⟨hcl, hsub, _⟩ := closure_fix g' nl fe fuel J I hc
  intro x hx
  have hclo := (mem_closure_iff hc x).mp hx
  induction hclo with
  | base hs => exact TD.kernel ((hitems _).mpr (hsub _ hs)) (hJ _ hs)
  | @step i j hi hj ih =>
    have hiI : i ∈ I := (mem_closure_iff hc i).mpr hi
    have hjI : j ∈ I := hcl i hiI j hj
    obtain ⟨B, p, hd, hp, hcase⟩ := mem_closureCands.mp hj
    have hph : p.head = B := (mem_prodsOf.mp hp).2
    have hjp : j.prod = p ∧ j.dot = 0 := by
      rcases hcase with ⟨_, rfl⟩ | ⟨_, _, _, _, rfl⟩ <;> exact ⟨rfl, rfl⟩
    exact TD.clo (ih hiI) (by rw [hjp.1, hph]; exact hd) ((hitems _).mpr hjI) hjp.2

theorem itemsAt_bound (S : StateMap) (s : Int) (h : itemsAt S s ≠ []) : ∃ n : Nat, s = (n : Int) ∧ n < S.length := by
  unfold itemsAt at h
  by_cases hs : s < 0
  · simp [hs] at h
  · simp only [hs, if_false] at h
    refine ⟨s.toNat, by omega, ?_⟩
    rcases Nat.lt_or_ge s.toNat S.length with hlt | hge
    · exact hlt
    · simp [List.getD, List.getElem?_eq_none hge] at h

theorem itemsAt_mem_iff {S : StateMap} {i : Nat} {I : List Item} (hI : S[i]? = some I) (x : Item) :
    x ∈ itemsAt S (i : Int) ↔ x ∈ I := by rw [itemsAt_of_get hI]

section
variable {g g' : SGrammar} (hv : ValidG g) (ht : TermsListed g) (ha : augment g = Outcome.ok g')
  (hprod : Productive g)
include hv ha hprod

omit ht in
/-- every suffix of the body of a production of `G′` has a forest in `G` -/
theorem body_forest {p : Pr} (hp : p ∈ g'.prods) (n : Nat) : ∃ ks, derivesL g ks (p.body.drop n) := by
  have h := augOK_of_augment hv ha
  apply forest_exists hprod
  intro B hB
  have hB' := List.mem_of_mem_drop hB
  rcases (mem_prods' h).mp hp with h1 | h1
  · exact h.bodies _ h1 B hB'
  · rw [h1] at hB'
    simp only [startProd, List.mem_singleton, Sym.nonterm.injEq] at hB'
    exact hB' ▸ h.startIn

omit ht hprod in
theorem prods_cases {p : Pr} (hp : p ∈ g'.prods) :
    p ∈ g.prods ∨ p = { head := g'.start, body := [Sym.nonterm g.start] } :=
  (mem_prods' (augOK_of_augment hv ha)).mp hp

end

/-! ## canonical LR(1) -/

/-- every set of the complete-item-set collection is the closure of a set of kernel items -/
theorem canonical_kernels {A : Auto} (hAk : A.kernel = false) {C : List (List Item)} (hc : A.canonical = Outcome.ok C)
    (hinit : A.initialItem.prod.head = A.g.start) :
    ∀ I ∈ C, ∃ J, closure A.g A.nl A.fe A.fuel J = Outcome.ok I ∧ ∀ x ∈ J, 0 < x.dot ∨ x.prod.head = A.g.start := by
  unfold Auto.canonical at hc
  obtain ⟨I0, hI0, hrest⟩ := bind_eq_ok hc
  simp only [hAk, Bool.false_eq_true, if_false] at hI0
  refine canonicalLoop_all (fun I => ∃ J, closure A.g A.nl A.fe A.fuel J = Outcome.ok I ∧
    ∀ x ∈ J, 0 < x.dot ∨ x.prod.head = A.g.start) ?hgo _ _ _ ?hC hrest
  case hC =>
    intro I hI
    simp only [List.mem_singleton] at hI
    subst hI
    exact ⟨[A.initialItem], hI0, by intro x hx; simp only [List.mem_singleton] at hx; subst hx; exact Or.inr hinit⟩
  case hgo =>
    intro I J X _ hg
    rw [goto_eq hAk] at hg
    refine ⟨advance I X, hg, ?_⟩
    intro x hx
    obtain ⟨i0, _, _, rfl⟩ := mem_advance.mp hx
    left; simp [Item.next]

/-- the driver halts on every input on a conflict-free table built by the canonical LR(1) construction -/
theorem terminates_lr1 (g : SGrammar) (hv : ValidG g) (ht : TermsListed g) (hprod : Productive g) (fuel : Nat)
    (b : Built) (hb : buildLR1 g fuel = Outcome.ok b) (hcf : chkConflictFree b.table = true) (w : List String)
    (hw : endmarker ∉ w) : ∃ fuel' r, parse b.table.toTbl fuel' w = Outcome.ok r := by
  obtain ⟨g0, nl, fe, hC, ha0⟩ := completeTable_of_check g b (built_complete_lr1 g hv ht fuel b hb hcf)
  have hS := soundTable_of_within g b b.table (soundOK_buildLR1 hv hb) (within_refl _)
  unfold buildLR1 at hb
  obtain ⟨g', hg', hb1⟩ := bind_eq_ok hb
  obtain ⟨C, hCc, hb2⟩ := bind_eq_ok hb1
  obtain ⟨T, hT, hb3⟩ := bind_eq_ok hb2
  have hbeq := pure_eq_ok hb3
  subst hbeq
  have h := augOK_of_augment hv hg'
  have hinitEq := initialItem_eq h (A := mkAuto g' true false fuel) rfl
  have hgood := states_good hv hg' (A := mkAuto g' true false fuel) rfl rfl hCc
  have hkern := canonical_kernels (A := mkAuto g' true false fuel) rfl hCc (by rw [hinitEq]; rfl)
  have hstate : ∀ s it, it ∈ itemsAt (buildStateMap g'.start C) s →
      ∃ (i : Nat) (I : List Item), s = (i : Int) ∧ (buildStateMap g'.start C)[i]? = some I ∧ it ∈ I := by
    intro s it hit
    obtain ⟨n, I, hs, hI, heq⟩ := itemsAt_get hit
    exact ⟨n, I, hs, hI, heq ▸ hit⟩
  apply terminates (g := g) (start' := g'.start) (nl := nl) (fe := fe) (items := itemsAt (buildStateMap g'.start C))
    ⟨hC, hS, ?_, ?_, ?_, ?_⟩ w hw
  · -- top-down structure
    intro s it hit
    obtain ⟨i, I, rfl, hI, hitI⟩ := hstate s it hit
    obtain ⟨I', hI', rfl⟩ := mem_buildStateMap.mp (List.mem_of_getElem? hI)
    obtain ⟨J, hJ, hJk⟩ := hkern I' hI'
    exact td_of_closure hJ hJk (fun x => by rw [itemsAt_mem_iff hI, mem_sortBy]) it ((mem_sortBy _ _ _).mp hitI)
  · intro s it hit
    obtain ⟨i, I, rfl, hI, hitI⟩ := hstate s it hit
    exact prods_cases hv hg' (hgood i I hI it hitI).1
  · intro s it hit n
    obtain ⟨i, I, rfl, hI, hitI⟩ := hstate s it hit
    exact body_forest hv hg' hprod (hgood i I hI it hitI).1 n
  · exact ⟨_, fun s hne => itemsAt_bound _ s hne⟩

/-! ## LALR(1) -/

/-- the LR(0) kernel sets consist of kernel items -/
theorem kernel0_kernels {g' : SGrammar} {fuel : Nat} {K0 : List (List Item)}
    (hK0 : (mkAuto g' false true fuel).canonical = Outcome.ok K0)
    (hinit : (mkAuto g' false true fuel).initialItem.prod.head = g'.start) :
    ∀ I ∈ K0, ∀ x ∈ I, 0 < x.dot ∨ x.prod.head = g'.start := by
  unfold Auto.canonical at hK0
  obtain ⟨I0, hI0, hrest⟩ := bind_eq_ok hK0
  have hI0' : I0 = [(mkAuto g' false true fuel).initialItem] := by simpa [mkAuto] using hI0.symm
  refine canonicalLoop_all (fun I => ∀ x ∈ I, 0 < x.dot ∨ x.prod.head = g'.start) ?hgo _ _ _ ?hC hrest
  case hC =>
    intro I hI
    simp only [List.mem_singleton] at hI
    subst hI
    rw [hI0']
    intro x hx
    simp only [List.mem_singleton] at hx
    subst hx
    exact Or.inr hinit
  case hgo =>
    intro I J X _ hg
    unfold Auto.goto at hg
    simp only [mkAuto, if_true] at hg
    obtain ⟨c, _, hrest'⟩ := bind_eq_ok hg
    have hJ : advance c X = J := pure_eq_ok hrest'
    subst hJ
    intro x hx
    obtain ⟨i0, _, _, rfl⟩ := mem_advance.mp hx
    left; simp [Item.next]

/-- the driver halts on every input on a conflict-free table built by the LALR(1) construction -/
theorem terminates_lalr (g : SGrammar) (hv : ValidG g) (ht : TermsListed g) (hprod : Productive g) (fuel : Nat)
    (b : Built) (hb : buildLALR g fuel = Outcome.ok b) (hcf : chkConflictFree b.table = true) (w : List String)
    (hw : endmarker ∉ w) : ∃ fuel' r, parse b.table.toTbl fuel' w = Outcome.ok r := by
  obtain ⟨g0, nl, fe, hC, ha0⟩ := completeTable_of_check g b (built_complete_lalr g hv ht hprod fuel b hb hcf)
  have hS := soundTable_of_within g b b.table (soundOK_buildLALR hv hb) (within_refl _)
  unfold buildLALR at hb
  obtain ⟨g', hg', hb1⟩ := bind_eq_ok hb
  obtain ⟨K, hK, hb2⟩ := bind_eq_ok hb1
  obtain ⟨⟨T, cl⟩, hrows, hb3⟩ := bind_eq_ok hb2
  have hbeq := pure_eq_ok hb3
  subst hbeq
  obtain ⟨R⟩ := lalrRun_of_ok hK
  have h := augOK_of_augment hv hg'
  have hAg : (mkAuto g' true true fuel).g = g' := rfl
  have hAk : (mkAuto g' true true fuel).kernel = true := rfl
  have hinitEq := initialItem_eq h hAg
  have hinit : (mkAuto g' true true fuel).initialItem.isInitial g'.start = true := by
    rw [hinitEq]; simp [mkAuto, Item.isInitial, startProd, laIsEnd]
  have hSL := stateMap_specK hinit (lalrKernels_spec h hK)
  obtain ⟨_, cs, hcs, hrel⟩ := rowsL_spec g' _ hAg _ _ 0 _ [] T cl (by intro k I hk; simpa using hk)
    ⟨by simp, by simp⟩ hrows
  simp only [List.nil_append] at hcs
  subst hcs
  have hinit0Eq := initialItem_eq h (A := mkAuto g' false true fuel) rfl
  have hk0 := kernel0_kernels R.hK0 (by rw [hinit0Eq]; rfl)
  -- a state of `cl` is the sorted closure of the kernel with the same number
  have hstate : ∀ s it, it ∈ itemsAt cl s →
      ∃ (i : Nat) (I c : List Item), s = (i : Int) ∧ (buildStateMap g'.start K)[i]? = some I ∧
        closure g' (nullableOf g') (firstEnv g' (nullableOf g')) fuel I = Outcome.ok c ∧
        cl[i]? = some (sortBy (cmpItem g'.start) c) ∧ it ∈ c := by
    intro s it hit
    obtain ⟨n, Ic, hs, hIc, heq⟩ := itemsAt_get hit
    have hn : n < cl.length := by
      rcases Nat.lt_or_ge n cl.length with h1 | h1
      · exact h1
      · rw [List.getElem?_eq_none h1] at hIc; cases hIc
    rw [hrel.1] at hn
    obtain ⟨I, hI⟩ : ∃ I, (buildStateMap g'.start K)[n]? = some I := ⟨_, List.getElem?_eq_getElem hn⟩
    obtain ⟨c, hc, hcl⟩ := hrel.2 n I hI
    rw [hIc] at hcl
    have hIceq := Option.some.inj hcl
    refine ⟨n, I, c, hs, hI, hc, by rw [hIc, hIceq], ?_⟩
    rw [heq, hIceq] at hit
    exact (mem_sortBy _ _ _).mp hit
  have hgoodc : ∀ (i : Nat) (I c : List Item), (buildStateMap g'.start K)[i]? = some I →
      closure g' (nullableOf g') (firstEnv g' (nullableOf g')) fuel I = Outcome.ok c → ∀ it ∈ c, Good g' it := by
    intro i I c hI hc
    exact (auto_closure_spec h hAg hAk (I := I) (K := c) hc (statesOK_good hSL i I hI)).2.2
  apply terminates (g := g) (start' := g'.start) (nl := nl) (fe := fe) (items := itemsAt cl)
    ⟨hC, hS, ?_, ?_, ?_, ?_⟩ w hw
  · intro s it hit
    obtain ⟨i, I, c, rfl, hI, hc, hcli, hitc⟩ := hstate s it hit
    refine td_of_closure hc ?_ (fun x => by rw [itemsAt_mem_iff hcli, mem_sortBy]) it hitc
    -- the kernel items
    intro x hx
    obtain ⟨K', hK', rfl⟩ := mem_buildStateMap.mp (List.mem_of_getElem? hI)
    obtain ⟨s0, Is, hIs, hKmem⟩ := kernel_src R hK'
    obtain ⟨k, a, hLA, rfl⟩ := (hKmem x).mp ((mem_sortBy _ _ _).mp hx)
    obtain ⟨Is', i', _, hIs', hki, _, _⟩ := hLA
    obtain ⟨Ks, hKs, hIsEq⟩ := mem_buildStateMap.mp (List.mem_of_getElem? hIs')
    have hkIs : k ∈ Ks := by
      have := List.mem_of_getElem? hki
      rw [hIsEq] at this
      exact (mem_sortBy _ _ _).mp this
    exact hk0 Ks hKs k hkIs
  · intro s it hit
    obtain ⟨i, I, c, rfl, hI, hc, _, hitc⟩ := hstate s it hit
    exact prods_cases hv hg' (hgoodc i I c hI hc it hitc).1
  · intro s it hit n
    obtain ⟨i, I, c, rfl, hI, hc, _, hitc⟩ := hstate s it hit
    exact body_forest hv hg' hprod (hgoodc i I c hI hc it hitc).1 n
  · exact ⟨_, fun s hne => itemsAt_bound _ s hne⟩

end AlgoVerif.C11.Term
