import AlgoVerif.Proofs.C13Refine
/-! C13: `Minimize` of a DFA without unreachable or dead states has the fewest states of any equivalent DFA. -/
namespace AlgoVerif.C13
open AlgoVerif AlgoVerif.C13.Spec

/-- acceptance of `v` from state `s` of the DFA model -/
abbrev DFA.acc (d : DFA) (s : Int) (v : Word) : Prop := accFrom d.δ (fun f => f ∈ d.final) s v

theorem accFrom_nil (δ : Int → Int → Option Int) (fin : Int → Prop) (s : Int) : accFrom δ fin s [] ↔ fin s := by
  simp [accFrom, dfaRun]

theorem accFrom_cons (δ : Int → Int → Option Int) (fin : Int → Prop) (s a : Int) (v : Word) :
    accFrom δ fin s (a :: v) ↔ ∃ t, δ s a = some t ∧ accFrom δ fin t v := by
  simp only [accFrom, dfaRun]
  cases h : δ s a with
  | none => simp [dfaRun_none]
  | some t => simp

theorem DFA.mem_states_iff (d : DFA) (x : Int) :
    x ∈ d.states ↔ x = d.start ∨ x ∈ d.final ∨ ∃ s a t, (s, a, t) ∈ entries d.trans ∧ (x = s ∨ x = t) := by
  constructor
  · intro h
    have hst : d.states = (entries d.trans).foldl (fun acc e => sins e.2.2 (sins e.1 acc)) (sunion (mkSet [d.start]) d.final) := by
      simp only [DFA.states]
      exact foldl_nested (γ := List Int) d.trans (fun acc s _ t => sins t (sins s acc)) _
    rw [hst] at h
    have gen : ∀ (L : List (Int × Int × Int)) (acc : List Int),
        x ∈ L.foldl (fun acc e => sins e.2.2 (sins e.1 acc)) acc →
        (x ∈ acc ∨ ∃ s a t, (s, a, t) ∈ L ∧ (x = s ∨ x = t)) := by
      intro L
      induction L with
      | nil => intro acc h; left; simpa using h
      | cons e L ih =>
        intro acc h
        simp only [List.foldl_cons] at h
        obtain ⟨s1, a1, t1⟩ := e
        rcases ih _ h with h' | ⟨s, a, t, hm, hx⟩
        · simp at h'
          rcases h' with rfl | rfl | h'
          · right; exact ⟨s1, a1, x, by simp, Or.inr rfl⟩
          · right; exact ⟨x, a1, t1, by simp, Or.inl rfl⟩
          · left; exact h'
        · right; exact ⟨s, a, t, by simp [hm], hx⟩
    rcases gen _ _ h with h' | h'
    · simp at h'; rcases h' with h' | h'
      · left; exact h'
      · right; left; exact h'
    · right; right; exact h'
  · exact d.mem_states_of x

theorem DFA.run_mem_states (d : DFA) (hwf : d.WF) (w : Word) (s t : Int) (hs : s ∈ d.states)
    (h : dfaRun d.δ (some s) w = some t) : t ∈ d.states := by
  induction w generalizing s with
  | nil => simp [dfaRun] at h; subst h; exact hs
  | cons a w ih =>
    simp only [dfaRun] at h
    cases hd : d.δ s a with
    | none => rw [hd, dfaRun_none] at h; simp at h
    | some t2 => rw [hd] at h; exact ih t2 (d.step_mem_states hwf hd).2 h

/-- states in different groups are distinguished by some word -/
def Dist (d : DFA) (P : Partition) : Prop :=
  ∀ s ∈ d.states, ∀ t ∈ d.states, P.rep s ≠ P.rep t → ∃ v, ¬ (d.acc s v ↔ d.acc t v)

theorem DFA.initPartition_groups (d : DFA) (hfs : SSorted d.final) :
    ∀ G ∈ d.initPartition.groups, G.1 = sdiff d.states d.final ∨ G.1 = d.final := by
  have hNF : SSorted (sdiff d.states d.final) := List.Pairwise.filter _ d.states_sorted
  obtain ⟨a1, a2, _, a4, _⟩ := PWF.empty.add hNF (by simp [Partition.empty])
  have hdis : ∀ G ∈ (Partition.empty.add (sdiff d.states d.final)).groups, ∀ x ∈ G.1, x ∉ d.final := by
    intro G hG x hx
    rcases a2 G hG with h | rfl
    · simp [Partition.empty] at h
    · exact ((mem_sdiff).1 hx).2
  obtain ⟨b1, b2, b3, b4, _⟩ := a1.add hfs hdis
  intro G hG
  rcases b2 G hG with h | rfl
  · rcases a2 G h with h' | rfl
    · simp [Partition.empty] at h'
    · left; rfl
  · right; rfl

theorem dist_init (d : DFA) (hfs : SSorted d.final) : Dist d d.initPartition := by
  have hP := d.initPartition_pinv hfs
  intro s hs t ht hne
  obtain ⟨Gs, hGs, hsG⟩ := hP.cover s hs
  obtain ⟨Gt, hGt, htG⟩ := hP.cover t ht
  have hdiff : Gs.1 ≠ Gt.1 := by
    intro he
    have : Gs = Gt := hP.wf.same_group hGs hGt hsG (by rw [← he]; exact hsG)
    apply hne
    rw [hP.wf.rep_of_mem hGs hsG, hP.wf.rep_of_mem hGt htG, this]
  refine ⟨[], ?_⟩
  simp only [DFA.acc]
  rw [accFrom_nil, accFrom_nil]
  rcases d.initPartition_groups hfs Gs hGs with h1 | h1 <;> rcases d.initPartition_groups hfs Gt hGt with h2 | h2
  · exact absurd (h1.trans h2.symm) hdiff
  · rw [h1] at hsG; rw [h2] at htG
    have := ((mem_sdiff).1 hsG).2
    intro hiff; exact this (hiff.2 htG)
  · rw [h1] at hsG; rw [h2] at htG
    have := ((mem_sdiff).1 htG).2
    intro hiff; exact this (hiff.1 hsG)
  · exact absurd (h1.trans h2.symm) hdiff

theorem dist_refine (d : DFA) (hwf : d.WF) (P : Partition) (hP : PInv d P) (hD : Dist d P)
    (hlive : ∀ s ∈ d.states, ∃ v, d.acc s v) : Dist d (refine d P) := by
  have hR := refine_spec P d hwf hP.wf
  have hPn := refine_pinv P d hwf hP
  intro s hs t ht hne
  by_cases hPr : P.rep s = P.rep t
  · -- same old group, different new groups: the signatures differ
    obtain ⟨G, hG, hsG⟩ := hP.cover s hs
    obtain ⟨G2, hG2, htG2⟩ := hP.cover t ht
    have : G = G2 := hP.wf.rep_inj hG hG2 (by rw [← hP.wf.rep_of_mem hG hsG, ← hP.wf.rep_of_mem hG2 htG2, hPr])
    subst this
    obtain ⟨H, hH, hsH⟩ := hR.covered G hG s hsG
    obtain ⟨K, hK, htK⟩ := hR.covered G hG t htG2
    have hHK : H ≠ K := by
      intro he
      apply hne
      rw [hR.wf.rep_of_mem hH hsH, hR.wf.rep_of_mem hK htK, he]
    have hns : ¬ SigEq P d s t := fun hse => hHK (hR.sep H hH K hK s hsH t htK hse ⟨G, hG, hsG, htG2⟩)
    obtain ⟨a, ha⟩ := Classical.not_forall.1 hns
    have hrepO : ∀ x ∈ d.states, repO P x = some (P.rep x) := by
      intro x hx
      obtain ⟨Gx, hGx, hxG⟩ := hP.cover x hx
      simp [repO, hP.wf.rep_ne hGx hxG]
    cases hs1 : d.δ s a with
    | none =>
      cases ht1 : d.δ t a with
      | none => rw [hs1, ht1] at ha; exact absurd rfl ha
      | some t' =>
        obtain ⟨v, hv⟩ := hlive t' (d.step_mem_states hwf ht1).2
        refine ⟨a :: v, ?_⟩
        simp only [DFA.acc] at *
        rw [accFrom_cons, accFrom_cons]
        intro hiff
        obtain ⟨x, hx, _⟩ := hiff.2 ⟨t', ht1, hv⟩
        rw [hs1] at hx; simp at hx
    | some s' =>
      cases ht1 : d.δ t a with
      | none =>
        obtain ⟨v, hv⟩ := hlive s' (d.step_mem_states hwf hs1).2
        refine ⟨a :: v, ?_⟩
        simp only [DFA.acc] at *
        rw [accFrom_cons, accFrom_cons]
        intro hiff
        obtain ⟨x, hx, _⟩ := hiff.1 ⟨s', hs1, hv⟩
        rw [ht1] at hx; simp at hx
      | some t' =>
        have hs' := (d.step_mem_states hwf hs1).2
        have ht' := (d.step_mem_states hwf ht1).2
        rw [hs1, ht1] at ha
        simp only [Option.bind_some, hrepO s' hs', hrepO t' ht'] at ha
        obtain ⟨v, hv⟩ := hD s' hs' t' ht' (fun h => ha (by rw [h]))
        refine ⟨a :: v, ?_⟩
        simp only [DFA.acc] at *
        rw [accFrom_cons, accFrom_cons]
        intro hiff
        apply hv
        constructor
        · intro h1
          obtain ⟨x, hx, hx2⟩ := hiff.1 ⟨s', hs1, h1⟩
          rw [ht1] at hx; injection hx with hx; subst hx; exact hx2
        · intro h1
          obtain ⟨x, hx, hx2⟩ := hiff.2 ⟨t', ht1, h1⟩
          rw [hs1] at hx; injection hx with hx; subst hx; exact hx2
  · -- already in different old groups
    apply hD s hs t ht hPr

theorem refineLoop_dist (d : DFA) (hwf : d.WF) (hlive : ∀ s ∈ d.states, ∃ v, d.acc s v)
    (fuel : Nat) (P P' : Partition) (h : refineLoop d fuel P = .ok P') (hP : PInv d P) (hD : Dist d P) : Dist d P' := by
  induction fuel generalizing P with
  | zero => simp [refineLoop] at h
  | succ fuel ih =>
    simp only [refineLoop] at h
    by_cases hc : (refine d P).equal P = true
    · simp only [hc, if_true] at h; injection h with h; subst h; exact hD
    · simp only [hc] at h
      exact ih (refine d P) h (refine_pinv P d hwf hP) (dist_refine d hwf P hP hD hlive)

/-- the partition the loop returns has no empty group -/
theorem final_no_empty (d : DFA) (hwf : d.WF) (P : Partition) (hP : PInv d P) (he : (refine d P).equal P = true) :
    ∀ G ∈ P.groups, G.1 ≠ [] := by
  classical
  have hR := refine_spec P d hwf hP.wf
  simp only [Partition.equal, Bool.and_eq_true, beq_iff_eq, List.all_eq_true, List.any_eq_true] at he
  obtain ⟨⟨hlen, hall⟩, _⟩ := he
  -- every new group is (as a list) a non-empty old group
  have hex : ∀ H, ∃ K, H ∈ (refine d P).groups → K ∈ P.groups ∧ K.1 = H.1 := by
    intro H
    by_cases hH : H ∈ (refine d P).groups
    · obtain ⟨K, hK, hKe⟩ := hall H hH
      exact ⟨K, fun _ => ⟨hK, (setEq_iff (hP.wf.sorted K hK) (hR.wf.sorted H hH)).1 hKe⟩⟩
    · exact ⟨H, fun h => absurd h hH⟩
  let f : (List Int × Int) → (List Int × Int) := fun H => Classical.choose (hex H)
  have hf : ∀ H ∈ (refine d P).groups, f H ∈ P.groups ∧ (f H).1 = H.1 := fun H hH => Classical.choose_spec (hex H) hH
  intro G hG hGe
  have hle := length_le_of_injOn f (refine d P).groups (P.groups.filter (fun K => !K.1.isEmpty)) ?_ ?_ ?_
  · have hlt : (P.groups.filter (fun K => !K.1.isEmpty)).length < P.groups.length := by
      apply (List.length_filter_lt_length_iff_exists).2
      exact ⟨G, hG, by simp [hGe]⟩
    omega
  · apply List.nodup_iff_pairwise_ne.2
    have := hR.wf.reps
    rw [List.pairwise_map] at this
    exact this.imp (fun h he => by rw [he] at h; omega)
  · intro H1 h1 H2 h2 he
    obtain ⟨x, hx⟩ := List.exists_mem_of_ne_nil _ (hR.ne H1 h1)
    have e1 := (hf H1 h1).2
    have e2 := (hf H2 h2).2
    exact hR.wf.same_group h1 h2 hx (by rw [← e2, ← he, e1]; exact hx)
  · intro H hH
    rw [List.mem_filter]
    refine ⟨(hf H hH).1, ?_⟩
    have := hR.ne H hH
    rw [← (hf H hH).2] at this
    simpa using this

/-- `Minimize` of a DFA all of whose states are reachable and live has no more states than any (partial)
DFA for the same language -/
theorem DFA.minimize_minimal (d d' : DFA) (hwf : d.WF) (hfs : SSorted d.final)
    (hreach : ∀ s ∈ d.states, ∃ u, dfaRun d.δ (some d.start) u = some s)
    (hlive : ∀ s ∈ d.states, ∃ v, d.acc s v)
    (h : d.minimize = .ok d')
    (δ2 : Int → Int → Option Int) (start2 : Int) (final2 : Int → Prop) (Q2 : List Int)
    (hQ2 : ∀ u t, dfaRun δ2 (some start2) u = some t → t ∈ Q2)
    (hlang : ∀ w, d.lang w ↔ dfaLang δ2 start2 final2 w) :
    d'.states.length ≤ Q2.length := by
  have hlang' : ∀ w, d'.lang w ↔ d.lang w := fun w => d.minimize_lang d' hwf hfs h w
  simp only [DFA.minimize, DFA.minimizePartition] at h
  cases hl : refineLoop d d.minimizeFuel d.initPartition with
  | panic => simp [hl] at h
  | diverge => simp [hl] at h
  | ok P =>
    simp only [hl] at h; injection h with h; subst h
    obtain ⟨hP, he⟩ := refineLoop_spec d hwf _ _ P hl (d.initPartition_pinv hfs)
    have hD := refineLoop_dist d hwf hlive _ _ P hl (d.initPartition_pinv hfs) (dist_init d hfs)
    have hne := final_no_empty d hwf P hP he
    have hs := stable_of_exit d hwf P hP he
    obtain ⟨fstart, ffin, fkey, frun, fsound, fwf⟩ := buildMin_facts d hwf P hs
    have hstart : d.start ∈ d.states := d.mem_states_of _ (Or.inl rfl)
    have hfinal : ∀ f ∈ d.final, f ∈ d.states := fun f hf => d.mem_states_of _ (Or.inr (Or.inl hf))
    -- every state of the result is the representative of a state of `d`
    have hstates : ∀ x ∈ (buildMin d P).states, ∃ s ∈ d.states, x = P.rep s := by
      intro x hx
      rcases ((buildMin d P).mem_states_iff x).1 hx with h1 | h1 | ⟨r, a, r', hm, hx'⟩
      · exact ⟨d.start, hstart, by rw [h1, fstart]⟩
      · obtain ⟨f, hf, hfx⟩ := (ffin x).1 h1
        exact ⟨f, hfinal f hf, hfx.symm⟩
      · have hδ := (mem_entries_DFA fwf _ _ _).1 hm
        obtain ⟨G, hG, hr, t, ht, hrt⟩ := fsound _ _ _ hδ
        rcases hx' with rfl | rfl
        · have hg : G.1.headD 0 ∈ G.1 := by
            cases hgl : G.1 with
            | nil => exact absurd hgl (hne G hG)
            | cons y ys => simp
          exact ⟨G.1.headD 0, hP.sub G hG _ hg, by rw [hr, hP.wf.rep_of_mem hG hg]⟩
        · exact ⟨t, (d.step_mem_states hwf ht).2, hrt.symm⟩
    -- acceptance from a representative is acceptance from the state
    have hacc : ∀ s ∈ d.states, ∀ v, accFrom (buildMin d P).δ (fun f => f ∈ (buildMin d P).final) (P.rep s) v ↔ d.acc s v := by
      intro s hs' v
      simp only [DFA.acc, accFrom, frun v s hs']
      constructor
      · rintro ⟨f', h1, h2⟩
        cases hr : dfaRun d.δ (some s) v with
        | none => rw [hr] at h1; simp at h1
        | some q =>
          rw [hr] at h1; simp at h1
          obtain ⟨f, hf, hff⟩ := (ffin f').1 h2
          have hq := d.run_mem_states hwf v s q hs' hr
          exact ⟨q, rfl, (hs.fin f (hfinal f hf) q hq (by rw [hff, h1])).1 hf⟩
      · rintro ⟨q, h1, h2⟩
        exact ⟨P.rep q, by rw [h1]; rfl, (ffin _).2 ⟨q, h2, rfl⟩⟩
    apply minimal_of_distinguishable (buildMin d P).δ (buildMin d P).start (fun f => f ∈ (buildMin d P).final)
      (buildMin d P).states (ssorted_nodup (buildMin d P).states_sorted) ?_ ?_ ?_ δ2 start2 final2 Q2 hQ2
      (fun w => (hlang' w).trans (hlang w))
    · intro x hx
      obtain ⟨s, hs', rfl⟩ := hstates x hx
      obtain ⟨u, hu⟩ := hreach s hs'
      exact ⟨u, by rw [fstart, frun u d.start hstart, hu]; rfl⟩
    · intro x hx
      obtain ⟨s, hs', rfl⟩ := hstates x hx
      obtain ⟨v, hv⟩ := hlive s hs'
      exact ⟨v, (hacc s hs' v).2 hv⟩
    · intro x hx y hy hxy
      obtain ⟨s, hs', rfl⟩ := hstates x hx
      obtain ⟨t, ht', rfl⟩ := hstates y hy
      obtain ⟨v, hv⟩ := hD s hs' t ht' hxy
      exact ⟨v, by rw [hacc s hs' v, hacc t ht' v]; exact hv⟩

end AlgoVerif.C13
