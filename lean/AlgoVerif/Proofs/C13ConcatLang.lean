import AlgoVerif.Proofs.C13Star
/-! C13: the language argument for one step of `Concat` (after the fix), on an abstract description of
what the step adds.  `δ` is the automaton built so far, whose states are `≤ L`; `P` are the states in
which the operands so far have been read completely; the step adds, for the operand `n`:
copies `g t > L` of the states of `n` that are targets of transitions (its start state among them only if
some transition leads back to it), the transitions of `n` between copies, and the transitions of `n`'s
start state from every state of `P`. -/
namespace AlgoVerif.C13
open AlgoVerif AlgoVerif.C13.Spec

section step
variable (δ δ' : Int → Int → Int → Prop) (P P' : List Int) (L : Int) (n : NFA) (g : Int → Option Int)
  (loop : Prop)

/-- `x` is the copy of `s` (for the start state: its own copy, which exists only if an edge leads back to it) -/
def Copy (n : NFA) (g : Int → Option Int) (loop : Prop) (s x : Int) : Prop := g s = some x ∧ (s = n.start → loop)

variable (h1 : ∀ x a y, δ x a y → x ≤ L ∧ y ≤ L)
  (h2 : ∀ p ∈ P, p ≤ L)
  (h3 : ∀ s x, g s = some x → L < x)
  (h3i : ∀ s s' x, g s = some x → g s' = some x → s = s')
  (h4 : ∀ s a t, n.Δ s a t → ∃ y, g t = some y)
  (h4s : ∀ s a, n.Δ s a n.start → loop)
  (h5 : ∀ x a y, δ' x a y ↔ δ x a y ∨
    ∃ s t, n.Δ s a t ∧ g t = some y ∧ (Copy n g loop s x ∨ (s = n.start ∧ x ∈ P)))
  (h6 : ∀ x, x ∈ P' ↔ (∃ f ∈ n.final, Copy n g loop f x) ∨ (n.start ∈ n.final ∧ x ∈ P))

include h4 h4s h5 in
/-- a run of `n` from a copied state is a run of the new automaton between the copies -/
theorem concat_embed {s f : Int} {v : Word} (h : Steps n.Δ s v f) :
    ∀ x, Copy n g loop s x → ∃ y, Copy n g loop f y ∧ Steps δ' x v y := by
  induction h with
  | nil => intro x hx; exact ⟨x, hx, Steps.nil _⟩
  | @eps s t f v hd _ ih =>
    intro x hx
    obtain ⟨y, hy⟩ := h4 _ _ _ hd
    have hc : Copy n g loop t y := ⟨hy, fun ht => h4s s Spec.eps (ht ▸ hd)⟩
    obtain ⟨z, hz, hs⟩ := ih y hc
    exact ⟨z, hz, Steps.eps ((h5 _ _ _).2 (Or.inr ⟨s, t, hd, hy, Or.inl hx⟩)) hs⟩
  | @sym s t f a v hd _ ih =>
    intro x hx
    obtain ⟨y, hy⟩ := h4 _ _ _ hd
    have hc : Copy n g loop t y := ⟨hy, fun ht => h4s s a (ht ▸ hd)⟩
    obtain ⟨z, hz, hs⟩ := ih y hc
    exact ⟨z, hz, Steps.sym ((h5 _ _ _).2 (Or.inr ⟨s, t, hd, hy, Or.inl hx⟩)) hs⟩

include h1 h2 h3 h3i h4s h5 in
/-- from a copied state the new automaton can only follow the transitions of `n` -/
theorem concat_new_run {x y : Int} {w : Word} (h : Steps δ' x w y) :
    ∀ s, Copy n g loop s x → ∃ t, Copy n g loop t y ∧ Steps n.Δ s w t := by
  induction h with
  | nil => intro s hs; exact ⟨s, hs, Steps.nil _⟩
  | @eps x x1 y w hd _ ih =>
    intro s hs
    rcases (h5 _ _ _).1 hd with hold | ⟨s', t, hn, hgt, hsrc⟩
    · have := (h1 _ _ _ hold).1; have := h3 _ _ hs.1; omega
    · rcases hsrc with hc | ⟨_, hp⟩
      · have := h3i _ _ _ hc.1 hs.1; subst this
        obtain ⟨t', ht', hs'⟩ := ih t ⟨hgt, fun ht => h4s s' Spec.eps (ht ▸ hn)⟩
        exact ⟨t', ht', Steps.eps hn hs'⟩
      · have := h2 _ hp; have := h3 _ _ hs.1; omega
  | @sym x x1 y a w hd _ ih =>
    intro s hs
    rcases (h5 _ _ _).1 hd with hold | ⟨s', t, hn, hgt, hsrc⟩
    · have := (h1 _ _ _ hold).1; have := h3 _ _ hs.1; omega
    · rcases hsrc with hc | ⟨_, hp⟩
      · have := h3i _ _ _ hc.1 hs.1; subst this
        obtain ⟨t', ht', hs'⟩ := ih t ⟨hgt, fun ht => h4s s' a (ht ▸ hn)⟩
        exact ⟨t', ht', Steps.sym hn hs'⟩
      · have := h2 _ hp; have := h3 _ _ hs.1; omega

include h1 h2 h3 h3i h4s h5 in
/-- a run of the new automaton from an old state stays old, or leaves through a state of `P` into a run of `n` -/
theorem concat_old_run {x y : Int} {w : Word} (h : Steps δ' x w y) (hx : x ≤ L) :
    (y ≤ L ∧ Steps δ x w y) ∨
    ∃ u v p t, w = u ++ v ∧ Steps δ x u p ∧ p ∈ P ∧ Copy n g loop t y ∧ Steps n.Δ n.start v t := by
  induction h with
  | nil => left; exact ⟨hx, Steps.nil _⟩
  | @eps x x1 y w hd hrest ih =>
    rcases (h5 _ _ _).1 hd with hold | ⟨s', t, hn, hgt, hsrc⟩
    · rcases ih (h1 _ _ _ hold).2 with ⟨hy, hs⟩ | ⟨u, v, p, t, e, hs, hp, hc, hv⟩
      · left; exact ⟨hy, Steps.eps hold hs⟩
      · right; exact ⟨u, v, p, t, e, Steps.eps hold hs, hp, hc, hv⟩
    · rcases hsrc with hc | ⟨hs', hp⟩
      · have := h3 _ _ hc.1; omega
      · subst hs'
        obtain ⟨t', ht', hrun⟩ := concat_new_run δ δ' P L n g loop h1 h2 h3 h3i h4s h5 hrest t
          ⟨hgt, fun ht => h4s _ Spec.eps (ht ▸ hn)⟩
        right; exact ⟨[], w, x, t', rfl, Steps.nil _, hp, ht', Steps.eps hn hrun⟩
  | @sym x x1 y a w hd hrest ih =>
    rcases (h5 _ _ _).1 hd with hold | ⟨s', t, hn, hgt, hsrc⟩
    · rcases ih (h1 _ _ _ hold).2 with ⟨hy, hs⟩ | ⟨u, v, p, t, e, hs, hp, hc, hv⟩
      · left; exact ⟨hy, Steps.sym hold hs⟩
      · right; exact ⟨a :: u, v, p, t, by rw [e]; rfl, Steps.sym hold hs, hp, hc, hv⟩
    · rcases hsrc with hc | ⟨hs', hp⟩
      · have := h3 _ _ hc.1; omega
      · subst hs'
        obtain ⟨t', ht', hrun⟩ := concat_new_run δ δ' P L n g loop h1 h2 h3 h3i h4s h5 hrest t
          ⟨hgt, fun ht => h4s _ a (ht ▸ hn)⟩
        right; exact ⟨[], a :: w, x, t', rfl, Steps.nil _, hp, ht', Steps.sym hn hrun⟩

include h1 h2 h3 h3i h4 h4s h5 h6 in
/-- one step of `Concat` appends the operand's language -/
theorem concat_step_lang (x0 : Int) (hx0 : x0 ≤ L) (w : Word) :
    (∃ p' ∈ P', Steps δ' x0 w p') ↔
      ∃ u v, w = u ++ v ∧ (∃ p ∈ P, Steps δ x0 u p) ∧ n.lang v := by
  have hsub : ∀ {x y : Int} {w : Word}, Steps δ x w y → Steps δ' x w y := by
    intro x y w h
    induction h with
    | nil => exact Steps.nil _
    | eps hd _ ih => exact Steps.eps ((h5 _ _ _).2 (Or.inl hd)) ih
    | sym hd _ ih => exact Steps.sym ((h5 _ _ _).2 (Or.inl hd)) ih
  constructor
  · rintro ⟨p', hp', hs⟩
    rcases concat_old_run δ δ' P L n g loop h1 h2 h3 h3i h4s h5 hs hx0 with ⟨hy, hold⟩ | ⟨u, v, p, t, e, hu, hp, hc, hv⟩
    · rcases (h6 p').1 hp' with ⟨f, _, hc⟩ | ⟨hsf, hpP⟩
      · have := h3 _ _ hc.1; omega
      · exact ⟨w, [], by simp, ⟨p', hpP, hold⟩, n.start, hsf, Path.eps (EReach.refl _)⟩
    · rcases (h6 p').1 hp' with ⟨f, hf, hc'⟩ | ⟨_, hpP⟩
      · have := h3i _ _ _ hc.1 hc'.1; subst this
        exact ⟨u, v, e, ⟨p, hp, hu⟩, t, hf, Steps.to_path hv⟩
      · have := h2 _ hpP; have := h3 _ _ hc.1; omega
  · rintro ⟨u, v, e, ⟨p, hp, hu⟩, f, hf, hpath⟩
    subst e
    have hv := Steps.of_path hpath
    -- the run of `n` either is empty or starts with a transition of the start state
    generalize hst : n.start = st at hv
    cases hv with
    | nil =>
      subst hst
      exact ⟨p, (h6 p).2 (Or.inr ⟨hf, hp⟩), by simpa using hsub hu⟩
    | @eps _ t _ _ hd hrest =>
      subst hst
      obtain ⟨y, hy⟩ := h4 _ _ _ hd
      obtain ⟨z, hz, hs⟩ := concat_embed δ δ' P n g loop h4 h4s h5 hrest y ⟨hy, fun ht => h4s _ Spec.eps (ht ▸ hd)⟩
      refine ⟨z, (h6 z).2 (Or.inl ⟨f, hf, hz⟩), ?_⟩
      exact Steps.append (hsub hu) (Steps.eps ((h5 _ _ _).2 (Or.inr ⟨_, t, hd, hy, Or.inr ⟨rfl, hp⟩⟩)) hs)
    | @sym _ t _ a _ hd hrest =>
      subst hst
      obtain ⟨y, hy⟩ := h4 _ _ _ hd
      obtain ⟨z, hz, hs⟩ := concat_embed δ δ' P n g loop h4 h4s h5 hrest y ⟨hy, fun ht => h4s _ a (ht ▸ hd)⟩
      refine ⟨z, (h6 z).2 (Or.inl ⟨f, hf, hz⟩), ?_⟩
      exact Steps.append (hsub hu) (Steps.sym ((h5 _ _ _).2 (Or.inr ⟨_, t, hd, hy, Or.inr ⟨rfl, hp⟩⟩)) hs)

end step

end AlgoVerif.C13
