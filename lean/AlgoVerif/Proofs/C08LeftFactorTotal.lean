import AlgoVerif.Proofs.C09LeftFactorPost
import AlgoVerif.Proofs.C08Total6
/-!
# LeftFactor terminates (C08): the Model's fuel is never exhausted

`leftFactor g = lfLoop (4 * sizeOf g + 8) g`; every pass that changes the grammar uses one unit of fuel.

**Why the passes stop.**  The productions of a non-terminal change only when that non-terminal itself is
folded, and a folded non-terminal has alternatives with pairwise different first symbols, so it is never
folded again (`lfHead_changed`: it is `lfStable` afterwards).  A pass visits every declared non-terminal, so
after a pass the only non-terminals that can still be folded are the fresh ones made during that pass — and
their bodies are bodies of a non-terminal folded in that pass with the first symbol removed.  Hence the
bound `Bnd m g` — "every non-terminal that can be folded has bodies of length ≤ m" — goes from `m+1` to `m`
in every pass (`lfPass_bnd`), a non-terminal whose bodies are all empty cannot be folded, and a pass over a
grammar in which nothing can be folded reports "unchanged".  So at most `max body length` passes change
the grammar, which is less than `sizeOf g`.

**Panics.**  `lfHead` panics only when `AddNewNonTerminal` finds all four primed names taken
(`lfHead_panic`).  `lfNamesSuffice g` is the computable statement "running the Model on `g` does not end in
that panic"; with it `leftFactor` returns a grammar, which generates the language of `g`
(`C08_leftfactor_total`).
-/
namespace AlgoVerif.C08
open AlgoVerif AlgoVerif.Gram AlgoVerif.C08.Spec
open LF

namespace LF

/-! ### lists -/

theorem filter_ins_of_not {α : Type} [DecidableEq α] (q : α → Bool) (l : List α) (x : α) (hx : q x = false) :
    (ins l x).filter q = l.filter q := by
  unfold ins
  split
  · rfl
  · simp [List.filter_append, hx]

theorem filter_insAll_of_not {α : Type} [DecidableEq α] (q : α → Bool) : ∀ (xs l : List α),
    (∀ x ∈ xs, q x = false) → (insAll l xs).filter q = l.filter q
  | [], _, _ => rfl
  | x :: xs, l, h => by
    have := filter_insAll_of_not q xs (ins l x) (fun y hy => h y (List.mem_cons_of_mem _ hy))
    simp only [insAll, List.foldl_cons] at this ⊢
    rw [this, filter_ins_of_not q l x (h x (List.mem_cons_self ..))]

theorem nodup_insertBy {α : Type} (lt : α → α → Bool) (x : α) : ∀ l : List α, l.Nodup → x ∉ l →
    (insertBy lt x l).Nodup
  | [], _, _ => by simp [insertBy]
  | y :: l, h, hx => by
    have h' := List.nodup_cons.1 h
    simp only [insertBy]
    split
    · exact List.nodup_cons.2 ⟨hx, h⟩
    · refine List.nodup_cons.2 ⟨?_, nodup_insertBy lt x l h'.2 (fun hm => hx (List.mem_cons_of_mem _ hm))⟩
      intro hm
      rcases (mem_insertBy lt x y l).1 hm with rfl | hm
      · exact hx (List.mem_cons_self ..)
      · exact h'.1 hm

theorem nodup_sortBy {α : Type} (lt : α → α → Bool) (l : List α) (h : l.Nodup) : (sortBy lt l).Nodup := by
  unfold sortBy
  have key : ∀ (l acc : List α), l.Nodup → acc.Nodup → (∀ x ∈ l, x ∉ acc) →
      (l.foldl (fun acc x => insertBy lt x acc) acc).Nodup := by
    intro l
    induction l with
    | nil => intro acc _ ha _; exact ha
    | cons x l ih =>
      intro acc hl ha hd
      have hl' := List.nodup_cons.1 hl
      refine ih _ hl'.2 (nodup_insertBy lt x acc ha (hd x (List.mem_cons_self ..))) ?_
      intro y hy hm
      rcases (mem_insertBy lt x y acc).1 hm with rfl | hm
      · exact hl'.1 hy
      · exact hd y (List.mem_cons_of_mem _ hy) hm
  exact key l [] h List.nodup_nil (by simp)

theorem zip_fst_inj {α β : Type} : ∀ (l : List α) (ns : List β), l.Nodup → ∀ x ∈ l.zip ns, ∀ y ∈ l.zip ns,
    x.1 = y.1 → x = y
  | [], _, _, x, hx, _, _, _ => by simp at hx
  | _ :: _, [], _, x, hx, _, _, _ => by simp at hx
  | a :: l, n :: ns, hnd, x, hx, y, hy, hxy => by
    have hnd' := List.nodup_cons.1 hnd
    simp only [List.zip_cons_cons, List.mem_cons] at hx hy
    rcases hx with rfl | hx <;> rcases hy with rfl | hy
    · rfl
    · have h2 := (List.of_mem_zip hy).1
      simp only at hxy
      rw [← hxy] at h2
      exact absurd h2 hnd'.1
    · have h2 := (List.of_mem_zip hx).1
      simp only at hxy
      rw [hxy] at h2
      exact absurd h2 hnd'.1
    · exact zip_fst_inj l ns hnd'.2 x hx y hy hxy

theorem nodup_of_keys {gs : Groups} (h : (gs.map (·.1)).Nodup) : gs.Nodup := by
  induction gs with
  | nil => exact List.nodup_nil
  | cons e gs ih =>
    simp only [List.map_cons] at h
    have h' := List.nodup_cons.1 h
    exact List.nodup_cons.2 ⟨fun hm => h'.1 (List.mem_map.2 ⟨e, hm, rfl⟩), ih h'.2⟩

theorem take_one_eq_nil {α : Type} {l : List α} (h : l.take 1 = []) : l = [] := by
  cases l with
  | nil => rfl
  | cons a l => simp at h

theorem body_le_foldl (ps : List SProd) : ∀ (a : Nat), a ≤ ps.foldl (fun a p => a + p.body.length + 1) a ∧
    ∀ p ∈ ps, p.body.length ≤ ps.foldl (fun a p => a + p.body.length + 1) a := by
  induction ps with
  | nil => intro a; simp
  | cons q ps ih =>
    intro a
    obtain ⟨h₁, h₂⟩ := ih (a + q.body.length + 1)
    simp only [List.foldl_cons]
    refine ⟨by omega, ?_⟩
    intro p hp
    rcases List.mem_cons.1 hp with rfl | hp
    · omega
    · exact h₂ p hp

theorem body_le_sizeOf (g : G) : ∀ p ∈ g.prods, p.body.length ≤ sizeOf g := by
  intro p hp
  have := (body_le_foldl g.prods 0).2 p hp
  unfold sizeOf
  exact Nat.le_trans this (Nat.le_add_left _ _)

end LF

/-! ### what "can be folded" means in terms of productions -/

/-- a non-terminal that can be folded has two different alternatives with the same first symbol -/
theorem unst_witness {g : G} {A : String} (h : lfStable g A = false) :
    ∃ p ∈ g.prods, ∃ q ∈ g.prods, p.head = A ∧ q.head = A ∧ p ≠ q ∧ p.body.take 1 = q.body.take 1 ∧ p.body ≠ [] := by
  have hok := groupsOf_ok (prodsOf g.prods A)
  have hsound := groupsOf_sound (prodsOf g.prods A)
  unfold lfStable at h
  simp only [Bool.or_eq_false_iff] at h
  have hpg : (groupsOf (prodsOf g.prods A)).filter (fun e => e.2.length ≥ 2) ≠ [] := by
    intro hnil
    rw [hnil] at h
    simp at h
  obtain ⟨e, he⟩ := List.exists_mem_of_ne_nil _ hpg
  obtain ⟨he, hlen⟩ := List.mem_filter.1 he
  have hlen' : 2 ≤ e.2.length := by simpa using hlen
  obtain ⟨s, hs⟩ := List.exists_mem_of_ne_nil _ (hsound e he).1
  obtain ⟨s', hs', hne⟩ := exists_ne_of_nodup (hok.sufs e he) hlen' s
  obtain ⟨p, hp, hpk, hps⟩ := hok.from_prod e he s hs
  obtain ⟨q, hq, hqk, hqs⟩ := hok.from_prod e he s' hs'
  have hp' := mem_prodsOf.1 hp
  have hq' := mem_prodsOf.1 hq
  have hpq : p ≠ q := fun e' => hne (by rw [← hqs, ← hps, e'])
  refine ⟨p, hp'.1, q, hq'.1, hp'.2, hq'.2, hpq, by rw [hpk, hqk], ?_⟩
  intro hnil
  have hq0 : q.body = [] := take_one_eq_nil (by rw [hqk, ← hpk, hnil]; rfl)
  exact hpq (prod_ext (hp'.2.trans hq'.2.symm) (by rw [hpk, hqk]) (by rw [hnil, hq0]))

/-- alternatives with pairwise different first symbols cannot be folded -/
theorem stable_of_distinct {g : G} {A : String}
    (h : ∀ p ∈ g.prods, ∀ q ∈ g.prods, p.head = A → q.head = A → p.body.take 1 = q.body.take 1 → p = q) :
    lfStable g A = true := by
  cases hs : lfStable g A with
  | true => rfl
  | false =>
    obtain ⟨p, hp, q, hq, hpA, hqA, hne, hk, _⟩ := unst_witness hs
    exact absurd (h p hp q hq hpA hqA hk) hne

/-- every body has length at most `m` for the non-terminals that can be folded -/
def Bnd (m : Nat) (g : G) : Prop :=
  ∀ A, lfStable g A = false → ∀ p ∈ g.prods, p.head = A → p.body.length ≤ m

theorem stable_of_bnd_zero {g : G} (h : Bnd 0 g) (A : String) : lfStable g A = true := by
  cases hs : lfStable g A with
  | true => rfl
  | false =>
    obtain ⟨p, hp, _, _, hpA, _, _, _, hne⟩ := unst_witness hs
    have := h A hs p hp hpA
    exact absurd (List.eq_nil_of_length_eq_zero (by omega)) hne

/-! ### one non-terminal -/

theorem lfHead_stable {g : G} {A : String} (h : lfStable g A = true) : lfHead g A = .ok (g, false) := by
  unfold lfHead
  simp only
  split
  · rfl
  · unfold lfStable at h
    simp only at h
    simp only [h, ↓reduceIte]
    rfl

theorem lfStep_ne_diverge (A : String) (g : G) (e : List SSym × List (List SSym)) : lfStep A g e ≠ .diverge := by
  unfold lfStep
  cases h : addNew g A primes with
  | ok r => simp [bind, Outcome.bind, pure]
  | panic => simp [bind, Outcome.bind]
  | diverge => exact absurd h (addNew_ne_diverge g A primes)

theorem lfHead_ne_diverge (g : G) (A : String) : lfHead g A ≠ .diverge := by
  unfold lfHead
  simp only
  split
  · simp [pure]
  · split
    · simp [pure]
    · intro h
      have hfold := foldlM_ne_diverge (lfStep A) (lfStep_ne_diverge A)
        (sortBy (fun a b => bodyLt a.1 b.1) ((groupsOf (prodsOf g.prods A)).filter (fun e => e.2.length ≥ 2)))
        { g with prods := g.prods.filter (fun p => p.head ≠ A) }
      change (List.foldlM (lfStep A) _ _ >>= _) = Outcome.diverge at h
      cases hf : List.foldlM (lfStep A) ({ g with prods := g.prods.filter (fun p => p.head ≠ A) } : G)
          (sortBy (fun a b => bodyLt a.1 b.1) ((groupsOf (prodsOf g.prods A)).filter (fun e => e.2.length ≥ 2))) with
      | ok g1 => rw [hf] at h; simp [bind, Outcome.bind, pure] at h
      | panic => rw [hf] at h; simp [bind, Outcome.bind] at h
      | diverge => exact hfold hf

/-- `lfHead` panics only because `AddNewNonTerminal` found every primed name taken -/
theorem lfHead_panic {g : G} {A : String} (h : lfHead g A = .panic) :
    ∃ g₁ : G, freshName g₁.nonterms A primes = none := by
  have key : ∀ (l : Groups) (g0 : G), l.foldlM (lfStep A) g0 = .panic →
      ∃ g₁ : G, freshName g₁.nonterms A primes = none := by
    intro l
    induction l with
    | nil => intro g0 h0; cases h0
    | cons e l ih =>
      intro g0 h0
      rw [foldlM_cons] at h0
      cases hs : lfStep A g0 e with
      | ok gm => rw [hs] at h0; exact ih gm h0
      | diverge => exact absurd hs (lfStep_ne_diverge A g0 e)
      | panic =>
        unfold lfStep at hs
        cases hn : addNew g0 A primes with
        | ok r => rw [hn] at hs; simp [bind, Outcome.bind, pure] at hs
        | diverge => exact absurd hn (addNew_ne_diverge g0 A primes)
        | panic =>
          refine ⟨g0, ?_⟩
          unfold addNew at hn
          split at hn
          · cases hn
          · assumption
  unfold lfHead at h
  simp only at h
  split at h
  · cases h
  · split at h
    · cases h
    · change (List.foldlM (lfStep A) _ _ >>= _) = Outcome.panic at h
      cases hf : List.foldlM (lfStep A) ({ g with prods := g.prods.filter (fun p => p.head ≠ A) } : G)
          (sortBy (fun a b => bodyLt a.1 b.1) ((groupsOf (prodsOf g.prods A)).filter (fun e => e.2.length ≥ 2))) with
      | ok g1 => rw [hf] at h; simp [bind, Outcome.bind, pure] at h
      | panic => exact key _ _ hf
      | diverge => rw [hf] at h; simp [bind, Outcome.bind] at h

/-- the fold over the prefix groups does not touch the productions of other declared non-terminals -/
theorem foldlM_lfStep_prodsOf (A : String) : ∀ (l : Groups) (g0 g1 : G), l.foldlM (lfStep A) g0 = .ok g1 →
    ∀ B, B ≠ A → B ∈ g0.nonterms → prodsOf g1.prods B = prodsOf g0.prods B
  | [], g0, g1, h, _, _, _ => by cases h; rfl
  | e :: l, g0, g1, h, B, hBA, hB => by
    rw [foldlM_cons] at h
    obtain ⟨gm, hm, h'⟩ := bind_eq_ok h
    have hm' := hm
    unfold lfStep at hm'
    obtain ⟨⟨g', n⟩, hn, hp⟩ := bind_eq_ok hm'
    obtain ⟨hfresh, rfl⟩ := addNew_ok hn
    cases hp
    have hnB : n ≠ B := fun e' => hfresh (e' ▸ hB)
    rw [foldlM_lfStep_prodsOf A l _ g1 h' B hBA (List.mem_append_left _ hB)]
    unfold prodsOf
    simp only
    rw [filter_insAll_of_not, filter_ins_of_not]
    · simpa using fun e' => hBA e'.symm
    · intro x hx
      obtain ⟨s, _, rfl⟩ := List.mem_map.1 hx
      simpa using hnB

theorem altFold_prodsOf (A : String) (B : String) (hBA : B ≠ A) : ∀ (ag : Groups) (ps : List SProd),
    prodsOf (ag.foldl (fun ps e => insAll ps (e.2.map (fun s => ({ head := A, body := e.1 ++ s } : SProd)))) ps) B =
      prodsOf ps B
  | [], _ => rfl
  | e :: ag, ps => by
    simp only [List.foldl_cons]
    rw [altFold_prodsOf A B hBA ag]
    unfold prodsOf
    rw [filter_insAll_of_not]
    intro x hx
    obtain ⟨s, _, rfl⟩ := List.mem_map.1 hx
    simpa using fun e' => hBA e'.symm

/-- a fold of `A`: `A` could be folded, cannot be folded afterwards, the productions of the other declared
non-terminals are untouched, and the productions of the result are the old ones of other heads, the new
`A → x A′`, `A′ → s` and the alternatives of `A` with a unique first symbol -/
theorem lfHead_changed {g g' : G} {A : String} (h : lfHead g A = .ok (g', true)) (hw : WellFormed g) :
    lfStable g A = false ∧ lfStable g' A = true ∧
    (∀ B, B ≠ A → B ∈ g.nonterms → prodsOf g'.prods B = prodsOf g.prods B) ∧
    (∀ p ∈ g'.prods, (p ∈ g.prods ∧ p.head ≠ A) ∨ p.head = A ∨
      (p.head ∉ g.nonterms ∧ ∃ x, (⟨A, x :: p.body⟩ : SProd) ∈ g.prods)) := by
  unfold lfHead at h
  simp only at h
  split at h
  · cases h
  · rename_i hAP
    split at h
    · cases h
    · rename_i hcond
      have hunst : lfStable g A = false := by
        unfold lfStable
        simpa using hcond
      obtain ⟨g1, hfold, h'⟩ := bind_eq_ok h
      cases h'
      change List.foldlM (lfStep A) _ _ = .ok g1 at hfold
      have hsound := groupsOf_sound (prodsOf g.prods A)
      have hok := groupsOf_ok (prodsOf g.prods A)
      generalize hgs : groupsOf (prodsOf g.prods A) = gs at hfold hsound hok
      have hpgnd : (gs.filter (fun e => e.2.length ≥ 2)).Nodup := (nodup_of_keys hok.keys).filter _
      generalize hl : sortBy (fun a b => bodyLt a.1 b.1) (gs.filter (fun e => e.2.length ≥ 2)) = l at hfold
      have hl_mem : ∀ e, e ∈ l ↔ e ∈ gs ∧ e.2.length ≥ 2 := by
        intro e
        rw [← hl, mem_sortBy, List.mem_filter]
        simp
      have hl_nd : l.Nodup := by rw [← hl]; exact nodup_sortBy _ _ hpgnd
      have hother := foldlM_lfStep_prodsOf A l _ g1 hfold
      obtain ⟨names, hlen, hnts, hst, htm, hfresh, hnd, hpr⟩ := foldlM_lfStep A l _ g1 hfold
      simp only at hnts hst htm hfresh hpr hother
      have hA : A ∈ g.nonterms := by
        cases hAPl : prodsOf g.prods A with
        | nil => simp [hAPl] at hAP
        | cons p _ =>
          have hp : p ∈ prodsOf g.prods A := by rw [hAPl]; exact List.mem_cons_self ..
          have := mem_prodsOf.1 hp
          exact this.2 ▸ (hw.2 p this.1).1
      -- a prefix group has a one-symbol key
      have hkey : ∀ e ∈ l, ∃ x, e.1 = [x] := by
        intro e he
        obtain ⟨hegs, helen⟩ := (hl_mem e).1 he
        obtain ⟨s, hs⟩ := List.exists_mem_of_ne_nil _ (hsound e hegs).1
        obtain ⟨s', hs', hne⟩ := exists_ne_of_nodup (hok.sufs e hegs) (by simpa using helen) s
        obtain ⟨p, _, hpk, hps⟩ := hok.from_prod e hegs s hs
        obtain ⟨q, _, hqk, hqs⟩ := hok.from_prod e hegs s' hs'
        cases hb : p.body with
        | nil =>
          exfalso
          have hq0 : q.body = [] := take_one_eq_nil (by rw [hqk, ← hpk, hb]; rfl)
          exact hne (by rw [← hqs, ← hps, hb, hq0])
        | cons x xs => exact ⟨x, by rw [← hpk, hb]; rfl⟩
      -- bodies of the groups, with their first symbol
      have hbody : ∀ e ∈ gs, ∀ s ∈ e.2, (⟨A, e.1 ++ s⟩ : SProd) ∈ g.prods ∧ (e.1 ++ s).take 1 = e.1 := by
        intro e he s hs
        obtain ⟨p, hp, hpk, hps⟩ := hok.from_prod e he s hs
        have hp' := mem_prodsOf.1 hp
        have hb : p.body = e.1 ++ s := by rw [← hpk, ← hps]; exact (List.take_append_drop 1 p.body).symm
        have hpe : p = ⟨A, e.1 ++ s⟩ := by
          cases p
          simp only at hb hp'
          simp [hb, hp'.2]
        exact ⟨hpe ▸ hp'.1, by rw [← hb]; exact hpk⟩
      -- the productions of the result
      have hmem : ∀ p, p ∈ (gs.filter (fun e => e.2.length = 1)).foldl
            (fun ps e => insAll ps (e.2.map (fun s => ({ head := A, body := e.1 ++ s } : SProd)))) g1.prods ↔
          (p ∈ g.prods ∧ p.head ≠ A) ∨
          (∃ en ∈ l.zip names, p = ⟨A, en.1.1 ++ [Sym.nonterm en.2]⟩ ∨ ∃ s ∈ en.1.2, p = ⟨en.2, s⟩) ∨
          (∃ e ∈ gs, e.2.length = 1 ∧ ∃ s ∈ e.2, p = ⟨A, e.1 ++ s⟩) := by
        intro p
        rw [mem_altFold, hpr, List.mem_filter]
        simp only [List.mem_filter, decide_eq_true_eq]
        constructor
        · rintro ((⟨h₁, h₂⟩ | h₁) | ⟨e, ⟨he, h1⟩, s, hs, rfl⟩)
          · exact .inl ⟨h₁, by simpa using h₂⟩
          · exact .inr (.inl h₁)
          · exact .inr (.inr ⟨e, he, h1, s, hs, rfl⟩)
        · rintro (⟨h₁, h₂⟩ | h₁ | ⟨e, he, h1, s, hs, rfl⟩)
          · exact .inl (.inl ⟨h₁, by simpa using h₂⟩)
          · exact .inl (.inr h₁)
          · exact .inr ⟨e, ⟨he, h1⟩, s, hs, rfl⟩
      refine ⟨hunst, ?_, ?_, ?_⟩
      · -- `A` has alternatives with pairwise different first symbols now
        apply stable_of_distinct
        intro p hp q hq hpA hqA hk
        simp only at hp hq
        -- an alternative of `A` in the result: its group and its first symbol
        have halt : ∀ r, r ∈ (gs.filter (fun e => e.2.length = 1)).foldl
              (fun ps e => insAll ps (e.2.map (fun s => ({ head := A, body := e.1 ++ s } : SProd)))) g1.prods →
            r.head = A →
            (∃ en ∈ l.zip names, r = ⟨A, en.1.1 ++ [Sym.nonterm en.2]⟩ ∧ r.body.take 1 = en.1.1) ∨
            (∃ e ∈ gs, e.2.length = 1 ∧ ∃ s ∈ e.2, r = ⟨A, e.1 ++ s⟩ ∧ r.body.take 1 = e.1) := by
          intro r hr hrA
          rcases (hmem r).1 hr with ⟨_, hne⟩ | ⟨en, hen, rfl | ⟨s, _, rfl⟩⟩ | ⟨e, he, h1, s, hs, rfl⟩
          · exact absurd hrA hne
          · obtain ⟨x, hx⟩ := hkey en.1 (List.of_mem_zip hen).1
            exact .inl ⟨en, hen, rfl, by simp [hx]⟩
          · simp only at hrA
            exact absurd (hrA ▸ hA) (hfresh _ (List.of_mem_zip hen).2)
          · exact .inr ⟨e, he, h1, s, hs, rfl, (hbody e he s hs).2⟩
        rcases halt p hp hpA with ⟨en, hen, rfl, hpk⟩ | ⟨e, he, h1, s, hs, rfl, hpk⟩ <;>
          rcases halt q hq hqA with ⟨en', hen', rfl, hqk⟩ | ⟨e', he', h1', s', hs', rfl, hqk⟩
        · have hkk : en.1.1 = en'.1.1 := by rw [← hpk, ← hqk]; exact hk
          have hee : en.1 = en'.1 := same_of_key hok.keys ((hl_mem _).1 (List.of_mem_zip hen).1).1
            ((hl_mem _).1 (List.of_mem_zip hen').1).1 hkk
          rw [zip_fst_inj l names hl_nd en hen en' hen' hee]
        · exfalso
          have hkk : en.1.1 = e'.1 := by rw [← hpk, ← hqk]; exact hk
          have hee := same_of_key hok.keys ((hl_mem _).1 (List.of_mem_zip hen).1).1 he' hkk
          have := ((hl_mem _).1 (List.of_mem_zip hen).1).2
          rw [hee] at this
          omega
        · exfalso
          have hkk : en'.1.1 = e.1 := by rw [← hpk, ← hqk]; exact hk.symm
          have hee := same_of_key hok.keys ((hl_mem _).1 (List.of_mem_zip hen').1).1 he hkk
          have := ((hl_mem _).1 (List.of_mem_zip hen').1).2
          rw [hee] at this
          omega
        · have hkk : e.1 = e'.1 := by rw [← hpk, ← hqk]; exact hk
          have hee := same_of_key hok.keys he he' hkk
          subst hee
          have : s = s' := by
            match hm : e.2, h1, hs, hs' with
            | [t], _, hs, hs' => simp at hs hs'; rw [hs, hs']
          rw [this]
      · -- other declared non-terminals
        intro B hBA hB
        simp only
        rw [altFold_prodsOf A B hBA, hother B hBA hB]
        unfold prodsOf
        rw [List.filter_filter]
        apply List.filter_congr
        intro p _
        by_cases hpB : p.head = B
        · simp [hpB, hBA]
        · simp [hpB]
      · intro p hp
        simp only at hp
        rcases (hmem p).1 hp with h₁ | ⟨en, hen, rfl | ⟨s, hs, rfl⟩⟩ | ⟨e, _, _, s, _, rfl⟩
        · exact .inl h₁
        · exact .inr (.inl rfl)
        · obtain ⟨x, hx⟩ := hkey en.1 (List.of_mem_zip hen).1
          have := (hbody en.1 ((hl_mem _).1 (List.of_mem_zip hen).1).1 s hs).1
          rw [hx] at this
          exact .inr (.inr ⟨hfresh _ (List.of_mem_zip hen).2, x, by simpa using this⟩)
        · exact .inr (.inl rfl)

/-! ### one pass lowers the bound -/

/-- invariant of the loop over the non-terminals of one pass: a non-terminal that can be folded has
bodies of length ≤ `m`, or is still to be visited and has bodies of length ≤ `m+1` -/
def PassInv (m : Nat) (todo : List String) (g : G) : Prop :=
  WellFormed g ∧ ∀ B, lfStable g B = false →
    (∀ p ∈ g.prods, p.head = B → p.body.length ≤ m) ∨ (B ∈ todo ∧ ∀ p ∈ g.prods, p.head = B → p.body.length ≤ m + 1)

theorem lfFold_inv (m : Nat) : ∀ (todo : List String) (st st' : G × Bool), PassInv m todo st.1 →
    todo.foldlM (fun (st : G × Bool) A => do
      let (g', ch) ← lfHead st.1 A
      pure (g', st.2 || ch)) st = .ok st' → PassInv m [] st'.1
  | [], st, st', hinv, h => by
    cases h
    exact hinv
  | A :: todo, st, st', hinv, h => by
    rw [foldlM_cons] at h
    obtain ⟨st₁, h₁, h₂⟩ := bind_eq_ok h
    obtain ⟨⟨g₁, ch⟩, hh, hp⟩ := bind_eq_ok h₁
    cases hp
    refine lfFold_inv m todo _ st' ?_ h₂
    simp only
    obtain ⟨hw, hB⟩ := hinv
    cases ch with
    | false =>
      obtain ⟨rfl, hstA⟩ := lfHead_flag hh rfl
      refine ⟨hw, fun B hBu => ?_⟩
      rcases hB B hBu with h | ⟨hmem, h⟩
      · exact .inl h
      · rcases List.mem_cons.1 hmem with rfl | hmem
        · rw [hstA] at hBu; cases hBu
        · exact .inr ⟨hmem, h⟩
    | true =>
      obtain ⟨hAu, hAs, hother, hprods⟩ := lfHead_changed hh hw
      refine ⟨(lfHead_good hh hw).1, fun B hBu => ?_⟩
      have hBA : B ≠ A := fun e => by rw [e, hAs] at hBu; cases hBu
      -- the bodies of `A` before the fold
      have hAlen : ∀ p ∈ st.1.prods, p.head = A → p.body.length ≤ m + 1 := by
        rcases hB A hAu with h | ⟨_, h⟩
        · exact fun p hp hpA => Nat.le_succ_of_le (h p hp hpA)
        · exact h
      obtain ⟨p₀, hp₀, _, _, hp₀B, _⟩ := unst_witness hBu
      by_cases hBdecl : B ∈ st.1.nonterms
      · -- an old non-terminal: nothing about it changed
        have heq := hother B hBA hBdecl
        have hBu' : lfStable st.1 B = false := by
          unfold lfStable at hBu ⊢
          rw [← heq]; exact hBu
        have hsame : ∀ p, p ∈ g₁.prods ∧ p.head = B ↔ p ∈ st.1.prods ∧ p.head = B := by
          intro p
          rw [← mem_prodsOf, ← mem_prodsOf, heq]
        rcases hB B hBu' with h | ⟨hmem, h⟩
        · exact .inl (fun p hp hpB => h p ((hsame p).1 ⟨hp, hpB⟩).1 hpB)
        · rcases List.mem_cons.1 hmem with rfl | hmem
          · exact absurd rfl hBA
          · exact .inr ⟨hmem, fun p hp hpB => h p ((hsame p).1 ⟨hp, hpB⟩).1 hpB⟩
      · -- a fresh non-terminal: its bodies are bodies of `A` without the first symbol
        left
        intro p hp hpB
        rcases hprods p hp with ⟨hp', _⟩ | hpA | ⟨_, x, hx⟩
        · exact absurd (hpB ▸ (hw.2 p hp').1) hBdecl
        · exact absurd (hpB.symm.trans hpA) hBA
        · have := hAlen _ hx rfl
          simp only [List.length_cons] at this
          omega

/-- a pass turns the bound `m + 1` into `m` -/
theorem lfPass_bnd {g g' : G} {ch : Bool} {m : Nat} (h : lfPass g = .ok (g', ch)) (hw : WellFormed g)
    (hb : Bnd (m + 1) g) : WellFormed g' ∧ Bnd m g' := by
  unfold lfPass at h
  obtain ⟨nts, hnts, h'⟩ := bind_eq_ok h
  have hinv : PassInv m nts g := by
    refine ⟨hw, fun B hBu => .inr ⟨?_, hb B hBu⟩⟩
    obtain ⟨p, hp, _, _, hpB, _⟩ := unst_witness hBu
    exact orderNT_mem hnts B (hpB ▸ (hw.2 p hp).1)
  obtain ⟨hw', hB⟩ := lfFold_inv m nts (g, false) (g', ch) hinv h'
  refine ⟨hw', fun B hBu => ?_⟩
  rcases hB B hBu with h | ⟨hmem, _⟩
  · exact h
  · cases hmem

/-- when nothing can be folded a pass reports "unchanged" -/
theorem lfFold_stable : ∀ (nts : List String) (g : G) (b : Bool), (∀ A, lfStable g A = true) →
    nts.foldlM (fun (st : G × Bool) A => do
      let (g', ch) ← lfHead st.1 A
      pure (g', st.2 || ch)) (g, b) = .ok (g, b)
  | [], _, _, _ => rfl
  | A :: nts, g, b, h => by
    rw [foldlM_cons]
    simp only [lfHead_stable (h A), bind, Outcome.bind, pure, Bool.or_false]
    exact lfFold_stable nts g b h

theorem lfPass_stable {g : G} (h : ∀ A, lfStable g A = true) : lfPass g = .ok (g, false) := by
  obtain ⟨nts, hnts⟩ := orderNT_total g
  unfold lfPass
  simp only [hnts, bind, Outcome.bind]
  exact lfFold_stable nts g false h

theorem lfPass_ne_diverge (g : G) : lfPass g ≠ .diverge := by
  obtain ⟨nts, hnts⟩ := orderNT_total g
  unfold lfPass
  simp only [hnts, bind, Outcome.bind]
  refine foldlM_ne_diverge _ ?_ nts (g, false)
  intro st A
  cases hh : lfHead st.1 A with
  | ok r => simp [bind, Outcome.bind, pure]
  | panic => simp [bind, Outcome.bind]
  | diverge => exact absurd hh (lfHead_ne_diverge _ _)

/-! ### the loop -/

/-- with bound `m` the loop needs at most `m + 1` passes -/
theorem lfLoop_ne_diverge : ∀ (m fuel : Nat) (g : G), WellFormed g → Bnd m g → m < fuel → lfLoop fuel g ≠ .diverge
  | _, 0, _, _, _, hf => by omega
  | m, fuel + 1, g, hw, hb, hf => by
    simp only [lfLoop]
    cases hp : lfPass g with
    | diverge => exact absurd hp (lfPass_ne_diverge g)
    | panic => simp [bind, Outcome.bind]
    | ok r =>
      obtain ⟨g', ch⟩ := r
      simp only [bind, Outcome.bind]
      cases ch with
      | false => simp [pure]
      | true =>
        simp only [↓reduceIte]
        cases m with
        | zero =>
          have := lfPass_stable (stable_of_bnd_zero hb)
          rw [this] at hp
          cases hp
        | succ m =>
          obtain ⟨hw', hb'⟩ := lfPass_bnd hp hw hb
          exact lfLoop_ne_diverge m fuel g' hw' hb' (by omega)

/-- **LeftFactor never runs out of fuel**: for the Model's fuel or any fuel above `sizeOf g` -/
theorem lfLoop_ne_diverge_of_size {g : G} (hw : WellFormed g) {fuel : Nat} (hf : sizeOf g < fuel) :
    lfLoop fuel g ≠ .diverge :=
  lfLoop_ne_diverge (sizeOf g) fuel g hw (fun _ _ p hp _ => body_le_sizeOf g p hp) hf

theorem C08_leftfactor_ne_diverge {g : G} (hw : WellFormed g) : leftFactor g ≠ .diverge :=
  lfLoop_ne_diverge_of_size hw (by omega)

/-- "LeftFactor does not run out of primed names", as a computable condition: running the Model does not end
in `AddNewNonTerminal`'s panic -/
def lfNamesSuffice (g : G) : Bool :=
  match leftFactor g with
  | .panic => false
  | _ => true

/-- **LeftFactor is total and preserves the language** whenever the four primed names per base name
suffice -/
theorem C08_leftfactor_total {g : G} (hv : Valid g) (hn : lfNamesSuffice g = true) :
    ∃ g', leftFactor g = .ok g' ∧ SameLanguage g g' := by
  cases h : leftFactor g with
  | ok g' => exact ⟨g', rfl, C08_leftfactor_of_wellFormed hv.wellFormed h⟩
  | panic => simp [lfNamesSuffice, h] at hn
  | diverge => exact absurd h (C08_leftfactor_ne_diverge hv.wellFormed)

/-- the same with everything that is proved of the result -/
theorem C08_leftfactor_total_full {g : G} (hv : Valid g) (hn : lfNamesSuffice g = true) :
    ∃ g', leftFactor g = .ok g' ∧ SameLanguage g g' ∧ Valid g' ∧ UniformHeads g' := by
  obtain ⟨g', h, hl⟩ := C08_leftfactor_total hv hn
  exact ⟨g', h, hl, C09_leftfactor_valid hv h, C09_leftfactor_uniformHeads h⟩

/-- the hypotheses hold for `S → a b | a c | d`, on which a group really is folded -/
example : ∃ g', leftFactor leftFactorExample = .ok g' ∧ SameLanguage leftFactorExample g' :=
  C08_leftfactor_total leftFactorExample_run.1 (by decide)

end AlgoVerif.C08
