import AlgoVerif.Proofs.C14Basic
/-!
# C14 proofs — the exchange argument: edges chosen by the cut rule form a minimum spanning forest

Pure edge-list theory (no Model): connectivity through an edge list, forests (`Acyc`), the exchange step
(`exchange`: in a forest, a crossing edge on the way between the ends of a new edge can be swapped for it),
and `cut_rule_optimal`: if every edge of `T` was, in rank order, a lightest edge crossing the cut
between the vertices ranked before its child and the rest, then `T` weighs no more than any spanning forest.
-/
namespace AlgoVerif.C14

theorem Joins.symm {e : Edge} {a b : Nat} (h : Joins e a b) : Joins e b a := by
  unfold Joins at *; omega

theorem Joins.ends (e : Edge) : Joins e e.a e.b := Or.inl ⟨rfl, rfl⟩

theorem Joins.same {e : Edge} {a b c d : Nat} (h : Joins e a b) (h' : Joins e c d) :
    (a = c ∧ b = d) ∨ (a = d ∧ b = c) := by
  unfold Joins at *; omega

theorem EAdj.symm {F : List Edge} {a b : Nat} (h : EAdj F a b) : EAdj F b a := by
  obtain ⟨e, he, hj⟩ := h; exact ⟨e, he, hj.symm⟩

theorem EConn.symm {F : List Edge} {a b : Nat} (h : EConn F a b) : EConn F b a :=
  Reach.symm (fun _ _ h => EAdj.symm h) h

theorem EConn.mono {F F' : List Edge} (hs : ∀ e ∈ F, e ∈ F') {a b : Nat} (h : EConn F a b) : EConn F' a b :=
  Reach.mono (fun _ _ ⟨e, he, hj⟩ => ⟨e, hs e he, hj⟩) h

theorem EConn.edge {F : List Edge} {e : Edge} {a b : Nat} (he : e ∈ F) (hj : Joins e a b) : EConn F a b :=
  Reach.single ⟨e, he, hj⟩

theorem mem_erase_nodup {F : List Edge} (hn : F.Nodup) {x f : Edge} : x ∈ F.erase f ↔ x ≠ f ∧ x ∈ F :=
  List.Nodup.mem_erase_iff hn

theorem erase_sub {F : List Edge} {f x : Edge} (h : x ∈ F.erase f) : x ∈ F := List.mem_of_mem_erase h

/-- a walk either avoids `f` or passes through it (then its two parts avoid `f`) -/
theorem EConn.split {F : List Edge} (hn : F.Nodup) {f : Edge} {x y : Nat} (h : EConn F x y) :
    EConn (F.erase f) x y ∨ ∃ c d, Joins f c d ∧ EConn (F.erase f) x c ∧ EConn (F.erase f) d y := by
  induction h with
  | refl => exact Or.inl (.refl _)
  | @tail v z _ hvz ih =>
    obtain ⟨e', he', hj'⟩ := hvz
    by_cases hef : e' = f
    · subst hef
      rcases ih with h1 | ⟨c, d, hj, h1, h2⟩
      · exact Or.inr ⟨v, z, hj', h1, .refl _⟩
      · rcases hj'.same hj with ⟨rfl, rfl⟩ | ⟨rfl, rfl⟩
        · exact Or.inl (h1.trans h2.symm)
        · exact Or.inl h1
    · have hm : e' ∈ F.erase f := (mem_erase_nodup hn).2 ⟨hef, he'⟩
      rcases ih with h1 | ⟨c, d, hj, h1, h2⟩
      · exact Or.inl (.tail h1 ⟨e', hm, hj'⟩)
      · exact Or.inr ⟨c, d, hj, h1, .tail h2 ⟨e', hm, hj'⟩⟩

/-- a walk from inside `S` to outside uses an edge that crosses -/
theorem EConn.crossing {F : List Edge} {S : Nat → Prop} {p w : Nat} (h : EConn F p w) (hp : S p) (hw : ¬ S w) :
    ∃ f ∈ F, ∃ a b, Joins f a b ∧ S a ∧ ¬ S b := by
  induction h with
  | refl => exact absurd hp hw
  | @tail v z _ hvz ih =>
    by_cases hv : S v
    · obtain ⟨e, he, hj⟩ := hvz
      exact ⟨e, he, v, z, hj, hv, hw⟩
    · exact ih hv

theorem Acyc.erase {F : List Edge} (h : Acyc F) (f : Edge) : Acyc (F.erase f) := by
  refine ⟨h.1.erase f, ?_⟩
  intro e he hc
  have he' : e ∈ F := erase_sub he
  apply h.2 e he'
  refine hc.mono ?_
  intro x hx
  have h1 := (mem_erase_nodup (h.1.erase f)).1 hx
  exact (mem_erase_nodup h.1).2 ⟨h1.1, erase_sub h1.2⟩

/-- in a forest, some crossing edge separates `p` from `w` -/
theorem Acyc.separating {S : Nat → Prop} {p w : Nat} (hp : S p) (hw : ¬ S w) :
    ∀ (k : Nat) (F : List Edge), F.length = k → Acyc F → EConn F p w →
      ∃ f ∈ F, ∃ a b, Joins f a b ∧ S a ∧ ¬ S b ∧ ¬ EConn (F.erase f) p w := by
  intro k
  induction k with
  | zero =>
    intro F hl _ hc
    have : F = [] := List.length_eq_zero_iff.1 hl
    subst this
    obtain ⟨f, hf, _⟩ := hc.crossing hp hw
    simp at hf
  | succ k ih =>
    intro F hl hac hc
    obtain ⟨f1, hf1, a1, b1, hj1, ha1, hb1⟩ := hc.crossing hp hw
    by_cases hsep : EConn (F.erase f1) p w
    · -- f1 does not separate: look in the smaller forest
      have hl' : (F.erase f1).length = k := by rw [List.length_erase_of_mem hf1]; omega
      obtain ⟨f2, hf2, a2, b2, hj2, ha2, hb2, hsep2⟩ := ih (F.erase f1) hl' (hac.erase f1) hsep
      have hf2F : f2 ∈ F := erase_sub hf2
      have hne : f2 ≠ f1 := ((mem_erase_nodup hac.1).1 hf2).1
      refine ⟨f2, hf2F, a2, b2, hj2, ha2, hb2, ?_⟩
      intro hc2
      -- H = F − f1 − f2
      have hcomm : ∀ x, x ∈ (F.erase f2).erase f1 → x ∈ (F.erase f1).erase f2 := by
        intro x hx
        have h1 := (mem_erase_nodup (hac.1.erase f2)).1 hx
        have h2 := (mem_erase_nodup hac.1).1 h1.2
        exact (mem_erase_nodup (hac.1.erase f1)).2 ⟨h2.1, (mem_erase_nodup hac.1).2 ⟨h1.1, h2.2⟩⟩
      have hf1' : f1 ∈ F.erase f2 := (mem_erase_nodup hac.1).2 ⟨fun e => hne e.symm, hf1⟩
      rcases (EConn.split (hac.1.erase f2) (f := f1) hc2) with h1 | ⟨x1, y1, hjx, h1, h2⟩
      · exact hsep2 (h1.mono hcomm)
      · rcases (EConn.split (hac.1.erase f1) (f := f2) hsep) with h3 | ⟨x2, y2, hjy, h3, h4⟩
        · exact hsep2 h3
        · -- x1 ~ p ~ x2 and y1 ~ w ~ y2 in H, and f2 joins x2, y2: the ends of f1 are connected without f1
          have hx : EConn ((F.erase f1).erase f2) x1 x2 := (h1.mono hcomm).symm.trans h3
          have hy : EConn ((F.erase f1).erase f2) y2 y1 := h4.trans (h2.mono hcomm).symm
          have hsub : ∀ e ∈ (F.erase f1).erase f2, e ∈ F.erase f1 := fun e he => erase_sub he
          have hcyc : EConn (F.erase f1) x1 y1 :=
            ((hx.mono hsub).trans (EConn.edge hf2 hjy)).trans (hy.mono hsub)
          apply hac.2 f1 hf1
          rcases hjx.same (Joins.ends f1) with ⟨rfl, rfl⟩ | ⟨rfl, rfl⟩
          · exact hcyc
          · exact hcyc.symm
    · exact ⟨f1, hf1, a1, b1, hj1, ha1, hb1, hsep⟩

/-- **exchange**: `e` joins `p` and `w`, `f ∈ F` separates them; `e :: F.erase f` is again a forest and
connects everything `F` connects -/
theorem Acyc.exchange {F : List Edge} (hac : Acyc F) {e f : Edge} {p w : Nat} (he : e ∉ F) (hj : Joins e p w)
    (hf : f ∈ F) (hc : EConn F p w) (hsep : ¬ EConn (F.erase f) p w) :
    Acyc (e :: F.erase f) ∧ ∀ x y, EConn F x y → EConn (e :: F.erase f) x y := by
  have hne : e ∉ F.erase f := fun h => he (erase_sub h)
  have hsubF' : ∀ x ∈ F.erase f, x ∈ e :: F.erase f := fun x hx => List.mem_cons_of_mem _ hx
  -- the two sides of f
  obtain ⟨c, d, hjf, hpc, hdw⟩ : ∃ c d, Joins f c d ∧ EConn (F.erase f) p c ∧ EConn (F.erase f) d w := by
    rcases EConn.split hac.1 (f := f) hc with h | h
    · exact absurd h hsep
    · exact h
  have hcd : EConn (e :: F.erase f) c d :=
    ((hpc.mono hsubF').symm.trans (EConn.edge (List.mem_cons_self ..) hj)).trans (hdw.mono hsubF').symm
  constructor
  · refine ⟨List.nodup_cons.2 ⟨hne, hac.1.erase f⟩, ?_⟩
    intro g hg hcon
    rcases List.mem_cons.1 hg with rfl | hg'
    · -- g = e
      have : (g :: F.erase f).erase g = F.erase f := by simp
      rw [this] at hcon
      rcases hj.same (Joins.ends g) with ⟨rfl, rfl⟩ | ⟨rfl, rfl⟩
      · exact hsep hcon
      · exact hsep hcon.symm
    · have hge : g ≠ e := fun h => hne (h ▸ hg')
      have hgF : g ∈ F := erase_sub hg'
      have hgf : g ≠ f := ((mem_erase_nodup hac.1).1 hg').1
      have herase : (e :: F.erase f).erase g = e :: (F.erase f).erase g := by
        rw [List.erase_cons_tail]; simpa using fun h => hge h.symm
      rw [herase] at hcon
      have hnd : (e :: (F.erase f).erase g).Nodup :=
        List.nodup_cons.2 ⟨fun h => hne (erase_sub h), (hac.1.erase f).erase g⟩
      have hK : ∀ x ∈ (F.erase f).erase g, x ∈ F.erase g := by
        intro x hx
        have h1 := (mem_erase_nodup (hac.1.erase f)).1 hx
        exact (mem_erase_nodup hac.1).2 ⟨h1.1, erase_sub h1.2⟩
      have hKf : ∀ x ∈ (F.erase f).erase g, x ∈ F.erase f := fun x hx => erase_sub hx
      have hee : (e :: (F.erase f).erase g).erase e = (F.erase f).erase g := by simp
      rcases EConn.split hnd (f := e) hcon with h | ⟨c', d', hj', h1, h2⟩
      · rw [hee] at h
        exact hac.2 g hgF (h.mono hK)
      · rw [hee] at h1 h2
        -- p ~ g.a -g- g.b ~ w inside F − f
        have hg1 : EConn (F.erase f) g.a c' := h1.mono hKf
        have hg2 : EConn (F.erase f) d' g.b := h2.mono hKf
        have hgg : EConn (F.erase f) g.a g.b := EConn.edge hg' (Joins.ends g)
        have : EConn (F.erase f) c' d' := (hg1.symm.trans hgg).trans hg2.symm
        rcases hj'.same hj with ⟨rfl, rfl⟩ | ⟨rfl, rfl⟩
        · exact hsep this
        · exact hsep this.symm
  · intro x y hxy
    refine Reach.closed (S := fun z => EConn (e :: F.erase f) x z) ?_ hxy (.refl _)
    intro a b ha ⟨g, hg, hjg⟩
    by_cases hgf : g = f
    · subst hgf
      rcases hjg.same hjf with ⟨rfl, rfl⟩ | ⟨rfl, rfl⟩
      · exact ha.trans hcd
      · exact ha.trans hcd.symm
    · exact .tail ha ⟨g, hsubF' g ((mem_erase_nodup hac.1).2 ⟨hgf, hg⟩), hjg⟩

/-! ## weights -/

theorem wsum_cons (e : Edge) (F : List Edge) : wsum (e :: F) = e.w + wsum F := by
  simp [wsum]

theorem wsum_erase {F : List Edge} {f : Edge} (hf : f ∈ F) : wsum F = f.w + wsum (F.erase f) := by
  induction F with
  | nil => simp at hf
  | cons a r ih =>
    by_cases h : a = f
    · subst h; simp [wsum]
    · have hfr : f ∈ r := by
        rcases List.mem_cons.1 hf with h' | h'
        · exact absurd h'.symm h
        · exact h'
      have : (a :: r).erase f = a :: r.erase f := by
        rw [List.erase_cons_tail]; simpa using h
      rw [this, wsum_cons, wsum_cons, ih hfr]; omega

theorem wsum_eq_of_same : ∀ (T F : List Edge), T.Nodup → F.Nodup → (∀ e ∈ T, e ∈ F) → (∀ e ∈ F, e ∈ T) →
    wsum T = wsum F := by
  intro T
  induction T with
  | nil =>
    intro F _ _ _ h
    cases F with
    | nil => rfl
    | cons a r => exact absurd (h a (by simp)) (by simp)
  | cons e T ih =>
    intro F hT hF h1 h2
    have heF : e ∈ F := h1 e (by simp)
    have hT' := List.nodup_cons.1 hT
    rw [wsum_cons, wsum_erase heF]
    congr 1
    apply ih (F.erase e) hT'.2 (hF.erase e)
    · intro x hx
      exact (mem_erase_nodup hF).2 ⟨fun h => hT'.1 (h ▸ hx), h1 x (by simp [hx])⟩
    · intro x hx
      have := (mem_erase_nodup hF).1 hx
      rcases List.mem_cons.1 (h2 x this.2) with h | h
      · exact absurd h this.1
      · exact h

/-! ## the cut rule -/

/-- what Prim's algorithm leaves behind: `Lk w p e` = "`e` is the tree edge of the child `w`, to its parent
`p`"; `GS` = the edges of the graph -/
structure CutCert (GS : Edge → Prop) (T : List Edge) (rank : Nat → Nat) (Lk : Nat → Nat → Edge → Prop) : Prop where
  nodup : T.Nodup
  link : ∀ e ∈ T, ∃ w p, Lk w p e
  mem : ∀ w p e, Lk w p e → e ∈ T ∧ Joins e w p ∧ GS e ∧ rank p < rank w
  inj : ∀ w p e w' p' e', Lk w p e → Lk w' p' e' → rank w = rank w' → e = e'
  bound : ∃ c, ∀ w p e, Lk w p e → rank w < c
  /-- every tree edge is a lightest edge between the vertices ranked before its child and the others -/
  cut : ∀ w p e, Lk w p e → ∀ f a b, GS f → Joins f a b → rank a < rank w → rank w ≤ rank b → e.w ≤ f.w
  span : ∀ f, GS f → EConn T f.a f.b

theorem cut_rule_optimal {GS : Edge → Prop} {T : List Edge} {rank : Nat → Nat} {Lk : Nat → Nat → Edge → Prop}
    (hc : CutCert GS T rank Lk) (F : List Edge) (hac : Acyc F) (hsub : ∀ f ∈ F, GS f)
    (hspan : ∀ f, GS f → EConn F f.a f.b) : wsum T ≤ wsum F := by
  obtain ⟨c, hcb⟩ := hc.bound
  have key : ∀ d i, i + d = c → ∀ F : List Edge, Acyc F → (∀ f ∈ F, GS f) → (∀ f, GS f → EConn F f.a f.b) →
      (∀ w p e, Lk w p e → rank w < i → e ∈ F) → wsum T ≤ wsum F := by
    intro d
    induction d with
    | zero =>
      intro i hi F hac hsub hspan hpre
      have hTF : ∀ e ∈ T, e ∈ F := by
        intro e he
        obtain ⟨w, p, hl⟩ := hc.link e he
        exact hpre w p e hl (by have := hcb w p e hl; omega)
      have hFT : ∀ f ∈ F, f ∈ T := by
        intro f hf
        by_cases hfT : f ∈ T
        · exact hfT
        · exfalso
          apply hac.2 f hf
          refine (hc.span f (hsub f hf)).mono ?_
          intro x hx
          exact (mem_erase_nodup hac.1).2 ⟨fun h => hfT (h ▸ hx), hTF x hx⟩
      exact Int.le_of_eq (wsum_eq_of_same T F hc.nodup hac.1 hTF hFT)
    | succ d ih =>
      intro i hi F hac hsub hspan hpre
      by_cases hall : ∀ w p e, Lk w p e → rank w = i → e ∈ F
      · apply ih (i + 1) (by omega) F hac hsub hspan
        intro w p e hl hr
        by_cases h : rank w = i
        · exact hall w p e hl h
        · exact hpre w p e hl (by omega)
      · -- the tree edge of rank i is missing from F: exchange
        have : ∃ w p e, Lk w p e ∧ rank w = i ∧ e ∉ F := by
          apply Classical.byContradiction
          intro hno
          apply hall
          intro w p e hl hr
          apply Classical.byContradiction
          intro he
          exact hno ⟨w, p, e, hl, hr, he⟩
        obtain ⟨w, p, e, hl, hr, heF⟩ := this
        obtain ⟨_, hj, hge, hrk⟩ := hc.mem w p e hl
        have hconn : EConn F p w := by
          have := hspan e hge
          rcases hj.same (Joins.ends e) with ⟨rfl, rfl⟩ | ⟨rfl, rfl⟩
          · exact this.symm
          · exact this
        obtain ⟨f, hf, a, b, hjf, ha, hb, hsep⟩ :=
          Acyc.separating (S := fun x => rank x < i) (by show rank p < i; omega) (by show ¬ rank w < i; omega)
            F.length F rfl hac hconn
        obtain ⟨hac', hconn'⟩ := hac.exchange heF hj.symm hf hconn hsep
        have hw : e.w ≤ f.w := hc.cut w p e hl f a b (hsub f hf) hjf (by omega) (by omega)
        have hweight : wsum (e :: F.erase f) ≤ wsum F := by
          rw [wsum_cons, wsum_erase hf]; omega
        refine Int.le_trans ?_ hweight
        apply ih (i + 1) (by omega) (e :: F.erase f) hac'
        · intro x hx
          rcases List.mem_cons.1 hx with rfl | h
          · exact hge
          · exact hsub x (erase_sub h)
        · intro x hx; exact hconn' _ _ (hspan x hx)
        · intro w' p' e' hl' hr'
          by_cases h : rank w' = i
          · have := hc.inj w' p' e' w p e hl' hl (by omega)
            rw [this]; exact List.mem_cons_self ..
          · obtain ⟨_, hj', _, hrk'⟩ := hc.mem w' p' e' hl'
            have he'F : e' ∈ F := hpre w' p' e' hl' (by omega)
            have hne : e' ≠ f := by
              intro hef
              subst hef
              rcases hjf.same hj' with ⟨rfl, rfl⟩ | ⟨rfl, rfl⟩ <;> omega
            exact List.mem_cons_of_mem _ ((mem_erase_nodup hac.1).2 ⟨hne, he'F⟩)
  exact key c 0 (by omega) F hac hsub hspan (fun w p e _ h => absurd h (Nat.not_lt_zero _))

end AlgoVerif.C14
