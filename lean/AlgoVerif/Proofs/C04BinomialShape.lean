import AlgoVerif.Proofs.C04Binomial
import AlgoVerif.Proofs.C04FibTree
/-!
# C04, binomial heap: the structural property (`verify()`)

Outside `consolidate` the root list is strictly increasing in order and every tree is a binomial tree
(a node of order `k` has children of orders `k-1, …, 0`).  Not needed for the priority-queue property, proved
as an additional fact about the Model.
-/
namespace AlgoVerif.C04
variable {K V : Type}
open Tree

def degs (l : List (Tree K V)) : List Nat := l.map (·.deg)

/-- strictly increasing orders -/
def SInc (l : List (Tree K V)) : Prop := l.Pairwise (fun a b => a.deg < b.deg)
/-- strictly decreasing orders -/
def SDec (l : List (Tree K V)) : Prop := l.Pairwise (fun a b => a.deg > b.deg)
/-- non-decreasing orders -/
def NDec (l : List (Tree K V)) : Prop := l.Pairwise (fun a b => a.deg ≤ b.deg)
/-- no order occurs more than twice -/
def AtMost2 (l : List (Tree K V)) : Prop := ∀ d, (degs l).count d ≤ 2

theorem SInc_count_le_one (l : List (Tree K V)) (h : SInc l) (d : Nat) : (degs l).count d ≤ 1 := by
  induction l with
  | nil => simp [degs]
  | cons t ts ih =>
    have h' := List.pairwise_cons.mp h
    have := ih h'.2
    simp only [degs, List.map_cons, List.count_cons] at this ⊢
    by_cases htd : t.deg = d
    · have h0 : List.count d (List.map (·.deg) ts) = 0 := by
        rw [List.count_eq_zero]
        intro hmem
        obtain ⟨x, hx, hxd⟩ := List.mem_map.mp hmem
        have := h'.1 x hx
        omega
      simp [htd, h0]
    · simp [htd]; exact this

theorem bmerge_perm (a b : List (Tree K V)) : (Binomial.merge a b).Perm (a ++ b) := by
  fun_induction Binomial.merge a b with
  | case1 h2 => simp
  | case2 h1 hne => simp
  | case3 a r1 b r2 hlt ih => exact (List.perm_cons a).mpr ih
  | case4 a r1 b r2 hlt ih =>
    exact ((List.perm_cons b).mpr ih).trans (by c04_perm)

theorem bmerge_NDec (a b : List (Tree K V)) (ha : SInc a) (hb : SInc b) : NDec (Binomial.merge a b) := by
  fun_induction Binomial.merge a b with
  | case1 h2 => exact hb.imp (fun h => Nat.le_of_lt h)
  | case2 h1 hne => exact ha.imp (fun h => Nat.le_of_lt h)
  | case3 a r1 b r2 hlt ih =>
    have ha' := List.pairwise_cons.mp ha
    have hb' := List.pairwise_cons.mp hb
    refine List.pairwise_cons.mpr ⟨?_, ih ha'.2 hb⟩
    intro t ht
    rcases List.mem_append.mp ((bmerge_perm r1 (b :: r2)).mem_iff.mp ht) with h | h
    · exact Nat.le_of_lt (ha'.1 t h)
    · rcases List.mem_cons.mp h with rfl | h
      · exact Nat.le_of_lt hlt
      · have := hb'.1 t h; omega
  | case4 a r1 b r2 hlt ih =>
    have ha' := List.pairwise_cons.mp ha
    have hb' := List.pairwise_cons.mp hb
    refine List.pairwise_cons.mpr ⟨?_, ih ha hb'.2⟩
    intro t ht
    rcases List.mem_append.mp ((bmerge_perm (a :: r1) r2).mem_iff.mp ht) with h | h
    · rcases List.mem_cons.mp h with rfl | h
      · omega
      · have := ha'.1 t h; omega
    · exact Nat.le_of_lt (hb'.1 t h)

theorem bmerge_AtMost2 (a b : List (Tree K V)) (ha : SInc a) (hb : SInc b) : AtMost2 (Binomial.merge a b) := by
  intro d
  have hp := ((bmerge_perm a b).map (·.deg)).count_eq d
  have h1 := SInc_count_le_one a ha d
  have h2 := SInc_count_le_one b hb d
  simp only [degs, List.map_append, List.count_append] at hp h1 h2 ⊢
  omega

theorem AtMost2_tail {t : Tree K V} {l : List (Tree K V)} (h : AtMost2 (t :: l)) : AtMost2 l := by
  intro d
  have := h d
  simp only [degs, List.map_cons, List.count_cons] at this ⊢
  omega

/-- the scan of `consolidate` restores strictly increasing orders -/
theorem consLoop_SInc (cmp : K → K → Int) :
    ∀ (rest pre : List (Tree K V)) (curr : Tree K V), SDec pre → (∀ p ∈ pre, p.deg ≤ curr.deg) →
      (∀ p r', pre = p :: r' → p.deg = curr.deg →
        ∃ nx r'', rest = nx :: r'' ∧ nx.deg = curr.deg ∧ ∀ t ∈ r'', curr.deg < t.deg) →
      NDec (curr :: rest) → AtMost2 rest → SInc (Binomial.consLoop cmp pre curr rest) := by
  intro rest
  induction rest with
  | nil =>
    intro pre curr hpre hle htr _ _
    simp only [Binomial.consLoop]
    refine List.pairwise_append.mpr ⟨List.pairwise_reverse.mpr hpre, List.pairwise_cons.mpr ⟨by simp, List.Pairwise.nil⟩, ?_⟩
    intro a ha b hb
    simp only [List.mem_singleton] at hb; subst hb
    have ha' := List.mem_reverse.mp ha
    cases pre with
    | nil => cases ha'
    | cons p r' =>
      have hp' := List.pairwise_cons.mp hpre
      have hhead : p.deg < b.deg := by
        have h1 := hle p List.mem_cons_self
        by_cases he : p.deg = b.deg
        · obtain ⟨nx, r'', h, _⟩ := htr p r' rfl he; cases h
        · omega
      rcases List.mem_cons.mp ha' with rfl | h
      · exact hhead
      · have := hp'.1 a h; omega
  | cons next rest ih =>
    intro pre curr hpre hle htr hnd ham
    have hnd' := List.pairwise_cons.mp hnd
    have hnd'' := List.pairwise_cons.mp hnd'.2
    have hcn : curr.deg ≤ next.deg := hnd'.1 next List.mem_cons_self
    -- every root before curr is strictly smaller unless the transient equality holds
    have hprelt : (∀ p r', pre = p :: r' → p.deg ≠ curr.deg) → ∀ p ∈ pre, p.deg < curr.deg := by
      intro hne p hp
      cases pre with
      | nil => cases hp
      | cons q r' =>
        have hq' := List.pairwise_cons.mp hpre
        have hq : q.deg < curr.deg := by
          have := hle q List.mem_cons_self
          have := hne q r' rfl
          omega
        rcases List.mem_cons.mp hp with rfl | h
        · exact hq
        · have := hq'.1 p h; omega
    unfold Binomial.consLoop
    by_cases hcond : (curr.deg != next.deg || Binomial.sibSameOrder rest curr) = true
    · rw [if_pos hcond]
      by_cases hne : curr.deg = next.deg
      · -- three roots of the same order: move on, the last two are linked next
        have hsib : Binomial.sibSameOrder rest curr = true := by simpa [hne] using hcond
        cases rest with
        | nil => simp [Binomial.sibSameOrder] at hsib
        | cons sib r3 =>
          have hsd : sib.deg = curr.deg := by simpa [Binomial.sibSameOrder] using hsib
          have hr3 : ∀ t ∈ r3, curr.deg < t.deg := by
            intro t ht
            have hc := ham curr.deg
            simp only [degs, List.map_cons, List.count_cons, hsd, ← hne] at hc
            have h0 : List.count curr.deg (List.map (·.deg) r3) = 0 := by simp at hc; omega
            have hne' : t.deg ≠ curr.deg := by
              intro he
              rw [List.count_eq_zero] at h0
              exact h0 (he ▸ List.mem_map_of_mem (f := (·.deg)) ht)
            have := hnd'.1 t (List.mem_cons_of_mem _ (List.mem_cons_of_mem _ ht))
            omega
          have hpl : ∀ p ∈ pre, p.deg < curr.deg := by
            apply hprelt
            intro p r' hp he
            obtain ⟨nx, r'', h, _, hall⟩ := htr p r' hp he
            simp only [List.cons.injEq] at h
            have := hall sib (by rw [← h.2]; exact List.mem_cons_self)
            omega
          apply ih (curr :: pre) next
          · exact List.pairwise_cons.mpr ⟨fun p hp => hpl p hp, hpre⟩
          · intro p hp
            rcases List.mem_cons.mp hp with rfl | h
            · exact hcn
            · have := hle p h; omega
          · intro p r' hp _
            exact ⟨sib, r3, rfl, by omega, fun t ht => by have := hr3 t ht; omega⟩
          · exact hnd'.2
          · exact AtMost2_tail ham
      · -- different orders: move on
        have hlt : curr.deg < next.deg := by omega
        have hpl : ∀ p ∈ pre, p.deg < curr.deg := by
          apply hprelt
          intro p r' hp he
          obtain ⟨nx, r'', h, hnx, _⟩ := htr p r' hp he
          simp only [List.cons.injEq] at h
          rw [← h.1] at hnx; omega
        apply ih (curr :: pre) next
        · exact List.pairwise_cons.mpr ⟨fun p hp => hpl p hp, hpre⟩
        · intro p hp
          rcases List.mem_cons.mp hp with rfl | h
          · exact hcn
          · have := hle p h; omega
        · intro p r' hp he
          simp only [List.cons.injEq] at hp
          rw [← hp.1] at he; omega
        · exact hnd'.2
        · exact AtMost2_tail ham
    · rw [if_neg hcond]
      have hcond' : curr.deg = next.deg ∧ Binomial.sibSameOrder rest curr = false := by
        simpa using hcond
      -- the linked tree has order curr.deg + 1 whichever root wins
      have key : ∀ (w : Tree K V), w.deg = curr.deg + 1 → SInc (Binomial.consLoop cmp pre w rest) := by
        intro w hw
        have hrest : ∀ t ∈ rest, curr.deg + 1 ≤ t.deg := by
          intro t ht
          cases rest with
          | nil => cases ht
          | cons sib r3 =>
            have hs : sib.deg ≠ curr.deg := by simpa [Binomial.sibSameOrder] using hcond'.2
            have h1 := hnd'.1 sib (List.mem_cons_of_mem _ List.mem_cons_self)
            rcases List.mem_cons.mp ht with rfl | h
            · omega
            · have := (List.pairwise_cons.mp hnd''.2).1 t h; omega
        apply ih pre w hpre
        · intro p hp; have := hle p hp; omega
        · intro p r' hp he
          have := hle p (hp ▸ List.mem_cons_self); omega
        · exact List.pairwise_cons.mpr ⟨fun t ht => by have := hrest t ht; omega, hnd''.2⟩
        · exact AtMost2_tail ham
      by_cases hgt : cmp next.key curr.key > 0
      · rw [if_pos hgt]; exact key _ (by rw [deg_link])
      · rw [if_neg hgt]; exact key _ (by rw [deg_link]; omega)

theorem union_SInc (cmp : K → K → Int) (a b : List (Tree K V)) (ha : SInc a) (hb : SInc b) :
    SInc (Binomial.union cmp a b) := by
  unfold Binomial.union Binomial.consolidate
  have h1 := bmerge_NDec a b ha hb
  have h2 := bmerge_AtMost2 a b ha hb
  cases hm : Binomial.merge a b with
  | nil => exact List.Pairwise.nil
  | cons t ts =>
    rw [hm] at h1 h2
    exact consLoop_SInc cmp ts [] t List.Pairwise.nil (by intro p hp; cases hp)
      (by intro p r' h; cases h) h1 (AtMost2_tail h2)


/-! ### every tree stays a binomial tree -/

def BinomAll (l : List (Tree K V)) : Prop := ∀ t ∈ l, Binom t

theorem consLoop_Binom (cmp : K → K → Int) :
    ∀ (rest pre : List (Tree K V)) (curr : Tree K V), BinomAll pre → Binom curr → BinomAll rest →
      BinomAll (Binomial.consLoop cmp pre curr rest) := by
  intro rest
  induction rest with
  | nil =>
    intro pre curr hpre hcurr _ t ht
    simp only [Binomial.consLoop, List.mem_append, List.mem_reverse, List.mem_singleton] at ht
    rcases ht with h | rfl
    · exact hpre t h
    · exact hcurr
  | cons next rest ih =>
    intro pre curr hpre hcurr hrest
    have hnext : Binom next := hrest next List.mem_cons_self
    have hrest' : BinomAll rest := fun t ht => hrest t (List.mem_cons_of_mem _ ht)
    unfold Binomial.consLoop
    by_cases hcond : (curr.deg != next.deg || Binomial.sibSameOrder rest curr) = true
    · rw [if_pos hcond]
      exact ih (curr :: pre) next (fun t ht => by
        rcases List.mem_cons.mp ht with rfl | h
        · exact hcurr
        · exact hpre t h) hnext hrest'
    · rw [if_neg hcond]
      have hcond' : curr.deg = next.deg ∧ Binomial.sibSameOrder rest curr = false := by simpa using hcond
      by_cases hgt : cmp next.key curr.key > 0
      · rw [if_pos hgt]; exact ih pre _ hpre (Binom_link next curr hnext hcurr hcond'.1.symm) hrest'
      · rw [if_neg hgt]; exact ih pre _ hpre (Binom_link curr next hcurr hnext hcond'.1) hrest'

theorem union_Binom (cmp : K → K → Int) (a b : List (Tree K V)) (ha : BinomAll a) (hb : BinomAll b) :
    BinomAll (Binomial.union cmp a b) := by
  unfold Binomial.union Binomial.consolidate
  have hall : BinomAll (Binomial.merge a b) := by
    intro t ht
    rcases List.mem_append.mp ((bmerge_perm a b).mem_iff.mp ht) with h | h
    · exact ha t h
    · exact hb t h
  cases hm : Binomial.merge a b with
  | nil => intro t ht; cases ht
  | cons t ts =>
    rw [hm] at hall
    exact consLoop_Binom cmp ts [] t (by intro x hx; cases hx) (hall t List.mem_cons_self)
      (fun x hx => hall x (List.mem_cons_of_mem _ hx))

/-- the children of a node of order `d` have orders `d-1, …, 0` -/
theorem BinomF_SDec : ∀ (d : Nat) (cs : List (Tree K V)), BinomF d cs → SDec cs ∧ ∀ c ∈ cs, c.deg < d
  | 0, [], _ => ⟨List.Pairwise.nil, by intro c hc; cases hc⟩
  | d + 1, c :: cs, h => by
    simp only [BinomF] at h
    obtain ⟨h1, h2⟩ := BinomF_SDec d cs h.2.2
    refine ⟨List.pairwise_cons.mpr ⟨fun x hx => by have := h2 x hx; omega, h1⟩, ?_⟩
    intro x hx
    rcases List.mem_cons.mp hx with rfl | hx
    · omega
    · have := h2 x hx; omega
  | 0, _ :: _, h => by simp [BinomF] at h
  | _ + 1, [], h => by simp [BinomF] at h

theorem children_reverse_SInc (t : Tree K V) (h : Binom t) : SInc t.children.reverse := by
  cases t with
  | node k v d cs =>
    have := (BinomF_SDec d cs h).1
    exact List.pairwise_reverse.mpr this

/-- the structural invariant of the binomial heap (what the Go `verify()` checks, apart from heap order) -/
structure BShape (h : Binomial K V) : Prop where
  sorted : SInc h.head
  binom : BinomAll h.head

theorem BShape_new : BShape (Binomial.new : Binomial K V) :=
  ⟨List.Pairwise.nil, by intro t ht; cases ht⟩

theorem Binomial.step_shape {cmp : K → K → Int} (hc : LawfulCmp cmp) (eqV : V → V → Bool) (h : Binomial K V)
    (hs : BShape h) (op : Op K V) (h' : Binomial K V) (out : Out K V)
    (hrun : Binomial.step cmp eqV h op = .ok (h', out)) : BShape h' := by
  cases op with
  | insert k v =>
    simp only [Binomial.step, Outcome.ok.injEq, Prod.mk.injEq] at hrun
    rw [← hrun.1]
    have hl : SInc [leaf k v] := List.pairwise_cons.mpr ⟨by simp, List.Pairwise.nil⟩
    have hb : BinomAll [leaf k v] := by
      intro t ht; simp only [List.mem_singleton] at ht; subst ht; exact Binom_leaf k v
    exact ⟨union_SInc cmp _ _ hs.sorted hl, union_Binom cmp _ _ hs.binom hb⟩
  | delete =>
    simp only [Binomial.step, Outcome.ok.injEq, Prod.mk.injEq] at hrun
    rw [← hrun.1]
    by_cases hne : h.head = []
    · simp only [Binomial.delete, Binomial.findExt, hne]; exact hs
    · obtain ⟨b, e, a, hfind, hsplit, _⟩ := findExt_spec hc h.head hne
      simp only [Binomial.delete, hfind]
      have hsub : (b ++ a).Sublist h.head := by
        rw [hsplit]; exact List.Sublist.append (List.Sublist.refl b) (List.sublist_cons_self e a)
      have he : Binom e := hs.binom e (by rw [hsplit]; simp)
      refine ⟨union_SInc cmp _ _ (List.Pairwise.sublist hsub hs.sorted) (children_reverse_SInc e he),
        union_Binom cmp _ _ (fun t ht => hs.binom t (hsub.subset ht)) ?_⟩
      intro t ht
      exact Binom_children e he t (List.mem_reverse.mp ht)
  | deleteAll =>
    simp only [Binomial.step, Outcome.ok.injEq, Prod.mk.injEq] at hrun
    rw [← hrun.1]; exact BShape_new
  | peek => simp only [Binomial.step, Outcome.ok.injEq, Prod.mk.injEq] at hrun; rw [← hrun.1]; exact hs
  | size => simp only [Binomial.step, Outcome.ok.injEq, Prod.mk.injEq] at hrun; rw [← hrun.1]; exact hs
  | isEmpty => simp only [Binomial.step, Outcome.ok.injEq, Prod.mk.injEq] at hrun; rw [← hrun.1]; exact hs
  | containsKey k => simp only [Binomial.step, Outcome.ok.injEq, Prod.mk.injEq] at hrun; rw [← hrun.1]; exact hs
  | containsValue v => simp only [Binomial.step, Outcome.ok.injEq, Prod.mk.injEq] at hrun; rw [← hrun.1]; exact hs

theorem update_all {α : Type} {P : α → Prop} {f : Nat → α} {i : Nat} {a : α} (hf : ∀ r, P (f r)) (ha : P a) :
    ∀ r, P (update f i a r) := by
  intro r; unfold update; split
  · exact ha
  · exact hf r

/-- after every history every heap of the family has the structural property -/
theorem binomial_shape {cmp : K → K → Int} (hc : LawfulCmp cmp) (eqV : V → V → Bool) :
    ∀ (ops : List (MOp K V)) (regs regs' : Nat → Binomial K V), (∀ r, BShape (regs r)) →
      (binomialImpl cmp eqV).stateAfter regs ops = .ok regs' → ∀ r, BShape (regs' r) := by
  intro ops
  induction ops with
  | nil =>
    intro regs regs' hall hrun
    simp only [Impl.stateAfter] at hrun
    cases hrun; exact hall
  | cons op ops ih =>
    intro regs regs' hall hrun
    simp only [Impl.stateAfter] at hrun
    cases op with
    | on r o =>
      simp only [Impl.mstep] at hrun
      cases hstep : (binomialImpl cmp eqV).step (regs r) o with
      | panic => rw [hstep] at hrun; simp at hrun
      | diverge => rw [hstep] at hrun; simp at hrun
      | ok p =>
        rw [hstep] at hrun
        simp only [obind_ok] at hrun
        refine ih _ regs' ?_ hrun
        exact update_all (P := BShape) hall (Binomial.step_shape hc eqV (regs r) (hall r) o p.1 p.2 hstep)
    | mergeOther d =>
      simp only [Impl.mstep, obind_ok] at hrun
      exact ih _ regs' hall hrun
    | merge d s =>
      simp only [Impl.mstep] at hrun
      by_cases hds : d = s
      · rw [if_pos hds] at hrun
        simp only [obind_ok] at hrun
        exact ih _ regs' hall hrun
      · rw [if_neg hds] at hrun
        simp only [binomialImpl, obind_ok] at hrun
        refine ih _ regs' ?_ hrun
        exact update_all (P := BShape) (update_all (P := BShape) hall
          ⟨union_SInc cmp _ _ (hall d).sorted (hall s).sorted, union_Binom cmp _ _ (hall d).binom (hall s).binom⟩)
          BShape_new

end AlgoVerif.C04
