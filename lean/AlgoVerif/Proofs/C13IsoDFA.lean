import AlgoVerif.Proofs.C13Perm
import AlgoVerif.Proofs.C13MinimalFull
import AlgoVerif.Proofs.C13Combine
/-! C13: `DFA.Isomorphic` (after the fix) is true for a DFA and its copy renamed by any injective map. -/
namespace AlgoVerif.C13
open AlgoVerif AlgoVerif.C13.Spec

theorem asorted_nodup {β : Type} (l : List (Int × β)) (h : ASorted l) : l.Nodup := by
  apply List.nodup_iff_pairwise_ne.2
  have : l.Pairwise (fun a b => a.1 < b.1) := by simpa [ASorted, List.pairwise_map] using h
  exact this.imp (fun h he => by rw [he] at h; omega)

theorem entries_cons {β : Type} (st : Int × List (Int × β)) (tr : List (Int × List (Int × β))) :
    entries (st :: tr) = st.2.map (fun e => (st.1, e.1, e.2)) ++ entries tr := by
  simp [entries]

theorem entries_nodup {β : Type} (tr : List (Int × List (Int × β))) (h1 : ASorted tr) (h2 : ∀ st ∈ tr, ASorted st.2) :
    (entries tr).Nodup := by
  induction tr with
  | nil => simp [entries]
  | cons st tr ih =>
    rw [entries_cons, List.nodup_append]
    simp only [ASorted, List.map_cons, List.pairwise_cons] at h1
    refine ⟨?_, ih h1.2 (fun s hs => h2 s (by simp [hs])), ?_⟩
    · apply nodup_map_of_injOn _ _ (asorted_nodup _ (h2 st (by simp)))
      intro a _ b _ he
      simp at he
      exact Prod.ext he.1 he.2
    · intro a ha b hb he
      simp only [List.mem_map] at ha
      obtain ⟨e, _, rfl⟩ := ha
      simp only [entries, List.mem_flatMap, List.mem_map] at hb
      obtain ⟨st', hst', e', _, rfl⟩ := hb
      simp at he
      have := h1.1 st'.1 (by simp; exact ⟨st'.2, hst'⟩)
      omega

/-- renaming the entries of a DFA table -/
def mapE (f : Int → Int) (e : Int × Int × Int) : Int × Int × Int := (f e.1, e.2.1, f e.2.2)

theorem DFA.permuted_eq (d : DFA) (f : Int → Int) :
    d.permuted f = DFA.ofEntries (f d.start) (mkSet (d.final.map f)) ((entries d.trans).map (mapE f)) := by
  simp only [DFA.permuted, DFA.ofEntries, DFA.new]
  have h := foldl_nested (γ := DFA) d.trans (fun acc s a t => acc.add (f s) a (f t)) ⟨f d.start, mkSet (d.final.map f), []⟩
  rw [h, List.foldl_map]
  rfl

theorem DFA.entry_states (d : DFA) {s a t : Int} (h : (s, a, t) ∈ entries d.trans) : s ∈ d.states ∧ t ∈ d.states :=
  ⟨d.mem_states_of s (Or.inr (Or.inr ⟨s, a, t, h, Or.inl rfl⟩)), d.mem_states_of t (Or.inr (Or.inr ⟨s, a, t, h, Or.inr rfl⟩))⟩

theorem DFA.mem_symbols_iff (d : DFA) (a : Int) : a ∈ d.symbols ↔ ∃ s t, (s, a, t) ∈ entries d.trans := by
  have hsy : d.symbols = (entries d.trans).foldl (fun acc e => sins e.2.1 acc) [] := by
    simp only [DFA.symbols]
    exact foldl_nested (γ := List Int) d.trans (fun acc _ a _ => sins a acc) _
  rw [hsy]
  have gen : ∀ (L : List (Int × Int × Int)) (acc : List Int),
      a ∈ L.foldl (fun acc e => sins e.2.1 acc) acc ↔ (a ∈ acc ∨ ∃ s t, (s, a, t) ∈ L) := by
    intro L
    induction L with
    | nil => intro acc; simp
    | cons e L ih =>
      intro acc
      simp only [List.foldl_cons]
      rw [ih]
      obtain ⟨s1, a1, t1⟩ := e
      simp only [mem_sins, List.mem_cons]
      constructor
      · rintro ((h | h) | ⟨s, t, h⟩)
        · right; exact ⟨s1, t1, Or.inl (by rw [h])⟩
        · left; exact h
        · right; exact ⟨s, t, Or.inr h⟩
      · rintro (h | ⟨s, t, h | h⟩)
        · left; right; exact h
        · injection h with _ h; injection h with h _; left; left; exact h
        · right; exact ⟨s, t, h⟩
  rw [gen]; simp

theorem DFA.symbols_sorted (d : DFA) : SSorted d.symbols := by
  simp only [DFA.symbols]
  have inner : ∀ (l : List (Int × Int)) (acc : List Int), SSorted acc → SSorted (l.foldl (fun acc e => sins e.1 acc) acc) := by
    intro l
    induction l with
    | nil => intro acc h; exact h
    | cons e l ih => intro acc h; simp only [List.foldl_cons]; exact ih _ (ssorted_sins h)
  have outer : ∀ (l : List (Int × List (Int × Int))) (acc : List Int), SSorted acc →
      SSorted (l.foldl (fun acc st => st.2.foldl (fun acc e => sins e.1 acc) acc) acc) := by
    intro l
    induction l with
    | nil => intro acc h; exact h
    | cons st l ih => intro acc h; simp only [List.foldl_cons]; exact ih _ (inner _ _ h)
  exact outer _ _ (by simp [SSorted])

theorem DFA.edges_eq (d : DFA) :
    d.trans.flatMap (fun st => st.2.map (fun e => (st.1, e.2))) = (entries d.trans).map (fun e => (e.1, e.2.2)) := by
  simp only [entries, List.map_flatMap, List.map_map]
  rfl

/-- the degree of a state, as `getSortedDegreeSequence` counts it -/
def degOf (edges : List (Int × Int)) (s : Int) : Int :=
  ((edges.filter (fun p => p.1 == s)).length + (edges.filter (fun p => p.2 == s)).length : Int)

theorem DFA.sortedDegrees_eq (d : DFA) :
    d.sortedDegrees = sortInts (d.states.map (degOf ((entries d.trans).map (fun e => (e.1, e.2.2))))) := by
  simp only [DFA.sortedDegrees, d.edges_eq]; rfl

theorem degOf_perm (e1 e2 : List (Int × Int)) (h : e1.Perm e2) (s : Int) : degOf e1 s = degOf e2 s := by
  simp only [degOf, (h.filter _).length_eq]

theorem degOf_map (edges : List (Int × Int)) (f : Int → Int) (s : Int)
    (hinj : ∀ p ∈ edges, (f p.1 = f s ↔ p.1 = s) ∧ (f p.2 = f s ↔ p.2 = s)) :
    degOf (edges.map (fun p => (f p.1, f p.2))) (f s) = degOf edges s := by
  simp only [degOf, List.filter_map, List.length_map]
  congr 2
  · congr 1
    apply List.filter_congr
    intro p hp
    show (f p.1 == f s) = (p.1 == s)
    have := (hinj p hp).1
    by_cases h : p.1 = s
    · simp [h]
    · have hn : ¬ f p.1 = f s := fun hh => h (this.1 hh)
      rw [beq_eq_false_iff_ne.2 hn, beq_eq_false_iff_ne.2 h]
  · congr 1
    apply List.filter_congr
    intro p hp
    show (f p.2 == f s) = (p.2 == s)
    have := (hinj p hp).2
    by_cases h : p.2 = s
    · simp [h]
    · have hn : ¬ f p.2 = f s := fun hh => h (this.1 hh)
      rw [beq_eq_false_iff_ne.2 hn, beq_eq_false_iff_ne.2 h]

/-- `Isomorphic` is true for a DFA and its copy renamed by a map that is injective on the states -/
theorem DFA.isomorphic_permuted (d : DFA) (hwf : d.WF) (hfs : SSorted d.final) (f : Int → Int)
    (hinj : ∀ s ∈ d.states, ∀ t ∈ d.states, f s = f t → s = t) :
    d.isomorphic (d.permuted f) = .ok true := by
  have hstart : d.start ∈ d.states := d.mem_states_of _ (Or.inl rfl)
  have hfinal : ∀ x ∈ d.final, x ∈ d.states := fun x hx => d.mem_states_of _ (Or.inr (Or.inl hx))
  -- the renamed copy
  generalize hrhs : d.permuted f = rhs
  have hrhs' : rhs = DFA.ofEntries (f d.start) (mkSet (d.final.map f)) ((entries d.trans).map (mapE f)) := by
    rw [← hrhs, d.permuted_eq]
  have hsf := DFA.ofEntries_start_final (f d.start) (mkSet (d.final.map f)) ((entries d.trans).map (mapE f))
  rw [← hrhs'] at hsf
  have hrwf : rhs.WF := by rw [hrhs']; exact DFA.ofEntries_WF _ _ _
  -- its table holds exactly the renamed entries
  have hLfun : ∀ x a y y', (x, a, y) ∈ (entries d.trans).map (mapE f) → (x, a, y') ∈ (entries d.trans).map (mapE f) → y = y' := by
    intro x a y y' h1 h2
    obtain ⟨e1, he1, heq1⟩ := List.mem_map.1 h1
    obtain ⟨e2, he2, heq2⟩ := List.mem_map.1 h2
    obtain ⟨s1, a1, t1⟩ := e1
    obtain ⟨s2, a2, t2⟩ := e2
    simp only [mapE, Prod.mk.injEq] at heq1 heq2
    obtain ⟨rfl, rfl, rfl⟩ := heq1
    obtain ⟨h3, rfl, rfl⟩ := heq2
    have := hinj s2 (d.entry_states he2).1 s1 (d.entry_states he1).1 h3
    subst this
    rw [entries_fun hwf he1 he2]
  have hent : ∀ x a y, (x, a, y) ∈ entries rhs.trans ↔ (x, a, y) ∈ (entries d.trans).map (mapE f) := by
    intro x a y
    rw [mem_entries_DFA hrwf, hrhs', DFA.fold_iff _ _ _ _ _ _ (hLfun x a)]
  have hmapnd : ((entries d.trans).map (mapE f)).Nodup := by
    apply nodup_map_of_injOn _ _ (entries_nodup d.trans hwf.1 hwf.2)
    intro e1 he1 e2 he2 he
    obtain ⟨s1, a1, t1⟩ := e1
    obtain ⟨s2, a2, t2⟩ := e2
    simp only [mapE, Prod.mk.injEq] at he
    obtain ⟨h1, rfl, h3⟩ := he
    rw [hinj s1 (d.entry_states he1).1 s2 (d.entry_states he2).1 h1,
      hinj t1 (d.entry_states he1).2 t2 (d.entry_states he2).2 h3]
  have hentperm : (entries rhs.trans).Perm ((entries d.trans).map (mapE f)) := by
    rw [List.perm_ext_iff_of_nodup (entries_nodup rhs.trans hrwf.1 hrwf.2) hmapnd]
    rintro ⟨x, a, y⟩; exact hent x a y
  -- its states are the images of the states
  have hstates : ∀ x, x ∈ rhs.states ↔ x ∈ d.states.map f := by
    intro x
    rw [rhs.mem_states_iff, hsf.1, hsf.2, List.mem_map]
    constructor
    · rintro (h | h | ⟨s, a, t, hm, hx⟩)
      · exact ⟨d.start, hstart, h.symm⟩
      · simp at h; obtain ⟨q, hq, rfl⟩ := h; exact ⟨q, hfinal q hq, rfl⟩
      · obtain ⟨e, he, heq⟩ := List.mem_map.1 ((hent s a t).1 hm)
        obtain ⟨s1, a1, t1⟩ := e
        simp only [mapE, Prod.mk.injEq] at heq
        obtain ⟨rfl, rfl, rfl⟩ := heq
        rcases hx with rfl | rfl
        · exact ⟨s1, (d.entry_states he).1, rfl⟩
        · exact ⟨t1, (d.entry_states he).2, rfl⟩
    · rintro ⟨s, hs, rfl⟩
      rcases (d.mem_states_iff s).1 hs with h | h | ⟨s1, a, t1, hm, hx⟩
      · left; rw [h]
      · right; left; simp; exact ⟨s, h, rfl⟩
      · right; right
        refine ⟨f s1, a, f t1, (hent _ _ _).2 (List.mem_map.2 ⟨(s1, a, t1), hm, rfl⟩), ?_⟩
        rcases hx with rfl | rfl
        · left; rfl
        · right; rfl
  have hmapsnd : (d.states.map f).Nodup := nodup_map_of_injOn f _ (ssorted_nodup d.states_sorted) hinj
  have hstperm : (d.states.map f).Perm rhs.states := by
    rw [List.perm_ext_iff_of_nodup hmapsnd (ssorted_nodup rhs.states_sorted)]
    intro x; exact (hstates x).symm
  -- the pre-checks
  have c1 : d.final.length = rhs.final.length := by
    rw [hsf.2]
    have := (mkSet_perm (d.final.map f) (nodup_map_of_injOn f _ (ssorted_nodup hfs)
      (fun a ha b hb => hinj a (hfinal a ha) b (hfinal b hb)))).length_eq
    simp at this; omega
  have c2 : d.states.length = rhs.states.length := by
    have := hstperm.length_eq; simp at this; exact this
  have c3 : setEq d.symbols rhs.symbols = true := by
    have : d.symbols = rhs.symbols := by
      apply ssorted_ext d.symbols_sorted rhs.symbols_sorted
      intro a
      rw [d.mem_symbols_iff, rhs.mem_symbols_iff]
      constructor
      · rintro ⟨s, t, h⟩
        exact ⟨f s, f t, (hent _ _ _).2 (List.mem_map.2 ⟨(s, a, t), h, rfl⟩)⟩
      · rintro ⟨x, y, h⟩
        obtain ⟨e, he, heq⟩ := List.mem_map.1 ((hent _ _ _).1 h)
        obtain ⟨s1, a1, t1⟩ := e
        simp only [mapE, Prod.mk.injEq] at heq
        obtain ⟨_, rfl, _⟩ := heq
        exact ⟨s1, t1, he⟩
    rw [this]; exact setEq_refl _
  have c4 : degreesAgree d.sortedDegrees rhs.sortedDegrees = some true := by
    have : rhs.sortedDegrees = d.sortedDegrees := by
      rw [rhs.sortedDegrees_eq, d.sortedDegrees_eq]
      apply sortInts_perm
      -- degrees of the renamed states, in the order of `d.states`
      have hedges : ((entries rhs.trans).map (fun e => (e.1, e.2.2))).Perm
          (((entries d.trans).map (fun e => (e.1, e.2.2))).map (fun p => (f p.1, f p.2))) := by
        have := hentperm.map (fun e : Int × Int × Int => (e.1, e.2.2))
        refine this.trans (List.Perm.of_eq ?_)
        simp only [List.map_map]
        rfl
      refine (hstperm.symm.map _).trans ?_
      rw [List.map_map]
      apply List.Perm.of_eq
      apply List.map_congr_left
      intro s hs
      simp only [Function.comp]
      rw [degOf_perm _ _ hedges, degOf_map]
      intro p hp
      obtain ⟨e, he, rfl⟩ := List.mem_map.1 hp
      obtain ⟨s1, a1, t1⟩ := e
      have := d.entry_states he
      exact ⟨⟨fun h => hinj _ this.1 _ hs h, fun h => by rw [h]⟩, ⟨fun h => hinj _ this.2 _ hs h, fun h => by rw [h]⟩⟩
    rw [this]; exact degreesAgree_refl _
  have c5 : rhs.states.isEmpty = false := by
    have : f d.start ∈ rhs.states := (hstates _).2 (List.mem_map.2 ⟨d.start, hstart, rfl⟩)
    cases h : rhs.states with
    | nil => rw [h] at this; simp at this
    | cons _ _ => rfl
  -- the arrangement that realises `f`
  have hyield : (d.permuted (bij d.states (d.states.map f))).equal rhs = true := by
    have hcongr : d.permuted (bij d.states (d.states.map f)) = rhs := by
      rw [d.permuted_eq, hrhs']
      have hb : ∀ s ∈ d.states, bij d.states (d.states.map f) s = f s := fun s hs => bij_map d.states f s hs
      rw [hb d.start hstart]
      congr 1
      · congr 1
        apply List.map_congr_left
        intro x hx; exact hb x (hfinal x hx)
      · apply List.map_congr_left
        intro e he
        obtain ⟨s1, a1, t1⟩ := e
        simp only [mapE]
        rw [hb s1 (d.entry_states he).1, hb t1 (d.entry_states he).2]
    rw [hcongr]
    simp only [DFA.equal, beq_self_eq_true, Bool.true_and, setEq_refl, Bool.and_eq_true, true_and]
    apply aEqual_refl _ _ hrwf.1
    intro kv hkv
    exact aEqual_refl _ _ (hrwf.2 kv hkv) (fun _ _ => by simp)
  simp only [DFA.isomorphic, c1, c2, c3, c4, c5]
  have hlen : rhs.states.length = 0 + (rhs.states.length - 1) + 1 := by
    cases h : rhs.states with
    | nil => rw [h] at c5; simp at c5
    | cons _ _ => simp
  have := genPerms_complete (fun perm => !(d.permuted (bij d.states perm)).equal rhs) (rhs.states.length - 1)
    rhs.states 0 (d.states.map f) hlen (ssorted_nodup rhs.states_sorted) hstperm (by simp) (by simp [hyield])
  simp [this]

end AlgoVerif.C13
