import AlgoVerif.Proofs.C11BuiltCompleteSets
/-!
# C11 — the Model's FOLLOW computation reaches its fixpoint

`followEnv` stops because a round added nothing (the fuel `|N|·(|T|+2)+1` exceeds the total size of the sets), and its
result passes `Spec.chkFollowClosed`; FOLLOW of the start symbol contains the endmarker.
-/
namespace AlgoVerif.C11.BuiltComplete
open AlgoVerif AlgoVerif.Gram AlgoVerif.C11 AlgoVerif.C11.Spec AlgoVerif.C11.Built

/-- what `followProd` adds to FOLLOW(B) for an occurrence of `B` followed by `rest` in a body of `head` -/
def followAdd (nl : List String) (fe env : Env) (head : String) (rest : List Sy) : List String :=
  if rest.all (symNullable nl) then unionNew (firstOfStr nl fe rest) (envGet env head) else firstOfStr nl fe rest

/-- the contributions of one body are contained in the sets `G` -/
def ContribIn (nl : List String) (fe env : Env) (head : String) (G : String → List String) : List Sy → Prop
  | [] => True
  | .term _ :: rest => ContribIn nl fe env head G rest
  | .nonterm B :: rest => (∀ c ∈ followAdd nl fe env head rest, c ∈ G B) ∧ ContribIn nl fe env head G rest

theorem followProd_nonterm (nl : List String) (fe env : Env) (head b : String) (rest : List Sy) (acc : Env) :
    followProd nl fe env head (Sym.nonterm b :: rest) acc =
      followProd nl fe env head rest
        (acc.map fun x => if x.1 = b then (x.1, unionNew x.2 (followAdd nl fe env head rest)) else (x.1, x.2)) := by
  rfl

theorem contribIn_mono {nl : List String} {fe env : Env} {head : String} {G G' : String → List String}
    (hGG : ∀ n, Ext (G n) (G' n)) : ∀ (body : List Sy), ContribIn nl fe env head G body → ContribIn nl fe env head G' body
  | [], _ => trivial
  | .term _ :: rest, h => contribIn_mono hGG rest h
  | .nonterm B :: rest, h => ⟨fun c hc => (hGG B).mem (h.1 c hc), contribIn_mono hGG rest h.2⟩

/-- the loop invariant of `followEnv`: one duplicate-free set of terminals per listed non-terminal, the endmarker in the
set of the start symbol -/
def FollowInv (g : SGrammar) (env : Env) : Prop :=
  ∃ F, env = g.nonterms.map (fun n => (n, F n)) ∧ SetsOK g.terms F ∧ endmarker ∈ F g.start

theorem followInv_form {g : SGrammar} {env : Env} (h : FollowInv g env) : EnvForm g.nonterms g.terms env := by
  obtain ⟨F, h1, h2, _⟩ := h
  exact ⟨F, h1, h2⟩

theorem followAdd_sub (g : SGrammar) (hg : Listed g) (nl : List String) (env : Env)
    (henv : EnvForm g.nonterms g.terms env) (head : String) (rest : List Sy)
    (hb : ∀ t, Sym.term t ∈ rest → t ∈ g.terms) :
    ∀ c ∈ followAdd nl (firstEnv g nl) env head rest, c ∈ g.terms := by
  have hfe := (firstEnv_form g hg nl).1
  have h1 : ∀ c ∈ firstOfStr nl (firstEnv g nl) rest, c ∈ g.terms :=
    firstOfStr_sub nl _ g.terms (fun m => (envForm_get hfe m).2) rest hb
  intro c hc
  unfold followAdd at hc
  split at hc
  · rcases mem_unionNew.mp hc with h2 | h2
    · exact h1 c h2
    · exact (envForm_get henv head).2 c h2
  · exact h1 c hc

/-- `followAdd` only ever matters for suffixes of bodies; for an arbitrary `rest` we cannot bound its terminals, so the
step lemma is stated with the bound as a hypothesis and discharged for suffixes below -/
theorem followProd_spec' (N Tm : List String) (nl : List String) (fe env : Env) (head : String) :
    ∀ (body : List Sy), (∀ rest, (∃ pre, body = pre ++ rest) → ∀ c ∈ followAdd nl fe env head rest, c ∈ Tm) →
      ∀ (G : String → List String), SetsOK Tm G →
      ∃ G', followProd nl fe env head body (N.map fun n => (n, G n)) = N.map (fun n => (n, G' n)) ∧
        SetsOK Tm G' ∧ (∀ n, Ext (G n) (G' n)) ∧ ContribIn nl fe env head G' body
  | [], _, G, hG => ⟨G, by simp [followProd], hG, fun n => Ext.refl _, trivial⟩
  | .term t :: rest, hadd, G, hG => by
    obtain ⟨G', h1, h2, h3, h4⟩ := followProd_spec' N Tm nl fe env head rest
      (fun r ⟨pre, hp⟩ => hadd r ⟨Sym.term t :: pre, by simp [hp]⟩) G hG
    exact ⟨G', by simpa [followProd] using h1, h2, h3, h4⟩
  | .nonterm b :: rest, hadd, G, hG => by
    let G1 : String → List String := fun n => if n = b then unionNew (G n) (followAdd nl fe env head rest) else G n
    have hG1 : SetsOK Tm G1 := by
      intro n
      by_cases hn : n = b
      · simp only [G1, hn, if_true]
        refine ⟨nodup_unionNew _ (hG b).1, ?_⟩
        intro c hc
        rcases mem_unionNew.mp hc with h1 | h1
        · exact (hG b).2 c h1
        · exact hadd rest ⟨[Sym.nonterm b], rfl⟩ c h1
      · simp only [G1, hn, if_false]
        exact hG n
    have hext1 : ∀ n, Ext (G n) (G1 n) := by
      intro n
      by_cases hn : n = b
      · simp only [G1, hn, if_true]; exact ext_unionNew _ _
      · simp only [G1, hn, if_false]; exact Ext.refl _
    obtain ⟨G', h1, h2, h3, h4⟩ := followProd_spec' N Tm nl fe env head rest
      (fun r ⟨pre, hp⟩ => hadd r ⟨Sym.nonterm b :: pre, by simp [hp]⟩) G1 hG1
    refine ⟨G', ?_, h2, fun n => (hext1 n).trans (h3 n), ?_, h4⟩
    · rw [followProd_nonterm, ← h1]
      congr 1
      rw [List.map_map]
      apply List.map_congr_left
      intro n _
      simp only [Function.comp, G1]
      by_cases hn : n = b <;> simp [hn]
    · intro c hc
      apply (h3 b).mem
      simp only [G1, if_true]
      exact mem_unionNew.mpr (Or.inr hc)

theorem followStep_spec' (N Tm : List String) (nl : List String) (fe env : Env) :
    ∀ (ps : List Pr),
      (∀ p ∈ ps, ∀ rest, (∃ pre, p.body = pre ++ rest) → ∀ c ∈ followAdd nl fe env p.head rest, c ∈ Tm) →
      ∀ (G : String → List String), SetsOK Tm G →
      ∃ G', ps.foldl (fun acc p => followProd nl fe env p.head p.body acc) (N.map fun n => (n, G n))
          = N.map (fun n => (n, G' n)) ∧
        SetsOK Tm G' ∧ (∀ n, Ext (G n) (G' n)) ∧ ∀ p ∈ ps, ContribIn nl fe env p.head G' p.body
  | [], _, G, hG => ⟨G, rfl, hG, fun n => Ext.refl _, by simp⟩
  | q :: ps, hadd, G, hG => by
    obtain ⟨G1, h1, h2, h3, h4⟩ := followProd_spec' N Tm nl fe env q.head q.body (hadd q (by simp)) G hG
    obtain ⟨G', k1, k2, k3, k4⟩ := followStep_spec' N Tm nl fe env ps
      (fun p hp => hadd p (List.mem_cons_of_mem _ hp)) G1 h2
    refine ⟨G', by simp only [List.foldl_cons, h1, k1], k2, fun n => (h3 n).trans (k3 n), ?_⟩
    intro p hp
    rcases List.mem_cons.mp hp with rfl | hp'
    · exact contribIn_mono k3 _ h4
    · exact k4 p hp'

/-- one round of the FOLLOW loop on an environment of the invariant's form -/
theorem followStep_form (g : SGrammar) (hg : Listed g) (nl : List String) (env : Env) (h : FollowInv g env) :
    ∃ (F F' : String → List String), env = g.nonterms.map (fun n => (n, F n)) ∧
      followStep g nl (firstEnv g nl) env = g.nonterms.map (fun n => (n, F' n)) ∧
      SetsOK g.terms F' ∧ (∀ n, Ext (F n) (F' n)) ∧ endmarker ∈ F' g.start ∧
      ∀ p ∈ g.prods, ContribIn nl (firstEnv g nl) env p.head F' p.body := by
  have hform := followInv_form h
  obtain ⟨F, hF, hFok, hend⟩ := h
  have hadd : ∀ p ∈ g.prods, ∀ rest, (∃ pre, p.body = pre ++ rest) →
      ∀ c ∈ followAdd nl (firstEnv g nl) env p.head rest, c ∈ g.terms := by
    intro p hp rest ⟨pre, hpre⟩
    apply followAdd_sub g hg nl env hform p.head rest
    intro t ht
    exact hg.terms p hp t (by rw [hpre]; exact List.mem_append_right _ ht)
  obtain ⟨F', h1, h2, h3, h4⟩ := followStep_spec' g.nonterms g.terms nl (firstEnv g nl) env g.prods hadd F hFok
  refine ⟨F, F', hF, ?_, h2, h3, (h3 g.start).mem hend, h4⟩
  unfold followStep
  rw [← h1, ← hF]

theorem followStep_inv (g : SGrammar) (hg : Listed g) (nl : List String) (env : Env) (h : FollowInv g env) :
    FollowInv g (followStep g nl (firstEnv g nl) env) ∧ envSize env ≤ envSize (followStep g nl (firstEnv g nl) env) := by
  obtain ⟨F, F', hF, hF', hok, hext, hend, _⟩ := followStep_form g hg nl env h
  refine ⟨⟨F', hF', hok, hend⟩, ?_⟩
  rw [hF', envSize_map]
  conv => lhs; rw [hF, envSize_map]
  exact sum_le_of_pointwise _ _ _ (fun n _ => (hext n).length_le)

theorem followEnv_inv (g : SGrammar) (hg : Listed g) (hend : endmarker ∈ g.terms) (nl : List String) :
    FollowInv g (followEnv g nl (firstEnv g nl)) ∧
      envSize (followStep g nl (firstEnv g nl) (followEnv g nl (firstEnv g nl))) =
        envSize (followEnv g nl (firstEnv g nl)) := by
  unfold followEnv
  apply envFix_spec (followStep g nl (firstEnv g nl)) (FollowInv g) (g.nonterms.length * g.terms.length)
    (fun env h => followStep_inv g hg nl env h) (fun env h => envForm_size (followInv_form h))
  · refine ⟨fun n => if n = g.start then [endmarker] else [], rfl, ?_, by simp⟩
    intro n
    by_cases hn : n = g.start
    · simp only [hn, if_true]
      exact ⟨by simp, by intro t ht; simp at ht; exact ht ▸ hend⟩
    · simp [hn]
  · rw [Nat.mul_succ, Nat.mul_succ]; omega

theorem contrib_to_closed (nl : List String) (fe fo : Env) (head : String) (N : List String) (F' : String → List String)
    (hF : ∀ n ∈ N, F' n = envGet fo n) :
    ∀ (body : List Sy), (∀ B, Sym.nonterm B ∈ body → B ∈ N) → ContribIn nl fe fo head F' body →
      followClosedBody nl fe fo head body = true
  | [], _, _ => rfl
  | .term t :: rest, hb, h => by
    unfold followClosedBody
    exact contrib_to_closed nl fe fo head N F' hF rest (fun B hB => hb B (List.mem_cons_of_mem _ hB)) h
  | .nonterm B :: rest, hb, h => by
    unfold followClosedBody
    have hB : B ∈ N := hb B (by simp)
    have hrec := contrib_to_closed nl fe fo head N F' hF rest (fun B hB => hb B (List.mem_cons_of_mem _ hB)) h.2
    have h1 := h.1
    rw [hF B hB] at h1
    unfold followAdd at h1
    simp only [Bool.and_eq_true, List.all_eq_true, Bool.or_eq_true, Bool.not_eq_true', List.contains_eq_mem,
      decide_eq_true_eq]
    refine ⟨⟨?_, ?_⟩, hrec⟩
    · intro c hc
      by_cases hall : rest.all (symNullable nl) = true
      · rw [if_pos hall] at h1
        exact h1 c (mem_unionNew.mpr (Or.inl hc))
      · rw [if_neg hall] at h1
        exact h1 c hc
    · by_cases hall : rest.all (symNullable nl) = true
      · right
        rw [if_pos hall] at h1
        intro c hc
        exact h1 c (mem_unionNew.mpr (Or.inr hc))
      · left
        simpa using hall

/-- FOLLOW as the Model computes it is closed under the productions, and the set of the start symbol holds the endmarker -/
theorem follow_closed (g : SGrammar) (hg : Listed g) (hend : endmarker ∈ g.terms) (nl : List String)
    (hbody : ∀ p ∈ g.prods, ∀ B, Sym.nonterm B ∈ p.body → B ∈ g.nonterms) (hstart : g.start ∈ g.nonterms) :
    chkFollowClosed g.prods nl (firstEnv g nl) (followEnv g nl (firstEnv g nl)) = true ∧
      endmarker ∈ envGet (followEnv g nl (firstEnv g nl)) g.start := by
  obtain ⟨hinv, hsize⟩ := followEnv_inv g hg hend nl
  obtain ⟨F, F', hF, hF', _, hext, _, hcontrib⟩ := followStep_form g hg nl _ hinv
  -- the last round changed no set
  have hsame : ∀ n ∈ g.nonterms, F' n = envGet (followEnv g nl (firstEnv g nl)) n := by
    intro n hn
    have hgn : envGet (followEnv g nl (firstEnv g nl)) n = F n := by
      conv => lhs; rw [hF, envGet_map]
      simp [hn]
    rw [hgn]
    apply (hext n).eq_of_length
    have hs := hsize
    rw [hF', envSize_map] at hs
    conv at hs => rhs; rw [hF, envSize_map]
    exact (pointwise_eq_of_sum_eq g.nonterms _ _ (fun m _ => (hext m).length_le) hs.symm n hn).symm
  constructor
  · unfold chkFollowClosed
    rw [List.all_eq_true]
    intro p hp
    exact contrib_to_closed nl _ _ p.head g.nonterms F' hsame p.body (hbody p hp) (hcontrib p hp)
  · obtain ⟨F0, hF0, _, hend0⟩ := hinv
    rw [hF0, envGet_map]
    simpa [hstart] using hend0

end AlgoVerif.C11.BuiltComplete
