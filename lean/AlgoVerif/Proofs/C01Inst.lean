import AlgoVerif.Model.C01
import AlgoVerif.Proofs.C01Spec
/-!
# C01 / C15: instances used by the non-vacuity examples
-/
namespace AlgoVerif.C01

/-! ### the comparators of the harness are lawful -/

theorem lawful_cmpAsc : LawfulCmp cmpAsc where
  eq_iff := fun a b => by unfold cmpAsc; constructor <;> intro h <;> (repeat' split at *) <;> omega
  flip := fun a b => by unfold cmpAsc; constructor <;> intro h <;> (repeat' split at *) <;> omega
  trans := fun a b c h1 h2 => by unfold cmpAsc at *; (repeat' split at *) <;> omega

theorem lawful_cmpDesc : LawfulCmp cmpDesc where
  eq_iff := fun a b => by unfold cmpDesc; constructor <;> intro h <;> (repeat' split at *) <;> omega
  flip := fun a b => by unfold cmpDesc; constructor <;> intro h <;> (repeat' split at *) <;> omega
  trans := fun a b c h1 h2 => by unfold cmpDesc at *; (repeat' split at *) <;> omega

theorem lawful_cmpDiff : LawfulCmp cmpDiff where
  eq_iff := fun a b => by unfold cmpDiff; omega
  flip := fun a b => by unfold cmpDiff; omega
  trans := fun a b c h1 h2 => by unfold cmpDiff at *; omega

theorem lawful_cmpDiff7 : LawfulCmp cmpDiff7 where
  eq_iff := fun a b => by unfold cmpDiff7; omega
  flip := fun a b => by unfold cmpDiff7; omega
  trans := fun a b c h1 h2 => by unfold cmpDiff7 at *; omega

theorem lawful_cmpRDiff : LawfulCmp cmpRDiff where
  eq_iff := fun a b => by unfold cmpRDiff; omega
  flip := fun a b => by unfold cmpRDiff; omega
  trans := fun a b c h1 h2 => by unfold cmpRDiff at *; omega

/-- `ok` with a decidable check on the result (for the non-vacuity examples) -/
def okAnd {α : Type} (o : Outcome α) (p : α → Bool) : Bool :=
  match o with
  | .ok a => p a
  | _ => false

end AlgoVerif.C01
