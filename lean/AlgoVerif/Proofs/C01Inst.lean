import AlgoVerif.Model.C01
import AlgoVerif.Proofs.C01Spec
/-!
# C01 / C15: instances used by the non-vacuity examples
-/
namespace AlgoVerif.C01

/-! ### the comparators of the harness are lawful -/

theorem lawful_cmpAsc : LawfulCmp cmpAsc where
  eq_iff := fun a b => by unfold cmpAsc; constructor <;> intro h <;> (repeat' split at *) <;> omega
  flip := fun a b => by unfold cmpAsc; constructor <;> intro h <;> (repeat' split at *) <;> omega
  trans := fun a b c h1 h2 => by unfold cmpAsc at *; (repeat' split at *) <;> omega

theorem lawful_cmpDesc : LawfulCmp cmpDesc where
  eq_iff := fun a b => by unfold cmpDesc; constructor <;> intro h <;> (repeat' split at *) <;> omega
  flip := fun a b => by unfold cmpDesc; constructor <;> intro h <;> (repeat' split at *) <;> omega
  trans := fun a b c h1 h2 => by unfold cmpDesc at *; (repeat' split at *) <;> omega

theorem lawful_cmpDiff : LawfulCmp cmpDiff where
  eq_iff := fun a b => by unfold cmpDiff; omega
  flip := fun a b => by unfold cmpDiff; omega
  trans := fun a b c h1 h2 => by unfold cmpDiff at *; omega

theorem lawful_cmpDiff7 : LawfulCmp cmpDiff7 where
  eq_iff := fun a b => by unfold cmpDiff7; omega
  flip := fun a b => by unfold cmpDiff7; omega
  trans := fun a b c h1 h2 => by unfold cmpDiff7 at *; omega

theorem lawful_cmpRDiff : LawfulCmp cmpRDiff where
  eq_iff := fun a b => by unfold cmpRDiff; omega
  flip := fun a b => by unfold cmpRDiff; omega
  trans := fun a b c h1 h2 => by unfold cmpRDiff at *; omega

theorem lawful_cmpRDiff3 : LawfulCmp cmpRDiff3 where
  eq_iff := fun a b => by unfold cmpRDiff3; omega
  flip := fun a b => by unfold cmpRDiff3; omega
  trans := fun a b c h1 h2 => by unfold cmpRDiff3 at *; omega

/-- "by a key, then ascending" is a strict total order whatever the key function -/
theorem lawful_cmpLex (f : Int → Int) : LawfulCmp (cmpLex f) where
  eq_iff := fun a b => by
    constructor
    · intro h
      unfold cmpLex cmpAsc at h
      repeat' split at h
      all_goals omega
    · intro h; subst h; simp [cmpLex, cmpAsc]
  flip := fun a b => by
    unfold cmpLex cmpAsc; generalize f a = x; generalize f b = y
    constructor <;> intro h <;> (repeat' split at *) <;> omega
  trans := fun a b c h1 h2 => by
    unfold cmpLex cmpAsc at *; generalize f a = x at *; generalize f b = y at *; generalize f c = z at *
    (repeat' split at *) <;> omega

theorem lawful_cmpAbsSign : LawfulCmp cmpAbsSign := lawful_cmpLex absI
theorem lawful_cmpEvenOdd : LawfulCmp cmpEvenOdd := lawful_cmpLex parityI

/-- `ok` with a decidable check on the result (for the non-vacuity examples) -/
def okAnd {α : Type} (o : Outcome α) (p : α → Bool) : Bool :=
  match o with
  | .ok a => p a
  | _ => false

/-- the Boolean results of a history (for the non-vacuity examples) -/
def outBools {K V : Type} : List (Out K V) → List Bool
  | [] => []
  | .bool b :: os => b :: outBools os
  | _ :: os => outBools os

end AlgoVerif.C01
