import AlgoVerif.Proofs.C16Basic
/-!
# C16 helper lemmas, part 2: the binary search of `sorted.find` and `sorted.add`
-/
namespace AlgoVerif.C16
variable {α : Type}

section
variable {dom : α → Prop} {compare : CompareFunc α} {c : α → α → Int}
  (hc : ∀ a b, dom a → dom b → compare a b = .ok (c a b))
  (hanti : ∀ a b, c a b < 0 ↔ 0 < c b a)
  (htrans : ∀ a b d, c a b < 0 → c b d < 0 → c a d < 0)
  {l : List α} (hsorted : l.Pairwise (fun a b => c a b < 0)) (hd : ∀ x ∈ l, dom x)
  {v : α} (hv : dom v)

include hc hanti htrans hsorted hd hv

/-- loop invariant of `sorted.find`: everything left of `low` is smaller than `v`, everything right of
`high` is larger; the loop ends (within `high - low + 2` rounds) either with `-1` and no member
comparing equal to `v`, or with the index of one that does. -/
theorem binFind_loop : ∀ (fuel : Nat) (low high : Int), 0 ≤ low → high < l.length → low ≤ high + 1 →
    high - low + 1 < fuel →
    (∀ k (hk : k < l.length), (k : Int) < low → 0 < c v l[k]) →
    (∀ k (hk : k < l.length), high < (k : Int) → c v l[k] < 0) →
    (binFind compare l v fuel low high = .ok (-1) ∧ ∀ m ∈ l, c v m ≠ 0) ∨
    (∃ k, ∃ hk : k < l.length, binFind compare l v fuel low high = .ok (k : Int) ∧ c v l[k] = 0)
  | 0, low, high, _, _, _, hf, _, _ => by omega
  | fuel + 1, low, high, h0, hh, hlh, hf, hL, hH => by
    unfold binFind
    by_cases hle : low ≤ high
    · have hnn : 0 ≤ low + high := by omega
      have hmid : (low + high).tdiv 2 = (low + high) / 2 := Int.tdiv_eq_ediv_of_nonneg hnn
      simp only [hle, ↓reduceIte, hmid]
      have hm0 : 0 ≤ (low + high) / 2 := by omega
      have hml : low ≤ (low + high) / 2 := by omega
      have hmh : (low + high) / 2 ≤ high := by omega
      have hmlen : ((low + high) / 2).toNat < l.length := by omega
      have hcast : (((low + high) / 2).toNat : Int) = (low + high) / 2 := Int.toNat_of_nonneg hm0
      simp only [hm0, ↓reduceIte, List.getElem?_eq_getElem hmlen]
      have hcm := hc v l[((low + high) / 2).toNat] hv (hd _ (List.getElem_mem hmlen))
      simp only [hcm, ok_bind]
      have hsi := List.pairwise_iff_getElem.1 hsorted
      by_cases hlt : c v l[((low + high) / 2).toNat] < 0
      · simp only [hlt, ↓reduceIte]
        refine binFind_loop fuel low ((low + high) / 2 - 1) h0 (by omega) (by omega) (by omega) hL ?_
        intro k hk hkm
        by_cases hkeq : k = ((low + high) / 2).toNat
        · subst hkeq; exact hlt
        · exact htrans _ _ _ hlt (hsi _ _ hmlen hk (by omega))
      · simp only [hlt, ↓reduceIte]
        by_cases hgt : 0 < c v l[((low + high) / 2).toNat]
        · simp only [hgt, ↓reduceIte]
          refine binFind_loop fuel ((low + high) / 2 + 1) high (by omega) hh (by omega) (by omega) ?_ hH
          intro k hk hkm
          by_cases hkeq : k = ((low + high) / 2).toNat
          · subst hkeq; exact hgt
          · have h1 := hsi _ _ hk hmlen (by omega)
            have h2 := (hanti _ _).2 hgt
            exact (hanti _ _).1 (htrans _ _ _ h1 h2)
        · simp only [hgt, ↓reduceIte]
          refine .inr ⟨((low + high) / 2).toNat, hmlen, ?_, by omega⟩
          simp [hcast]
    · simp only [hle, ↓reduceIte]
      refine .inl ⟨by first | trivial | rfl, ?_⟩
      intro m hm
      obtain ⟨k, hk, rfl⟩ := List.mem_iff_getElem.1 hm
      by_cases hkl : (k : Int) < low
      · have := hL k hk hkl; omega
      · have := hH k hk (by omega); omega

/-- the same loop in `sorted.add`: `none` when a member compares equal to `v`, otherwise the insertion
point `p`: everything before `p` is smaller than `v`, everything from `p` on is larger. -/
theorem binAddPos_loop : ∀ (fuel : Nat) (low high : Int), 0 ≤ low → high < l.length → low ≤ high + 1 →
    high - low + 1 < fuel →
    (∀ k (hk : k < l.length), (k : Int) < low → 0 < c v l[k]) →
    (∀ k (hk : k < l.length), high < (k : Int) → c v l[k] < 0) →
    (binAddPos compare l v fuel low high = .ok none ∧ ∃ m ∈ l, c v m = 0) ∨
    (∃ p : Nat, p ≤ l.length ∧ binAddPos compare l v fuel low high = .ok (some (p : Int)) ∧
      (∀ k (hk : k < l.length), k < p → 0 < c v l[k]) ∧ (∀ k (hk : k < l.length), p ≤ k → c v l[k] < 0))
  | 0, low, high, _, _, _, hf, _, _ => by omega
  | fuel + 1, low, high, h0, hh, hlh, hf, hL, hH => by
    unfold binAddPos
    by_cases hle : low ≤ high
    · have hnn : 0 ≤ low + high := by omega
      have hmid : (low + high).tdiv 2 = (low + high) / 2 := Int.tdiv_eq_ediv_of_nonneg hnn
      simp only [hle, ↓reduceIte, hmid]
      have hm0 : 0 ≤ (low + high) / 2 := by omega
      have hml : low ≤ (low + high) / 2 := by omega
      have hmh : (low + high) / 2 ≤ high := by omega
      have hmlen : ((low + high) / 2).toNat < l.length := by omega
      simp only [hm0, ↓reduceIte, List.getElem?_eq_getElem hmlen]
      have hcm := hc v l[((low + high) / 2).toNat] hv (hd _ (List.getElem_mem hmlen))
      simp only [hcm, ok_bind]
      have hsi := List.pairwise_iff_getElem.1 hsorted
      by_cases hlt : c v l[((low + high) / 2).toNat] < 0
      · simp only [hlt, ↓reduceIte]
        refine binAddPos_loop fuel low ((low + high) / 2 - 1) h0 (by omega) (by omega) (by omega) hL ?_
        intro k hk hkm
        by_cases hkeq : k = ((low + high) / 2).toNat
        · subst hkeq; exact hlt
        · exact htrans _ _ _ hlt (hsi _ _ hmlen hk (by omega))
      · simp only [hlt, ↓reduceIte]
        by_cases hgt : 0 < c v l[((low + high) / 2).toNat]
        · simp only [hgt, ↓reduceIte]
          refine binAddPos_loop fuel ((low + high) / 2 + 1) high (by omega) hh (by omega) (by omega) ?_ hH
          intro k hk hkm
          by_cases hkeq : k = ((low + high) / 2).toNat
          · subst hkeq; exact hgt
          · have h1 := hsi _ _ hk hmlen (by omega)
            have h2 := (hanti _ _).2 hgt
            exact (hanti _ _).1 (htrans _ _ _ h1 h2)
        · simp only [hgt, ↓reduceIte]
          exact .inl ⟨by first | trivial | rfl, _, List.getElem_mem hmlen, by omega⟩
    · simp only [hle, ↓reduceIte]
      refine .inr ⟨low.toNat, by omega, ?_, ?_, ?_⟩
      · simp [Int.toNat_of_nonneg h0]
      · intro k hk hkp; exact hL k hk (by omega)
      · intro k hk hkp; exact hH k hk (by omega)

end

end AlgoVerif.C16
