import AlgoVerif.Model.C04Run
/-!
# C04, binary heap: invariants and the refinement lemmas behind `C04_binary`

`abs h` = all non-nil cells of the array (the cells outside `1..n` are nil, which is part of the invariant,
as in the Go `verify()`).  Hole-based swim/sink are analysed on the *virtual* array that already has the
moving entry written into the hole: every loop iteration is then a swap of two cells.
-/
namespace AlgoVerif.C04
variable {K V : Type}

/-- the cell at index `i` (`none` also when `i` is out of range) -/
def cellAt (a : Array (Cell K V)) (i : Nat) : Cell K V := (a[i]?).join

/-- all non-nil cells -/
def cells (a : Array (Cell K V)) : Bag K V := a.toList.filterMap id

theorem cellAt_set (a : Array (Cell K V)) (i j : Nat) (x : Cell K V) (hi : i < a.size) :
    cellAt (a.setIfInBounds i x) j = if i = j then x else cellAt a j := by
  unfold cellAt
  rw [Array.getElem?_setIfInBounds]
  by_cases h : i = j
  · subst h; simp [hi]
  · simp [h]

theorem cellAt_of_size_le (a : Array (Cell K V)) (i : Nat) (h : a.size ≤ i) : cellAt a i = none := by
  unfold cellAt; simp [Array.getElem?_eq_none h]

theorem getElem?_of_cellAt (a : Array (Cell K V)) (i : Nat) (hi : i < a.size) : a[i]? = some (cellAt a i) := by
  unfold cellAt; simp [Array.getElem?_eq_getElem hi]

theorem ext_cellAt (a b : Array (Cell K V)) (hs : a.size = b.size) (h : ∀ i, cellAt a i = cellAt b i) : a = b := by
  apply Array.ext_getElem?
  intro i
  by_cases hi : i < a.size
  · rw [getElem?_of_cellAt a i hi, getElem?_of_cellAt b i (hs ▸ hi), h]
  · rw [Array.getElem?_eq_none (by omega), Array.getElem?_eq_none (by omega)]

theorem deref_of_cellAt (a : Array (Cell K V)) (i : Nat) (p : K × V) (h : cellAt a i = some p) : deref a i = .ok p := by
  unfold deref
  unfold cellAt at h
  cases hx : a[i]? with
  | none => simp [hx] at h
  | some c => cases c with
    | none => simp [hx] at h
    | some q => simp [hx] at h; simp [h]

/-- exchanging two cells keeps the multiset of cells -/
theorem cells_swap (A B : Array (Cell K V)) (i j : Nat) (hi : i < A.size) (hj : j < A.size) (hs : B.size = A.size)
    (hB : ∀ t, cellAt B t = if t = j then cellAt A i else if t = i then cellAt A j else cellAt A t) :
    (cells B).Perm (cells A) := by
  have : B = A.swap i j hi hj := by
    apply ext_cellAt _ _ (by simp [hs])
    intro t
    rw [hB]
    unfold cellAt
    rw [Array.getElem?_swap]
    by_cases h1 : j = t
    · subst h1; simp [Array.getElem?_eq_getElem hi]
    · by_cases h2 : i = t
      · subst h2; simp [h1, Array.getElem?_eq_getElem hj]; intro h; exact absurd h.symm h1
      · have h1' : ¬ t = j := fun h => h1 h.symm
        have h2' : ¬ t = i := fun h => h2 h.symm
        simp [h1, h2, h1', h2']
  subst this
  exact (Array.swap_perm hi hj).toList.filterMap _


/-- cells `1..n` are non-nil, all others are nil, and `n` is a valid index -/
structure Shape (a : Array (Cell K V)) (n : Nat) : Prop where
  size : n < a.size
  some_ : ∀ i, 1 ≤ i → i ≤ n → ∃ p, cellAt a i = some p
  none_ : ∀ i, (i = 0 ∨ n < i) → cellAt a i = none

/-- heap order between the cells at `i` (above) and `j` (below) -/
def Edge (cmp : K → K → Int) (a : Array (Cell K V)) (i j : Nat) : Prop :=
  ∀ p q, cellAt a i = some p → cellAt a j = some q → cmp p.1 q.1 ≤ 0

theorem swim_spec {cmp : K → K → Int} (hc : LawfulCmp cmp) (key : K) (val : V) (n : Nat) :
    ∀ (fuel : Nat) (heap : Array (Cell K V)) (k : Nat), k + 1 ≤ fuel → 1 ≤ k → k ≤ n →
      Shape (heap.setIfInBounds k (some (key, val))) n →
      (∀ i, 2 ≤ i → i ≤ n → i ≠ k → Edge cmp (heap.setIfInBounds k (some (key, val))) (i / 2) i) →
      (∀ c, 2 ≤ k → c / 2 = k → c ≤ n → Edge cmp (heap.setIfInBounds k (some (key, val))) (k / 2) c) →
      ∃ heap' k', Binary.swim cmp key fuel heap k = .ok (heap', k') ∧ 1 ≤ k' ∧ k' ≤ n ∧ heap'.size = heap.size ∧
        Shape (heap'.setIfInBounds k' (some (key, val))) n ∧
        (∀ i, 2 ≤ i → i ≤ n → Edge cmp (heap'.setIfInBounds k' (some (key, val))) (i / 2) i) ∧
        (cells (heap'.setIfInBounds k' (some (key, val)))).Perm (cells (heap.setIfInBounds k (some (key, val)))) := by
  intro fuel
  induction fuel with
  | zero => intro heap k h; omega
  | succ fuel ih =>
    intro heap k hf hk1 hkn hsh hed hgr
    have hsz : n < heap.size := by simpa using hsh.size
    have hks : k < heap.size := by omega
    -- cells of the virtual array
    have hA : ∀ t, cellAt (heap.setIfInBounds k (some (key, val))) t = if k = t then some (key, val) else cellAt heap t :=
      fun t => cellAt_set heap k t _ hks
    unfold Binary.swim
    by_cases hk : 1 < k
    · simp only [hk, if_true]
      have hk2 : k / 2 ≠ k := by omega
      obtain ⟨p, hp⟩ := hsh.some_ (k / 2) (by omega) (by omega)
      have hp' : cellAt heap (k / 2) = some p := by
        have := hA (k / 2); rw [if_neg (fun h => hk2 h.symm)] at this; rw [← this]; exact hp
      rw [deref_of_cellAt _ _ _ hp', obind_ok]
      by_cases hgt : cmp p.1 key > 0
      · simp only [hgt, if_true, hks]
        -- the next virtual array is the old one with cells k and k/2 exchanged
        have hks2 : k / 2 < (heap.setIfInBounds k (some p)).size := by simp; omega
        have hA1 : ∀ t, cellAt ((heap.setIfInBounds k (some p)).setIfInBounds (k / 2) (some (key, val))) t =
            if t = k / 2 then cellAt (heap.setIfInBounds k (some (key, val))) k
            else if t = k then cellAt (heap.setIfInBounds k (some (key, val))) (k / 2)
            else cellAt (heap.setIfInBounds k (some (key, val))) t := by
          intro t
          rw [cellAt_set _ _ _ _ hks2, cellAt_set _ _ _ _ hks, hA, hA, hA]
          have hk2' : ¬ k = k / 2 := fun h => hk2 h.symm
          by_cases h1 : t = k / 2
          · have h1' : k / 2 = t := h1.symm
            simp [h1']
          · by_cases h2 : t = k
            · have h1' : ¬ k / 2 = t := fun h => h1 h.symm
              have h2' : k = t := h2.symm
              rw [if_neg h1', if_pos h2', if_neg h1, if_pos h2, if_neg hk2', hp']
            · have h1' : ¬ k / 2 = t := fun h => h1 h.symm
              have h2' : ¬ k = t := fun h => h2 h.symm
              simp [h1, h2, h1', h2']
        have hAk : cellAt (heap.setIfInBounds k (some (key, val))) k = some (key, val) := by rw [hA]; simp
        have hkp : cmp key p.1 ≤ 0 := hc.sign _ _ (by omega)
        have hperm := cells_swap (heap.setIfInBounds k (some (key, val)))
          ((heap.setIfInBounds k (some p)).setIfInBounds (k / 2) (some (key, val))) k (k / 2)
          (by simp; omega) (by simp; omega) (by simp) hA1
        have hsh1 : Shape ((heap.setIfInBounds k (some p)).setIfInBounds (k / 2) (some (key, val))) n := by
          refine ⟨by simp; omega, ?_, ?_⟩
          · intro i hi1 hin
            rw [hA1]
            by_cases h1 : i = k / 2
            · rw [if_pos h1]; exact ⟨_, hAk⟩
            · by_cases h2 : i = k
              · rw [if_neg h1, if_pos h2]; exact ⟨p, hp⟩
              · rw [if_neg h1, if_neg h2]; exact hsh.some_ i hi1 hin
          · intro i hi
            rw [hA1, if_neg (by omega), if_neg (by omega)]
            exact hsh.none_ i hi
        obtain ⟨heap', k', hrun, h1, h2, h3, h4, h5, h6⟩ := ih (heap.setIfInBounds k (some p)) (k / 2)
          (by omega) (by omega) (by omega) hsh1
          (by
            intro i hi2 hin hik p' q' hp1 hq1
            rw [hA1] at hp1 hq1
            rw [if_neg hik] at hq1
            by_cases hi : i = k
            · -- edge (k/2, k): new key above the old parent
              subst hi
              simp [hAk] at hp1
              simp [hp] at hq1
              subst hp1; subst hq1; exact hkp
            · rw [if_neg hi] at hq1
              by_cases hpk : i / 2 = k
              · -- a child of k: the old parent moves above it
                rw [if_neg (by omega), if_pos hpk, hp] at hp1
                cases hp1
                exact hgr i (by omega) hpk hin _ _ hp hq1
              · by_cases hpk2 : i / 2 = k / 2
                · -- the sibling of k
                  rw [if_pos hpk2, hAk] at hp1
                  cases hp1
                  have := hed i hi2 hin hi _ _ (hpk2 ▸ hp) hq1
                  exact hc.trans _ _ _ hkp this
                · rw [if_neg hpk2, if_neg hpk] at hp1
                  exact hed i hi2 hin hi _ _ hp1 hq1)
          (by
            intro c hk22 hc2 hcn p' q' hp1 hq1
            rw [hA1] at hp1 hq1
            rw [if_neg (by omega), if_neg (by omega)] at hp1
            rw [if_neg (by omega)] at hq1
            have hg : cmp p'.1 p.1 ≤ 0 := hed (k / 2) hk22 (by omega) hk2 _ _ hp1 hp
            by_cases hck : c = k
            · rw [if_pos hck, hp] at hq1
              cases hq1; exact hg
            · rw [if_neg hck] at hq1
              exact hc.trans _ _ _ hg (hed c (by omega) hcn hck _ _ (hc2 ▸ hp) hq1))
        exact ⟨heap', k', hrun, h1, h2, by simpa using h3, h4, h5, h6.trans hperm⟩
      · simp only [hgt, if_false]
        refine ⟨heap, k, rfl, hk1, hkn, rfl, hsh, ?_, List.Perm.refl _⟩
        intro i hi2 hin
        by_cases hik : i = k
        · subst hik
          intro p' q' hp1 hq1
          rw [hp] at hp1; cases hp1
          rw [hA] at hq1; simp at hq1; subst hq1
          simp; omega
        · exact hed i hi2 hin hik
    · simp only [hk, if_false]
      exact ⟨heap, k, rfl, hk1, hkn, rfl, hsh, fun i hi2 hin => hed i hi2 hin (by omega), List.Perm.refl _⟩


/-- the child selection of the sink loop: `if j < n && cmp(heap[j+1], heap[j]) < 0 { j++ }` -/
theorem sink_pick {cmp : K → K → Int} (hc : LawfulCmp cmp) (heap : Array (Cell K V)) (n j : Nat) (b : K × V)
    (hb : cellAt heap j = some b) (ha : j < n → ∃ a, cellAt heap (j + 1) = some a) :
    ∃ j' b', (if j < n then
               obind (deref heap (j + 1)) fun a => obind (deref heap j) fun b =>
                 .ok (if cmp a.1 b.1 < 0 then j + 1 else j)
             else Outcome.ok j) = .ok j' ∧ cellAt heap j' = some b' ∧ (j' = j ∨ (j' = j + 1 ∧ j < n)) ∧
      (∀ c q, (c = j ∨ (c = j + 1 ∧ j < n)) → cellAt heap c = some q → cmp b'.1 q.1 ≤ 0) := by
  by_cases hjn : j < n
  · obtain ⟨a, ha⟩ := ha hjn
    rw [if_pos hjn, deref_of_cellAt _ _ _ ha, deref_of_cellAt _ _ _ hb, obind_ok, obind_ok]
    by_cases hlt : cmp a.1 b.1 < 0
    · refine ⟨j + 1, a, by rw [if_pos hlt], ha, Or.inr ⟨rfl, hjn⟩, ?_⟩
      intro c q hcq hq
      rcases hcq with h | ⟨h, _⟩
      · subst h; rw [hb] at hq; cases hq; omega
      · subst h; rw [ha] at hq; cases hq; exact hc.refl _
    · refine ⟨j, b, by rw [if_neg hlt], hb, Or.inl rfl, ?_⟩
      intro c q hcq hq
      rcases hcq with h | ⟨h, _⟩
      · subst h; rw [hb] at hq; cases hq; exact hc.refl _
      · subst h; rw [ha] at hq; cases hq; exact hc.sign _ _ (by omega)
  · rw [if_neg hjn]
    refine ⟨j, b, rfl, hb, Or.inl rfl, ?_⟩
    intro c q hcq hq
    rcases hcq with h | ⟨_, h⟩
    · subst h; rw [hb] at hq; cases hq; exact hc.refl _
    · exact absurd h hjn


/-- the array `Delete` will end up with if the sink loop stops with the hole at `k`:
`heap[k] = kv; heap[n+1] = nil` -/
def virt (heap : Array (Cell K V)) (k : Nat) (q : K × V) (n : Nat) : Array (Cell K V) :=
  (heap.setIfInBounds k (some q)).setIfInBounds (n + 1) none

theorem cellAt_virt (heap : Array (Cell K V)) (k : Nat) (q : K × V) (n t : Nat) (hk : k < heap.size) (hn : n + 1 < heap.size) :
    cellAt (virt heap k q n) t = if n + 1 = t then none else if k = t then some q else cellAt heap t := by
  unfold virt
  rw [cellAt_set _ _ _ _ (by simpa using hn), cellAt_set _ _ _ _ hk]

theorem sink_spec {cmp : K → K → Int} (hc : LawfulCmp cmp) (q : K × V) (n : Nat) :
    ∀ (fuel : Nat) (heap : Array (Cell K V)) (k : Nat), 1 ≤ fuel → (2 * k ≤ n → n + 2 ≤ fuel + 2 * k) →
      1 ≤ k → (k ≤ n ∨ (n = 0 ∧ k = 1)) → n + 1 < heap.size →
      Shape (virt heap k q n) n →
      (∀ i, 2 ≤ i → i ≤ n → i / 2 ≠ k → Edge cmp (virt heap k q n) (i / 2) i) →
      (∀ c, 2 ≤ k → c / 2 = k → c ≤ n → Edge cmp (virt heap k q n) (k / 2) c) →
      ∃ heap' k', Binary.sink cmp (some q) n fuel heap k (2 * k) = .ok (heap', k') ∧ 1 ≤ k' ∧
        (k' ≤ n ∨ (n = 0 ∧ k' = 1)) ∧ heap'.size = heap.size ∧
        Shape (virt heap' k' q n) n ∧
        (∀ i, 2 ≤ i → i ≤ n → Edge cmp (virt heap' k' q n) (i / 2) i) ∧
        (cells (virt heap' k' q n)).Perm (cells (virt heap k q n)) := by
  intro fuel
  induction fuel with
  | zero => intro heap k h; omega
  | succ fuel ih =>
    intro heap k _ hfuel hk1 hkn hsz hsh hed hgr
    have hks : k < heap.size := by omega
    have hC : ∀ t, cellAt (virt heap k q n) t = if n + 1 = t then none else if k = t then some q else cellAt heap t :=
      fun t => cellAt_virt heap k q n t hks hsz
    unfold Binary.sink
    by_cases hj : 2 * k ≤ n
    · rw [if_pos hj]
      have hkn' : k ≤ n := by omega
      -- the cells below k are those of the real array
      have hreal : ∀ t, 2 * k ≤ t → t ≤ n → cellAt heap t = cellAt (virt heap k q n) t := by
        intro t h1 h2; rw [hC, if_neg (by omega), if_neg (by omega)]
      obtain ⟨b, hb⟩ := hsh.some_ (2 * k) (by omega) hj
      rw [← hreal _ (Nat.le_refl _) hj] at hb
      obtain ⟨j', b', hpick, hb', hj', hmin⟩ := sink_pick hc heap n (2 * k) b hb (by
        intro h
        obtain ⟨a, ha⟩ := hsh.some_ (2 * k + 1) (by omega) (by omega)
        exact ⟨a, by rw [hreal _ (by omega) (by omega)]; exact ha⟩)
      rw [hpick, obind_ok]
      simp only []
      rw [deref_of_cellAt _ _ _ hb', obind_ok]
      have hj'n : j' ≤ n := by omega
      have hj'k : j' / 2 = k := by omega
      have hCk : cellAt (virt heap k q n) k = some q := by rw [hC, if_neg (by omega), if_pos rfl]
      have hCj' : cellAt (virt heap k q n) j' = some b' := by rw [← hreal _ (by omega) hj'n]; exact hb'
      -- b' is below-or-equal every child of k
      have hmin' : ∀ c qq, c / 2 = k → 2 ≤ c → c ≤ n → cellAt (virt heap k q n) c = some qq → cmp b'.1 qq.1 ≤ 0 := by
        intro c qq h1 h2 h3 h4
        apply hmin c qq (by omega)
        rw [hreal _ (by omega) h3]; exact h4
      by_cases hlt : cmp q.1 b'.1 < 0
      · rw [if_pos hlt]
        refine ⟨heap, k, rfl, hk1, hkn, rfl, hsh, ?_, List.Perm.refl _⟩
        intro i hi2 hin
        by_cases hik : i / 2 = k
        · intro p' q' hp1 hq1
          rw [hik, hCk] at hp1; cases hp1
          exact hc.trans _ _ _ (by omega) (hmin' i q' hik hi2 hin hq1)
        · exact hed i hi2 hin hik
      · rw [if_neg hlt, if_pos hks]
        have hbq : cmp b'.1 q.1 ≤ 0 := hc.sign _ _ (by omega)
        have hj's : j' < heap.size := by omega
        have hC1 : ∀ t, cellAt (virt (heap.setIfInBounds k (some b')) j' q n) t =
            if t = j' then cellAt (virt heap k q n) k
            else if t = k then cellAt (virt heap k q n) j'
            else cellAt (virt heap k q n) t := by
          intro t
          rw [cellAt_virt _ _ _ _ _ (by simpa using hj's) (by simpa using hsz), cellAt_set _ _ _ _ hks, hCk, hCj', hC]
          by_cases h0 : n + 1 = t
          · rw [if_pos h0, if_neg (by omega), if_neg (by omega), if_pos h0]
          · rw [if_neg h0, if_neg h0]
            by_cases h1 : t = j'
            · rw [if_pos h1.symm, if_pos h1]
            · rw [if_neg (fun h => h1 h.symm), if_neg h1]
              by_cases h2 : t = k
              · rw [if_pos h2.symm, if_pos h2]
              · rw [if_neg (fun h => h2 h.symm), if_neg h2, if_neg (fun h => h2 h.symm)]
        have hperm := cells_swap (virt heap k q n) (virt (heap.setIfInBounds k (some b')) j' q n) k j'
          (by simp [virt]; omega) (by simp [virt]; omega) (by simp [virt]) hC1
        have hsh1 : Shape (virt (heap.setIfInBounds k (some b')) j' q n) n := by
          refine ⟨by simp [virt]; omega, ?_, ?_⟩
          · intro i hi1 hin
            rw [hC1]
            by_cases h1 : i = j'
            · rw [if_pos h1]; exact ⟨_, hCk⟩
            · by_cases h2 : i = k
              · rw [if_neg h1, if_pos h2]; exact ⟨_, hCj'⟩
              · rw [if_neg h1, if_neg h2]; exact hsh.some_ i hi1 hin
          · intro i hi
            rw [hC1, if_neg (by omega), if_neg (by omega)]
            exact hsh.none_ i hi
        obtain ⟨heap', k', hrun, h1, h2, h3, h4, h5, h6⟩ := ih (heap.setIfInBounds k (some b')) j'
          (by omega) (by omega) (by omega) (Or.inl hj'n) (by simpa using hsz) hsh1
          (by
            intro i hi2 hin hik p' q' hp1 hq1
            rw [hC1] at hp1 hq1
            rw [if_neg hik] at hp1
            by_cases hi : i = j'
            · -- edge (k, j'): the child that moved up is above the sinking entry
              rw [if_pos hi, hCk] at hq1; cases hq1
              rw [if_pos (by omega), hCj'] at hp1; cases hp1
              exact hbq
            · rw [if_neg hi] at hq1
              by_cases hi' : i = k
              · -- edge (k/2, k)
                rw [if_pos hi', hCj'] at hq1; cases hq1
                rw [if_neg (by omega)] at hp1
                subst hi'
                exact hgr j' (by omega) hj'k hj'n _ _ hp1 hCj'
              · rw [if_neg hi'] at hq1
                by_cases hpk : i / 2 = k
                · -- the other child of k
                  rw [if_pos hpk, hCj'] at hp1; cases hp1
                  exact hmin' i q' hpk hi2 hin hq1
                · rw [if_neg hpk] at hp1
                  exact hed i hi2 hin hpk _ _ hp1 hq1)
          (by
            intro c _ hc2 hcn p' q' hp1 hq1
            rw [hC1] at hp1 hq1
            rw [if_neg (by omega), if_pos hj'k, hCj'] at hp1; cases hp1
            rw [if_neg (by omega), if_neg (by omega)] at hq1
            exact hed c (by omega) hcn (by omega) _ _ (hc2 ▸ hCj') hq1)
        exact ⟨heap', k', hrun, h1, h2, by simpa using h3, h4, h5, h6.trans hperm⟩
    · rw [if_neg hj]
      refine ⟨heap, k, rfl, hk1, hkn, rfl, hsh, ?_, List.Perm.refl _⟩
      intro i hi2 hin
      exact hed i hi2 hin (by omega)


/-! ### cells of modified arrays -/

theorem mem_cells (a : Array (Cell K V)) (p : K × V) : p ∈ cells a ↔ ∃ i, cellAt a i = some p := by
  unfold cells cellAt
  rw [List.mem_filterMap]
  constructor
  · rintro ⟨c, hc, hid⟩
    obtain ⟨i, hi⟩ := List.mem_iff_getElem?.mp hc
    refine ⟨i, ?_⟩
    rw [← Array.getElem?_toList, hi]; simpa using hid
  · rintro ⟨i, hi⟩
    cases hx : a[i]? with
    | none => simp [hx] at hi
    | some c =>
      simp [hx] at hi
      refine ⟨c, ?_, by simpa using hi⟩
      apply List.mem_iff_getElem?.mpr
      exact ⟨i, by rw [Array.getElem?_toList]; exact hx⟩

/-- overwriting cell `i`: old content on the left, new content on the right -/
theorem cells_set (a : Array (Cell K V)) (i : Nat) (x : Cell K V) (hi : i < a.size) :
    ((cellAt a i).toList ++ cells (a.setIfInBounds i x)).Perm (x.toList ++ cells a) := by
  have hL : i < a.toList.length := by simpa using hi
  have h1 : cells (a.setIfInBounds i x) =
      List.filterMap id (a.toList.take i) ++ (x.toList ++ List.filterMap id (a.toList.drop (i + 1))) := by
    unfold cells
    rw [Array.toList_setIfInBounds, List.set_eq_take_append_cons_drop, if_pos hL, List.filterMap_append,
      List.filterMap_cons]
    cases x <;> simp
  have h2 : cells a =
      List.filterMap id (a.toList.take i) ++ ((cellAt a i).toList ++ List.filterMap id (a.toList.drop (i + 1))) := by
    unfold cells
    conv => lhs; rw [← List.take_append_drop i a.toList, List.drop_eq_getElem_cons hL]
    rw [List.filterMap_append, List.filterMap_cons]
    have : cellAt a i = a.toList[i] := by
      unfold cellAt; rw [Array.getElem?_eq_getElem hi]; simp
    rw [this]
    cases a.toList[i] <;> simp
  rw [h1, h2]
  generalize List.filterMap id (a.toList.take i) = X
  generalize List.filterMap id (a.toList.drop (i + 1)) = Y
  generalize (cellAt a i).toList = O
  generalize x.toList = N
  -- O ++ (X ++ (N ++ Y)) ~ N ++ (X ++ (O ++ Y))
  have e1 : (O ++ (X ++ (N ++ Y))).Perm ((O ++ N) ++ (X ++ Y)) := by
    rw [List.append_assoc]
    exact List.Perm.append_left O (by
      rw [← List.append_assoc, ← List.append_assoc]
      exact List.Perm.append_right Y List.perm_append_comm)
  have e2 : (N ++ (X ++ (O ++ Y))).Perm ((N ++ O) ++ (X ++ Y)) := by
    rw [List.append_assoc]
    exact List.Perm.append_left N (by
      rw [← List.append_assoc, ← List.append_assoc]
      exact List.Perm.append_right Y List.perm_append_comm)
  exact e1.trans ((List.Perm.append_right _ List.perm_append_comm).trans e2.symm)

theorem cellAt_resize (a : Array (Cell K V)) (m t : Nat) :
    cellAt (resize a m) t = if t < m then cellAt a t else none := by
  unfold resize cellAt
  rw [List.getElem?_toArray, List.getElem?_append, List.getElem?_take, List.getElem?_replicate,
    Array.getElem?_toList, List.length_take, Array.length_toList]
  by_cases h : t < m
  · rw [if_pos h]
    by_cases h2 : t < a.size
    · rw [if_pos (by omega), if_pos h]
    · rw [if_neg (by omega), if_pos (by omega), Array.getElem?_eq_none (by omega)]; simp
  · rw [if_neg h]
    rw [if_neg (by omega), if_neg (by omega)]; simp [h]

theorem size_resize (a : Array (Cell K V)) (m : Nat) : (resize a m).size = m := by
  unfold resize; simp; omega

/-- `resize` keeps the cells when everything it cuts off is nil -/
theorem cells_resize (a : Array (Cell K V)) (m : Nat) (h : ∀ t, m ≤ t → cellAt a t = none) :
    cells (resize a m) = cells a := by
  unfold resize cells
  simp only [List.filterMap_append]
  have h1 : List.filterMap id (List.replicate (m - a.size) (none : Cell K V)) = [] := by
    rw [List.filterMap_eq_nil_iff]; intro x hx; rw [List.eq_of_mem_replicate hx]; rfl
  have h2 : List.filterMap id (a.toList.drop m) = [] := by
    rw [List.filterMap_eq_nil_iff]
    intro x hx
    obtain ⟨i, hi⟩ := List.mem_iff_getElem?.mp hx
    rw [List.getElem?_drop, Array.getElem?_toList] at hi
    have := h (m + i) (by omega)
    unfold cellAt at this; rw [hi] at this; simpa using this
  rw [h1, List.append_nil]
  conv => rhs; rw [← List.take_append_drop m a.toList, List.filterMap_append, h2, List.append_nil]


/-! ### the invariant of the binary heap and the abstraction function -/

structure BInv (cmp : K → K → Int) (h : Binary K V) : Prop where
  shape : Shape h.heap h.n
  ord : ∀ i, 2 ≤ i → i ≤ h.n → Edge cmp h.heap (i / 2) i
  len : (cells h.heap).length = h.n

/-- the multiset held by a binary heap -/
def Binary.abs (h : Binary K V) : Bag K V := cells h.heap

theorem cellAt_replicate (m t : Nat) : cellAt (Array.replicate m (none : Cell K V)) t = none := by
  unfold cellAt
  rw [Array.getElem?_replicate]
  split <;> rfl

theorem cells_replicate (m : Nat) : cells (Array.replicate m (none : Cell K V)) = [] := by
  unfold cells
  rw [List.filterMap_eq_nil_iff]
  intro x hx
  rw [Array.toList_replicate] at hx
  rw [List.eq_of_mem_replicate hx]; rfl

theorem BInv_new (cmp : K → K → Int) (size : Nat) : BInv cmp (Binary.new size : Binary K V) := by
  refine ⟨⟨by simp [Binary.new], ?_, ?_⟩, ?_, ?_⟩
  · intro i h1 h2; simp [Binary.new] at h2; omega
  · intro i _; exact cellAt_replicate _ _
  · intro i h1 h2; simp [Binary.new] at h2; omega
  · simp [Binary.new, cells_replicate]

theorem abs_new (size : Nat) : (Binary.new size : Binary K V).abs = [] := by
  simp [Binary.abs, Binary.new, cells_replicate]

/-- every cell of a heap-ordered array is above-or-equal the root -/
theorem root_le {cmp : K → K → Int} (hc : LawfulCmp cmp) (a : Array (Cell K V)) (n : Nat) (hsh : Shape a n)
    (hord : ∀ i, 2 ≤ i → i ≤ n → Edge cmp a (i / 2) i) (e : K × V) (he : cellAt a 1 = some e) :
    ∀ i, 1 ≤ i → i ≤ n → ∀ x, cellAt a i = some x → cmp e.1 x.1 ≤ 0 := by
  intro i
  induction i using Nat.strongRecOn with
  | _ i ih =>
    intro h1 hn x hx
    by_cases hi : i = 1
    · subst hi; rw [he] at hx; cases hx; exact hc.refl _
    · obtain ⟨p, hp⟩ := hsh.some_ (i / 2) (by omega) (by omega)
      exact hc.trans _ _ _ (ih (i / 2) (by omega) (by omega) (by omega) p hp) (hord i (by omega) hn p x hp hx)

theorem root_extremal {cmp : K → K → Int} (hc : LawfulCmp cmp) (a : Array (Cell K V)) (n : Nat) (hsh : Shape a n)
    (hord : ∀ i, 2 ≤ i → i ≤ n → Edge cmp a (i / 2) i) (e : K × V) (he : cellAt a 1 = some e) :
    Extremal cmp (cells a) e.1 := by
  intro p hp
  obtain ⟨i, hi⟩ := (mem_cells a p).mp hp
  by_cases h : i = 0 ∨ n < i
  · rw [hsh.none_ i h] at hi; cases hi
  · exact root_le hc a n hsh hord e he i (by omega) (by omega) p hi

theorem Binary.insert_spec {cmp : K → K → Int} (hc : LawfulCmp cmp) (h : Binary K V) (hinv : BInv cmp h) (k : K) (v : V) :
    ∃ h', h.insert cmp k v = .ok h' ∧ BInv cmp h' ∧ h'.abs.Perm ((k, v) :: h.abs) := by
  obtain ⟨hsh, hord, hlen⟩ := hinv
  -- the array after the optional resize
  have h0 : ∃ heap0 : Array (Cell K V),
      (if h.n + 1 = h.heap.size then resize h.heap (h.heap.size * 2) else h.heap) = heap0 ∧
      h.n + 1 < heap0.size ∧ (∀ t, cellAt heap0 t = cellAt h.heap t) ∧ cells heap0 = cells h.heap := by
    by_cases hfull : h.n + 1 = h.heap.size
    · refine ⟨_, rfl, ?_, ?_, ?_⟩
      · rw [if_pos hfull, size_resize]; omega
      · intro t; rw [if_pos hfull, cellAt_resize]
        by_cases ht : t < h.heap.size * 2
        · rw [if_pos ht]
        · rw [if_neg ht, cellAt_of_size_le _ _ (by omega)]
      · rw [if_pos hfull]; exact cells_resize _ _ (fun t ht => cellAt_of_size_le _ _ (by omega))
    · have := hsh.size
      exact ⟨_, rfl, by rw [if_neg hfull]; omega, by intro t; rw [if_neg hfull], by rw [if_neg hfull]⟩
  obtain ⟨heap0, hheap0, hsz0, hcell0, hcells0⟩ := h0
  unfold Binary.insert
  simp only [hheap0]
  have hA : ∀ t, cellAt (heap0.setIfInBounds (h.n + 1) (some (k, v))) t =
      if h.n + 1 = t then some (k, v) else cellAt h.heap t := by
    intro t; rw [cellAt_set _ _ _ _ hsz0, hcell0]
  obtain ⟨heap', k', hrun, hk1, hk2, hsz', hsh', hord', hperm⟩ :=
    swim_spec hc k v (h.n + 1) (h.n + 1 + 1) heap0 (h.n + 1) (Nat.le_refl _) (by omega) (Nat.le_refl _)
      (by
        refine ⟨by simpa using hsz0, ?_, ?_⟩
        · intro i hi1 hin
          rw [hA]
          by_cases hi : h.n + 1 = i
          · rw [if_pos hi]; exact ⟨_, rfl⟩
          · rw [if_neg hi]; exact hsh.some_ i hi1 (by omega)
        · intro i hi
          rw [hA, if_neg (by omega)]
          exact hsh.none_ i (by omega))
      (by
        intro i hi2 hin hik p q hp hq
        rw [hA, if_neg (by omega)] at hp
        rw [hA, if_neg (fun h => hik h.symm)] at hq
        exact hord i hi2 (by omega) p q hp hq)
      (by intro c _ hc2 hcn; omega)
  rw [hrun, obind_ok]
  simp only []
  rw [if_pos (by omega)]
  have hperm2 : (cells (heap0.setIfInBounds (h.n + 1) (some (k, v)))).Perm ((k, v) :: cells h.heap) := by
    have := cells_set heap0 (h.n + 1) (some (k, v)) hsz0
    rw [hcell0, hsh.none_ (h.n + 1) (by omega), hcells0] at this
    simpa using this
  refine ⟨_, rfl, ⟨hsh', hord', ?_⟩, hperm.trans hperm2⟩
  have := (hperm.trans hperm2).length_eq
  simp at this; simp; omega


theorem abs_nil_of_n_zero {cmp : K → K → Int} (h : Binary K V) (hinv : BInv cmp h) (hn : h.n = 0) : h.abs = [] := by
  have := hinv.len
  rw [hn] at this
  exact List.eq_nil_of_length_eq_zero this

theorem Binary.delete_spec {cmp : K → K → Int} (hc : LawfulCmp cmp) (h : Binary K V) (hinv : BInv cmp h) (hn : h.n ≠ 0) :
    ∃ h' e, h.delete cmp = .ok (h', some e) ∧ BInv cmp h' ∧ Extremal cmp h.abs e.1 ∧ h.abs.Perm (e :: h'.abs) := by
  obtain ⟨hsh, hord, hlen⟩ := hinv
  have hsz := hsh.size
  obtain ⟨e, he⟩ := hsh.some_ 1 (Nat.le_refl _) (by omega)
  obtain ⟨q, hq⟩ := hsh.some_ h.n (by omega) (Nat.le_refl _)
  unfold Binary.delete
  rw [if_neg hn, getElem?_of_cellAt _ 1 (by omega), getElem?_of_cellAt _ h.n hsz, he, hq]
  simp only []
  have hn1 : h.n - 1 + 1 = h.n := by omega
  have hC : ∀ t, cellAt (virt h.heap 1 q (h.n - 1)) t =
      if h.n = t then none else if 1 = t then some q else cellAt h.heap t := by
    intro t; rw [cellAt_virt _ _ _ _ _ (by omega) (by omega), hn1]
  obtain ⟨heap', k', hrun, hk1, hk2, hsz', hsh', hord', hperm⟩ :=
    sink_spec hc q (h.n - 1) (h.n - 1 + 2) h.heap 1 (by omega) (by omega) (Nat.le_refl _) (by omega) (by omega)
      (by
        refine ⟨by simp [virt]; omega, ?_, ?_⟩
        · intro i hi1 hin
          rw [hC, if_neg (by omega)]
          by_cases hi : 1 = i
          · rw [if_pos hi]; exact ⟨_, rfl⟩
          · rw [if_neg hi]; exact hsh.some_ i hi1 (by omega)
        · intro i hi
          rw [hC]
          by_cases hi' : h.n = i
          · rw [if_pos hi']
          · rw [if_neg hi', if_neg (by omega)]
            exact hsh.none_ i (by omega))
      (by
        intro i hi2 hin hik p x hp hx
        rw [hC, if_neg (by omega), if_neg (fun h => hik h.symm)] at hp
        rw [hC, if_neg (by omega), if_neg (by omega)] at hx
        exact hord i hi2 (by omega) p x hp hx)
      (by intro c h2; omega)
  have hrun' : Binary.sink cmp (some q) (h.n - 1) (h.n - 1 + 2) h.heap 1 2 = .ok (heap', k') := hrun
  rw [hrun', obind_ok]
  simp only []
  have hk's : k' < heap'.size := by omega
  rw [if_pos hk's, if_pos (by simp; omega)]
  -- the array after `heap[k] = kv; heap[n+1] = nil`
  have hvirt : (heap'.setIfInBounds k' (some q)).setIfInBounds (h.n - 1 + 1) none = virt heap' k' q (h.n - 1) := rfl
  rw [hvirt]
  -- abstract state before = ext :: abstract state of the virtual start array
  have hperm0 : (cells h.heap).Perm (e :: cells (virt h.heap 1 q (h.n - 1))) := by
    have s1 := cells_set h.heap 1 (some q) (by omega)
    rw [he] at s1
    have s2 := cells_set (h.heap.setIfInBounds 1 (some q)) (h.n - 1 + 1) none (by simp; omega)
    have hq' : cellAt (h.heap.setIfInBounds 1 (some q)) (h.n - 1 + 1) = some q := by
      rw [cellAt_set _ _ _ _ (by omega), hn1]
      by_cases h1 : 1 = h.n
      · rw [if_pos h1]
      · rw [if_neg h1, hq]
    rw [hq'] at s2
    -- s1 : e :: cells H1 ~ q :: cells H ; s2 : q :: cells C0 ~ cells H1
    have s1' : ([e] ++ cells (h.heap.setIfInBounds 1 (some q))).Perm ([q] ++ cells h.heap) := by simpa using s1
    have s2' : ([q] ++ cells (virt h.heap 1 q (h.n - 1))).Perm (cells (h.heap.setIfInBounds 1 (some q))) := by
      simpa [virt] using s2
    have s3 : (q :: e :: cells (virt h.heap 1 q (h.n - 1))).Perm (q :: cells h.heap) :=
      ((List.Perm.swap e q _).trans ((List.perm_cons e).mpr s2')).trans s1'
    exact ((List.perm_cons q).mp s3).symm
  have hext : Extremal cmp (cells h.heap) e.1 := root_extremal hc h.heap h.n hsh hord e he
  have hfin : h.abs.Perm (e :: cells (virt heap' k' q (h.n - 1))) :=
    hperm0.trans ((List.perm_cons e).mpr hperm.symm)
  have hlen' : (cells (virt heap' k' q (h.n - 1))).length = h.n - 1 := by
    have := hfin.length_eq
    simp [Binary.abs] at this; omega
  by_cases hshrink : h.n - 1 < (virt heap' k' q (h.n - 1)).size / 4
  · rw [if_pos hshrink]
    have hcut : ∀ t, (virt heap' k' q (h.n - 1)).size / 2 ≤ t → cellAt (virt heap' k' q (h.n - 1)) t = none :=
      fun t ht => hsh'.none_ t (by omega)
    have hhalf : h.n - 1 < (virt heap' k' q (h.n - 1)).size / 2 := by omega
    refine ⟨_, e, rfl, ⟨⟨by rw [size_resize]; exact hhalf, ?_, ?_⟩, ?_, ?_⟩, hext, ?_⟩
    · intro i hi1 hin
      dsimp only at hin ⊢
      rw [cellAt_resize, if_pos (by omega)]
      exact hsh'.some_ i hi1 hin
    · intro i hi
      dsimp only at hi ⊢
      rw [cellAt_resize]
      split
      · exact hsh'.none_ i hi
      · rfl
    · intro i hi2 hin p x hp hx
      dsimp only at hin hp hx
      rw [cellAt_resize, if_pos (by omega)] at hp hx
      exact hord' i hi2 hin p x hp hx
    · show (cells (resize _ _)).length = _
      rw [cells_resize _ _ hcut]; exact hlen'
    · show h.abs.Perm (e :: cells (resize _ _))
      rw [cells_resize _ _ hcut]; exact hfin
  · rw [if_neg hshrink]
    exact ⟨_, e, rfl, ⟨hsh', hord', hlen'⟩, hext, hfin⟩


theorem scan_spec (p : K × V → Bool) (a : Array (Cell K V)) (n : Nat) (hsh : Shape a n) :
    ∀ (fuel k : Nat), 1 ≤ k → k ≤ n + 1 → n + 2 ≤ fuel + k →
      ∃ b, Binary.scan p a n fuel k = .ok b ∧
        (b = true ↔ ∃ i x, k ≤ i ∧ i ≤ n ∧ cellAt a i = some x ∧ p x = true) := by
  intro fuel
  induction fuel with
  | zero => intro k h1 h2 h3; omega
  | succ fuel ih =>
    intro k h1 h2 h3
    unfold Binary.scan
    by_cases hk : k ≤ n
    · rw [if_pos hk]
      obtain ⟨x, hx⟩ := hsh.some_ k h1 hk
      rw [deref_of_cellAt _ _ _ hx, obind_ok]
      by_cases hp : p x = true
      · rw [if_pos hp]
        exact ⟨true, rfl, by simp; exact ⟨k, Nat.le_refl _, hk, x.1, x.2, hx, hp⟩⟩
      · rw [if_neg hp]
        obtain ⟨b, hb, hiff⟩ := ih (k + 1) (by omega) (by omega) (by omega)
        refine ⟨b, hb, hiff.trans ⟨?_, ?_⟩⟩
        · rintro ⟨i, y, g1, g2, g3, g4⟩; exact ⟨i, y, by omega, g2, g3, g4⟩
        · rintro ⟨i, y, g1, g2, g3, g4⟩
          by_cases hik : i = k
          · rw [hik, hx] at g3; cases g3; exact absurd g4 hp
          · exact ⟨i, y, by omega, g2, g3, g4⟩
    · rw [if_neg hk]
      exact ⟨false, rfl, by simp; intro i hi1 hi2; omega⟩

theorem contains_spec (p : K × V → Bool) (h : Binary K V) (hsh : Shape h.heap h.n) :
    Binary.scan p h.heap h.n (h.n + 1) 1 = .ok (h.abs.any p) := by
  obtain ⟨b, hb, hiff⟩ := scan_spec p h.heap h.n hsh (h.n + 1) 1 (Nat.le_refl _) (by omega) (by omega)
  rw [hb]
  congr 1
  rw [Bool.eq_iff_iff, hiff, List.any_eq_true]
  constructor
  · rintro ⟨i, x, _, _, hx, hp⟩
    exact ⟨x, (mem_cells _ _).mpr ⟨i, hx⟩, hp⟩
  · rintro ⟨x, hx, hp⟩
    obtain ⟨i, hi⟩ := (mem_cells _ _).mp hx
    by_cases hout : i = 0 ∨ h.n < i
    · rw [hsh.none_ i hout] at hi; cases hi
    · exact ⟨i, x, by omega, by omega, hi, hp⟩

/-- every operation of the binary heap succeeds, keeps the invariant and is admitted by the Spec -/
theorem Binary.step_spec {cmp : K → K → Int} (hc : LawfulCmp cmp) (eqV : V → V → Bool) (h : Binary K V)
    (hinv : BInv cmp h) (op : Op K V) :
    ∃ h' out, Binary.step cmp eqV h op = .ok (h', out) ∧ BInv cmp h' ∧ Step cmp eqV h.abs op out h'.abs := by
  cases op with
  | insert k v =>
    obtain ⟨h', hrun, hinv', hperm⟩ := Binary.insert_spec hc h hinv k v
    exact ⟨h', .unit, by simp [Binary.step, hrun], hinv', hperm⟩
  | delete =>
    by_cases hn : h.n = 0
    · refine ⟨h, .kv none, by simp [Binary.step, Binary.delete, hn], hinv, ?_⟩
      have := abs_nil_of_n_zero h hinv hn
      exact ⟨this, this⟩
    · obtain ⟨h', e, hrun, hinv', hext, hperm⟩ := Binary.delete_spec hc h hinv hn
      exact ⟨h', .kv (some e), by simp [Binary.step, hrun], hinv', hext, hperm⟩
  | deleteAll =>
    refine ⟨h.deleteAll, .unit, rfl, ?_, ?_⟩
    · refine ⟨⟨?_, ?_, ?_⟩, ?_, ?_⟩
      · have := hinv.shape.size; simp [Binary.deleteAll]; omega
      · intro i h1 h2; simp [Binary.deleteAll] at h2; omega
      · intro i _; exact cellAt_replicate _ _
      · intro i h1 h2; simp [Binary.deleteAll] at h2; omega
      · simp [Binary.deleteAll, cells_replicate]
    · show cells _ = []
      simp [Binary.deleteAll, cells_replicate]
  | peek =>
    by_cases hn : h.n = 0
    · refine ⟨h, .kv none, by simp [Binary.step, Binary.peek, hn], hinv, ?_⟩
      have := abs_nil_of_n_zero h hinv hn
      exact ⟨this, this⟩
    · obtain ⟨e, he⟩ := hinv.shape.some_ 1 (Nat.le_refl _) (by omega)
      refine ⟨h, .kv (some e), by simp [Binary.step, Binary.peek, hn, deref_of_cellAt _ _ _ he], hinv, ?_, ?_, List.Perm.refl _⟩
      · exact (mem_cells _ _).mpr ⟨1, he⟩
      · exact root_extremal hc h.heap h.n hinv.shape hinv.ord e he
  | size =>
    refine ⟨h, .int h.n, rfl, hinv, ?_, List.Perm.refl _⟩
    have := hinv.len
    show (h.n : Int) = ((cells h.heap).length : Int)
    rw [this]
  | isEmpty =>
    refine ⟨h, .bool (h.n == 0), rfl, hinv, ?_, List.Perm.refl _⟩
    have := hinv.len
    show (h.n == 0) = (cells h.heap).isEmpty
    cases hc' : cells h.heap with
    | nil => simp [hc'] at this; simp [← this]
    | cons x xs => simp [hc'] at this; simp [← this]
  | containsKey k =>
    refine ⟨h, .bool (h.abs.any fun a => cmp a.1 k == 0), ?_, hinv, rfl, List.Perm.refl _⟩
    simp [Binary.step, Binary.containsKey, contains_spec _ h hinv.shape]
  | containsValue v =>
    refine ⟨h, .bool (h.abs.any fun a => eqV a.2 v), ?_, hinv, rfl, List.Perm.refl _⟩
    simp [Binary.step, Binary.containsValue, contains_spec _ h hinv.shape]

theorem binary_admitted {cmp : K → K → Int} (hc : LawfulCmp cmp) (eqV : V → V → Bool) :
    ∀ (ops : List (Op K V)) (h : Binary K V), BInv cmp h →
      Admitted1 cmp eqV h.abs ops (run1 (Binary.step cmp eqV) h ops) := by
  intro ops
  induction ops with
  | nil => intro h _; simp [run1, Admitted1]
  | cons op ops ih =>
    intro h hinv
    obtain ⟨h', out, hrun, hinv', hstep⟩ := Binary.step_spec hc eqV h hinv op
    simp only [run1, hrun, Admitted1]
    exact ⟨h'.abs, hstep, ih h' hinv'⟩

end AlgoVerif.C04
