import AlgoVerif.Model.C04Run
/-!
# C04, binary heap: invariants and the refinement lemmas behind `C04_binary`

`abs h` = all non-nil cells of the array (the cells outside `1..n` are nil, which is part of the invariant,
as in the Go `verify()`).  Hole-based swim/sink are analysed on the *virtual* array that already has the
moving entry written into the hole: every loop iteration is then a swap of two cells.
-/
namespace AlgoVerif.C04
variable {K V : Type}

@[simp] theorem obind_ok {α β : Type} (a : α) (f : α → Outcome β) : obind (.ok a) f = f a := rfl
@[simp] theorem obind_panic {α β : Type} (f : α → Outcome β) : obind .panic f = .panic := rfl
@[simp] theorem obind_diverge {α β : Type} (f : α → Outcome β) : obind .diverge f = .diverge := rfl

/-- the cell at index `i` (`none` also when `i` is out of range) -/
def cellAt (a : Array (Cell K V)) (i : Nat) : Cell K V := (a[i]?).join

/-- all non-nil cells -/
def cells (a : Array (Cell K V)) : Bag K V := a.toList.filterMap id

theorem cellAt_set (a : Array (Cell K V)) (i j : Nat) (x : Cell K V) (hi : i < a.size) :
    cellAt (a.setIfInBounds i x) j = if i = j then x else cellAt a j := by
  unfold cellAt
  rw [Array.getElem?_setIfInBounds]
  by_cases h : i = j
  · subst h; simp [hi]
  · simp [h]

theorem cellAt_of_size_le (a : Array (Cell K V)) (i : Nat) (h : a.size ≤ i) : cellAt a i = none := by
  unfold cellAt; simp [Array.getElem?_eq_none h]

theorem getElem?_of_cellAt (a : Array (Cell K V)) (i : Nat) (hi : i < a.size) : a[i]? = some (cellAt a i) := by
  unfold cellAt; simp [Array.getElem?_eq_getElem hi]

theorem ext_cellAt (a b : Array (Cell K V)) (hs : a.size = b.size) (h : ∀ i, cellAt a i = cellAt b i) : a = b := by
  apply Array.ext_getElem?
  intro i
  by_cases hi : i < a.size
  · rw [getElem?_of_cellAt a i hi, getElem?_of_cellAt b i (hs ▸ hi), h]
  · rw [Array.getElem?_eq_none (by omega), Array.getElem?_eq_none (by omega)]

theorem deref_of_cellAt (a : Array (Cell K V)) (i : Nat) (p : K × V) (h : cellAt a i = some p) : deref a i = .ok p := by
  unfold deref
  unfold cellAt at h
  cases hx : a[i]? with
  | none => simp [hx] at h
  | some c => cases c with
    | none => simp [hx] at h
    | some q => simp [hx] at h; simp [h]

/-- exchanging two cells keeps the multiset of cells -/
theorem cells_swap (A B : Array (Cell K V)) (i j : Nat) (hi : i < A.size) (hj : j < A.size) (hs : B.size = A.size)
    (hB : ∀ t, cellAt B t = if t = j then cellAt A i else if t = i then cellAt A j else cellAt A t) :
    (cells B).Perm (cells A) := by
  have : B = A.swap i j hi hj := by
    apply ext_cellAt _ _ (by simp [hs])
    intro t
    rw [hB]
    unfold cellAt
    rw [Array.getElem?_swap]
    by_cases h1 : j = t
    · subst h1; simp [Array.getElem?_eq_getElem hi]
    · by_cases h2 : i = t
      · subst h2; simp [h1, Array.getElem?_eq_getElem hj]; intro h; exact absurd h.symm h1
      · have h1' : ¬ t = j := fun h => h1 h.symm
        have h2' : ¬ t = i := fun h => h2 h.symm
        simp [h1, h2, h1', h2']
  subst this
  exact (Array.swap_perm hi hj).toList.filterMap _


/-- cells `1..n` are non-nil, all others are nil, and `n` is a valid index -/
structure Shape (a : Array (Cell K V)) (n : Nat) : Prop where
  size : n < a.size
  some_ : ∀ i, 1 ≤ i → i ≤ n → ∃ p, cellAt a i = some p
  none_ : ∀ i, (i = 0 ∨ n < i) → cellAt a i = none

/-- heap order between the cells at `i` (above) and `j` (below) -/
def Edge (cmp : K → K → Int) (a : Array (Cell K V)) (i j : Nat) : Prop :=
  ∀ p q, cellAt a i = some p → cellAt a j = some q → cmp p.1 q.1 ≤ 0

theorem swim_spec {cmp : K → K → Int} (hc : LawfulCmp cmp) (key : K) (val : V) (n : Nat) :
    ∀ (fuel : Nat) (heap : Array (Cell K V)) (k : Nat), k + 1 ≤ fuel → 1 ≤ k → k ≤ n →
      Shape (heap.setIfInBounds k (some (key, val))) n →
      (∀ i, 2 ≤ i → i ≤ n → i ≠ k → Edge cmp (heap.setIfInBounds k (some (key, val))) (i / 2) i) →
      (∀ c, 2 ≤ k → c / 2 = k → c ≤ n → Edge cmp (heap.setIfInBounds k (some (key, val))) (k / 2) c) →
      ∃ heap' k', Binary.swim cmp key fuel heap k = .ok (heap', k') ∧ 1 ≤ k' ∧ k' ≤ n ∧ heap'.size = heap.size ∧
        Shape (heap'.setIfInBounds k' (some (key, val))) n ∧
        (∀ i, 2 ≤ i → i ≤ n → Edge cmp (heap'.setIfInBounds k' (some (key, val))) (i / 2) i) ∧
        (cells (heap'.setIfInBounds k' (some (key, val)))).Perm (cells (heap.setIfInBounds k (some (key, val)))) := by
  intro fuel
  induction fuel with
  | zero => intro heap k h; omega
  | succ fuel ih =>
    intro heap k hf hk1 hkn hsh hed hgr
    have hsz : n < heap.size := by simpa using hsh.size
    have hks : k < heap.size := by omega
    -- cells of the virtual array
    have hA : ∀ t, cellAt (heap.setIfInBounds k (some (key, val))) t = if k = t then some (key, val) else cellAt heap t :=
      fun t => cellAt_set heap k t _ hks
    unfold Binary.swim
    by_cases hk : 1 < k
    · simp only [hk, if_true]
      have hk2 : k / 2 ≠ k := by omega
      obtain ⟨p, hp⟩ := hsh.some_ (k / 2) (by omega) (by omega)
      have hp' : cellAt heap (k / 2) = some p := by
        have := hA (k / 2); rw [if_neg (fun h => hk2 h.symm)] at this; rw [← this]; exact hp
      rw [deref_of_cellAt _ _ _ hp', obind_ok]
      by_cases hgt : cmp p.1 key > 0
      · simp only [hgt, if_true, hks]
        -- the next virtual array is the old one with cells k and k/2 exchanged
        have hks2 : k / 2 < (heap.setIfInBounds k (some p)).size := by simp; omega
        have hA1 : ∀ t, cellAt ((heap.setIfInBounds k (some p)).setIfInBounds (k / 2) (some (key, val))) t =
            if t = k / 2 then cellAt (heap.setIfInBounds k (some (key, val))) k
            else if t = k then cellAt (heap.setIfInBounds k (some (key, val))) (k / 2)
            else cellAt (heap.setIfInBounds k (some (key, val))) t := by
          intro t
          rw [cellAt_set _ _ _ _ hks2, cellAt_set _ _ _ _ hks, hA, hA, hA]
          have hk2' : ¬ k = k / 2 := fun h => hk2 h.symm
          by_cases h1 : t = k / 2
          · have h1' : k / 2 = t := h1.symm
            simp [h1']
          · by_cases h2 : t = k
            · have h1' : ¬ k / 2 = t := fun h => h1 h.symm
              have h2' : k = t := h2.symm
              rw [if_neg h1', if_pos h2', if_neg h1, if_pos h2, if_neg hk2', hp']
            · have h1' : ¬ k / 2 = t := fun h => h1 h.symm
              have h2' : ¬ k = t := fun h => h2 h.symm
              simp [h1, h2, h1', h2']
        have hAk : cellAt (heap.setIfInBounds k (some (key, val))) k = some (key, val) := by rw [hA]; simp
        have hkp : cmp key p.1 ≤ 0 := hc.sign _ _ (by omega)
        have hperm := cells_swap (heap.setIfInBounds k (some (key, val)))
          ((heap.setIfInBounds k (some p)).setIfInBounds (k / 2) (some (key, val))) k (k / 2)
          (by simp; omega) (by simp; omega) (by simp) hA1
        have hsh1 : Shape ((heap.setIfInBounds k (some p)).setIfInBounds (k / 2) (some (key, val))) n := by
          refine ⟨by simp; omega, ?_, ?_⟩
          · intro i hi1 hin
            rw [hA1]
            by_cases h1 : i = k / 2
            · rw [if_pos h1]; exact ⟨_, hAk⟩
            · by_cases h2 : i = k
              · rw [if_neg h1, if_pos h2]; exact ⟨p, hp⟩
              · rw [if_neg h1, if_neg h2]; exact hsh.some_ i hi1 hin
          · intro i hi
            rw [hA1, if_neg (by omega), if_neg (by omega)]
            exact hsh.none_ i hi
        obtain ⟨heap', k', hrun, h1, h2, h3, h4, h5, h6⟩ := ih (heap.setIfInBounds k (some p)) (k / 2)
          (by omega) (by omega) (by omega) hsh1
          (by
            intro i hi2 hin hik p' q' hp1 hq1
            rw [hA1] at hp1 hq1
            rw [if_neg hik] at hq1
            by_cases hi : i = k
            · -- edge (k/2, k): new key above the old parent
              subst hi
              simp [hAk] at hp1
              simp [hp] at hq1
              subst hp1; subst hq1; exact hkp
            · rw [if_neg hi] at hq1
              by_cases hpk : i / 2 = k
              · -- a child of k: the old parent moves above it
                rw [if_neg (by omega), if_pos hpk, hp] at hp1
                cases hp1
                exact hgr i (by omega) hpk hin _ _ hp hq1
              · by_cases hpk2 : i / 2 = k / 2
                · -- the sibling of k
                  rw [if_pos hpk2, hAk] at hp1
                  cases hp1
                  have := hed i hi2 hin hi _ _ (hpk2 ▸ hp) hq1
                  exact hc.trans _ _ _ hkp this
                · rw [if_neg hpk2, if_neg hpk] at hp1
                  exact hed i hi2 hin hi _ _ hp1 hq1)
          (by
            intro c hk22 hc2 hcn p' q' hp1 hq1
            rw [hA1] at hp1 hq1
            rw [if_neg (by omega), if_neg (by omega)] at hp1
            rw [if_neg (by omega)] at hq1
            have hg : cmp p'.1 p.1 ≤ 0 := hed (k / 2) hk22 (by omega) hk2 _ _ hp1 hp
            by_cases hck : c = k
            · rw [if_pos hck, hp] at hq1
              cases hq1; exact hg
            · rw [if_neg hck] at hq1
              exact hc.trans _ _ _ hg (hed c (by omega) hcn hck _ _ (hc2 ▸ hp) hq1))
        exact ⟨heap', k', hrun, h1, h2, by simpa using h3, h4, h5, h6.trans hperm⟩
      · simp only [hgt, if_false]
        refine ⟨heap, k, rfl, hk1, hkn, rfl, hsh, ?_, List.Perm.refl _⟩
        intro i hi2 hin
        by_cases hik : i = k
        · subst hik
          intro p' q' hp1 hq1
          rw [hp] at hp1; cases hp1
          rw [hA] at hq1; simp at hq1; subst hq1
          simp; omega
        · exact hed i hi2 hin hik
    · simp only [hk, if_false]
      exact ⟨heap, k, rfl, hk1, hkn, rfl, hsh, fun i hi2 hin => hed i hi2 hin (by omega), List.Perm.refl _⟩


theorem LawfulCmp.refl {cmp : K → K → Int} (hc : LawfulCmp cmp) (a : K) : cmp a a ≤ 0 := by
  by_cases h : 0 ≤ cmp a a
  · exact hc.sign _ _ h
  · omega

/-- the child selection of the sink loop: `if j < n && cmp(heap[j+1], heap[j]) < 0 { j++ }` -/
theorem sink_pick {cmp : K → K → Int} (hc : LawfulCmp cmp) (heap : Array (Cell K V)) (n j : Nat) (b : K × V)
    (hb : cellAt heap j = some b) (ha : j < n → ∃ a, cellAt heap (j + 1) = some a) :
    ∃ j' b', (if j < n then
               obind (deref heap (j + 1)) fun a => obind (deref heap j) fun b =>
                 .ok (if cmp a.1 b.1 < 0 then j + 1 else j)
             else Outcome.ok j) = .ok j' ∧ cellAt heap j' = some b' ∧ (j' = j ∨ (j' = j + 1 ∧ j < n)) ∧
      (∀ c q, (c = j ∨ (c = j + 1 ∧ j < n)) → cellAt heap c = some q → cmp b'.1 q.1 ≤ 0) := by
  by_cases hjn : j < n
  · obtain ⟨a, ha⟩ := ha hjn
    rw [if_pos hjn, deref_of_cellAt _ _ _ ha, deref_of_cellAt _ _ _ hb, obind_ok, obind_ok]
    by_cases hlt : cmp a.1 b.1 < 0
    · refine ⟨j + 1, a, by rw [if_pos hlt], ha, Or.inr ⟨rfl, hjn⟩, ?_⟩
      intro c q hcq hq
      rcases hcq with h | ⟨h, _⟩
      · subst h; rw [hb] at hq; cases hq; omega
      · subst h; rw [ha] at hq; cases hq; exact hc.refl _
    · refine ⟨j, b, by rw [if_neg hlt], hb, Or.inl rfl, ?_⟩
      intro c q hcq hq
      rcases hcq with h | ⟨h, _⟩
      · subst h; rw [hb] at hq; cases hq; exact hc.refl _
      · subst h; rw [ha] at hq; cases hq; exact hc.sign _ _ (by omega)
  · rw [if_neg hjn]
    refine ⟨j, b, rfl, hb, Or.inl rfl, ?_⟩
    intro c q hcq hq
    rcases hcq with h | ⟨_, h⟩
    · subst h; rw [hb] at hq; cases hq; exact hc.refl _
    · exact absurd h hjn


/-- the array `Delete` will end up with if the sink loop stops with the hole at `k`:
`heap[k] = kv; heap[n+1] = nil` -/
def virt (heap : Array (Cell K V)) (k : Nat) (q : K × V) (n : Nat) : Array (Cell K V) :=
  (heap.setIfInBounds k (some q)).setIfInBounds (n + 1) none

theorem cellAt_virt (heap : Array (Cell K V)) (k : Nat) (q : K × V) (n t : Nat) (hk : k < heap.size) (hn : n + 1 < heap.size) :
    cellAt (virt heap k q n) t = if n + 1 = t then none else if k = t then some q else cellAt heap t := by
  unfold virt
  rw [cellAt_set _ _ _ _ (by simpa using hn), cellAt_set _ _ _ _ hk]

theorem sink_spec {cmp : K → K → Int} (hc : LawfulCmp cmp) (q : K × V) (n : Nat) :
    ∀ (fuel : Nat) (heap : Array (Cell K V)) (k : Nat), 1 ≤ fuel → (2 * k ≤ n → n + 2 ≤ fuel + 2 * k) →
      1 ≤ k → (k ≤ n ∨ (n = 0 ∧ k = 1)) → n + 1 < heap.size →
      Shape (virt heap k q n) n →
      (∀ i, 2 ≤ i → i ≤ n → i / 2 ≠ k → Edge cmp (virt heap k q n) (i / 2) i) →
      (∀ c, 2 ≤ k → c / 2 = k → c ≤ n → Edge cmp (virt heap k q n) (k / 2) c) →
      ∃ heap' k', Binary.sink cmp (some q) n fuel heap k (2 * k) = .ok (heap', k') ∧ 1 ≤ k' ∧
        (k' ≤ n ∨ (n = 0 ∧ k' = 1)) ∧ heap'.size = heap.size ∧
        Shape (virt heap' k' q n) n ∧
        (∀ i, 2 ≤ i → i ≤ n → Edge cmp (virt heap' k' q n) (i / 2) i) ∧
        (cells (virt heap' k' q n)).Perm (cells (virt heap k q n)) := by
  intro fuel
  induction fuel with
  | zero => intro heap k h; omega
  | succ fuel ih =>
    intro heap k _ hfuel hk1 hkn hsz hsh hed hgr
    have hks : k < heap.size := by omega
    have hC : ∀ t, cellAt (virt heap k q n) t = if n + 1 = t then none else if k = t then some q else cellAt heap t :=
      fun t => cellAt_virt heap k q n t hks hsz
    unfold Binary.sink
    by_cases hj : 2 * k ≤ n
    · rw [if_pos hj]
      have hkn' : k ≤ n := by omega
      -- the cells below k are those of the real array
      have hreal : ∀ t, 2 * k ≤ t → t ≤ n → cellAt heap t = cellAt (virt heap k q n) t := by
        intro t h1 h2; rw [hC, if_neg (by omega), if_neg (by omega)]
      obtain ⟨b, hb⟩ := hsh.some_ (2 * k) (by omega) hj
      rw [← hreal _ (Nat.le_refl _) hj] at hb
      obtain ⟨j', b', hpick, hb', hj', hmin⟩ := sink_pick hc heap n (2 * k) b hb (by
        intro h
        obtain ⟨a, ha⟩ := hsh.some_ (2 * k + 1) (by omega) (by omega)
        exact ⟨a, by rw [hreal _ (by omega) (by omega)]; exact ha⟩)
      rw [hpick, obind_ok]
      simp only []
      rw [deref_of_cellAt _ _ _ hb', obind_ok]
      have hj'n : j' ≤ n := by omega
      have hj'k : j' / 2 = k := by omega
      have hCk : cellAt (virt heap k q n) k = some q := by rw [hC, if_neg (by omega), if_pos rfl]
      have hCj' : cellAt (virt heap k q n) j' = some b' := by rw [← hreal _ (by omega) hj'n]; exact hb'
      -- b' is below-or-equal every child of k
      have hmin' : ∀ c qq, c / 2 = k → 2 ≤ c → c ≤ n → cellAt (virt heap k q n) c = some qq → cmp b'.1 qq.1 ≤ 0 := by
        intro c qq h1 h2 h3 h4
        apply hmin c qq (by omega)
        rw [hreal _ (by omega) h3]; exact h4
      by_cases hlt : cmp q.1 b'.1 < 0
      · rw [if_pos hlt]
        refine ⟨heap, k, rfl, hk1, hkn, rfl, hsh, ?_, List.Perm.refl _⟩
        intro i hi2 hin
        by_cases hik : i / 2 = k
        · intro p' q' hp1 hq1
          rw [hik, hCk] at hp1; cases hp1
          exact hc.trans _ _ _ (by omega) (hmin' i q' hik hi2 hin hq1)
        · exact hed i hi2 hin hik
      · rw [if_neg hlt, if_pos hks]
        have hbq : cmp b'.1 q.1 ≤ 0 := hc.sign _ _ (by omega)
        have hj's : j' < heap.size := by omega
        have hC1 : ∀ t, cellAt (virt (heap.setIfInBounds k (some b')) j' q n) t =
            if t = j' then cellAt (virt heap k q n) k
            else if t = k then cellAt (virt heap k q n) j'
            else cellAt (virt heap k q n) t := by
          intro t
          rw [cellAt_virt _ _ _ _ _ (by simpa using hj's) (by simpa using hsz), cellAt_set _ _ _ _ hks, hCk, hCj', hC]
          by_cases h0 : n + 1 = t
          · rw [if_pos h0, if_neg (by omega), if_neg (by omega), if_pos h0]
          · rw [if_neg h0, if_neg h0]
            by_cases h1 : t = j'
            · rw [if_pos h1.symm, if_pos h1]
            · rw [if_neg (fun h => h1 h.symm), if_neg h1]
              by_cases h2 : t = k
              · rw [if_pos h2.symm, if_pos h2]
              · rw [if_neg (fun h => h2 h.symm), if_neg h2, if_neg (fun h => h2 h.symm)]
        have hperm := cells_swap (virt heap k q n) (virt (heap.setIfInBounds k (some b')) j' q n) k j'
          (by simp [virt]; omega) (by simp [virt]; omega) (by simp [virt]) hC1
        have hsh1 : Shape (virt (heap.setIfInBounds k (some b')) j' q n) n := by
          refine ⟨by simp [virt]; omega, ?_, ?_⟩
          · intro i hi1 hin
            rw [hC1]
            by_cases h1 : i = j'
            · rw [if_pos h1]; exact ⟨_, hCk⟩
            · by_cases h2 : i = k
              · rw [if_neg h1, if_pos h2]; exact ⟨_, hCj'⟩
              · rw [if_neg h1, if_neg h2]; exact hsh.some_ i hi1 hin
          · intro i hi
            rw [hC1, if_neg (by omega), if_neg (by omega)]
            exact hsh.none_ i hi
        obtain ⟨heap', k', hrun, h1, h2, h3, h4, h5, h6⟩ := ih (heap.setIfInBounds k (some b')) j'
          (by omega) (by omega) (by omega) (Or.inl hj'n) (by simpa using hsz) hsh1
          (by
            intro i hi2 hin hik p' q' hp1 hq1
            rw [hC1] at hp1 hq1
            rw [if_neg hik] at hp1
            by_cases hi : i = j'
            · -- edge (k, j'): the child that moved up is above the sinking entry
              rw [if_pos hi, hCk] at hq1; cases hq1
              rw [if_pos (by omega), hCj'] at hp1; cases hp1
              exact hbq
            · rw [if_neg hi] at hq1
              by_cases hi' : i = k
              · -- edge (k/2, k)
                rw [if_pos hi', hCj'] at hq1; cases hq1
                rw [if_neg (by omega)] at hp1
                subst hi'
                exact hgr j' (by omega) hj'k hj'n _ _ hp1 hCj'
              · rw [if_neg hi'] at hq1
                by_cases hpk : i / 2 = k
                · -- the other child of k
                  rw [if_pos hpk, hCj'] at hp1; cases hp1
                  exact hmin' i q' hpk hi2 hin hq1
                · rw [if_neg hpk] at hp1
                  exact hed i hi2 hin hpk _ _ hp1 hq1)
          (by
            intro c _ hc2 hcn p' q' hp1 hq1
            rw [hC1] at hp1 hq1
            rw [if_neg (by omega), if_pos hj'k, hCj'] at hp1; cases hp1
            rw [if_neg (by omega), if_neg (by omega)] at hq1
            exact hed c (by omega) hcn (by omega) _ _ (hc2 ▸ hCj') hq1)
        exact ⟨heap', k', hrun, h1, h2, by simpa using h3, h4, h5, h6.trans hperm⟩
    · rw [if_neg hj]
      refine ⟨heap, k, rfl, hk1, hkn, rfl, hsh, ?_, List.Perm.refl _⟩
      intro i hi2 hin
      exact hed i hi2 hin (by omega)


/-! ### cells of modified arrays -/

theorem mem_cells (a : Array (Cell K V)) (p : K × V) : p ∈ cells a ↔ ∃ i, cellAt a i = some p := by
  unfold cells cellAt
  rw [List.mem_filterMap]
  constructor
  · rintro ⟨c, hc, hid⟩
    obtain ⟨i, hi⟩ := List.mem_iff_getElem?.mp hc
    refine ⟨i, ?_⟩
    rw [← Array.getElem?_toList, hi]; simpa using hid
  · rintro ⟨i, hi⟩
    cases hx : a[i]? with
    | none => simp [hx] at hi
    | some c =>
      simp [hx] at hi
      refine ⟨c, ?_, by simpa using hi⟩
      apply List.mem_iff_getElem?.mpr
      exact ⟨i, by rw [Array.getElem?_toList]; exact hx⟩

/-- overwriting cell `i`: old content on the left, new content on the right -/
theorem cells_set (a : Array (Cell K V)) (i : Nat) (x : Cell K V) (hi : i < a.size) :
    ((cellAt a i).toList ++ cells (a.setIfInBounds i x)).Perm (x.toList ++ cells a) := by
  have hL : i < a.toList.length := by simpa using hi
  have h1 : cells (a.setIfInBounds i x) =
      List.filterMap id (a.toList.take i) ++ (x.toList ++ List.filterMap id (a.toList.drop (i + 1))) := by
    unfold cells
    rw [Array.toList_setIfInBounds, List.set_eq_take_append_cons_drop, if_pos hL, List.filterMap_append,
      List.filterMap_cons]
    cases x <;> simp
  have h2 : cells a =
      List.filterMap id (a.toList.take i) ++ ((cellAt a i).toList ++ List.filterMap id (a.toList.drop (i + 1))) := by
    unfold cells
    conv => lhs; rw [← List.take_append_drop i a.toList, List.drop_eq_getElem_cons hL]
    rw [List.filterMap_append, List.filterMap_cons]
    have : cellAt a i = a.toList[i] := by
      unfold cellAt; rw [Array.getElem?_eq_getElem hi]; simp
    rw [this]
    cases a.toList[i] <;> simp
  rw [h1, h2]
  generalize List.filterMap id (a.toList.take i) = X
  generalize List.filterMap id (a.toList.drop (i + 1)) = Y
  generalize (cellAt a i).toList = O
  generalize x.toList = N
  -- O ++ (X ++ (N ++ Y)) ~ N ++ (X ++ (O ++ Y))
  have e1 : (O ++ (X ++ (N ++ Y))).Perm ((O ++ N) ++ (X ++ Y)) := by
    rw [List.append_assoc]
    exact List.Perm.append_left O (by
      rw [← List.append_assoc, ← List.append_assoc]
      exact List.Perm.append_right Y List.perm_append_comm)
  have e2 : (N ++ (X ++ (O ++ Y))).Perm ((N ++ O) ++ (X ++ Y)) := by
    rw [List.append_assoc]
    exact List.Perm.append_left N (by
      rw [← List.append_assoc, ← List.append_assoc]
      exact List.Perm.append_right Y List.perm_append_comm)
  exact e1.trans ((List.Perm.append_right _ List.perm_append_comm).trans e2.symm)

theorem cellAt_resize (a : Array (Cell K V)) (m t : Nat) :
    cellAt (resize a m) t = if t < m then cellAt a t else none := by
  unfold resize cellAt
  rw [List.getElem?_toArray, List.getElem?_append, List.getElem?_take, List.getElem?_replicate,
    Array.getElem?_toList, List.length_take, Array.length_toList]
  by_cases h : t < m
  · rw [if_pos h]
    by_cases h2 : t < a.size
    · rw [if_pos (by omega), if_pos h]
    · rw [if_neg (by omega), if_pos (by omega), Array.getElem?_eq_none (by omega)]; rfl
  · rw [if_neg h]
    rw [if_neg (by omega), if_neg (by omega)]; rfl

theorem size_resize (a : Array (Cell K V)) (m : Nat) : (resize a m).size = m := by
  unfold resize; simp; omega

/-- `resize` keeps the cells when everything it cuts off is nil -/
theorem cells_resize (a : Array (Cell K V)) (m : Nat) (h : ∀ t, m ≤ t → cellAt a t = none) :
    cells (resize a m) = cells a := by
  unfold resize cells
  simp only [List.filterMap_append]
  have h1 : List.filterMap id (List.replicate (m - a.size) (none : Cell K V)) = [] := by
    rw [List.filterMap_eq_nil_iff]; intro x hx; rw [List.eq_of_mem_replicate hx]; rfl
  have h2 : List.filterMap id (a.toList.drop m) = [] := by
    rw [List.filterMap_eq_nil_iff]
    intro x hx
    obtain ⟨i, hi⟩ := List.mem_iff_getElem?.mp hx
    rw [List.getElem?_drop, Array.getElem?_toList] at hi
    have := h (m + i) (by omega)
    unfold cellAt at this; rw [hi] at this; simpa using this
  rw [h1, List.append_nil]
  conv => rhs; rw [← List.take_append_drop m a.toList, List.filterMap_append, h2, List.append_nil]

end AlgoVerif.C04
