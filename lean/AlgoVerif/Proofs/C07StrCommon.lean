import AlgoVerif.Proofs.C07RIns
/-!
# C07 — shared lemmas of the string radix sorts (`Quick3WayString`, `MSDString`):
segment-local steps (`SegStep`), `charAt` as a pure function (`chr`), the order facts that tie one
character position to `bytesCmp`, `maxLen`, and the final "sorted permutation = `mergeSort bytesLe`".
-/
namespace AlgoVerif.C07
open AlgoVerif

variable {α : Type}

/-! ## a step that only rearranges `a[lo..hi1)` -/

structure SegStep (a a' : Array α) (lo hi1 : Nat) : Prop where
  size : a'.size = a.size
  perm : a'.Perm a
  frame : ∀ p, (p < lo ∨ hi1 ≤ p) → (h : p < a.size) → (h' : p < a'.size) → a'[p] = a[p]
  pres : ∀ P : α → Prop, AllSeg P a lo hi1 → AllSeg P a' lo hi1

theorem SegStep.refl (a : Array α) (lo hi1 : Nat) : SegStep a a lo hi1 :=
  ⟨rfl, Array.Perm.refl _, fun _ _ _ _ => rfl, fun _ h => h⟩

theorem SegStep.widen {a a' : Array α} {l h lo hi1 : Nat} (s : SegStep a a' l h) (h1 : lo ≤ l)
    (h2 : h ≤ hi1) : SegStep a a' lo hi1 := by
  refine ⟨s.size, s.perm, fun p hp hpa hpa' => s.frame p (by omega) hpa hpa', ?_⟩
  intro P hP p hp1 hp2 hpa'
  have hsz := s.size
  by_cases hin : l ≤ p ∧ p < h
  · exact s.pres P (fun q hq1 hq2 hq => hP q (by omega) (by omega) hq) p hin.1 hin.2 hpa'
  · rw [s.frame p (by omega) (by omega) hpa']
    exact hP p hp1 hp2 (by omega)

theorem SegStep.trans {a a1 a2 : Array α} {lo hi1 : Nat} (s : SegStep a a1 lo hi1)
    (t : SegStep a1 a2 lo hi1) : SegStep a a2 lo hi1 := by
  have h1 := s.size
  have h2 := t.size
  refine ⟨by omega, t.perm.trans s.perm, ?_, fun P hP => t.pres P (s.pres P hP)⟩
  intro p hp hpa hpa'
  rw [t.frame p hp (by omega) hpa', s.frame p hp hpa (by omega)]

/-- a step on `[l, h)` does not disturb a predicate on a disjoint segment -/
theorem SegStep.allSeg_disjoint {a a' : Array α} {l h l' h' : Nat} (s : SegStep a a' l h)
    (hd : h' ≤ l ∨ h ≤ l') {P : α → Prop} (hP : AllSeg P a l' h') : AllSeg P a' l' h' := by
  intro p hp1 hp2 hpa'
  have hsz := s.size
  rw [s.frame p (by omega) (by omega) hpa']
  exact hP p hp1 hp2 (by omega)

theorem SegStep.sortedSeg_disjoint {cmp : α → α → Int} {a a' : Array α} {l h l' h' : Nat}
    (s : SegStep a a' l h) (hd : h' ≤ l ∨ h ≤ l') (hs : SortedSeg cmp a l' h') :
    SortedSeg cmp a' l' h' := by
  intro p q hp hpq hq hqa'
  have hsz := s.size
  rw [s.frame p (by omega) (by omega) (by omega), s.frame q (by omega) (by omega) hqa']
  exact hs p q hp hpq hq (by omega)

theorem AllSeg.sub {P : α → Prop} {a : Array α} {lo hi1 l h : Nat} (hP : AllSeg P a lo hi1)
    (h1 : lo ≤ l) (h2 : h ≤ hi1) : AllSeg P a l h :=
  fun p hp1 hp2 hpa => hP p (by omega) (by omega) hpa

theorem AllSeg.and {P Q : α → Prop} {a : Array α} {lo hi1 : Nat} (hP : AllSeg P a lo hi1)
    (hQ : AllSeg Q a lo hi1) : AllSeg (fun x => P x ∧ Q x) a lo hi1 :=
  fun p hp1 hp2 hpa => ⟨hP p hp1 hp2 hpa, hQ p hp1 hp2 hpa⟩

theorem frame_getElem? {a a' : Array α} {lo hi1 : Nat} (hs : a'.size = a.size)
    (hf : ∀ p, (p < lo ∨ hi1 ≤ p) → (h : p < a.size) → (h' : p < a'.size) → a'[p] = a[p]) :
    ∀ p, (p < lo ∨ hi1 ≤ p) → a'[p]? = a[p]? := by
  intro p hp
  by_cases hps : p < a.size
  · rw [Array.getElem?_eq_getElem hps, Array.getElem?_eq_getElem (by omega), hf p hp hps (by omega)]
  · rw [Array.getElem?_eq_none (by omega), Array.getElem?_eq_none (by omega)]

/-! ## `charAt` -/

/-- `charAt(s, d)` for `d ≥ 0` as a pure function -/
def chr (s : List UInt8) (d : Nat) : Int :=
  match s[d]? with
  | some b => (b.toNat : Int)
  | none => -1

theorem charAt_nat (s : List UInt8) (d : Nat) : charAt s (d : Int) = .ok (chr s d) := by
  unfold charAt chr
  by_cases h : d < s.length
  · have : (d : Int) < s.length := by omega
    simp [this, List.getElem?_eq_getElem h]
  · have : ¬ (d : Int) < s.length := by omega
    simp [this, List.getElem?_eq_none (by omega : s.length ≤ d)]

theorem chr_ge (s : List UInt8) (d : Nat) : -1 ≤ chr s d := by
  unfold chr; split <;> omega

theorem chr_lt (s : List UInt8) (d : Nat) : chr s d < 256 := by
  unfold chr; split
  · rename_i b _; have := b.toNat_lt; omega
  · omega

theorem chr_neg {s : List UInt8} {d : Nat} (h : chr s d < 0) : s.length ≤ d := by
  unfold chr at h
  split at h
  · omega
  · rename_i h'; exact List.getElem?_eq_none_iff.1 h'

theorem chr_nonneg {s : List UInt8} {d : Nat} (h : 0 ≤ chr s d) :
    ∃ b : UInt8, s[d]? = some b ∧ chr s d = (b.toNat : Int) := by
  unfold chr at h ⊢
  split at h
  · rename_i b hb; exact ⟨b, hb, by simp⟩
  · omega

theorem chr_append (w s : List UInt8) : chr (w ++ s) w.length = chr s 0 := by
  unfold chr
  rw [List.getElem?_append_right (Nat.le_refl _)]
  simp

theorem eq_append_of_take {s w : List UInt8} {d : Nat} (h : s.take d = w) : s = w ++ s.drop d := by
  rw [← h, List.take_append_drop]

/-! ## one character position decides the order of strings with a common prefix -/

theorem bytesCmp_append (w s t : List UInt8) : bytesCmp (w ++ s) (w ++ t) = bytesCmp s t := by
  induction w with
  | nil => rfl
  | cons x w ih =>
    simp only [List.cons_append, bytesCmp, UInt8.lt_irrefl, ↓reduceIte, ih]

theorem bytesCmp_self (s : List UInt8) : bytesCmp s s = 0 := by
  have := bytesCmp_flip s s; omega

theorem bytesCmp_lt_of_chr {s t w : List UInt8} {d : Nat} (hw : w.length = d) (hs : s.take d = w)
    (ht : t.take d = w) (h : chr s d < chr t d) : bytesCmp s t < 0 := by
  subst hw
  rw [eq_append_of_take hs, eq_append_of_take ht] at h ⊢
  rw [bytesCmp_append]
  rw [chr_append, chr_append] at h
  generalize s.drop w.length = s' at h ⊢
  generalize t.drop w.length = t' at h ⊢
  cases s' <;> cases t' <;> simp [chr, bytesCmp] at h ⊢
  · omega
  · rename_i x xs y ys
    have : x < y := UInt8.lt_iff_toNat_lt.2 (by omega)
    simp [this]

theorem take_succ_of_chr {s w : List UInt8} {d : Nat} {b : UInt8} (hs : s.take d = w)
    (h : chr s d = (b.toNat : Int)) : s.take (d+1) = w ++ [b] ∧ d < s.length := by
  obtain ⟨b', h1, h2⟩ := chr_nonneg (s := s) (d := d) (by omega)
  have hb : b' = b := by
    apply UInt8.toNat_inj.1; omega
  subst hb
  obtain ⟨hd, he⟩ := List.getElem?_eq_some_iff.1 h1
  refine ⟨?_, hd⟩
  rw [List.take_succ_eq_append_getElem hd, hs, he]

theorem eq_of_chr_neg {s w : List UInt8} {d : Nat} (hs : s.take d = w) (h : chr s d < 0) : s = w := by
  rw [← hs, List.take_of_length_le (chr_neg h)]

/-! ## `maxLen` -/

theorem foldl_max_ge (l : List (List UInt8)) : ∀ (m : Nat),
    m ≤ l.foldl (fun m s => max m s.length) m ∧ ∀ s, s ∈ l → s.length ≤ l.foldl (fun m s => max m s.length) m := by
  induction l with
  | nil => intro m; simp
  | cons x l ih =>
    intro m
    simp only [List.foldl_cons, List.mem_cons]
    obtain ⟨h1, h2⟩ := ih (max m x.length)
    refine ⟨by omega, ?_⟩
    rintro s (rfl | hs)
    · omega
    · exact h2 s hs

theorem maxLen_ge (a : Array (List UInt8)) (p : Nat) (h : p < a.size) : a[p].length ≤ maxLen a := by
  unfold maxLen
  rw [← Array.foldl_toList]
  exact (foldl_max_ge a.toList 0).2 _ (by simp)

/-! ## sorted permutation = the reference sort -/

theorem eq_mergeSort_of_sorted_perm {out a : Array (List UInt8)} (hs : SortedSeg bytesCmp out 0 out.size)
    (hp : out.Perm a) : out.toList = a.toList.mergeSort bytesLe := by
  have h1 : out.toList.Pairwise (fun x y => bytesLe x y = true) := by
    have := sorted_of_sortedSeg hs
    unfold Sorted at this
    exact this.imp (fun h => (bytesLe_iff _ _).2 h)
  have h2 : (a.toList.mergeSort bytesLe).Pairwise (fun x y => bytesLe x y = true) := by
    apply List.pairwise_mergeSort
    · intro x y z hxy hyz
      exact (bytesLe_iff _ _).2 (bytesCmp_trans _ _ _ ((bytesLe_iff _ _).1 hxy) ((bytesLe_iff _ _).1 hyz))
    · intro x y
      rcases bytesCmp_tp.total x y with h | h
      · simp [(bytesLe_iff _ _).2 h]
      · simp [(bytesLe_iff _ _).2 h]
  refine List.Perm.eq_of_pairwise ?_ h1 h2
    ((Array.perm_iff_toList_perm.1 hp).trans (List.mergeSort_perm _ _).symm)
  intro x y _ _ hxy hyx
  have e1 := (bytesLe_iff _ _).1 hxy
  have e2 := (bytesLe_iff _ _).1 hyx
  have := bytesCmp_flip x y
  have := bytesCmp_flip y x
  exact bytesCmp_eq x y (by omega)

end AlgoVerif.C07
