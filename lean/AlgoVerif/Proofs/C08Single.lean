import AlgoVerif.Proofs.C08Fresh
/-!
# `EliminateSingleProductions`: what the result's productions are, soundness, no unit production
-/
namespace AlgoVerif.C08
open AlgoVerif AlgoVerif.Gram AlgoVerif.C08.Spec

/-- closure invariant: every recorded pair is a derivation `A ⇒* B` -/
def ClosureSound (g : G) (cl : Closure) : Prop :=
  ∀ e ∈ cl, ∀ B ∈ e.2, Derives g [Sym.nonterm e.1] [Sym.nonterm B]

theorem mem_unitTargets {ps : List SProd} {A B : String} (h : B ∈ unitTargets ps A) :
    ({ head := A, body := [Sym.nonterm B] } : SProd) ∈ ps := by
  unfold unitTargets at h
  obtain ⟨p, hp, hpb⟩ := List.mem_filterMap.mp h
  split at hpb
  · rename_i hh
    split at hpb
    · rename_i b hb
      cases hpb
      have : p = { head := A, body := [Sym.nonterm B] } := by
        cases p; simp_all
      exact this ▸ hp
    · cases hpb
  · cases hpb

theorem closureInit_sound (g : G) : ClosureSound g (closureInit g) := by
  intro e he B hB
  unfold closureInit at he
  obtain ⟨A, _, rfl⟩ := List.mem_map.mp he
  rcases mem_insAll.mp hB with hB | hB
  · simp at hB; subst hB; exact Derives.refl _
  · exact Derives.of_prod (mem_unitTargets hB)

theorem lookup_mem {cl : Closure} {B : String} {C : String} (h : C ∈ (cl.lookup B).getD []) :
    ∃ e ∈ cl, e.1 = B ∧ C ∈ e.2 := by
  induction cl with
  | nil => simp [List.lookup] at h
  | cons e cl ih =>
    obtain ⟨k, v⟩ := e
    simp only [List.lookup] at h
    split at h
    · rename_i heq
      exact ⟨(k, v), List.mem_cons_self .., by simpa using (beq_iff_eq.mp heq).symm, by simpa using h⟩
    · obtain ⟨e', he', h1, h2⟩ := ih h
      exact ⟨e', List.mem_cons_of_mem _ he', h1, h2⟩

theorem closurePass_sound {g : G} {cl : Closure} (h : ClosureSound g cl) : ClosureSound g (closurePass cl) := by
  intro e he B hB
  unfold closurePass at he
  obtain ⟨e0, he0, rfl⟩ := List.mem_map.mp he
  obtain ⟨A, cA⟩ := e0
  simp only at hB ⊢
  -- every element of the fold is derivable from A
  have : ∀ (l : List String) (acc : List String),
      (∀ B ∈ l, B ∈ cA) → (∀ C ∈ acc, Derives g [Sym.nonterm A] [Sym.nonterm C]) →
      ∀ C ∈ l.foldl (fun acc B => insAll acc ((cl.lookup B).getD [])) acc, Derives g [Sym.nonterm A] [Sym.nonterm C] := by
    intro l
    induction l with
    | nil => intro acc _ hacc C hC; exact hacc C hC
    | cons B l ih =>
      intro acc hl hacc C hC
      refine ih _ (fun B' hB' => hl B' (List.mem_cons_of_mem _ hB')) ?_ C hC
      intro C' hC'
      rcases mem_insAll.mp hC' with hC' | hC'
      · exact hacc C' hC'
      · obtain ⟨e', he', h1, h2⟩ := lookup_mem hC'
        have hAB : Derives g [Sym.nonterm A] [Sym.nonterm B] := h (A, cA) he0 B (hl B (List.mem_cons_self ..))
        have hBC : Derives g [Sym.nonterm e'.1] [Sym.nonterm C'] := h e' he' C' h2
        rw [h1] at hBC
        exact hAB.trans hBC
  exact this cA cA (fun _ h => h) (fun C hC => h (A, cA) he0 C hC) B hB

theorem closureOf_sound {g : G} {cl : Closure} (h : closureOf g = .ok cl) : ClosureSound g cl := by
  unfold closureOf at h
  exact iterFix_inv closurePass (ClosureSound g) (fun _ => closurePass_sound) _ _ _ (closureInit_sound g) (ofOpt_ok h)

/-- the production list `EliminateSingleProductions` builds before pruning -/
def singleProds (g : G) (cl : Closure) : List SProd :=
  cl.foldl (fun acc e =>
      e.2.foldl (fun acc B =>
        (prodsOf g.prods B).foldl (fun acc p => if isSingle p then acc else ins acc { head := e.1, body := p.body }) acc) acc) []

theorem elimSingle_ok {g g' : G} (h : elimSingle g = .ok g') :
    ∃ cl, closureOf g = .ok cl ∧ g' = prune { g with prods := singleProds g cl } := by
  unfold elimSingle at h
  split at h
  · cases h
  · cases hc : closureOf g with
    | ok cl =>
      simp only [hc, Outcome.bind] at h
      split at h
      · cases h
      · cases h
        exact ⟨cl, rfl, rfl⟩
    | panic => simp [hc, Outcome.bind] at h
    | diverge => simp [hc, Outcome.bind] at h

theorem isSingle_body (p q : SProd) (h : p.body = q.body) : isSingle p = isSingle q := by
  unfold isSingle; rw [h]

/-- every production built is `A → β` with `A ⇒* B`, `B → β ∈ P` not a unit production -/
def SingleInv (g : G) (acc : List SProd) : Prop :=
  ∀ p' ∈ acc, isSingle p' = false ∧
    ∃ B, Derives g [Sym.nonterm p'.head] [Sym.nonterm B] ∧ ({ head := B, body := p'.body } : SProd) ∈ g.prods

theorem singleProds_spec {g : G} {cl : Closure} (hcl : ClosureSound g cl) : SingleInv g (singleProds g cl) := by
  unfold singleProds
  refine foldl_inv (SingleInv g) _ cl ?_ [] (by intro p hp; cases hp)
  intro acc e he hacc
  refine foldl_inv (SingleInv g) _ e.2 ?_ acc hacc
  intro acc B hB hacc
  refine foldl_inv (SingleInv g) _ (prodsOf g.prods B) ?_ acc hacc
  intro acc p hp hacc
  split
  · exact hacc
  · rename_i hs
    intro p' hp'
    rcases mem_ins.mp hp' with hp' | rfl
    · exact hacc p' hp'
    · have hpm := List.mem_filter.mp hp
      refine ⟨?_, B, hcl e he B hB, ?_⟩
      · rw [isSingle_body { head := e.1, body := p.body } p rfl]; simpa using hs
      · have : p.head = B := by simpa using hpm.2
        have hp2 : p = { head := B, body := p.body } := by cases p; simp_all
        exact hp2 ▸ hpm.1

theorem elimSingle_sound {g g' : G} (h : elimSingle g = .ok g') {w : List String} (hw : Language g' w) :
    Language g w := by
  obtain ⟨cl, hc, rfl⟩ := elimSingle_ok h
  have hspec := singleProds_spec (closureOf_sound hc)
  unfold Language at hw ⊢
  rw [prune_start] at hw
  refine Derives.of_derivable_prods ?_ hw
  intro p hp
  obtain ⟨_, B, hAB, hB⟩ := hspec p (prune_prods_subset _ p hp)
  exact hAB.trans (Derives.of_prod hB)

theorem elimSingle_noUnit {g g' : G} (h : elimSingle g = .ok g') : AlgoVerif.C09.Spec.NoUnit g' := by
  obtain ⟨cl, hc, rfl⟩ := elimSingle_ok h
  intro p hp
  exact (singleProds_spec (closureOf_sound hc) p (prune_prods_subset _ p hp)).1

end AlgoVerif.C08
