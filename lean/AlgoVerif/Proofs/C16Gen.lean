import AlgoVerif.Generated.C16Gen
import AlgoVerif.Proofs.GoRt
import AlgoVerif.Model.C16
/-!
# The GENERATED model of the single-set methods of `set/set.go` and `set/stable.go` and the hand-written Model

`Generated/C16Gen.lean` is rewritten from /repo's source by `/verif/extract/go2lean` on every check run
(`bin/pre-C16`): `find`, `String`, `Clone`, `CloneEmpty`, `Size`, `IsEmpty`, `Add`, `Remove`, `RemoveAll`, `Contains`,
`AnyMatch`, `AllMatch`, `FirstMatch` of the types `set` and `stable` (the methods that take or return other sets
through the `Set[T]` interface, the iterator `All` and the constructors are outside the translator's subset and are
skipped BY NAME: see `bin/pre-C16`).  The hand Model (`Model/C16.lean`) keeps the members as a `List`, the callback as a
function that may itself fail, and one `MSet` for the three implementations; `toM` / `toM_st` read the generated
structure (members an `Array`, the callback a pure function, as the translator assumes of every function value) as
the Model's.  Every statement is an EQUALITY of outcomes for every set object, every callback and every argument:
same result, same panic.  No fuel is involved: all loops are counted.
-/
set_option linter.unusedSectionVars false
set_option linter.unusedSimpArgs false
namespace AlgoVerif.C16.Gen
open AlgoVerif AlgoVerif.Outcome AlgoVerif.C16 AlgoVerif.Generated
variable {α : Type} [Inhabited α]

/-- a Go callback `func(T, T) bool` (a pure total function for the translator) as the hand Model's callback -/
def liftEq (eq : α → α → Bool) : EqualFunc α := fun a b => .ok (eq a b)

/-- the generated `set` structure read as the hand Model's object -/
def toM (s : Set.set α) : MSet α := ⟨.unordered (liftEq s.equal), s.members.toList⟩

/-- the results of the scanning loops -/
def foundIdx : Go.Ctl Unit Int → Int
  | .ret i => i
  | .next _ => -1

theorem idx_drop (a : Array α) (i : Nat) (h : i < a.size) :
    Go.idx a (i : Int) = .ok a[i] ∧ a.toList.drop i = a[i] :: a.toList.drop (i + 1) := by
  refine ⟨Go.idx_nat h, ?_⟩
  rw [← Array.getElem_toList (h := by simpa using h)]
  exact List.drop_eq_getElem_cons (by simpa using h)

/-- `for i, m := range s.members { if s.equal(m, v) { return i } }` -/
theorem find_loop (s : Set.set α) (v : α) : ∀ (k i : Nat), i + k = s.members.size →
    (Set.set.find.loop1 s v k (i : Int)).map foundIdx = linFind (liftEq s.equal) v (s.members.toList.drop i) (i : Int) := by
  intro k
  induction k with
  | zero =>
    intro i hi
    simp [Set.set.find.loop1, foundIdx, List.drop_eq_nil_of_le, ← hi, linFind]
  | succ k ih =>
    intro i hi
    obtain ⟨h1, h2⟩ := idx_drop s.members i (by omega)
    have := ih (i + 1) (by omega)
    rw [show ((i + 1 : Nat) : Int) = (i : Int) + 1 by omega] at this
    simp only [Set.set.find.loop1, h1, h2, linFind, liftEq, Outcome.ok_bind, Outcome.pure_eq, Outcome.bind_assoc]
    by_cases he : s.equal s.members[i] v = true
    · simp [he, foundIdx]
    · have he' : s.equal s.members[i] v = false := by simpa using he
      simpa [he'] using this

theorem find_eq (s : Set.set α) (v : α) : Set.set.find s v = (toM s).find v := by
  have := find_loop s v s.members.size 0 (by omega)
  simp only [Int.natCast_zero, List.drop_zero] at this
  simp only [Set.set.find, MSet.find, toM, ← this]
  cases Set.set.find.loop1 s v s.members.size 0 with
  | ok c => cases c <;> simp [foundIdx]
  | panic => simp
  | diverge => simp

def foundFalse : Go.Ctl Unit Bool → Bool
  | .ret b => b
  | .next _ => true

/-- `for _, v := range vals { if s.find(v) == -1 { return false } }` -/
theorem Contains_loop (s : Set.set α) (vals : Array α) : ∀ (k i : Nat), i + k = vals.size →
    (Set.set.Contains.loop1 s vals k (i : Int)).map foundFalse = (toM s).contains (vals.toList.drop i) := by
  intro k
  induction k with
  | zero =>
    intro i hi
    simp [Set.set.Contains.loop1, foundFalse, List.drop_eq_nil_of_le, ← hi, MSet.contains]
  | succ k ih =>
    intro i hi
    obtain ⟨h1, h2⟩ := idx_drop vals i (by omega)
    have := ih (i + 1) (by omega)
    rw [show ((i + 1 : Nat) : Int) = (i : Int) + 1 by omega] at this
    simp only [Set.set.Contains.loop1, h1, h2, MSet.contains, find_eq, Outcome.ok_bind, Outcome.pure_eq, Outcome.bind_assoc,
      Outcome.map_bind]
    cases (toM s).find vals[i] with
    | ok j =>
      simp only [Outcome.ok_bind]
      by_cases hj : j = -1
      · subst hj; simp [foundFalse]
      · have hj' : (j == -1) = false := by rw [beq_eq_false_iff_ne]; exact hj
        simpa [hj, hj'] using this
    | panic => simp
    | diverge => simp

theorem Contains_eq (s : Set.set α) (vals : Array α) : Set.set.Contains s vals = (toM s).contains vals.toList := by
  have := Contains_loop s vals vals.size 0 (by omega)
  simp only [Int.natCast_zero, List.drop_zero] at this
  simp only [Set.set.Contains, ← this]
  cases Set.set.Contains.loop1 s vals vals.size 0 with
  | ok c => cases c <;> simp [foundFalse]
  | panic => simp
  | diverge => simp

theorem toM_members (s : Set.set α) (m : Array α) : toM { s with members := m } = { toM s with members := m.toList } := rfl

/-- `for _, v := range vals { if !s.Contains(v) { s.members = append(s.members, v) } }` -/
theorem Add_loop (vals : Array α) : ∀ (k i : Nat) (s : Set.set α), i + k = vals.size →
    (Set.set.Add.loop1 vals k (i : Int) s).map toM = (toM s).add (vals.toList.drop i) := by
  intro k
  induction k with
  | zero =>
    intro i s hi
    simp [Set.set.Add.loop1, List.drop_eq_nil_of_le, ← hi, MSet.add]
  | succ k ih =>
    intro i s hi
    obtain ⟨h1, h2⟩ := idx_drop vals i (by omega)
    simp only [Set.set.Add.loop1, h1, h2, MSet.add, MSet.add1, toM, Contains_eq, Outcome.ok_bind, Outcome.pure_eq,
      Outcome.bind_assoc, Outcome.map_bind]
    cases hcon : MSet.contains ⟨.unordered (liftEq s.equal), s.members.toList⟩ [vals[i]] with
    | ok b =>
      simp only [Outcome.ok_bind]
      have := ih (i + 1)
      cases b with
      | true =>
        have := this s (by omega)
        rw [show ((i + 1 : Nat) : Int) = (i : Int) + 1 by omega] at this
        simpa [toM] using this
      | false =>
        have := this { s with members := s.members.push vals[i] } (by omega)
        rw [show ((i + 1 : Nat) : Int) = (i : Int) + 1 by omega] at this
        simpa [toM] using this
    | panic => simp
    | diverge => simp

theorem Add_eq (s : Set.set α) (vals : Array α) : (Set.set.Add s vals).map toM = (toM s).add vals.toList := by
  have := Add_loop vals vals.size 0 s (by omega)
  simp only [Int.natCast_zero, List.drop_zero] at this
  simp only [Set.set.Add, Outcome.bind_assoc, Outcome.pure_eq, ← this]
  first | done | (cases Set.set.Add.loop1 vals vals.size 0 s <;> rfl)

theorem toList_removeAt (m : Array α) (j : Nat) (_hj : j + 1 ≤ m.size) :
    (m.extract 0 j ++ m.extract (j + 1) m.size).toList = m.toList.take j ++ m.toList.drop (j + 1) := by
  simp only [Array.toList_append, Array.toList_extract, List.extract_eq_take_drop, Nat.sub_zero, List.drop_zero]
  rw [List.take_of_length_le (l := List.drop (j + 1) m.toList) (by simp)]

/-- `for _, v := range vals { if i := s.find(v); i != -1 { s.members = append(s.members[:i], s.members[i+1:]...) } }` -/
theorem Remove_loop (vals : Array α) : ∀ (k i : Nat) (s : Set.set α), i + k = vals.size →
    (Set.set.Remove.loop1 vals k (i : Int) s).map toM = (toM s).remove (vals.toList.drop i) := by
  intro k
  induction k with
  | zero =>
    intro i s hi
    simp [Set.set.Remove.loop1, List.drop_eq_nil_of_le, ← hi, MSet.remove]
  | succ k ih =>
    intro i s hi
    obtain ⟨h1, h2⟩ := idx_drop vals i (by omega)
    simp only [Set.set.Remove.loop1, h1, h2, MSet.remove, MSet.remove1, find_eq, Outcome.ok_bind, Outcome.pure_eq,
      Outcome.bind_assoc, Outcome.map_bind]
    cases (toM s).find vals[i] with
    | ok j =>
      simp only [Outcome.ok_bind]
      by_cases hj : j = -1
      · subst hj
        have := ih (i + 1) s (by omega)
        rw [show ((i + 1 : Nat) : Int) = (i : Int) + 1 by omega] at this
        simpa using this
      · have hj' : (j != -1) = true := by simp [bne, hj]
        simp only [hj, hj', ne_eq, not_false_eq_true, if_true, Go.slice]
        by_cases hr : 0 ≤ j ∧ j + 1 ≤ (s.members.size : Int)
        · obtain ⟨n, rfl⟩ : ∃ n : Nat, j = (n : Int) := ⟨j.toNat, by omega⟩
          have c1 : (0 : Int) ≤ 0 ∧ (0 : Int) ≤ (n : Int) ∧ (n : Int) ≤ (s.members.size : Int) := by omega
          have c2 : (0 : Int) ≤ (n : Int) + 1 ∧ (n : Int) + 1 ≤ (s.members.size : Int) ∧
              (s.members.size : Int) ≤ (s.members.size : Int) := by omega
          have c3 : (0 : Int) ≤ (n : Int) ∧ (n : Int) + 1 ≤ ((toM s).members.length : Int) := by
            simpa [toM] using hr
          simp only [c1, c2, c3, and_self, if_true, Outcome.ok_bind, Int.toNat_natCast, Int.toNat_zero]
          have := ih (i + 1) { s with members := s.members.extract 0 n ++ s.members.extract (n + 1) s.members.size } (by omega)
          rw [show ((i + 1 : Nat) : Int) = (i : Int) + 1 by omega] at this
          rw [show ((n : Int) + 1).toNat = n + 1 by omega]
          rw [this]
          congr 1
          simp only [toM]
          rw [toList_removeAt _ _ (by omega)]
        · have c3 : ¬ ((0 : Int) ≤ j ∧ j + 1 ≤ ((toM s).members.length : Int)) := by simpa [toM] using hr
          simp only [c3, if_false, Outcome.panic_bind, Outcome.map_panic]
          by_cases h0 : 0 ≤ j ∧ j ≤ (s.members.size : Int)
          · have c1 : (0 : Int) ≤ 0 ∧ (0 : Int) ≤ j ∧ j ≤ (s.members.size : Int) := ⟨Int.le_refl 0, h0.1, h0.2⟩
            have c2 : ¬ ((0 : Int) ≤ j + 1 ∧ j + 1 ≤ (s.members.size : Int)) := by omega
            simp [c1, c2]
          · simp [h0]
    | panic => simp
    | diverge => simp

theorem Remove_eq (s : Set.set α) (vals : Array α) : (Set.set.Remove s vals).map toM = (toM s).remove vals.toList := by
  have := Remove_loop vals vals.size 0 s (by omega)
  simp only [Int.natCast_zero, List.drop_zero] at this
  simp only [Set.set.Remove, Outcome.bind_assoc, Outcome.pure_eq, ← this]
  first | done | (cases Set.set.Remove.loop1 vals vals.size 0 s <;> rfl)

theorem RemoveAll_eq (s : Set.set α) : (Set.set.RemoveAll s).map toM = .ok (toM s).removeAll := by
  have : Go.make (default : α) 0 = .ok #[] := by simp [Go.make]
  simp [Set.set.RemoveAll, this, toM, MSet.removeAll]

theorem CloneEmpty_eq (s : Set.set α) : (Set.set.CloneEmpty s).map toM = .ok (toM s).cloneEmpty := by
  have : Go.make (default : α) 0 = .ok #[] := by simp [Go.make]
  simp [Set.set.CloneEmpty, this, toM, MSet.cloneEmpty]

theorem copy_all (src : Array α) (z : α) : Go.copy (Array.replicate src.size z) src = src := by
  apply Array.ext (by simp [Go.copy])
  intro i h1 h2
  simp [Go.copy, h2]

theorem Clone_eq (s : Set.set α) : (Set.set.Clone s).map toM = .ok (toM s).clone := by
  simp [Set.set.Clone, Go.make_nat, copy_all, toM, MSet.clone]

theorem Size_eq (s : Set.set α) : Set.set.Size s = (toM s).size := by simp [Set.set.Size, toM, MSet.size]
theorem IsEmpty_eq (s : Set.set α) : Set.set.IsEmpty s = (toM s).isEmpty := by
  simp only [Set.set.IsEmpty, toM, MSet.isEmpty, Array.length_toList]
  by_cases h : s.members.size = 0
  · simp [h]
  · have h1 : ((s.members.size : Int) == 0) = false := by rw [beq_eq_false_iff_ne]; omega
    have h2 : (s.members.size == 0) = false := by rw [beq_eq_false_iff_ne]; exact h
    rw [h1, h2]

def foundTrue : Go.Ctl Unit Bool → Bool
  | .ret b => b
  | .next _ => false

theorem AnyMatch_loop (s : Set.set α) (p : α → Bool) : ∀ (k i : Nat), i + k = s.members.size →
    (Set.set.AnyMatch.loop1 s p k (i : Int)).map foundTrue = .ok ((s.members.toList.drop i).any p) := by
  intro k
  induction k with
  | zero => intro i hi; simp [Set.set.AnyMatch.loop1, foundTrue, List.drop_eq_nil_of_le, ← hi]
  | succ k ih =>
    intro i hi
    obtain ⟨h1, h2⟩ := idx_drop s.members i (by omega)
    have := ih (i + 1) (by omega)
    rw [show ((i + 1 : Nat) : Int) = (i : Int) + 1 by omega] at this
    simp only [Set.set.AnyMatch.loop1, h1, h2, List.any_cons, Outcome.ok_bind, Outcome.pure_eq]
    by_cases hp : p s.members[i] = true
    · simp [hp, foundTrue]
    · have hp' : p s.members[i] = false := by simpa using hp
      simpa [hp'] using this

theorem AnyMatch_eq (s : Set.set α) (p : α → Bool) : Set.set.AnyMatch s p = .ok ((toM s).anyMatch p) := by
  have := AnyMatch_loop s p s.members.size 0 (by omega)
  simp only [Int.natCast_zero, List.drop_zero] at this
  simp only [Set.set.AnyMatch, MSet.anyMatch, toM]
  revert this
  cases Set.set.AnyMatch.loop1 s p s.members.size 0 with
  | ok c => cases c <;> simp [foundTrue] <;> intro e <;> simp [← e]
  | panic => simp
  | diverge => simp

theorem AllMatch_loop (s : Set.set α) (p : α → Bool) : ∀ (k i : Nat), i + k = s.members.size →
    (Set.set.AllMatch.loop1 s p k (i : Int)).map foundFalse = .ok ((s.members.toList.drop i).all p) := by
  intro k
  induction k with
  | zero => intro i hi; simp [Set.set.AllMatch.loop1, foundFalse, List.drop_eq_nil_of_le, ← hi]
  | succ k ih =>
    intro i hi
    obtain ⟨h1, h2⟩ := idx_drop s.members i (by omega)
    have := ih (i + 1) (by omega)
    rw [show ((i + 1 : Nat) : Int) = (i : Int) + 1 by omega] at this
    simp only [Set.set.AllMatch.loop1, h1, h2, List.all_cons, Outcome.ok_bind, Outcome.pure_eq]
    by_cases hp : p s.members[i] = true
    · simpa [hp] using this
    · have hp' : p s.members[i] = false := by simpa using hp
      simp [hp', foundFalse]

theorem AllMatch_eq (s : Set.set α) (p : α → Bool) : Set.set.AllMatch s p = .ok ((toM s).allMatch p) := by
  have := AllMatch_loop s p s.members.size 0 (by omega)
  simp only [Int.natCast_zero, List.drop_zero] at this
  simp only [Set.set.AllMatch, MSet.allMatch, toM]
  revert this
  cases Set.set.AllMatch.loop1 s p s.members.size 0 with
  | ok c => cases c <;> simp [foundFalse] <;> intro e <;> simp [← e]
  | panic => simp
  | diverge => simp

/-- Go's `(T, bool)` as the hand Model's `Option` -/
def optOf (r : α × Bool) : Option α := if r.2 then some r.1 else none
def foundOpt : Go.Ctl Unit (α × Bool) → Option α
  | .ret r => optOf r
  | .next _ => none

theorem FirstMatch_loop (s : Set.set α) (p : α → Bool) : ∀ (k i : Nat), i + k = s.members.size →
    (Set.set.FirstMatch.loop1 s p k (i : Int)).map foundOpt = .ok ((s.members.toList.drop i).find? p) := by
  intro k
  induction k with
  | zero => intro i hi; simp [Set.set.FirstMatch.loop1, foundOpt, List.drop_eq_nil_of_le, ← hi]
  | succ k ih =>
    intro i hi
    obtain ⟨h1, h2⟩ := idx_drop s.members i (by omega)
    have := ih (i + 1) (by omega)
    rw [show ((i + 1 : Nat) : Int) = (i : Int) + 1 by omega] at this
    simp only [Set.set.FirstMatch.loop1, h1, h2, List.find?_cons, Outcome.ok_bind, Outcome.pure_eq]
    by_cases hp : p s.members[i] = true
    · simp [hp, foundOpt, optOf]
    · have hp' : p s.members[i] = false := by simpa using hp
      simpa [hp'] using this

theorem FirstMatch_eq (s : Set.set α) (p : α → Bool) :
    (Set.set.FirstMatch s p).map optOf = .ok ((toM s).firstMatch p) := by
  have := FirstMatch_loop s p s.members.size 0 (by omega)
  simp only [Int.natCast_zero, List.drop_zero] at this
  simp only [Set.set.FirstMatch, MSet.firstMatch, toM, Outcome.map_bind]
  revert this
  cases Set.set.FirstMatch.loop1 s p s.members.size 0 with
  | ok c => cases c <;> simp [foundOpt, optOf] <;> intro e <;> simp [← e, optOf]
  | panic => simp
  | diverge => simp


/-! ## the same for `stable` (stable.go repeats set.go's methods) -/

/-- the generated `stable` structure read as the hand Model's object -/
def toM_st (s : Set.stable α) : MSet α := ⟨.stable (liftEq s.equal), s.members.toList⟩

/-- `for i, m := range s.members { if s.equal(m, v) { return i } }` -/
theorem find_loop_st (s : Set.stable α) (v : α) : ∀ (k i : Nat), i + k = s.members.size →
    (Set.stable.find.loop1 s v k (i : Int)).map foundIdx = linFind (liftEq s.equal) v (s.members.toList.drop i) (i : Int) := by
  intro k
  induction k with
  | zero =>
    intro i hi
    simp [Set.stable.find.loop1, foundIdx, List.drop_eq_nil_of_le, ← hi, linFind]
  | succ k ih =>
    intro i hi
    obtain ⟨h1, h2⟩ := idx_drop s.members i (by omega)
    have := ih (i + 1) (by omega)
    rw [show ((i + 1 : Nat) : Int) = (i : Int) + 1 by omega] at this
    simp only [Set.stable.find.loop1, h1, h2, linFind, liftEq, Outcome.ok_bind, Outcome.pure_eq, Outcome.bind_assoc]
    by_cases he : s.equal s.members[i] v = true
    · simp [he, foundIdx]
    · have he' : s.equal s.members[i] v = false := by simpa using he
      simpa [he'] using this

theorem find_eq_st (s : Set.stable α) (v : α) : Set.stable.find s v = (toM_st s).find v := by
  have := find_loop_st s v s.members.size 0 (by omega)
  simp only [Int.natCast_zero, List.drop_zero] at this
  simp only [Set.stable.find, MSet.find, toM_st, ← this]
  cases Set.stable.find.loop1 s v s.members.size 0 with
  | ok c => cases c <;> simp [foundIdx]
  | panic => simp
  | diverge => simp

/-- `for _, v := range vals { if s.find(v) == -1 { return false } }` -/
theorem Contains_loop_st (s : Set.stable α) (vals : Array α) : ∀ (k i : Nat), i + k = vals.size →
    (Set.stable.Contains.loop1 s vals k (i : Int)).map foundFalse = (toM_st s).contains (vals.toList.drop i) := by
  intro k
  induction k with
  | zero =>
    intro i hi
    simp [Set.stable.Contains.loop1, foundFalse, List.drop_eq_nil_of_le, ← hi, MSet.contains]
  | succ k ih =>
    intro i hi
    obtain ⟨h1, h2⟩ := idx_drop vals i (by omega)
    have := ih (i + 1) (by omega)
    rw [show ((i + 1 : Nat) : Int) = (i : Int) + 1 by omega] at this
    simp only [Set.stable.Contains.loop1, h1, h2, MSet.contains, find_eq_st, Outcome.ok_bind, Outcome.pure_eq, Outcome.bind_assoc,
      Outcome.map_bind]
    cases (toM_st s).find vals[i] with
    | ok j =>
      simp only [Outcome.ok_bind]
      by_cases hj : j = -1
      · subst hj; simp [foundFalse]
      · have hj' : (j == -1) = false := by rw [beq_eq_false_iff_ne]; exact hj
        simpa [hj, hj'] using this
    | panic => simp
    | diverge => simp

theorem Contains_eq_st (s : Set.stable α) (vals : Array α) : Set.stable.Contains s vals = (toM_st s).contains vals.toList := by
  have := Contains_loop_st s vals vals.size 0 (by omega)
  simp only [Int.natCast_zero, List.drop_zero] at this
  simp only [Set.stable.Contains, ← this]
  cases Set.stable.Contains.loop1 s vals vals.size 0 with
  | ok c => cases c <;> simp [foundFalse]
  | panic => simp
  | diverge => simp

theorem toM_members_st (s : Set.stable α) (m : Array α) : toM_st { s with members := m } = { toM_st s with members := m.toList } := rfl

/-- `for _, v := range vals { if !s.Contains(v) { s.members = append(s.members, v) } }` -/
theorem Add_loop_st (vals : Array α) : ∀ (k i : Nat) (s : Set.stable α), i + k = vals.size →
    (Set.stable.Add.loop1 vals k (i : Int) s).map toM_st = (toM_st s).add (vals.toList.drop i) := by
  intro k
  induction k with
  | zero =>
    intro i s hi
    simp [Set.stable.Add.loop1, List.drop_eq_nil_of_le, ← hi, MSet.add]
  | succ k ih =>
    intro i s hi
    obtain ⟨h1, h2⟩ := idx_drop vals i (by omega)
    simp only [Set.stable.Add.loop1, h1, h2, MSet.add, MSet.add1, toM_st, Contains_eq_st, Outcome.ok_bind, Outcome.pure_eq,
      Outcome.bind_assoc, Outcome.map_bind]
    cases hcon : MSet.contains ⟨.stable (liftEq s.equal), s.members.toList⟩ [vals[i]] with
    | ok b =>
      simp only [Outcome.ok_bind]
      have := ih (i + 1)
      cases b with
      | true =>
        have := this s (by omega)
        rw [show ((i + 1 : Nat) : Int) = (i : Int) + 1 by omega] at this
        simpa [toM_st] using this
      | false =>
        have := this { s with members := s.members.push vals[i] } (by omega)
        rw [show ((i + 1 : Nat) : Int) = (i : Int) + 1 by omega] at this
        simpa [toM_st] using this
    | panic => simp
    | diverge => simp

theorem Add_eq_st (s : Set.stable α) (vals : Array α) : (Set.stable.Add s vals).map toM_st = (toM_st s).add vals.toList := by
  have := Add_loop_st vals vals.size 0 s (by omega)
  simp only [Int.natCast_zero, List.drop_zero] at this
  simp only [Set.stable.Add, Outcome.bind_assoc, Outcome.pure_eq, ← this]
  first | done | (cases Set.stable.Add.loop1 vals vals.size 0 s <;> rfl)

/-- `for _, v := range vals { if i := s.find(v); i != -1 { s.members = append(s.members[:i], s.members[i+1:]...) } }` -/
theorem Remove_loop_st (vals : Array α) : ∀ (k i : Nat) (s : Set.stable α), i + k = vals.size →
    (Set.stable.Remove.loop1 vals k (i : Int) s).map toM_st = (toM_st s).remove (vals.toList.drop i) := by
  intro k
  induction k with
  | zero =>
    intro i s hi
    simp [Set.stable.Remove.loop1, List.drop_eq_nil_of_le, ← hi, MSet.remove]
  | succ k ih =>
    intro i s hi
    obtain ⟨h1, h2⟩ := idx_drop vals i (by omega)
    simp only [Set.stable.Remove.loop1, h1, h2, MSet.remove, MSet.remove1, find_eq_st, Outcome.ok_bind, Outcome.pure_eq,
      Outcome.bind_assoc, Outcome.map_bind]
    cases (toM_st s).find vals[i] with
    | ok j =>
      simp only [Outcome.ok_bind]
      by_cases hj : j = -1
      · subst hj
        have := ih (i + 1) s (by omega)
        rw [show ((i + 1 : Nat) : Int) = (i : Int) + 1 by omega] at this
        simpa using this
      · have hj' : (j != -1) = true := by simp [bne, hj]
        simp only [hj, hj', ne_eq, not_false_eq_true, if_true, Go.slice]
        by_cases hr : 0 ≤ j ∧ j + 1 ≤ (s.members.size : Int)
        · obtain ⟨n, rfl⟩ : ∃ n : Nat, j = (n : Int) := ⟨j.toNat, by omega⟩
          have c1 : (0 : Int) ≤ 0 ∧ (0 : Int) ≤ (n : Int) ∧ (n : Int) ≤ (s.members.size : Int) := by omega
          have c2 : (0 : Int) ≤ (n : Int) + 1 ∧ (n : Int) + 1 ≤ (s.members.size : Int) ∧
              (s.members.size : Int) ≤ (s.members.size : Int) := by omega
          have c3 : (0 : Int) ≤ (n : Int) ∧ (n : Int) + 1 ≤ ((toM_st s).members.length : Int) := by
            simpa [toM_st] using hr
          simp only [c1, c2, c3, and_self, if_true, Outcome.ok_bind, Int.toNat_natCast, Int.toNat_zero]
          have := ih (i + 1) { s with members := s.members.extract 0 n ++ s.members.extract (n + 1) s.members.size } (by omega)
          rw [show ((i + 1 : Nat) : Int) = (i : Int) + 1 by omega] at this
          rw [show ((n : Int) + 1).toNat = n + 1 by omega]
          rw [this]
          congr 1
          simp only [toM_st]
          rw [toList_removeAt _ _ (by omega)]
        · have c3 : ¬ ((0 : Int) ≤ j ∧ j + 1 ≤ ((toM_st s).members.length : Int)) := by simpa [toM_st] using hr
          simp only [c3, if_false, Outcome.panic_bind, Outcome.map_panic]
          by_cases h0 : 0 ≤ j ∧ j ≤ (s.members.size : Int)
          · have c1 : (0 : Int) ≤ 0 ∧ (0 : Int) ≤ j ∧ j ≤ (s.members.size : Int) := ⟨Int.le_refl 0, h0.1, h0.2⟩
            have c2 : ¬ ((0 : Int) ≤ j + 1 ∧ j + 1 ≤ (s.members.size : Int)) := by omega
            simp [c1, c2]
          · simp [h0]
    | panic => simp
    | diverge => simp

theorem Remove_eq_st (s : Set.stable α) (vals : Array α) : (Set.stable.Remove s vals).map toM_st = (toM_st s).remove vals.toList := by
  have := Remove_loop_st vals vals.size 0 s (by omega)
  simp only [Int.natCast_zero, List.drop_zero] at this
  simp only [Set.stable.Remove, Outcome.bind_assoc, Outcome.pure_eq, ← this]
  first | done | (cases Set.stable.Remove.loop1 vals vals.size 0 s <;> rfl)

theorem RemoveAll_eq_st (s : Set.stable α) : (Set.stable.RemoveAll s).map toM_st = .ok (toM_st s).removeAll := by
  have : Go.make (default : α) 0 = .ok #[] := by simp [Go.make]
  simp [Set.stable.RemoveAll, this, toM_st, MSet.removeAll]

theorem CloneEmpty_eq_st (s : Set.stable α) : (Set.stable.CloneEmpty s).map toM_st = .ok (toM_st s).cloneEmpty := by
  have : Go.make (default : α) 0 = .ok #[] := by simp [Go.make]
  simp [Set.stable.CloneEmpty, this, toM_st, MSet.cloneEmpty]

theorem Clone_eq_st (s : Set.stable α) : (Set.stable.Clone s).map toM_st = .ok (toM_st s).clone := by
  simp [Set.stable.Clone, Go.make_nat, copy_all, toM_st, MSet.clone]

theorem Size_eq_st (s : Set.stable α) : Set.stable.Size s = (toM_st s).size := by simp [Set.stable.Size, toM_st, MSet.size]

theorem IsEmpty_eq_st (s : Set.stable α) : Set.stable.IsEmpty s = (toM_st s).isEmpty := by
  simp only [Set.stable.IsEmpty, toM_st, MSet.isEmpty, Array.length_toList]
  by_cases h : s.members.size = 0
  · simp [h]
  · have h1 : ((s.members.size : Int) == 0) = false := by rw [beq_eq_false_iff_ne]; omega
    have h2 : (s.members.size == 0) = false := by rw [beq_eq_false_iff_ne]; exact h
    rw [h1, h2]

theorem AnyMatch_loop_st (s : Set.stable α) (p : α → Bool) : ∀ (k i : Nat), i + k = s.members.size →
    (Set.stable.AnyMatch.loop1 s p k (i : Int)).map foundTrue = .ok ((s.members.toList.drop i).any p) := by
  intro k
  induction k with
  | zero => intro i hi; simp [Set.stable.AnyMatch.loop1, foundTrue, List.drop_eq_nil_of_le, ← hi]
  | succ k ih =>
    intro i hi
    obtain ⟨h1, h2⟩ := idx_drop s.members i (by omega)
    have := ih (i + 1) (by omega)
    rw [show ((i + 1 : Nat) : Int) = (i : Int) + 1 by omega] at this
    simp only [Set.stable.AnyMatch.loop1, h1, h2, List.any_cons, Outcome.ok_bind, Outcome.pure_eq]
    by_cases hp : p s.members[i] = true
    · simp [hp, foundTrue]
    · have hp' : p s.members[i] = false := by simpa using hp
      simpa [hp'] using this

theorem AnyMatch_eq_st (s : Set.stable α) (p : α → Bool) : Set.stable.AnyMatch s p = .ok ((toM_st s).anyMatch p) := by
  have := AnyMatch_loop_st s p s.members.size 0 (by omega)
  simp only [Int.natCast_zero, List.drop_zero] at this
  simp only [Set.stable.AnyMatch, MSet.anyMatch, toM_st]
  revert this
  cases Set.stable.AnyMatch.loop1 s p s.members.size 0 with
  | ok c => cases c <;> simp [foundTrue] <;> intro e <;> simp [← e]
  | panic => simp
  | diverge => simp

theorem AllMatch_loop_st (s : Set.stable α) (p : α → Bool) : ∀ (k i : Nat), i + k = s.members.size →
    (Set.stable.AllMatch.loop1 s p k (i : Int)).map foundFalse = .ok ((s.members.toList.drop i).all p) := by
  intro k
  induction k with
  | zero => intro i hi; simp [Set.stable.AllMatch.loop1, foundFalse, List.drop_eq_nil_of_le, ← hi]
  | succ k ih =>
    intro i hi
    obtain ⟨h1, h2⟩ := idx_drop s.members i (by omega)
    have := ih (i + 1) (by omega)
    rw [show ((i + 1 : Nat) : Int) = (i : Int) + 1 by omega] at this
    simp only [Set.stable.AllMatch.loop1, h1, h2, List.all_cons, Outcome.ok_bind, Outcome.pure_eq]
    by_cases hp : p s.members[i] = true
    · simpa [hp] using this
    · have hp' : p s.members[i] = false := by simpa using hp
      simp [hp', foundFalse]

theorem AllMatch_eq_st (s : Set.stable α) (p : α → Bool) : Set.stable.AllMatch s p = .ok ((toM_st s).allMatch p) := by
  have := AllMatch_loop_st s p s.members.size 0 (by omega)
  simp only [Int.natCast_zero, List.drop_zero] at this
  simp only [Set.stable.AllMatch, MSet.allMatch, toM_st]
  revert this
  cases Set.stable.AllMatch.loop1 s p s.members.size 0 with
  | ok c => cases c <;> simp [foundFalse] <;> intro e <;> simp [← e]
  | panic => simp
  | diverge => simp

theorem FirstMatch_loop_st (s : Set.stable α) (p : α → Bool) : ∀ (k i : Nat), i + k = s.members.size →
    (Set.stable.FirstMatch.loop1 s p k (i : Int)).map foundOpt = .ok ((s.members.toList.drop i).find? p) := by
  intro k
  induction k with
  | zero => intro i hi; simp [Set.stable.FirstMatch.loop1, foundOpt, List.drop_eq_nil_of_le, ← hi]
  | succ k ih =>
    intro i hi
    obtain ⟨h1, h2⟩ := idx_drop s.members i (by omega)
    have := ih (i + 1) (by omega)
    rw [show ((i + 1 : Nat) : Int) = (i : Int) + 1 by omega] at this
    simp only [Set.stable.FirstMatch.loop1, h1, h2, List.find?_cons, Outcome.ok_bind, Outcome.pure_eq]
    by_cases hp : p s.members[i] = true
    · simp [hp, foundOpt, optOf]
    · have hp' : p s.members[i] = false := by simpa using hp
      simpa [hp'] using this

theorem FirstMatch_eq_st (s : Set.stable α) (p : α → Bool) :
    (Set.stable.FirstMatch s p).map optOf = .ok ((toM_st s).firstMatch p) := by
  have := FirstMatch_loop_st s p s.members.size 0 (by omega)
  simp only [Int.natCast_zero, List.drop_zero] at this
  simp only [Set.stable.FirstMatch, MSet.firstMatch, toM_st, Outcome.map_bind]
  revert this
  cases Set.stable.FirstMatch.loop1 s p s.members.size 0 with
  | ok c => cases c <;> simp [foundOpt, optOf] <;> intro e <;> simp [← e, optOf]
  | panic => simp
  | diverge => simp

end AlgoVerif.C16.Gen
