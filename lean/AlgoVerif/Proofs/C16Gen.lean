import AlgoVerif.Generated.C16Gen
import AlgoVerif.Proofs.GoRt
import AlgoVerif.Model.C16
/-!
# The GENERATED model of `set/{set,stable,sorted}.go` and the hand-written Model

`Generated/C16Gen.lean` is rewritten from /repo's source by `/verif/extract/go2lean` on every check run
(`bin/pre-C16`, which lists what is translated and what is skipped by name).  Dynamic dispatch through `Set[T]` is
resolved by `extract/go2lean/devirt.go`: results that are always the receiver's type are typed so, the iterator `All`
of `stable` / `sorted` is inlined, and — the one ASSUMPTION, option `-self Set` — a parameter of type `Set[T]` holds
the receiver's own implementation.  The hand Model (`Model/C16.lean`) keeps the members as a `List`, the callback as a
function that may itself fail, and one `MSet` for the three implementations; `toM` / `toM_st` / `toM_so` read the
generated structures (members an `Array`, the callback a pure function, as the translator assumes of every function
value) as the Model's.

* `set`, `stable`: every statement is an EQUALITY of outcomes for every object, callback and argument (same result, same
  panic); all loops are counted, no fuel.
* `sorted`: binary search (`find`, `add`) is a fuel loop; the hand Model gives each search `len(members) + 1`, the
  generated methods pass the caller's fuel down.  Statements are `x ≼ y` (the hand Model ran out of its own fuel, or
  the outcomes are equal) for every fuel that covers the longest member list that can occur during the call
  (`Add`: `len + len(vals) + 1`; `Union`: `len + Σ len(operands) + 1`; the others `len + 1` of the searched set);
  the length bookkeeping is `add_len`, `remove_len`, `addEach_len`, `removeEach_len`.
-/
set_option linter.unusedSectionVars false
set_option linter.unusedSimpArgs false
namespace AlgoVerif.C16.Gen
open AlgoVerif AlgoVerif.Outcome AlgoVerif.C16 AlgoVerif.Generated

theorem bind_le' {β γ : Type} {x x' : Outcome β} {f f' : β → Outcome γ} (hx : x ≼ x')
    (hf : ∀ a, x = .ok a → f a ≼ f' a) : (x >>= f) ≼ (x' >>= f') := by
  rcases hx with rfl | rfl
  · exact .inl rfl
  · cases x <;> simp_all
variable {α : Type} [Inhabited α] {σ : Type}

/-- a Go callback `func(T, T) bool` (a pure total function for the translator) as the hand Model's callback -/
def liftEq (eq : α → α → Bool) : EqualFunc α := fun a b => .ok (eq a b)

/-- the generated `set` structure read as the hand Model's object -/
def toM (s : Set.set α) : MSet α := ⟨.unordered (liftEq s.equal), s.members.toList⟩

/-- the results of the scanning loops -/
def foundIdx : Go.Ctl Unit Int → Int
  | .ret i => i
  | .next _ => -1

theorem idx_drop (a : Array α) (i : Nat) (h : i < a.size) :
    Go.idx a (i : Int) = .ok a[i] ∧ a.toList.drop i = a[i] :: a.toList.drop (i + 1) := by
  refine ⟨Go.idx_nat h, ?_⟩
  rw [← Array.getElem_toList (h := by simpa using h)]
  exact List.drop_eq_getElem_cons (by simpa using h)

/-- `for i, m := range s.members { if s.equal(m, v) { return i } }` -/
theorem find_loop (s : Set.set α) (v : α) : ∀ (k i : Nat), i + k = s.members.size →
    (Set.set.find.loop1 s v k (i : Int)).map foundIdx = linFind (liftEq s.equal) v (s.members.toList.drop i) (i : Int) := by
  intro k
  induction k with
  | zero =>
    intro i hi
    simp [Set.set.find.loop1, foundIdx, List.drop_eq_nil_of_le, ← hi, linFind]
  | succ k ih =>
    intro i hi
    obtain ⟨h1, h2⟩ := idx_drop s.members i (by omega)
    have := ih (i + 1) (by omega)
    rw [show ((i + 1 : Nat) : Int) = (i : Int) + 1 by omega] at this
    simp only [Set.set.find.loop1, h1, h2, linFind, liftEq, Outcome.ok_bind, Outcome.pure_eq, Outcome.bind_assoc]
    by_cases he : s.equal s.members[i] v = true
    · simp [he, foundIdx]
    · have he' : s.equal s.members[i] v = false := by simpa using he
      simpa [he'] using this

theorem find_eq (s : Set.set α) (v : α) : Set.set.find s v = (toM s).find v := by
  have := find_loop s v s.members.size 0 (by omega)
  simp only [Int.natCast_zero, List.drop_zero] at this
  simp only [Set.set.find, MSet.find, toM, ← this]
  cases Set.set.find.loop1 s v s.members.size 0 with
  | ok c => cases c <;> simp [foundIdx]
  | panic => simp
  | diverge => simp

def foundFalse : Go.Ctl Unit Bool → Bool
  | .ret b => b
  | .next _ => true

/-- `for _, v := range vals { if s.find(v) == -1 { return false } }` -/
theorem Contains_loop (s : Set.set α) (vals : Array α) : ∀ (k i : Nat), i + k = vals.size →
    (Set.set.Contains.loop1 s vals k (i : Int)).map foundFalse = (toM s).contains (vals.toList.drop i) := by
  intro k
  induction k with
  | zero =>
    intro i hi
    simp [Set.set.Contains.loop1, foundFalse, List.drop_eq_nil_of_le, ← hi, MSet.contains]
  | succ k ih =>
    intro i hi
    obtain ⟨h1, h2⟩ := idx_drop vals i (by omega)
    have := ih (i + 1) (by omega)
    rw [show ((i + 1 : Nat) : Int) = (i : Int) + 1 by omega] at this
    simp only [Set.set.Contains.loop1, h1, h2, MSet.contains, find_eq, Outcome.ok_bind, Outcome.pure_eq, Outcome.bind_assoc,
      Outcome.map_bind]
    cases (toM s).find vals[i] with
    | ok j =>
      simp only [Outcome.ok_bind]
      by_cases hj : j = -1
      · subst hj; simp [foundFalse]
      · have hj' : (j == -1) = false := by rw [beq_eq_false_iff_ne]; exact hj
        simpa [hj, hj'] using this
    | panic => simp
    | diverge => simp

theorem Contains_eq (s : Set.set α) (vals : Array α) : Set.set.Contains s vals = (toM s).contains vals.toList := by
  have := Contains_loop s vals vals.size 0 (by omega)
  simp only [Int.natCast_zero, List.drop_zero] at this
  simp only [Set.set.Contains, ← this]
  cases Set.set.Contains.loop1 s vals vals.size 0 with
  | ok c => cases c <;> simp [foundFalse]
  | panic => simp
  | diverge => simp

theorem toM_members (s : Set.set α) (m : Array α) : toM { s with members := m } = { toM s with members := m.toList } := rfl

/-- `for _, v := range vals { if !s.Contains(v) { s.members = append(s.members, v) } }` -/
theorem Add_loop (vals : Array α) : ∀ (k i : Nat) (s : Set.set α), i + k = vals.size →
    (Set.set.Add.loop1 vals k (i : Int) s).map toM = (toM s).add (vals.toList.drop i) := by
  intro k
  induction k with
  | zero =>
    intro i s hi
    simp [Set.set.Add.loop1, List.drop_eq_nil_of_le, ← hi, MSet.add]
  | succ k ih =>
    intro i s hi
    obtain ⟨h1, h2⟩ := idx_drop vals i (by omega)
    simp only [Set.set.Add.loop1, h1, h2, MSet.add, MSet.add1, toM, Contains_eq, Outcome.ok_bind, Outcome.pure_eq,
      Outcome.bind_assoc, Outcome.map_bind]
    cases hcon : MSet.contains ⟨.unordered (liftEq s.equal), s.members.toList⟩ [vals[i]] with
    | ok b =>
      simp only [Outcome.ok_bind]
      have := ih (i + 1)
      cases b with
      | true =>
        have := this s (by omega)
        rw [show ((i + 1 : Nat) : Int) = (i : Int) + 1 by omega] at this
        simpa [toM] using this
      | false =>
        have := this { s with members := s.members.push vals[i] } (by omega)
        rw [show ((i + 1 : Nat) : Int) = (i : Int) + 1 by omega] at this
        simpa [toM] using this
    | panic => simp
    | diverge => simp

theorem Add_eq (s : Set.set α) (vals : Array α) : (Set.set.Add s vals).map toM = (toM s).add vals.toList := by
  have := Add_loop vals vals.size 0 s (by omega)
  simp only [Int.natCast_zero, List.drop_zero] at this
  simp only [Set.set.Add, Outcome.bind_assoc, Outcome.pure_eq, ← this]
  first | done | (cases Set.set.Add.loop1 vals vals.size 0 s <;> rfl)

theorem toList_removeAt (m : Array α) (j : Nat) (_hj : j + 1 ≤ m.size) :
    (m.extract 0 j ++ m.extract (j + 1) m.size).toList = m.toList.take j ++ m.toList.drop (j + 1) := by
  simp only [Array.toList_append, Array.toList_extract, List.extract_eq_take_drop, Nat.sub_zero, List.drop_zero]
  rw [List.take_of_length_le (l := List.drop (j + 1) m.toList) (by simp)]

/-- `for _, v := range vals { if i := s.find(v); i != -1 { s.members = append(s.members[:i], s.members[i+1:]...) } }` -/
theorem Remove_loop (vals : Array α) : ∀ (k i : Nat) (s : Set.set α), i + k = vals.size →
    (Set.set.Remove.loop1 vals k (i : Int) s).map toM = (toM s).remove (vals.toList.drop i) := by
  intro k
  induction k with
  | zero =>
    intro i s hi
    simp [Set.set.Remove.loop1, List.drop_eq_nil_of_le, ← hi, MSet.remove]
  | succ k ih =>
    intro i s hi
    obtain ⟨h1, h2⟩ := idx_drop vals i (by omega)
    simp only [Set.set.Remove.loop1, h1, h2, MSet.remove, MSet.remove1, find_eq, Outcome.ok_bind, Outcome.pure_eq,
      Outcome.bind_assoc, Outcome.map_bind]
    cases (toM s).find vals[i] with
    | ok j =>
      simp only [Outcome.ok_bind]
      by_cases hj : j = -1
      · subst hj
        have := ih (i + 1) s (by omega)
        rw [show ((i + 1 : Nat) : Int) = (i : Int) + 1 by omega] at this
        simpa using this
      · have hj' : (j != -1) = true := by simp [bne, hj]
        simp only [hj, hj', ne_eq, not_false_eq_true, if_true, Go.slice]
        by_cases hr : 0 ≤ j ∧ j + 1 ≤ (s.members.size : Int)
        · obtain ⟨n, rfl⟩ : ∃ n : Nat, j = (n : Int) := ⟨j.toNat, by omega⟩
          have c1 : (0 : Int) ≤ 0 ∧ (0 : Int) ≤ (n : Int) ∧ (n : Int) ≤ (s.members.size : Int) := by omega
          have c2 : (0 : Int) ≤ (n : Int) + 1 ∧ (n : Int) + 1 ≤ (s.members.size : Int) ∧
              (s.members.size : Int) ≤ (s.members.size : Int) := by omega
          have c3 : (0 : Int) ≤ (n : Int) ∧ (n : Int) + 1 ≤ ((toM s).members.length : Int) := by
            simpa [toM] using hr
          simp only [c1, c2, c3, and_self, if_true, Outcome.ok_bind, Int.toNat_natCast, Int.toNat_zero]
          have := ih (i + 1) { s with members := s.members.extract 0 n ++ s.members.extract (n + 1) s.members.size } (by omega)
          rw [show ((i + 1 : Nat) : Int) = (i : Int) + 1 by omega] at this
          rw [show ((n : Int) + 1).toNat = n + 1 by omega]
          rw [this]
          congr 1
          simp only [toM]
          rw [toList_removeAt _ _ (by omega)]
        · have c3 : ¬ ((0 : Int) ≤ j ∧ j + 1 ≤ ((toM s).members.length : Int)) := by simpa [toM] using hr
          simp only [c3, if_false, Outcome.panic_bind, Outcome.map_panic]
          by_cases h0 : 0 ≤ j ∧ j ≤ (s.members.size : Int)
          · have c1 : (0 : Int) ≤ 0 ∧ (0 : Int) ≤ j ∧ j ≤ (s.members.size : Int) := ⟨Int.le_refl 0, h0.1, h0.2⟩
            have c2 : ¬ ((0 : Int) ≤ j + 1 ∧ j + 1 ≤ (s.members.size : Int)) := by omega
            simp [c1, c2]
          · simp [h0]
    | panic => simp
    | diverge => simp

theorem Remove_eq (s : Set.set α) (vals : Array α) : (Set.set.Remove s vals).map toM = (toM s).remove vals.toList := by
  have := Remove_loop vals vals.size 0 s (by omega)
  simp only [Int.natCast_zero, List.drop_zero] at this
  simp only [Set.set.Remove, Outcome.bind_assoc, Outcome.pure_eq, ← this]
  first | done | (cases Set.set.Remove.loop1 vals vals.size 0 s <;> rfl)

theorem RemoveAll_eq (s : Set.set α) : (Set.set.RemoveAll s).map toM = .ok (toM s).removeAll := by
  have : Go.make (default : α) 0 = .ok #[] := by simp [Go.make]
  simp [Set.set.RemoveAll, this, toM, MSet.removeAll]

theorem CloneEmpty_eq (s : Set.set α) : (Set.set.CloneEmpty s).map toM = .ok (toM s).cloneEmpty := by
  have : Go.make (default : α) 0 = .ok #[] := by simp [Go.make]
  simp [Set.set.CloneEmpty, this, toM, MSet.cloneEmpty]

theorem copy_all (src : Array α) (z : α) : Go.copy (Array.replicate src.size z) src = src := by
  apply Array.ext (by simp [Go.copy])
  intro i h1 h2
  simp [Go.copy, h2]

theorem Clone_eq (s : Set.set α) : (Set.set.Clone s).map toM = .ok (toM s).clone := by
  simp [Set.set.Clone, Go.make_nat, copy_all, toM, MSet.clone]

theorem Size_eq (s : Set.set α) : Set.set.Size s = (toM s).size := by simp [Set.set.Size, toM, MSet.size]
theorem IsEmpty_eq (s : Set.set α) : Set.set.IsEmpty s = (toM s).isEmpty := by
  simp only [Set.set.IsEmpty, toM, MSet.isEmpty, Array.length_toList]
  by_cases h : s.members.size = 0
  · simp [h]
  · have h1 : ((s.members.size : Int) == 0) = false := by rw [beq_eq_false_iff_ne]; omega
    have h2 : (s.members.size == 0) = false := by rw [beq_eq_false_iff_ne]; exact h
    rw [h1, h2]

def foundTrue : Go.Ctl Unit Bool → Bool
  | .ret b => b
  | .next _ => false

theorem AnyMatch_loop (s : Set.set α) (p : α → Bool) : ∀ (k i : Nat), i + k = s.members.size →
    (Set.set.AnyMatch.loop1 s p k (i : Int)).map foundTrue = .ok ((s.members.toList.drop i).any p) := by
  intro k
  induction k with
  | zero => intro i hi; simp [Set.set.AnyMatch.loop1, foundTrue, List.drop_eq_nil_of_le, ← hi]
  | succ k ih =>
    intro i hi
    obtain ⟨h1, h2⟩ := idx_drop s.members i (by omega)
    have := ih (i + 1) (by omega)
    rw [show ((i + 1 : Nat) : Int) = (i : Int) + 1 by omega] at this
    simp only [Set.set.AnyMatch.loop1, h1, h2, List.any_cons, Outcome.ok_bind, Outcome.pure_eq]
    by_cases hp : p s.members[i] = true
    · simp [hp, foundTrue]
    · have hp' : p s.members[i] = false := by simpa using hp
      simpa [hp'] using this

theorem AnyMatch_eq (s : Set.set α) (p : α → Bool) : Set.set.AnyMatch s p = .ok ((toM s).anyMatch p) := by
  have := AnyMatch_loop s p s.members.size 0 (by omega)
  simp only [Int.natCast_zero, List.drop_zero] at this
  simp only [Set.set.AnyMatch, MSet.anyMatch, toM]
  revert this
  cases Set.set.AnyMatch.loop1 s p s.members.size 0 with
  | ok c => cases c <;> simp [foundTrue] <;> intro e <;> simp [← e]
  | panic => simp
  | diverge => simp

theorem AllMatch_loop (s : Set.set α) (p : α → Bool) : ∀ (k i : Nat), i + k = s.members.size →
    (Set.set.AllMatch.loop1 s p k (i : Int)).map foundFalse = .ok ((s.members.toList.drop i).all p) := by
  intro k
  induction k with
  | zero => intro i hi; simp [Set.set.AllMatch.loop1, foundFalse, List.drop_eq_nil_of_le, ← hi]
  | succ k ih =>
    intro i hi
    obtain ⟨h1, h2⟩ := idx_drop s.members i (by omega)
    have := ih (i + 1) (by omega)
    rw [show ((i + 1 : Nat) : Int) = (i : Int) + 1 by omega] at this
    simp only [Set.set.AllMatch.loop1, h1, h2, List.all_cons, Outcome.ok_bind, Outcome.pure_eq]
    by_cases hp : p s.members[i] = true
    · simpa [hp] using this
    · have hp' : p s.members[i] = false := by simpa using hp
      simp [hp', foundFalse]

theorem AllMatch_eq (s : Set.set α) (p : α → Bool) : Set.set.AllMatch s p = .ok ((toM s).allMatch p) := by
  have := AllMatch_loop s p s.members.size 0 (by omega)
  simp only [Int.natCast_zero, List.drop_zero] at this
  simp only [Set.set.AllMatch, MSet.allMatch, toM]
  revert this
  cases Set.set.AllMatch.loop1 s p s.members.size 0 with
  | ok c => cases c <;> simp [foundFalse] <;> intro e <;> simp [← e]
  | panic => simp
  | diverge => simp

/-- Go's `(T, bool)` as the hand Model's `Option` -/
def optOf (r : α × Bool) : Option α := if r.2 then some r.1 else none
def foundOpt : Go.Ctl Unit (α × Bool) → Option α
  | .ret r => optOf r
  | .next _ => none

theorem FirstMatch_loop (s : Set.set α) (p : α → Bool) : ∀ (k i : Nat), i + k = s.members.size →
    (Set.set.FirstMatch.loop1 s p k (i : Int)).map foundOpt = .ok ((s.members.toList.drop i).find? p) := by
  intro k
  induction k with
  | zero => intro i hi; simp [Set.set.FirstMatch.loop1, foundOpt, List.drop_eq_nil_of_le, ← hi]
  | succ k ih =>
    intro i hi
    obtain ⟨h1, h2⟩ := idx_drop s.members i (by omega)
    have := ih (i + 1) (by omega)
    rw [show ((i + 1 : Nat) : Int) = (i : Int) + 1 by omega] at this
    simp only [Set.set.FirstMatch.loop1, h1, h2, List.find?_cons, Outcome.ok_bind, Outcome.pure_eq]
    by_cases hp : p s.members[i] = true
    · simp [hp, foundOpt, optOf]
    · have hp' : p s.members[i] = false := by simpa using hp
      simpa [hp'] using this

theorem FirstMatch_eq (s : Set.set α) (p : α → Bool) :
    (Set.set.FirstMatch s p).map optOf = .ok ((toM s).firstMatch p) := by
  have := FirstMatch_loop s p s.members.size 0 (by omega)
  simp only [Int.natCast_zero, List.drop_zero] at this
  simp only [Set.set.FirstMatch, MSet.firstMatch, toM, Outcome.map_bind]
  revert this
  cases Set.set.FirstMatch.loop1 s p s.members.size 0 with
  | ok c => cases c <;> simp [foundOpt, optOf] <;> intro e <;> simp [← e, optOf]
  | panic => simp
  | diverge => simp


/-! ## the same for `stable` (stable.go repeats set.go's methods) -/

/-- the generated `stable` structure read as the hand Model's object -/
def toM_st (s : Set.stable α) : MSet α := ⟨.stable (liftEq s.equal), s.members.toList⟩

/-- `for i, m := range s.members { if s.equal(m, v) { return i } }` -/
theorem find_loop_st (s : Set.stable α) (v : α) : ∀ (k i : Nat), i + k = s.members.size →
    (Set.stable.find.loop1 s v k (i : Int)).map foundIdx = linFind (liftEq s.equal) v (s.members.toList.drop i) (i : Int) := by
  intro k
  induction k with
  | zero =>
    intro i hi
    simp [Set.stable.find.loop1, foundIdx, List.drop_eq_nil_of_le, ← hi, linFind]
  | succ k ih =>
    intro i hi
    obtain ⟨h1, h2⟩ := idx_drop s.members i (by omega)
    have := ih (i + 1) (by omega)
    rw [show ((i + 1 : Nat) : Int) = (i : Int) + 1 by omega] at this
    simp only [Set.stable.find.loop1, h1, h2, linFind, liftEq, Outcome.ok_bind, Outcome.pure_eq, Outcome.bind_assoc]
    by_cases he : s.equal s.members[i] v = true
    · simp [he, foundIdx]
    · have he' : s.equal s.members[i] v = false := by simpa using he
      simpa [he'] using this

theorem find_eq_st (s : Set.stable α) (v : α) : Set.stable.find s v = (toM_st s).find v := by
  have := find_loop_st s v s.members.size 0 (by omega)
  simp only [Int.natCast_zero, List.drop_zero] at this
  simp only [Set.stable.find, MSet.find, toM_st, ← this]
  cases Set.stable.find.loop1 s v s.members.size 0 with
  | ok c => cases c <;> simp [foundIdx]
  | panic => simp
  | diverge => simp

/-- `for _, v := range vals { if s.find(v) == -1 { return false } }` -/
theorem Contains_loop_st (s : Set.stable α) (vals : Array α) : ∀ (k i : Nat), i + k = vals.size →
    (Set.stable.Contains.loop1 s vals k (i : Int)).map foundFalse = (toM_st s).contains (vals.toList.drop i) := by
  intro k
  induction k with
  | zero =>
    intro i hi
    simp [Set.stable.Contains.loop1, foundFalse, List.drop_eq_nil_of_le, ← hi, MSet.contains]
  | succ k ih =>
    intro i hi
    obtain ⟨h1, h2⟩ := idx_drop vals i (by omega)
    have := ih (i + 1) (by omega)
    rw [show ((i + 1 : Nat) : Int) = (i : Int) + 1 by omega] at this
    simp only [Set.stable.Contains.loop1, h1, h2, MSet.contains, find_eq_st, Outcome.ok_bind, Outcome.pure_eq, Outcome.bind_assoc,
      Outcome.map_bind]
    cases (toM_st s).find vals[i] with
    | ok j =>
      simp only [Outcome.ok_bind]
      by_cases hj : j = -1
      · subst hj; simp [foundFalse]
      · have hj' : (j == -1) = false := by rw [beq_eq_false_iff_ne]; exact hj
        simpa [hj, hj'] using this
    | panic => simp
    | diverge => simp

theorem Contains_eq_st (s : Set.stable α) (vals : Array α) : Set.stable.Contains s vals = (toM_st s).contains vals.toList := by
  have := Contains_loop_st s vals vals.size 0 (by omega)
  simp only [Int.natCast_zero, List.drop_zero] at this
  simp only [Set.stable.Contains, ← this]
  cases Set.stable.Contains.loop1 s vals vals.size 0 with
  | ok c => cases c <;> simp [foundFalse]
  | panic => simp
  | diverge => simp

theorem toM_members_st (s : Set.stable α) (m : Array α) : toM_st { s with members := m } = { toM_st s with members := m.toList } := rfl

/-- `for _, v := range vals { if !s.Contains(v) { s.members = append(s.members, v) } }` -/
theorem Add_loop_st (vals : Array α) : ∀ (k i : Nat) (s : Set.stable α), i + k = vals.size →
    (Set.stable.Add.loop1 vals k (i : Int) s).map toM_st = (toM_st s).add (vals.toList.drop i) := by
  intro k
  induction k with
  | zero =>
    intro i s hi
    simp [Set.stable.Add.loop1, List.drop_eq_nil_of_le, ← hi, MSet.add]
  | succ k ih =>
    intro i s hi
    obtain ⟨h1, h2⟩ := idx_drop vals i (by omega)
    simp only [Set.stable.Add.loop1, h1, h2, MSet.add, MSet.add1, toM_st, Contains_eq_st, Outcome.ok_bind, Outcome.pure_eq,
      Outcome.bind_assoc, Outcome.map_bind]
    cases hcon : MSet.contains ⟨.stable (liftEq s.equal), s.members.toList⟩ [vals[i]] with
    | ok b =>
      simp only [Outcome.ok_bind]
      have := ih (i + 1)
      cases b with
      | true =>
        have := this s (by omega)
        rw [show ((i + 1 : Nat) : Int) = (i : Int) + 1 by omega] at this
        simpa [toM_st] using this
      | false =>
        have := this { s with members := s.members.push vals[i] } (by omega)
        rw [show ((i + 1 : Nat) : Int) = (i : Int) + 1 by omega] at this
        simpa [toM_st] using this
    | panic => simp
    | diverge => simp

theorem Add_eq_st (s : Set.stable α) (vals : Array α) : (Set.stable.Add s vals).map toM_st = (toM_st s).add vals.toList := by
  have := Add_loop_st vals vals.size 0 s (by omega)
  simp only [Int.natCast_zero, List.drop_zero] at this
  simp only [Set.stable.Add, Outcome.bind_assoc, Outcome.pure_eq, ← this]
  first | done | (cases Set.stable.Add.loop1 vals vals.size 0 s <;> rfl)

/-- `for _, v := range vals { if i := s.find(v); i != -1 { s.members = append(s.members[:i], s.members[i+1:]...) } }` -/
theorem Remove_loop_st (vals : Array α) : ∀ (k i : Nat) (s : Set.stable α), i + k = vals.size →
    (Set.stable.Remove.loop1 vals k (i : Int) s).map toM_st = (toM_st s).remove (vals.toList.drop i) := by
  intro k
  induction k with
  | zero =>
    intro i s hi
    simp [Set.stable.Remove.loop1, List.drop_eq_nil_of_le, ← hi, MSet.remove]
  | succ k ih =>
    intro i s hi
    obtain ⟨h1, h2⟩ := idx_drop vals i (by omega)
    simp only [Set.stable.Remove.loop1, h1, h2, MSet.remove, MSet.remove1, find_eq_st, Outcome.ok_bind, Outcome.pure_eq,
      Outcome.bind_assoc, Outcome.map_bind]
    cases (toM_st s).find vals[i] with
    | ok j =>
      simp only [Outcome.ok_bind]
      by_cases hj : j = -1
      · subst hj
        have := ih (i + 1) s (by omega)
        rw [show ((i + 1 : Nat) : Int) = (i : Int) + 1 by omega] at this
        simpa using this
      · have hj' : (j != -1) = true := by simp [bne, hj]
        simp only [hj, hj', ne_eq, not_false_eq_true, if_true, Go.slice]
        by_cases hr : 0 ≤ j ∧ j + 1 ≤ (s.members.size : Int)
        · obtain ⟨n, rfl⟩ : ∃ n : Nat, j = (n : Int) := ⟨j.toNat, by omega⟩
          have c1 : (0 : Int) ≤ 0 ∧ (0 : Int) ≤ (n : Int) ∧ (n : Int) ≤ (s.members.size : Int) := by omega
          have c2 : (0 : Int) ≤ (n : Int) + 1 ∧ (n : Int) + 1 ≤ (s.members.size : Int) ∧
              (s.members.size : Int) ≤ (s.members.size : Int) := by omega
          have c3 : (0 : Int) ≤ (n : Int) ∧ (n : Int) + 1 ≤ ((toM_st s).members.length : Int) := by
            simpa [toM_st] using hr
          simp only [c1, c2, c3, and_self, if_true, Outcome.ok_bind, Int.toNat_natCast, Int.toNat_zero]
          have := ih (i + 1) { s with members := s.members.extract 0 n ++ s.members.extract (n + 1) s.members.size } (by omega)
          rw [show ((i + 1 : Nat) : Int) = (i : Int) + 1 by omega] at this
          rw [show ((n : Int) + 1).toNat = n + 1 by omega]
          rw [this]
          congr 1
          simp only [toM_st]
          rw [toList_removeAt _ _ (by omega)]
        · have c3 : ¬ ((0 : Int) ≤ j ∧ j + 1 ≤ ((toM_st s).members.length : Int)) := by simpa [toM_st] using hr
          simp only [c3, if_false, Outcome.panic_bind, Outcome.map_panic]
          by_cases h0 : 0 ≤ j ∧ j ≤ (s.members.size : Int)
          · have c1 : (0 : Int) ≤ 0 ∧ (0 : Int) ≤ j ∧ j ≤ (s.members.size : Int) := ⟨Int.le_refl 0, h0.1, h0.2⟩
            have c2 : ¬ ((0 : Int) ≤ j + 1 ∧ j + 1 ≤ (s.members.size : Int)) := by omega
            simp [c1, c2]
          · simp [h0]
    | panic => simp
    | diverge => simp

theorem Remove_eq_st (s : Set.stable α) (vals : Array α) : (Set.stable.Remove s vals).map toM_st = (toM_st s).remove vals.toList := by
  have := Remove_loop_st vals vals.size 0 s (by omega)
  simp only [Int.natCast_zero, List.drop_zero] at this
  simp only [Set.stable.Remove, Outcome.bind_assoc, Outcome.pure_eq, ← this]
  first | done | (cases Set.stable.Remove.loop1 vals vals.size 0 s <;> rfl)

theorem RemoveAll_eq_st (s : Set.stable α) : (Set.stable.RemoveAll s).map toM_st = .ok (toM_st s).removeAll := by
  have : Go.make (default : α) 0 = .ok #[] := by simp [Go.make]
  simp [Set.stable.RemoveAll, this, toM_st, MSet.removeAll]

theorem CloneEmpty_eq_st (s : Set.stable α) : (Set.stable.CloneEmpty s).map toM_st = .ok (toM_st s).cloneEmpty := by
  have : Go.make (default : α) 0 = .ok #[] := by simp [Go.make]
  simp [Set.stable.CloneEmpty, this, toM_st, MSet.cloneEmpty]

theorem Clone_eq_st (s : Set.stable α) : (Set.stable.Clone s).map toM_st = .ok (toM_st s).clone := by
  simp [Set.stable.Clone, Go.make_nat, copy_all, toM_st, MSet.clone]

theorem Size_eq_st (s : Set.stable α) : Set.stable.Size s = (toM_st s).size := by simp [Set.stable.Size, toM_st, MSet.size]

theorem IsEmpty_eq_st (s : Set.stable α) : Set.stable.IsEmpty s = (toM_st s).isEmpty := by
  simp only [Set.stable.IsEmpty, toM_st, MSet.isEmpty, Array.length_toList]
  by_cases h : s.members.size = 0
  · simp [h]
  · have h1 : ((s.members.size : Int) == 0) = false := by rw [beq_eq_false_iff_ne]; omega
    have h2 : (s.members.size == 0) = false := by rw [beq_eq_false_iff_ne]; exact h
    rw [h1, h2]

theorem AnyMatch_loop_st (s : Set.stable α) (p : α → Bool) : ∀ (k i : Nat), i + k = s.members.size →
    (Set.stable.AnyMatch.loop1 s p k (i : Int)).map foundTrue = .ok ((s.members.toList.drop i).any p) := by
  intro k
  induction k with
  | zero => intro i hi; simp [Set.stable.AnyMatch.loop1, foundTrue, List.drop_eq_nil_of_le, ← hi]
  | succ k ih =>
    intro i hi
    obtain ⟨h1, h2⟩ := idx_drop s.members i (by omega)
    have := ih (i + 1) (by omega)
    rw [show ((i + 1 : Nat) : Int) = (i : Int) + 1 by omega] at this
    simp only [Set.stable.AnyMatch.loop1, h1, h2, List.any_cons, Outcome.ok_bind, Outcome.pure_eq]
    by_cases hp : p s.members[i] = true
    · simp [hp, foundTrue]
    · have hp' : p s.members[i] = false := by simpa using hp
      simpa [hp'] using this

theorem AnyMatch_eq_st (s : Set.stable α) (p : α → Bool) : Set.stable.AnyMatch s p = .ok ((toM_st s).anyMatch p) := by
  have := AnyMatch_loop_st s p s.members.size 0 (by omega)
  simp only [Int.natCast_zero, List.drop_zero] at this
  simp only [Set.stable.AnyMatch, MSet.anyMatch, toM_st]
  revert this
  cases Set.stable.AnyMatch.loop1 s p s.members.size 0 with
  | ok c => cases c <;> simp [foundTrue] <;> intro e <;> simp [← e]
  | panic => simp
  | diverge => simp

theorem AllMatch_loop_st (s : Set.stable α) (p : α → Bool) : ∀ (k i : Nat), i + k = s.members.size →
    (Set.stable.AllMatch.loop1 s p k (i : Int)).map foundFalse = .ok ((s.members.toList.drop i).all p) := by
  intro k
  induction k with
  | zero => intro i hi; simp [Set.stable.AllMatch.loop1, foundFalse, List.drop_eq_nil_of_le, ← hi]
  | succ k ih =>
    intro i hi
    obtain ⟨h1, h2⟩ := idx_drop s.members i (by omega)
    have := ih (i + 1) (by omega)
    rw [show ((i + 1 : Nat) : Int) = (i : Int) + 1 by omega] at this
    simp only [Set.stable.AllMatch.loop1, h1, h2, List.all_cons, Outcome.ok_bind, Outcome.pure_eq]
    by_cases hp : p s.members[i] = true
    · simpa [hp] using this
    · have hp' : p s.members[i] = false := by simpa using hp
      simp [hp', foundFalse]

theorem AllMatch_eq_st (s : Set.stable α) (p : α → Bool) : Set.stable.AllMatch s p = .ok ((toM_st s).allMatch p) := by
  have := AllMatch_loop_st s p s.members.size 0 (by omega)
  simp only [Int.natCast_zero, List.drop_zero] at this
  simp only [Set.stable.AllMatch, MSet.allMatch, toM_st]
  revert this
  cases Set.stable.AllMatch.loop1 s p s.members.size 0 with
  | ok c => cases c <;> simp [foundFalse] <;> intro e <;> simp [← e]
  | panic => simp
  | diverge => simp

theorem FirstMatch_loop_st (s : Set.stable α) (p : α → Bool) : ∀ (k i : Nat), i + k = s.members.size →
    (Set.stable.FirstMatch.loop1 s p k (i : Int)).map foundOpt = .ok ((s.members.toList.drop i).find? p) := by
  intro k
  induction k with
  | zero => intro i hi; simp [Set.stable.FirstMatch.loop1, foundOpt, List.drop_eq_nil_of_le, ← hi]
  | succ k ih =>
    intro i hi
    obtain ⟨h1, h2⟩ := idx_drop s.members i (by omega)
    have := ih (i + 1) (by omega)
    rw [show ((i + 1 : Nat) : Int) = (i : Int) + 1 by omega] at this
    simp only [Set.stable.FirstMatch.loop1, h1, h2, List.find?_cons, Outcome.ok_bind, Outcome.pure_eq]
    by_cases hp : p s.members[i] = true
    · simp [hp, foundOpt, optOf]
    · have hp' : p s.members[i] = false := by simpa using hp
      simpa [hp'] using this

theorem FirstMatch_eq_st (s : Set.stable α) (p : α → Bool) :
    (Set.stable.FirstMatch s p).map optOf = .ok ((toM_st s).firstMatch p) := by
  have := FirstMatch_loop_st s p s.members.size 0 (by omega)
  simp only [Int.natCast_zero, List.drop_zero] at this
  simp only [Set.stable.FirstMatch, MSet.firstMatch, toM_st, Outcome.map_bind]
  revert this
  cases Set.stable.FirstMatch.loop1 s p s.members.size 0 with
  | ok c => cases c <;> simp [foundOpt, optOf] <;> intro e <;> simp [← e, optOf]
  | panic => simp
  | diverge => simp

/-! ## methods that take or return other sets (devirtualised: same implementation on both sides) -/

/-- `for _, m := range s.members { if !rhs.Contains(m) { return false } }` (the loop of `Equal`, `IsSubset`) -/
theorem Equal_loop_st (s rhs : Set.stable α) : ∀ (k i : Nat), i + k = s.members.size →
    (Set.stable.Equal.loop1 s rhs k (i : Int)).map foundFalse = containsEach (toM_st rhs) (s.members.toList.drop i) := by
  intro k
  induction k with
  | zero => intro i hi; simp [Set.stable.Equal.loop1, foundFalse, List.drop_eq_nil_of_le, ← hi, containsEach]
  | succ k ih =>
    intro i hi
    obtain ⟨h1, h2⟩ := idx_drop s.members i (by omega)
    have := ih (i + 1) (by omega)
    rw [show ((i + 1 : Nat) : Int) = (i : Int) + 1 by omega] at this
    simp only [Set.stable.Equal.loop1, h1, h2, containsEach, Contains_eq_st, Outcome.ok_bind, Outcome.pure_eq,
      Outcome.bind_assoc, Outcome.map_bind]
    cases (toM_st rhs).contains [s.members[i]] with
    | ok b => cases b <;> simp [foundFalse, this]
    | panic => simp
    | diverge => simp

theorem Equal_eq_st (s rhs : Set.stable α) : Set.stable.Equal s rhs = (toM_st s).equal (toM_st rhs) := by
  have := Equal_loop_st s rhs s.members.size 0 (by omega)
  simp only [Int.natCast_zero, List.drop_zero] at this
  simp only [Set.stable.Equal, MSet.equal, Size_eq_st]
  by_cases hs : (toM_st s).size = (toM_st rhs).size
  · have hb : ((toM_st s).size != (toM_st rhs).size) = false := by simp [hs]
    simp only [hb, Bool.false_eq_true, if_false, hs, ne_eq, not_true_eq_false]
    have e : (toM_st s).members = s.members.toList := rfl
    rw [e, ← this]
    cases Set.stable.Equal.loop1 s rhs s.members.size 0 with
    | ok c => cases c <;> simp [foundFalse]
    | panic => simp
    | diverge => simp
  · have hb : ((toM_st s).size != (toM_st rhs).size) = true := by simp [bne, hs]
    simp [hb, hs]

/-- `for _, m := range s.members { if p(m) { matched.Add(m) } }` -/
theorem SelectMatch_loop_st (s : Set.stable α) (p : α → Bool) : ∀ (k i : Nat) (matched : Set.stable α),
    i + k = s.members.size →
    (Set.stable.SelectMatch.loop1 s p k (i : Int) matched).map toM_st =
      selectLoop p (toM_st matched) (s.members.toList.drop i) := by
  intro k
  induction k with
  | zero => intro i matched hi; simp [Set.stable.SelectMatch.loop1, List.drop_eq_nil_of_le, ← hi, selectLoop]
  | succ k ih =>
    intro i matched hi
    obtain ⟨h1, h2⟩ := idx_drop s.members i (by omega)
    simp only [Set.stable.SelectMatch.loop1, h1, h2, selectLoop, Outcome.ok_bind, Outcome.pure_eq, Outcome.bind_assoc]
    by_cases hp : p s.members[i] = true
    · simp only [hp, if_true, Outcome.map_bind]
      have ha := Add_eq_st matched #[s.members[i]]
      have hl : (#[s.members[i]] : Array α).toList = [s.members[i]] := rfl
      rw [hl] at ha
      rw [← ha]
      cases Set.stable.Add matched #[s.members[i]] with
      | ok m1 =>
        have := ih (i + 1) m1 (by omega)
        rw [show ((i + 1 : Nat) : Int) = (i : Int) + 1 by omega] at this
        simpa using this
      | panic => simp
      | diverge => simp
    · have hp' : p s.members[i] = false := by simpa using hp
      have := ih (i + 1) matched (by omega)
      rw [show ((i + 1 : Nat) : Int) = (i : Int) + 1 by omega] at this
      simpa [hp'] using this

theorem SelectMatch_eq_st (s : Set.stable α) (p : α → Bool) :
    (Set.stable.SelectMatch s p).map toM_st = (toM_st s).selectMatch p := by
  simp only [Set.stable.SelectMatch, MSet.selectMatch, Outcome.bind_assoc, Outcome.pure_eq, Outcome.map_bind]
  have hc := CloneEmpty_eq_st s
  cases h : Set.stable.CloneEmpty s with
  | ok m0 =>
    rw [h] at hc
    simp only [Outcome.map_ok, Outcome.ok.injEq] at hc
    have := SelectMatch_loop_st s p s.members.size 0 m0 (by omega)
    simp only [Int.natCast_zero, List.drop_zero] at this
    have e : (toM_st s).members = s.members.toList := rfl
    simp only [Outcome.ok_bind, e, ← hc, ← this]
    first | done | (cases Set.stable.SelectMatch.loop1 s p s.members.size 0 m0 <;> rfl)
  | panic => rw [h] at hc; cases hc
  | diverge => rw [h] at hc; cases hc

/-- the results of `PartitionMatch` -/
def toM2_st (r : Set.stable α × Set.stable α) : MSet α × MSet α := (toM_st r.1, toM_st r.2)

theorem PartitionMatch_loop_st (s : Set.stable α) (p : α → Bool) : ∀ (k i : Nat) (matched unmatched : Set.stable α),
    i + k = s.members.size →
    (Set.stable.PartitionMatch.loop1 s p k (i : Int) matched unmatched).map toM2_st =
      partitionLoop p (toM_st matched) (toM_st unmatched) (s.members.toList.drop i) := by
  intro k
  induction k with
  | zero =>
    intro i matched unmatched hi
    simp [Set.stable.PartitionMatch.loop1, List.drop_eq_nil_of_le, ← hi, partitionLoop, toM2_st]
  | succ k ih =>
    intro i matched unmatched hi
    obtain ⟨h1, h2⟩ := idx_drop s.members i (by omega)
    simp only [Set.stable.PartitionMatch.loop1, h1, h2, partitionLoop, Outcome.ok_bind, Outcome.pure_eq, Outcome.bind_assoc]
    have hl : (#[s.members[i]] : Array α).toList = [s.members[i]] := rfl
    by_cases hp : p s.members[i] = true
    · simp only [hp, if_true, Outcome.map_bind]
      have ha := Add_eq_st matched #[s.members[i]]
      rw [hl] at ha
      rw [← ha]
      cases Set.stable.Add matched #[s.members[i]] with
      | ok m1 =>
        have := ih (i + 1) m1 unmatched (by omega)
        rw [show ((i + 1 : Nat) : Int) = (i : Int) + 1 by omega] at this
        simpa using this
      | panic => simp
      | diverge => simp
    · have hp' : p s.members[i] = false := by simpa using hp
      simp only [hp', Bool.false_eq_true, if_false, Outcome.map_bind]
      have ha := Add_eq_st unmatched #[s.members[i]]
      rw [hl] at ha
      rw [← ha]
      cases Set.stable.Add unmatched #[s.members[i]] with
      | ok m1 =>
        have := ih (i + 1) matched m1 (by omega)
        rw [show ((i + 1 : Nat) : Int) = (i : Int) + 1 by omega] at this
        simpa using this
      | panic => simp
      | diverge => simp

theorem PartitionMatch_eq_st (s : Set.stable α) (p : α → Bool) :
    (Set.stable.PartitionMatch s p).map toM2_st = (toM_st s).partitionMatch p := by
  simp only [Set.stable.PartitionMatch, MSet.partitionMatch, Outcome.bind_assoc, Outcome.pure_eq, Outcome.map_bind]
  have hc := CloneEmpty_eq_st s
  cases h : Set.stable.CloneEmpty s with
  | ok m0 =>
    rw [h] at hc
    simp only [Outcome.map_ok, Outcome.ok.injEq] at hc
    have := PartitionMatch_loop_st s p s.members.size 0 m0 m0 (by omega)
    simp only [Int.natCast_zero, List.drop_zero] at this
    have e : (toM_st s).members = s.members.toList := rfl
    simp only [Outcome.ok_bind, e, ← hc, ← this]
    first | done | (cases Set.stable.PartitionMatch.loop1 s p s.members.size 0 m0 m0 <;> rfl)
  | panic => rw [h] at hc; cases hc
  | diverge => rw [h] at hc; cases hc

/-! the same three for the unordered `set` (its `IsSubset`, `Union`, … iterate over a shuffled index list: not translated) -/

/-- `for _, m := range s.members { if !rhs.Contains(m) { return false } }` (the loop of `Equal`, `IsSubset`) -/
theorem Equal_loop (s rhs : Set.set α) : ∀ (k i : Nat), i + k = s.members.size →
    (Set.set.Equal.loop1 s rhs k (i : Int)).map foundFalse = containsEach (toM rhs) (s.members.toList.drop i) := by
  intro k
  induction k with
  | zero => intro i hi; simp [Set.set.Equal.loop1, foundFalse, List.drop_eq_nil_of_le, ← hi, containsEach]
  | succ k ih =>
    intro i hi
    obtain ⟨h1, h2⟩ := idx_drop s.members i (by omega)
    have := ih (i + 1) (by omega)
    rw [show ((i + 1 : Nat) : Int) = (i : Int) + 1 by omega] at this
    simp only [Set.set.Equal.loop1, h1, h2, containsEach, Contains_eq, Outcome.ok_bind, Outcome.pure_eq,
      Outcome.bind_assoc, Outcome.map_bind]
    cases (toM rhs).contains [s.members[i]] with
    | ok b => cases b <;> simp [foundFalse, this]
    | panic => simp
    | diverge => simp

theorem Equal_eq (s rhs : Set.set α) : Set.set.Equal s rhs = (toM s).equal (toM rhs) := by
  have := Equal_loop s rhs s.members.size 0 (by omega)
  simp only [Int.natCast_zero, List.drop_zero] at this
  simp only [Set.set.Equal, MSet.equal, Size_eq]
  by_cases hs : (toM s).size = (toM rhs).size
  · have hb : ((toM s).size != (toM rhs).size) = false := by simp [hs]
    simp only [hb, Bool.false_eq_true, if_false, hs, ne_eq, not_true_eq_false]
    have e : (toM s).members = s.members.toList := rfl
    rw [e, ← this]
    cases Set.set.Equal.loop1 s rhs s.members.size 0 with
    | ok c => cases c <;> simp [foundFalse]
    | panic => simp
    | diverge => simp
  · have hb : ((toM s).size != (toM rhs).size) = true := by simp [bne, hs]
    simp [hb, hs]

/-- `for _, m := range s.members { if p(m) { matched.Add(m) } }` -/
theorem SelectMatch_loop (s : Set.set α) (p : α → Bool) : ∀ (k i : Nat) (matched : Set.set α),
    i + k = s.members.size →
    (Set.set.SelectMatch.loop1 s p k (i : Int) matched).map toM =
      selectLoop p (toM matched) (s.members.toList.drop i) := by
  intro k
  induction k with
  | zero => intro i matched hi; simp [Set.set.SelectMatch.loop1, List.drop_eq_nil_of_le, ← hi, selectLoop]
  | succ k ih =>
    intro i matched hi
    obtain ⟨h1, h2⟩ := idx_drop s.members i (by omega)
    simp only [Set.set.SelectMatch.loop1, h1, h2, selectLoop, Outcome.ok_bind, Outcome.pure_eq, Outcome.bind_assoc]
    by_cases hp : p s.members[i] = true
    · simp only [hp, if_true, Outcome.map_bind]
      have ha := Add_eq matched #[s.members[i]]
      have hl : (#[s.members[i]] : Array α).toList = [s.members[i]] := rfl
      rw [hl] at ha
      rw [← ha]
      cases Set.set.Add matched #[s.members[i]] with
      | ok m1 =>
        have := ih (i + 1) m1 (by omega)
        rw [show ((i + 1 : Nat) : Int) = (i : Int) + 1 by omega] at this
        simpa using this
      | panic => simp
      | diverge => simp
    · have hp' : p s.members[i] = false := by simpa using hp
      have := ih (i + 1) matched (by omega)
      rw [show ((i + 1 : Nat) : Int) = (i : Int) + 1 by omega] at this
      simpa [hp'] using this

theorem SelectMatch_eq (s : Set.set α) (p : α → Bool) :
    (Set.set.SelectMatch s p).map toM = (toM s).selectMatch p := by
  simp only [Set.set.SelectMatch, MSet.selectMatch, Outcome.bind_assoc, Outcome.pure_eq, Outcome.map_bind]
  have hc := CloneEmpty_eq s
  cases h : Set.set.CloneEmpty s with
  | ok m0 =>
    rw [h] at hc
    simp only [Outcome.map_ok, Outcome.ok.injEq] at hc
    have := SelectMatch_loop s p s.members.size 0 m0 (by omega)
    simp only [Int.natCast_zero, List.drop_zero] at this
    have e : (toM s).members = s.members.toList := rfl
    simp only [Outcome.ok_bind, e, ← hc, ← this]
    first | done | (cases Set.set.SelectMatch.loop1 s p s.members.size 0 m0 <;> rfl)
  | panic => rw [h] at hc; cases hc
  | diverge => rw [h] at hc; cases hc

/-- the results of `PartitionMatch` -/
def toM2 (r : Set.set α × Set.set α) : MSet α × MSet α := (toM r.1, toM r.2)

theorem PartitionMatch_loop (s : Set.set α) (p : α → Bool) : ∀ (k i : Nat) (matched unmatched : Set.set α),
    i + k = s.members.size →
    (Set.set.PartitionMatch.loop1 s p k (i : Int) matched unmatched).map toM2 =
      partitionLoop p (toM matched) (toM unmatched) (s.members.toList.drop i) := by
  intro k
  induction k with
  | zero =>
    intro i matched unmatched hi
    simp [Set.set.PartitionMatch.loop1, List.drop_eq_nil_of_le, ← hi, partitionLoop, toM2]
  | succ k ih =>
    intro i matched unmatched hi
    obtain ⟨h1, h2⟩ := idx_drop s.members i (by omega)
    simp only [Set.set.PartitionMatch.loop1, h1, h2, partitionLoop, Outcome.ok_bind, Outcome.pure_eq, Outcome.bind_assoc]
    have hl : (#[s.members[i]] : Array α).toList = [s.members[i]] := rfl
    by_cases hp : p s.members[i] = true
    · simp only [hp, if_true, Outcome.map_bind]
      have ha := Add_eq matched #[s.members[i]]
      rw [hl] at ha
      rw [← ha]
      cases Set.set.Add matched #[s.members[i]] with
      | ok m1 =>
        have := ih (i + 1) m1 unmatched (by omega)
        rw [show ((i + 1 : Nat) : Int) = (i : Int) + 1 by omega] at this
        simpa using this
      | panic => simp
      | diverge => simp
    · have hp' : p s.members[i] = false := by simpa using hp
      simp only [hp', Bool.false_eq_true, if_false, Outcome.map_bind]
      have ha := Add_eq unmatched #[s.members[i]]
      rw [hl] at ha
      rw [← ha]
      cases Set.set.Add unmatched #[s.members[i]] with
      | ok m1 =>
        have := ih (i + 1) matched m1 (by omega)
        rw [show ((i + 1 : Nat) : Int) = (i : Int) + 1 by omega] at this
        simpa using this
      | panic => simp
      | diverge => simp

theorem PartitionMatch_eq (s : Set.set α) (p : α → Bool) :
    (Set.set.PartitionMatch s p).map toM2 = (toM s).partitionMatch p := by
  simp only [Set.set.PartitionMatch, MSet.partitionMatch, Outcome.bind_assoc, Outcome.pure_eq, Outcome.map_bind]
  have hc := CloneEmpty_eq s
  cases h : Set.set.CloneEmpty s with
  | ok m0 =>
    rw [h] at hc
    simp only [Outcome.map_ok, Outcome.ok.injEq] at hc
    have := PartitionMatch_loop s p s.members.size 0 m0 m0 (by omega)
    simp only [Int.natCast_zero, List.drop_zero] at this
    have e : (toM s).members = s.members.toList := rfl
    simp only [Outcome.ok_bind, e, ← hc, ← this]
    first | done | (cases Set.set.PartitionMatch.loop1 s p s.members.size 0 m0 m0 <;> rfl)
  | panic => rw [h] at hc; cases hc
  | diverge => rw [h] at hc; cases hc


/-- `stable` and `sorted` iterate in the stored order: no generator is involved -/
theorem all_st (sh : Shuffle σ) (s : Set.stable α) (g : σ) : (toM_st s).all sh g = .ok (s.members.toList, g) := rfl

theorem IsSubset_loop_st (s superset : Set.stable α) : ∀ (k i : Nat), i + k = s.members.size →
    (Set.stable.IsSubset.loop1 s superset k (i : Int)).map foundFalse =
      containsEach (toM_st superset) (s.members.toList.drop i) := by
  intro k
  induction k with
  | zero => intro i hi; simp [Set.stable.IsSubset.loop1, foundFalse, List.drop_eq_nil_of_le, ← hi, containsEach]
  | succ k ih =>
    intro i hi
    obtain ⟨h1, h2⟩ := idx_drop s.members i (by omega)
    have := ih (i + 1) (by omega)
    rw [show ((i + 1 : Nat) : Int) = (i : Int) + 1 by omega] at this
    simp only [Set.stable.IsSubset.loop1, h1, h2, containsEach, Contains_eq_st, Outcome.ok_bind, Outcome.pure_eq,
      Outcome.bind_assoc, Outcome.map_bind]
    cases (toM_st superset).contains [s.members[i]] with
    | ok b => cases b <;> simp [foundFalse, this]
    | panic => simp
    | diverge => simp

theorem IsSubset_eq_st (sh : Shuffle σ) (s superset : Set.stable α) (g : σ) :
    (toM_st s).isSubset sh (toM_st superset) g = (Set.stable.IsSubset s superset).map (fun b => (b, g)) := by
  have := IsSubset_loop_st s superset s.members.size 0 (by omega)
  simp only [Int.natCast_zero, List.drop_zero] at this
  simp only [MSet.isSubset, all_st, Outcome.ok_bind, Set.stable.IsSubset, ← this, Outcome.pure_eq, Outcome.map_bind]
  cases Set.stable.IsSubset.loop1 s superset s.members.size 0 with
  | ok c => cases c <;> simp [foundFalse]
  | panic => simp
  | diverge => simp

theorem IsSuperset_loop_st (s subset : Set.stable α) : ∀ (k i : Nat), i + k = subset.members.size →
    (Set.stable.IsSuperset.loop1 s subset k (i : Int)).map foundFalse =
      containsEach (toM_st s) (subset.members.toList.drop i) := by
  intro k
  induction k with
  | zero => intro i hi; simp [Set.stable.IsSuperset.loop1, foundFalse, List.drop_eq_nil_of_le, ← hi, containsEach]
  | succ k ih =>
    intro i hi
    obtain ⟨h1, h2⟩ := idx_drop subset.members i (by omega)
    have := ih (i + 1) (by omega)
    rw [show ((i + 1 : Nat) : Int) = (i : Int) + 1 by omega] at this
    simp only [Set.stable.IsSuperset.loop1, h1, h2, containsEach, Contains_eq_st, Outcome.ok_bind, Outcome.pure_eq,
      Outcome.bind_assoc, Outcome.map_bind]
    cases (toM_st s).contains [subset.members[i]] with
    | ok b => cases b <;> simp [foundFalse, this]
    | panic => simp
    | diverge => simp

theorem IsSuperset_eq_st (sh : Shuffle σ) (s subset : Set.stable α) (g : σ) :
    (toM_st s).isSuperset sh (toM_st subset) g = (Set.stable.IsSuperset s subset).map (fun b => (b, g)) := by
  have := IsSuperset_loop_st s subset subset.members.size 0 (by omega)
  simp only [Int.natCast_zero, List.drop_zero] at this
  simp only [MSet.isSuperset, all_st, Outcome.ok_bind, Set.stable.IsSuperset, ← this, Outcome.pure_eq, Outcome.map_bind]
  cases Set.stable.IsSuperset.loop1 s subset subset.members.size 0 with
  | ok c => cases c <;> simp [foundFalse]
  | panic => simp
  | diverge => simp

/-- `for m := range set.All() { t.Add(m) }` -/
theorem Union_loop2_st (set : Set.stable α) : ∀ (k i : Nat) (t : Set.stable α), i + k = set.members.size →
    (Set.stable.Union.loop2 set k (i : Int) t).map toM_st = addEach (toM_st t) (set.members.toList.drop i) := by
  intro k
  induction k with
  | zero => intro i t hi; simp [Set.stable.Union.loop2, List.drop_eq_nil_of_le, ← hi, addEach]
  | succ k ih =>
    intro i t hi
    obtain ⟨h1, h2⟩ := idx_drop set.members i (by omega)
    simp only [Set.stable.Union.loop2, h1, h2, addEach, Outcome.ok_bind, Outcome.pure_eq, Outcome.bind_assoc, Outcome.map_bind]
    have ha := Add_eq_st t #[set.members[i]]
    have hl : (#[set.members[i]] : Array α).toList = [set.members[i]] := rfl
    rw [hl] at ha
    rw [← ha]
    cases Set.stable.Add t #[set.members[i]] with
    | ok t1 =>
      have := ih (i + 1) t1 (by omega)
      rw [show ((i + 1 : Nat) : Int) = (i : Int) + 1 by omega] at this
      simpa using this
    | panic => simp
    | diverge => simp

theorem idx_drop' {β : Type} (a : Array β) (i : Nat) (h : i < a.size) :
    Go.idx a (i : Int) = .ok a[i] ∧ a.toList.drop i = a[i] :: a.toList.drop (i + 1) := by
  refine ⟨Go.idx_nat h, ?_⟩
  rw [← Array.getElem_toList (h := by simpa using h)]
  exact List.drop_eq_getElem_cons (by simpa using h)

theorem Union_loop1_st (sh : Shuffle σ) (g : σ) (sets : Array (Set.stable α)) : ∀ (k i : Nat) (t : Set.stable α),
    i + k = sets.size →
    (Set.stable.Union.loop1 sets k (i : Int) t).map (fun t => (toM_st t, g)) =
      unionLoop sh (toM_st t) ((sets.toList.drop i).map toM_st) g := by
  intro k
  induction k with
  | zero => intro i t hi; simp [Set.stable.Union.loop1, List.drop_eq_nil_of_le, ← hi, unionLoop]
  | succ k ih =>
    intro i t hi
    obtain ⟨h1, h2⟩ := idx_drop' sets i (by omega)
    simp only [Set.stable.Union.loop1, h1, h2, List.map_cons, unionLoop, all_st, Outcome.ok_bind, Outcome.pure_eq,
      Outcome.bind_assoc, Outcome.map_bind]
    have h2' := Union_loop2_st sets[i] sets[i].members.size 0 t (by omega)
    simp only [Int.natCast_zero, List.drop_zero] at h2'
    rw [← h2']
    cases Set.stable.Union.loop2 sets[i] sets[i].members.size 0 t with
    | ok t1 =>
      have := ih (i + 1) t1 (by omega)
      rw [show ((i + 1 : Nat) : Int) = (i : Int) + 1 by omega] at this
      simpa using this
    | panic => simp
    | diverge => simp

theorem Union_eq_st (sh : Shuffle σ) (s : Set.stable α) (sets : Array (Set.stable α)) (g : σ) :
    (toM_st s).union sh (sets.toList.map toM_st) g = (Set.stable.Union s sets).map (fun t => (toM_st t, g)) := by
  simp only [MSet.union, Set.stable.Union, Outcome.bind_assoc, Outcome.pure_eq, Outcome.map_bind]
  have hc := Clone_eq_st s
  cases h : Set.stable.Clone s with
  | ok t0 =>
    rw [h] at hc
    simp only [Outcome.map_ok, Outcome.ok.injEq] at hc
    have := Union_loop1_st sh g sets sets.size 0 t0 (by omega)
    simp only [Int.natCast_zero, List.drop_zero] at this
    simp only [Outcome.ok_bind, ← hc, ← this]
    first | done | (cases Set.stable.Union.loop1 sets sets.size 0 t0 <;> rfl)
  | panic => rw [h] at hc; cases hc
  | diverge => rw [h] at hc; cases hc

/-- `for m := range set.All() { t.Remove(m) }` -/
theorem Difference_loop2_st (set : Set.stable α) : ∀ (k i : Nat) (t : Set.stable α), i + k = set.members.size →
    (Set.stable.Difference.loop2 set k (i : Int) t).map toM_st = removeEach (toM_st t) (set.members.toList.drop i) := by
  intro k
  induction k with
  | zero => intro i t hi; simp [Set.stable.Difference.loop2, List.drop_eq_nil_of_le, ← hi, removeEach]
  | succ k ih =>
    intro i t hi
    obtain ⟨h1, h2⟩ := idx_drop set.members i (by omega)
    simp only [Set.stable.Difference.loop2, h1, h2, removeEach, Outcome.ok_bind, Outcome.pure_eq, Outcome.bind_assoc, Outcome.map_bind]
    have ha := Remove_eq_st t #[set.members[i]]
    have hl : (#[set.members[i]] : Array α).toList = [set.members[i]] := rfl
    rw [hl] at ha
    rw [← ha]
    cases Set.stable.Remove t #[set.members[i]] with
    | ok t1 =>
      have := ih (i + 1) t1 (by omega)
      rw [show ((i + 1 : Nat) : Int) = (i : Int) + 1 by omega] at this
      simpa using this
    | panic => simp
    | diverge => simp

theorem Difference_loop1_st (sh : Shuffle σ) (g : σ) (sets : Array (Set.stable α)) : ∀ (k i : Nat) (t : Set.stable α),
    i + k = sets.size →
    (Set.stable.Difference.loop1 sets k (i : Int) t).map (fun t => (toM_st t, g)) =
      diffLoop sh (toM_st t) ((sets.toList.drop i).map toM_st) g := by
  intro k
  induction k with
  | zero => intro i t hi; simp [Set.stable.Difference.loop1, List.drop_eq_nil_of_le, ← hi, diffLoop]
  | succ k ih =>
    intro i t hi
    obtain ⟨h1, h2⟩ := idx_drop' sets i (by omega)
    simp only [Set.stable.Difference.loop1, h1, h2, List.map_cons, diffLoop, all_st, Outcome.ok_bind, Outcome.pure_eq,
      Outcome.bind_assoc, Outcome.map_bind]
    have h2' := Difference_loop2_st sets[i] sets[i].members.size 0 t (by omega)
    simp only [Int.natCast_zero, List.drop_zero] at h2'
    rw [← h2']
    cases Set.stable.Difference.loop2 sets[i] sets[i].members.size 0 t with
    | ok t1 =>
      have := ih (i + 1) t1 (by omega)
      rw [show ((i + 1 : Nat) : Int) = (i : Int) + 1 by omega] at this
      simpa using this
    | panic => simp
    | diverge => simp

theorem Difference_eq_st (sh : Shuffle σ) (s : Set.stable α) (sets : Array (Set.stable α)) (g : σ) :
    (toM_st s).difference sh (sets.toList.map toM_st) g = (Set.stable.Difference s sets).map (fun t => (toM_st t, g)) := by
  simp only [MSet.difference, Set.stable.Difference, Outcome.bind_assoc, Outcome.pure_eq, Outcome.map_bind]
  have hc := Clone_eq_st s
  cases h : Set.stable.Clone s with
  | ok t0 =>
    rw [h] at hc
    simp only [Outcome.map_ok, Outcome.ok.injEq] at hc
    have := Difference_loop1_st sh g sets sets.size 0 t0 (by omega)
    simp only [Int.natCast_zero, List.drop_zero] at this
    simp only [Outcome.ok_bind, ← hc, ← this]
    first | done | (cases Set.stable.Difference.loop1 sets sets.size 0 t0 <;> rfl)
  | panic => rw [h] at hc; cases hc
  | diverge => rw [h] at hc; cases hc

/-! ## `sorted` (sorted.go): binary search takes the caller's fuel

The hand Model gives every binary search `len(members) + 1` units; the generated `find` / `add` loops draw on the fuel of
the method that calls them.  The statements are `x ≼ y` (the hand Model ran out of its own fuel, or the outcomes are
equal) for every fuel that covers the largest member list that can occur during the call. -/

def liftCmp (cmp : α → α → Int) : CompareFunc α := fun a b => .ok (cmp a b)

/-- the generated `sorted` structure read as the hand Model's object -/
def toM_so (s : Set.sorted α) : MSet α := ⟨.sorted (liftCmp s.compare), s.members.toList⟩

theorem idx_of_toList_some (a : Array α) {mid : Int} {m : α} (h0 : 0 ≤ mid) (h : a.toList[mid.toNat]? = some m) :
    Go.idx a mid = .ok m := by
  rw [Array.getElem?_toList] at h
  obtain ⟨h2, rfl⟩ := Array.getElem?_eq_some_iff.1 h
  have : 0 ≤ mid ∧ mid < a.size := by omega
  simp [Go.idx, this]

theorem idx_of_toList_none (a : Array α) {mid : Int} (h0 : 0 ≤ mid) (h : a.toList[mid.toNat]? = none) :
    Go.idx a mid = .panic := by
  rw [Array.getElem?_toList] at h
  have h2 : a.size ≤ mid.toNat := Array.getElem?_eq_none_iff.1 h
  exact Go.idx_of_invalid (by omega)

theorem idx_of_neg (a : Array α) {mid : Int} (h0 : ¬ 0 ≤ mid) : Go.idx a mid = .panic :=
  Go.idx_of_invalid (by omega)

def foundIdx2 : Go.Ctl (Int × Int) Int → Int
  | .ret i => i
  | .next _ => -1

/-- one round of the hand Model's binary search, with the checked read spelled as `Go.idx` -/
theorem binFind_succ (cmp : α → α → Int) (a : Array α) (v : α) (f : Nat) (low high : Int) :
    binFind (liftCmp cmp) a.toList v (f + 1) low high =
      if low ≤ high then
        Go.idx a ((low + high).tdiv 2) >>= fun m =>
          if cmp v m < 0 then binFind (liftCmp cmp) a.toList v f low ((low + high).tdiv 2 - 1)
          else if cmp v m > 0 then binFind (liftCmp cmp) a.toList v f ((low + high).tdiv 2 + 1) high
          else .ok ((low + high).tdiv 2)
      else .ok (-1) := by
  simp only [binFind]
  split
  · split
    · rename_i h0
      split
      · rename_i hn; rw [idx_of_toList_none a h0 hn]; rfl
      · rename_i m hm; rw [idx_of_toList_some a h0 hm]; simp [liftCmp]
    · rename_i h0; rw [idx_of_neg a h0]; rfl
  · rfl

/-- `for low <= high { mid := (low+high)/2; cmp := s.compare(v, s.members[mid]); … }` of `find` -/
theorem find_loop_so (s : Set.sorted α) (v : α) (F : Nat) : ∀ (f d : Nat) (low high : Int),
    binFind (liftCmp s.compare) s.members.toList v f low high ≼
      (Set.sorted.find.loop1 F s v (f + d) low high).map foundIdx2 := by
  intro f
  induction f with
  | zero => intro d low high; simp [binFind]
  | succ f ih =>
    intro d low high
    rw [show f + 1 + d = (f + d) + 1 by omega]
    simp only [binFind_succ, Set.sorted.find.loop1]
    outcome_auto [foundIdx2]

theorem find_le_so (s : Set.sorted α) (v : α) (F : Nat) (hF : s.members.size + 1 ≤ F) :
    (toM_so s).find v ≼ Set.sorted.find F s v := by
  obtain ⟨d, rfl⟩ : ∃ d, F = s.members.size + 1 + d := ⟨F - (s.members.size + 1), by omega⟩
  have := find_loop_so s v (s.members.size + 1 + d) (s.members.size + 1) d 0 ((s.members.size : Int) - 1)
  simp only [MSet.find, toM_so, Set.sorted.find, Array.length_toList, Outcome.bind_assoc, Outcome.pure_eq]
  refine this.trans_eq ?_
  cases Set.sorted.find.loop1 (s.members.size + 1 + d) s v (s.members.size + 1 + d) 0 ((s.members.size : Int) - 1) with
  | ok c => cases c <;> simp [foundIdx2]
  | panic => simp
  | diverge => simp

/-- `Contains` with any fuel `≥ len(members) + 1` -/
theorem Contains_loop_so (s : Set.sorted α) (vals : Array α) (F : Nat) (hF : s.members.size + 1 ≤ F) :
    ∀ (k i : Nat), i + k = vals.size →
    (toM_so s).contains (vals.toList.drop i) ≼ (Set.sorted.Contains.loop1 F s vals k (i : Int)).map foundFalse := by
  intro k
  induction k with
  | zero =>
    intro i hi
    simp [Set.sorted.Contains.loop1, foundFalse, List.drop_eq_nil_of_le, ← hi, MSet.contains]
  | succ k ih =>
    intro i hi
    obtain ⟨h1, h2⟩ := idx_drop vals i (by omega)
    have := ih (i + 1) (by omega)
    rw [show ((i + 1 : Nat) : Int) = (i : Int) + 1 by omega] at this
    simp only [Set.sorted.Contains.loop1, h1, h2, MSet.contains, Outcome.ok_bind, Outcome.pure_eq, Outcome.bind_assoc,
      Outcome.map_bind]
    refine bind_le' (find_le_so s vals[i] F hF) fun j _ => ?_
    by_cases hj : j = -1
    · subst hj; simp [foundFalse]
    · have hj' : (j == -1) = false := by rw [beq_eq_false_iff_ne]; exact hj
      simpa [hj, hj'] using this

theorem Contains_le_so (s : Set.sorted α) (vals : Array α) (F : Nat) (hF : s.members.size + 1 ≤ F) :
    (toM_so s).contains vals.toList ≼ Set.sorted.Contains F s vals := by
  have := Contains_loop_so s vals F hF vals.size 0 (by omega)
  simp only [Int.natCast_zero, List.drop_zero] at this
  simp only [Set.sorted.Contains]
  refine this.trans_eq ?_
  cases Set.sorted.Contains.loop1 F s vals vals.size 0 with
  | ok c => cases c <;> simp [foundFalse]
  | panic => simp
  | diverge => simp

theorem binAddPos_succ (cmp : α → α → Int) (a : Array α) (v : α) (f : Nat) (low high : Int) :
    binAddPos (liftCmp cmp) a.toList v (f + 1) low high =
      if low ≤ high then
        Go.idx a ((low + high).tdiv 2) >>= fun m =>
          if cmp v m < 0 then binAddPos (liftCmp cmp) a.toList v f low ((low + high).tdiv 2 - 1)
          else if cmp v m > 0 then binAddPos (liftCmp cmp) a.toList v f ((low + high).tdiv 2 + 1) high
          else .ok none
      else .ok (some low) := by
  simp only [binAddPos]
  split
  · split
    · rename_i h0
      split
      · rename_i hn; rw [idx_of_toList_none a h0 hn]; rfl
      · rename_i m hm; rw [idx_of_toList_some a h0 hm]; simp [liftCmp]
    · rename_i h0; rw [idx_of_neg a h0]; rfl
  · rfl

/-- how the search loop of `add` ends: `return` (the member exists) or the insertion position -/
def addPos : Go.Ctl (Int × Int) (Set.sorted α) → Option Int
  | .ret _ => none
  | .next r => some r.1

theorem add_loop_so (s : Set.sorted α) (v : α) (F : Nat) : ∀ (f d : Nat) (low high : Int),
    binAddPos (liftCmp s.compare) s.members.toList v f low high ≼
      (Set.sorted.add.loop1 F s v (f + d) low high).map addPos := by
  intro f
  induction f with
  | zero => intro d low high; simp [binAddPos]
  | succ f ih =>
    intro d low high
    rw [show f + 1 + d = (f + d) + 1 by omega]
    simp only [binAddPos_succ, Set.sorted.add.loop1]
    outcome_auto [addPos]

/-- the search loop of `add` returns the receiver unchanged when it returns -/
theorem add_loop_ret (s : Set.sorted α) (v : α) (F : Nat) : ∀ (k : Nat) (low high : Int) (r : Set.sorted α),
    Set.sorted.add.loop1 F s v k low high = .ok (.ret r) → r = s := by
  intro k
  induction k with
  | zero => intro low high r h; simp [Set.sorted.add.loop1] at h
  | succ k ih =>
    intro low high r h
    simp only [Set.sorted.add.loop1] at h
    split at h
    · simp at h
    · cases hi : Go.idx s.members ((low + high).tdiv 2) with
      | ok m =>
        simp only [hi, Outcome.ok_bind] at h
        split at h
        · exact ih _ _ _ h
        · split at h
          · exact ih _ _ _ h
          · simp at h; exact h.symm
      | panic => simp [hi] at h
      | diverge => simp [hi] at h

theorem toList_insertAt (m : Array α) (v : α) (j : Nat) (_hj : j ≤ m.size) :
    (m.extract 0 j ++ (#[v] ++ m.extract j m.size)).toList = m.toList.take j ++ v :: m.toList.drop j := by
  simp only [Array.toList_append, Array.toList_extract, List.extract_eq_take_drop, Nat.sub_zero, List.drop_zero]
  rw [List.take_of_length_le (l := List.drop j m.toList) (by simp)]
  rfl

/-- `add` with any fuel `≥ len(members) + 1` -/
theorem add_le_so (s : Set.sorted α) (v : α) (F : Nat) (hF : s.members.size + 1 ≤ F) :
    (toM_so s).add1 v ≼ (Set.sorted.add F s v).map toM_so := by
  obtain ⟨d, rfl⟩ : ∃ d, F = s.members.size + 1 + d := ⟨F - (s.members.size + 1), by omega⟩
  have hl := add_loop_so s v (s.members.size + 1 + d) (s.members.size + 1) d 0 ((s.members.size : Int) - 1)
  simp only [MSet.add1, toM_so, Set.sorted.add, Array.length_toList, Outcome.bind_assoc, Outcome.pure_eq, Outcome.map_bind]
  generalize hX : Set.sorted.add.loop1 (s.members.size + 1 + d) s v (s.members.size + 1 + d) 0 ((s.members.size : Int) - 1) = X at hl
  cases X with
  | ok c =>
    cases c with
    | ret r =>
      have hr := add_loop_ret s v _ _ _ _ r hX
      subst hr
      rcases hl with hl | hl
      · simp [hl]
      · simp [hl, addPos, toM_so]
    | next lh =>
      obtain ⟨low, high⟩ := lh
      rcases hl with hl | hl
      · simp [hl]
      · simp only [hl, Outcome.map_ok, addPos, Outcome.ok_bind, Go.slice]
        by_cases hr : 0 ≤ low ∧ low ≤ (s.members.size : Int)
        · obtain ⟨n, rfl⟩ : ∃ n : Nat, low = (n : Int) := ⟨low.toNat, by omega⟩
          have c1 : (0 : Int) ≤ 0 ∧ (0 : Int) ≤ (n : Int) ∧ (n : Int) ≤ (s.members.size : Int) := by omega
          have c2 : (0 : Int) ≤ (n : Int) ∧ (n : Int) ≤ (s.members.size : Int) ∧
              (s.members.size : Int) ≤ (s.members.size : Int) := by omega
          simp only [hr, c1, c2, and_self, if_true, Outcome.ok_bind, Int.toNat_natCast, Int.toNat_zero, Outcome.map_ok,
            Outcome.le_refl, toM_so]
          rw [toList_insertAt _ _ _ (by omega)]
          exact Outcome.le_refl _
        · have c1 : ¬ ((0 : Int) ≤ 0 ∧ (0 : Int) ≤ low ∧ low ≤ (s.members.size : Int)) := by omega
          simp [hr, c1]
  | panic =>
    rcases hl with hl | hl
    · simp [hl]
    · simp [hl]
  | diverge =>
    rcases hl with hl | hl
    · simp [hl]
    · simp [hl]

/-! the methods of `sorted` that do not search (as for `stable`) -/

theorem RemoveAll_eq_so (s : Set.sorted α) : (Set.sorted.RemoveAll s).map toM_so = .ok (toM_so s).removeAll := by
  have : Go.make (default : α) 0 = .ok #[] := by simp [Go.make]
  simp [Set.sorted.RemoveAll, this, toM_so, MSet.removeAll]

theorem CloneEmpty_eq_so (s : Set.sorted α) : (Set.sorted.CloneEmpty s).map toM_so = .ok (toM_so s).cloneEmpty := by
  have : Go.make (default : α) 0 = .ok #[] := by simp [Go.make]
  simp [Set.sorted.CloneEmpty, this, toM_so, MSet.cloneEmpty]

theorem Clone_eq_so (s : Set.sorted α) : (Set.sorted.Clone s).map toM_so = .ok (toM_so s).clone := by
  simp [Set.sorted.Clone, Go.make_nat, copy_all, toM_so, MSet.clone]

theorem Size_eq_so (s : Set.sorted α) : Set.sorted.Size s = (toM_so s).size := by simp [Set.sorted.Size, toM_so, MSet.size]

theorem IsEmpty_eq_so (s : Set.sorted α) : Set.sorted.IsEmpty s = (toM_so s).isEmpty := by
  simp only [Set.sorted.IsEmpty, toM_so, MSet.isEmpty, Array.length_toList]
  by_cases h : s.members.size = 0
  · simp [h]
  · have h1 : ((s.members.size : Int) == 0) = false := by rw [beq_eq_false_iff_ne]; omega
    have h2 : (s.members.size == 0) = false := by rw [beq_eq_false_iff_ne]; exact h
    rw [h1, h2]

theorem AnyMatch_loop_so (s : Set.sorted α) (p : α → Bool) : ∀ (k i : Nat), i + k = s.members.size →
    (Set.sorted.AnyMatch.loop1 s p k (i : Int)).map foundTrue = .ok ((s.members.toList.drop i).any p) := by
  intro k
  induction k with
  | zero => intro i hi; simp [Set.sorted.AnyMatch.loop1, foundTrue, List.drop_eq_nil_of_le, ← hi]
  | succ k ih =>
    intro i hi
    obtain ⟨h1, h2⟩ := idx_drop s.members i (by omega)
    have := ih (i + 1) (by omega)
    rw [show ((i + 1 : Nat) : Int) = (i : Int) + 1 by omega] at this
    simp only [Set.sorted.AnyMatch.loop1, h1, h2, List.any_cons, Outcome.ok_bind, Outcome.pure_eq]
    by_cases hp : p s.members[i] = true
    · simp [hp, foundTrue]
    · have hp' : p s.members[i] = false := by simpa using hp
      simpa [hp'] using this

theorem AnyMatch_eq_so (s : Set.sorted α) (p : α → Bool) : Set.sorted.AnyMatch s p = .ok ((toM_so s).anyMatch p) := by
  have := AnyMatch_loop_so s p s.members.size 0 (by omega)
  simp only [Int.natCast_zero, List.drop_zero] at this
  simp only [Set.sorted.AnyMatch, MSet.anyMatch, toM_so]
  revert this
  cases Set.sorted.AnyMatch.loop1 s p s.members.size 0 with
  | ok c => cases c <;> simp [foundTrue] <;> intro e <;> simp [← e]
  | panic => simp
  | diverge => simp

theorem AllMatch_loop_so (s : Set.sorted α) (p : α → Bool) : ∀ (k i : Nat), i + k = s.members.size →
    (Set.sorted.AllMatch.loop1 s p k (i : Int)).map foundFalse = .ok ((s.members.toList.drop i).all p) := by
  intro k
  induction k with
  | zero => intro i hi; simp [Set.sorted.AllMatch.loop1, foundFalse, List.drop_eq_nil_of_le, ← hi]
  | succ k ih =>
    intro i hi
    obtain ⟨h1, h2⟩ := idx_drop s.members i (by omega)
    have := ih (i + 1) (by omega)
    rw [show ((i + 1 : Nat) : Int) = (i : Int) + 1 by omega] at this
    simp only [Set.sorted.AllMatch.loop1, h1, h2, List.all_cons, Outcome.ok_bind, Outcome.pure_eq]
    by_cases hp : p s.members[i] = true
    · simpa [hp] using this
    · have hp' : p s.members[i] = false := by simpa using hp
      simp [hp', foundFalse]

theorem AllMatch_eq_so (s : Set.sorted α) (p : α → Bool) : Set.sorted.AllMatch s p = .ok ((toM_so s).allMatch p) := by
  have := AllMatch_loop_so s p s.members.size 0 (by omega)
  simp only [Int.natCast_zero, List.drop_zero] at this
  simp only [Set.sorted.AllMatch, MSet.allMatch, toM_so]
  revert this
  cases Set.sorted.AllMatch.loop1 s p s.members.size 0 with
  | ok c => cases c <;> simp [foundFalse] <;> intro e <;> simp [← e]
  | panic => simp
  | diverge => simp

theorem FirstMatch_loop_so (s : Set.sorted α) (p : α → Bool) : ∀ (k i : Nat), i + k = s.members.size →
    (Set.sorted.FirstMatch.loop1 s p k (i : Int)).map foundOpt = .ok ((s.members.toList.drop i).find? p) := by
  intro k
  induction k with
  | zero => intro i hi; simp [Set.sorted.FirstMatch.loop1, foundOpt, List.drop_eq_nil_of_le, ← hi]
  | succ k ih =>
    intro i hi
    obtain ⟨h1, h2⟩ := idx_drop s.members i (by omega)
    have := ih (i + 1) (by omega)
    rw [show ((i + 1 : Nat) : Int) = (i : Int) + 1 by omega] at this
    simp only [Set.sorted.FirstMatch.loop1, h1, h2, List.find?_cons, Outcome.ok_bind, Outcome.pure_eq]
    by_cases hp : p s.members[i] = true
    · simp [hp, foundOpt, optOf]
    · have hp' : p s.members[i] = false := by simpa using hp
      simpa [hp'] using this

theorem FirstMatch_eq_so (s : Set.sorted α) (p : α → Bool) :
    (Set.sorted.FirstMatch s p).map optOf = .ok ((toM_so s).firstMatch p) := by
  have := FirstMatch_loop_so s p s.members.size 0 (by omega)
  simp only [Int.natCast_zero, List.drop_zero] at this
  simp only [Set.sorted.FirstMatch, MSet.firstMatch, toM_so, Outcome.map_bind]
  revert this
  cases Set.sorted.FirstMatch.loop1 s p s.members.size 0 with
  | ok c => cases c <;> simp [foundOpt, optOf] <;> intro e <;> simp [← e, optOf]
  | panic => simp
  | diverge => simp

/-! lengths along `Add` / `Remove` (hand Model, any implementation): the fuel must cover the longest member list -/

theorem bind_eq_ok {β γ : Type} {x : Outcome β} {f : β → Outcome γ} {b : γ} :
    (x >>= f) = .ok b ↔ ∃ a, x = .ok a ∧ f a = .ok b := by
  cases x <;> simp

theorem add1_len {s s' : MSet α} {v : α} (h : s.add1 v = .ok s') :
    s'.members.length ≤ s.members.length + 1 ∧ s'.impl = s.impl := by
  unfold MSet.add1 at h
  split at h
  · obtain ⟨b, -, h⟩ := bind_eq_ok.1 h
    split at h <;> (cases h; simp)
  · obtain ⟨b, -, h⟩ := bind_eq_ok.1 h
    split at h <;> (cases h; simp)
  · obtain ⟨r, -, h⟩ := bind_eq_ok.1 h
    split at h
    · cases h; simp
    · split at h
      · cases h
        rename_i low hr
        simp only [List.length_append, List.length_take, List.length_cons, List.length_drop, and_true]
        omega
      · cases h

theorem add_len : ∀ (vs : List α) (s s' : MSet α), s.add vs = .ok s' →
    s'.members.length ≤ s.members.length + vs.length ∧ s'.impl = s.impl := by
  intro vs
  induction vs with
  | nil => intro s s' h; simp only [MSet.add] at h; cases h; simp
  | cons v vs ih =>
    intro s s' h
    simp only [MSet.add] at h
    obtain ⟨s1, h1, h2⟩ := bind_eq_ok.1 h
    obtain ⟨l1, i1⟩ := add1_len h1
    obtain ⟨l2, i2⟩ := ih s1 s' h2
    exact ⟨by simp only [List.length_cons]; omega, i2.trans i1⟩

theorem remove1_len {s s' : MSet α} {v : α} (h : s.remove1 v = .ok s') :
    s'.members.length ≤ s.members.length ∧ s'.impl = s.impl := by
  unfold MSet.remove1 at h
  obtain ⟨i, -, h⟩ := bind_eq_ok.1 h
  split at h
  · split at h
    · cases h
      simp only [List.length_append, List.length_take, List.length_drop, and_true]
      omega
    · cases h
  · cases h; simp

theorem remove_len : ∀ (vs : List α) (s s' : MSet α), s.remove vs = .ok s' →
    s'.members.length ≤ s.members.length ∧ s'.impl = s.impl := by
  intro vs
  induction vs with
  | nil => intro s s' h; simp only [MSet.remove] at h; cases h; simp
  | cons v vs ih =>
    intro s s' h
    simp only [MSet.remove] at h
    obtain ⟨s1, h1, h2⟩ := bind_eq_ok.1 h
    obtain ⟨l1, i1⟩ := remove1_len h1
    obtain ⟨l2, i2⟩ := ih s1 s' h2
    exact ⟨by omega, i2.trans i1⟩

theorem le_bind_of_map {β γ δ : Type} {x : Outcome β} {y : Outcome γ} {p : γ → β} {g : β → Outcome δ}
    {g' : γ → Outcome δ} (h : x ≼ y.map p) (hg : ∀ c, x = .ok (p c) → y = .ok c → g (p c) ≼ g' c) :
    (x >>= g) ≼ (y >>= g') := by
  cases y with
  | ok c =>
    rcases h with rfl | h
    · simp
    · rw [h]; simp only [Outcome.map_ok, Outcome.ok_bind]; exact hg c h rfl
  | panic => rcases h with rfl | h <;> simp_all
  | diverge => rcases h with rfl | h <;> simp_all

@[simp] theorem toM_so_len (s : Set.sorted α) : (toM_so s).members.length = s.members.size := by simp [toM_so]

/-- `Add(vals...)` with any fuel `≥ len(members) + len(vals) + 1` -/
theorem Add_loop_so (vals : Array α) (F : Nat) : ∀ (k i : Nat) (s : Set.sorted α), i + k = vals.size →
    s.members.size + k + 1 ≤ F →
    (toM_so s).add (vals.toList.drop i) ≼ (Set.sorted.Add.loop1 F vals k (i : Int) s).map toM_so := by
  intro k
  induction k with
  | zero => intro i s hi _; simp [Set.sorted.Add.loop1, List.drop_eq_nil_of_le, ← hi, MSet.add]
  | succ k ih =>
    intro i s hi hF
    obtain ⟨h1, h2⟩ := idx_drop vals i (by omega)
    simp only [Set.sorted.Add.loop1, h1, h2, MSet.add, Outcome.ok_bind, Outcome.pure_eq, Outcome.bind_assoc, Outcome.map_bind]
    refine le_bind_of_map (add_le_so s vals[i] F (by omega)) fun s1 hx _ => ?_
    have hl := (add1_len hx).1
    simp only [toM_so_len] at hl
    have := ih (i + 1) s1 (by omega) (by omega)
    rwa [show ((i + 1 : Nat) : Int) = (i : Int) + 1 by omega] at this

theorem Add_le_so (s : Set.sorted α) (vals : Array α) (F : Nat) (hF : s.members.size + vals.size + 1 ≤ F) :
    (toM_so s).add vals.toList ≼ (Set.sorted.Add F s vals).map toM_so := by
  have := Add_loop_so vals F vals.size 0 s (by omega) hF
  simp only [Int.natCast_zero, List.drop_zero] at this
  simp only [Set.sorted.Add, Outcome.bind_assoc, Outcome.pure_eq]
  refine this.trans_eq ?_
  cases Set.sorted.Add.loop1 F vals vals.size 0 s <;> rfl

/-- one round of `Remove` -/
theorem remove1_le_so (s : Set.sorted α) (v : α) (F : Nat) (hF : s.members.size + 1 ≤ F) :
    (toM_so s).remove1 v ≼
      (Set.sorted.find F s v >>= fun i =>
        if (i != -1) = true then
          Go.slice s.members 0 i >>= fun t2 => Go.slice s.members (i + 1) (s.members.size : Int) >>= fun t3 =>
            Outcome.ok (toM_so { s with members := t2 ++ t3 })
        else Outcome.ok (toM_so s)) := by
  simp only [MSet.remove1]
  refine bind_le' (find_le_so s v F hF) fun j _ => ?_
  by_cases hj : j = -1
  · subst hj; simp
  · have hj' : (j != -1) = true := by simp [bne, hj]
    simp only [hj, hj', ne_eq, not_false_eq_true, if_true, Go.slice, toM_so_len]
    by_cases hr : 0 ≤ j ∧ j + 1 ≤ (s.members.size : Int)
    · obtain ⟨n, rfl⟩ : ∃ n : Nat, j = (n : Int) := ⟨j.toNat, by omega⟩
      have c1 : (0 : Int) ≤ 0 ∧ (0 : Int) ≤ (n : Int) ∧ (n : Int) ≤ (s.members.size : Int) := by omega
      have c2 : (0 : Int) ≤ (n : Int) + 1 ∧ (n : Int) + 1 ≤ (s.members.size : Int) ∧
          (s.members.size : Int) ≤ (s.members.size : Int) := by omega
      simp only [hr, c1, c2, and_self, if_true, Outcome.ok_bind, Int.toNat_natCast, Int.toNat_zero, Outcome.pure_eq]
      rw [show ((n : Int) + 1).toNat = n + 1 by omega]
      simp only [toM_so, toList_removeAt _ _ (show n + 1 ≤ s.members.size by omega)]
      exact Outcome.le_refl _
    · simp only [hr, if_false, Outcome.panic_le]
      by_cases h0 : 0 ≤ j ∧ j ≤ (s.members.size : Int)
      · have c1 : (0 : Int) ≤ 0 ∧ (0 : Int) ≤ j ∧ j ≤ (s.members.size : Int) := ⟨Int.le_refl 0, h0.1, h0.2⟩
        have c2 : ¬ ((0 : Int) ≤ j + 1 ∧ j + 1 ≤ (s.members.size : Int)) := by omega
        simp [c1, c2]
      · simp [h0]

theorem Remove_loop_so (vals : Array α) (F : Nat) : ∀ (k i : Nat) (s : Set.sorted α), i + k = vals.size →
    s.members.size + 1 ≤ F →
    (toM_so s).remove (vals.toList.drop i) ≼ (Set.sorted.Remove.loop1 F vals k (i : Int) s).map toM_so := by
  intro k
  induction k with
  | zero => intro i s hi _; simp [Set.sorted.Remove.loop1, List.drop_eq_nil_of_le, ← hi, MSet.remove]
  | succ k ih =>
    intro i s hi hF
    obtain ⟨h1, h2⟩ := idx_drop vals i (by omega)
    simp only [Set.sorted.Remove.loop1, h1, h2, MSet.remove, Outcome.ok_bind, Outcome.pure_eq, Outcome.bind_assoc, Outcome.map_bind]
    have h1r := remove1_le_so s vals[i] F hF
    -- the generated round, followed by the rest of the loop
    have key : ∀ (x : Outcome (MSet α)), x ≼ (Set.sorted.find F s vals[i] >>= fun i_1 =>
          if (i_1 != -1) = true then
            Go.slice s.members 0 i_1 >>= fun t2 => Go.slice s.members (i_1 + 1) (s.members.size : Int) >>= fun t3 =>
              Outcome.ok (toM_so { s with members := t2 ++ t3 })
          else Outcome.ok (toM_so s)) →
        x = (toM_so s).remove1 vals[i] →
        (x >>= fun s1 => MSet.remove s1 (List.drop (i + 1) vals.toList)) ≼
          (Set.sorted.find F s vals[i] >>= fun i_1 =>
            (if (i_1 != -1) = true then
              Go.slice s.members 0 i_1 >>= fun t2 => Go.slice s.members (i_1 + 1) (s.members.size : Int) >>= fun t3 =>
                Outcome.ok ({ s with members := t2 ++ t3 } : Set.sorted α)
            else Outcome.ok s) >>= fun s1 => (Set.sorted.Remove.loop1 F vals k ((i : Int) + 1) s1).map toM_so) := by
      intro x hx hxe
      cases hf : Set.sorted.find F s vals[i] with
      | ok j =>
        rw [hf] at hx
        simp only [Outcome.ok_bind] at hx ⊢
        by_cases hj : (j != -1) = true
        · simp only [hj, if_true] at hx ⊢
          cases h2s : Go.slice s.members 0 j with
          | ok t2 =>
            rw [h2s] at hx
            simp only [Outcome.ok_bind] at hx ⊢
            cases h3s : Go.slice s.members (j + 1) (s.members.size : Int) with
            | ok t3 =>
              rw [h3s] at hx
              simp only [Outcome.ok_bind] at hx ⊢
              rcases hx with hx | hx
              · simp [hx]
              · rw [hx]
                simp only [Outcome.ok_bind]
                have hl := (remove1_len (hxe ▸ hx)).1
                simp only [toM_so_len] at hl
                have hl' : (t2 ++ t3).size ≤ s.members.size := hl
                have := ih (i + 1) { s with members := t2 ++ t3 } (by omega) (by show (t2 ++ t3).size + 1 ≤ F; omega)
                rwa [show ((i + 1 : Nat) : Int) = (i : Int) + 1 by omega] at this
            | panic => rw [h3s] at hx; simp only [Outcome.panic_bind] at hx ⊢; rcases hx with hx | hx <;> (rw [hx]; simp)
            | diverge => rw [h3s] at hx; simp only [Outcome.diverge_bind] at hx ⊢; rcases hx with hx | hx <;> (rw [hx]; simp)
          | panic => rw [h2s] at hx; simp only [Outcome.panic_bind] at hx ⊢; rcases hx with hx | hx <;> (rw [hx]; simp)
          | diverge => rw [h2s] at hx; simp only [Outcome.diverge_bind] at hx ⊢; rcases hx with hx | hx <;> (rw [hx]; simp)
        · have hj' : (j != -1) = false := by simpa using hj
          simp only [hj', Bool.false_eq_true, if_false, Outcome.ok_bind] at hx ⊢
          rcases hx with hx | hx
          · simp [hx]
          · rw [hx]
            simp only [Outcome.ok_bind]
            have := ih (i + 1) s (by omega) hF
            rwa [show ((i + 1 : Nat) : Int) = (i : Int) + 1 by omega] at this
      | panic => rw [hf] at hx; simp only [Outcome.panic_bind] at hx ⊢; rcases hx with hx | hx <;> (rw [hx]; simp)
      | diverge => rw [hf] at hx; simp only [Outcome.diverge_bind] at hx ⊢; rcases hx with hx | hx <;> (rw [hx]; simp)
    refine (key _ h1r rfl).trans_eq ?_
    cases Set.sorted.find F s vals[i] with
    | ok a =>
      simp only [Outcome.ok_bind]
      by_cases ha : (a != -1) = true
      · simp only [ha, if_true, Outcome.bind_assoc, Outcome.ok_bind, Outcome.map_bind]
      · have ha' : (a != -1) = false := by simpa using ha
        simp only [ha', Bool.false_eq_true, if_false, Outcome.ok_bind]
    | panic => rfl
    | diverge => rfl

theorem Remove_le_so (s : Set.sorted α) (vals : Array α) (F : Nat) (hF : s.members.size + 1 ≤ F) :
    (toM_so s).remove vals.toList ≼ (Set.sorted.Remove F s vals).map toM_so := by
  have := Remove_loop_so vals F vals.size 0 s (by omega) hF
  simp only [Int.natCast_zero, List.drop_zero] at this
  simp only [Set.sorted.Remove, Outcome.bind_assoc, Outcome.pure_eq]
  refine this.trans_eq ?_
  cases Set.sorted.Remove.loop1 F vals vals.size 0 s <;> rfl

/-! `sorted`: the methods that take or return other sets, with fuel -/

theorem all_so (sh : Shuffle σ) (s : Set.sorted α) (g : σ) : (toM_so s).all sh g = .ok (s.members.toList, g) := rfl

/-- `for _, m := range a.members { if !b.Contains(m) { return false } }`: the loops of `Equal`, `IsSubset`, `IsSuperset` -/
theorem containsEach_le_so (b : Set.sorted α) (F : Nat) (hF : b.members.size + 1 ≤ F) (ms : Array α)
    (loop : Nat → Int → Outcome (Go.Ctl Unit Bool))
    (hloop0 : ∀ i, loop 0 i = .ok (.next ()))
    (hloopS : ∀ k i, loop (k + 1) i = (Go.idx ms i >>= fun m => Set.sorted.Contains F b #[m] >>= fun t =>
        if (!t) = true then .ok (.ret false) else loop k (i + 1))) :
    ∀ (k i : Nat), i + k = ms.size →
    containsEach (toM_so b) (ms.toList.drop i) ≼ (loop k (i : Int)).map foundFalse := by
  intro k
  induction k with
  | zero => intro i hi; simp [hloop0, foundFalse, List.drop_eq_nil_of_le, ← hi, containsEach]
  | succ k ih =>
    intro i hi
    obtain ⟨h1, h2⟩ := idx_drop ms i (by omega)
    have := ih (i + 1) (by omega)
    rw [show ((i + 1 : Nat) : Int) = (i : Int) + 1 by omega] at this
    simp only [hloopS, h1, h2, containsEach, Outcome.ok_bind, Outcome.pure_eq, Outcome.bind_assoc, Outcome.map_bind]
    have hc := Contains_le_so b #[ms[i]] F hF
    have hl : (#[ms[i]] : Array α).toList = [ms[i]] := rfl
    rw [hl] at hc
    refine bind_le' hc fun t _ => ?_
    cases t <;> simp [foundFalse, this]

theorem Equal_le_so (s rhs : Set.sorted α) (F : Nat) (hF : rhs.members.size + 1 ≤ F) :
    (toM_so s).equal (toM_so rhs) ≼ Set.sorted.Equal F s rhs := by
  have := containsEach_le_so rhs F hF s.members (Set.sorted.Equal.loop1 F s rhs)
    (fun i => by simp [Set.sorted.Equal.loop1])
    (fun k i => by simp only [Set.sorted.Equal.loop1, Outcome.bind_assoc, Outcome.pure_eq]) s.members.size 0 (by omega)
  simp only [Int.natCast_zero, List.drop_zero] at this
  simp only [Set.sorted.Equal, MSet.equal, Size_eq_so]
  by_cases hs : (toM_so s).size = (toM_so rhs).size
  · have hb : ((toM_so s).size != (toM_so rhs).size) = false := by simp [hs]
    simp only [hb, Bool.false_eq_true, if_false, hs, ne_eq, not_true_eq_false]
    have e : (toM_so s).members = s.members.toList := rfl
    rw [e]
    refine this.trans_eq ?_
    cases Set.sorted.Equal.loop1 F s rhs s.members.size 0 with
    | ok c => cases c <;> simp [foundFalse]
    | panic => simp
    | diverge => simp
  · have hb : ((toM_so s).size != (toM_so rhs).size) = true := by simp [bne, hs]
    simp [hb, hs]

theorem IsSubset_le_so (sh : Shuffle σ) (s superset : Set.sorted α) (g : σ) (F : Nat) (hF : superset.members.size + 1 ≤ F) :
    (toM_so s).isSubset sh (toM_so superset) g ≼ (Set.sorted.IsSubset F s superset).map (fun b => (b, g)) := by
  have := containsEach_le_so superset F hF s.members (Set.sorted.IsSubset.loop1 F s superset)
    (fun i => by simp [Set.sorted.IsSubset.loop1])
    (fun k i => by simp only [Set.sorted.IsSubset.loop1, Outcome.bind_assoc, Outcome.pure_eq]) s.members.size 0 (by omega)
  simp only [Int.natCast_zero, List.drop_zero] at this
  simp only [MSet.isSubset, all_so, Outcome.ok_bind, Set.sorted.IsSubset, Outcome.pure_eq, Outcome.map_bind]
  refine (bind_le' this fun b _ => Outcome.le_refl _).trans_eq ?_
  cases Set.sorted.IsSubset.loop1 F s superset s.members.size 0 with
  | ok c => cases c <;> simp [foundFalse]
  | panic => simp
  | diverge => simp

theorem IsSuperset_le_so (sh : Shuffle σ) (s subset : Set.sorted α) (g : σ) (F : Nat) (hF : s.members.size + 1 ≤ F) :
    (toM_so s).isSuperset sh (toM_so subset) g ≼ (Set.sorted.IsSuperset F s subset).map (fun b => (b, g)) := by
  have := containsEach_le_so s F hF subset.members (Set.sorted.IsSuperset.loop1 F s subset)
    (fun i => by simp [Set.sorted.IsSuperset.loop1])
    (fun k i => by simp only [Set.sorted.IsSuperset.loop1, Outcome.bind_assoc, Outcome.pure_eq]) subset.members.size 0 (by omega)
  simp only [Int.natCast_zero, List.drop_zero] at this
  simp only [MSet.isSuperset, all_so, Outcome.ok_bind, Set.sorted.IsSuperset, Outcome.pure_eq, Outcome.map_bind]
  refine (bind_le' this fun b _ => Outcome.le_refl _).trans_eq ?_
  cases Set.sorted.IsSuperset.loop1 F s subset subset.members.size 0 with
  | ok c => cases c <;> simp [foundFalse]
  | panic => simp
  | diverge => simp

/-- `t.Add(m)` of one value, and the length afterwards -/
theorem add_one_le_so (t : Set.sorted α) (m : α) (F : Nat) (hF : t.members.size + 2 ≤ F) :
    (toM_so t).add [m] ≼ (Set.sorted.Add F t #[m]).map toM_so :=
  Add_le_so t #[m] F (by simpa using hF)

theorem add_one_len {t t' : MSet α} {m : α} (h : t.add [m] = .ok t') : t'.members.length ≤ t.members.length + 1 :=
  (add_len [m] t t' h).1

theorem SelectMatch_loop_so (s : Set.sorted α) (p : α → Bool) (F : Nat) : ∀ (k i : Nat) (matched : Set.sorted α),
    i + k = s.members.size → matched.members.size + k + 1 ≤ F →
    selectLoop p (toM_so matched) (s.members.toList.drop i) ≼
      (Set.sorted.SelectMatch.loop1 F s p k (i : Int) matched).map toM_so := by
  intro k
  induction k with
  | zero => intro i matched hi _; simp [Set.sorted.SelectMatch.loop1, List.drop_eq_nil_of_le, ← hi, selectLoop]
  | succ k ih =>
    intro i matched hi hF
    obtain ⟨h1, h2⟩ := idx_drop s.members i (by omega)
    simp only [Set.sorted.SelectMatch.loop1, h1, h2, selectLoop, Outcome.ok_bind, Outcome.pure_eq, Outcome.bind_assoc]
    by_cases hp : p s.members[i] = true
    · simp only [hp, if_true, Outcome.map_bind]
      refine le_bind_of_map (add_one_le_so matched s.members[i] F (by omega)) fun m1 hx _ => ?_
      have hl := add_one_len hx
      simp only [toM_so_len] at hl
      have := ih (i + 1) m1 (by omega) (by omega)
      rwa [show ((i + 1 : Nat) : Int) = (i : Int) + 1 by omega] at this
    · have hp' : p s.members[i] = false := by simpa using hp
      have := ih (i + 1) matched (by omega) (by omega)
      rw [show ((i + 1 : Nat) : Int) = (i : Int) + 1 by omega] at this
      simpa [hp'] using this

theorem CloneEmpty_size_so {s t : Set.sorted α} (h : Set.sorted.CloneEmpty s = .ok t) : t.members.size = 0 := by
  have : Go.make (default : α) 0 = .ok #[] := by simp [Go.make]
  simp only [Set.sorted.CloneEmpty, this, Outcome.ok_bind, Outcome.pure_eq, Outcome.ok.injEq] at h
  subst h; rfl

/-- `SelectMatch` with any fuel `≥ len(members) + 1` -/
theorem SelectMatch_le_so (s : Set.sorted α) (p : α → Bool) (F : Nat) (hF : s.members.size + 1 ≤ F) :
    (toM_so s).selectMatch p ≼ (Set.sorted.SelectMatch F s p).map toM_so := by
  simp only [Set.sorted.SelectMatch, MSet.selectMatch, Outcome.bind_assoc, Outcome.pure_eq, Outcome.map_bind]
  have hc := CloneEmpty_eq_so s
  cases h : Set.sorted.CloneEmpty s with
  | ok m0 =>
    rw [h] at hc
    simp only [Outcome.map_ok, Outcome.ok.injEq] at hc
    have h0 := CloneEmpty_size_so h
    have := SelectMatch_loop_so s p F s.members.size 0 m0 (by omega) (by omega)
    simp only [Int.natCast_zero, List.drop_zero] at this
    have e : (toM_so s).members = s.members.toList := rfl
    simp only [Outcome.ok_bind, e, ← hc]
    refine this.trans_eq ?_
    cases Set.sorted.SelectMatch.loop1 F s p s.members.size 0 m0 <;> rfl
  | panic => rw [h] at hc; cases hc
  | diverge => rw [h] at hc; cases hc

def toM2_so (r : Set.sorted α × Set.sorted α) : MSet α × MSet α := (toM_so r.1, toM_so r.2)

theorem PartitionMatch_loop_so (s : Set.sorted α) (p : α → Bool) (F : Nat) :
    ∀ (k i : Nat) (matched unmatched : Set.sorted α),
    i + k = s.members.size → matched.members.size + k + 1 ≤ F → unmatched.members.size + k + 1 ≤ F →
    partitionLoop p (toM_so matched) (toM_so unmatched) (s.members.toList.drop i) ≼
      (Set.sorted.PartitionMatch.loop1 F s p k (i : Int) matched unmatched).map toM2_so := by
  intro k
  induction k with
  | zero =>
    intro i matched unmatched hi _ _
    simp [Set.sorted.PartitionMatch.loop1, List.drop_eq_nil_of_le, ← hi, partitionLoop, toM2_so]
  | succ k ih =>
    intro i matched unmatched hi hF1 hF2
    obtain ⟨h1, h2⟩ := idx_drop s.members i (by omega)
    simp only [Set.sorted.PartitionMatch.loop1, h1, h2, partitionLoop, Outcome.ok_bind, Outcome.pure_eq, Outcome.bind_assoc]
    by_cases hp : p s.members[i] = true
    · simp only [hp, if_true, Outcome.map_bind]
      refine le_bind_of_map (add_one_le_so matched s.members[i] F (by omega)) fun m1 hx _ => ?_
      have hl := add_one_len hx
      simp only [toM_so_len] at hl
      have := ih (i + 1) m1 unmatched (by omega) (by omega) (by omega)
      rwa [show ((i + 1 : Nat) : Int) = (i : Int) + 1 by omega] at this
    · have hp' : p s.members[i] = false := by simpa using hp
      simp only [hp', Bool.false_eq_true, if_false, Outcome.map_bind]
      refine le_bind_of_map (add_one_le_so unmatched s.members[i] F (by omega)) fun m1 hx _ => ?_
      have hl := add_one_len hx
      simp only [toM_so_len] at hl
      have := ih (i + 1) matched m1 (by omega) (by omega) (by omega)
      rwa [show ((i + 1 : Nat) : Int) = (i : Int) + 1 by omega] at this

/-- `PartitionMatch` with any fuel `≥ len(members) + 1` -/
theorem PartitionMatch_le_so (s : Set.sorted α) (p : α → Bool) (F : Nat) (hF : s.members.size + 1 ≤ F) :
    (toM_so s).partitionMatch p ≼ (Set.sorted.PartitionMatch F s p).map toM2_so := by
  simp only [Set.sorted.PartitionMatch, MSet.partitionMatch, Outcome.bind_assoc, Outcome.pure_eq, Outcome.map_bind]
  have hc := CloneEmpty_eq_so s
  cases h : Set.sorted.CloneEmpty s with
  | ok m0 =>
    rw [h] at hc
    simp only [Outcome.map_ok, Outcome.ok.injEq] at hc
    have h0 := CloneEmpty_size_so h
    have := PartitionMatch_loop_so s p F s.members.size 0 m0 m0 (by omega) (by omega) (by omega)
    simp only [Int.natCast_zero, List.drop_zero] at this
    have e : (toM_so s).members = s.members.toList := rfl
    simp only [Outcome.ok_bind, e, ← hc]
    refine this.trans_eq ?_
    cases Set.sorted.PartitionMatch.loop1 F s p s.members.size 0 m0 m0 <;> rfl
  | panic => rw [h] at hc; cases hc
  | diverge => rw [h] at hc; cases hc

/-! `Union`, `Difference` -/

theorem addEach_len : ∀ (ms : List α) (t t' : MSet α), addEach t ms = .ok t' →
    t'.members.length ≤ t.members.length + ms.length := by
  intro ms
  induction ms with
  | nil => intro t t' h; simp only [addEach] at h; cases h; simp
  | cons m ms ih =>
    intro t t' h
    simp only [addEach] at h
    obtain ⟨t1, h1, h2⟩ := bind_eq_ok.1 h
    have l1 := add_one_len h1
    have l2 := ih t1 t' h2
    simp only [List.length_cons]; omega

theorem removeEach_len : ∀ (ms : List α) (t t' : MSet α), removeEach t ms = .ok t' →
    t'.members.length ≤ t.members.length := by
  intro ms
  induction ms with
  | nil => intro t t' h; simp only [removeEach] at h; cases h; simp
  | cons m ms ih =>
    intro t t' h
    simp only [removeEach] at h
    obtain ⟨t1, h1, h2⟩ := bind_eq_ok.1 h
    have l1 := (remove_len [m] t t1 h1).1
    have l2 := ih t1 t' h2
    omega

theorem Union_loop2_so (set : Set.sorted α) (F : Nat) : ∀ (k i : Nat) (t : Set.sorted α), i + k = set.members.size →
    t.members.size + k + 1 ≤ F →
    addEach (toM_so t) (set.members.toList.drop i) ≼ (Set.sorted.Union.loop2 F set k (i : Int) t).map toM_so := by
  intro k
  induction k with
  | zero => intro i t hi _; simp [Set.sorted.Union.loop2, List.drop_eq_nil_of_le, ← hi, addEach]
  | succ k ih =>
    intro i t hi hF
    obtain ⟨h1, h2⟩ := idx_drop set.members i (by omega)
    simp only [Set.sorted.Union.loop2, h1, h2, addEach, Outcome.ok_bind, Outcome.pure_eq, Outcome.bind_assoc, Outcome.map_bind]
    refine le_bind_of_map (add_one_le_so t set.members[i] F (by omega)) fun t1 hx _ => ?_
    have hl := add_one_len hx
    simp only [toM_so_len] at hl
    have := ih (i + 1) t1 (by omega) (by omega)
    rwa [show ((i + 1 : Nat) : Int) = (i : Int) + 1 by omega] at this

/-- the number of members of the operands from the `i`-th on -/
def total (sets : Array (Set.sorted α)) (i : Nat) : Nat := ((sets.toList.drop i).map (fun x => x.members.size)).sum

theorem total_step (sets : Array (Set.sorted α)) (i : Nat) (h : i < sets.size) :
    total sets i = sets[i].members.size + total sets (i + 1) := by
  simp only [total, (idx_drop' sets i h).2, List.map_cons, List.sum_cons]

theorem Union_loop1_so (sh : Shuffle σ) (g : σ) (sets : Array (Set.sorted α)) (F : Nat) :
    ∀ (k i : Nat) (t : Set.sorted α), i + k = sets.size → t.members.size + total sets i + 1 ≤ F →
    unionLoop sh (toM_so t) ((sets.toList.drop i).map toM_so) g ≼
      (Set.sorted.Union.loop1 F sets k (i : Int) t).map (fun t => (toM_so t, g)) := by
  intro k
  induction k with
  | zero => intro i t hi _; simp [Set.sorted.Union.loop1, List.drop_eq_nil_of_le, ← hi, unionLoop]
  | succ k ih =>
    intro i t hi hF
    obtain ⟨h1, h2⟩ := idx_drop' sets i (by omega)
    rw [total_step sets i (by omega)] at hF
    simp only [Set.sorted.Union.loop1, h1, h2, List.map_cons, unionLoop, all_so, Outcome.ok_bind, Outcome.pure_eq,
      Outcome.bind_assoc, Outcome.map_bind]
    have h2' := Union_loop2_so sets[i] F sets[i].members.size 0 t (by omega) (by omega)
    simp only [Int.natCast_zero, List.drop_zero] at h2'
    refine le_bind_of_map h2' fun t1 hx _ => ?_
    have hl := addEach_len _ _ _ hx
    simp only [toM_so_len, Array.length_toList] at hl
    have := ih (i + 1) t1 (by omega) (by omega)
    rwa [show ((i + 1 : Nat) : Int) = (i : Int) + 1 by omega] at this

theorem Clone_size_so {s t : Set.sorted α} (h : Set.sorted.Clone s = .ok t) : t.members.size = s.members.size := by
  have hc := Clone_eq_so s
  rw [h] at hc
  simp only [Outcome.map_ok, Outcome.ok.injEq, MSet.clone] at hc
  have := congrArg (fun m => m.members.length) hc
  simpa [toM_so] using this

/-- `Union` with any fuel `≥ len(members) + Σ len(operand members) + 1` -/
theorem Union_le_so (sh : Shuffle σ) (s : Set.sorted α) (sets : Array (Set.sorted α)) (g : σ) (F : Nat)
    (hF : s.members.size + total sets 0 + 1 ≤ F) :
    (toM_so s).union sh (sets.toList.map toM_so) g ≼ (Set.sorted.Union F s sets).map (fun t => (toM_so t, g)) := by
  simp only [MSet.union, Set.sorted.Union, Outcome.bind_assoc, Outcome.pure_eq, Outcome.map_bind]
  have hc := Clone_eq_so s
  cases h : Set.sorted.Clone s with
  | ok t0 =>
    rw [h] at hc
    simp only [Outcome.map_ok, Outcome.ok.injEq] at hc
    have h0 := Clone_size_so h
    have := Union_loop1_so sh g sets F sets.size 0 t0 (by omega) (by omega)
    simp only [Int.natCast_zero, List.drop_zero] at this
    simp only [Outcome.ok_bind, ← hc]
    refine this.trans_eq ?_
    cases Set.sorted.Union.loop1 F sets sets.size 0 t0 <;> rfl
  | panic => rw [h] at hc; cases hc
  | diverge => rw [h] at hc; cases hc

theorem Difference_loop2_so (set : Set.sorted α) (F : Nat) : ∀ (k i : Nat) (t : Set.sorted α), i + k = set.members.size →
    t.members.size + 1 ≤ F →
    removeEach (toM_so t) (set.members.toList.drop i) ≼ (Set.sorted.Difference.loop2 F set k (i : Int) t).map toM_so := by
  intro k
  induction k with
  | zero => intro i t hi _; simp [Set.sorted.Difference.loop2, List.drop_eq_nil_of_le, ← hi, removeEach]
  | succ k ih =>
    intro i t hi hF
    obtain ⟨h1, h2⟩ := idx_drop set.members i (by omega)
    simp only [Set.sorted.Difference.loop2, h1, h2, removeEach, Outcome.ok_bind, Outcome.pure_eq, Outcome.bind_assoc, Outcome.map_bind]
    have hr := Remove_le_so t #[set.members[i]] F hF
    have hl0 : (#[set.members[i]] : Array α).toList = [set.members[i]] := rfl
    rw [hl0] at hr
    refine le_bind_of_map hr fun t1 hx _ => ?_
    have hl := (remove_len _ _ _ hx).1
    simp only [toM_so_len] at hl
    have := ih (i + 1) t1 (by omega) (by omega)
    rwa [show ((i + 1 : Nat) : Int) = (i : Int) + 1 by omega] at this

theorem Difference_loop1_so (sh : Shuffle σ) (g : σ) (sets : Array (Set.sorted α)) (F : Nat) :
    ∀ (k i : Nat) (t : Set.sorted α), i + k = sets.size → t.members.size + 1 ≤ F →
    diffLoop sh (toM_so t) ((sets.toList.drop i).map toM_so) g ≼
      (Set.sorted.Difference.loop1 F sets k (i : Int) t).map (fun t => (toM_so t, g)) := by
  intro k
  induction k with
  | zero => intro i t hi _; simp [Set.sorted.Difference.loop1, List.drop_eq_nil_of_le, ← hi, diffLoop]
  | succ k ih =>
    intro i t hi hF
    obtain ⟨h1, h2⟩ := idx_drop' sets i (by omega)
    simp only [Set.sorted.Difference.loop1, h1, h2, List.map_cons, diffLoop, all_so, Outcome.ok_bind, Outcome.pure_eq,
      Outcome.bind_assoc, Outcome.map_bind]
    have h2' := Difference_loop2_so sets[i] F sets[i].members.size 0 t (by omega) hF
    simp only [Int.natCast_zero, List.drop_zero] at h2'
    refine le_bind_of_map h2' fun t1 hx _ => ?_
    have hl := removeEach_len _ _ _ hx
    simp only [toM_so_len] at hl
    have := ih (i + 1) t1 (by omega) (by omega)
    rwa [show ((i + 1 : Nat) : Int) = (i : Int) + 1 by omega] at this

/-- `Difference` with any fuel `≥ len(members) + 1` -/
theorem Difference_le_so (sh : Shuffle σ) (s : Set.sorted α) (sets : Array (Set.sorted α)) (g : σ) (F : Nat)
    (hF : s.members.size + 1 ≤ F) :
    (toM_so s).difference sh (sets.toList.map toM_so) g ≼ (Set.sorted.Difference F s sets).map (fun t => (toM_so t, g)) := by
  simp only [MSet.difference, Set.sorted.Difference, Outcome.bind_assoc, Outcome.pure_eq, Outcome.map_bind]
  have hc := Clone_eq_so s
  cases h : Set.sorted.Clone s with
  | ok t0 =>
    rw [h] at hc
    simp only [Outcome.map_ok, Outcome.ok.injEq] at hc
    have h0 := Clone_size_so h
    have := Difference_loop1_so sh g sets F sets.size 0 t0 (by omega) (by omega)
    simp only [Int.natCast_zero, List.drop_zero] at this
    simp only [Outcome.ok_bind, ← hc]
    refine this.trans_eq ?_
    cases Set.sorted.Difference.loop1 F sets sets.size 0 t0 <;> rfl
  | panic => rw [h] at hc; cases hc
  | diverge => rw [h] at hc; cases hc

end AlgoVerif.C16.Gen
