import AlgoVerif.Proofs.C07Insertion
/-!
# C07 — Shell sort (`sort/shell.go`)

Every pass only swaps (so the result is a permutation); the gap sequence `1, 4, 13, …` is walked
down by `h /= 3` exactly to `1`, and the pass with `h = 1` *is* insertion sort, which sorts whatever
the earlier passes left.
-/
namespace AlgoVerif.C07
open AlgoVerif

variable {α : Type}

/-- the gaps `1, 4, 13, 40, …` -/
inductive IsGap : Nat → Prop where
  | one : IsGap 1
  | step {h : Nat} : IsGap h → IsGap (3*h + 1)

theorem IsGap.pos {h : Nat} (g : IsGap h) : 1 ≤ h := by
  cases g <;> omega

theorem shellGap_spec (n : Nat) :
    ∀ (f : Nat) (h : Nat), IsGap h → (h = 1 ∨ h ≤ n) → n / 3 - h < f →
      ∃ h' : Nat, shellGap (n : Int) f (h : Int) = .ok (h' : Int) ∧ IsGap h' ∧ (h' = 1 ∨ h' ≤ n) := by
  intro f
  induction f with
  | zero => intro h _ _ hf; omega
  | succ f ih =>
    intro h g hb hf
    unfold shellGap
    by_cases hlt : h < n / 3
    · have h1 : (h : Int) < (n : Int) / 3 := by omega
      simp only [h1, ↓reduceIte]
      have e : (3 * (h : Int) + 1) = ((3 * h + 1 : Nat) : Int) := by omega
      rw [e]
      exact ih (3*h+1) (IsGap.step g) (Or.inr (by omega)) (by omega)
    · have h1 : ¬ (h : Int) < (n : Int) / 3 := by omega
      simp only [h1, ↓reduceIte]
      exact ⟨h, rfl, g, hb⟩

/-- a gapped insertion only swaps -/
theorem shellIns_perm {cmp : α → α → Int} (h : Nat) (hh : 1 ≤ h) :
    ∀ (f : Nat) (j : Nat) (a : Array α), j < a.size → j < f →
      ∃ a', shellIns cmp (h : Int) f (j : Int) a = .ok a' ∧ a'.size = a.size ∧ a'.Perm a := by
  intro f
  induction f with
  | zero => intro j a _ hf; omega
  | succ f ih =>
    intro j a hj hf
    unfold shellIns
    by_cases hge : h ≤ j
    · have h1 : (j : Int) ≥ (h : Int) := by omega
      have e1 : ((j : Int) - (h : Int)) = ((j - h : Nat) : Int) := by omega
      simp only [h1, ↓reduceIte, e1]
      rw [get_nat hj, get_nat (by omega : j - h < a.size)]
      simp only [ok_bind]
      by_cases hc : cmp a[j] (a[j-h]'(by omega)) < 0
      · simp only [hc, ↓reduceIte]
        rw [swap_ok (by omega) (by omega) (by omega) (by omega)]
        simp only [ok_bind, Int.toNat_natCast]
        obtain ⟨a', g1, g2, g3⟩ := ih (j-h) (a.swap j (j-h) (by omega) (by omega)) (by simp; omega) (by omega)
        exact ⟨a', g1, by simpa using g2, g3.trans (Array.swap_perm _ _)⟩
      · simp only [hc, ↓reduceIte]
        exact ⟨a, rfl, rfl, Array.Perm.refl _⟩
    · have h1 : ¬ (j : Int) ≥ (h : Int) := by omega
      simp only [h1, ↓reduceIte]
      exact ⟨a, rfl, rfl, Array.Perm.refl _⟩

theorem shellPass_perm {cmp : α → α → Int} (h : Nat) (hh : 1 ≤ h) :
    ∀ (f : Nat) (i : Nat) (a : Array α), a.size - i < f →
      ∃ a', shellPass cmp (h : Int) (a.size : Int) f (i : Int) a = .ok a' ∧ a'.size = a.size ∧ a'.Perm a := by
  intro f
  induction f with
  | zero => intro i a hf; omega
  | succ f ih =>
    intro i a hf
    unfold shellPass
    by_cases hlt : i < a.size
    · have h1 : (i : Int) < a.size := by omega
      simp only [h1, ↓reduceIte]
      obtain ⟨a1, g1, g2, g3⟩ := shellIns_perm (cmp := cmp) h hh (Int.toNat (a.size : Int) + 1) i a hlt (by omega)
      rw [g1]
      simp only [ok_bind]
      have e : ((i : Int) + 1) = ((i + 1 : Nat) : Int) := by omega
      rw [e, ← g2]
      obtain ⟨a2, k1, k2, k3⟩ := ih (i+1) a1 (by omega)
      exact ⟨a2, k1, by omega, k3.trans g3⟩
    · have h1 : ¬ (i : Int) < a.size := by omega
      simp only [h1, ↓reduceIte]
      exact ⟨a, rfl, rfl, Array.Perm.refl _⟩

/-- with gap 1 the gapped insertion is `insInner` -/
theorem shellIns_one {cmp : α → α → Int} :
    ∀ (f : Nat) (j : Int) (a : Array α), shellIns cmp 1 f j a = insInner cmp f j a := by
  intro f
  induction f with
  | zero => intro j a; rfl
  | succ f ih =>
    intro j a
    unfold shellIns insInner
    by_cases hj : j ≥ 1
    · have : j > 0 := by omega
      simp only [hj, this, ↓reduceIte, ih]
    · have : ¬ j > 0 := by omega
      simp only [hj, this, ↓reduceIte]

theorem shellPass_one {cmp : α → α → Int} (n : Int) :
    ∀ (f : Nat) (i : Int) (a : Array α), shellPass cmp 1 n f i a = insLoop cmp n f i a := by
  intro f
  induction f with
  | zero => intro i a; rfl
  | succ f ih =>
    intro i a
    unfold shellPass insLoop
    simp only [shellIns_one, ih]

theorem shellLoop_spec {cmp : α → α → Int} (tp : TotalPreorder cmp) :
    ∀ (f : Nat) (h : Nat) (a : Array α), IsGap h → h < f →
      ∃ a', shellLoop cmp (a.size : Int) f (h : Int) a = .ok a' ∧ a'.Perm a ∧ SortedSeg cmp a' 0 a'.size := by
  intro f
  induction f with
  | zero => intro h a _ hf; omega
  | succ f ih =>
    intro h a g hf
    unfold shellLoop
    have hpos := g.pos
    have h1 : (h : Int) ≥ 1 := by omega
    simp only [h1, ↓reduceIte]
    cases g with
    | one =>
      -- the last pass is insertion sort
      have e1 : ((1 : Nat) : Int) = 1 := rfl
      rw [e1, shellPass_one]
      by_cases hsz : 1 ≤ a.size
      · obtain ⟨a1, g1, g2, g3⟩ := insLoop_spec tp (Int.toNat (a.size : Int) + 1) 1 a hsz (by omega)
          (by intro p q _ _ hq; omega)
        have e2 : ((1 : Nat) : Int) = 1 := rfl
        rw [e2] at g1
        rw [g1]
        simp only [ok_bind]
        refine ⟨a1, ?_, g2, g3⟩
        cases f with
        | zero => omega
        | succ f => unfold shellLoop; simp
      · have hz : a.size = 0 := by omega
        have : insLoop cmp (a.size : Int) (Int.toNat (a.size : Int) + 1) 1 a = .ok a := by
          unfold insLoop; simp [hz]
        rw [this]
        simp only [ok_bind]
        refine ⟨a, ?_, Array.Perm.refl _, by intro p q _ _ hq; omega⟩
        cases f with
        | zero => omega
        | succ f => unfold shellLoop; simp
    | @step h' g' =>
      obtain ⟨a1, g1, g2, g3⟩ := shellPass_perm (cmp := cmp) (3*h'+1) (by omega) (Int.toNat (a.size : Int) + 1) (3*h'+1) a (by omega)
      rw [g1]
      simp only [ok_bind]
      have e : (((3 * h' + 1 : Nat) : Int) / 3) = ((h' : Nat) : Int) := by omega
      rw [e, ← g2]
      obtain ⟨a2, k1, k2, k3⟩ := ih h' a1 g' (by omega)
      exact ⟨a2, k1, k2.trans g3, k3⟩

theorem shell_spec {cmp : α → α → Int} (tp : TotalPreorder cmp) (a : Array α) :
    ∃ out, shell cmp a = .ok out ∧ IsSortOf cmp out a := by
  unfold shell
  obtain ⟨h, g1, g2, g3⟩ := shellGap_spec a.size (a.size + 1) 1 IsGap.one (Or.inl rfl) (by omega)
  have e : ((1 : Nat) : Int) = 1 := rfl
  rw [e] at g1
  simp only [g1, ok_bind]
  obtain ⟨out, k1, k2, k3⟩ := shellLoop_spec tp (a.size + 2) h a g2 (by omega)
  exact ⟨out, k1, isSortOf_of k3 k2⟩

end AlgoVerif.C07
