import AlgoVerif.Proofs.C01Query
/-!
# C01: `_traverse` with a stateful, stoppable visitor is a left-to-right scan of a listing
-/
namespace AlgoVerif.C01
open Tree

variable {K V σ : Type}

/-- visit the pairs from left to right until the visitor says stop -/
def foldUntil (visit : K → V → σ → Bool × σ) : List (K × V) → σ → Bool × σ
  | [], s => (true, s)
  | (k, v) :: xs, s =>
    match visit k v s with
    | (true, s') => foldUntil visit xs s'
    | (false, s') => (false, s')

theorem foldUntil_cons (visit : K → V → σ → Bool × σ) (k : K) (v : V) (xs : List (K × V)) :
    foldUntil visit ((k, v) :: xs) = andThen (visit k v) (foldUntil visit xs) := by
  funext s
  cases hv : visit k v s with
  | mk b s' => cases b <;> simp [foldUntil, andThen, hv]

theorem foldUntil_nil (visit : K → V → σ → Bool × σ) :
    foldUntil visit [] = fun s => (true, s) := by
  funext s; rfl

theorem andThen_assoc (f g h : σ → Bool × σ) : andThen (andThen f g) h = andThen f (andThen g h) := by
  funext s; simp only [andThen]
  rcases f s with ⟨_ | _, s'⟩ <;> simp

theorem andThen_true_left (g : σ → Bool × σ) : andThen (fun s => (true, s)) g = g := by
  funext s; simp [andThen]

theorem andThen_true_right (f : σ → Bool × σ) : andThen f (fun s => (true, s)) = f := by
  funext s; simp only [andThen]
  rcases f s with ⟨_ | _, s'⟩ <;> simp

theorem foldUntil_append (visit : K → V → σ → Bool × σ) (xs ys : List (K × V)) :
    foldUntil visit (xs ++ ys) = andThen (foldUntil visit xs) (foldUntil visit ys) := by
  induction xs with
  | nil => rw [List.nil_append, foldUntil_nil, andThen_true_left]
  | cons x xs ih =>
    obtain ⟨k, v⟩ := x
    rw [List.cons_append, foldUntil_cons, ih, foldUntil_cons, andThen_assoc]

/-- the order in which `_traverse` reaches the nodes -/
def listing : Order → Tree K V → List (K × V)
  | _, .nil => []
  | o, .node l k v _ _ _ r =>
    match o with
    | .vlr => (k, v) :: (listing o l ++ listing o r)
    | .vrl => (k, v) :: (listing o r ++ listing o l)
    | .lvr | .ascending => listing o l ++ (k, v) :: listing o r
    | .rvl | .descending => listing o r ++ (k, v) :: listing o l
    | .lrv => listing o l ++ (listing o r ++ [(k, v)])
    | .rlv => listing o r ++ (listing o l ++ [(k, v)])
    | .other => []

theorem traverse_eq (o : Order) (ho : o ≠ .other) (visit : K → V → σ → Bool × σ) :
    ∀ t : Tree K V, traverse o visit t = foldUntil visit (listing o t)
  | .nil => by simp only [traverse, listing, foldUntil_nil]
  | .node l k v s h c r => by
    have ihl := traverse_eq o ho visit l
    have ihr := traverse_eq o ho visit r
    cases o <;>
      simp only [traverse, listing, ihl, ihr, foldUntil_append, foldUntil_cons, foldUntil_nil,
        andThen_true_right, ne_eq, not_true_eq_false] at ho ⊢

theorem traverse_other (visit : K → V → σ → Bool × σ) (t : Tree K V) (s : σ) :
    traverse .other visit t s = (t.isNil, s) := by
  cases t <;> rfl

theorem listing_lvr (t : Tree K V) : listing .lvr t = t.toList := by
  induction t with
  | nil => rfl
  | node l k v s h c r ihl ihr => simp only [listing, ihl, ihr, toList_node]

theorem listing_ascending (t : Tree K V) : listing .ascending t = t.toList := by
  induction t with
  | nil => rfl
  | node l k v s h c r ihl ihr => simp only [listing, ihl, ihr, toList_node]

theorem listing_rvl (t : Tree K V) : listing .rvl t = t.toList.reverse := by
  induction t with
  | nil => rfl
  | node l k v s h c r ihl ihr => simp [listing, ihl, ihr]

theorem listing_descending (t : Tree K V) : listing .descending t = t.toList.reverse := by
  induction t with
  | nil => rfl
  | node l k v s h c r ihl ihr => simp [listing, ihl, ihr]

theorem listing_perm (o : Order) (ho : o ≠ .other) : ∀ t : Tree K V, (listing o t).Perm t.toList
  | .nil => by simp [listing]
  | .node l k v s h c r => by
    have ihl := listing_perm o ho l
    have ihr := listing_perm o ho r
    cases o
    case other => exact absurd rfl ho
    case vlr =>
      simp only [listing, toList_node]
      exact (List.Perm.cons _ (ihl.append ihr)).trans List.perm_middle.symm
    case vrl =>
      simp only [listing, toList_node]
      exact (List.Perm.cons _ ((ihr.append ihl).trans List.perm_append_comm)).trans List.perm_middle.symm
    case lvr => simp only [listing, toList_node]; exact ihl.append (ihr.cons _)
    case ascending => simp only [listing, toList_node]; exact ihl.append (ihr.cons _)
    case rvl =>
      simp only [listing, toList_node]
      exact (ihr.append (ihl.cons _)).trans
        (List.perm_append_comm.trans (by simpa using List.perm_middle (a := (k, v)) (l₁ := l.toList) (l₂ := r.toList) |>.symm |> fun p => p.symm.symm))
    case descending =>
      simp only [listing, toList_node]
      exact (ihr.append (ihl.cons _)).trans
        (List.perm_append_comm.trans (by simpa using List.perm_middle (a := (k, v)) (l₁ := l.toList) (l₂ := r.toList) |>.symm |> fun p => p.symm.symm))
    case lrv =>
      simp only [listing, toList_node]
      exact (ihl.append (ihr.append (List.Perm.refl _))).trans
        (List.Perm.append_left _ (List.perm_append_comm))
    case rlv =>
      simp only [listing, toList_node]
      refine (ihr.append (ihl.append (List.Perm.refl _))).trans ?_
      refine List.perm_append_comm.trans ?_
      simp only [List.append_assoc, List.singleton_append]
      exact List.Perm.refl _

/-! ### the visitors -/

theorem foldUntil_collect_zero (xs : List (K × V)) (acc : List (K × V)) :
    foldUntil (collectVisit 0) xs acc = (true, acc ++ xs) := by
  induction xs generalizing acc with
  | nil => simp [foldUntil]
  | cons x xs ih =>
    obtain ⟨k, v⟩ := x
    have hv : collectVisit 0 k v acc = (true, acc ++ [(k, v)]) := by simp [collectVisit]
    simp only [foldUntil, hv]
    rw [ih]; simp

theorem foldUntil_collect_pos (limit : Nat) (xs : List (K × V)) (acc : List (K × V))
    (hacc : acc.length < limit) :
    (foldUntil (collectVisit limit) xs acc).2 = acc ++ xs.take (limit - acc.length) := by
  induction xs generalizing acc with
  | nil => simp [foldUntil]
  | cons x xs ih =>
    obtain ⟨k, v⟩ := x
    have hl : limit ≠ 0 := by omega
    obtain ⟨d, hd⟩ : ∃ d, limit - acc.length = d + 1 := ⟨limit - acc.length - 1, by omega⟩
    by_cases hlt : (acc ++ [(k, v)]).length < limit
    · have hlt' : acc.length + 1 < limit := by simpa using hlt
      have hv : collectVisit limit k v acc = (true, acc ++ [(k, v)]) := by
        simp [collectVisit, hl, hlt']
      simp only [foldUntil, hv]
      rw [ih _ hlt, hd, List.take_succ_cons]
      have : limit - (acc ++ [(k, v)]).length = d := by simp; omega
      rw [this]; simp
    · have hlt' : limit ≤ acc.length + 1 := by simpa using hlt
      have hv : collectVisit limit k v acc = (false, acc ++ [(k, v)]) := by
        simp [collectVisit, hl, hlt']
      simp only [foldUntil, hv]
      have : d = 0 := by simp at hlt; omega
      rw [hd, this]; simp

theorem traverseCollect_eq (o : Order) (ho : o ≠ .other) (limit : Nat) (t : Tree K V) :
    traverseCollect o limit t = Spec.takeLim limit (listing o t) := by
  unfold traverseCollect Spec.takeLim
  rw [traverse_eq o ho]
  by_cases hl : limit = 0
  · subst hl; rw [foldUntil_collect_zero]; simp
  · rw [if_neg hl, foldUntil_collect_pos limit _ [] (by simp; omega)]; simp

theorem traverseCollect_other (limit : Nat) (t : Tree K V) : traverseCollect .other limit t = [] := by
  unfold traverseCollect; rw [traverse_other]

theorem all_eq (t : Tree K V) : all t = t.toList := by
  unfold all
  rw [traverse_eq _ (by decide), foldUntil_collect_zero, listing_ascending]; simp

theorem allUntil_eq (limit : Nat) (t : Tree K V) : allUntil limit t = Spec.takeLim limit t.toList := by
  have := traverseCollect_eq .ascending (by decide) limit t
  rw [listing_ascending] at this
  exact this

theorem foldUntil_test (f : K → V → Bool) (xs : List (K × V)) :
    (foldUntil (fun k v (_ : Unit) => (f k v, ())) xs ()).1 = xs.all (fun x => f x.1 x.2) := by
  induction xs with
  | nil => rfl
  | cons x xs ih =>
    obtain ⟨k, v⟩ := x
    simp only [foldUntil, List.all_cons]
    cases hf : f k v
    · simp
    · simpa using ih

theorem anyMatch_eq (p : K → V → Bool) (t : Tree K V) :
    anyMatch p t = t.toList.any (fun x => p x.1 x.2) := by
  unfold anyMatch
  rw [traverse_eq _ (by decide), foldUntil_test, ← (listing_perm .vlr (by decide) t).any_eq]
  simp [List.all_eq_not_any_not]

theorem allMatch_eq (p : K → V → Bool) (t : Tree K V) :
    allMatch p t = t.toList.all (fun x => p x.1 x.2) := by
  unfold allMatch
  rw [traverse_eq _ (by decide), foldUntil_test, (listing_perm .vlr (by decide) t).all_eq]

theorem foldUntil_first (p : K → V → Bool) (xs : List (K × V)) (st : Option (K × V)) :
    (foldUntil (fun k v (st : Option (K × V)) =>
        if p k v then (false, some (k, v)) else (true, st)) xs st).2 =
      (xs.find? (fun x => p x.1 x.2)).or st := by
  induction xs generalizing st with
  | nil => simp [foldUntil]
  | cons x xs ih =>
    obtain ⟨k, v⟩ := x
    simp only [foldUntil, List.find?_cons]
    cases hp : p k v
    · simp [ih]
    · simp

theorem firstMatch_eq (p : K → V → Bool) (t : Tree K V) :
    firstMatch p t = (listing .vlr t).find? (fun x => p x.1 x.2) := by
  unfold firstMatch
  rw [traverse_eq _ (by decide), foldUntil_first]; simp

/-- `FirstMatch` returns a held pair satisfying the predicate, or nothing when there is none -/
theorem firstMatch_admits (p : K → V → Bool) (t : Tree K V) :
    (firstMatch p t = none ∧ ∀ x ∈ t.toList, p x.1 x.2 = false) ∨
      (∃ x ∈ t.toList, p x.1 x.2 = true ∧ firstMatch p t = some x) := by
  rw [firstMatch_eq]
  have hperm := listing_perm .vlr (by decide) t
  cases hf : (listing .vlr t).find? (fun x => p x.1 x.2) with
  | none =>
    left
    refine ⟨rfl, ?_⟩
    intro x hx
    have := List.find?_eq_none.1 hf x (hperm.mem_iff.2 hx)
    simpa using this
  | some x =>
    right
    exact ⟨x, hperm.mem_iff.1 (List.mem_of_find?_eq_some hf), by have := List.find?_some hf; simpa using this, rfl⟩

/-- `Equal` between two tables constructed with (possibly different) lawful comparators: each pass looks the
keys of one table up in the other table with the other table's own comparator -/
theorem equal_eq (cmp cmp2 : K → K → Int) (h : LawfulCmp cmp) (h' : LawfulCmp cmp2) (eqVal : V → V → Bool)
    {t t2 : Tree K V} (h1 : Spec.Sorted cmp t.toList) (h2 : Spec.Sorted cmp2 t2.toList) :
    equal cmp cmp2 eqVal t t2 = Spec.equal cmp cmp2 eqVal t.toList t2.toList := by
  unfold equal Spec.equal Spec.includes
  rw [traverse_eq _ (by decide), traverse_eq _ (by decide), foldUntil_test, foldUntil_test,
    listing_ascending, listing_ascending]
  congr 1
  · congr 1; funext x; rw [get_eq h' _ h2]; cases Spec.get cmp2 x.1 t2.toList <;> rfl
  · congr 1; funext x; rw [get_eq h _ h1]; cases Spec.get cmp x.1 t.toList <;> rfl

end AlgoVerif.C01
