import AlgoVerif.Model.C08Hist
import AlgoVerif.Proofs.C08Total6
import AlgoVerif.Proofs.C08LeftRecMain
import AlgoVerif.Proofs.C08LeftFactorMain
/-!
# Histories over grammar objects: the store lemmas and "every transformation `apply` knows preserves the language"
-/
namespace AlgoVerif.C08.Hist
open AlgoVerif AlgoVerif.Gram AlgoVerif.C08 AlgoVerif.C08.Spec

theorem lookup_filter_ne (s : Store) (i x : Nat) (h : x ≠ i) :
    (s.filter (fun e => e.1 != i)).lookup x = s.lookup x := by
  induction s with
  | nil => rfl
  | cons e s ih =>
    obtain ⟨k, v⟩ := e
    by_cases hk : k = i
    · subst hk
      have hx : (x == k) = false := by simpa using h
      simp [List.filter, List.lookup, hx, ih]
    · have hk' : (k != i) = true := by simpa using hk
      simp only [List.filter, hk', List.lookup]
      split <;> simp_all

theorem get_set_self (s : Store) (i : Nat) (g : G) : get (set s i g) i = some g := by
  simp [get, set]

theorem get_set_ne (s : Store) (i x : Nat) (g : G) (h : x ≠ i) : get (set s i g) x = get s x := by
  have hx : (x == i) = false := by simpa using h
  simp only [get, set, List.lookup, hx]
  exact lookup_filter_ne s i x h

/-- every transformation `apply` knows returns a grammar with the language of its (valid) operand -/
theorem transform_language {t : String} {g g' : G} (hv : Valid g) (h : transform t g = some (.ok g')) :
    SameLanguage g g' := by
  unfold transform at h
  split at h
  · cases h; exact fun _ => Iff.rfl
  · split at h
    · cases h
    · unfold applyOp at h
      split at h <;> first
        | (injection h with h; first
            | exact fun w => elimEmpty_language h hv.wellFormed w
            | exact fun w => elimSingle_language h hv.wellFormed w
            | exact fun w => elimUnreachable_language h w
            | exact fun w => elimCycles_language h hv.wellFormed w
            | exact AlgoVerif.C08.C08_leftrec g g' hv h
            | exact AlgoVerif.C08.C08_leftfactor_of_wellFormed hv.wellFormed h
            | exact fun w => cnf_language h hv.wellFormed w
            | exact fun w => cnfStart_language h hv.wellFormed w
            | exact fun w => cnfTerm_language h hv.wellFormed w
            | exact fun w => cnfBin_language h hv.wellFormed w
            | (cases h; exact fun _ => Iff.rfl))
        | cases h

/-- an op writes one slot: every other slot keeps its value -/
theorem step_frame {s s' : Store} {op : Op} (h : step s op = some (.ok s')) (x : Nat) (hx : x ≠ op.target) :
    get s' x = get s x := by
  cases op with
  | apply i t j =>
    simp only [step] at h
    split at h
    · cases h
    · split at h
      · cases h
      · cases h; exact get_set_ne _ _ _ _ hx
      · cases h
      · cases h
  | addProd i p =>
    simp only [step] at h
    cases hg : get s i with
    | none => simp [hg] at h
    | some g => simp [hg] at h; cases h; exact get_set_ne _ _ _ _ hx
  | rmProd i p =>
    simp only [step] at h
    cases hg : get s i with
    | none => simp [hg] at h
    | some g => simp [hg] at h; cases h; exact get_set_ne _ _ _ _ hx
  | addNT i n =>
    simp only [step] at h
    cases hg : get s i with
    | none => simp [hg] at h
    | some g => simp [hg] at h; cases h; exact get_set_ne _ _ _ _ hx
  | addTerm i t =>
    simp only [step] at h
    cases hg : get s i with
    | none => simp [hg] at h
    | some g => simp [hg] at h; cases h; exact get_set_ne _ _ _ _ hx

/-- `apply i T j`: slot `j` receives a grammar with the language slot `i` has at the time of the call -/
theorem step_apply {s s' : Store} {i j : Nat} {t : String} {g : G} (hi : get s i = some g) (hv : Valid g)
    (h : step s (.apply i t j) = some (.ok s')) :
    ∃ g', transform t g = some (.ok g') ∧ get s' j = some g' ∧ SameLanguage g g' := by
  simp only [step, hi] at h
  split at h
  · cases h
  · rename_i g' ht
    cases h
    exact ⟨g', ht, get_set_self _ _ _, transform_language hv ht⟩
  · cases h
  · cases h

end AlgoVerif.C08.Hist
