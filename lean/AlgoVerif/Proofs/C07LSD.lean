import AlgoVerif.Proofs.C07Words
import AlgoVerif.Proofs.C07CountingDefs
/-!
# C07 — the LSD radix sorts (`radixsort/lsd.go`): `LSDUint`, `LSDInt`, `LSDString`

Every theorem takes the specification of one key-indexed counting pass (`CountingPassSpec`,
proved in `C07Counting.lean`) as a hypothesis.  A pass replaces the array by the stable bucket
concatenation by one digit.  Stability is tracked by tagging every element with its input index:
the array is always the projection of a rearrangement of the tagged input that is sorted by
`(digits seen so far, input index)`; after the last pass this is the order core's stable
`List.mergeSort` sorts the tagged list by, and `List.mergeSort_zipIdx` removes the tags.
-/
namespace AlgoVerif.C07
open AlgoVerif AlgoVerif.Generated

/-! ## one pass on the whole array -/

theorem pass_step (hcp : CountingPassSpec) {α : Type} (key : α → Outcome Int) (k : α → Nat) (R : Nat)
    (rot : Option Bool) (a aux : Array α) (hR : 0 < R) (hrot : rot.isSome → R % 2 = 0)
    (haux : aux.size = a.size)
    (hk : ∀ x, x ∈ a.toList → key x = .ok ((k x : Nat) : Int) ∧ k x < R) :
    ∃ a' aux' c, countingPass key (R : Int) rot a aux 0 ((a.size : Int) - 1) = .ok (a', aux', c) ∧
      a'.size = a.size ∧ aux'.size = a'.size ∧
      a'.toList = bucketConcat k (bucketOrder R rot) a.toList := by
  obtain ⟨a', aux', c, h1, h2, h3, _, _, h6, _⟩ :=
    hcp key k R rot a aux 0 a.size hR hrot (by omega) (by omega)
      (fun i _ h => hk _ (by simp))
  refine ⟨a', aux', c, ?_, h2, by omega, ?_⟩
  · simpa using h1
  · have e1 : a'.extract 0 (0 + a.size) = a' := by simp [← h2]
    have e2 : a.extract 0 (0 + a.size) = a := by simp
    rw [e1, e2] at h6
    exact h6

theorem bucketConcat_map {α β : Type} (g : β → α) (k : α → Nat) (ord : List Nat) (T : List β) :
    bucketConcat k ord (T.map g) = (bucketConcat (fun x => k (g x)) ord T).map g := by
  unfold bucketConcat bucket
  induction ord with
  | nil => rfl
  | cons r ord ih =>
    rw [List.flatMap_cons, List.flatMap_cons, List.map_append, ih, List.filter_map]
    rfl

/-- the buckets in a duplicate-free order that covers all keys are a permutation -/
theorem bucketConcat_perm_filter {β : Type} (k : β → Nat) (T : List β) :
    ∀ (ord : List Nat), ord.Nodup →
      (bucketConcat k ord T).Perm (T.filter (fun x => decide (k x ∈ ord))) := by
  intro ord
  induction ord with
  | nil => intro _; simp [bucketConcat]
  | cons r ord ih =>
    intro hnd
    have hr := (List.nodup_cons.1 hnd).1
    have ih' := ih (List.nodup_cons.1 hnd).2
    have h := List.filter_append_perm (fun x => k x == r) (T.filter (fun x => decide (k x ∈ r :: ord)))
    refine List.Perm.trans ?_ h
    simp only [bucketConcat, List.flatMap_cons, bucket] at ih' ⊢
    rw [List.filter_filter, List.filter_filter]
    have e1 : T.filter (fun a => (k a == r) && decide (k a ∈ r :: ord)) = T.filter (fun x => k x == r) := by
      apply List.filter_congr
      intro x _
      by_cases hx : k x = r <;> simp [hx]
    have e2 : T.filter (fun a => (!(k a == r)) && decide (k a ∈ r :: ord)) = T.filter (fun x => decide (k x ∈ ord)) := by
      apply List.filter_congr
      intro x _
      by_cases hx : k x = r
      · simp [hx, hr]
      · simp [hx]
    rw [e1, e2]
    exact List.Perm.append_left _ ih'

theorem bucketConcat_perm {β : Type} (k : β → Nat) (T : List β) (ord : List Nat) (hnd : ord.Nodup)
    (hk : ∀ x, x ∈ T → k x ∈ ord) : (bucketConcat k ord T).Perm T := by
  refine (bucketConcat_perm_filter k T ord hnd).trans ?_
  rw [List.filter_eq_self.2]
  intro x hx
  simpa using hk x hx

theorem bucketConcat_pairwise {β : Type} (k : β → Nat) (ρ : Nat → Nat) (f : β → Nat) (M : Nat)
    (T : List β) (ord : List Nat) (hord : ord.Pairwise (fun r s => ρ r < ρ s))
    (hf : ∀ x, x ∈ T → f x < M) (hT : T.Pairwise (fun x y => f x ≤ f y)) :
    (bucketConcat k ord T).Pairwise (fun x y => ρ (k x) * M + f x ≤ ρ (k y) * M + f y) := by
  unfold bucketConcat
  rw [List.pairwise_flatMap]
  constructor
  · intro r _
    unfold bucket
    refine List.Pairwise.imp_of_mem ?_ (hT.filter _)
    intro x y hx hy hxy
    have hx' : k x = r := by simpa using (List.mem_filter.1 hx).2
    have hy' : k y = r := by simpa using (List.mem_filter.1 hy).2
    rw [hx', hy']; omega
  · refine hord.imp ?_
    intro r s hrs x hx y hy
    unfold bucket at hx hy
    have hx' : k x = r := by simpa using (List.mem_filter.1 hx).2
    have hy' : k y = s := by simpa using (List.mem_filter.1 hy).2
    have hfx := hf x (List.mem_filter.1 hx).1
    rw [hx', hy']
    have : (ρ r + 1) * M ≤ ρ s * M := Nat.mul_le_mul_right _ hrs
    rw [Nat.succ_mul] at this
    omega
/-! ## bucket orders -/

/-- rank of the key value `r` in the bucket order of a pass -/
def rotRank (R : Nat) : Option Bool → Nat → Nat
  | none, r => r
  | some _, r => (r + R / 2) % R

theorem bucketOrder_pairwise (R : Nat) (rot : Option Bool) (hrot : rot.isSome → R % 2 = 0) :
    (bucketOrder R rot).Pairwise (fun r s => rotRank R rot r < rotRank R rot s) := by
  cases rot with
  | none => exact List.pairwise_lt_range
  | some b =>
    have hR := hrot rfl
    simp only [bucketOrder, rotRank]
    rw [List.pairwise_append]
    refine ⟨?_, ?_, ?_⟩
    · refine List.Pairwise.imp_of_mem ?_ (List.pairwise_lt_range' (s := R / 2) (n := R - R / 2))
      intro r s hr hs hrs
      simp only [List.mem_range'_1] at hr hs
      rw [show r + R / 2 = (r - R / 2) + R by omega, show s + R / 2 = (s - R / 2) + R by omega,
        Nat.add_mod_right, Nat.add_mod_right, Nat.mod_eq_of_lt (by omega), Nat.mod_eq_of_lt (by omega)]
      omega
    · refine List.Pairwise.imp_of_mem ?_ (List.pairwise_lt_range (n := R / 2))
      intro r s hr hs hrs
      simp only [List.mem_range] at hr hs
      rw [Nat.mod_eq_of_lt (by omega), Nat.mod_eq_of_lt (by omega)]
      omega
    · intro r hr s hs
      simp only [List.mem_range'_1] at hr
      simp only [List.mem_range] at hs
      rw [show r + R / 2 = (r - R / 2) + R by omega,
        Nat.add_mod_right, Nat.mod_eq_of_lt (by omega), Nat.mod_eq_of_lt (by omega)]
      omega

theorem mem_bucketOrder (R : Nat) (rot : Option Bool) (r : Nat) (h : r < R) : r ∈ bucketOrder R rot := by
  cases rot with
  | none => simpa [bucketOrder] using h
  | some b =>
    simp only [bucketOrder, List.mem_append, List.mem_range'_1, List.mem_range]
    omega

/-! ## stability by tagging every element with its input index -/

/-- `out` is the projection of a rearrangement `T` of the index-tagged input that is sorted by `F` -/
def Tagged {α : Type} (l : List α) (F : α × Nat → Nat) (out : List α) : Prop :=
  ∃ T : List (α × Nat), out = T.map (·.1) ∧ T.Perm l.zipIdx ∧ T.Pairwise (fun x y => F x ≤ F y)

theorem tagged_init {α : Type} (l : List α) : Tagged l (fun x => x.2) l := by
  refine ⟨l.zipIdx, by simp, List.Perm.refl _, ?_⟩
  have h : (l.zipIdx.map (·.2)).Pairwise (· < ·) := by
    rw [List.zipIdx_map_snd]; exact List.pairwise_lt_range'
  rw [List.pairwise_map] at h
  exact h.imp (fun h => Nat.le_of_lt h)

theorem tagged_mem {α : Type} {l : List α} {F : α × Nat → Nat} {out : List α} (h : Tagged l F out)
    (x : α) : x ∈ out ↔ x ∈ l := by
  obtain ⟨T, rfl, hp, _⟩ := h
  have : (T.map (·.1)).Perm l := by simpa using hp.map (·.1)
  exact this.mem_iff

theorem tagged_congr {α : Type} {l : List α} {F F' : α × Nat → Nat} {out : List α}
    (hFF : ∀ x, x ∈ l.zipIdx → F x = F' x) (h : Tagged l F out) : Tagged l F' out := by
  obtain ⟨T, h1, hp, hs⟩ := h
  refine ⟨T, h1, hp, hs.imp_of_mem ?_⟩
  intro x y hx hy hxy
  rw [← hFF x (hp.mem_iff.1 hx), ← hFF y (hp.mem_iff.1 hy)]
  exact hxy

theorem tagged_pass {α : Type} {l : List α} {F : α × Nat → Nat} {out : List α} (M : Nat) (k : α → Nat)
    (R : Nat) (rot : Option Bool) (hrot : rot.isSome → R % 2 = 0)
    (hk : ∀ x, x ∈ l → k x < R) (hF : ∀ x, x ∈ l.zipIdx → F x < M) (h : Tagged l F out) :
    Tagged l (fun x => rotRank R rot (k x.1) * M + F x) (bucketConcat k (bucketOrder R rot) out) := by
  obtain ⟨T, rfl, hp, hs⟩ := h
  have hord := bucketOrder_pairwise R rot hrot
  refine ⟨bucketConcat (fun x => k x.1) (bucketOrder R rot) T, bucketConcat_map _ _ _ _, ?_, ?_⟩
  · refine (bucketConcat_perm _ _ _ ?_ ?_).trans hp
    · exact hord.imp (fun {a b} h hab => by subst hab; exact Nat.lt_irrefl _ h)
    · intro x hx
      apply mem_bucketOrder
      apply hk
      have := hp.mem_iff.1 hx
      exact (List.mem_zipIdx' this).2 ▸ List.getElem_mem _
  · exact bucketConcat_pairwise _ _ F M T _ hord (fun x hx => hF x (hp.mem_iff.1 hx)) hs
/-- with tags `< N`, the order of `K·N + tag` is the tie-breaking order `zipIdxLE` of `K · ≤ K ·` -/
theorem zipIdxLE_of_key {α : Type} (K : α → Nat) (N : Nat) (x y : α × Nat) (_hx : x.2 < N) (hy : y.2 < N)
    (h : K x.1 * N + x.2 ≤ K y.1 * N + y.2) :
    List.zipIdxLE (fun a b => decide (K a ≤ K b)) x y = true := by
  have hK : K x.1 ≤ K y.1 := by
    apply Classical.byContradiction
    intro hn
    have : (K y.1 + 1) * N ≤ K x.1 * N := Nat.mul_le_mul_right _ (by omega)
    rw [Nat.succ_mul] at this
    omega
  simp only [List.zipIdxLE, hK, decide_true, ↓reduceIte]
  split
  · rename_i h2
    have : K x.1 = K y.1 := by simp only [decide_eq_true_eq] at h2; omega
    rw [this] at h
    simp only [decide_eq_true_eq]; omega
  · rfl

theorem tagged_final {α : Type} (le : α → α → Bool) (K : α → Nat) (l out : List α)
    (hle : ∀ a, a ∈ l → ∀ b, b ∈ l → le a b = decide (K a ≤ K b))
    (h : Tagged l (fun x => K x.1 * l.length + x.2) out) : out = l.mergeSort le := by
  have e : l.mergeSort le = l.mergeSort (fun a b => decide (K a ≤ K b)) := by
    have := List.map_mergeSort (f := id) (r := le) (s := fun a b => decide (K a ≤ K b)) (l := l) hle
    simpa using this
  obtain ⟨T, rfl, hp, hs⟩ := h
  rw [e, ← List.mergeSort_zipIdx]
  congr 1
  have htr : ∀ a b c : α, decide (K a ≤ K b) = true → decide (K b ≤ K c) = true → decide (K a ≤ K c) = true := by
    intro a b c; simp only [decide_eq_true_eq]; omega
  have hto : ∀ a b : α, (decide (K a ≤ K b) || decide (K b ≤ K a)) = true := by
    intro a b; simp only [Bool.or_eq_true, decide_eq_true_eq]; omega
  refine List.Perm.eq_of_pairwise
    (le := fun a b => List.zipIdxLE (fun a b => decide (K a ≤ K b)) a b = true) ?_ ?_
    (List.pairwise_mergeSort (List.zipIdxLE_trans htr) (List.zipIdxLE_total hto) _)
    (hp.trans (List.mergeSort_perm _ _).symm)
  · intro a b ha hb hab hba
    have ha' := List.mem_zipIdx_iff_getElem?.1 (hp.mem_iff.1 ha)
    have hb' := List.mem_zipIdx_iff_getElem?.1 (List.mem_mergeSort.1 hb)
    simp only [List.zipIdxLE] at hab hba
    have h2 : a.2 = b.2 := by
      by_cases h1 : K a.1 ≤ K b.1 <;> by_cases h2 : K b.1 ≤ K a.1 <;>
        simp [h1, h2] at hab hba
      omega
    rw [h2, hb'] at ha'
    exact Prod.ext (Option.some.inj ha').symm h2
  · refine hs.imp_of_mem ?_
    intro x y hx hy hxy
    have hx' := List.mem_zipIdx_iff_getElem?.1 (hp.mem_iff.1 hx)
    have hy' := List.mem_zipIdx_iff_getElem?.1 (hp.mem_iff.1 hy)
    exact zipIdxLE_of_key K l.length x y (List.getElem?_eq_some_iff.1 hx').1
      (List.getElem?_eq_some_iff.1 hy').1 hxy
/-! ## `LSDUint`, `LSDInt` -/

/-- the key the array is sorted by before pass `d` of `LSDInt` / `LSDUint` -/
def wkey (signed : Bool) (d : Nat) (v : UInt64) : Nat :=
  if signed = true ∧ d = 8 then skey v else low v d

/-- bucket rotation of pass `d` -/
def wrot (signed : Bool) (d : Nat) : Option Bool := if signed = true ∧ d = 7 then some false else none

theorem wkey_lt (signed : Bool) (d : Nat) (hd : d < 8) (v : UInt64) : wkey signed d v < 256 ^ d := by
  unfold wkey
  rw [if_neg (by omega)]
  exact low_lt v d

theorem wkey_succ (signed : Bool) (d : Nat) (hd : d < 8) (v : UInt64) :
    wkey signed (d + 1) v = rotRank 256 (wrot signed d) (dig v d) * 256 ^ d + wkey signed d v := by
  unfold wkey wrot
  rw [if_neg (by omega : ¬ (signed = true ∧ d = 8))]
  by_cases h : signed = true ∧ d = 7
  · obtain ⟨h1, h2⟩ := h
    subst h2
    simp only [h1, and_self, ↓reduceIte, rotRank]
    exact skey_eq v
  · rw [if_neg (fun hh => h ⟨hh.1, by omega⟩), if_neg h]
    exact low_succ v d

theorem lsdWordLoop_spec (hcp : CountingPassSpec) (signed : Bool) (l : List UInt64) :
    ∀ (f d : Nat) (a aux : Array UInt64), d ≤ 8 → 8 - d < f → aux.size = a.size →
      Tagged l (fun x => wkey signed d x.1 * l.length + x.2) a.toList →
      ∃ out, lsdWordLoop signed 8 256 8 f (d : Int) a aux = .ok out ∧
        Tagged l (fun x => wkey signed 8 x.1 * l.length + x.2) out.toList := by
  intro f
  induction f with
  | zero => intro d a aux _ h; omega
  | succ f ih =>
    intro d a aux hd hf haux htag
    unfold lsdWordLoop
    by_cases hlt : d < 8
    · have hlt' : (d : Int) < 8 := by omega
      simp only [hlt', ↓reduceIte]
      have hrot : (if (signed && (d : Int) == 8 - 1) = true then some false else none) = wrot signed d := by
        unfold wrot
        by_cases h : signed = true ∧ d = 7
        · obtain ⟨h1, h2⟩ := h; subst h1; subst h2; rfl
        · rw [if_neg h, if_neg]
          simp only [Bool.and_eq_true, beq_iff_eq]
          exact fun hh => h ⟨hh.1, by omega⟩
      rw [hrot]
      obtain ⟨a', aux', c, h1, h2, h3, h4⟩ := pass_step hcp (fun v => digitAt v (8 * (d : Int)))
        (fun v => dig v d) 256 (wrot signed d) a aux (by decide) (fun _ => rfl) haux
        (fun x _ => ⟨digitAt_lsd x d hlt, dig_lt x d⟩)
      have h1' : countingPass (fun v => digitAt v (8 * (d : Int))) 256 (wrot signed d) a aux 0
          ((a.size : Int) - 1) = .ok (a', aux', c) := h1
      rw [h1']
      simp only [ok_bind]
      have e : ((d : Int) + 1) = ((d + 1 : Nat) : Int) := by omega
      rw [e]
      refine ih (d + 1) a' aux' (by omega) (by omega) h3 ?_
      rw [h4]
      have hp := tagged_pass (256 ^ d * l.length) (fun v => dig v d) 256 (wrot signed d) (fun _ => rfl)
        (fun x _ => dig_lt x d) ?_ htag
      · refine tagged_congr ?_ hp
        intro x _
        simp only [wkey_succ signed d hlt, Nat.add_mul, Nat.mul_assoc, Nat.add_assoc]
      · intro x hx
        have h5 := wkey_lt signed d hlt x.1
        have h6 : x.2 < l.length := (List.getElem?_eq_some_iff.1 (List.mem_zipIdx_iff_getElem?.1 hx)).1
        have : (wkey signed d x.1 + 1) * l.length ≤ 256 ^ d * l.length := Nat.mul_le_mul_right _ h5
        rw [Nat.succ_mul] at this
        omega
    · have hlt' : ¬ (d : Int) < 8 := by omega
      simp only [hlt', ↓reduceIte]
      have : d = 8 := by omega
      subst this
      exact ⟨a, rfl, htag⟩

theorem wkey_zero (signed : Bool) (v : UInt64) : wkey signed 0 v = 0 := by
  unfold wkey
  rw [if_neg (by omega)]
  exact low_zero v

theorem lsdWord_spec (hcp : CountingPassSpec) (signed : Bool) (a : Array UInt64) :
    ∃ out, lsdWordLoop signed 8 256 8 (8 + 1) 0 a (Array.replicate a.size 0) = .ok out ∧
      Tagged a.toList (fun x => wkey signed 8 x.1 * a.toList.length + x.2) out.toList := by
  refine lsdWordLoop_spec hcp signed a.toList (8 + 1) 0 a _ (by omega) (by omega) (by simp) ?_
  refine tagged_congr ?_ (tagged_init a.toList)
  intro x _
  simp [wkey_zero]

theorem lsdUint_spec (hcp : CountingPassSpec) (a : Array UInt64) :
    ∃ out, lsdUint a = .ok out ∧ out.toList = a.toList.mergeSort uLe := by
  obtain ⟨out, h1, h2⟩ := lsdWord_spec hcp false a
  refine ⟨out, h1, ?_⟩
  refine tagged_final uLe (fun v => v.toNat) a.toList out.toList (fun x _ y _ => uLe_eq x y) ?_
  refine tagged_congr ?_ h2
  intro x _
  simp [wkey, low_eight]

theorem lsdInt_spec (hcp : CountingPassSpec) (a : Array UInt64) :
    ∃ out, lsdInt a = .ok out ∧ out.toList = a.toList.mergeSort iLe := by
  obtain ⟨out, h1, h2⟩ := lsdWord_spec hcp true a
  refine ⟨out, h1, ?_⟩
  refine tagged_final iLe skey a.toList out.toList (fun x _ y _ => iLe_eq x y) ?_
  refine tagged_congr ?_ h2
  intro x _
  simp [wkey]

/-! ## byte strings as big-endian numbers -/

/-- the number written by the bytes of `s` (big endian) -/
def sval : List UInt8 → Nat
  | [] => 0
  | b :: bs => b.toNat * 256 ^ bs.length + sval bs

theorem sval_lt : ∀ s : List UInt8, sval s < 256 ^ s.length
  | [] => by simp [sval]
  | b :: bs => by
    have h1 := sval_lt bs
    have h2 := b.toNat_lt
    have : (b.toNat + 1) * 256 ^ bs.length ≤ 256 * 256 ^ bs.length := Nat.mul_le_mul_right _ (by omega)
    rw [Nat.succ_mul] at this
    simp only [sval, List.length_cons, Nat.pow_succ]
    omega

/-- on strings of equal length the native order is the order of the numbers -/
theorem bytesLe_eq_sval : ∀ (u v : List UInt8), u.length = v.length →
    bytesLe u v = decide (sval u ≤ sval v)
  | [], [], _ => by simp [bytesLe, sval]
  | [], _ :: _, h => by simp at h
  | _ :: _, [], h => by simp at h
  | x :: xs, y :: ys, h => by
    have hl : xs.length = ys.length := by simpa using h
    have ih := bytesLe_eq_sval xs ys hl
    have h1 := sval_lt xs
    have h2 := sval_lt ys
    simp only [bytesLe, sval, hl]
    rw [hl] at h1
    generalize 256 ^ ys.length = P at *
    by_cases hxy : x < y
    · rw [if_pos hxy]
      have := UInt8.lt_iff_toNat_lt.1 hxy
      have : (x.toNat + 1) * P ≤ y.toNat * P := Nat.mul_le_mul_right _ (by omega)
      rw [Nat.succ_mul] at this
      symm; rw [decide_eq_true_eq]; omega
    · rw [if_neg hxy]
      by_cases hyx : y < x
      · rw [if_pos hyx]
        have := UInt8.lt_iff_toNat_lt.1 hyx
        have : (y.toNat + 1) * P ≤ x.toNat * P := Nat.mul_le_mul_right _ (by omega)
        rw [Nat.succ_mul] at this
        symm; rw [decide_eq_false_iff_not]; omega
      · rw [if_neg hyx, ih]
        have : x.toNat = y.toNat := by
          have h3 : ¬ x.toNat < y.toNat := fun h => hxy (UInt8.lt_iff_toNat_lt.2 h)
          have h4 : ¬ y.toNat < x.toNat := fun h => hyx (UInt8.lt_iff_toNat_lt.2 h)
          omega
        rw [this, decide_eq_decide]
        exact (Nat.add_le_add_iff_left).symm

/-- byte `j` of `s` as a number (0 beyond the end) -/
def byteN (s : List UInt8) (j : Nat) : Nat :=
  match s[j]? with
  | some b => b.toNat
  | none => 0

theorem byteN_lt (s : List UInt8) (j : Nat) : byteN s j < 256 := by
  unfold byteN
  split
  · rename_i b _; exact b.toNat_lt
  · omega

theorem byteN_eq (s : List UInt8) (j : Nat) (h : j < s.length) : byteN s j = s[j].toNat := by
  unfold byteN
  rw [List.getElem?_eq_getElem h]

theorem byteAt_ok (s : List UInt8) (j : Nat) (h : j < s.length) :
    byteAt (j : Int) s = .ok ((byteN s j : Nat) : Int) := by
  unfold byteAt byteN
  rw [if_pos (by omega), Int.toNat_natCast, List.getElem?_eq_getElem h]

/-- the number written by the bytes `[w-n, w)` of `s` -/
def sk (w : Nat) (s : List UInt8) : Nat → Nat
  | 0 => 0
  | n + 1 => byteN s (w - (n + 1)) * 256 ^ n + sk w s n

theorem sk_lt (w : Nat) (s : List UInt8) : ∀ n, sk w s n < 256 ^ n
  | 0 => by simp [sk]
  | n + 1 => by
    have h1 := sk_lt w s n
    have h2 := byteN_lt s (w - (n + 1))
    have : (byteN s (w - (n + 1)) + 1) * 256 ^ n ≤ 256 * 256 ^ n := Nat.mul_le_mul_right _ (by omega)
    rw [Nat.succ_mul] at this
    simp only [sk, Nat.pow_succ]
    omega

theorem sk_eq_sval (w : Nat) (s : List UInt8) (hw : w ≤ s.length) :
    ∀ n, n ≤ w → sk w s n = sval ((s.take w).drop (w - n))
  | 0, _ => by
    have : (s.take w).drop (w - 0) = [] := by
      apply List.drop_eq_nil_of_le; simp; omega
    rw [this]; rfl
  | n + 1, hn => by
    have ih := sk_eq_sval w s hw n (by omega)
    have hlen : (s.take w).length = w := by simp; omega
    have hj : w - (n + 1) < (s.take w).length := by omega
    rw [List.drop_eq_getElem_cons hj, show w - (n + 1) + 1 = w - n by omega]
    simp only [sk, sval, ih, List.length_drop, hlen, List.getElem_take]
    rw [byteN_eq s _ (by omega), show w - (w - n) = n by omega]

theorem prefixLe_eq_sk (w : Nat) (s t : List UInt8) (hs : w ≤ s.length) (ht : w ≤ t.length) :
    prefixLe w s t = decide (sk w s w ≤ sk w t w) := by
  unfold prefixLe
  rw [bytesLe_eq_sval _ _ (by simp; omega), sk_eq_sval w s hs w (Nat.le_refl _),
    sk_eq_sval w t ht w (Nat.le_refl _)]
  simp

/-! ## `LSDString` -/

theorem lsdStringLoop_spec (hcp : CountingPassSpec) (w : Nat) (l : List (List UInt8))
    (hw : ∀ s, s ∈ l → w ≤ s.length) :
    ∀ (f n : Nat) (a aux : Array (List UInt8)), n ≤ w → w - n < f → aux.size = a.size →
      Tagged l (fun x => sk w x.1 n * l.length + x.2) a.toList →
      ∃ out, lsdStringLoop f ((w : Int) - (n : Int) - 1) a aux = .ok out ∧
        Tagged l (fun x => sk w x.1 w * l.length + x.2) out.toList := by
  intro f
  induction f with
  | zero => intro n a aux _ h; omega
  | succ f ih =>
    intro n a aux hn hf haux htag
    unfold lsdStringLoop
    by_cases hlt : n < w
    · have hge : (w : Int) - (n : Int) - 1 ≥ 0 := by omega
      have ed : (w : Int) - (n : Int) - 1 = ((w - (n + 1) : Nat) : Int) := by omega
      simp only [hge, ↓reduceIte]
      obtain ⟨a', aux', c, h1, h2, h3, h4⟩ := pass_step hcp (byteAt ((w - (n + 1) : Nat) : Int))
        (fun s => byteN s (w - (n + 1))) radixsort_LSDString_R none a aux (by decide) (by simp) haux
        (fun x hx => by
          have := hw x ((tagged_mem htag x).1 hx)
          exact ⟨byteAt_ok x _ (by omega), byteN_lt x _⟩)
      rw [ed, h1]
      simp only [ok_bind]
      have e : (((w - (n + 1) : Nat) : Int) - 1) = (w : Int) - ((n + 1 : Nat) : Int) - 1 := by omega
      rw [e]
      refine ih (n + 1) a' aux' (by omega) (by omega) h3 ?_
      rw [h4]
      have hp := tagged_pass (256 ^ n * l.length) (fun s => byteN s (w - (n + 1))) radixsort_LSDString_R
        none (by simp) (fun x _ => byteN_lt x _) ?_ htag
      · refine tagged_congr ?_ hp
        intro x _
        simp only [sk, rotRank, Nat.add_mul, Nat.mul_assoc, Nat.add_assoc]
      · intro x hx
        have h5 := sk_lt w x.1 n
        have h6 : x.2 < l.length := (List.getElem?_eq_some_iff.1 (List.mem_zipIdx_iff_getElem?.1 hx)).1
        have : (sk w x.1 n + 1) * l.length ≤ 256 ^ n * l.length := Nat.mul_le_mul_right _ h5
        rw [Nat.succ_mul] at this
        omega
    · have hge : ¬ ((w : Int) - (n : Int) - 1 ≥ 0) := by omega
      simp only [hge, ↓reduceIte]
      have : n = w := by omega
      subst this
      exact ⟨a, rfl, htag⟩

theorem lsdString_spec (hcp : CountingPassSpec) (a : Array (List UInt8)) (w : Nat)
    (hw : ∀ s, s ∈ a.toList → w ≤ s.length) :
    ∃ out, lsdString a (w : Int) = .ok out ∧ out.toList = a.toList.mergeSort (prefixLe w) := by
  have h0 : Tagged a.toList (fun x => sk w x.1 0 * a.toList.length + x.2) a.toList := by
    refine tagged_congr ?_ (tagged_init a.toList)
    intro x _
    simp [sk]
  obtain ⟨out, h1, h2⟩ := lsdStringLoop_spec hcp w a.toList hw (w + 1) 0 a (Array.replicate a.size [])
    (by omega) (by omega) (by simp) h0
  refine ⟨out, ?_, ?_⟩
  · unfold lsdString
    rw [Int.toNat_natCast]
    simpa using h1
  · exact tagged_final (prefixLe w) (fun s => sk w s w) a.toList out.toList
      (fun x hx y hy => prefixLe_eq_sk w x y (hw x hx) (hw y hy)) h2

/-- the fixed-width case: all strings have length `w`, the order is the native string order -/
theorem lsdString_fixed_spec (hcp : CountingPassSpec) (a : Array (List UInt8)) (w : Nat)
    (hw : ∀ s, s ∈ a.toList → s.length = w) :
    ∃ out, lsdString a (w : Int) = .ok out ∧ out.toList = a.toList.mergeSort bytesLe := by
  obtain ⟨out, h1, h2⟩ := lsdString_spec hcp a w (fun s hs => Nat.le_of_eq (hw s hs).symm)
  refine ⟨out, h1, ?_⟩
  rw [h2]
  have := List.map_mergeSort (f := id) (r := prefixLe w) (s := bytesLe) (l := a.toList)
    (fun x hx y hy => by
      unfold prefixLe
      rw [List.take_of_length_le (Nat.le_of_eq (hw x hx)), List.take_of_length_le (Nat.le_of_eq (hw y hy))]
      rfl)
  simpa using this

end AlgoVerif.C07
