import AlgoVerif.Proofs.C01Traverse
/-!
# C01: from per-mutator refinement lemmas to whole histories

`KindOK kind cmp Good` packages what has to be shown for one tree kind: an invariant `Good` that
holds of the empty tree, implies the shared invariant `Inv`, and is preserved by the four
mutators, each of which refines the corresponding operation of the abstract map and returns what
the abstract map returns.  Everything else (queries, `Equal`, the `*Match` family, whole
histories) is derived here once.
-/
namespace AlgoVerif.C01
open Tree

variable {K V : Type}

@[simp] theorem Outcome.ok_bind' {α β : Type} (a : α) (f : α → Outcome β) :
    (Outcome.ok a >>= f) = f a := rfl
@[simp] theorem Outcome.panic_bind' {α β : Type} (f : α → Outcome β) :
    (Outcome.panic >>= f) = Outcome.panic := rfl
@[simp] theorem Outcome.diverge_bind' {α β : Type} (f : α → Outcome β) :
    (Outcome.diverge >>= f) = Outcome.diverge := rfl
@[simp] theorem Outcome.pure_eq' {α : Type} (a : α) : (pure a : Outcome α) = Outcome.ok a := rfl

structure KindOK (kind : Kind) (cmp : K → K → Int) (Good : Tree K V → Prop) : Prop where
  good_nil : Good .nil
  inv : ∀ t, Good t → Inv cmp t
  put : ∀ t k v, Good t →
    ∃ t', put kind cmp t k v = .ok t' ∧ Good t' ∧ t'.toList = Spec.upsert cmp k v t.toList
  delete : ∀ t k, Good t →
    ∃ t', delete kind cmp t k = .ok (t', Spec.get cmp k t.toList) ∧ Good t' ∧
      t'.toList = Spec.remove cmp k t.toList
  deleteMin : ∀ t, Good t →
    ∃ t', deleteMin kind t = .ok (t', Spec.first t.toList) ∧ Good t' ∧ t'.toList = t.toList.tail
  deleteMax : ∀ t, Good t →
    ∃ t', deleteMax kind t = .ok (t', Spec.last t.toList) ∧ Good t' ∧ t'.toList = t.toList.dropLast

/-- abstraction function on table objects: same comparator, same value equality, in-order listing -/
def absT (t : Table K V) : Spec.Tab K V := ⟨t.cmp, t.eqVal, t.root.toList⟩

/-- abstraction function on states -/
def abs (s : State K V) : Spec.State K V := (absT s.1, absT s.2.1, absT s.2.2)

/-- a table object is good: the comparator it was constructed with is lawful and its tree satisfies the
invariant of its kind *for that comparator* -/
def GoodT (Good : (K → K → Int) → Tree K V → Prop) (t : Table K V) : Prop :=
  LawfulCmp t.cmp ∧ Good t.cmp t.root

/-- all three table objects of a state are good (each for its own comparator) -/
def GoodS (Good : (K → K → Int) → Tree K V → Prop) (s : State K V) : Prop :=
  GoodT Good s.1 ∧ GoodT Good s.2.1 ∧ GoodT Good s.2.2

section
variable {kind : Kind} {cmp : K → K → Int} {Good : Tree K V → Prop}

/-- the `SelectMatch` scan: `Put`s into a good table keep it good and build the abstract map -/
theorem foldUntil_select (hk : KindOK kind cmp Good) (p : K → V → Bool) :
    ∀ (xs : List (K × V)) (m : Tree K V), Good m →
      ∃ m', (foldUntil (selectVisit kind cmp p) xs (.ok m)).2 = .ok m' ∧ Good m' ∧
        m'.toList = build cmp (fun x => p x.1 x.2) xs m.toList
  | [], m, hm => ⟨m, rfl, hm, rfl⟩
  | (k, v) :: xs, m, hm => by
    simp only [foldUntil, selectVisit, Outcome.ok_bind', build, List.foldl_cons]
    by_cases hp : p k v = true
    · obtain ⟨m1, h1, h2, h3⟩ := hk.put m k v hm
      simp only [hp, if_true, h1]
      obtain ⟨m', h4, h5, h6⟩ := foldUntil_select hk p xs m1 h2
      exact ⟨m', h4, h5, by rw [h6, h3]; rfl⟩
    · simp only [hp, Outcome.pure_eq']
      obtain ⟨m', h4, h5, h6⟩ := foldUntil_select hk p xs m hm
      refine ⟨m', h4, h5, ?_⟩
      rw [h6]; simp [build, hp]

theorem selectMatch_ok (hk : KindOK kind cmp Good) (h : LawfulCmp cmp) (p : K → V → Bool) (t : Tree K V)
    (ht : Good t) :
    ∃ m, selectMatch kind cmp p t = .ok m ∧ Good m ∧ m.toList = t.toList.filter (fun x => p x.1 x.2) := by
  unfold selectMatch
  rw [traverse_eq _ (by decide)]
  obtain ⟨m, h1, h2, h3⟩ := foldUntil_select hk p (listing .vlr t) .nil hk.good_nil
  refine ⟨m, h1, h2, ?_⟩
  rw [h3]
  exact build_perm h _ (hk.inv t ht).1 (listing_perm .vlr (by decide) t)

theorem foldUntil_partition (hk : KindOK kind cmp Good) (p : K → V → Bool) :
    ∀ (xs : List (K × V)) (m u : Tree K V), Good m → Good u →
      ∃ m' u', (foldUntil (partitionVisit kind cmp p) xs (.ok (m, u))).2 = .ok (m', u') ∧ Good m' ∧ Good u' ∧
        m'.toList = build cmp (fun x => p x.1 x.2) xs m.toList ∧
        u'.toList = build cmp (fun x => !p x.1 x.2) xs u.toList
  | [], m, u, hm, hu => ⟨m, u, rfl, hm, hu, rfl, rfl⟩
  | (k, v) :: xs, m, u, hm, hu => by
    simp only [foldUntil, partitionVisit, Outcome.ok_bind', build, List.foldl_cons]
    by_cases hp : p k v = true
    · obtain ⟨m1, h1, h2, h3⟩ := hk.put m k v hm
      simp only [hp, if_true, h1, Outcome.ok_bind', Outcome.pure_eq']
      obtain ⟨m', u', h4, h5, h6, h7, h8⟩ := foldUntil_partition hk p xs m1 u h2 hu
      refine ⟨m', u', h4, h5, h6, by rw [h7, h3]; rfl, ?_⟩
      rw [h8]; simp [build]
    · obtain ⟨u1, h1, h2, h3⟩ := hk.put u k v hu
      simp only [hp, h1, Outcome.ok_bind', Outcome.pure_eq']
      obtain ⟨m', u', h4, h5, h6, h7, h8⟩ := foldUntil_partition hk p xs m u1 hm h2
      refine ⟨m', u', h4, h5, h6, ?_, ?_⟩
      · rw [h7]; simp [build, hp]
      · rw [h8, h3]; simp [build, hp]

theorem partitionMatch_ok (hk : KindOK kind cmp Good) (h : LawfulCmp cmp) (p : K → V → Bool) (t : Tree K V)
    (ht : Good t) :
    ∃ m u, partitionMatch kind cmp p t = .ok (m, u) ∧ Good m ∧ Good u ∧
      m.toList = t.toList.filter (fun x => p x.1 x.2) ∧ u.toList = t.toList.filter (fun x => !p x.1 x.2) := by
  unfold partitionMatch
  rw [traverse_eq _ (by decide)]
  obtain ⟨m, u, h1, h2, h3, h4, h5⟩ :=
    foldUntil_partition hk p (listing .vlr t) .nil .nil hk.good_nil hk.good_nil
  refine ⟨m, u, h1, h2, h3, ?_, ?_⟩
  · rw [h4]; exact build_perm h _ (hk.inv t ht).1 (listing_perm .vlr (by decide) t)
  · rw [h5]; exact build_perm h _ (hk.inv t ht).1 (listing_perm .vlr (by decide) t)

end

section
variable {kind : Kind} {Good : (K → K → Int) → Tree K V → Prop}

/-- one call: the Model does not fail, stays good, follows the abstract map, and its result is
admitted by the abstract map.  Every table has its own (lawful) comparator and value equality. -/
theorem step_ok (hk : ∀ cmp : K → K → Int, LawfulCmp cmp → KindOK kind cmp (Good cmp)) (s : State K V)
    (hs : GoodS Good s) (op : Op K V) :
    ∃ s' o, step kind s op = .ok (s', o) ∧ GoodS Good s' ∧
      abs s' = Spec.next (abs s) op ∧ Spec.admits (abs s) op o := by
  obtain ⟨⟨c1, q1, s1⟩, ⟨c2, q2, s2⟩, ⟨c3, q3, s3⟩⟩ := s
  obtain ⟨⟨h, g1⟩, ⟨h2, g2⟩, ⟨h3, g3⟩⟩ := hs
  have hk1 := hk c1 h
  have i1 := hk1.inv s1 g1
  have i2 := (hk c2 h2).inv s2 g2
  cases op with
  | put k v =>
    obtain ⟨t', e, g, l⟩ := hk1.put s1 k v g1
    exact ⟨(⟨c1, q1, t'⟩, ⟨c2, q2, s2⟩, ⟨c3, q3, s3⟩), .unit, by simp [step, Table.set, e],
      ⟨⟨h, g⟩, ⟨h2, g2⟩, ⟨h3, g3⟩⟩, by simp [abs, absT, Spec.next, Spec.Tab.set, l], rfl⟩
  | delete k =>
    obtain ⟨t', e, g, l⟩ := hk1.delete s1 k g1
    exact ⟨(⟨c1, q1, t'⟩, ⟨c2, q2, s2⟩, ⟨c3, q3, s3⟩), .optV (Spec.get c1 k s1.toList), by simp [step, Table.set, e],
      ⟨⟨h, g⟩, ⟨h2, g2⟩, ⟨h3, g3⟩⟩, by simp [abs, absT, Spec.next, Spec.Tab.set, l], rfl⟩
  | deleteMin =>
    obtain ⟨t', e, g, l⟩ := hk1.deleteMin s1 g1
    exact ⟨(⟨c1, q1, t'⟩, ⟨c2, q2, s2⟩, ⟨c3, q3, s3⟩), .optKV (Spec.first s1.toList), by simp [step, Table.set, e],
      ⟨⟨h, g⟩, ⟨h2, g2⟩, ⟨h3, g3⟩⟩, by simp [abs, absT, Spec.next, Spec.Tab.set, l], rfl⟩
  | deleteMax =>
    obtain ⟨t', e, g, l⟩ := hk1.deleteMax s1 g1
    exact ⟨(⟨c1, q1, t'⟩, ⟨c2, q2, s2⟩, ⟨c3, q3, s3⟩), .optKV (Spec.last s1.toList), by simp [step, Table.set, e],
      ⟨⟨h, g⟩, ⟨h2, g2⟩, ⟨h3, g3⟩⟩, by simp [abs, absT, Spec.next, Spec.Tab.set, l], rfl⟩
  | deleteAll =>
    exact ⟨(⟨c1, q1, .nil⟩, ⟨c2, q2, s2⟩, ⟨c3, q3, s3⟩), .unit, rfl, ⟨⟨h, hk1.good_nil⟩, ⟨h2, g2⟩, ⟨h3, g3⟩⟩, rfl, rfl⟩
  | swap => exact ⟨(⟨c2, q2, s2⟩, ⟨c1, q1, s1⟩, ⟨c3, q3, s3⟩), .unit, rfl, ⟨⟨h2, g2⟩, ⟨h, g1⟩, ⟨h3, g3⟩⟩, rfl, rfl⟩
  | swapC => exact ⟨(⟨c3, q3, s3⟩, ⟨c2, q2, s2⟩, ⟨c1, q1, s1⟩), .unit, rfl, ⟨⟨h3, g3⟩, ⟨h2, g2⟩, ⟨h, g1⟩⟩, rfl, rfl⟩
  | size =>
    exact ⟨_, _, rfl, ⟨⟨h, g1⟩, ⟨h2, g2⟩, ⟨h3, g3⟩⟩, rfl, by simp [Spec.admits, abs, absT, sz_eq_length i1.2]⟩
  | isEmpty =>
    exact ⟨_, _, rfl, ⟨⟨h, g1⟩, ⟨h2, g2⟩, ⟨h3, g3⟩⟩, rfl, by simp [Spec.admits, abs, absT, isNil_iff_toList]⟩
  | height => exact ⟨_, _, rfl, ⟨⟨h, g1⟩, ⟨h2, g2⟩, ⟨h3, g3⟩⟩, rfl, ⟨_, rfl⟩⟩
  | get k => exact ⟨_, _, rfl, ⟨⟨h, g1⟩, ⟨h2, g2⟩, ⟨h3, g3⟩⟩, rfl, by simp [Spec.admits, abs, absT, get_eq h k i1.1]⟩
  | min => exact ⟨_, _, rfl, ⟨⟨h, g1⟩, ⟨h2, g2⟩, ⟨h3, g3⟩⟩, rfl, by simp [Spec.admits, abs, absT, minKV_eq]⟩
  | max => exact ⟨_, _, rfl, ⟨⟨h, g1⟩, ⟨h2, g2⟩, ⟨h3, g3⟩⟩, rfl, by simp [Spec.admits, abs, absT, maxKV_eq]⟩
  | floor k => exact ⟨_, _, rfl, ⟨⟨h, g1⟩, ⟨h2, g2⟩, ⟨h3, g3⟩⟩, rfl, by simp [Spec.admits, abs, absT, floor_eq h k i1.1]⟩
  | ceiling k =>
    exact ⟨_, _, rfl, ⟨⟨h, g1⟩, ⟨h2, g2⟩, ⟨h3, g3⟩⟩, rfl, by simp [Spec.admits, abs, absT, ceiling_eq h k i1.1]⟩
  | select i =>
    exact ⟨(⟨c1, q1, s1⟩, ⟨c2, q2, s2⟩, ⟨c3, q3, s3⟩), .optKV (Spec.select s1.toList i), by simp [step, select_eq i1.2],
      ⟨⟨h, g1⟩, ⟨h2, g2⟩, ⟨h3, g3⟩⟩, rfl, rfl⟩
  | rank k => exact ⟨_, _, rfl, ⟨⟨h, g1⟩, ⟨h2, g2⟩, ⟨h3, g3⟩⟩, rfl, by simp [Spec.admits, abs, absT, rank_eq h k i1]⟩
  | range lo hi =>
    exact ⟨_, _, rfl, ⟨⟨h, g1⟩, ⟨h2, g2⟩, ⟨h3, g3⟩⟩, rfl, by simp [Spec.admits, abs, absT, range_eq h lo hi i1.1]⟩
  | rangeSize lo hi =>
    refine ⟨_, _, rfl, ⟨⟨h, g1⟩, ⟨h2, g2⟩, ⟨h3, g3⟩⟩, rfl, ?_⟩
    simp only [Spec.admits, abs, absT, rangeSize, get_eq h _ i1.1, rank_eq h _ i1]
    rw [← rangeSize_spec h lo hi i1.1]
  | all => exact ⟨_, _, rfl, ⟨⟨h, g1⟩, ⟨h2, g2⟩, ⟨h3, g3⟩⟩, rfl, by simp [Spec.admits, abs, absT, all_eq]⟩
  | allUntil limit =>
    exact ⟨_, _, rfl, ⟨⟨h, g1⟩, ⟨h2, g2⟩, ⟨h3, g3⟩⟩, rfl, by simp [Spec.admits, abs, absT, allUntil_eq]⟩
  | equalOther => exact ⟨_, _, rfl, ⟨⟨h, g1⟩, ⟨h2, g2⟩, ⟨h3, g3⟩⟩, rfl, rfl⟩
  | traverse o limit =>
    refine ⟨_, _, rfl, ⟨⟨h, g1⟩, ⟨h2, g2⟩, ⟨h3, g3⟩⟩, rfl, ?_⟩
    cases o
    case other => simp [Spec.admits, traverseCollect_other]
    case lvr => simp [Spec.admits, abs, absT, traverseCollect_eq .lvr (by decide), listing_lvr]
    case ascending => simp [Spec.admits, abs, absT, traverseCollect_eq .ascending (by decide), listing_ascending]
    case rvl => simp [Spec.admits, abs, absT, traverseCollect_eq .rvl (by decide), listing_rvl]
    case descending => simp [Spec.admits, abs, absT, traverseCollect_eq .descending (by decide), listing_descending]
    case vlr =>
      exact ⟨_, listing_perm .vlr (by decide) s1, by rw [traverseCollect_eq .vlr (by decide)]⟩
    case vrl =>
      exact ⟨_, listing_perm .vrl (by decide) s1, by rw [traverseCollect_eq .vrl (by decide)]⟩
    case lrv =>
      exact ⟨_, listing_perm .lrv (by decide) s1, by rw [traverseCollect_eq .lrv (by decide)]⟩
    case rlv =>
      exact ⟨_, listing_perm .rlv (by decide) s1, by rw [traverseCollect_eq .rlv (by decide)]⟩
  | equal =>
    exact ⟨_, _, rfl, ⟨⟨h, g1⟩, ⟨h2, g2⟩, ⟨h3, g3⟩⟩, rfl,
      by simp [Spec.admits, abs, absT, equal_eq c1 c2 h h2 q1 i1.1 i2.1]⟩
  | equalSelf =>
    exact ⟨_, _, rfl, ⟨⟨h, g1⟩, ⟨h2, g2⟩, ⟨h3, g3⟩⟩, rfl,
      by simp [Spec.admits, abs, absT, equal_eq c1 c1 h h q1 i1.1 i1.1]⟩
  | anyMatch p => exact ⟨_, _, rfl, ⟨⟨h, g1⟩, ⟨h2, g2⟩, ⟨h3, g3⟩⟩, rfl, by simp [Spec.admits, abs, absT, anyMatch_eq]⟩
  | allMatch p => exact ⟨_, _, rfl, ⟨⟨h, g1⟩, ⟨h2, g2⟩, ⟨h3, g3⟩⟩, rfl, by simp [Spec.admits, abs, absT, allMatch_eq]⟩
  | firstMatch p =>
    refine ⟨_, _, rfl, ⟨⟨h, g1⟩, ⟨h2, g2⟩, ⟨h3, g3⟩⟩, rfl, ?_⟩
    simp only [Spec.admits, abs, absT]
    rcases firstMatch_admits p s1 with ⟨e, hall⟩ | ⟨x, hx, hp, e⟩
    · left; exact ⟨by rw [e], hall⟩
    · right; exact ⟨x, hx, hp, by rw [e]⟩
  | selectMatch p =>
    obtain ⟨m, e, g, l⟩ := selectMatch_ok hk1 h p s1 g1
    exact ⟨(⟨c1, q1, s1⟩, ⟨c1, q1, m⟩, ⟨c3, q3, s3⟩), .list (all m), by simp [step, Table.set, e],
      ⟨⟨h, g1⟩, ⟨h, g⟩, ⟨h3, g3⟩⟩, by simp [abs, absT, Spec.next, Spec.Tab.set, l],
      by simp [Spec.admits, abs, absT, all_eq, l]⟩
  | partitionMatch p =>
    obtain ⟨m, u, e, gm, gu, lm, lu⟩ := partitionMatch_ok hk1 h p s1 g1
    exact ⟨(⟨c1, q1, s1⟩, ⟨c1, q1, m⟩, ⟨c1, q1, u⟩), .list2 (all m) (all u), by simp [step, Table.set, e],
      ⟨⟨h, g1⟩, ⟨h, gm⟩, ⟨h, gu⟩⟩, by simp [abs, absT, Spec.next, Spec.Tab.set, lm, lu],
      by simp [Spec.admits, abs, absT, all_eq, lm, lu]⟩

/-- whole histories -/
theorem runFrom_ok (hk : ∀ cmp : K → K → Int, LawfulCmp cmp → KindOK kind cmp (Good cmp)) :
    ∀ (ops : List (Op K V)) (s : State K V), GoodS Good s →
      ∃ s' outs, runFrom kind s ops = .ok (s', outs) ∧ GoodS Good s' ∧ Spec.accepts (abs s) ops outs
  | [], s, hs => ⟨s, [], rfl, hs, trivial⟩
  | op :: ops, s, hs => by
    obtain ⟨s1, o, e1, g1, a1, ad1⟩ := step_ok hk s hs op
    obtain ⟨s2, outs, e2, g2, acc⟩ := runFrom_ok hk ops s1 g1
    refine ⟨s2, o :: outs, ?_, g2, ?_⟩
    · simp [runFrom, e1, e2]
    · exact ⟨ad1, by rw [← a1]; exact acc⟩

/-- three fresh tables, each constructed with its own lawful comparator (and any value equality), are a good
state whose abstraction is three empty abstract tables with the same parameters -/
theorem goodS_new (hk : ∀ cmp : K → K → Int, LawfulCmp cmp → KindOK kind cmp (Good cmp))
    {cmpA cmpB cmpC : K → K → Int} (hA : LawfulCmp cmpA) (hB : LawfulCmp cmpB) (hC : LawfulCmp cmpC)
    (eqA eqB eqC : V → V → Bool) :
    GoodS Good (Table.new cmpA eqA, Table.new cmpB eqB, Table.new cmpC eqC) :=
  ⟨⟨hA, (hk cmpA hA).good_nil⟩, ⟨hB, (hk cmpB hB).good_nil⟩, ⟨hC, (hk cmpC hC).good_nil⟩⟩

end
end AlgoVerif.C01
