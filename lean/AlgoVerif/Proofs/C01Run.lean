import AlgoVerif.Proofs.C01Traverse
/-!
# C01: from per-mutator refinement lemmas to whole histories

`KindOK kind cmp Good` packages what has to be shown for one tree kind: an invariant `Good` that
holds of the empty tree, implies the shared invariant `Inv`, and is preserved by the four
mutators, each of which refines the corresponding operation of the abstract map and returns what
the abstract map returns.  Everything else (queries, `Equal`, the `*Match` family, whole
histories) is derived here once.
-/
namespace AlgoVerif.C01
open Tree

variable {K V : Type}

@[simp] theorem Outcome.ok_bind' {α β : Type} (a : α) (f : α → Outcome β) :
    (Outcome.ok a >>= f) = f a := rfl
@[simp] theorem Outcome.panic_bind' {α β : Type} (f : α → Outcome β) :
    (Outcome.panic >>= f) = Outcome.panic := rfl
@[simp] theorem Outcome.diverge_bind' {α β : Type} (f : α → Outcome β) :
    (Outcome.diverge >>= f) = Outcome.diverge := rfl
@[simp] theorem Outcome.pure_eq' {α : Type} (a : α) : (pure a : Outcome α) = Outcome.ok a := rfl

structure KindOK (kind : Kind) (cmp : K → K → Int) (Good : Tree K V → Prop) : Prop where
  good_nil : Good .nil
  inv : ∀ t, Good t → Inv cmp t
  put : ∀ t k v, Good t →
    ∃ t', put kind cmp t k v = .ok t' ∧ Good t' ∧ t'.toList = Spec.upsert cmp k v t.toList
  delete : ∀ t k, Good t →
    ∃ t', delete kind cmp t k = .ok (t', Spec.get cmp k t.toList) ∧ Good t' ∧
      t'.toList = Spec.remove cmp k t.toList
  deleteMin : ∀ t, Good t →
    ∃ t', deleteMin kind t = .ok (t', Spec.first t.toList) ∧ Good t' ∧ t'.toList = t.toList.tail
  deleteMax : ∀ t, Good t →
    ∃ t', deleteMax kind t = .ok (t', Spec.last t.toList) ∧ Good t' ∧ t'.toList = t.toList.dropLast

/-- abstraction function on states -/
def abs (s : State K V) : Spec.State K V := (s.1.toList, s.2.1.toList, s.2.2.toList)

section
variable {kind : Kind} {cmp : K → K → Int} {Good : Tree K V → Prop}

/-- the `SelectMatch` scan: `Put`s into a good table keep it good and build the abstract map -/
theorem foldUntil_select (hk : KindOK kind cmp Good) (p : K → V → Bool) :
    ∀ (xs : List (K × V)) (m : Tree K V), Good m →
      ∃ m', (foldUntil (selectVisit kind cmp p) xs (.ok m)).2 = .ok m' ∧ Good m' ∧
        m'.toList = build cmp (fun x => p x.1 x.2) xs m.toList
  | [], m, hm => ⟨m, rfl, hm, rfl⟩
  | (k, v) :: xs, m, hm => by
    simp only [foldUntil, selectVisit, Outcome.ok_bind', build, List.foldl_cons]
    by_cases hp : p k v = true
    · obtain ⟨m1, h1, h2, h3⟩ := hk.put m k v hm
      simp only [hp, if_true, h1]
      obtain ⟨m', h4, h5, h6⟩ := foldUntil_select hk p xs m1 h2
      exact ⟨m', h4, h5, by rw [h6, h3]; rfl⟩
    · simp only [hp, Outcome.pure_eq']
      obtain ⟨m', h4, h5, h6⟩ := foldUntil_select hk p xs m hm
      refine ⟨m', h4, h5, ?_⟩
      rw [h6]; simp [build, hp]

theorem selectMatch_ok (hk : KindOK kind cmp Good) (h : LawfulCmp cmp) (p : K → V → Bool) (t : Tree K V)
    (ht : Good t) :
    ∃ m, selectMatch kind cmp p t = .ok m ∧ Good m ∧ m.toList = t.toList.filter (fun x => p x.1 x.2) := by
  unfold selectMatch
  rw [traverse_eq _ (by decide)]
  obtain ⟨m, h1, h2, h3⟩ := foldUntil_select hk p (listing .vlr t) .nil hk.good_nil
  refine ⟨m, h1, h2, ?_⟩
  rw [h3]
  exact build_perm h _ (hk.inv t ht).1 (listing_perm .vlr (by decide) t)

theorem foldUntil_partition (hk : KindOK kind cmp Good) (p : K → V → Bool) :
    ∀ (xs : List (K × V)) (m u : Tree K V), Good m → Good u →
      ∃ m' u', (foldUntil (partitionVisit kind cmp p) xs (.ok (m, u))).2 = .ok (m', u') ∧ Good m' ∧ Good u' ∧
        m'.toList = build cmp (fun x => p x.1 x.2) xs m.toList ∧
        u'.toList = build cmp (fun x => !p x.1 x.2) xs u.toList
  | [], m, u, hm, hu => ⟨m, u, rfl, hm, hu, rfl, rfl⟩
  | (k, v) :: xs, m, u, hm, hu => by
    simp only [foldUntil, partitionVisit, Outcome.ok_bind', build, List.foldl_cons]
    by_cases hp : p k v = true
    · obtain ⟨m1, h1, h2, h3⟩ := hk.put m k v hm
      simp only [hp, if_true, h1, Outcome.ok_bind', Outcome.pure_eq']
      obtain ⟨m', u', h4, h5, h6, h7, h8⟩ := foldUntil_partition hk p xs m1 u h2 hu
      refine ⟨m', u', h4, h5, h6, by rw [h7, h3]; rfl, ?_⟩
      rw [h8]; simp [build]
    · obtain ⟨u1, h1, h2, h3⟩ := hk.put u k v hu
      simp only [hp, h1, Outcome.ok_bind', Outcome.pure_eq']
      obtain ⟨m', u', h4, h5, h6, h7, h8⟩ := foldUntil_partition hk p xs m u1 hm h2
      refine ⟨m', u', h4, h5, h6, ?_, ?_⟩
      · rw [h7]; simp [build, hp]
      · rw [h8, h3]; simp [build, hp]

theorem partitionMatch_ok (hk : KindOK kind cmp Good) (h : LawfulCmp cmp) (p : K → V → Bool) (t : Tree K V)
    (ht : Good t) :
    ∃ m u, partitionMatch kind cmp p t = .ok (m, u) ∧ Good m ∧ Good u ∧
      m.toList = t.toList.filter (fun x => p x.1 x.2) ∧ u.toList = t.toList.filter (fun x => !p x.1 x.2) := by
  unfold partitionMatch
  rw [traverse_eq _ (by decide)]
  obtain ⟨m, u, h1, h2, h3, h4, h5⟩ :=
    foldUntil_partition hk p (listing .vlr t) .nil .nil hk.good_nil hk.good_nil
  refine ⟨m, u, h1, h2, h3, ?_, ?_⟩
  · rw [h4]; exact build_perm h _ (hk.inv t ht).1 (listing_perm .vlr (by decide) t)
  · rw [h5]; exact build_perm h _ (hk.inv t ht).1 (listing_perm .vlr (by decide) t)

/-- one call: the Model does not fail, stays good, follows the abstract map, and its result is
admitted by the abstract map -/
theorem step_ok (hk : KindOK kind cmp Good) (h : LawfulCmp cmp) (eqVal : V → V → Bool) (s : State K V)
    (hs : Good s.1 ∧ Good s.2.1 ∧ Good s.2.2) (op : Op K V) :
    ∃ s' o, step kind cmp eqVal s op = .ok (s', o) ∧ (Good s'.1 ∧ Good s'.2.1 ∧ Good s'.2.2) ∧
      abs s' = Spec.next cmp (abs s) op ∧ Spec.admits cmp eqVal (abs s) op o := by
  obtain ⟨s1, s2, s3⟩ := s
  obtain ⟨g1, g2, g3⟩ := hs
  have i1 := hk.inv s1 g1
  have i2 := hk.inv s2 g2
  cases op with
  | put k v =>
    obtain ⟨t', e, g, l⟩ := hk.put s1 k v g1
    exact ⟨(t', s2, s3), .unit, by simp [step, e], ⟨g, g2, g3⟩, by simp [abs, Spec.next, l], rfl⟩
  | delete k =>
    obtain ⟨t', e, g, l⟩ := hk.delete s1 k g1
    exact ⟨(t', s2, s3), .optV (Spec.get cmp k s1.toList), by simp [step, e], ⟨g, g2, g3⟩, by simp [abs, Spec.next, l], rfl⟩
  | deleteMin =>
    obtain ⟨t', e, g, l⟩ := hk.deleteMin s1 g1
    exact ⟨(t', s2, s3), .optKV (Spec.first s1.toList), by simp [step, e], ⟨g, g2, g3⟩, by simp [abs, Spec.next, l], rfl⟩
  | deleteMax =>
    obtain ⟨t', e, g, l⟩ := hk.deleteMax s1 g1
    exact ⟨(t', s2, s3), .optKV (Spec.last s1.toList), by simp [step, e], ⟨g, g2, g3⟩, by simp [abs, Spec.next, l], rfl⟩
  | deleteAll => exact ⟨(.nil, s2, s3), .unit, rfl, ⟨hk.good_nil, g2, g3⟩, rfl, rfl⟩
  | swap => exact ⟨(s2, s1, s3), .unit, rfl, ⟨g2, g1, g3⟩, rfl, rfl⟩
  | swapC => exact ⟨(s3, s2, s1), .unit, rfl, ⟨g3, g2, g1⟩, rfl, rfl⟩
  | size =>
    exact ⟨(s1, s2, s3), _, rfl, ⟨g1, g2, g3⟩, rfl, by simp [Spec.admits, abs, sz_eq_length i1.2]⟩
  | isEmpty =>
    exact ⟨(s1, s2, s3), _, rfl, ⟨g1, g2, g3⟩, rfl, by simp [Spec.admits, abs, isNil_iff_toList]⟩
  | height => exact ⟨(s1, s2, s3), _, rfl, ⟨g1, g2, g3⟩, rfl, ⟨_, rfl⟩⟩
  | get k => exact ⟨(s1, s2, s3), _, rfl, ⟨g1, g2, g3⟩, rfl, by simp [Spec.admits, abs, get_eq h k i1.1]⟩
  | min => exact ⟨(s1, s2, s3), _, rfl, ⟨g1, g2, g3⟩, rfl, by simp [Spec.admits, abs, minKV_eq]⟩
  | max => exact ⟨(s1, s2, s3), _, rfl, ⟨g1, g2, g3⟩, rfl, by simp [Spec.admits, abs, maxKV_eq]⟩
  | floor k => exact ⟨(s1, s2, s3), _, rfl, ⟨g1, g2, g3⟩, rfl, by simp [Spec.admits, abs, floor_eq h k i1.1]⟩
  | ceiling k => exact ⟨(s1, s2, s3), _, rfl, ⟨g1, g2, g3⟩, rfl, by simp [Spec.admits, abs, ceiling_eq h k i1.1]⟩
  | select i =>
    exact ⟨(s1, s2, s3), .optKV (Spec.select s1.toList i), by simp [step, select_eq i1.2], ⟨g1, g2, g3⟩, rfl, rfl⟩
  | rank k => exact ⟨(s1, s2, s3), _, rfl, ⟨g1, g2, g3⟩, rfl, by simp [Spec.admits, abs, rank_eq h k i1]⟩
  | range lo hi =>
    exact ⟨(s1, s2, s3), _, rfl, ⟨g1, g2, g3⟩, rfl, by simp [Spec.admits, abs, range_eq h lo hi i1.1]⟩
  | rangeSize lo hi =>
    refine ⟨(s1, s2, s3), _, rfl, ⟨g1, g2, g3⟩, rfl, ?_⟩
    simp only [Spec.admits, abs, rangeSize, get_eq h _ i1.1, rank_eq h _ i1]
    rw [← rangeSize_spec h lo hi i1.1]
  | all => exact ⟨(s1, s2, s3), _, rfl, ⟨g1, g2, g3⟩, rfl, by simp [Spec.admits, abs, all_eq]⟩
  | allUntil limit =>
    exact ⟨(s1, s2, s3), _, rfl, ⟨g1, g2, g3⟩, rfl, by simp [Spec.admits, abs, allUntil_eq]⟩
  | equalOther => exact ⟨(s1, s2, s3), _, rfl, ⟨g1, g2, g3⟩, rfl, rfl⟩
  | traverse o limit =>
    refine ⟨(s1, s2, s3), _, rfl, ⟨g1, g2, g3⟩, rfl, ?_⟩
    cases o
    case other => simp [Spec.admits, abs, traverseCollect_other]
    case lvr => simp [Spec.admits, abs, traverseCollect_eq .lvr (by decide), listing_lvr]
    case ascending => simp [Spec.admits, abs, traverseCollect_eq .ascending (by decide), listing_ascending]
    case rvl => simp [Spec.admits, abs, traverseCollect_eq .rvl (by decide), listing_rvl]
    case descending => simp [Spec.admits, abs, traverseCollect_eq .descending (by decide), listing_descending]
    case vlr =>
      exact ⟨_, listing_perm .vlr (by decide) s1, by rw [traverseCollect_eq .vlr (by decide)]⟩
    case vrl =>
      exact ⟨_, listing_perm .vrl (by decide) s1, by rw [traverseCollect_eq .vrl (by decide)]⟩
    case lrv =>
      exact ⟨_, listing_perm .lrv (by decide) s1, by rw [traverseCollect_eq .lrv (by decide)]⟩
    case rlv =>
      exact ⟨_, listing_perm .rlv (by decide) s1, by rw [traverseCollect_eq .rlv (by decide)]⟩
  | equal =>
    exact ⟨(s1, s2, s3), _, rfl, ⟨g1, g2, g3⟩, rfl, by simp [Spec.admits, abs, equal_eq cmp h eqVal i1.1 i2.1]⟩
  | anyMatch p => exact ⟨(s1, s2, s3), _, rfl, ⟨g1, g2, g3⟩, rfl, by simp [Spec.admits, abs, anyMatch_eq]⟩
  | allMatch p => exact ⟨(s1, s2, s3), _, rfl, ⟨g1, g2, g3⟩, rfl, by simp [Spec.admits, abs, allMatch_eq]⟩
  | firstMatch p =>
    refine ⟨(s1, s2, s3), _, rfl, ⟨g1, g2, g3⟩, rfl, ?_⟩
    simp only [Spec.admits, abs]
    rcases firstMatch_admits p s1 with ⟨e, hall⟩ | ⟨x, hx, hp, e⟩
    · left; exact ⟨by rw [e], hall⟩
    · right; exact ⟨x, hx, hp, by rw [e]⟩
  | selectMatch p =>
    obtain ⟨m, e, g, l⟩ := selectMatch_ok hk h p s1 g1
    exact ⟨(s1, m, s3), .list (all m), by simp [step, e], ⟨g1, g, g3⟩, by simp [abs, Spec.next, l],
      by simp [Spec.admits, abs, all_eq, l]⟩
  | partitionMatch p =>
    obtain ⟨m, u, e, gm, gu, lm, lu⟩ := partitionMatch_ok hk h p s1 g1
    exact ⟨(s1, m, u), .list2 (all m) (all u), by simp [step, e], ⟨g1, gm, gu⟩, by simp [abs, Spec.next, lm, lu],
      by simp [Spec.admits, abs, all_eq, lm, lu]⟩

/-- whole histories -/
theorem runFrom_ok (hk : KindOK kind cmp Good) (h : LawfulCmp cmp) (eqVal : V → V → Bool) :
    ∀ (ops : List (Op K V)) (s : State K V), (Good s.1 ∧ Good s.2.1 ∧ Good s.2.2) →
      ∃ s' outs, runFrom kind cmp eqVal s ops = .ok (s', outs) ∧ (Good s'.1 ∧ Good s'.2.1 ∧ Good s'.2.2) ∧
        Spec.accepts cmp eqVal (abs s) ops outs
  | [], s, hs => ⟨s, [], rfl, hs, trivial⟩
  | op :: ops, s, hs => by
    obtain ⟨s1, o, e1, g1, a1, ad1⟩ := step_ok hk h eqVal s hs op
    obtain ⟨s2, outs, e2, g2, acc⟩ := runFrom_ok hk h eqVal ops s1 g1
    refine ⟨s2, o :: outs, ?_, g2, ?_⟩
    · simp [runFrom, e1, e2]
    · exact ⟨ad1, by rw [← a1]; exact acc⟩

end
end AlgoVerif.C01
