import AlgoVerif.Model.C10Edit
import AlgoVerif.Proofs.C10Ext
/-!
Helper lemmas for the third part of the C10 / C12 Model (`Model/C10Edit.lean`): edits keep the grammar a set
grammar, the lexer's answers refine to the token list, one parser object over a history of edits and parses.
-/
namespace AlgoVerif.C10
open AlgoVerif AlgoVerif.Gram

section
variable {T N : Type} [DecidableEq T] [DecidableEq N]

/-! ## edits keep sets sets -/

theorem insertNew_nodup {α : Type} [DecidableEq α] (x : α) {l : List α} (h : l.Nodup) : (insertNew x l).Nodup := by
  unfold insertNew
  split
  · exact h
  · rename_i hx
    rw [List.nodup_append]
    refine ⟨h, List.nodup_cons.2 ⟨by simp, List.nodup_nil⟩, ?_⟩
    intro a ha b hb
    simp only [List.mem_singleton] at hb
    subst hb
    intro hab
    subst hab
    exact hx ha

theorem filter_nodup {α : Type} (p : α → Bool) {l : List α} (h : l.Nodup) : (l.filter p).Nodup :=
  h.sublist List.filter_sublist

/-- replacing one member by a new one keeps a list duplicate-free -/
theorem replace_nodup {α : Type} [DecidableEq α] (p p' : α) :
    ∀ {l : List α}, l.Nodup → p' ∉ l → (l.map fun q => if q = p then p' else q).Nodup := by
  intro l
  induction l with
  | nil => intro _ _; exact List.nodup_nil
  | cons x rest ih =>
    intro h hp'
    rw [List.nodup_cons] at h
    have hp'x : p' ≠ x := fun e => hp' (e ▸ List.mem_cons_self ..)
    have hp'r : p' ∉ rest := fun e => hp' (List.mem_cons_of_mem _ e)
    simp only [List.map_cons]
    rw [List.nodup_cons]
    refine ⟨?_, ih h.2 hp'r⟩
    intro hmem
    rw [List.mem_map] at hmem
    obtain ⟨q, hq, he⟩ := hmem
    by_cases hx : x = p
    · simp only [hx, if_true] at he
      by_cases hqp : q = p
      · exact h.1 (hx ▸ hqp ▸ hq)
      · simp only [hqp, if_false] at he
        exact hp'r (he ▸ hq)
    · simp only [hx, if_false] at he
      by_cases hqp : q = p
      · simp only [hqp, if_true] at he
        exact hp'x he
      · simp only [hqp, if_false] at he
        exact h.1 (he ▸ hq)

theorem applyEdit_isSet (g : Grammar T N) (e : Edit T N) (h : IsSetGrammar g) : IsSetGrammar (applyEdit g e) := by
  obtain ⟨ht, hn, hp⟩ := h
  cases e with
  | addTerm t => exact ⟨insertNew_nodup t ht, hn, hp⟩
  | removeTerm t => exact ⟨filter_nodup _ ht, hn, hp⟩
  | addNonterm n => exact ⟨ht, insertNew_nodup n hn, hp⟩
  | removeNonterm n => exact ⟨ht, filter_nodup _ hn, hp⟩
  | setStart n => exact ⟨ht, hn, hp⟩
  | addProd p => exact ⟨ht, hn, insertNew_nodup p hp⟩
  | removeProd p => exact ⟨ht, hn, filter_nodup _ hp⟩
  | removeAll h' => exact ⟨ht, hn, filter_nodup _ hp⟩
  | getAdd p =>
    simp only [applyEdit]
    split
    · exact ⟨ht, hn, insertNew_nodup p hp⟩
    · exact ⟨ht, hn, hp⟩
  | getRemove p => exact ⟨ht, hn, filter_nodup _ hp⟩
  | setBody p body =>
    simp only [applyEdit]
    split
    · rename_i hc
      exact ⟨ht, hn, replace_nodup p ⟨p.head, body⟩ hp hc.2⟩
    · exact ⟨ht, hn, hp⟩
  | refresh => exact ⟨ht, hn, hp⟩

theorem applyEdits_isSet (es : List (Edit T N)) : ∀ (g : Grammar T N), IsSetGrammar g → IsSetGrammar (applyEdits g es) := by
  induction es with
  | nil => intro g h; exact h
  | cons e rest ih => intro g h; exact ih _ (applyEdit_isSet g e h)

/-! ## the lexer -/

theorem lexCall_zero (a : LexAnswer T) (rest : List (LexAnswer T)) : lexCall (a :: rest) 0 = a := by
  simp [lexCall]

theorem lexCall_succ (a : LexAnswer T) (rest : List (LexAnswer T)) (k : Nat) :
    lexCall (a :: rest) (k + 1) = lexCall rest k := by
  simp [lexCall]

theorem lexCall_spec : ∀ (lx : List (LexAnswer T)) (k : Nat),
    (∀ (h : k < (lexTokens lx).length), lexCall lx k = .tok ((lexTokens lx)[k])) ∧
    (k = (lexTokens lx).length →
      (lexCall lx k = .fail ∧ lexFailAt lx = some k) ∨ ((∃ j, lexCall lx k = .eof j) ∧ lexFailAt lx = none)) := by
  intro lx
  induction lx with
  | nil =>
    intro k
    refine ⟨fun h => absurd h (by simp [lexTokens]), fun _ => Or.inr ⟨⟨none, by simp [lexCall]⟩, rfl⟩⟩
  | cons a rest ih =>
    intro k
    cases a with
    | tok t =>
      cases k with
      | zero =>
        refine ⟨fun _ => by simp [lexCall_zero, lexTokens], fun h => absurd h (by simp [lexTokens])⟩
      | succ k =>
        have := ih k
        refine ⟨fun h => ?_, fun h => ?_⟩
        · have h' : k < (lexTokens rest).length := by simpa [lexTokens] using h
          have e := this.1 h'
          rw [lexCall_succ, e]
          simp [lexTokens]
        · have h' : k = (lexTokens rest).length := by simpa [lexTokens] using h
          rcases this.2 h' with ⟨e1, e2⟩ | ⟨⟨j, e1⟩, e2⟩
          · left
            rw [lexCall_succ]
            exact ⟨e1, by simp [lexFailAt, e2]⟩
          · right
            rw [lexCall_succ]
            exact ⟨⟨j, e1⟩, by simp [lexFailAt, e2]⟩
    | eof j =>
      refine ⟨fun h => absurd h (by simp [lexTokens]), fun h => ?_⟩
      have : k = 0 := by simpa [lexTokens] using h
      subst this
      exact Or.inr ⟨⟨j, by simp [lexCall_zero]⟩, rfl⟩
    | fail =>
      refine ⟨fun h => absurd h (by simp [lexTokens]), fun h => ?_⟩
      have : k = 0 := by simpa [lexTokens] using h
      subst this
      exact Or.inl ⟨by simp [lexCall_zero], rfl⟩

theorem lexFailAt_eq_length {lx : List (LexAnswer T)} {k : Nat} (h : lexFailAt lx = some k) :
    k = (lexTokens lx).length := by
  induction lx generalizing k with
  | nil => simp [lexFailAt] at h
  | cons a rest ih =>
    cases a with
    | tok t =>
      simp only [lexFailAt, Option.map_eq_some_iff] at h
      obtain ⟨j, hj, rfl⟩ := h
      simp [lexTokens, ih hj]
    | eof j => simp [lexFailAt] at h
    | fail =>
      simp only [lexFailAt, Option.some.injEq] at h
      simp [lexTokens, ← h]

/-- **the loop reading from the lexer is the loop on the token list**: at every state in which `pos` tokens have been
consumed, the current token is the `pos`-th token the lexer delivers (the endmarker behind the last one) -/
theorem parseRunL_eq (M : N → Option T → List (GProd T N)) (lx : List (LexAnswer T)) (tokFail prodFail : Option Nat) :
    ∀ (fuel : Nat) (stack : List (Sym T N)) (pos np : Nat), pos ≤ (lexTokens lx).length →
      parseRunL M lx tokFail prodFail fuel stack ((lexTokens lx)[pos]?) pos np =
      parseRunF M (lexFailAt lx) tokFail prodFail fuel stack ((lexTokens lx).drop pos) pos np := by
  intro fuel
  induction fuel with
  | zero => intro stack pos np _; simp [parseRunL, parseRunF]
  | succ fuel ih =>
    intro stack pos np hpos
    cases stack with
    | nil =>
      by_cases hlt : pos < (lexTokens lx).length
      · rw [List.getElem?_eq_getElem hlt, List.drop_eq_getElem_cons hlt]
        simp [parseRunL, parseRunF]
      · have : pos = (lexTokens lx).length := by omega
        subst this
        simp [parseRunL, parseRunF]
    | cons X stack =>
      cases X with
      | nonterm A =>
        have hh : ((lexTokens lx).drop pos).head? = (lexTokens lx)[pos]? := by
          simp [List.head?_drop]
        simp only [parseRunL, parseRunF, hh]
        generalize M A (lexTokens lx)[pos]? = cell
        match cell with
        | [] => rfl
        | [p] =>
          simp only []
          split
          · rfl
          · rw [ih _ pos (np + 1) hpos]
        | _ :: _ :: _ => rfl
      | term t =>
        by_cases hlt : pos < (lexTokens lx).length
        · rw [List.getElem?_eq_getElem hlt, List.drop_eq_getElem_cons hlt]
          simp only [parseRunL, parseRunF]
          split
          · split
            · rfl
            · -- the next call of the lexer is call number pos + 1
              by_cases hlt' : pos + 1 < (lexTokens lx).length
              · have hc := (lexCall_spec lx (pos + 1)).1 hlt'
                have hf : lexFailAt lx ≠ some (pos + 1) := by
                  intro e
                  have := lexFailAt_eq_length e
                  omega
                rw [hc]
                simp only [hf, if_false]
                rw [← ih stack (pos + 1) np (by omega), List.getElem?_eq_getElem hlt']
              · have he : pos + 1 = (lexTokens lx).length := by omega
                rcases (lexCall_spec lx (pos + 1)).2 he with ⟨e1, e2⟩ | ⟨⟨j, e1⟩, e2⟩
                · rw [e1]
                  simp [e2]
                · rw [e1]
                  have hf : lexFailAt lx ≠ some (pos + 1) := by rw [e2]; simp
                  simp only [hf, if_false]
                  rw [← ih stack (pos + 1) np (by omega)]
                  have : (lexTokens lx)[pos + 1]? = none := by
                    rw [List.getElem?_eq_none_iff]; omega
                  rw [this]
          · rfl
        · have : pos = (lexTokens lx).length := by omega
          subst this
          simp [parseRunL, parseRunF]

/-- **`Parse` sees the token list**: whatever the lexer's way of saying that the input is over — `io.EOF` itself,
wrapped, joined, an error type of its own, with or without a token beside it — `Parse` on that lexer is `Parse` on the
tokens it delivered before; and an error that is not an end-of-input error is the failing call of `parseWithF`. -/
theorem parseWithL_eq (g : Grammar T N) (an : Analysis T N) (lx : List (LexAnswer T)) (tokFail prodFail : Option Nat)
    (fuel : Nat) :
    parseWithL g an lx tokFail prodFail fuel = parseWithF g an (lexFailAt lx) tokFail prodFail fuel (lexTokens lx) := by
  unfold parseWithL parseWithF
  dsimp only
  split
  · have h0 := parseRunL_eq (tcell (buildTable (firstStr an.first) an.follow g.prods g.nonterms)) lx tokFail prodFail
      fuel [.nonterm g.start] 0 0 (Nat.zero_le _)
    simp only [List.drop_zero] at h0
    by_cases hlt : 0 < (lexTokens lx).length
    · have hc := (lexCall_spec lx 0).1 hlt
      have hf : lexFailAt lx ≠ some 0 := by
        intro e
        have := lexFailAt_eq_length e
        omega
      rw [hc]
      simp only [hf, if_false]
      rw [← h0, List.getElem?_eq_getElem hlt]
    · have he : 0 = (lexTokens lx).length := by omega
      rcases (lexCall_spec lx 0).2 he with ⟨e1, e2⟩ | ⟨⟨j, e1⟩, e2⟩
      · rw [e1]
        simp [e2]
      · rw [e1]
        have hf : lexFailAt lx ≠ some 0 := by rw [e2]; simp
        simp only [hf, if_false]
        rw [← h0]
        have : (lexTokens lx)[0]? = none := by
          rw [List.getElem?_eq_none_iff]; omega
        rw [this]
  · rfl

/-! ## one parser object, a history of edits and parses -/

/-- a fresh parser on grammar `g` -/
def freshParse (fuel : Nat) (g : Grammar T N) (w : List T) (o₁ o₂ : IterOrder T N) : Outcome (ParseOut T N) :=
  match analyse g o₁ o₂ with
  | .ok an => parseWith g an fuel w
  | .panic => .panic
  | .diverge => .diverge

/-- the edits of a history -/
def editsOf : List (PStep T N) → List (Edit T N)
  | [] => []
  | .edit e :: rest => e :: editsOf rest
  | .parse _ _ _ :: rest => editsOf rest

/-- the number of `Parse` calls of a history -/
def parsesIn : List (PStep T N) → Nat
  | [] => 0
  | .edit _ :: rest => parsesIn rest
  | .parse _ _ _ :: rest => parsesIn rest + 1

theorem parserHistory_length (fuel : Nat) : ∀ (steps : List (PStep T N)) (g : Grammar T N),
    (parserHistory fuel g steps).length = parsesIn steps := by
  intro steps
  induction steps with
  | nil => intro g; rfl
  | cons s rest ih =>
    intro g
    cases s with
    | edit e => simp [parserHistory, parsesIn, ih]
    | parse w o₁ o₂ => simp [parserHistory, parsesIn, ih]

theorem parserHistory_append (fuel : Nat) : ∀ (pre post : List (PStep T N)) (g : Grammar T N),
    parserHistory fuel g (pre ++ post) =
      parserHistory fuel g pre ++ parserHistory fuel (applyEdits g (editsOf pre)) post := by
  intro pre
  induction pre with
  | nil => intro post g; rfl
  | cons s rest ih =>
    intro post g
    cases s with
    | edit e => simp [parserHistory, editsOf, applyEdits, ih, List.foldl_cons]
    | parse w o₁ o₂ => simp [parserHistory, editsOf, ih]

/-- the `Parse` that comes after the steps `pre` is the `Parse` of a fresh parser on the grammar as `pre` left it -/
theorem parserHistory_at (fuel : Nat) (g : Grammar T N) (pre post : List (PStep T N)) (w : List T) (o₁ o₂ : IterOrder T N) :
    (parserHistory fuel g (pre ++ .parse w o₁ o₂ :: post))[parsesIn pre]? =
      some (freshParse fuel (applyEdits g (editsOf pre)) w o₁ o₂) := by
  rw [parserHistory_append]
  rw [List.getElem?_append_right (by rw [parserHistory_length]; exact Nat.le_refl _)]
  rw [parserHistory_length, Nat.sub_self]
  simp only [parserHistory, freshParse, List.getElem?_cons_zero]
  rfl

end

end AlgoVerif.C10
