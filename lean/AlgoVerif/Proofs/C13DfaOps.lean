import AlgoVerif.Proofs.C13SM
/-! C13: `EliminateDeadStates` and `ReindexStates` preserve the language (whenever they return). -/
namespace AlgoVerif.C13
open AlgoVerif AlgoVerif.C13.Spec

/-! ### DFAs built by a sequence of `Add`s -/

theorem DFA.fold_sound (L : List (Int × Int × Int)) (d0 : DFA) (x a y : Int)
    (h : (L.foldl (fun acc e => acc.add e.1 e.2.1 e.2.2) d0).δ x a = some y) :
    d0.δ x a = some y ∨ (x, a, y) ∈ L := by
  rw [DFA.δ_foldl_add] at h
  split at h
  · rename_i e he
    right
    have hm := List.mem_of_find?_eq_some he
    have hp := List.find?_some he
    obtain ⟨s1, a1, t1⟩ := e
    simp at hp h hm; obtain ⟨rfl, rfl⟩ := hp; subst h; exact hm
  · left; exact h

theorem DFA.fold_defined (L : List (Int × Int × Int)) (d0 : DFA) (x a : Int)
    (h : (d0.δ x a).isSome ∨ ∃ y, (x, a, y) ∈ L) :
    ((L.foldl (fun acc e => acc.add e.1 e.2.1 e.2.2) d0).δ x a).isSome := by
  rw [DFA.δ_foldl_add]
  split
  · simp
  · rename_i he
    rcases h with h | ⟨y, hy⟩
    · exact h
    · simp at he
      exact absurd rfl (he _ _ _ hy rfl)

/-- the DFA obtained by adding a list of entries to the empty table -/
def DFA.ofEntries (s : Int) (f : List Int) (L : List (Int × Int × Int)) : DFA :=
  L.foldl (fun (acc : DFA) e => acc.add e.1 e.2.1 e.2.2) ⟨s, f, []⟩

theorem DFA.ofEntries_start_final (s : Int) (f : List Int) (L : List (Int × Int × Int)) :
    (DFA.ofEntries s f L).start = s ∧ (DFA.ofEntries s f L).final = f :=
  DFA.start_foldl_add L ⟨s, f, []⟩

/-- if the added entries are functional, the table contains exactly them -/
theorem DFA.fold_iff (L : List (Int × Int × Int)) (s : Int) (f : List Int) (x a y : Int)
    (hfun : ∀ y y', (x, a, y) ∈ L → (x, a, y') ∈ L → y = y') :
    (DFA.ofEntries s f L).δ x a = some y ↔ (x, a, y) ∈ L := by
  unfold DFA.ofEntries
  constructor
  · intro h
    rcases DFA.fold_sound L _ x a y h with h' | h'
    · simp [DFA.δ, aget] at h'
    · exact h'
  · intro h
    have := DFA.fold_defined L ⟨s, f, []⟩ x a (Or.inr ⟨y, h⟩)
    rw [Option.isSome_iff_exists] at this
    obtain ⟨y', hy'⟩ := this
    rcases DFA.fold_sound L _ x a y' hy' with h' | h'
    · simp [DFA.δ, aget] at h'
    · rw [hy', hfun y y' h h']

theorem entries_fun {d : DFA} (h : d.WF) {s a t t' : Int} (h1 : (s, a, t) ∈ entries d.trans)
    (h2 : (s, a, t') ∈ entries d.trans) : t = t' := by
  have e1 := (mem_entries_DFA h _ _ _).1 h1
  have e2 := (mem_entries_DFA h _ _ _).1 h2
  rw [e1] at e2; injection e2

/-! ### the reversed graph and the depth-first search -/

theorem revAdj_mem (d : DFA) (s a t : Int) (h : (s, a, t) ∈ entries d.trans) :
    ∃ ts, aget t d.revAdj = some ts ∧ s ∈ ts := by
  have hrev : d.revAdj = (entries d.trans).foldl
      (fun adj e => aput e.2.2 (sins e.1 ((aget e.2.2 adj).getD [])) adj) [] := by
    simp only [DFA.revAdj]
    exact foldl_nested (γ := List (Int × List Int)) d.trans
      (fun adj s _ t => aput t (sins s ((aget t adj).getD [])) adj) []
  rw [hrev]
  suffices hgen : ∀ (L : List (Int × Int × Int)) (adj0 : List (Int × List Int)),
      ((s, a, t) ∈ L ∨ ∃ ts, aget t adj0 = some ts ∧ s ∈ ts) →
      ∃ ts, aget t (L.foldl (fun adj e => aput e.2.2 (sins e.1 ((aget e.2.2 adj).getD [])) adj) adj0) = some ts ∧ s ∈ ts by
    exact hgen _ _ (Or.inl h)
  intro L
  induction L with
  | nil => intro adj0 h; simpa using h
  | cons e L ih =>
    intro adj0 h
    simp only [List.foldl_cons]
    apply ih
    obtain ⟨s1, a1, t1⟩ := e
    simp only [List.mem_cons] at h
    rcases h with (h | h) | ⟨ts, h1, h2⟩
    · injection h with e1 e2; injection e2 with e2 e3; subst e1; subst e3
      right; exact ⟨_, aget_aput_self _ _ _, by simp⟩
    · left; exact h
    · right
      by_cases ht : t = t1
      · subst ht
        refine ⟨_, aget_aput_self _ _ _, ?_⟩
        simp [h1, h2]
      · exact ⟨ts, by rw [aget_aput_ne _ _ ht]; exact h1, h2⟩

/-- the set is closed at `x`: every successor of `x` in the graph is in it -/
def ClosedAt (adj : List (Int × List Int)) (V : List Int) (x : Int) : Prop :=
  ∀ ts, aget x adj = some ts → ∀ t ∈ ts, t ∈ V

theorem dfs_fold_notok (adj : List (Int × List Int)) (fuel : Nat) (ts : List Int) (o : Outcome (List Int))
    (ho : ∀ v, o ≠ .ok v) :
    ∀ V, ts.foldl (fun (acc : Outcome (List State)) t =>
        match acc with
        | .ok v => if v.contains t then .ok v else dfs adj fuel v t
        | o => o) o ≠ .ok V := by
  induction ts generalizing o with
  | nil => intro V; simpa using ho V
  | cons t ts ih =>
    intro V
    simp only [List.foldl_cons]
    apply ih
    intro v
    cases o with
    | ok v' => exact absurd rfl (ho v')
    | panic => simp
    | diverge => simp

theorem dfs_spec (adj : List (Int × List Int)) (fuel : Nat) (vis : List Int) (s : Int) (V : List Int)
    (h : dfs adj fuel vis s = .ok V) :
    (∀ x ∈ vis, x ∈ V) ∧ s ∈ V ∧ (∀ x ∈ V, x ∈ vis ∨ ClosedAt adj V x) := by
  induction fuel generalizing vis s V with
  | zero => simp [dfs] at h
  | succ fuel ih =>
    simp only [dfs] at h
    cases hs : aget s adj with
    | none =>
      simp only [hs] at h; injection h with h; subst h
      refine ⟨fun x hx => by simp [hx], by simp, ?_⟩
      intro x hx
      simp at hx; rcases hx with rfl | hx
      · right; intro ts hts; rw [hs] at hts; simp at hts
      · left; exact hx
    | some ts =>
      simp only [hs] at h
      -- the loop over the successors
      have loop : ∀ (l : List Int) (v0 V : List Int),
          l.foldl (fun (acc : Outcome (List State)) t =>
            match acc with
            | .ok v => if v.contains t then .ok v else dfs adj fuel v t
            | o => o) (.ok v0) = .ok V →
          (∀ x ∈ v0, x ∈ V) ∧ (∀ t ∈ l, t ∈ V) ∧ (∀ x ∈ V, x ∈ v0 ∨ ClosedAt adj V x) := by
        intro l
        induction l with
        | nil =>
          intro v0 V hV; simp at hV; subst hV
          exact ⟨fun x hx => hx, by simp, fun x hx => Or.inl hx⟩
        | cons t l ihl =>
          intro v0 V hV
          simp only [List.foldl_cons] at hV
          by_cases hc : v0.contains t = true
          · simp only [hc, if_true] at hV
            obtain ⟨a1, a2, a3⟩ := ihl v0 V hV
            refine ⟨a1, ?_, a3⟩
            intro t' ht'; simp at ht'; rcases ht' with rfl | ht'
            · exact a1 _ (by simpa using hc)
            · exact a2 t' ht'
          · simp only [hc] at hV
            cases hd : dfs adj fuel v0 t with
            | ok v1 =>
              simp only [hd] at hV
              rw [show (if false = true then Outcome.ok v0 else Outcome.ok v1) = Outcome.ok v1 from rfl] at hV
              obtain ⟨b1, b2, b3⟩ := ih v0 t v1 hd
              obtain ⟨a1, a2, a3⟩ := ihl v1 V hV
              refine ⟨fun x hx => a1 x (b1 x hx), ?_, ?_⟩
              · intro t' ht'; simp at ht'; rcases ht' with rfl | ht'
                · exact a1 _ b2
                · exact a2 t' ht'
              · intro x hx
                rcases a3 x hx with h1 | h1
                · rcases b3 x h1 with h2 | h2
                  · left; exact h2
                  · right; intro ts' hts' t' ht'; exact a1 _ (h2 ts' hts' t' ht')
                · right; exact h1
            | panic =>
              exfalso
              simp only [hd] at hV
              exact dfs_fold_notok adj fuel l .panic (by simp) V hV
            | diverge =>
              exfalso
              simp only [hd] at hV
              exact dfs_fold_notok adj fuel l .diverge (by simp) V hV
      obtain ⟨a1, a2, a3⟩ := loop ts (sins s vis) V h
      refine ⟨fun x hx => a1 x (by simp [hx]), a1 s (by simp), ?_⟩
      intro x hx
      rcases a3 x hx with h1 | h1
      · simp at h1; rcases h1 with rfl | h1
        · right; intro ts' hts' t' ht'
          rw [hs] at hts'; injection hts' with hts'; subst hts'
          exact a2 t' ht'
        · left; exact h1
      · right; exact h1

/-! ### `EliminateDeadStates` -/

/-- `s` can reach a final state -/
inductive CoReach (d : DFA) : Int → Prop
  | final {s : Int} : s ∈ d.final → CoReach d s
  | step {s a t : Int} : d.δ s a = some t → CoReach d t → CoReach d s

/-- the keys of `visited` that are still false -/
def deadsOf (d : DFA) (vis : List Int) : List Int :=
  ((aput (-1) d.final d.revAdj).map (·.1)).filter (fun s => !vis.contains s)

theorem DFA.elimDead_eq (d : DFA) (d' : DFA) (h : d.elimDead = .ok d') :
    ∃ vis, dfs (aput (-1) d.final d.revAdj) (d.states.length + 2) [] (-1) = .ok vis ∧
      d' = DFA.ofEntries d.start d.final ((entries d.trans).filter (fun e =>
        !(deadsOf d vis).contains e.1 && !(deadsOf d vis).contains e.2.2)) := by
  simp only [DFA.elimDead] at h
  cases hd : dfs (aput (-1) d.final d.revAdj) (d.states.length + 2) [] (-1) with
  | panic => simp [hd] at h
  | diverge => simp [hd] at h
  | ok vis =>
    refine ⟨vis, rfl, ?_⟩
    simp only [hd] at h
    injection h with h
    rw [← h, DFA.ofEntries, List.foldl_filter]
    exact foldl_nested (γ := DFA) d.trans (fun dfa s a t =>
      if (!(deadsOf d vis).contains s && !(deadsOf d vis).contains t) = true
      then dfa.add s a t else dfa) ⟨d.start, d.final, []⟩

theorem dfaRun_none (δ : Int → Int → Option Int) (w : Word) : dfaRun δ none w = none := by
  cases w <;> simp [dfaRun]

/-- whenever `EliminateDeadStates` returns, the language is unchanged -/
theorem DFA.elimDead_lang (d d' : DFA) (hwf : d.WF) (hp : d.Proper) (h : d.elimDead = .ok d') (w : Word) :
    d'.lang w ↔ d.lang w := by
  obtain ⟨vis, hdfs, rfl⟩ := d.elimDead_eq d' h
  have hdeads0 : deadsOf d vis = ((aput (-1) d.final d.revAdj).map (·.1)).filter (fun s => !vis.contains s) := rfl
  generalize hadj : aput (-1) d.final d.revAdj = adj at hdfs hdeads0
  generalize deadsOf d vis = deads at hdeads0
  have hdeads := hdeads0.symm
  obtain ⟨_, hroot, hclosed⟩ := dfs_spec adj _ [] (-1) vis hdfs
  have hcl : ∀ x ∈ vis, ClosedAt adj vis x := by
    intro x hx; rcases hclosed x hx with h1 | h1
    · simp at h1
    · exact h1
  -- co-reachable states are visited, hence not dead
  have hvis : ∀ s, CoReach d s → s ∈ vis := by
    intro s hs
    induction hs with
    | final hf =>
      rename_i s
      exact hcl (-1) hroot d.final (by rw [← hadj]; exact aget_aput_self _ _ _) s hf
    | step hd hco ih =>
      rename_i s a t
      obtain ⟨ts, h1, h2⟩ := revAdj_mem d s a t ((mem_entries_DFA hwf _ _ _).2 hd)
      have hne : t ≠ -1 := by
        intro ht; subst ht
        cases hco with
        | final hf => exact hp.1 hf
        | step hd' _ => rw [hp.2] at hd'; simp at hd'
      exact hcl t ih ts (by rw [← hadj, aget_aput_ne _ _ hne]; exact h1) s h2
  have hnd : ∀ s, CoReach d s → deads.contains s = false := by
    intro s hs
    rw [← hdeads]
    simp only [List.contains_eq_mem, List.mem_filter, decide_eq_false_iff_not]
    intro hh; have := hvis s hs; simp [this] at hh
  -- the transition function of the result
  have hδ : ∀ s a t, (DFA.ofEntries d.start d.final
      ((entries d.trans).filter (fun e => !deads.contains e.1 && !deads.contains e.2.2))).δ s a = some t ↔
      (d.δ s a = some t ∧ deads.contains s = false ∧ deads.contains t = false) := by
    intro s a t
    rw [DFA.fold_iff]
    · simp only [List.mem_filter, mem_entries_DFA hwf]; simp
    · intro y y' h1 h2
      exact entries_fun hwf (List.mem_filter.1 h1).1 (List.mem_filter.1 h2).1
  have hsf := DFA.ofEntries_start_final d.start d.final ((entries d.trans).filter (fun e => !deads.contains e.1 && !deads.contains e.2.2))
  simp only [DFA.lang, dfaLang, hsf.1, hsf.2]
  generalize hres : (DFA.ofEntries d.start d.final
      ((entries d.trans).filter (fun e => !deads.contains e.1 && !deads.contains e.2.2))) = res at hδ
  constructor
  · rintro ⟨f, hrun, hf⟩
    refine ⟨f, ?_, hf⟩
    -- every run of the result is a run of `d`
    have : ∀ (w : Word) (q : Int), dfaRun res.δ (some q) w = some f → dfaRun d.δ (some q) w = some f := by
      intro w
      induction w with
      | nil => intro q h; simpa [dfaRun] using h
      | cons a w ih =>
        intro q h
        simp only [dfaRun] at h ⊢
        cases hq : res.δ q a with
        | none => rw [hq, dfaRun_none] at h; simp at h
        | some t =>
          rw [hq] at h
          rw [((hδ q a t).1 hq).1]
          exact ih t h
    exact this w _ hrun
  · rintro ⟨f, hrun, hf⟩
    refine ⟨f, ?_, hf⟩
    have : ∀ (w : Word) (q : Int), dfaRun d.δ (some q) w = some f → dfaRun res.δ (some q) w = some f ∧ CoReach d q := by
      intro w
      induction w with
      | nil =>
        intro q h; simp [dfaRun] at h; subst h
        exact ⟨by simp [dfaRun], CoReach.final hf⟩
      | cons a w ih =>
        intro q h
        simp only [dfaRun] at h ⊢
        cases hq : d.δ q a with
        | none => rw [hq, dfaRun_none] at h; simp at h
        | some t =>
          rw [hq] at h
          obtain ⟨h1, h2⟩ := ih t h
          have hco : CoReach d q := CoReach.step hq h2
          rw [(hδ q a t).2 ⟨hq, hnd q hco, hnd t h2⟩]
          exact ⟨h1, hco⟩
    exact (this w _ hrun).1

end AlgoVerif.C13

namespace AlgoVerif.C13
open AlgoVerif AlgoVerif.C13.Spec

/-! ### `ReindexStates` -/

def reindexInner (ss : Int) (es : List (Int × Int)) (m : SM) (dfa : DFA) : SM × DFA :=
  es.foldl (fun (acc : SM × DFA) e => ((acc.1.get 0 e.2).1, acc.2.add ss e.1 (acc.1.get 0 e.2).2)) (m, dfa)

def reindexL (tr : List (Int × List (Int × Int))) (m : SM) (dfa : DFA) : SM × DFA :=
  tr.foldl (fun (acc : SM × DFA) st =>
    reindexInner (acc.1.get 0 st.1).2 st.2 (acc.1.get 0 st.1).1 acc.2) (m, dfa)

theorem DFA.isSome_add {d : DFA} {x a : Int} (s b t : Int) (h : (d.δ x a).isSome) : ((d.add s b t).δ x a).isSome := by
  rw [DFA.δ_add]; split <;> simp [h]

theorem reindexInner_spec (ss : Int) (es : List (Int × Int)) (m : SM) (dfa : DFA) (lo : Int) (hm : m.Inv lo) :
    m.Le (reindexInner ss es m dfa).1 ∧ (reindexInner ss es m dfa).1.Inv lo ∧
    (reindexInner ss es m dfa).2.start = dfa.start ∧ (reindexInner ss es m dfa).2.final = dfa.final ∧
    (∀ e ∈ es, ∃ y, (reindexInner ss es m dfa).1.find 0 e.2 = some y) ∧
    (∀ x a y, (reindexInner ss es m dfa).2.δ x a = some y → dfa.δ x a = some y ∨
      (x = ss ∧ ∃ t, (a, t) ∈ es ∧ (reindexInner ss es m dfa).1.find 0 t = some y)) ∧
    (∀ x a, ((dfa.δ x a).isSome ∨ (x = ss ∧ ∃ t, (a, t) ∈ es)) → ((reindexInner ss es m dfa).2.δ x a).isSome) := by
  induction es generalizing m dfa with
  | nil =>
    simp [reindexInner]
    exact ⟨SM.Le.refl _, hm⟩
  | cons e es ih =>
    obtain ⟨a1, t1⟩ := e
    simp only [reindexInner, List.foldl_cons]
    obtain ⟨g1, g2, g3⟩ := SM.get_spec m lo hm 0 t1
    have := ih (m.get 0 t1).1 (dfa.add ss a1 (m.get 0 t1).2) g2
    simp only [reindexInner] at this
    obtain ⟨k1, k2, k3, k4, k5, k6, k7⟩ := this
    refine ⟨SM.Le.trans g1 k1, k2, by rw [k3]; rfl, by rw [k4]; rfl, ?_, ?_, ?_⟩
    · intro e he
      simp at he; rcases he with rfl | he
      · exact ⟨_, k1.keep _ _ _ g3⟩
      · exact k5 e he
    · intro x a y h
      rcases k6 x a y h with h' | ⟨h1, t, h2, h3⟩
      · rw [DFA.δ_add] at h'
        split at h'
        · rename_i hc
          injection h' with h'
          right; exact ⟨hc.1, t1, by simp [hc.2], by rw [← h']; exact k1.keep _ _ _ g3⟩
        · left; exact h'
      · right; exact ⟨h1, t, by simp [h2], h3⟩
    · intro x a h
      apply k7
      rcases h with h | ⟨h1, t, h2⟩
      · left; exact DFA.isSome_add _ _ _ h
      · simp at h2
        rcases h2 with ⟨rfl, rfl⟩ | h2
        · left; rw [DFA.δ_add]; simp [h1]
        · right; exact ⟨h1, t, h2⟩

theorem reindexL_spec (tr : List (Int × List (Int × Int))) (m : SM) (dfa : DFA) (lo : Int) (hm : m.Inv lo) :
    m.Le (reindexL tr m dfa).1 ∧ (reindexL tr m dfa).1.Inv lo ∧
    (reindexL tr m dfa).2.start = dfa.start ∧ (reindexL tr m dfa).2.final = dfa.final ∧
    (∀ s a t, (s, a, t) ∈ entries tr → (∃ x, (reindexL tr m dfa).1.find 0 s = some x) ∧ ∃ y, (reindexL tr m dfa).1.find 0 t = some y) ∧
    (∀ x a y, (reindexL tr m dfa).2.δ x a = some y → dfa.δ x a = some y ∨
      ∃ s t, (s, a, t) ∈ entries tr ∧ (reindexL tr m dfa).1.find 0 s = some x ∧ (reindexL tr m dfa).1.find 0 t = some y) ∧
    (∀ x a, ((dfa.δ x a).isSome ∨ ∃ s t, (s, a, t) ∈ entries tr ∧ (reindexL tr m dfa).1.find 0 s = some x) →
      ((reindexL tr m dfa).2.δ x a).isSome) := by
  induction tr generalizing m dfa with
  | nil =>
    simp [reindexL, entries]
    exact ⟨SM.Le.refl _, hm⟩
  | cons st tr ih =>
    obtain ⟨s1, es1⟩ := st
    simp only [reindexL, List.foldl_cons]
    obtain ⟨g1, g2, g3⟩ := SM.get_spec m lo hm 0 s1
    obtain ⟨c1, c2, c3, c4, c5, c6, c7⟩ := reindexInner_spec (m.get 0 s1).2 es1 (m.get 0 s1).1 dfa lo g2
    have := ih (reindexInner (m.get 0 s1).2 es1 (m.get 0 s1).1 dfa).1 (reindexInner (m.get 0 s1).2 es1 (m.get 0 s1).1 dfa).2 c2
    simp only [reindexL] at this
    obtain ⟨k1, k2, k3, k4, k5, k6, k7⟩ := this
    have hent : ∀ s a t, (s, a, t) ∈ entries ((s1, es1) :: tr) ↔ (s = s1 ∧ (a, t) ∈ es1) ∨ (s, a, t) ∈ entries tr := by
      intro s a t
      simp only [entries, List.flatMap_cons, List.mem_append, List.mem_map]
      constructor
      · rintro (⟨e, he, heq⟩ | h)
        · left; simp at heq; obtain ⟨rfl, rfl, rfl⟩ := heq; exact ⟨rfl, he⟩
        · right; exact h
      · rintro (⟨rfl, h⟩ | h)
        · left; exact ⟨(a, t), h, rfl⟩
        · right; exact h
    have hss := k1.keep _ _ _ (c1.keep _ _ _ g3)
    refine ⟨SM.Le.trans g1 (SM.Le.trans c1 k1), k2, by rw [k3, c3], by rw [k4, c4], ?_, ?_, ?_⟩
    · intro s a t h
      rcases (hent s a t).1 h with ⟨rfl, h'⟩ | h'
      · obtain ⟨y, hy⟩ := c5 (a, t) h'
        exact ⟨⟨_, hss⟩, ⟨y, k1.keep _ _ _ hy⟩⟩
      · exact k5 s a t h'
    · intro x a y h
      rcases k6 x a y h with h' | ⟨s, t, h1, h2, h3⟩
      · rcases c6 x a y h' with h'' | ⟨h1, t, h2, h3⟩
        · left; exact h''
        · right; exact ⟨s1, t, (hent _ _ _).2 (Or.inl ⟨rfl, h2⟩), by rw [h1]; exact hss, k1.keep _ _ _ h3⟩
      · right; exact ⟨s, t, (hent _ _ _).2 (Or.inr h1), h2, h3⟩
    · intro x a h
      apply k7
      rcases h with h | ⟨s, t, h1, h2⟩
      · left; exact c7 x a (Or.inl h)
      · rcases (hent s a t).1 h1 with ⟨rfl, h'⟩ | h'
        · left; apply c7 x a; right
          exact ⟨SM.find_fun h2 hss, t, h'⟩
        · right; exact ⟨s, t, h', h2⟩

/-- the finals loop of `ReindexStates` -/
def reindexFinals (fin : List Int) (m : SM) (acc : List Int) : SM × List Int :=
  fin.foldl (fun (acc : SM × List Int) f => ((acc.1.get 0 f).1, sins (acc.1.get 0 f).2 acc.2)) (m, acc)

theorem reindexFinals_spec (fin : List Int) (m : SM) (acc : List Int) (lo : Int) (hm : m.Inv lo) :
    m.Le (reindexFinals fin m acc).1 ∧ (reindexFinals fin m acc).1.Inv lo ∧
    (∀ f ∈ fin, ∃ x, (reindexFinals fin m acc).1.find 0 f = some x) ∧
    (∀ x, x ∈ (reindexFinals fin m acc).2 ↔ x ∈ acc ∨ ∃ f ∈ fin, (reindexFinals fin m acc).1.find 0 f = some x) := by
  induction fin generalizing m acc with
  | nil => simp [reindexFinals]; exact ⟨SM.Le.refl _, hm⟩
  | cons f fin ih =>
    simp only [reindexFinals, List.foldl_cons]
    obtain ⟨g1, g2, g3⟩ := SM.get_spec m lo hm 0 f
    have := ih (m.get 0 f).1 (sins (m.get 0 f).2 acc) g2
    simp only [reindexFinals] at this
    obtain ⟨k1, k2, k3, k4⟩ := this
    refine ⟨SM.Le.trans g1 k1, k2, ?_, ?_⟩
    · intro f' hf'
      simp at hf'; rcases hf' with rfl | hf'
      · exact ⟨_, k1.keep _ _ _ g3⟩
      · exact k3 f' hf'
    · intro x
      rw [k4]
      simp only [mem_sins, List.mem_cons]
      constructor
      · rintro ((h | h) | ⟨f', h1, h2⟩)
        · right; exact ⟨f, Or.inl rfl, by rw [h]; exact k1.keep _ _ _ g3⟩
        · left; exact h
        · right; exact ⟨f', Or.inr h1, h2⟩
      · rintro (h | ⟨f', h1 | h1, h2⟩)
        · left; right; exact h
        · subst h1; left; left; exact SM.find_fun h2 (k1.keep _ _ _ g3)
        · right; exact ⟨f', h1, h2⟩

theorem reindexWith_eq (d : DFA) (m : SM) : reindexWith d m =
    reindexL d.trans (reindexFinals d.final (m.get 0 d.start).1 []).1
      ⟨(m.get 0 d.start).2, (reindexFinals d.final (m.get 0 d.start).1 []).2, []⟩ := rfl

/-- what `reindexWith` computes: an injective renaming of the states along which runs correspond -/
theorem reindexWith_facts (d : DFA) (hwf : d.WF) (m : SM) (lo : Int) (hm : m.Inv lo) :
    m.Le (reindexWith d m).1 ∧ (reindexWith d m).1.Inv lo ∧
    (reindexWith d m).1.find 0 d.start = some (reindexWith d m).2.start ∧
    (∀ x, x ∈ (reindexWith d m).2.final ↔ ∃ f ∈ d.final, (reindexWith d m).1.find 0 f = some x) ∧
    (∀ f ∈ d.final, ∃ x, (reindexWith d m).1.find 0 f = some x) ∧
    (∀ (w : Word) (s x : Int), (reindexWith d m).1.find 0 s = some x →
      (∀ y, dfaRun (reindexWith d m).2.δ (some x) w = some y ↔
        ∃ t, dfaRun d.δ (some s) w = some t ∧ (reindexWith d m).1.find 0 t = some y)) := by
  rw [reindexWith_eq]
  obtain ⟨g1, g2, g3⟩ := SM.get_spec m lo hm 0 d.start
  obtain ⟨f1, f2, f3, f4⟩ := reindexFinals_spec d.final (m.get 0 d.start).1 [] lo g2
  obtain ⟨k1, k2, k3, k4, k5, k6, k7⟩ := reindexL_spec d.trans (reindexFinals d.final (m.get 0 d.start).1 []).1
    ⟨(m.get 0 d.start).2, (reindexFinals d.final (m.get 0 d.start).1 []).2, []⟩ lo f2
  generalize hres : reindexL d.trans (reindexFinals d.final (m.get 0 d.start).1 []).1
    ⟨(m.get 0 d.start).2, (reindexFinals d.final (m.get 0 d.start).1 []).2, []⟩ = res at k1 k2 k3 k4 k5 k6 k7
  obtain ⟨mf, d'⟩ := res
  simp only at k1 k2 k3 k4 k5 k6 k7 ⊢
  have hstart : mf.find 0 d.start = some d'.start := by
    rw [k3]; exact k1.keep _ _ _ (f1.keep _ _ _ g3)
  have hfin : ∀ x, x ∈ d'.final ↔ ∃ f ∈ d.final, mf.find 0 f = some x := by
    intro x; rw [k4]
    rw [f4]; simp only [List.not_mem_nil, false_or]
    constructor
    · rintro ⟨f, h1, h2⟩; exact ⟨f, h1, k1.keep _ _ _ h2⟩
    · rintro ⟨f, h1, h2⟩
      obtain ⟨x', hx'⟩ := f3 f h1
      exact ⟨f, h1, by rw [SM.find_fun h2 (k1.keep _ _ _ hx')]; exact hx'⟩
  have hempty : ∀ x a, (DFA.mk (m.get 0 d.start).2 (reindexFinals d.final (m.get 0 d.start).1 []).2 []).δ x a = none := by
    intro x a; simp [DFA.δ, aget]
  -- the transition function of the result is the renamed transition function
  have hδ : ∀ s x a, mf.find 0 s = some x → ∀ y, d'.δ x a = some y ↔ ∃ t, d.δ s a = some t ∧ mf.find 0 t = some y := by
    intro s x a hsx y
    constructor
    · intro h
      rcases k6 x a y h with h' | ⟨s', t, h1, h2, h3⟩
      · rw [hempty] at h'; simp at h'
      · obtain ⟨_, rfl⟩ := SM.inj k2 h2 hsx
        exact ⟨t, (mem_entries_DFA hwf _ _ _).1 h1, h3⟩
    · rintro ⟨t, h1, h2⟩
      have hent := (mem_entries_DFA hwf _ _ _).2 h1
      have := k7 x a (Or.inr ⟨s, t, hent, hsx⟩)
      rw [Option.isSome_iff_exists] at this
      obtain ⟨y', hy'⟩ := this
      rcases k6 x a y' hy' with h' | ⟨s', t', e1, e2, e3⟩
      · rw [hempty] at h'; simp at h'
      · obtain ⟨_, rfl⟩ := SM.inj k2 e2 hsx
        have := entries_fun hwf hent e1; subst this
        rw [hy', SM.find_fun e3 h2]
  -- runs correspond
  have hrun : ∀ (w : Word) (s x : Int), mf.find 0 s = some x →
      (∀ y, dfaRun d'.δ (some x) w = some y ↔ ∃ t, dfaRun d.δ (some s) w = some t ∧ mf.find 0 t = some y) := by
    intro w
    induction w with
    | nil =>
      intro s x hsx y
      simp only [dfaRun]
      constructor
      · intro h; injection h with h; subst h; exact ⟨s, rfl, hsx⟩
      · rintro ⟨t, h1, h2⟩; injection h1 with h1; subst h1; rw [SM.find_fun hsx h2]
    | cons a w ih =>
      intro s x hsx y
      simp only [dfaRun]
      constructor
      · intro h
        cases hx : d'.δ x a with
        | none => rw [hx, dfaRun_none] at h; simp at h
        | some x2 =>
          rw [hx] at h
          obtain ⟨t2, e1, e2⟩ := (hδ s x a hsx x2).1 hx
          obtain ⟨t, r1, r2⟩ := (ih t2 x2 e2 y).1 h
          exact ⟨t, by rw [e1]; exact r1, r2⟩
      · rintro ⟨t, h1, h2⟩
        cases hs : d.δ s a with
        | none => rw [hs, dfaRun_none] at h1; simp at h1
        | some t2 =>
          rw [hs] at h1
          obtain ⟨_, ⟨x2, hx2⟩⟩ := k5 s a t2 ((mem_entries_DFA hwf _ _ _).2 hs)
          rw [(hδ s x a hsx x2).2 ⟨t2, hs, hx2⟩]
          exact (ih t2 x2 hx2 y).2 ⟨t, h1, h2⟩
  exact ⟨SM.Le.trans g1 (SM.Le.trans f1 k1), k2, hstart, hfin,
    fun f hf => by obtain ⟨x, hx⟩ := f3 f hf; exact ⟨x, k1.keep _ _ _ hx⟩, hrun⟩

/-- renumbering the states along any state manager preserves the language -/
theorem reindexWith_lang (d : DFA) (hwf : d.WF) (m : SM) (lo : Int) (hm : m.Inv lo) (w : Word) :
    (reindexWith d m).2.lang w ↔ d.lang w := by
  obtain ⟨_, k2, hstart, hfin, f3, hrun⟩ := reindexWith_facts d hwf m lo hm
  generalize reindexWith d m = res at k2 hstart hfin f3 hrun
  obtain ⟨mf, d'⟩ := res
  simp only at k2 hstart hfin f3 hrun ⊢
  simp only [DFA.lang, dfaLang]
  constructor
  · rintro ⟨y, h1, h2⟩
    obtain ⟨t, r1, r2⟩ := (hrun w d.start d'.start hstart y).1 h1
    obtain ⟨f, hf, hfy⟩ := (hfin y).1 h2
    obtain ⟨_, rfl⟩ := SM.inj k2 hfy r2
    exact ⟨f, r1, hf⟩
  · rintro ⟨t, h1, h2⟩
    obtain ⟨y, hy⟩ : ∃ y, mf.find 0 t = some y := f3 t h2
    exact ⟨y, (hrun w d.start d'.start hstart y).2 ⟨t, h1, hy⟩, (hfin y).2 ⟨t, h2, hy⟩⟩

theorem DFA.bfsNumbering_inv (d : DFA) (m : SM) (hb : d.bfsNumbering = .ok m) : m.Inv (-1) := by
  simp only [DFA.bfsNumbering] at hb
  have h0 := (SM.get_spec (SM.new (-1)) (-1) (SM.Inv_new _) 0 d.start).2.1
  have loop : ∀ (fuel : Nat) (vis q : List Int) (m0 m : SM), m0.Inv (-1) → bfsLoop d fuel vis q m0 = .ok m → m.Inv (-1) := by
    intro fuel
    induction fuel with
    | zero =>
      intro vis q m0 m hm0 hl
      cases q with
      | nil => simp [bfsLoop] at hl; subst hl; exact hm0
      | cons s q => simp [bfsLoop] at hl
    | succ fuel ih =>
      intro vis q m0 m hm0 hl
      cases q with
      | nil => simp [bfsLoop] at hl; subst hl; exact hm0
      | cons s q =>
        simp only [bfsLoop] at hl
        cases hs : aget s d.trans with
        | none => simp only [hs] at hl; exact ih _ _ _ _ hm0 hl
        | some adj =>
          simp only [hs] at hl
          refine ih _ _ _ _ ?_ hl
          -- the inner fold keeps the invariant
          have inner : ∀ (l : List (Int × Int)) (acc : List State × List State × SM), acc.2.2.Inv (-1) →
              (l.foldl (fun (acc : List State × List State × SM) e =>
                if acc.1.contains e.2 then acc else (e.2 :: acc.1, acc.2.1 ++ [e.2], (acc.2.2.get 0 e.2).1)) acc).2.2.Inv (-1) := by
            intro l
            induction l with
            | nil => intro acc h; simpa using h
            | cons e l ihl =>
              intro acc h
              simp only [List.foldl_cons]
              apply ihl
              split
              · exact h
              · exact (SM.get_spec _ _ h 0 e.2).2.1
          exact inner adj (vis, q, m0) hm0
  exact loop _ _ _ _ _ h0 hb

theorem DFA.reindex_lang (d d' : DFA) (hwf : d.WF) (h : d.reindex = .ok d') (w : Word) : d'.lang w ↔ d.lang w := by
  simp only [DFA.reindex] at h
  cases hb : d.bfsNumbering with
  | panic => simp [hb] at h
  | diverge => simp [hb] at h
  | ok m =>
    simp only [hb] at h; injection h with h; subst h
    exact reindexWith_lang d hwf m (-1) (d.bfsNumbering_inv m hb) w

end AlgoVerif.C13
