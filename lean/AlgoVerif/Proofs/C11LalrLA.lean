import AlgoVerif.Proofs.C11LalrLas
import AlgoVerif.Proofs.C11BuiltCompleteMain
/-!
# C11 — the LALR(1) lookaheads `ComputeLALR1Kernels` computes are closed under GOTO

`LalrRun`: the intermediate values of a successful run of `lalrKernels` (the LR(0) kernel collection `K0`, its state map
`S0`, the table and links `lp` after the first loop, the table `las` after propagation).

`la_closed`: if `a` is a lookahead of kernel item `k` of LR(0) state `s`, and `x` is an item of CLOSURE(`[k, a]`) with
the symbol `X` after its dot, then the lookahead of `x` is a lookahead of the kernel item `x.next` of the LR(0) state
`FindItemSet(GOTO(Iₛ, X))`.  (Dragon book, Algorithm 4.62/4.63, read as an invariant of the finished table: the
spontaneous lookaheads were entered, the links were recorded, and propagation stopped at a fixpoint.)
-/
namespace AlgoVerif.C11.Lalr
open AlgoVerif AlgoVerif.Gram AlgoVerif.C11 AlgoVerif.C11.Spec AlgoVerif.C11.Built AlgoVerif.C11.BuiltComplete

/-- the intermediate values of a successful `lalrKernels g' fuel = .ok K1` -/
structure LalrRun (g' : SGrammar) (fuel : Nat) (K1 : List (List Item)) where
  K0 : List (List Item)
  lp : LaTable × Links
  las : LaTable
  hK0 : (mkAuto g' false true fuel).canonical = Outcome.ok K0
  hlp : ((buildStateMap g'.start K0).zipIdx).foldlM
      (lalrState (mkAuto g' false true fuel) (mkAuto g' true true fuel) (buildStateMap g'.start K0))
      ([((0, 0), [endmarker])], []) = Outcome.ok lp
  hlas : propagate lp.2 fuel lp.1 = Outcome.ok las
  hK1 : ((buildStateMap g'.start K0).zipIdx).foldlM (fun (K1 : List (List Item)) Is => do
      let J ← lalrKernelOf las Is
      pure (if containsSet K1 J then K1 else K1 ++ [J])) [] = Outcome.ok K1

theorem lalrRun_of_ok {g' : SGrammar} {fuel : Nat} {K1 : List (List Item)}
    (hk : lalrKernels g' fuel = Outcome.ok K1) : Nonempty (LalrRun g' fuel K1) := by
  unfold lalrKernels at hk
  obtain ⟨K0, hK0, hk1⟩ := bind_eq_ok hk
  obtain ⟨lp, hlp, hk2⟩ := bind_eq_ok hk1
  obtain ⟨las, hlas, hk3⟩ := bind_eq_ok hk2
  exact ⟨⟨K0, lp, las, hK0, hlp, hlas, hk3⟩⟩

/-- the LR(0) state map of the run -/
def LalrRun.S0 {g' : SGrammar} {fuel : Nat} {K1 : List (List Item)} (R : LalrRun g' fuel K1) : StateMap :=
  buildStateMap g'.start R.K0

/-- `a` is a lookahead of kernel item `k` of LR(0) state `s` -/
def LA (S0 : StateMap) (las : LaTable) (s : Nat) (k : Item) (a : String) : Prop :=
  ∃ (Is : List Item) (i : Nat) (ls : List String), S0[s]? = some Is ∧ Is[i]? = some k ∧ laGet las ((s : Int), (i : Int)) = some ls ∧ a ∈ ls

/-! ## generalities -/

theorem derives_mono {g g' : SGrammar} (hsub : ∀ p ∈ g.prods, p ∈ g'.prods) {α β : List Sy} (hd : Derives g α β) :
    Derives g' α β := by
  induction hd with
  | refl => exact Derives.refl _
  | tail _ hs ih =>
    refine Derives.tail ih ?_
    cases hs with
    | mk u v p hp => exact Step.mk u v p (hsub p hp)

/-- the terminals that occur in production bodies -/
def bodyTerms (g : SGrammar) : List String :=
  g.prods.flatMap fun p => p.body.filterMap fun s => match s with
    | .term t => some t
    | .nonterm _ => none

theorem mem_bodyTerms {g : SGrammar} {t : String} : t ∈ bodyTerms g ↔ ∃ p ∈ g.prods, Sym.term t ∈ p.body := by
  unfold bodyTerms
  simp only [List.mem_flatMap, List.mem_filterMap]
  constructor
  · rintro ⟨p, hp, s, hs, hst⟩
    cases s with
    | term t' => simp only [Option.some.injEq] at hst; subst hst; exact ⟨p, hp, hs⟩
    | nonterm _ => simp at hst
  · rintro ⟨p, hp, hs⟩
    exact ⟨p, hp, _, hs, rfl⟩

theorem findItem_found {K : List Item} {x : Item} (hx : x ∈ K) :
    ∃ n : Nat, findItem K x = (n : Int) ∧ K[n]? = some x := by
  rcases findItem_spec K x with hneg | h
  · exfalso
    unfold findItem at hneg
    cases hf : K.findIdx? (fun y => decide (y = x)) with
    | none =>
      rw [List.findIdx?_eq_none_iff] at hf
      have := hf x hx
      simp at this
    | some n =>
      rw [hf] at hneg
      simp only at hneg
      omega
  · exact h

theorem closure_eq_auto (A : Auto) (I : List Item) : A.closure I = closure A.g A.nl A.fe A.fuel I := rfl

section
variable {g g' : SGrammar} (hv : ValidG g) (ht : TermsListed g) (ha : augment g = Outcome.ok g')
include hv ht ha

/-- no FIRST set of the augmented grammar contains the endmarker -/
theorem first_no_end {p : Pr} (hp : p ∈ g'.prods) (n : Nat) :
    endmarker ∉ firstOfStr (nullableOf g') (firstEnv g' (nullableOf g')) (p.body.drop n) := by
  have h := augOK_of_augment hv ha
  have hL := augListed hv ht ha
  have henv := firstEnv_terms g' (bodyTerms g') hL.listed.heads
    (fun p hp t htm => mem_bodyTerms.mpr ⟨p, hp, htm⟩) (nullableOf g')
  intro hmem
  have := firstOfStr_sub (nullableOf g') _ (bodyTerms g') henv (p.body.drop n)
    (fun t htm => mem_bodyTerms.mpr ⟨p, hp, List.mem_of_mem_drop htm⟩) endmarker hmem
  obtain ⟨q, hq, hqm⟩ := mem_bodyTerms.mp this
  exact body_no_end h hq hqm

/-- items reachable by CLOSURE from dotted productions of `G′` are dotted productions of `G′` -/
theorem clo_prod {seed : Item → Prop} (hs : ∀ i, seed i → i.prod ∈ g'.prods) {x : Item}
    (hx : Clo g' (nullableOf g') (firstEnv g' (nullableOf g')) seed x) : x.prod ∈ g'.prods := by
  induction hx with
  | base h => exact hs _ h
  | step _ hj _ =>
    obtain ⟨B, p, _, hp, hcase⟩ := mem_closureCands.mp hj
    have := (mem_prodsOf.mp hp).1
    rcases hcase with ⟨_, rfl⟩ | ⟨_, _, _, _, rfl⟩ <;> exact this

/-- with every non-terminal productive, FIRST(βa) is never empty for a suffix `β` of a production of `G′` -/
theorem live_item (hprod : Productive g) {x : Item} (hx : x.prod ∈ g'.prods) :
    LiveSuffix (nullableOf g') (firstEnv g' (nullableOf g')) x := by
  have h := augOK_of_augment hv ha
  have hL := augListed hv ht ha
  have hN : ∀ p ∈ g'.prods, p.body.all (symNullable (nullableOf g')) = true → p.head ∈ nullableOf g' := by
    have := nullable_closed g' hL.listed.heads
    unfold chkNullClosed at this
    simp only [List.all_eq_true, Bool.or_eq_true, Bool.not_eq_true'] at this
    intro p hp hall
    rcases this p hp with h1 | h1
    · rw [hall] at h1; cases h1
    · simpa using h1
  have hF : ∀ p ∈ g'.prods, ∀ c ∈ firstOfStr (nullableOf g') (firstEnv g' (nullableOf g')) p.body,
      c ∈ envGet (firstEnv g' (nullableOf g')) p.head := by
    have := first_closed g' hL.listed (nullableOf g')
    unfold chkFirstClosed at this
    simp only [List.all_eq_true] at this
    intro p hp c hc
    simpa using this p hp c hc
  apply live_lookaheads
  intro X hX
  cases X with
  | term t => trivial
  | nonterm B =>
    have hB : B ∈ g.nonterms := by
      rcases (mem_prods' h).mp hx with h1 | h1
      · exact h.bodies _ h1 B hX
      · rw [h1] at hX
        simp only [startProd, List.mem_singleton, Sym.nonterm.injEq] at hX
        exact hX ▸ h.startIn
    obtain ⟨w, hw⟩ := hprod B hB
    exact live_of_derives hN hF (derives_mono (fun p hp => (mem_prods' h).mpr (Or.inl hp)) hw)

variable {fuel : Nat} {K1 : List (List Item)} (R : LalrRun g' fuel K1)

/-- the LR(0) kernel state map: well-formed states -/
theorem s0_ok : StatesOK g' R.S0 := by
  have h := augOK_of_augment hv ha
  have hA0g : (mkAuto g' false true fuel).g = g' := rfl
  have hinit0Eq := initialItem_eq h hA0g
  have hinit0 : (mkAuto g' false true fuel).initialItem.isInitial g'.start = true := by
    rw [hinit0Eq]
    simp [mkAuto, Item.isInitial, startProd, laIsEnd]
  exact stateMap_spec hinit0 (kcanonical_spec h hA0g rfl R.hK0)

omit hv ht ha in
/-- the LR(0) kernel items carry no lookahead -/
theorem s0_la_none : ∀ I ∈ R.S0, ∀ it ∈ I, it.la = none := by
  have hK0 := R.hK0
  unfold Auto.canonical at hK0
  obtain ⟨I0, hI0, hrest⟩ := bind_eq_ok hK0
  have hI0' : I0 = [(mkAuto g' false true fuel).initialItem] := by
    simpa [mkAuto] using hI0.symm
  have hall : ∀ I ∈ R.K0, ∀ it ∈ I, it.la = none := by
    refine canonicalLoop_all (fun I => ∀ it ∈ I, it.la = none) ?hgo _ _ _ ?hC hrest
    case hC =>
      intro I hI
      simp only [List.mem_singleton] at hI
      subst hI
      rw [hI0']
      intro it hit
      simp only [List.mem_singleton] at hit
      subst hit
      simp [Auto.initialItem, mkAuto]
    case hgo =>
      intro I J X hI hg
      unfold Auto.goto at hg
      simp only [mkAuto, if_true] at hg
      obtain ⟨c, hc, hrest'⟩ := bind_eq_ok hg
      have hJ : advance c X = J := pure_eq_ok hrest'
      subst hJ
      intro it hit
      obtain ⟨i0, hi0, _, rfl⟩ := mem_advance.mp hit
      exact closure_all (itemProp_none _ _ _) _ _ _ hc hI i0 hi0
  intro I hI it hit
  obtain ⟨I', hI', rfl⟩ := mem_buildStateMap.mp hI
  exact hall I' hI' it ((mem_sortBy _ _ _).mp hit)

/-- `la_closed` -/
theorem la_closed {s : Nat} {Is : List Item} (hIs : R.S0[s]? = some Is) {k : Item} {a : String}
    (hLA : LA R.S0 R.las s k a) {x : Item}
    (hx : Clo g' (nullableOf g') (firstEnv g' (nullableOf g')) (fun i => i = withLa k a) x)
    {X : Sy} (hd : x.dotSym = some X) :
    ∃ (nextI : List Item) (n : Nat) (Kn : List Item),
      (mkAuto g' false true fuel).goto Is X = Outcome.ok nextI ∧ findItemSet R.S0 nextI = (n : Int) ∧
      R.S0[n]? = some Kn ∧ (∀ y, y ∈ Kn ↔ y ∈ nextI) ∧ ∃ b, x.la = some b ∧ LA R.S0 R.las n x.next.core b := by
  have h := augOK_of_augment hv ha
  obtain ⟨Is', i, ls, hIs', hki, hls, hals⟩ := hLA
  rw [hIs] at hIs'
  simp only [Option.some.injEq] at hIs'
  subst hIs'
  have hkmem : k ∈ Is := List.mem_of_getElem? hki
  have hkprod : k.prod ∈ g'.prods := (statesOK_good (s0_ok hv ht ha R) s Is hIs k hkmem).1
  have hknone : k.la = none := s0_la_none R Is (List.mem_of_getElem? hIs) k hkmem
  -- what the first loop recorded for (s, i)
  obtain ⟨_, hdone⟩ := lalrStates_done R.hlp
  obtain ⟨J, hJ, hvis⟩ := hdone (Is, s) (List.mem_zipIdx_iff_getElem?.mpr hIs) (k, i)
    (List.mem_zipIdx_iff_getElem?.mpr hki)
  replace hvis : ∀ j ∈ J, VisitDone (mkAuto g' false true fuel) R.S0 Is s i R.lp j := hvis
  replace hJ : closure g' (nullableOf g') (firstEnv g' (nullableOf g')) fuel [withLa k endmarker] = Outcome.ok J := hJ
  have hJmem : ∀ j, j ∈ J ↔ Clo g' (nullableOf g') (firstEnv g' (nullableOf g')) (fun z => z = withLa k endmarker) j := by
    intro j
    rw [mem_closure_iff (g := g') hJ j]
    constructor
    · exact clo_mono (fun z hz => by simpa using hz)
    · exact clo_mono (fun z hz => by simpa using hz)
  -- what propagation adds
  obtain ⟨hle, hsat⟩ := propagate_spec R.lp.2 fuel R.lp.1 R.las R.hlas
  -- the item of J that stands for x, and how the lookahead of x arises from it
  have hne : ∀ z, Clo g' (nullableOf g') (firstEnv g' (nullableOf g')) (fun i => i = withLa k endmarker) z →
      endmarker ∉ firstOfStr (nullableOf g') (firstEnv g' (nullableOf g')) (z.prod.body.drop (z.dot + 1)) := by
    intro z hz
    exact first_no_end hv ht ha (clo_prod hv ht ha (fun i hi => by rw [hi]; exact hkprod) hz) _
  have hxsome : ∃ b, x.la = some b := by
    have := clo_la_some (g := g') (fun i (hi : i = withLa k a) => by rw [hi]; rfl) hx
    exact Option.isSome_iff_exists.mp this
  obtain ⟨b, hxb⟩ := hxsome
  -- a common treatment of the three cases: `j ∈ J` has the production and dot of `x`
  have key : ∀ j, j ∈ J → j.prod = x.prod → j.dot = x.dot →
      ((j.la = some endmarker ∧ b = a) ∨ (j.la = some b ∧ b ≠ endmarker)) →
      ∃ (nextI : List Item) (n : Nat) (Kn : List Item),
        (mkAuto g' false true fuel).goto Is X = Outcome.ok nextI ∧ findItemSet R.S0 nextI = (n : Int) ∧
        R.S0[n]? = some Kn ∧ (∀ y, y ∈ Kn ↔ y ∈ nextI) ∧ ∃ b, x.la = some b ∧ LA R.S0 R.las n x.next.core b := by
    intro j hj hjp hjd hjla
    have hjdot : j.dotSym = some X := by
      unfold Item.dotSym at hd ⊢; rw [hjp, hjd]; exact hd
    have hjcore : j.next.core = x.next.core := by
      simp only [Item.next, Item.core, hjp, hjd]
    obtain ⟨nextI, n, hgo, hn, hrec⟩ := hvis j hj X hjdot
    rcases findItemSet_spec R.S0 nextI with hneg | ⟨n', Kn, hn', hKn, hsame⟩
    · rw [hneg] at hn; omega
    · have hnn : n' = n := by rw [hn] at hn'; omega
      subst hnn
      refine ⟨nextI, n', Kn, hgo, hn, hKn, hsame, b, hxb, ?_⟩
      -- x.next.core is a kernel item of the target
      have hcoreIn : x.next.core ∈ Kn := by
        apply (hsame _).mpr
        obtain ⟨c0, hc0, rfl⟩ := kgoto_spec h (A := mkAuto g' false true fuel) rfl rfl hgo
        apply mem_advance.mpr
        refine ⟨x.core, ?_, hd, rfl⟩
        replace hc0 : closure g' (nullableOf g') (firstEnv g' (nullableOf g')) fuel Is = Outcome.ok c0 := hc0
        apply (mem_closure_iff (g := g') hc0 _).mpr
        have := clo_core (g := g') (fun i (hi : i = withLa k a) => by rw [hi]; rfl) hx
        refine clo_mono ?_ this
        rintro y ⟨s', hs', rfl⟩
        rw [hs', core_withLa, core_of_none hknone]
        exact hkmem
      obtain ⟨idx, hidx, hKidx⟩ := findItem_found hcoreIn
      have hgetD : R.S0.getD n' [] = Kn := by simp [List.getD, hKn]
      rw [hgetD, hjcore, hidx] at hrec
      rcases hjla with ⟨hj1, hba⟩ | ⟨hj1, hbne⟩
      · -- propagated from (s, i)
        have hlink := (hrec endmarker hj1).1 rfl
        obtain ⟨ls', hls', hal'⟩ := hsat _ hlink ls a hls hals
        exact ⟨Kn, idx, ls', hKn, hKidx, hls', hba ▸ hal'⟩
      · -- generated spontaneously
        obtain ⟨ls0, hls0, hb0⟩ := (hrec b hj1).2 hbne
        obtain ⟨ls', hls', hb'⟩ := hle _ ls0 b hls0 hb0
        exact ⟨Kn, idx, ls', hKn, hKidx, hls', hb'⟩
  rcases clo_dummy hne hx with h1 | ⟨b', hb', hbne, hcl⟩ | ⟨hb', hcl⟩
  · -- x is the kernel item itself
    subst h1
    have : b = a := by simpa [withLa] using hxb.symm
    exact key (withLa k endmarker) ((hJmem _).mpr (Clo.base rfl)) rfl rfl (Or.inl ⟨rfl, this⟩)
  · have : b' = b := by rw [hxb] at hb'; exact (Option.some.inj hb').symm
    subst this
    exact key x ((hJmem _).mpr hcl) rfl rfl (Or.inr ⟨hxb, hbne⟩)
  · have : b = a := by rw [hxb] at hb'; exact Option.some.inj hb'
    exact key (withLa x endmarker) ((hJmem _).mpr hcl) rfl rfl (Or.inl ⟨rfl, this⟩)

end

end AlgoVerif.C11.Lalr
