import AlgoVerif.Proofs.C14Build
/-!
# C14 proofs — the private Model of `heap/indexed_binary.go` is an indexed min-priority queue

`HInv cap h`: `heap[1..n]` and `pos` are inverse bijections between positions and the indices on the
heap, `kvs[i] = nil ⇔ pos[i] = -1`, and the keys are in heap order.  Abstract view: `h.ky i` (the key of
index `i`, `none` when `i` is not on the heap).
-/
namespace AlgoVerif.C14

theorem getD_set! {α : Type} (a : Array α) (i j : Nat) (v d : α) :
    (a.set! i v).getD j d = if i = j ∧ i < a.size then v else a.getD j d := by
  simp only [Array.getD, size_set!]
  by_cases hj : j < a.size
  · simp only [hj, dite_true]
    by_cases hij : i = j
    · subst hij; simp [hj]
    · simp [hij, Array.set!_eq_setIfInBounds, hj]
  · simp only [hj, dite_false]
    by_cases hij : i = j
    · subst hij; simp [hj]
    · simp [hij]

/-- `heap[k]` -/
def IHeap.hp (h : IHeap) (k : Nat) : Nat := h.heap.getD k 0
/-- `pos[i]` -/
def IHeap.ps (h : IHeap) (i : Nat) : Int := h.pos.getD i (-1)
/-- key of index `i` (`none` = `kvs[i] == nil`) -/
def IHeap.ky (h : IHeap) (i : Nat) : Option Int := h.kvs.getD i none
/-- key at heap position `k` -/
def IHeap.kv (h : IHeap) (k : Nat) : Int := (h.ky (h.hp k)).getD 0

/-- structural invariant; `ex` = an index that has just been removed from `heap[1..n]` but whose `pos`/`kvs`
entries are still to be cleared (inside `Delete`) -/
structure HS (cap : Nat) (h : IHeap) (ex : Option Nat) : Prop where
  hsz : h.heap.size = cap + 1
  psz : h.pos.size = cap
  ksz : h.kvs.size = cap
  nle : h.n ≤ cap
  A : ∀ k, 1 ≤ k → k ≤ h.n → h.hp k < cap ∧ h.ps (h.hp k) = (k : Int) ∧ (h.ky (h.hp k)).isSome ∧ some (h.hp k) ≠ ex
  B : ∀ i, i < cap → some i ≠ ex → h.ps i ≠ -1 → ∃ k : Nat, h.ps i = (k : Int) ∧ 1 ≤ k ∧ k ≤ h.n ∧ h.hp k = i
  C : ∀ i, i < cap → some i ≠ ex → (h.ps i = -1 ↔ h.ky i = none)

/-- heap order -/
def HOrd (h : IHeap) : Prop := ∀ c, 2 ≤ c → c ≤ h.n → h.kv (c / 2) ≤ h.kv c

theorem HS.get_heap {cap : Nat} {h : IHeap} {ex : Option Nat} (hs : HS cap h ex) {k : Nat} (hk : k ≤ cap) :
    h.heap[k]? = some (h.hp k) := getD_of_lt _ _ (by rw [hs.hsz]; omega)

theorem HS.get_pos {cap : Nat} {h : IHeap} {ex : Option Nat} (hs : HS cap h ex) {i : Nat} (hi : i < cap) :
    h.pos[i]? = some (h.ps i) := getD_of_lt _ _ (by rw [hs.psz]; omega)

theorem HS.get_kvs {cap : Nat} {h : IHeap} {ex : Option Nat} (hs : HS cap h ex) {i : Nat} (hi : i < cap) :
    h.kvs[i]? = some (h.ky i) := getD_of_lt _ _ (by rw [hs.ksz]; omega)

/-- positions hold distinct indices -/
theorem HS.inj {cap : Nat} {h : IHeap} {ex : Option Nat} (hs : HS cap h ex) {k k' : Nat}
    (hk : 1 ≤ k ∧ k ≤ h.n) (hk' : 1 ≤ k' ∧ k' ≤ h.n) (e : h.hp k = h.hp k') : k = k' := by
  have h1 := (hs.A k hk.1 hk.2).2.1
  have h2 := (hs.A k' hk'.1 hk'.2).2.1
  rw [e] at h1
  rw [h1] at h2
  omega

theorem compare_spec {cap : Nat} {h : IHeap} {ex : Option Nat} (hs : HS cap h ex) {a b : Nat}
    (ha : 1 ≤ a ∧ a ≤ h.n) (hb : 1 ≤ b ∧ b ≤ h.n) :
    h.compare a b = .ok (cmpKey (h.kv a) (h.kv b)) := by
  obtain ⟨a1, _, a3, _⟩ := hs.A a ha.1 ha.2
  obtain ⟨b1, _, b3, _⟩ := hs.A b hb.1 hb.2
  have hn := hs.nle
  unfold IHeap.compare
  rw [hs.get_heap (by omega : a ≤ cap), hs.get_heap (by omega : b ≤ cap)]
  simp only
  rw [hs.get_kvs a1, hs.get_kvs b1]
  unfold IHeap.kv
  cases hka : h.ky (h.hp a) with
  | none => rw [hka] at a3; simp at a3
  | some ka =>
    cases hkb : h.ky (h.hp b) with
    | none => rw [hkb] at b3; simp at b3
    | some kb => simp

theorem swap_spec {cap : Nat} {h : IHeap} {ex : Option Nat} (hs : HS cap h ex) {i j : Nat}
    (hi : 1 ≤ i ∧ i ≤ h.n) (hj : 1 ≤ j ∧ j ≤ h.n) :
    ∃ h', h.swap i j = .ok h' ∧ HS cap h' ex ∧ h'.n = h.n ∧ h'.kvs = h.kvs ∧
      (∀ k, h'.hp k = if k = j then h.hp i else if k = i then h.hp j else h.hp k) := by
  obtain ⟨a1, a2, a3, a4⟩ := hs.A i hi.1 hi.2
  obtain ⟨b1, b2, b3, b4⟩ := hs.A j hj.1 hj.2
  have hn := hs.nle
  have hil : i < h.heap.size := by rw [hs.hsz]; omega
  have hjl : j < h.heap.size := by rw [hs.hsz]; omega
  let heap' := (h.heap.set! i (h.hp j)).set! j (h.hp i)
  have hhp : ∀ k, heap'.getD k 0 = if k = j then h.hp i else if k = i then h.hp j else h.hp k := by
    intro k
    simp only [heap', getD_set!, size_set!, IHeap.hp]
    grind
  let h' : IHeap := { h with heap := heap', pos := (h.pos.set! (h.hp j) (i : Int)).set! (h.hp i) (j : Int) }
  have hps : ∀ c, h'.ps c = if c = h.hp i then (j : Int) else if c = h.hp j then (i : Int) else h.ps c := by
    intro c
    simp only [h', IHeap.ps, getD_set!, size_set!, hs.psz]
    grind
  have hrun : h.swap i j = .ok h' := by
    unfold IHeap.swap
    rw [hs.get_heap (by omega : i ≤ cap), hs.get_heap (by omega : j ≤ cap)]
    simp only
    have e1 : ((h.heap.set! i (h.hp j)).set! j (h.hp i))[i]? = some (heap'.getD i 0) :=
      getD_of_lt _ _ (by rw [size_set!, size_set!]; exact hil)
    have e2 : ((h.heap.set! i (h.hp j)).set! j (h.hp i))[j]? = some (heap'.getD j 0) :=
      getD_of_lt _ _ (by rw [size_set!, size_set!]; exact hjl)
    rw [e1, e2, hhp i, hhp j]
    simp only [if_true]
    by_cases hij : i = j
    · subst hij
      simp only [if_true, hs.psz, a1, and_self]
      rfl
    · simp only [hij, if_false, hs.psz, a1, b1, and_self, if_true]
      -- the Model stores pos[heap'[i]] = i first, then pos[heap'[j]] = j
      rfl
  refine ⟨h', hrun, ?_, rfl, rfl, hhp⟩
  have hky : ∀ c, h'.ky c = h.ky c := fun _ => rfl
  have hhp' : ∀ k, h'.hp k = if k = j then h.hp i else if k = i then h.hp j else h.hp k := hhp
  refine
    { hsz := by show heap'.size = cap + 1; simp only [heap', size_set!]; exact hs.hsz
      psz := by show ((h.pos.set! _ _).set! _ _).size = cap; rw [size_set!, size_set!]; exact hs.psz
      ksz := hs.ksz
      nle := hs.nle
      A := ?_
      B := ?_
      C := ?_ }
  · intro k hk1 hk2
    obtain ⟨c1, c2, c3, c4⟩ := hs.A k hk1 hk2
    rw [hhp' k]
    by_cases hkj : k = j
    · subst hkj
      simp only [if_true]
      refine ⟨a1, ?_, by rw [hky]; exact a3, a4⟩
      rw [hps]; simp
    · by_cases hki : k = i
      · subst hki
        simp only [hkj, if_false, if_true]
        refine ⟨b1, ?_, by rw [hky]; exact b3, b4⟩
        rw [hps]
        have : h.hp j ≠ h.hp k := fun e => hkj (hs.inj ⟨hk1, hk2⟩ hj e.symm)
        simp [this]
      · simp only [hkj, hki, if_false]
        refine ⟨c1, ?_, by rw [hky]; exact c3, c4⟩
        rw [hps]
        have n1 : h.hp k ≠ h.hp i := fun e => hki (hs.inj ⟨hk1, hk2⟩ hi e)
        have n2 : h.hp k ≠ h.hp j := fun e => hkj (hs.inj ⟨hk1, hk2⟩ hj e)
        simp [n1, n2, c2]
  · intro c hc hex hne
    rw [hps] at hne ⊢
    by_cases h1 : c = h.hp i
    · subst h1
      exact ⟨j, by simp, hj.1, hj.2, by rw [hhp']; simp⟩
    · by_cases h2 : c = h.hp j
      · subst h2
        refine ⟨i, by simp [h1], hi.1, hi.2, ?_⟩
        rw [hhp']
        by_cases hij : i = j
        · subst hij; simp
        · simp [hij]
      · simp only [h1, h2, if_false] at hne ⊢
        obtain ⟨k, k1, k2, k3, k4⟩ := hs.B c hc hex hne
        refine ⟨k, k1, k2, k3, ?_⟩
        rw [hhp']
        have : k ≠ j := fun e => h2 (by rw [← k4, e])
        have : k ≠ i := fun e => h1 (by rw [← k4, e])
        simp [*]
  · intro c hc hex
    rw [hky, hps]
    by_cases h1 : c = h.hp i
    · subst h1
      simp only [if_true]
      constructor
      · intro e; omega
      · intro e; rw [e] at a3; simp at a3
    · by_cases h2 : c = h.hp j
      · subst h2
        simp only [h1, if_false, if_true]
        constructor
        · intro e; omega
        · intro e; rw [e] at b3; simp at b3
      · simp only [h1, h2, if_false]
        exact hs.C c hc hex

end AlgoVerif.C14

namespace AlgoVerif.C14

theorem cmpKey_pos {a b : Int} : cmpKey a b > 0 ↔ a > b := by
  unfold cmpKey
  repeat' split
  all_goals (constructor <;> intro <;> omega)

theorem cmpKey_neg {a b : Int} : cmpKey a b < 0 ↔ a < b := by
  unfold cmpKey
  repeat' split
  all_goals (constructor <;> intro <;> omega)

/-- the keys at the positions after `swap(i, j)` -/
theorem swap_kv {h h' : IHeap} {i j : Nat} (hk : h'.kvs = h.kvs)
    (hp : ∀ k, h'.hp k = if k = j then h.hp i else if k = i then h.hp j else h.hp k) :
    h'.kv j = h.kv i ∧ h'.kv i = h.kv j ∧ ∀ c, c ≠ i → c ≠ j → h'.kv c = h.kv c := by
  unfold IHeap.kv IHeap.ky
  refine ⟨?_, ?_, ?_⟩
  · rw [hk, hp j]; simp
  · rw [hk, hp i]
    by_cases e : i = j
    · subst e; simp
    · simp [e]
  · intro c c1 c2
    rw [hk, hp c]; simp [c1, c2]

/-- heap order except for the edge above position `k` -/
structure OrdUp (h : IHeap) (k : Nat) : Prop where
  other : ∀ c, 2 ≤ c → c ≤ h.n → c ≠ k → h.kv (c / 2) ≤ h.kv c
  grand : ∀ c, 2 ≤ c → c ≤ h.n → c / 2 = k → 2 ≤ k → h.kv (k / 2) ≤ h.kv c

/-- heap order except for the edges below position `k` -/
structure OrdDown (h : IHeap) (k : Nat) : Prop where
  other : ∀ c, 2 ≤ c → c ≤ h.n → c / 2 ≠ k → h.kv (c / 2) ≤ h.kv c
  grand : ∀ c, 2 ≤ c → c ≤ h.n → c / 2 = k → 2 ≤ k → h.kv (k / 2) ≤ h.kv c

theorem HOrd.down {h : IHeap} (ho : HOrd h) (k : Nat) : OrdDown h k :=
  ⟨fun c h1 h2 _ => ho c h1 h2, by
    intro c h1 h2 h3 h4
    have a := ho c h1 h2
    have b := ho k h4 (by omega)
    rw [h3] at a; omega⟩

theorem promote_spec {cap : Nat} {ex : Option Nat} :
    ∀ (fuel : Nat) (h : IHeap) (k : Nat), HS cap h ex → 1 ≤ k → k ≤ h.n → OrdUp h k → k ≤ fuel →
      ∃ h', IHeap.promote fuel h k = .ok h' ∧ HS cap h' ex ∧ h'.n = h.n ∧ h'.kvs = h.kvs ∧ HOrd h' := by
  intro fuel
  induction fuel with
  | zero => intro h k _ h1 _ _ hf; omega
  | succ fuel ih =>
    intro h k hs hk1 hk2 ho hf
    unfold IHeap.promote
    by_cases hk : k > 1
    · simp only [hk, if_true]
      have hp : 1 ≤ k / 2 ∧ k / 2 ≤ h.n := by omega
      rw [compare_spec hs hp ⟨hk1, hk2⟩]
      simp only
      by_cases hc : cmpKey (h.kv (k / 2)) (h.kv k) > 0
      · simp only [hc, if_true]
        have hgt := cmpKey_pos.1 hc
        obtain ⟨h1, e1, s1, n1, k1, p1⟩ := swap_spec hs ⟨hk1, hk2⟩ hp
        rw [e1]
        simp only
        obtain ⟨vj, vi, vo⟩ := swap_kv k1 p1
        -- vj : h1.kv (k/2) = h.kv k,  vi : h1.kv k = h.kv (k/2)
        have ho1 : OrdUp h1 (k / 2) := by
          constructor
          · intro c c1 c2 c3
            rw [n1] at c2
            by_cases e : c = k
            · subst e
              rw [vj, vi]; omega
            · rw [vo c e c3]
              generalize hq : c / 2 = q
              by_cases e2 : q = k
              · subst e2
                rw [vi]
                exact ho.grand c c1 c2 hq (by omega)
              · by_cases e3 : q = k / 2
                · subst e3
                  rw [vj]
                  have := ho.other c c1 c2 e
                  rw [hq] at this
                  omega
                · rw [vo q e2 e3]
                  have := ho.other c c1 c2 e
                  rw [hq] at this
                  exact this
          · intro c c1 c2 c3 c4
            rw [n1] at c2
            have hpar := ho.other (k / 2) c4 (by omega) (by omega)
            rw [vo (k / 2 / 2) (by omega) (by omega)]
            by_cases e : c = k
            · subst e
              rw [vi]; exact hpar
            · rw [vo c e (by omega)]
              have := ho.other c c1 c2 e
              rw [c3] at this
              omega
        obtain ⟨h2, e2, s2, n2, k2, o2⟩ := ih h1 (k / 2) s1 hp.1 (by rw [n1]; exact hp.2) ho1 (by omega)
        exact ⟨h2, e2, s2, by rw [n2, n1], by rw [k2, k1], o2⟩
      · simp only [hc, if_false]
        refine ⟨h, rfl, hs, rfl, rfl, ?_⟩
        intro c c1 c2
        by_cases e : c = k
        · subst e
          have := cmpKey_pos (a := h.kv (c / 2)) (b := h.kv c)
          omega
        · exact ho.other c c1 c2 e
    · simp only [hk, if_false]
      refine ⟨h, rfl, hs, rfl, rfl, ?_⟩
      intro c c1 c2
      exact ho.other c c1 c2 (by omega)

theorem smallerChild_spec {cap : Nat} {ex : Option Nat} {h : IHeap} (hs : HS cap h ex) {k : Nat}
    (hk : 1 ≤ k) (hj : 2 * k ≤ h.n) :
    ∃ j, h.smallerChild (2 * k) = .ok j ∧ (j = 2 * k ∨ j = 2 * k + 1) ∧ j ≤ h.n ∧
      h.kv j ≤ h.kv (2 * k) ∧ (2 * k + 1 ≤ h.n → h.kv j ≤ h.kv (2 * k + 1)) := by
  unfold IHeap.smallerChild
  by_cases hlt : 2 * k < h.n
  · simp only [hlt, if_true]
    rw [compare_spec hs (by omega) (by omega)]
    simp only
    by_cases hc : cmpKey (h.kv (2 * k + 1)) (h.kv (2 * k)) < 0
    · have := cmpKey_neg.1 hc
      exact ⟨2 * k + 1, by simp [hc], Or.inr rfl, by omega, by omega, fun _ => by omega⟩
    · have := cmpKey_neg (a := h.kv (2 * k + 1)) (b := h.kv (2 * k))
      exact ⟨2 * k, by simp [hc], Or.inl rfl, by omega, by omega, fun _ => by omega⟩
  · simp only [hlt, if_false]
    exact ⟨2 * k, rfl, Or.inl rfl, hj, by omega, fun _ => by omega⟩

theorem demote_spec {cap : Nat} {ex : Option Nat} :
    ∀ (fuel : Nat) (h : IHeap) (k : Nat), HS cap h ex → 1 ≤ k → k ≤ h.n + 1 → OrdDown h k →
      h.n + 2 ≤ fuel + k →
      ∃ h', IHeap.demote fuel h k = .ok h' ∧ HS cap h' ex ∧ h'.n = h.n ∧ h'.kvs = h.kvs ∧ HOrd h' := by
  intro fuel
  induction fuel with
  | zero => intro h k _ _ _ _ _; omega
  | succ fuel ih =>
    intro h k hs hk1 hk2 ho hf
    unfold IHeap.demote
    by_cases hj : 2 * k ≤ h.n
    · simp only [hj, if_true]
      have hkn : 1 ≤ k ∧ k ≤ h.n := by omega
      obtain ⟨j, ej, hjc, hjn, hj1, hj2⟩ := smallerChild_spec hs hk1 hj
      rw [ej]
      simp only
      have hjr : 1 ≤ j ∧ j ≤ h.n := by omega
      have hjk : j / 2 = k := by omega
      rw [compare_spec hs hkn hjr]
      simp only
      by_cases hc : cmpKey (h.kv k) (h.kv j) < 0
      · simp only [hc, if_true]
        have hlt := cmpKey_neg.1 hc
        refine ⟨h, rfl, hs, rfl, rfl, ?_⟩
        intro c c1 c2
        by_cases e : c / 2 = k
        · rw [e]
          have : c = 2 * k ∨ c = 2 * k + 1 := by omega
          rcases this with rfl | rfl
          · omega
          · have := hj2 c2; omega
        · exact ho.other c c1 c2 e
      · simp only [hc, if_false]
        have hge : h.kv j ≤ h.kv k := by
          have := cmpKey_neg (a := h.kv k) (b := h.kv j)
          omega
        obtain ⟨h1, e1, s1, n1, k1, p1⟩ := swap_spec hs hkn hjr
        rw [e1]
        simp only
        obtain ⟨vj, vi, vo⟩ := swap_kv k1 p1
        -- vj : h1.kv j = h.kv k,  vi : h1.kv k = h.kv j
        have hkj : k ≠ j := by omega
        have ho1 : OrdDown h1 j := by
          constructor
          · intro c c1 c2 c3
            rw [n1] at c2
            generalize hq : c / 2 = q at c3
            by_cases e : c = j
            · subst e
              have : q = k := by omega
              subst this
              rw [vj, vi]; exact hge
            · by_cases e2 : c = k
              · subst e2
                rw [vi]
                have hqc : q ≠ c := by omega
                rw [vo q hqc c3]
                have := ho.grand j (by omega) hjn hjk c1
                rw [hq] at this
                exact this
              · rw [vo c e2 e]
                by_cases e3 : q = k
                · subst e3
                  rw [vi]
                  have : c = 2 * q ∨ c = 2 * q + 1 := by omega
                  rcases this with rfl | rfl
                  · exact hj1
                  · exact hj2 c2
                · rw [vo q e3 c3]
                  have := ho.other c c1 c2 (by omega)
                  rw [hq] at this
                  exact this
          · intro c c1 c2 c3 _
            rw [n1] at c2
            rw [hjk, vi, vo c (by omega) (by omega)]
            have := ho.other c c1 c2 (by omega)
            rw [c3] at this
            exact this
        obtain ⟨h2, e2, s2, n2, k2, o2⟩ := ih h1 j s1 hjr.1 (by rw [n1]; omega) ho1 (by rw [n1]; omega)
        exact ⟨h2, e2, s2, by rw [n2, n1], by rw [k2, k1], o2⟩
    · simp only [hj, if_false]
      refine ⟨h, rfl, hs, rfl, rfl, ?_⟩
      intro c c1 c2
      exact ho.other c c1 c2 (by omega)

end AlgoVerif.C14

namespace AlgoVerif.C14

/-! ## pigeonhole: at most `cap` indices are on the heap -/

theorem nodup_lt_length : ∀ (m : Nat) (L : List Nat), L.Nodup → (∀ x ∈ L, x < m) → L.length ≤ m := by
  intro m
  induction m with
  | zero =>
    intro L _ h
    cases L with
    | nil => simp
    | cons a r => exact absurd (h a (by simp)) (Nat.not_lt_zero a)
  | succ m ih =>
    intro L hnd h
    by_cases hm : m ∈ L
    · have h1 := ih (L.erase m) (hnd.erase m) (by
        intro x hx
        have := (List.Nodup.mem_erase_iff hnd).1 hx
        have := h x this.2
        omega)
      have := List.length_erase_of_mem hm
      omega
    · have := ih L hnd (by
        intro x hx
        have := h x hx
        have : x ≠ m := fun e => hm (e ▸ hx)
        omega)
      omega

/-- a free index exists ⇒ the heap is not full -/
theorem HS.n_lt_cap {cap : Nat} {h : IHeap} (hs : HS cap h none) {i : Nat} (hi : i < cap)
    (hfree : h.ky i = none) : h.n < cap := by
  let L := (List.range h.n).map (fun k => h.hp (k + 1))
  have hmem : ∀ x ∈ L, ∃ k, 1 ≤ k ∧ k ≤ h.n ∧ x = h.hp k := by
    intro x hx
    obtain ⟨k, hk, rfl⟩ := List.mem_map.1 hx
    exact ⟨k + 1, by omega, by have := List.mem_range.1 hk; omega, rfl⟩
  have hnd : L.Nodup := by
    show List.Pairwise (· ≠ ·) (List.map _ _)
    rw [List.pairwise_map]
    refine (List.nodup_range (n := h.n)).imp_of_mem ?_
    intro a b ha hb hab e
    have ha' := List.mem_range.1 ha
    have hb' := List.mem_range.1 hb
    have := hs.inj (k := a + 1) (k' := b + 1) (by omega) (by omega) e
    omega
  have hi' : i ∉ L := by
    intro hx
    obtain ⟨k, k1, k2, rfl⟩ := hmem i hx
    have := (hs.A k k1 k2).2.2.1
    rw [hfree] at this; simp at this
  have := nodup_lt_length cap (i :: L) (List.nodup_cons.2 ⟨hi', hnd⟩) (by
    intro x hx
    rcases List.mem_cons.1 hx with rfl | hx
    · exact hi
    · obtain ⟨k, k1, k2, rfl⟩ := hmem x hx
      exact (hs.A k k1 k2).1)
  simp [L] at this
  omega

/-! ## the operations -/

structure HInv (cap : Nat) (h : IHeap) : Prop where
  s : HS cap h none
  o : HOrd h

theorem hinv_new (cap : Nat) : HInv cap (IHeap.new cap) := by
  have hps : ∀ i, (IHeap.new cap).ps i = -1 := by
    intro i
    simp only [IHeap.ps, IHeap.new]
    rw [getD_eq, Array.getElem?_replicate]; split <;> rfl
  have hky : ∀ i, (IHeap.new cap).ky i = none := by
    intro i
    simp only [IHeap.ky, IHeap.new]
    rw [getD_eq, Array.getElem?_replicate]; split <;> rfl
  refine ⟨⟨by simp [IHeap.new], by simp [IHeap.new], by simp [IHeap.new], Nat.zero_le _, ?_, ?_, ?_⟩, ?_⟩
  · intro k h1 h2; simp [IHeap.new] at h2; omega
  · intro i _ _ h; exact absurd (hps i) h
  · intro i _ _; simp [hps, hky]
  · intro c h1 h2; simp [IHeap.new] at h2; omega

theorem ky_new (cap i : Nat) : (IHeap.new cap).ky i = none := by
  simp only [IHeap.ky, IHeap.new]
  rw [getD_eq, Array.getElem?_replicate]; split <;> rfl

theorem ky_none_of_ge {cap : Nat} {h : IHeap} (hs : HS cap h none) {i : Nat} (hi : cap ≤ i) : h.ky i = none := by
  unfold IHeap.ky Array.getD
  have : ¬ i < h.kvs.size := by rw [hs.ksz]; omega
  simp [this]

theorem containsIndex_spec {cap : Nat} {h : IHeap} (hs : HS cap h none) (i : Nat) :
    h.containsIndex i = .ok (h.ky i).isSome := by
  unfold IHeap.containsIndex
  by_cases hi : i < cap
  · have : i < h.kvs.size := by rw [hs.ksz]; exact hi
    simp only [this, if_true]
    rw [hs.get_pos hi]
    simp only
    have hc := hs.C i hi (by simp)
    by_cases hp : h.ps i = -1
    · rw [hc.1 hp]; simp [hp]
    · have : h.ky i ≠ none := fun e => hp (hc.2 e)
      cases hk : h.ky i with
      | none => exact absurd hk this
      | some _ => simp [hp]
  · have : ¬ i < h.kvs.size := by rw [hs.ksz]; exact hi
    simp only [this, if_false]
    rw [ky_none_of_ge hs (by omega)]; rfl

theorem isEmpty_iff {cap : Nat} {h : IHeap} (hs : HS cap h none) :
    h.isEmpty = true ↔ ∀ j, h.ky j = none := by
  unfold IHeap.isEmpty
  simp only [beq_iff_eq]
  constructor
  · intro hn j
    by_cases hj : j < cap
    · cases hk : h.ky j with
      | none => rfl
      | some _ =>
        exfalso
        have hp : h.ps j ≠ -1 := fun e => by rw [(hs.C j hj (by simp)).1 e] at hk; simp at hk
        obtain ⟨k, _, k1, k2, _⟩ := hs.B j hj (by simp) hp
        omega
    · exact ky_none_of_ge hs (by omega)
  · intro hall
    by_cases hn : h.n = 0
    · exact hn
    · exfalso
      have := (hs.A 1 (by omega) (by omega)).2.2.1
      rw [hall] at this; simp at this

/-- keys of all indices other than `i` -/
def KyUpd (h h' : IHeap) (i : Nat) (v : Option Int) : Prop :=
  h'.ky i = v ∧ ∀ j, j ≠ i → h'.ky j = h.ky j

theorem insert_spec {cap : Nat} {h : IHeap} (hv : HInv cap h) {i : Nat} (hi : i < cap)
    (hfree : h.ky i = none) (key : Int) :
    ∃ h', h.insert i key = .ok h' ∧ HInv cap h' ∧ KyUpd h h' i (some key) := by
  have hs := hv.s
  have hn : h.n < cap := hs.n_lt_cap hi hfree
  let h1 : IHeap := { n := h.n + 1, heap := h.heap.set! (h.n + 1) i, pos := h.pos.set! i ((h.n + 1 : Nat) : Int),
                      kvs := h.kvs.set! i (some key) }
  have hhp : ∀ k, h1.hp k = if k = h.n + 1 then i else h.hp k := by
    intro k
    simp only [h1, IHeap.hp, getD_set!, hs.hsz]
    by_cases e : h.n + 1 = k
    · subst e; simp [hn]
    · have : ¬ k = h.n + 1 := fun e' => e e'.symm
      simp [e, this]
  have hps : ∀ c, h1.ps c = if c = i then ((h.n + 1 : Nat) : Int) else h.ps c := by
    intro c
    simp only [h1, IHeap.ps, getD_set!, hs.psz]
    by_cases e : i = c
    · subst e; simp [hi]
    · have : ¬ c = i := fun e' => e e'.symm
      simp [e, this]
  have hky : ∀ c, h1.ky c = if c = i then some key else h.ky c := by
    intro c
    simp only [h1, IHeap.ky, getD_set!, hs.ksz]
    by_cases e : i = c
    · subst e; simp [hi]
    · have : ¬ c = i := fun e' => e e'.symm
      simp [e, this]
  have hpi : h.ps i = -1 := (hs.C i hi (by simp)).2 hfree
  have hne : ∀ k, 1 ≤ k → k ≤ h.n → h.hp k ≠ i := by
    intro k k1 k2 e
    have := (hs.A k k1 k2).2.2.1
    rw [e, hfree] at this; simp at this
  have hs1 : HS cap h1 none :=
    { hsz := by show (h.heap.set! _ _).size = _; rw [size_set!]; exact hs.hsz
      psz := by show (h.pos.set! _ _).size = _; rw [size_set!]; exact hs.psz
      ksz := by show (h.kvs.set! _ _).size = _; rw [size_set!]; exact hs.ksz
      nle := by show h.n + 1 ≤ cap; omega
      A := by
        intro k k1 k2
        have k2' : k ≤ h.n + 1 := k2
        rw [hhp]
        by_cases e : k = h.n + 1
        · subst e
          simp only [if_true]
          refine ⟨hi, by rw [hps]; simp, by rw [hky]; simp, by simp⟩
        · simp only [e, if_false]
          obtain ⟨c1, c2, c3, _⟩ := hs.A k k1 (by omega)
          have := hne k k1 (by omega)
          refine ⟨c1, by rw [hps]; simp [this, c2], by rw [hky]; simp [this, c3], by simp⟩
      B := by
        intro c hc _ hp
        rw [hps] at hp ⊢
        by_cases e : c = i
        · subst e
          exact ⟨h.n + 1, by simp, by omega, Nat.le_refl _, by rw [hhp]; simp⟩
        · simp only [e, if_false] at hp ⊢
          obtain ⟨k, k1, k2, k3, k4⟩ := hs.B c hc (by simp) hp
          exact ⟨k, k1, k2, by show k ≤ h.n + 1; omega, by rw [hhp]; simp [show k ≠ h.n + 1 by omega, k4]⟩
      C := by
        intro c hc _
        rw [hps, hky]
        by_cases e : c = i
        · subst e; simp; omega
        · simp only [e, if_false]; exact hs.C c hc (by simp) }
  have hkv : ∀ k, 1 ≤ k → k ≤ h.n → h1.kv k = h.kv k := by
    intro k k1 k2
    unfold IHeap.kv
    rw [hhp, hky]
    have := hne k k1 k2
    simp [show k ≠ h.n + 1 by omega, this]
  have ho1 : OrdUp h1 (h.n + 1) :=
    ⟨by
      intro c c1 c2 c3
      have c2' : c ≤ h.n + 1 := c2
      rw [hkv c (by omega) (by omega), hkv (c / 2) (by omega) (by omega)]
      exact hv.o c c1 (by omega),
     by
      intro c c1 c2 c3 _
      have c2' : c ≤ h.n + 1 := c2
      omega⟩
  obtain ⟨h2, e2, s2, n2, k2, o2⟩ :=
    promote_spec (h.n + 1 + 1) h1 (h.n + 1) hs1 (by omega) (Nat.le_refl _) ho1 (by omega)
  refine ⟨h2, ?_, ⟨s2, o2⟩, ?_⟩
  · unfold IHeap.insert
    rw [containsIndex_spec hs, hfree]
    have c1 : ¬ (i ≥ h.kvs.size) := by rw [hs.ksz]; omega
    have c2 : h.n + 1 < h.heap.size ∧ i < h.pos.size := by rw [hs.hsz, hs.psz]; omega
    simp only [Option.isSome_none, Bool.false_eq_true, or_false, c1, if_false, c2, and_self, if_true]
    exact e2
  · unfold KyUpd IHeap.ky
    rw [k2]
    exact ⟨by have := hky i; simpa [IHeap.ky] using this, fun j hj => by have := hky j; simpa [IHeap.ky, hj] using this⟩

end AlgoVerif.C14

namespace AlgoVerif.C14

/-- the root holds a least key -/
theorem HOrd.root_le {h : IHeap} (ho : HOrd h) : ∀ k, 1 ≤ k → k ≤ h.n → h.kv 1 ≤ h.kv k := by
  intro k
  induction k using Nat.strongRecOn with
  | _ k ih =>
    intro k1 k2
    by_cases e : k = 1
    · subst e; exact Int.le_refl _
    · have := ih (k / 2) (by omega) (by omega) (by omega)
      have := ho k (by omega) k2
      omega

/-- position of an index that is on the heap -/
theorem HS.pos_of_key {cap : Nat} {h : IHeap} (hs : HS cap h none) {i : Nat} {k0 : Int}
    (hk : h.ky i = some k0) : i < cap ∧ ∃ k : Nat, h.ps i = (k : Int) ∧ 1 ≤ k ∧ k ≤ h.n ∧ h.hp k = i := by
  have hi : i < cap := by
    by_cases hi : i < cap
    · exact hi
    · rw [ky_none_of_ge hs (by omega)] at hk; simp at hk
  have hp : h.ps i ≠ -1 := fun e => by rw [(hs.C i hi (by simp)).1 e] at hk; simp at hk
  exact ⟨hi, hs.B i hi (by simp) hp⟩

/-- `ChangeKey(i, key)` with a key that is not larger than the current one -/
theorem changeKey_spec {cap : Nat} {h : IHeap} (hv : HInv cap h) {i : Nat} {old : Int}
    (hold : h.ky i = some old) (key : Int) (hle : key ≤ old) :
    ∃ h', h.changeKey i key = .ok h' ∧ HInv cap h' ∧ KyUpd h h' i (some key) := by
  have hs := hv.s
  obtain ⟨hi, k, hpk, k1, k2, hk⟩ := hs.pos_of_key hold
  let h1 : IHeap := { h with kvs := h.kvs.set! i (some key) }
  have hky : ∀ c, h1.ky c = if c = i then some key else h.ky c := by
    intro c
    simp only [h1, IHeap.ky, getD_set!, hs.ksz]
    by_cases e : i = c
    · subst e; simp [hi]
    · have : ¬ c = i := fun e' => e e'.symm
      simp [e, this]
  have hs1 : HS cap h1 none :=
    { hsz := hs.hsz
      psz := hs.psz
      ksz := by show (h.kvs.set! _ _).size = _; rw [size_set!]; exact hs.ksz
      nle := hs.nle
      A := by
        intro c c1 c2
        obtain ⟨a1, a2, a3, a4⟩ := hs.A c c1 c2
        refine ⟨a1, a2, ?_, a4⟩
        show (h1.ky (h.hp c)).isSome
        rw [hky]; split <;> simp [a3]
      B := hs.B
      C := by
        intro c hc hex
        show h.ps c = -1 ↔ h1.ky c = none
        rw [hky]
        by_cases e : c = i
        · subst e
          simp only [if_true]
          constructor
          · intro e'; rw [hpk] at e'; omega
          · intro e'; simp at e'
        · simp only [e, if_false]; exact hs.C c hc hex }
  have hkv : ∀ c, 1 ≤ c → c ≤ h.n → c ≠ k → h1.kv c = h.kv c := by
    intro c c1 c2 c3
    unfold IHeap.kv
    show (h1.ky (h.hp c)).getD 0 = _
    rw [hky]
    have : h.hp c ≠ i := fun e => c3 (hs.inj ⟨c1, c2⟩ ⟨k1, k2⟩ (by rw [e, hk]))
    simp [this]
  have hkvk : h1.kv k = key := by
    unfold IHeap.kv
    show (h1.ky (h.hp k)).getD 0 = _
    rw [hky, hk]; simp
  have holdk : h.kv k = old := by
    unfold IHeap.kv; rw [hk, hold]; rfl
  have ho1 : OrdUp h1 k :=
    ⟨by
      intro c c1 c2 c3
      have c2' : c ≤ h.n := c2
      rw [hkv c (by omega) c2' c3]
      have := hv.o c c1 c2'
      by_cases e : c / 2 = k
      · rw [e, hkvk]; rw [e, holdk] at this; omega
      · rw [hkv (c / 2) (by omega) (by omega) e]; exact this,
     by
      intro c c1 c2 c3 c4
      have c2' : c ≤ h.n := c2
      rw [hkv (k / 2) (by omega) (by omega) (by omega), hkv c (by omega) c2' (by omega)]
      have a := hv.o c c1 c2'
      have b := hv.o k c4 k2
      rw [c3] at a; omega⟩
  obtain ⟨h2, e2, s2, n2, kk2, o2⟩ := promote_spec (k + 1) h1 k hs1 k1 k2 ho1 (by omega)
  -- `i` is still on the heap of h2
  have hky2 : h2.ky i = some key := by
    unfold IHeap.ky; rw [kk2]; have := hky i; simpa [IHeap.ky] using this
  obtain ⟨_, p2, hp2, p21, p22, _⟩ := s2.pos_of_key hky2
  obtain ⟨h3, e3, s3, n3, kk3, o3⟩ :=
    demote_spec (h2.n + 1) h2 p2 s2 p21 (by omega) (o2.down p2) (by omega)
  refine ⟨h3, ?_, ⟨s3, o3⟩, ?_⟩
  · unfold IHeap.changeKey
    rw [containsIndex_spec hs, hold]
    simp only [Option.isSome_some]
    rw [hs.get_kvs hi, hold]
    simp only
    have hp1 : h1.pos[i]? = some ((k : Nat) : Int) := by
      show h.pos[i]? = _
      rw [hs.get_pos hi, hpk]
    rw [hp1]
    simp only
    have : ¬ ((k : Int) < 0) := by omega
    have e2' : IHeap.promote (k + 1) { n := h.n, heap := h.heap, pos := h.pos, kvs := h.kvs.set! i (some key) } k
        = .ok h2 := e2
    simp only [this, if_false, Int.toNat_natCast, e2']
    rw [s2.get_pos hi, hp2]
    simp only
    have : ¬ ((p2 : Int) < 0) := by omega
    simp only [this, if_false, Int.toNat_natCast]
    exact e3
  · unfold KyUpd IHeap.ky
    rw [kk3, kk2]
    exact ⟨by have := hky i; simpa [IHeap.ky] using this, fun j hj => by have := hky j; simpa [IHeap.ky, hj] using this⟩

/-- `Delete()` on a non-empty heap: an index with a least key leaves the heap -/
theorem delete_spec {cap : Nat} {h : IHeap} (hv : HInv cap h) (hne : h.isEmpty = false) :
    ∃ h' i key, h.delete = .ok (h', some (i, key)) ∧ HInv cap h' ∧ i < cap ∧ h.ky i = some key ∧
      (∀ j kj, h.ky j = some kj → key ≤ kj) ∧ KyUpd h h' i none := by
  have hs := hv.s
  have hn : 1 ≤ h.n := by
    unfold IHeap.isEmpty at hne
    simp at hne; omega
  obtain ⟨a1, a2, a3, _⟩ := hs.A 1 (by omega) hn
  let i := h.hp 1
  obtain ⟨key, hkey⟩ : ∃ key, h.ky i = some key := Option.isSome_iff_exists.1 a3
  have hmin : ∀ j kj, h.ky j = some kj → key ≤ kj := by
    intro j kj hj
    obtain ⟨_, k, _, k1, k2, k3⟩ := hs.pos_of_key hj
    have := hv.o.root_le k k1 k2
    unfold IHeap.kv at this
    rw [k3, hj] at this
    show key ≤ kj
    have e : h.ky (h.hp 1) = some key := hkey
    rw [e] at this
    simpa using this
  obtain ⟨h1, e1, s1, n1, kk1, p1⟩ := swap_spec hs ⟨by omega, hn⟩ ⟨hn, Nat.le_refl _⟩
  -- after the swap position n holds i
  have hpn : h1.hp h.n = i := by rw [p1]; simp [i]
  let h2 : IHeap := { h1 with n := h1.n - 1 }
  have hs2 : HS cap h2 (some i) :=
    { hsz := s1.hsz
      psz := s1.psz
      ksz := s1.ksz
      nle := by show h1.n - 1 ≤ cap; have := s1.nle; omega
      A := by
        intro c c1 c2
        have c2' : c ≤ h1.n - 1 := c2
        obtain ⟨b1, b2, b3, _⟩ := s1.A c c1 (by omega)
        refine ⟨b1, b2, b3, ?_⟩
        intro e
        have e' : h1.hp c = h1.hp h.n := by rw [hpn]; exact Option.some.inj e
        have := s1.inj (k := c) (k' := h.n) ⟨c1, by omega⟩ ⟨hn, by omega⟩ e'
        omega
      B := by
        intro c hc hex hp
        obtain ⟨k, k1, k2, k3, k4⟩ := s1.B c hc (by simp) hp
        refine ⟨k, k1, k2, ?_, k4⟩
        show k ≤ h1.n - 1
        have : k ≠ h.n := by
          intro e; rw [e, hpn] at k4; exact hex (by rw [k4])
        omega
      C := fun c hc _ => s1.C c hc (by simp) }
  have hkv1 := swap_kv kk1 p1
  have ho2 : OrdDown h2 1 :=
    ⟨by
      intro c c1 c2 c3
      have c2' : c ≤ h1.n - 1 := c2
      show h1.kv (c / 2) ≤ h1.kv c
      rw [hkv1.2.2 c (by omega) (by omega), hkv1.2.2 (c / 2) (by omega) (by omega)]
      exact hv.o c c1 (by omega),
     by intro c _ _ _ c4; omega⟩
  obtain ⟨h3, e3, s3, n3, kk3, o3⟩ :=
    demote_spec (h2.n + 1) h2 1 hs2 (by omega) (by omega) ho2 (by omega)
  let h4 : IHeap := { h3 with pos := h3.pos.set! i (-1), kvs := h3.kvs.set! i none }
  have hicap : i < cap := a1
  have hps4 : ∀ c, h4.ps c = if c = i then -1 else h3.ps c := by
    intro c
    simp only [h4, IHeap.ps, getD_set!, s3.psz]
    by_cases e : i = c
    · rw [← e]; simp [hicap]
    · have : ¬ c = i := fun e' => e e'.symm
      simp [e, this]
  have hky4 : ∀ c, h4.ky c = if c = i then none else h.ky c := by
    intro c
    simp only [h4, IHeap.ky, getD_set!, s3.ksz]
    rw [kk3]
    show (if i = c ∧ i < cap then none else h1.kvs.getD c none) = _
    rw [kk1]
    by_cases e : i = c
    · rw [← e]; simp [hicap]
    · have : ¬ c = i := fun e' => e e'.symm
      simp [e, this]
  have hky3 : ∀ c, h3.ky c = h.ky c := by
    intro c; unfold IHeap.ky; rw [kk3]; show h1.kvs.getD c none = _; rw [kk1]
  have hs4 : HS cap h4 none :=
    { hsz := s3.hsz
      psz := by show (h3.pos.set! _ _).size = _; rw [size_set!]; exact s3.psz
      ksz := by show (h3.kvs.set! _ _).size = _; rw [size_set!]; exact s3.ksz
      nle := s3.nle
      A := by
        intro c c1 c2
        obtain ⟨b1, b2, b3, b4⟩ := s3.A c c1 c2
        have hne' : h3.hp c ≠ i := fun e => b4 (by rw [e])
        refine ⟨b1, ?_, ?_, by simp⟩
        · show h4.ps (h3.hp c) = _; rw [hps4]; simp [hne', b2]
        · show (h4.ky (h3.hp c)).isSome; rw [hky4]; simp only [hne', if_false]; rw [← hky3]; exact b3
      B := by
        intro c hc _ hp
        rw [hps4] at hp ⊢
        by_cases e : c = i
        · simp [e] at hp
        · simp only [e, if_false] at hp ⊢
          exact s3.B c hc (by intro e'; exact e (Option.some.inj e')) hp
      C := by
        intro c hc _
        rw [hps4, hky4]
        by_cases e : c = i
        · simp [e]
        · simp only [e, if_false]
          rw [← hky3]
          exact s3.C c hc (by intro e'; exact e (Option.some.inj e')) }
  have ho4 : HOrd h4 := by
    intro c c1 c2
    have c2' : c ≤ h3.n := c2
    have hk : ∀ p, 1 ≤ p → p ≤ h3.n → h4.kv p = h3.kv p := by
      intro p p1 p2
      unfold IHeap.kv
      show (h4.ky (h3.hp p)).getD 0 = _
      have := (s3.A p p1 p2).2.2.2
      have hne' : h3.hp p ≠ i := fun e => this (by rw [e])
      rw [hky4, hky3]; simp [hne']
    rw [hk c (by omega) c2', hk (c / 2) (by omega) (by omega)]
    exact o3 c c1 c2'
  refine ⟨h4, i, key, ?_, ⟨hs4, ho4⟩, a1, hkey, hmin, ?_⟩
  · unfold IHeap.delete
    have : ¬ h.n = 0 := by omega
    simp only [this, if_false]
    rw [hs.get_heap (by have := hs.nle; omega : 1 ≤ cap)]
    simp only
    rw [hs.get_kvs a1]
    simp only
    rw [e1]
    simp only
    rw [e3]
    simp only
    have c : h.hp 1 < h3.pos.size ∧ h.hp 1 < h3.kvs.size := by rw [s3.psz, s3.ksz]; exact ⟨a1, a1⟩
    simp only [c, and_self, if_true]
    have e : h.ky (h.hp 1) = some key := hkey
    rw [e]
  · exact ⟨by rw [hky4]; simp, fun j hj => by rw [hky4]; simp [hj]⟩

end AlgoVerif.C14
