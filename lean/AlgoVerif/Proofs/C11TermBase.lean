import AlgoVerif.Proofs.C11Complete
/-!
# C11 — termination of the driver, part 1: runs, halting, the target of a transition

* `Halts T st`: the driver started in `st` returns (with some amount of fuel);
* a configuration reached from a halting one halts, and its output is bounded by the fuel (`halts_out_bound`);
* the control part of a step (stack, input) depends on the control part only, so a run that returns to the same
  control state after at least one step never halts (`not_halts_of_period`);
* `Target T s X s'`: `s'` is what the table pushes when `X` is completed above `s`; unique on a conflict-free table;
  `proc_tree_target`: `Complete.proc_tree` together with the target.
-/
namespace AlgoVerif.C11.Term
open AlgoVerif AlgoVerif.Gram AlgoVerif.C11 AlgoVerif.C11.Spec AlgoVerif.C11.Complete

def Halts (T : Tbl) (st : PState) : Prop := ∃ n r, prun T n st = Outcome.ok r

/-- the two ways a turn of the loop continues -/
theorem pstep_inl {T : Tbl} {a b : PState} (h : pstep T a = .inl b) :
    (∃ t, T.cell (peekState a.stack) a.tok = [Action.shift t] ∧
      b = { a with stack := t :: a.stack, input := a.input.tail, nodes := Tree.leaf a.tok :: a.nodes,
                   shifted := a.shifted + 1 }) ∨
    (∃ p, T.cell (peekState a.stack) a.tok = [Action.reduce p] ∧
      b = { a with stack := (T.goto (peekState (a.stack.drop p.body.length)) p.head).getD (-1) ::
                              a.stack.drop p.body.length,
                   out := p :: a.out,
                   nodes := Tree.node p (popKids p.body.length a.nodes) :: a.nodes.drop p.body.length }) := by
  unfold pstep at h
  simp only at h
  generalize hc : T.cell (peekState a.stack) a.tok = c at h
  match c, h with
  | [], h => simp at h
  | [Action.shift t], h =>
    simp only [Sum.inl.injEq] at h
    exact Or.inl ⟨t, rfl, h.symm⟩
  | [Action.reduce p], h =>
    simp only [Sum.inl.injEq] at h
    exact Or.inr ⟨p, rfl, h.symm⟩
  | [Action.accept], h => simp at h
  | _ :: _ :: _, h => simp at h

theorem pstep_of_shift {T : Tbl} {a : PState} {t : Int} (hc : T.cell (peekState a.stack) a.tok = [Action.shift t]) :
    pstep T a = .inl { a with stack := t :: a.stack, input := a.input.tail, nodes := Tree.leaf a.tok :: a.nodes,
                              shifted := a.shifted + 1 } := by
  unfold pstep; simp only [hc]

theorem pstep_of_reduce {T : Tbl} {a : PState} {p : Pr} (hc : T.cell (peekState a.stack) a.tok = [Action.reduce p]) :
    pstep T a = .inl { a with stack := (T.goto (peekState (a.stack.drop p.body.length)) p.head).getD (-1) ::
                                a.stack.drop p.body.length,
                              out := p :: a.out,
                              nodes := Tree.node p (popKids p.body.length a.nodes) :: a.nodes.drop p.body.length } := by
  unfold pstep; simp only [hc]

theorem iter_succ_right {T : Tbl} : ∀ (n : Nat) (a b c : PState), iter T n a = some b → pstep T b = .inl c →
    iter T (n + 1) a = some c := by
  intro n a b c h1 h2
  have : iter T 1 b = some c := by simp [iter, h2]
  exact iter_trans n 1 a b c h1 this

/-- a run of `n` steps needs fuel beyond `n` -/
theorem fuel_gt_of_iter {T : Tbl} : ∀ (n F : Nat) (a b : PState) (r : PResult), iter T n a = some b →
    prun T F a = Outcome.ok r → n < F
  | 0, F, a, b, r, _, hp => by
    cases F with
    | zero => simp [prun] at hp
    | succ F => omega
  | n + 1, F, a, b, r, hi, hp => by
    cases F with
    | zero => simp [prun] at hp
    | succ F =>
      unfold iter at hi
      unfold prun at hp
      cases hs : pstep T a with
      | inl a' =>
        rw [hs] at hi hp
        simp only at hi hp
        have := fuel_gt_of_iter n F a' b r hi hp
        omega
      | inr r' => rw [hs] at hi; simp at hi

theorem pstep_out_le {T : Tbl} {a b : PState} (h : pstep T a = .inl b) : b.out.length ≤ a.out.length + 1 := by
  rcases pstep_inl h with ⟨t, _, rfl⟩ | ⟨p, _, rfl⟩ <;> simp

theorem iter_out_le {T : Tbl} : ∀ (n : Nat) (a b : PState), iter T n a = some b → b.out.length ≤ a.out.length + n
  | 0, a, b, h => by simp [iter] at h; subst h; omega
  | n + 1, a, b, h => by
    unfold iter at h
    cases hs : pstep T a with
    | inl a' =>
      rw [hs] at h
      simp only at h
      have h1 := iter_out_le n a' b h
      have h2 := pstep_out_le hs
      omega
    | inr r => rw [hs] at h; simp at h

/-- the output of a configuration reached from a halting one is bounded -/
theorem halts_out_bound {T : Tbl} {a : PState} (h : Halts T a) :
    ∃ B, ∀ b, Reaches T a b → b.out.length < B := by
  obtain ⟨F, r, hF⟩ := h
  refine ⟨a.out.length + F, ?_⟩
  rintro b ⟨n, hn⟩
  have h1 := fuel_gt_of_iter n F a b r hn hF
  have h2 := iter_out_le n a b hn
  omega

theorem halts_of_reaches {T : Tbl} {a b : PState} (h : Halts T a) (hr : Reaches T a b) : Halts T b := by
  obtain ⟨F, r, hF⟩ := h
  obtain ⟨n, hn⟩ := hr
  have hlt := fuel_gt_of_iter n F a b r hn hF
  refine ⟨F - n, r, ?_⟩
  have := prun_iter n (F - n) a b hn
  rw [show n + (F - n) = F by omega] at this
  rw [← this]; exact hF

/-! ## control -/

/-- the control part of a configuration -/
def SameCtl (a b : PState) : Prop := a.stack = b.stack ∧ a.input = b.input

theorem pstep_ctl {T : Tbl} {a b a' : PState} (hab : SameCtl a b) (h : pstep T a = .inl a') :
    ∃ b', pstep T b = .inl b' ∧ SameCtl a' b' := by
  obtain ⟨hs, hi⟩ := hab
  have htok : a.tok = b.tok := by unfold PState.tok; rw [hi]
  rcases pstep_inl h with ⟨t, hc, rfl⟩ | ⟨p, hc, rfl⟩
  · rw [hs, htok] at hc
    exact ⟨_, pstep_of_shift hc, by simp [SameCtl, hs, hi]⟩
  · rw [hs, htok] at hc
    exact ⟨_, pstep_of_reduce hc, by simp [SameCtl, hs, hi]⟩

theorem iter_ctl {T : Tbl} : ∀ (n : Nat) (a b a' : PState), SameCtl a b → iter T n a = some a' →
    ∃ b', iter T n b = some b' ∧ SameCtl a' b'
  | 0, a, b, a', hab, h => by
    simp [iter] at h; subst h
    exact ⟨b, rfl, hab⟩
  | n + 1, a, b, a', hab, h => by
    unfold iter at h ⊢
    cases hs : pstep T a with
    | inl a1 =>
      rw [hs] at h
      simp only at h
      obtain ⟨b1, hb1, hc1⟩ := pstep_ctl hab hs
      rw [hb1]
      simp only
      exact iter_ctl n a1 b1 a' hc1 h
    | inr r => rw [hs] at h; simp at h

/-- a run that comes back to its control state after `k ≥ 1` steps goes on for ever -/
theorem not_halts_of_period {T : Tbl} {a b : PState} {k : Nat} (hk : 0 < k) (hi : iter T k a = some b)
    (hc : SameCtl a b) : ¬ Halts T a := by
  have hall : ∀ m : Nat, ∃ c, iter T (m * k) a = some c ∧ SameCtl a c := by
    intro m
    induction m with
    | zero => exact ⟨a, by simp [iter], rfl, rfl⟩
    | succ m ih =>
      obtain ⟨c, hc1, hc2⟩ := ih
      obtain ⟨c', hc1', hc2'⟩ := iter_ctl k a c b hc2 hi
      refine ⟨c', ?_, ⟨hc.1.trans hc2'.1, hc.2.trans hc2'.2⟩⟩
      rw [Nat.succ_mul]
      exact iter_trans _ _ _ _ _ hc1 hc1'
  rintro ⟨F, r, hF⟩
  obtain ⟨c, hc1, _⟩ := hall F
  have := fuel_gt_of_iter _ F a c r hc1 hF
  have h2 : F ≤ F * k := Nat.le_mul_of_pos_right F hk
  omega

/-- two different configurations with the same control on one run: the run never halts -/
theorem not_halts_of_two {T : Tbl} {a d1 d2 : PState} (h1 : Reaches T a d1) (h2 : Reaches T a d2) (hne : d1 ≠ d2)
    (hc : SameCtl d1 d2) : ¬ Halts T a := by
  obtain ⟨n1, hn1⟩ := h1
  obtain ⟨n2, hn2⟩ := h2
  -- the later one is reached from the earlier one
  have split : ∀ (n m : Nat) (x y z : PState), iter T n x = some y → iter T (n + m) x = some z → iter T m y = some z := by
    intro n
    induction n with
    | zero => intro m x y z hy hz; simp [iter] at hy; subst hy; simpa using hz
    | succ n ih =>
      intro m x y z hy hz
      rw [show n + 1 + m = (n + m) + 1 by omega] at hz
      unfold iter at hy hz
      cases hs : pstep T x with
      | inl x' =>
        rw [hs] at hy hz
        simp only at hy hz
        exact ih m x' y z hy hz
      | inr r => rw [hs] at hy; simp at hy
  intro hH
  rcases Nat.lt_trichotomy n1 n2 with hlt | heq | hgt
  · have := split n1 (n2 - n1) a d1 d2 hn1 (by rw [show n1 + (n2 - n1) = n2 by omega]; exact hn2)
    exact not_halts_of_period (k := n2 - n1) (by omega) this hc (halts_of_reaches hH ⟨n1, hn1⟩)
  · subst heq
    rw [hn1] at hn2
    exact hne (Option.some.inj hn2)
  · have := split n2 (n1 - n2) a d2 d1 hn2 (by rw [show n2 + (n1 - n2) = n1 by omega]; exact hn1)
    exact not_halts_of_period (k := n1 - n2) (by omega) this ⟨hc.1.symm, hc.2.symm⟩ (halts_of_reaches hH ⟨n2, hn2⟩)

/-! ## targets -/

/-- `s'` is the state the table pushes when `X` has been completed above `s` -/
def Target (T : Tbl) (s : Int) (X : Sy) (s' : Int) : Prop :=
  match X with
  | .term a => Action.shift s' ∈ T.cell s a
  | .nonterm A => T.goto s A = some s'

theorem target_unique {T : Tbl} (hcf : ∀ s a, (T.cell s a).length ≤ 1) {s : Int} {X : Sy} {s1 s2 : Int}
    (h1 : Target T s X s1) (h2 : Target T s X s2) : s1 = s2 := by
  cases X with
  | term a =>
    simp only [Target] at h1 h2
    have e1 := cell_single (hcf s a) h1
    rw [e1] at h2
    simp only [List.mem_singleton, Action.shift.injEq] at h2
    exact h2.symm
  | nonterm A =>
    simp only [Target] at h1 h2
    rw [h1] at h2
    exact Option.some.inj h2

section
variable {g : SGrammar} {start' : String} {nl : List String} {fe : Env} {items : Int → List Item} {T : Tbl}
  (hC : CompleteTable g start' nl fe items T)
include hC

/-- `proc_tree`, with the target of the transition -/
theorem proc_tree_target (t : Tree) (X : Sy) (st : PState) (it : Item) (v : List String)
    (hd : derivesT g t X) (hin : st.input = t.yield ++ v) (hit : it ∈ items (peekState st.stack))
    (hdot : it.dotSym = some X)
    (hla : ∀ B, X = Sym.nonterm B → ∃ a, it.la = some a ∧ look v ∈ lookaheadsFor nl fe it a) :
    ∃ (st' : PState) (s' : Int), Reaches T st st' ∧ st'.stack = s' :: st.stack ∧ it.next ∈ items s' ∧
      st'.input = v ∧ st'.out = (postT t).reverse ++ st.out ∧ st'.nodes = t :: st.nodes ∧
      Target T (peekState st.stack) X s' := by
  cases t with
  | nil => simp [derivesT] at hd
  | leaf a =>
    simp only [derivesT] at hd
    subst hd
    obtain ⟨t', hsh, hnext⟩ := hC.advT _ it a hit hdot
    have hin' : st.input = a :: v := by simpa [Tree.yield] using hin
    have htok : st.tok = a := by simp [PState.tok, hin']
    have hcell := cell_single (hC.conflictFree _ _) hsh
    have hstep : pstep T st = .inl (PState.mk (t' :: st.stack) st.input.tail st.out (Tree.leaf a :: st.nodes)
        (st.shifted + 1)) := by
      unfold pstep
      simp only [htok, hcell]
    exact ⟨_, t', reaches_step hstep, rfl, hnext, by simp [hin'], by simp [postT], rfl, hsh⟩
  | node p ks =>
    simp only [derivesT] at hd
    obtain ⟨rfl, hp, hks⟩ := hd
    obtain ⟨a, hita, hlook⟩ := hla p.head rfl
    have hi0 := hC.closed _ it p.head a hit hdot hita p hp rfl (look v) hlook
    have hkids : ∀ t ∈ ks, ProcT g nl fe items T t := fun t _ => proc_tree hC (treeSize t) t (Nat.le_refl _)
    have hin' : st.input = Tree.yieldL ks ++ v := by simpa [Tree.yield] using hin
    obtain ⟨st1, pushed, hr1, hstk1, hlen1, hfin1, hin1, hout1, hnodes1⟩ :=
      proc_forest hC p (look v) ks p.body [] st v hkids hks (by simp) hin' rfl (by simpa using hi0)
    have htok : st1.tok = look v := by
      unfold PState.tok look; rw [hin1]; cases v <;> rfl
    have hred := hC.red _ _ (look v) hfin1 (by simp [Item.isComplete]) rfl (hC.fresh p hp)
    have hcell := cell_single (hC.conflictFree _ _) hred
    obtain ⟨s', hgoto, hnext⟩ := hC.advN _ it p.head hit hdot
    have hdrop : st1.stack.drop p.body.length = st.stack := by
      rw [hstk1, ← hlen1]; simp
    have hklen : ks.length = p.body.length := derivesL_length hks
    have hkidsEq : popKids p.body.length st1.nodes = ks := by
      rw [hnodes1]
      simp [popKids, ← hklen]
    have hstep : pstep T st1 = .inl (PState.mk (s' :: st.stack) st1.input (p :: st1.out)
        (Tree.node p ks :: st.nodes) st1.shifted) := by
      unfold pstep
      simp only [htok, hcell, hdrop, hgoto, Option.getD_some, hkidsEq]
      have : st1.nodes.drop p.body.length = st.nodes := by
        rw [hnodes1]
        have hklen' : ks.reverse.length = p.body.length := by simp [hklen]
        rw [← hklen']; simp
      rw [this]
    refine ⟨_, s', reaches_trans hr1 (reaches_step hstep), rfl, hnext, by simpa using hin1, ?_, rfl, hgoto⟩
    simp [postT, hout1]

end

end AlgoVerif.C11.Term
