import AlgoVerif.Proofs.C12Complete
/-!
# The table built call by call (`buildTable`) has the cells `cell`

`tcell (buildTable fi fo ps rows) A a` is the list of the productions of `ps` that belong into `M[A,a]`, in
the order of `ps`, without repetitions; the synchronisation phase does not touch the productions.  For
`ps = g.prods` duplicate-free this is `cell g fi fo A a` literally, so `Conflicts()` and the parser see the
same table, and every theorem about `cell` / `conflicts` / `parseWithCells` is a theorem about the refined
Model.
-/
set_option linter.unusedSectionVars false
namespace AlgoVerif.C10
open AlgoVerif AlgoVerif.Gram
variable {T N : Type} [DecidableEq T] [DecidableEq N]

theorem get_modify (t : PTable T N) (A : N) (a : Option T) (f : Entry T N → Entry T N) (A' : N) (a' : Option T) :
    (t.modify A a f).get A' a' =
      if A' = A ∧ a' = a then some (f ((t.get A a).getD ⟨[], false⟩)) else t.get A' a' := by
  induction t with
  | nil =>
    by_cases h : A' = A ∧ a' = a
    · obtain ⟨h1, h2⟩ := h
      subst h1; subst h2
      simp [PTable.modify, PTable.get]
    · have h' : ¬ (A = A' ∧ a = a') := fun e => h ⟨e.1.symm, e.2.symm⟩
      simp [PTable.modify, PTable.get, h, h']
  | cons ke rest ih =>
    obtain ⟨k, e⟩ := ke
    by_cases hk : k.1 = A ∧ k.2 = a
    · by_cases h : A' = A ∧ a' = a
      · obtain ⟨h1, h2⟩ := h
        subst h1; subst h2
        simp [PTable.modify, PTable.get, hk]
      · have h' : ¬ (k.1 = A' ∧ k.2 = a') := fun e' => h ⟨(hk.1.symm.trans e'.1).symm, (hk.2.symm.trans e'.2).symm⟩
        have h'' : ¬ (A = A' ∧ a = a') := fun e' => h ⟨e'.1.symm, e'.2.symm⟩
        simp [PTable.modify, PTable.get, hk, h, h', h'']
    · by_cases h2 : k.1 = A' ∧ k.2 = a'
      · have h3 : ¬ (A' = A ∧ a' = a) := fun e' => hk ⟨h2.1.trans e'.1, h2.2.trans e'.2⟩
        simp [PTable.modify, PTable.get, hk, h2, h3]
      · simp only [PTable.modify, hk, if_false, PTable.get, h2, ih]

/-- no entry is marked sync (true throughout the production phase) -/
def NoSync (t : PTable T N) : Prop := ∀ A a e, t.get A a = some e → e.sync = false

theorem tcell_getD (t : PTable T N) (A : N) (a : Option T) : ((t.get A a).getD ⟨[], false⟩).prods = tcell t A a := by
  unfold tcell
  cases t.get A a <;> rfl

theorem addProduction_spec {t : PTable T N} (hns : NoSync t) (A : N) (a : Option T) (p : GProd T N) :
    NoSync (addProduction t A a p) ∧
    ∀ A' a', tcell (addProduction t A a p) A' a' =
      if A' = A ∧ a' = a then insertNew p (tcell t A' a') else tcell t A' a' := by
  have hs : ((t.get A a).getD ⟨[], false⟩).sync = false := by
    cases h : t.get A a with
    | none => rfl
    | some e => exact hns A a e h
  constructor
  · intro A' a' e he
    unfold addProduction at he
    rw [get_modify] at he
    by_cases h : A' = A ∧ a' = a
    · rw [if_pos h] at he
      cases he
      simp [hs]
    · rw [if_neg h] at he
      exact hns A' a' e he
  · intro A' a'
    by_cases h : A' = A ∧ a' = a
    · obtain ⟨h1, h2⟩ := h
      subst h1; subst h2
      rw [if_pos ⟨rfl, rfl⟩]
      have e1 : (addProduction t A' a' p).get A' a' = some
          ⟨insertNew p ((t.get A' a').getD ⟨[], false⟩).prods, ((t.get A' a').getD ⟨[], false⟩).sync⟩ := by
        unfold addProduction
        rw [get_modify, if_pos ⟨rfl, rfl⟩]
        simp [hs]
      unfold tcell at *
      rw [e1]
      have := tcell_getD t A' a'
      unfold tcell at this
      simp only [this]
    · rw [if_neg h]
      unfold tcell addProduction
      rw [get_modify, if_neg h]

theorem insertNew_idem (p : GProd T N) (l : List (GProd T N)) : insertNew p (insertNew p l) = insertNew p l := by
  have h : p ∈ insertNew p l := mem_insertNew.2 (Or.inl rfl)
  generalize insertNew p l = m at h ⊢
  unfold insertNew
  simp [h]

theorem addColumns_spec (A : N) (p : GProd T N) :
    ∀ (cs : List (Option T)) (t : PTable T N), NoSync t →
      NoSync (cs.foldl (fun t c => addProduction t A c p) t) ∧
      ∀ A' a', tcell (cs.foldl (fun t c => addProduction t A c p) t) A' a' =
        if A' = A ∧ a' ∈ cs then insertNew p (tcell t A' a') else tcell t A' a' := by
  intro cs
  induction cs with
  | nil => intro t h; exact ⟨h, by intro A' a'; simp⟩
  | cons c cs ih =>
    intro t h
    obtain ⟨h1, h2⟩ := addProduction_spec h A c p
    obtain ⟨h3, h4⟩ := ih _ h1
    refine ⟨h3, ?_⟩
    intro A' a'
    simp only [List.foldl_cons, h4, h2]
    by_cases hA : A' = A
    · subst hA
      by_cases hc : a' = c
      · subst hc
        by_cases hcs : a' ∈ cs
        · simp [hcs, insertNew_idem]
        · simp [hcs]
      · by_cases hcs : a' ∈ cs
        · simp [hcs, hc]
        · simp [hcs, hc]
    · simp [hA]

theorem mem_prodColumns {fi : List (Sym T N) → TE T} {fo : N → TEnd T} {p : GProd T N} {c : Option T} :
    c ∈ prodColumns fi fo p ↔ inCell fi fo p c = true := by
  unfold prodColumns
  cases c with
  | none =>
    simp only [inCell, List.mem_append, List.mem_map, reduceCtorEq, and_false, exists_false, false_or,
      Bool.and_eq_true]
    by_cases he : (fi p.body).eps = true
    · by_cases hm : (fo p.head).endm = true
      · simp [he, hm]
      · simp [he, hm]
    · simp [he]
  | some a =>
    simp only [inCell, List.mem_append, List.mem_map, Option.some.injEq, exists_eq_right, Bool.or_eq_true,
      decide_eq_true_eq, Bool.and_eq_true]
    by_cases he : (fi p.body).eps = true
    · by_cases hm : (fo p.head).endm = true
      · simp [he, hm]
      · simp [he, hm]
    · simp [he]

theorem addProd_spec (fi : List (Sym T N) → TE T) (fo : N → TEnd T) {t : PTable T N} (hns : NoSync t)
    (p : GProd T N) :
    NoSync (addProd fi fo t p) ∧
    ∀ A a, tcell (addProd fi fo t p) A a =
      if (decide (p.head = A) && inCell fi fo p a) = true then insertNew p (tcell t A a) else tcell t A a := by
  obtain ⟨h1, h2⟩ := addColumns_spec p.head p (prodColumns fi fo p) t hns
  refine ⟨h1, ?_⟩
  intro A a
  unfold addProd
  rw [h2]
  by_cases hA : p.head = A
  · subst hA
    by_cases hc : a ∈ prodColumns fi fo p
    · simp [hc, mem_prodColumns.1 hc]
    · have : inCell fi fo p a = false := by
        cases hi : inCell fi fo p a with
        | false => rfl
        | true => exact absurd (mem_prodColumns.2 hi) hc
      simp [hc, this]
  · have hA' : ¬ A = p.head := fun e => hA e.symm
    simp [hA, hA']

theorem addProds_spec (fi : List (Sym T N) → TE T) (fo : N → TEnd T) :
    ∀ (ps : List (GProd T N)) (t : PTable T N), NoSync t →
      NoSync (ps.foldl (addProd fi fo) t) ∧
      ∀ A a, tcell (ps.foldl (addProd fi fo) t) A a =
        (ps.filter fun p => decide (p.head = A) && inCell fi fo p a).foldl (fun l p => insertNew p l) (tcell t A a) := by
  intro ps
  induction ps with
  | nil => intro t h; exact ⟨h, by intro A a; rfl⟩
  | cons p ps ih =>
    intro t h
    obtain ⟨h1, h2⟩ := addProd_spec fi fo h p
    obtain ⟨h3, h4⟩ := ih _ h1
    refine ⟨h3, ?_⟩
    intro A a
    simp only [List.foldl_cons, h4, h2, List.filter_cons]
    split <;> rfl

theorem setSync_cell (t : PTable T N) (A : N) (a : Option T) (s : Bool) (A' : N) (a' : Option T) :
    tcell (setSync t A a s) A' a' = tcell t A' a' := by
  by_cases h : A' = A ∧ a' = a
  · obtain ⟨h1, h2⟩ := h
    subst h1; subst h2
    have := tcell_getD t A' a'
    unfold tcell at this ⊢
    unfold setSync
    rw [get_modify, if_pos ⟨rfl, rfl⟩]
    by_cases he : ((t.get A' a').getD ⟨[], false⟩).prods.isEmpty = true
    · simp only [he, if_true]; exact this
    · simp only [he]; exact this
  · unfold tcell setSync
    rw [get_modify, if_neg h]

theorem syncRow_cell (fo : N → TEnd T) (t : PTable T N) (A : N) (A' : N) (a' : Option T) :
    tcell (syncRow fo t A) A' a' = tcell t A' a' := by
  unfold syncRow
  generalize ((fo A).terms.map some ++ (if (fo A).endm then [none] else [])) = cs
  induction cs generalizing t with
  | nil => rfl
  | cons c cs ih => simp only [List.foldl_cons]; rw [ih, setSync_cell]

theorem syncRows_cell (fo : N → TEnd T) (rows : List N) (t : PTable T N) (A' : N) (a' : Option T) :
    tcell (rows.foldl (syncRow fo) t) A' a' = tcell t A' a' := by
  induction rows generalizing t with
  | nil => rfl
  | cons A rows ih => simp only [List.foldl_cons]; rw [ih, syncRow_cell]

theorem noSync_nil : NoSync ([] : PTable T N) := by
  intro A a e h; simp [PTable.get] at h

theorem foldl_insertNew_mem (l acc : List (GProd T N)) (x : GProd T N) :
    x ∈ l.foldl (fun acc p => insertNew p acc) acc ↔ x ∈ acc ∨ x ∈ l := by
  induction l generalizing acc with
  | nil => simp
  | cons p l ih =>
    simp only [List.foldl_cons, ih, mem_insertNew, List.mem_cons]
    constructor
    · rintro ((h | h) | h)
      · exact Or.inr (Or.inl h)
      · exact Or.inl h
      · exact Or.inr (Or.inr h)
    · rintro (h | h | h)
      · exact Or.inl (Or.inr h)
      · exact Or.inl (Or.inl h)
      · exact Or.inr h

theorem foldl_insertNew_nodup (l acc : List (GProd T N)) (h : (acc ++ l).Nodup) :
    l.foldl (fun acc p => insertNew p acc) acc = acc ++ l := by
  induction l generalizing acc with
  | nil => simp
  | cons p l ih =>
    have hp : p ∉ acc := by
      intro hm
      have := (List.nodup_append.1 h).2.2 p hm p (by simp)
      exact this rfl
    simp only [List.foldl_cons]
    have e : insertNew p acc = acc ++ [p] := by unfold insertNew; simp [hp]
    rw [e, ih (acc ++ [p]) (by simpa [List.append_assoc] using h)]
    simp

/-- the cells of the refined table, as lists: the productions of `ps` that belong there, in order, once -/
theorem tcell_buildTable (fi : List (Sym T N) → TE T) (fo : N → TEnd T) (ps : List (GProd T N)) (rows : List N)
    (A : N) (a : Option T) :
    tcell (buildTable fi fo ps rows) A a =
      (ps.filter fun p => decide (p.head = A) && inCell fi fo p a).foldl (fun l p => insertNew p l) [] := by
  unfold buildTable
  rw [syncRows_cell, (addProds_spec fi fo ps [] noSync_nil).2]
  rfl

theorem mem_tcell_buildTable {fi : List (Sym T N) → TE T} {fo : N → TEnd T} {ps : List (GProd T N)}
    {rows : List N} {A : N} {a : Option T} {p : GProd T N} :
    p ∈ tcell (buildTable fi fo ps rows) A a ↔ p ∈ ps ∧ p.head = A ∧ inCell fi fo p a = true := by
  rw [tcell_buildTable, foldl_insertNew_mem, List.mem_filter]
  simp

/-- for a duplicate-free production list the refined cells are the `cell`s -/
theorem tcell_eq_cell {g : Grammar T N} (hnd : g.prods.Nodup) (fi : List (Sym T N) → TE T) (fo : N → TEnd T)
    (rows : List N) : tcell (buildTable fi fo g.prods rows) = cell g fi fo := by
  funext A a
  have hf : ([] ++ g.prods.filter fun (p : GProd T N) => decide (p.head = A) && inCell fi fo p a).Nodup := by
    rw [List.nil_append]; exact hnd.filter _
  rw [tcell_buildTable, foldl_insertNew_nodup _ [] hf]
  simp [cell]

theorem tconflicts_eq {g : Grammar T N} (hnd : g.prods.Nodup) (fi : List (Sym T N) → TE T) (fo : N → TEnd T)
    (rows : List N) :
    tconflicts (buildTable fi fo g.prods rows) g.nonterms (columns g) = conflicts g fi fo := by
  unfold tconflicts conflicts
  rw [tcell_eq_cell hnd]

theorem parseWith_eq_cells {g : Grammar T N} (hnd : g.prods.Nodup) (an : Analysis T N) (fuel : Nat) (w : List T) :
    parseWith g an fuel w = parseWithCells g an fuel w := by
  unfold parseWith parseWithCells
  simp only [tconflicts_eq hnd, tcell_eq_cell hnd]

/-- the refined table only answers with productions of the non-terminal asked for (no hypothesis) -/
theorem tcell_tableSound (g : Grammar T N) (fi : List (Sym T N) → TE T) (fo : N → TEnd T) (rows : List N) :
    TableSound g (tcell (buildTable fi fo g.prods rows)) := by
  intro A col p h
  have : p ∈ tcell (buildTable fi fo g.prods rows) A col := by rw [h]; simp
  obtain ⟨h1, h2, _⟩ := mem_tcell_buildTable.1 this
  exact ⟨h1, h2⟩

/-- `Conflicts()` is empty for one order of rows and columns iff it is for any other that lists the same -/
theorem tconflicts_nil_iff (t : PTable T N) {rows rows' : List N} {cols cols' : List (Option T)}
    (hr : ∀ A, A ∈ rows ↔ A ∈ rows') (hc : ∀ c, c ∈ cols ↔ c ∈ cols') :
    tconflicts t rows cols = [] ↔ tconflicts t rows' cols' = [] := by
  have key : ∀ (rows : List N) (cols : List (Option T)),
      tconflicts t rows cols = [] ↔ ∀ A, A ∈ rows → ∀ c, c ∈ cols → ¬ (tcell t A c).length > 1 := by
    intro rows cols
    unfold tconflicts
    rw [List.flatMap_eq_nil_iff]
    constructor
    · intro h A hA c hc hl
      have := h A hA
      rw [List.filterMap_eq_nil_iff] at this
      have := this c hc
      simp [hl] at this
    · intro h A hA
      rw [List.filterMap_eq_nil_iff]
      intro c hc
      simp [h A hA c hc]
  rw [key, key]
  constructor
  · intro h A hA c hc'; exact h A ((hr A).2 hA) c ((hc c).2 hc')
  · intro h A hA c hc'; exact h A ((hr A).1 hA) c ((hc c).1 hc')

end AlgoVerif.C10
