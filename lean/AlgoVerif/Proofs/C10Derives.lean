import AlgoVerif.Model.GrammarCore
/-! Counted derivations and the decomposition lemmas the FIRST / FOLLOW / parser proofs rest on. -/
namespace AlgoVerif.Gram
variable {T N : Type}

theorem step_iff {g : Grammar T N} {x y : List (Sym T N)} :
    Step g x y ↔ ∃ u v p, p ∈ g.prods ∧ x = u ++ [Sym.nonterm p.head] ++ v ∧ y = u ++ p.body ++ v := by
  constructor
  · intro h
    cases h with
    | mk u v p hp => exact ⟨u, v, p, hp, rfl, rfl⟩
  · rintro ⟨u, v, p, hp, rfl, rfl⟩
    exact Step.mk u v p hp

/-- `n` rewriting steps, the first step first -/
inductive DerivesN (g : Grammar T N) : Nat → List (Sym T N) → List (Sym T N) → Prop where
  | refl (α : List (Sym T N)) : DerivesN g 0 α α
  | head {n : Nat} {α β γ : List (Sym T N)} : Step g α β → DerivesN g n β γ → DerivesN g (n + 1) α γ

theorem DerivesN.toDerives {g : Grammar T N} {n α β} (h : DerivesN g n α β) : Derives g α β := by
  induction h with
  | refl => exact Derives.refl _
  | head s _ ih => exact (Derives.single s).trans ih

theorem DerivesN.snoc {g : Grammar T N} {n α β γ} (h : DerivesN g n α β) (s : Step g β γ) :
    DerivesN g (n + 1) α γ := by
  induction h with
  | refl => exact DerivesN.head s (DerivesN.refl _)
  | head s' _ ih => exact DerivesN.head s' (ih s)

theorem Derives.toDerivesN {g : Grammar T N} {α β} (h : Derives g α β) : ∃ n, DerivesN g n α β := by
  induction h with
  | refl => exact ⟨0, DerivesN.refl _⟩
  | tail _ s ih =>
    obtain ⟨n, hn⟩ := ih
    exact ⟨n + 1, hn.snoc s⟩

theorem DerivesN.zero_eq {g : Grammar T N} {α β} (h : DerivesN g 0 α β) : α = β := by
  cases h; rfl

theorem DerivesN.trans {g : Grammar T N} {n m α β γ} (h₁ : DerivesN g n α β) (h₂ : DerivesN g m β γ) :
    DerivesN g (n + m) α γ := by
  induction h₁ with
  | refl => simpa using h₂
  | head s _ ih =>
    have := DerivesN.head s (ih h₂)
    simpa [Nat.add_right_comm, Nat.add_assoc, Nat.add_comm] using this

/-- no step starts from a string of terminals -/
theorem no_step_of_terms {g : Grammar T N} {w : List T} {y} : ¬ Step g (w.map Sym.term) y := by
  intro h
  obtain ⟨u, v, p, _, hx, _⟩ := step_iff.1 h
  have : Sym.nonterm p.head ∈ w.map (Sym.term (N := N)) := by
    rw [hx]; simp
  simp at this

theorem no_step_of_nil {g : Grammar T N} {y} : ¬ Step g ([] : List (Sym T N)) y :=
  no_step_of_terms (w := [])

theorem DerivesN.of_terms {g : Grammar T N} {n} {w : List T} {γ} (h : DerivesN g n (w.map Sym.term) γ) :
    γ = w.map Sym.term ∧ n = 0 := by
  cases h with
  | refl => exact ⟨rfl, rfl⟩
  | head s _ => exact absurd s no_step_of_terms

theorem DerivesN.of_nil {g : Grammar T N} {n} {γ} (h : DerivesN g n ([] : List (Sym T N)) γ) :
    γ = [] ∧ n = 0 := DerivesN.of_terms (w := []) h

theorem Derives.of_terms {g : Grammar T N} {w : List T} {γ} (h : Derives g (w.map Sym.term) γ) :
    γ = w.map Sym.term := by
  obtain ⟨n, hn⟩ := h.toDerivesN
  exact hn.of_terms.1

/-- the first step from a single non-terminal uses one of its productions -/
theorem DerivesN.of_single {g : Grammar T N} {n A γ} (h : DerivesN g (n + 1) [Sym.nonterm A] γ) :
    ∃ p, p ∈ g.prods ∧ p.head = A ∧ DerivesN g n p.body γ := by
  cases h with
  | head s rest =>
    obtain ⟨u, v, p, hp, hx, hy⟩ := step_iff.1 s
    have hu : u = [] := by
      cases u with
      | nil => rfl
      | cons a u => simp at hx
    subst hu
    simp at hx
    obtain ⟨hA, hv⟩ := hx
    subst hv
    refine ⟨p, hp, hA.symm, ?_⟩
    simpa [hy] using rest

theorem DerivesN.append_left {g : Grammar T N} {n α β} (h : DerivesN g n α β) (p : List (Sym T N)) :
    DerivesN g n (p ++ α) (p ++ β) := by
  induction h with
  | refl => exact DerivesN.refl _
  | head s _ ih => exact DerivesN.head (s.append_left p) ih

theorem DerivesN.append_right {g : Grammar T N} {n α β} (h : DerivesN g n α β) (s : List (Sym T N)) :
    DerivesN g n (α ++ s) (β ++ s) := by
  induction h with
  | refl => exact DerivesN.refl _
  | head st _ ih => exact DerivesN.head (st.append_right s) ih

/-- a derivation from `α ++ β` is a derivation from `α` next to one from `β` -/
theorem DerivesN.split {g : Grammar T N} {n} {α β γ : List (Sym T N)} (h : DerivesN g n (α ++ β) γ) :
    ∃ n₁ n₂ γ₁ γ₂, n = n₁ + n₂ ∧ γ = γ₁ ++ γ₂ ∧ DerivesN g n₁ α γ₁ ∧ DerivesN g n₂ β γ₂ := by
  generalize hx : α ++ β = x at h
  induction h generalizing α β with
  | refl x => subst hx; exact ⟨0, 0, α, β, rfl, rfl, DerivesN.refl _, DerivesN.refl _⟩
  | @head n x y z s rest ih =>
    subst hx
    obtain ⟨u, v, p, hp, hx, hy⟩ := step_iff.1 s
    rw [List.append_assoc] at hx
    rcases List.append_eq_append_iff.1 hx with ⟨a', h1, h2⟩ | ⟨c', h1, h2⟩
    · -- the rewritten non-terminal lies in β
      subst h1
      have hy' : y = α ++ (a' ++ p.body ++ v) := by simp [hy, List.append_assoc]
      obtain ⟨n₁, n₂, γ₁, γ₂, hn, hγ, d₁, d₂⟩ := ih hy'.symm
      refine ⟨n₁, n₂ + 1, γ₁, γ₂, by omega, hγ, d₁, ?_⟩
      refine DerivesN.head ?_ d₂
      rw [h2]
      have := Step.mk (g := g) a' v p hp
      simpa [List.append_assoc] using this
    · cases c' with
      | nil =>
        simp at h1 h2
        subst h1
        have hy' : y = α ++ (p.body ++ v) := by simp [hy, List.append_assoc]
        obtain ⟨n₁, n₂, γ₁, γ₂, hn, hγ, d₁, d₂⟩ := ih hy'.symm
        refine ⟨n₁, n₂ + 1, γ₁, γ₂, by omega, hγ, d₁, ?_⟩
        refine DerivesN.head ?_ d₂
        rw [← h2]
        have := Step.mk (g := g) [] v p hp
        simpa using this
      | cons c c'' =>
        simp at h2
        obtain ⟨hc, hv⟩ := h2
        subst hc
        subst hv
        have hy' : y = (u ++ p.body ++ c'') ++ β := by simp [hy, List.append_assoc]
        obtain ⟨n₁, n₂, γ₁, γ₂, hn, hγ, d₁, d₂⟩ := ih hy'.symm
        refine ⟨n₁ + 1, n₂, γ₁, γ₂, by omega, hγ, ?_, d₂⟩
        refine DerivesN.head ?_ d₁
        rw [h1]
        have := Step.mk (g := g) u c'' p hp
        simpa [List.append_assoc] using this

/-- a leading terminal stays where it is -/
theorem DerivesN.of_term_cons {g : Grammar T N} {n} {a : T} {α γ : List (Sym T N)}
    (h : DerivesN g n (Sym.term a :: α) γ) : ∃ γ', γ = Sym.term a :: γ' ∧ DerivesN g n α γ' := by
  have h' : DerivesN g n ([Sym.term a] ++ α) γ := h
  obtain ⟨n₁, n₂, γ₁, γ₂, hn, hγ, d₁, d₂⟩ := h'.split
  have := DerivesN.of_terms (w := [a]) d₁
  obtain ⟨h1, h2⟩ := this
  subst h1
  refine ⟨γ₂, by simpa using hγ, ?_⟩
  have : n = n₂ := by omega
  rw [this]; exact d₂

theorem Derives.of_term_cons {g : Grammar T N} {a : T} {α γ : List (Sym T N)}
    (h : Derives g (Sym.term a :: α) γ) : ∃ γ', γ = Sym.term a :: γ' ∧ Derives g α γ' := by
  obtain ⟨n, hn⟩ := h.toDerivesN
  obtain ⟨γ', h1, h2⟩ := hn.of_term_cons
  exact ⟨γ', h1, h2.toDerives⟩

theorem Derives.split {g : Grammar T N} {α β γ : List (Sym T N)} (h : Derives g (α ++ β) γ) :
    ∃ γ₁ γ₂, γ = γ₁ ++ γ₂ ∧ Derives g α γ₁ ∧ Derives g β γ₂ := by
  obtain ⟨n, hn⟩ := h.toDerivesN
  obtain ⟨_, _, γ₁, γ₂, _, hγ, d₁, d₂⟩ := hn.split
  exact ⟨γ₁, γ₂, hγ, d₁.toDerives, d₂.toDerives⟩

/-- one production applied to a single non-terminal -/
theorem Derives.of_prod {g : Grammar T N} {p : Prod T N} (hp : p ∈ g.prods) :
    Derives g [Sym.nonterm p.head] p.body := by
  have := Step.mk (g := g) [] [] p hp
  simp at this
  exact Derives.single this

end AlgoVerif.Gram
