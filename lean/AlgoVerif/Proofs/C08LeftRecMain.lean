import AlgoVerif.Proofs.C08LeftRecImm
/-!
# `EliminateLeftRecursion` preserves the language (C08)

`elimLeftRec g = elimCycles g`, then for the non-terminals `A₁ … Aₙ` in the order of `orderNT`:
substitute `Aⱼ` (j < i) into the `Aᵢ`-productions that begin with it (`lrSubst`), remove the immediate left
recursion of `Aᵢ` (`lrImmediate`); finally `prune`.  Every step preserves the language and
well-formedness (`Proofs/C08LeftRecSubst.lean`, `Proofs/C08LeftRecImm.lean`), whatever the order — so the
theorem needs nothing about `orderNT` and not even `Hygienic`: freshness of `A′` comes from
`addNew_ok` and well-formedness alone.

Final theorems: `C08_leftrec` (both inclusions), with corollaries `C08_leftrec_sound`,
`C08_leftrec_complete`, and `elimLeftRec_wf`.
-/
set_option linter.unusedSectionVars false
namespace AlgoVerif.C08
open AlgoVerif AlgoVerif.Gram AlgoVerif.C08.Spec

theorem elimUnreachable_wf {g g' : G} (h : elimUnreachable g = .ok g') (hw : WellFormed g) : WellFormed g' := by
  obtain ⟨r, hr, hs, hn, hp, ht⟩ := elimUnreachable_ok h
  obtain ⟨hstart, hclosed⟩ := reachable_spec hr
  refine ⟨by rw [hs, hn]; exact hstart, ?_⟩
  intro p hpp
  have hpp' : p ∈ g.prods.filter (fun p => decide (p.head ∈ r)) := by rw [← hp]; exact hpp
  obtain ⟨hpg, hph⟩ := List.mem_filter.1 hpp'
  have hph' : p.head ∈ r := by simpa using hph
  refine ⟨by rw [hn]; exact hph', ?_⟩
  intro s hs'
  cases s with
  | nonterm n =>
    unfold SymDeclared
    rw [hn]
    exact hclosed p hpg hph' n hs'
  | term t =>
    unfold SymDeclared
    rw [ht]
    refine List.mem_filter.2 ⟨(hw.2 p hpg).2 _ hs', ?_⟩
    apply List.any_eq_true.2
    exact ⟨p, hpp', by simpa using hs'⟩

theorem elimCycles_wf {g g' : G} (h : elimCycles g = .ok g') (hw : WellFormed g) : WellFormed g' := by
  obtain ⟨g1, g2, h1, h2, h3⟩ := elimCycles_ok h
  exact elimUnreachable_wf h3 (elimSingle_wf h2 (elimEmpty_wf h1 hw))

/-- the invariant of the two loops -/
def LRInv (g0 g : G) : Prop := WellFormed g ∧ ∀ w, Language g w ↔ Language g0 w

theorem lrSubst_fold_inv {g0 : G} (Ai : String) (done : List String) (g : G) (h : LRInv g0 g) :
    LRInv g0 (done.foldl (fun g Aj => lrSubst g Ai Aj) g) := by
  refine foldl_inv (LRInv g0) (fun g Aj => lrSubst g Ai Aj) done ?_ g h
  intro a Aj _ ha
  exact ⟨lrSubst_wf ha.1 Ai Aj, fun w => (lrSubst_language a Ai Aj w).trans (ha.2 w)⟩

theorem lrLoop_inv {g0 : G} : ∀ (rest done : List String) (g g' : G), LRInv g0 g →
    lrLoop done rest g = .ok g' → LRInv g0 g' := by
  intro rest
  induction rest with
  | nil =>
    intro done g g' hinv h
    simp [lrLoop, pure] at h
    subst h; exact hinv
  | cons Ai rest ih =>
    intro done g g' hinv h
    simp only [lrLoop] at h
    have h1 := lrSubst_fold_inv Ai done g hinv
    generalize done.foldl (fun g Aj => lrSubst g Ai Aj) g = g1 at h h1
    cases h2 : lrImmediate g1 Ai with
    | ok g2 =>
      simp only [h2, bind, Outcome.bind] at h
      refine ih (done ++ [Ai]) g2 g' ?_ h
      exact ⟨lrImmediate_wf h2 h1.1, fun w => (lrImmediate_language h2 h1.1 w).trans (h1.2 w)⟩
    | panic => simp [h2, bind, Outcome.bind] at h
    | diverge => simp [h2, bind, Outcome.bind] at h

theorem elimLeftRec_ok {g g' : G} (h : elimLeftRec g = .ok g') :
    ∃ g0 nts g1, elimCycles g = .ok g0 ∧ orderNT g0 = .ok nts ∧ lrLoop [] nts g0 = .ok g1 ∧ g' = prune g1 := by
  unfold elimLeftRec at h
  cases h0 : elimCycles g with
  | ok g0 =>
    simp only [h0, bind, Outcome.bind] at h
    cases h1 : orderNT g0 with
    | ok nts =>
      simp only [h1] at h
      cases h2 : lrLoop [] nts g0 with
      | ok g1 =>
        simp only [h2, pure] at h
        cases h
        exact ⟨g0, nts, g1, rfl, h1, h2, rfl⟩
      | panic => simp [h2] at h
      | diverge => simp [h2] at h
    | panic => simp [h1] at h
    | diverge => simp [h1] at h
  | panic => simp [h0, bind, Outcome.bind] at h
  | diverge => simp [h0, bind, Outcome.bind] at h

/-- the result of `EliminateLeftRecursion` is well-formed -/
theorem elimLeftRec_wf {g g' : G} (h : elimLeftRec g = .ok g') (hw : WellFormed g) : WellFormed g' := by
  obtain ⟨g0, nts, g1, h0, _, h2, rfl⟩ := elimLeftRec_ok h
  have hinv : LRInv g0 g0 := ⟨elimCycles_wf h0 hw, fun _ => Iff.rfl⟩
  exact prune_wf (lrLoop_inv nts [] g0 g1 hinv h2).1

theorem elimLeftRec_language {g g' : G} (h : elimLeftRec g = .ok g') (hw : WellFormed g) (w : List String) :
    Language g' w ↔ Language g w := by
  obtain ⟨g0, nts, g1, h0, _, h2, rfl⟩ := elimLeftRec_ok h
  have hinv : LRInv g0 g0 := ⟨elimCycles_wf h0 hw, fun _ => Iff.rfl⟩
  have h1 := lrLoop_inv nts [] g0 g1 hinv h2
  rw [prune_language, h1.2 w, elimCycles_language h0 hw]

/-- **`EliminateLeftRecursion` preserves the language** — every valid grammar, every sentence; conditional on
the Model returning `.ok` like the other C08 theorems.  (`Hygienic` is not needed.) -/
theorem C08_leftrec (g g' : G) (hv : Valid g) (h : elimLeftRec g = .ok g') : SameLanguage g g' :=
  fun w => elimLeftRec_language h hv.wellFormed w

/-- the same under the standard hypotheses of the C08 statements -/
theorem C08_leftrec' (g g' : G) (hv : Valid g) (_hh : Hygienic g) (h : elimLeftRec g = .ok g') :
    SameLanguage g g' := C08_leftrec g g' hv h

theorem C08_leftrec_sound (g g' : G) (hv : Valid g) (h : elimLeftRec g = .ok g') (w : List String)
    (hw : Language g' w) : Language g w := (C08_leftrec g g' hv h w).1 hw

theorem C08_leftrec_complete (g g' : G) (hv : Valid g) (h : elimLeftRec g = .ok g') (w : List String)
    (hw : Language g w) : Language g' w := (C08_leftrec g g' hv h w).2 hw

/-- the two steps on their own, for any well-formed grammar and any pair of names -/
theorem C08_lrSubst (g : G) (Ai Aj : String) : SameLanguage g (lrSubst g Ai Aj) :=
  fun w => lrSubst_language g Ai Aj w

theorem C08_lrImmediate (g g' : G) (A : String) (hw : WellFormed g) (h : lrImmediate g A = .ok g') :
    SameLanguage g g' := fun w => lrImmediate_language h hw w

end AlgoVerif.C08

/-! ## non-vacuity: the textbook expression grammar and an indirect left recursion -/
open AlgoVerif AlgoVerif.Gram AlgoVerif.C08 AlgoVerif.C08.Spec

/-- `E → E + T | T`, `T → T * F | F`, `F → ( E ) | id` -/
def C08LRex1 : G :=
  { terms := ["+", "*", "(", ")", "id"], nonterms := ["E", "T", "F"], start := "E",
    prods := [⟨"E", [.nonterm "E", .term "+", .nonterm "T"]⟩, ⟨"E", [.nonterm "T"]⟩,
              ⟨"T", [.nonterm "T", .term "*", .nonterm "F"]⟩, ⟨"T", [.nonterm "F"]⟩,
              ⟨"F", [.term "(", .nonterm "E", .term ")"]⟩, ⟨"F", [.term "id"]⟩] }

/-- `S → A a | b`, `A → S c | d` (indirect left recursion, the D14 witness) -/
def C08LRex2 : G :=
  { terms := ["a", "b", "c", "d"], nonterms := ["S", "A"], start := "S",
    prods := [⟨"S", [.nonterm "A", .term "a"]⟩, ⟨"S", [.term "b"]⟩,
              ⟨"A", [.nonterm "S", .term "c"]⟩, ⟨"A", [.term "d"]⟩] }

example : Valid C08LRex1 := by decide
example : Valid C08LRex2 := by decide
example : (elimLeftRec C08LRex2).map showGrammar =
    .ok "start=S T={a,b,c,d} N={A,A′,S} P={A′→a c A′; A′→ε; A→b c A′; A→d A′; S→A a; S→b}" := by decide

set_option maxRecDepth 8000 in
example : (elimLeftRec C08LRex1).map showGrammar =
    .ok "start=E T={(,),*,+,id} N={E,E′,F,T,T′} P={E′→+ T E′; E′→ε; E→( E ) E′; E→T * F E′; E→id E′; F→( E ); F→id; T′→* F T′; T′→ε; T→( E ) T′; T→id T′}" := by
  decide
