import AlgoVerif.Model.C11Core
import AlgoVerif.Spec.C11
/-!
# C11 — soundness of the LR driver on a validated table

`SoundTable g start' items T`: every action of `T` is justified by the item sets `items`.  Under it the driver
`parse` keeps the stack invariant (`lr_stack_invariant`): the states on the stack spell a string of grammar
symbols `X₁ … Xₙ`, and every item `A → α•β` of the top state has `α` as a suffix of that string, with `A → •αβ`
in the state below `α`.  Soundness follows: the productions emitted so far, latest first, are a rightmost
derivation of the input from `X₁ … Xₙ · (remaining input)`, and the node stack has that string's yield.
-/
namespace AlgoVerif.C11.Sound
open AlgoVerif AlgoVerif.Gram AlgoVerif.C11 AlgoVerif.C11.Spec

/-- item `it` of the target state is justified by the source item set on symbol `X` -/
def Justified (src : List Item) (X : Sy) (it : Item) : Prop :=
  it.dot = 0 ∨ (it.prod.body[it.dot - 1]? = some X ∧ ∃ j ∈ src, j.prod = it.prod ∧ j.dot + 1 = it.dot)

structure SoundTable (g : SGrammar) (start' : String) (items : Int → List Item) (T : Tbl) : Prop where
  shiftOK : ∀ s a t, Action.shift t ∈ T.cell s a →
    a ≠ endmarker ∧ t ≠ 0 ∧ ∀ it ∈ items t, Justified (items s) (Sym.term a) it
  gotoOK : ∀ s A t, T.goto s A = some t → t ≠ 0 ∧ ∀ it ∈ items t, Justified (items s) (Sym.nonterm A) it
  reduceOK : ∀ s a p, Action.reduce p ∈ T.cell s a →
    p ∈ g.prods ∧ ∃ j ∈ items s, j.prod = p ∧ j.dot = p.body.length
  acceptOK : ∀ s a, Action.accept ∈ T.cell s a →
    a = endmarker ∧ ∃ j ∈ items s, j.prod = { head := start', body := [Sym.nonterm g.start] } ∧ j.dot = 1
  init0 : ∀ it ∈ items 0, it.dot = 0
  initOnly : ∀ s it, it ∈ items s → it.prod.head = start' → it.dot = 0 → s = 0
  noItems : items (-1) = []

/-! ## the ghost stack of (state, accessing symbol) frames -/

abbrev Frame := Int × Sy

/-- the state on top of the frames (`0` at the bottom) -/
def topOf : List Frame → Int
  | [] => 0
  | f :: _ => f.1

/-- consecutive frames are table transitions -/
def Chain (items : Int → List Item) : List Frame → Prop
  | [] => True
  | f :: rest => f.1 ≠ 0 ∧ (∀ it ∈ items f.1, Justified (items (topOf rest)) f.2 it) ∧ Chain items rest

def symsOf (fr : List Frame) : List Sy := fr.reverse.map (·.2)

theorem chain_drop {items : Int → List Item} : ∀ (fr : List Frame) (n : Nat), Chain items fr → Chain items (fr.drop n)
  | [], n, _ => by simp [Chain]
  | _ :: _, 0, h => by simpa using h
  | _ :: rest, n + 1, h => by
    simpa using chain_drop rest n h.2.2

/-- `lr_stack_invariant`: an item of the top state has its prefix `α` on the stack, and its dot-0 version in the
state below `α` -/
theorem lr_stack_invariant {g : SGrammar} {start' : String} {items : Int → List Item} {T : Tbl}
    (hT : SoundTable g start' items T) :
    ∀ (d : Nat) (fr : List Frame) (it : Item), Chain items fr → it ∈ items (topOf fr) → it.dot = d →
      d ≤ fr.length ∧ symsOf (fr.take d) = it.prod.body.take d ∧
      ∃ j ∈ items (topOf (fr.drop d)), j.prod = it.prod ∧ j.dot = 0 := by
  intro d
  induction d with
  | zero =>
    intro fr it _ hit hd
    refine ⟨Nat.zero_le _, by simp [symsOf], it, by simpa using hit, rfl, hd⟩
  | succ d ih =>
    intro fr it hch hit hd
    match fr, hch, hit with
    | [], _, hit =>
      have := hT.init0 it (by simpa [topOf] using hit)
      omega
    | f :: rest, hch, hit =>
      have hj := hch.2.1 it (by simpa [topOf] using hit)
      rcases hj with h0 | ⟨hX, j, hjm, hjp, hjd⟩
      · omega
      · have hjd' : j.dot = d := by omega
        obtain ⟨hle, hsy, j0, hj0m, hj0p, hj0d⟩ := ih rest j hch.2.2 hjm hjd'
        refine ⟨by simp; omega, ?_, j0, by simpa using hj0m, by rw [hj0p, hjp], hj0d⟩
        have hX' : it.prod.body[d]? = some f.2 := by
          have : it.dot - 1 = d := by omega
          rw [this] at hX; exact hX
        have hlt : d < it.prod.body.length := by
          rcases Nat.lt_or_ge d it.prod.body.length with h | h
          · exact h
          · rw [List.getElem?_eq_none h] at hX'; cases hX'
        have hget : it.prod.body[d] = f.2 := by
          rw [List.getElem?_eq_getElem hlt] at hX'; exact Option.some.inj hX'
        simp only [symsOf, List.take_succ_cons, List.reverse_cons, List.map_append, List.map_cons, List.map_nil]
        have h1 : List.map (fun x : Frame => x.2) (List.take d rest).reverse = it.prod.body.take d := by
          have := hsy; simp only [symsOf] at this; rw [this, hjp]
        rw [h1, List.take_add_one, List.getElem?_eq_getElem hlt, hget]
        rfl

/-! ## yields -/

theorem yieldL_append : ∀ (a b : List Tree), Tree.yieldL (a ++ b) = Tree.yieldL a ++ Tree.yieldL b
  | [], b => by simp [Tree.yieldL]
  | t :: ts, b => by simp [Tree.yieldL, yieldL_append ts b, List.append_assoc]

/-! ## the invariant of the driver loop -/

structure Inv (g : SGrammar) (items : Int → List Item) (w : List String) (st : PState) : Prop where
  ex : ∃ fr : List Frame,
    st.stack = fr.map (·.1) ++ [0] ∧ Chain items fr ∧
    RDeriv g st.out (symsOf fr ++ st.input.map Sym.term) (w.map Sym.term) ∧
    st.nodes.length = fr.length ∧ Tree.yieldL st.nodes.reverse ++ st.input = w
  noEnd : endmarker ∉ st.input

theorem inv_init (g : SGrammar) (items : Int → List Item) (w : List String) (hw : endmarker ∉ w) :
    Inv g items w (pinit w) := by
  refine ⟨⟨[], by simp [pinit], by simp [Chain], ?_, by simp [pinit], by simp [pinit, Tree.yieldL]⟩, by simpa [pinit] using hw⟩
  simpa [pinit, symsOf] using RDeriv.nil (g := g) (w.map Sym.term)

theorem peek_frames (fr : List Frame) : peekState (fr.map (·.1) ++ [0]) = topOf fr := by
  cases fr <;> simp [peekState, topOf]

theorem take_drop_rev_syms (fr : List Frame) (n : Nat) :
    symsOf fr = symsOf (fr.drop n) ++ symsOf (fr.take n) := by
  simp only [symsOf]
  rw [← List.map_append, ← List.reverse_append, List.take_append_drop]

/-- one step of the loop keeps the invariant, and an `accept` is sound -/
theorem step_sound {g : SGrammar} {start' : String} {items : Int → List Item} {T : Tbl}
    (hT : SoundTable g start' items T) (w : List String) (st : PState) (hI : Inv g items w st) :
    (∀ st', pstep T st = .inl st' → Inv g items w st') ∧
    (∀ π root, pstep T st = .inr (.accept π root) →
      RDeriv g π.reverse [Sym.nonterm g.start] (w.map Sym.term) ∧ root.yield = w) := by
  obtain ⟨⟨fr, hstk, hch, hder, hlen, hyield⟩, hnoEnd⟩ := hI
  have hpeek : peekState st.stack = topOf fr := by rw [hstk]; exact peek_frames fr
  unfold pstep
  simp only
  rw [hpeek]
  cases hcell : T.cell (topOf fr) st.tok with
  | nil => simp
  | cons act rest =>
    cases rest with
    | cons _ _ => simp
    | nil =>
      have hmem : act ∈ T.cell (topOf fr) st.tok := by rw [hcell]; simp
      cases act with
      | shift t =>
        obtain ⟨hne, ht0, hjust⟩ := hT.shiftOK _ _ _ hmem
        -- the current token is a real token
        cases hin : st.input with
        | nil => simp [PState.tok, hin] at hne
        | cons a rest =>
          have htok : st.tok = a := by simp [PState.tok, hin]
          refine ⟨?_, by simp⟩
          intro st' hst'
          simp only [Sum.inl.injEq] at hst'
          subst hst'
          refine ⟨⟨(t, Sym.term a) :: fr, by simp [hstk], ⟨ht0, by simpa [htok] using hjust, hch⟩, ?_, by simp [hlen], ?_⟩, ?_⟩
          · simp only [List.tail_cons]
            have : symsOf ((t, Sym.term a) :: fr) ++ List.map Sym.term rest
                = symsOf fr ++ List.map Sym.term (a :: rest) := by
              simp [symsOf, List.append_assoc]
            rw [this, ← hin]; exact hder
          · simp only [List.tail_cons, htok, List.reverse_cons]
            rw [yieldL_append]
            simp only [Tree.yieldL, Tree.yield, List.append_nil, List.append_assoc, List.singleton_append]
            rw [← hin]; exact hyield
          · simp only [List.tail_cons]
            intro hmem'
            exact hnoEnd (by rw [hin]; exact List.mem_cons_of_mem _ hmem')
      | reduce p =>
        obtain ⟨hp, j, hjm, hjp, hjd⟩ := hT.reduceOK _ _ _ hmem
        obtain ⟨hle, hsy, j0, hj0m, _, _⟩ := lr_stack_invariant hT p.body.length fr j hch hjm hjd
        refine ⟨?_, by simp⟩
        intro st' hst'
        simp only [Sum.inl.injEq] at hst'
        subst hst'
        have hdrop : st.stack.drop p.body.length = (fr.drop p.body.length).map (·.1) ++ [0] := by
          rw [hstk, List.drop_append_of_le_length (by simpa using hle), List.map_drop]
        have hpk : peekState (st.stack.drop p.body.length) = topOf (fr.drop p.body.length) := by
          rw [hdrop]; exact peek_frames _
        refine ⟨⟨((T.goto (topOf (fr.drop p.body.length)) p.head).getD (-1), Sym.nonterm p.head) :: fr.drop p.body.length,
          by simp only [List.map_cons, List.cons_append]; rw [hpk, hdrop], ?_, ?_, ?_, ?_⟩, hnoEnd⟩
        · refine ⟨?_, ?_, chain_drop fr _ hch⟩
          · cases hg : T.goto (topOf (fr.drop p.body.length)) p.head with
            | none => simp
            | some t => simpa using (hT.gotoOK _ _ _ hg).1
          · cases hg : T.goto (topOf (fr.drop p.body.length)) p.head with
            | none => intro it hit; simp [hT.noItems] at hit
            | some t => simpa using (hT.gotoOK _ _ _ hg).2
        · -- the derivation: u ++ [A] ++ v  ⇒rm  u ++ β ++ v
          have hβ : symsOf (fr.take p.body.length) = p.body := by
            rw [hsy, hjp, List.take_length]
          have hφ : symsOf fr ++ st.input.map Sym.term
              = symsOf (fr.drop p.body.length) ++ p.body ++ st.input.map Sym.term := by
            rw [take_drop_rev_syms fr p.body.length, hβ]
          have hφ' : symsOf (((T.goto (topOf (fr.drop p.body.length)) p.head).getD (-1), Sym.nonterm p.head) :: fr.drop p.body.length)
                ++ st.input.map Sym.term
              = symsOf (fr.drop p.body.length) ++ [Sym.nonterm p.head] ++ st.input.map Sym.term := by
            simp [symsOf]
          rw [hφ']
          exact RDeriv.cons _ _ p hp (by rw [← hφ]; exact hder)
        · simp [hlen]
        · -- the yield
          have hn : p.body.length ≤ st.nodes.length := by omega
          have hk : popKids p.body.length st.nodes = (st.nodes.take p.body.length).reverse := by
            simp [popKids, Nat.sub_eq_zero_of_le hn]
          simp only [List.reverse_cons]
          rw [yieldL_append]
          simp only [Tree.yieldL, Tree.yield, List.append_nil, hk]
          rw [← yieldL_append, ← List.reverse_append, List.take_append_drop]
          exact hyield
      | accept =>
        obtain ⟨hae, j, hjm, hjp, hjd⟩ := hT.acceptOK _ _ hmem
        refine ⟨by simp, ?_⟩
        intro π root hres
        simp only [Sum.inr.injEq, PResult.accept.injEq] at hres
        obtain ⟨hπ, hroot⟩ := hres
        -- the input is exhausted
        have hin : st.input = [] := by
          cases h : st.input with
          | nil => rfl
          | cons a rest =>
            exfalso; apply hnoEnd
            have : st.tok = a := by simp [PState.tok, h]
            rw [h, ← this, hae]; simp
        obtain ⟨hle, hsy, j0, hj0m, hj0p, hj0d⟩ := lr_stack_invariant hT 1 fr j hch hjm hjd
        have h0 : topOf (fr.drop 1) = 0 := hT.initOnly _ j0 hj0m (by rw [hj0p, hjp]) hj0d
        -- exactly one frame, carrying the start symbol
        match fr, hle, hsy, h0, hch, hlen, hyield, hder with
        | [f], _, hsy, _, _, hlen, hyield, hder =>
          have hf : f.2 = Sym.nonterm g.start := by
            simpa [symsOf, hjp] using hsy
          constructor
          · rw [← hπ, List.reverse_reverse]
            simpa [symsOf, hf, hin] using hder
          · match hn : st.nodes, hlen with
            | [r], _ =>
              rw [hn] at hroot hyield
              simp only at hroot
              subst hroot
              simpa [Tree.yieldL, hin] using hyield
        | f :: f' :: rest, _, _, h0, hch, _, _, _ =>
          exfalso
          exact hch.2.2.1 (by simpa [topOf] using h0)

/-- the run: an `accept` is sound -/
theorem run_sound {g : SGrammar} {start' : String} {items : Int → List Item} {T : Tbl}
    (hT : SoundTable g start' items T) (w : List String) :
    ∀ (fuel : Nat) (st : PState), Inv g items w st → ∀ π root, prun T fuel st = .ok (.accept π root) →
      RDeriv g π.reverse [Sym.nonterm g.start] (w.map Sym.term) ∧ root.yield = w := by
  intro fuel
  induction fuel with
  | zero => intro st _ π root h; simp [prun] at h
  | succ n ih =>
    intro st hI π root h
    have hs := step_sound hT w st hI
    unfold prun at h
    cases hstep : pstep T st with
    | inl st' =>
      rw [hstep] at h
      exact ih st' (hs.1 st' hstep) π root h
    | inr r =>
      rw [hstep] at h
      simp only [Outcome.ok.injEq] at h
      subst h
      exact hs.2 π root hstep

theorem parse_sound {g : SGrammar} {start' : String} {items : Int → List Item} {T : Tbl}
    (hT : SoundTable g start' items T) (w : List String) (hw : endmarker ∉ w) (fuel : Nat) (π : List Pr) (root : Tree)
    (h : parse T fuel w = .ok (.accept π root)) :
    RightmostDerivation g π.reverse w ∧ root.yield = w :=
  run_sound hT w fuel (pinit w) (inv_init g items w hw) π root h

end AlgoVerif.C11.Sound
