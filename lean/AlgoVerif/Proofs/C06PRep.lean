import AlgoVerif.Proofs.C06PT
import AlgoVerif.Proofs.C06Patricia
import AlgoVerif.Proofs.C06Fold
/-!
# C06 — the Patricia store represents a crit-bit tree

`Rep t b p T`: following the link `p`, which leaves a node with bit position `b`, the store `t` unfolds
into the tree `T` (an upward link — target bit position `≤ b` — is a leaf).
-/
namespace AlgoVerif.C06
variable {V : Type}
open BitString (xbit Small)

open PT

namespace Patricia

def Rep (t : Patricia V) : Nat → Option Nat → PT V → Prop
  | b, p, .leaf i k v => p = some i ∧ ∃ n, t.nodes[i]? = some n ∧ n.bp ≤ b ∧ n.key = k ∧ n.val = v
  | b, p, .inner i bp l r =>
    p = some i ∧ ∃ n, t.nodes[i]? = some n ∧ n.bp = bp ∧ bp > b ∧ Rep t bp n.left l ∧ Rep t bp n.right r

/-- what a store update must preserve for `Rep` of a tree to survive it -/
structure Frame (t t' : Patricia V) (T : PT V) : Prop where
  inner : ∀ i ∈ inners T, ∀ n, t.nodes[i]? = some n →
    ∃ n', t'.nodes[i]? = some n' ∧ n'.bp = n.bp ∧ n'.left = n.left ∧ n'.right = n.right
  leaf : ∀ i ∈ leafIdx T, ∀ n, t.nodes[i]? = some n →
    ∃ n', t'.nodes[i]? = some n' ∧ n'.bp = n.bp ∧ n'.key = n.key ∧ n'.val = n.val

theorem Frame.left {t t' : Patricia V} {i bp : Nat} {l r : PT V} (h : Frame t t' (.inner i bp l r)) : Frame t t' l :=
  ⟨fun j hj => h.inner j (by simp [inners, hj]), fun j hj => h.leaf j (by simp [leafIdx, hj])⟩

theorem Frame.right {t t' : Patricia V} {i bp : Nat} {l r : PT V} (h : Frame t t' (.inner i bp l r)) : Frame t t' r :=
  ⟨fun j hj => h.inner j (by simp [inners, hj]), fun j hj => h.leaf j (by simp [leafIdx, hj])⟩

theorem Rep.frame {t t' : Patricia V} {T : PT V} {b : Nat} {p : Option Nat} (h : Rep t b p T) (hf : Frame t t' T) :
    Rep t' b p T := by
  induction T generalizing b p with
  | leaf i k v =>
    obtain ⟨hp, n, hn, hb, hk, hv⟩ := h
    obtain ⟨n', hn', h1, h2, h3⟩ := hf.leaf i (by simp [leafIdx]) n hn
    exact ⟨hp, n', hn', by omega, by rw [h2, hk], by rw [h3, hv]⟩
  | inner i bp l r ihl ihr =>
    obtain ⟨hp, n, hn, hbp, hb, hl, hr⟩ := h
    obtain ⟨n', hn', h1, h2, h3⟩ := hf.inner i (by simp [inners]) n hn
    exact ⟨hp, n', hn', by omega, hb, by rw [h2]; exact ihl hl hf.left, by rw [h3]; exact ihr hr hf.right⟩

/-- `Rep` determines the tree -/
theorem Rep.unique {t : Patricia V} {T T' : PT V} {b : Nat} {p : Option Nat} (h : Rep t b p T) (h' : Rep t b p T') :
    T = T' := by
  induction T generalizing b p T' with
  | leaf i k v =>
    obtain ⟨hp, n, hn, hb, hk, hv⟩ := h
    cases T' with
    | leaf i' k' v' =>
      obtain ⟨hp', n', hn', _, hk', hv'⟩ := h'
      have : i = i' := by rw [hp] at hp'; exact Option.some.inj hp'
      subst this
      rw [hn] at hn'; cases hn'
      rw [← hk, ← hv, ← hk', ← hv']
    | inner i' bp' l' r' =>
      obtain ⟨hp', n', hn', hbp', hb', _, _⟩ := h'
      have : i = i' := by rw [hp] at hp'; exact Option.some.inj hp'
      subst this
      rw [hn] at hn'; cases hn'
      omega
  | inner i bp l r ihl ihr =>
    obtain ⟨hp, n, hn, hbp, hb, hl, hr⟩ := h
    cases T' with
    | leaf i' k' v' =>
      obtain ⟨hp', n', hn', hb', _, _⟩ := h'
      have : i = i' := by rw [hp] at hp'; exact Option.some.inj hp'
      subst this
      rw [hn] at hn'; cases hn'
      omega
    | inner i' bp' l' r' =>
      obtain ⟨hp', n', hn', hbp', hb', hl', hr'⟩ := h'
      have : i = i' := by rw [hp] at hp'; exact Option.some.inj hp'
      subst this
      rw [hn] at hn'; cases hn'
      subst hbp; subst hbp'
      rw [ihl hl hl', ihr hr hr']

/-- raising the bit position the link is seen from keeps `Rep`, if an inner target still lies above it -/
theorem Rep.raise {t : Patricia V} {T : PT V} {b b' : Nat} {p : Option Nat} (h : Rep t b p T) (hbb : b ≤ b')
    (hT : ∀ i bp l r, T = .inner i bp l r → b' < bp) : Rep t b' p T := by
  cases T with
  | leaf i k v =>
    obtain ⟨hp, n, hn, hb, hk, hv⟩ := h
    exact ⟨hp, n, hn, by omega, hk, hv⟩
  | inner i bp l r =>
    obtain ⟨hp, n, hn, hbp, hb, hl, hr⟩ := h
    exact ⟨hp, n, hn, hbp, hT i bp l r rfl, hl, hr⟩

/-- indices of a represented tree are valid -/
theorem Rep.valid {t : Patricia V} {T : PT V} {b : Nat} {p : Option Nat} (h : Rep t b p T) :
    ∀ i, i ∈ leafIdx T ++ inners T → i < t.nodes.size := by
  induction T generalizing b p with
  | leaf i k v =>
    obtain ⟨_, n, hn, _⟩ := h
    intro j hj
    simp [leafIdx, inners] at hj
    subst hj
    by_cases hlt : j < t.nodes.size
    · exact hlt
    · rw [Array.getElem?_eq_none (by omega)] at hn; cases hn
  | inner i bp l r ihl ihr =>
    obtain ⟨_, n, hn, _, _, hl, hr⟩ := h
    intro j hj
    simp only [leafIdx, inners, List.mem_append, List.mem_cons] at hj
    rcases hj with (hj | hj) | (hj | hj | hj)
    · exact ihl hl j (List.mem_append.mpr (.inl hj))
    · exact ihr hr j (List.mem_append.mpr (.inl hj))
    · subst hj
      by_cases hlt : j < t.nodes.size
      · exact hlt
      · rw [Array.getElem?_eq_none (by omega)] at hn; cases hn
    · exact ihl hl j (List.mem_append.mpr (.inr hj))
    · exact ihr hr j (List.mem_append.mpr (.inr hj))

/-- the leaf a descent ends at is the stored node -/
theorem Rep.descend_node {t : Patricia V} {T : PT V} {b : Nat} {p : Option Nat} (h : Rep t b p T) (key : Key) :
    ∃ n, t.nodes[(descend T key).1]? = some n ∧ n.key = (descend T key).2.1 ∧ n.val = (descend T key).2.2 := by
  induction T generalizing b p with
  | leaf i k v =>
    obtain ⟨_, n, hn, _, hk, hv⟩ := h
    exact ⟨n, hn, hk, hv⟩
  | inner i bp l r ihl ihr =>
    obtain ⟨_, n, hn, _, _, hl, hr⟩ := h
    simp only [descend]
    split
    · exact ihr hr
    · exact ihl hl

/-! ## `search` is the descent -/

theorem searchLoop_rep {t : Patricia V} {T : PT V} {b : Nat} {p : Option Nat} (h : Rep t b p T) (key : Key)
    (f : Nat) (hf : above t b < f) : searchLoop t key f b p = .ok (some (descend T key).1) := by
  induction T generalizing b p f with
  | leaf i k v =>
    obtain ⟨hp, n, hn, hb, _, _⟩ := h
    subst hp
    cases f with
    | zero => omega
    | succ f =>
      have : ¬ n.bp > b := by omega
      simp [searchLoop, node, hn, bind, Outcome.bind, this, descend]
      rfl
  | inner i bp l r ihl ihr =>
    obtain ⟨hp, n, hn, hbp, hb, hl, hr⟩ := h
    subst hp
    subst hbp
    cases f with
    | zero => omega
    | succ f =>
      have hgt : n.bp > b := by omega
      have hlt := above_lt hn hgt
      simp only [searchLoop, node, hn, bind, Outcome.bind, hgt, if_true]
      rw [BitString.bit_ok_of_pos _ (by omega)]
      simp only [descend]
      cases hbit : xbit key (n.bp - 1)
      · simp only [Bool.false_eq_true, if_false]
        exact ihl hl f (by omega)
      · simp only [if_true]
        exact ihr hr f (by omega)

/-! ## the threaded traversals are folds over the in-order leaves -/

theorem node_of_rep {t : Patricia V} {T : PT V} {b : Nat} {p : Option Nat} (h : Rep t b p T) :
    ∃ n, t.node p = .ok n ∧ ((∃ i k v, T = .leaf i k v ∧ n.bp ≤ b ∧ n.key = k ∧ n.val = v) ∨
      (∃ i l r, T = .inner i n.bp l r ∧ p = some i ∧ n.bp > b ∧ Rep t n.bp n.left l ∧ Rep t n.bp n.right r)) := by
  cases T with
  | leaf i k v =>
    obtain ⟨hp, n, hn, hb, hk, hv⟩ := h
    subst hp
    exact ⟨n, node_some hn, .inl ⟨i, k, v, rfl, hb, hk, hv⟩⟩
  | inner i bp l r =>
    obtain ⟨hp, n, hn, hbp, hb, hl, hr⟩ := h
    subst hp; subst hbp
    exact ⟨n, node_some hn, .inr ⟨i, l, r, rfl, rfl, hb, hl, hr⟩⟩

@[simp] theorem pure_eq_ok {α : Type} (a : α) : (pure a : Outcome α) = .ok a := rfl
@[simp] theorem bind_ok {α β : Type} (a : α) (f : α → Outcome β) : (Outcome.ok a >>= f) = f a := rfl

theorem travAsc_link {σ : Type} {t : Patricia V} (visit : σ → PNode V → σ × Bool) (g : σ → Key → V → σ × Bool)
    (hv : ∀ s n, visit s n = g s n.key n.val) (T : PT V) :
    ∀ (b : Nat) (p : Option Nat) (f : Nat) (s : σ), Rep t b p T → (∀ i ∈ inners T, some i ≠ t.root) → above t b ≤ f →
      ∃ n, t.node p = .ok n ∧
        (if n.bp ≤ b then (.ok (visit s n) : Outcome (σ × Bool)) else travAsc t visit f p s) = .ok (foldE g (ents T) s) := by
  induction T with
  | leaf i k v =>
    intro b p f s h _ _
    obtain ⟨hp, n, hn, hb, hk, hv'⟩ := h
    subst hp
    refine ⟨n, node_some hn, ?_⟩
    simp only [hb, if_true, ents, foldE_singleton, hv, hk, hv']
  | inner i bp l r ihl ihr =>
    intro b p f s h hroot hf
    obtain ⟨hp, n, hn, hbp, hb, hl, hr⟩ := h
    subst hp; subst hbp
    refine ⟨n, node_some hn, ?_⟩
    have hnle : ¬ n.bp ≤ b := by omega
    simp only [hnle, if_false]
    have hlt := above_lt hn hb
    cases f with
    | zero => omega
    | succ f =>
      have hrl : ∀ j ∈ inners l, some j ≠ t.root := fun j hj => hroot j (by simp [inners, hj])
      have hrr : ∀ j ∈ inners r, some j ≠ t.root := fun j hj => hroot j (by simp [inners, hj])
      have hi : (some i != t.root) = true := by simpa using hroot i (by simp [inners])
      obtain ⟨nl, hnl, hL⟩ := ihl n.bp n.left f s hl hrl (by omega)
      obtain ⟨nr, hnr, hR⟩ := ihr n.bp n.right f (foldE g (ents l) s).1 hr hrr (by omega)
      simp only [travAsc, node_some hn, hnl, hnr, hi, if_true, bind_ok, pure_eq_ok, decide_eq_true_eq]
      rw [hL]
      simp only [bind_ok, ents, foldE_append]
      by_cases h2 : (foldE g (ents l) s).2 = true
      · simp only [h2, Bool.not_true, Bool.false_eq_true, if_false]
        exact hR
      · simp [h2]

theorem travDesc_link {σ : Type} {t : Patricia V} (visit : σ → PNode V → σ × Bool) (g : σ → Key → V → σ × Bool)
    (hv : ∀ s n, visit s n = g s n.key n.val) (T : PT V) :
    ∀ (b : Nat) (p : Option Nat) (f : Nat) (s : σ), Rep t b p T → (∀ i ∈ inners T, some i ≠ t.root) → above t b ≤ f →
      ∃ n, t.node p = .ok n ∧
        (if n.bp ≤ b then (.ok (visit s n) : Outcome (σ × Bool)) else travDesc t visit f p s)
          = .ok (foldE g (ents T).reverse s) := by
  induction T with
  | leaf i k v =>
    intro b p f s h _ _
    obtain ⟨hp, n, hn, hb, hk, hv'⟩ := h
    subst hp
    refine ⟨n, node_some hn, ?_⟩
    simp only [hb, if_true, ents, List.reverse_cons, List.reverse_nil, List.nil_append, foldE_singleton, hv, hk, hv']
  | inner i bp l r ihl ihr =>
    intro b p f s h hroot hf
    obtain ⟨hp, n, hn, hbp, hb, hl, hr⟩ := h
    subst hp; subst hbp
    refine ⟨n, node_some hn, ?_⟩
    have hnle : ¬ n.bp ≤ b := by omega
    simp only [hnle, if_false]
    have hlt := above_lt hn hb
    cases f with
    | zero => omega
    | succ f =>
      have hrl : ∀ j ∈ inners l, some j ≠ t.root := fun j hj => hroot j (by simp [inners, hj])
      have hrr : ∀ j ∈ inners r, some j ≠ t.root := fun j hj => hroot j (by simp [inners, hj])
      have hi : (some i != t.root) = true := by simpa using hroot i (by simp [inners])
      obtain ⟨nr, hnr, hR⟩ := ihr n.bp n.right f s hr hrr (by omega)
      obtain ⟨nl, hnl, hL⟩ := ihl n.bp n.left f (foldE g (ents r).reverse s).1 hl hrl (by omega)
      simp only [travDesc, node_some hn, hnl, hnr, hi, if_true, bind_ok, pure_eq_ok, decide_eq_true_eq]
      rw [hR]
      simp only [bind_ok, ents, List.reverse_append, foldE_append]
      by_cases h2 : (foldE g (ents r).reverse s).2 = true
      · simp only [h2, Bool.not_true, Bool.false_eq_true, if_false]
        exact hL
      · simp [h2]

theorem minLoop_link {t : Patricia V} (T : PT V) :
    ∀ (b : Nat) (p : Option Nat) (f : Nat), Rep t b p T → above t b ≤ f →
      ∃ n, t.node p = .ok n ∧
        (if n.bp ≤ b then (.ok (some (n.key, n.val)) : Outcome (Option (Key × V))) else minLoop t f p)
          = .ok (ents T).head? := by
  induction T with
  | leaf i k v =>
    intro b p f h _
    obtain ⟨hp, n, hn, hb, hk, hv'⟩ := h
    subst hp
    exact ⟨n, node_some hn, by simp [hb, ents, hk, hv']⟩
  | inner i bp l r ihl ihr =>
    intro b p f h hf
    obtain ⟨hp, n, hn, hbp, hb, hl, hr⟩ := h
    subst hp; subst hbp
    refine ⟨n, node_some hn, ?_⟩
    have hnle : ¬ n.bp ≤ b := by omega
    simp only [hnle, if_false]
    have hlt := above_lt hn hb
    cases f with
    | zero => omega
    | succ f =>
      obtain ⟨nl, hnl, hL⟩ := ihl n.bp n.left f hl (by omega)
      simp only [minLoop, node_some hn, hnl, bind_ok, pure_eq_ok]
      rw [hL]
      cases he : ents l with
      | nil => exact absurd he (ents_ne_nil l)
      | cons x xs => simp [ents, he]

/-- `_max` below a non-root node follows right links -/
theorem maxLoop_link {t : Patricia V} (T : PT V) :
    ∀ (b : Nat) (p : Option Nat) (f : Nat), Rep t b p T → (∀ i ∈ inners T, some i ≠ t.root) → above t b ≤ f →
      ∃ n, t.node p = .ok n ∧
        (if n.bp ≤ b then (.ok (some (n.key, n.val)) : Outcome (Option (Key × V))) else maxLoop t f p)
          = .ok (ents T).getLast? := by
  induction T with
  | leaf i k v =>
    intro b p f h _ _
    obtain ⟨hp, n, hn, hb, hk, hv'⟩ := h
    subst hp
    exact ⟨n, node_some hn, by simp [hb, ents, hk, hv']⟩
  | inner i bp l r ihl ihr =>
    intro b p f h hroot hf
    obtain ⟨hp, n, hn, hbp, hb, hl, hr⟩ := h
    subst hp; subst hbp
    refine ⟨n, node_some hn, ?_⟩
    have hnle : ¬ n.bp ≤ b := by omega
    simp only [hnle, if_false]
    have hlt := above_lt hn hb
    cases f with
    | zero => omega
    | succ f =>
      have hrr : ∀ j ∈ inners r, some j ≠ t.root := fun j hj => hroot j (by simp [inners, hj])
      have hi : (some i == t.root) = false := by simpa using hroot i (by simp [inners])
      obtain ⟨nr, hnr, hR⟩ := ihr n.bp n.right f hr hrr (by omega)
      simp only [maxLoop, node_some hn, hi, Bool.false_eq_true, if_false, hnr, bind_ok, pure_eq_ok]
      rw [hR]
      simp [ents, List.getLast?_append, ents_ne_nil r]
      cases he : (ents r).getLast? with
      | none => exact absurd (List.getLast?_eq_none_iff.mp he) (ents_ne_nil r)
      | some x => simp

end Patricia
end AlgoVerif.C06
