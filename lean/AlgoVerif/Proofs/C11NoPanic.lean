import AlgoVerif.Model.C11
/-!
# C11 — the SLR(1) and canonical LR(1) builders of the Model have no panic path

The only `Outcome.panic` in `buildSLR` / `buildLR1` is `augment` running out of primed names for the new start
symbol.  Everything else either returns or runs out of fuel (`diverge`).
(The LALR builder indexes `S0[to.ItemSet]` and dereferences `lookaheads.Get(item)`: its Model has two panic
points whose unreachability needs the completeness of the LR(0) kernel collection — not proved.)
-/
namespace AlgoVerif.C11.NoPanic
open AlgoVerif AlgoVerif.Gram AlgoVerif.C11

/-- "does not panic" -/
def NP {α} (x : Outcome α) : Prop := x ≠ Outcome.panic

theorem np_ok {α} (a : α) : NP (Outcome.ok a) := by simp [NP]

theorem np_pure {α} (a : α) : NP (pure a : Outcome α) := by simp [NP, pure]

theorem np_diverge {α} : NP (Outcome.diverge : Outcome α) := by simp [NP]

theorem np_bind {α β} (x : Outcome α) (f : α → Outcome β) (hx : NP x) (hf : ∀ a, NP (f a)) : NP (x >>= f) := by
  cases x with
  | ok a => exact hf a
  | panic => exact absurd rfl hx
  | diverge => simp [NP, bind, Outcome.bind]

theorem np_foldlM {α β} (f : β → α → Outcome β) (hf : ∀ b a, NP (f b a)) :
    ∀ (l : List α) (init : β), NP (l.foldlM f init)
  | [], init => by simpa [List.foldlM] using np_pure init
  | a :: l, init => by
    rw [List.foldlM_cons]
    exact np_bind _ _ (hf init a) (fun b => np_foldlM f hf l b)

theorem np_closure (g : SGrammar) (nl : List String) (fe : Env) : ∀ (fuel : Nat) (J : List Item),
    NP (closure g nl fe fuel J)
  | 0, _ => np_diverge
  | fuel + 1, J => by
    unfold closure
    cases closureNew g nl fe J with
    | nil => exact np_ok _
    | cons x xs => exact np_closure g nl fe fuel _

theorem np_auto_closure (A : Auto) (I : List Item) : NP (A.closure I) := np_closure _ _ _ _ _

theorem np_goto (A : Auto) (I : List Item) (X : Sy) : NP (A.goto I X) := by
  unfold Auto.goto
  split
  · exact np_bind _ _ (np_auto_closure A I) (fun c => np_pure _)
  · exact np_auto_closure A _

theorem np_canonicalNew (A : Auto) (C : List (List Item)) : NP (canonicalNew A C) := by
  unfold canonicalNew
  apply np_foldlM
  intro acc I
  apply np_foldlM
  intro acc X
  apply np_bind _ _ (np_goto A I X)
  intro J
  split <;> exact np_pure _

theorem np_canonicalLoop (A : Auto) : ∀ (fuel : Nat) (C : List (List Item)), NP (canonicalLoop A fuel C)
  | 0, _ => np_diverge
  | fuel + 1, C => by
    unfold canonicalLoop
    apply np_bind _ _ (np_canonicalNew A C)
    intro new
    split
    · exact np_pure _
    · exact np_canonicalLoop A fuel _

theorem np_canonical (A : Auto) : NP A.canonical := by
  unfold Auto.canonical
  apply np_bind
  · split
    · exact np_ok _
    · exact np_auto_closure A _
  · intro I0; exact np_canonicalLoop A _ _

theorem np_itemActions (start : String) (i : Int) (item : Item) (shiftTo : String → Outcome Int)
    (reduceOn : Item → List String) (T : Table) (hs : ∀ a, NP (shiftTo a)) :
    NP (itemActions start i item shiftTo reduceOn T) := by
  unfold itemActions
  apply np_bind
  · unfold itemShift
    split
    · exact np_bind _ _ (hs _) (fun j => np_pure _)
    · exact np_pure _
  · intro T'; exact np_pure _

theorem np_rows (A : Auto) (S : StateMap) (reduceOn : Item → List String) :
    ∀ (l : List (List Item)) (i : Nat) (T : Table), NP (fillFull.rows A S reduceOn l i T)
  | [], _, T => by unfold fillFull.rows; exact np_pure _
  | I :: rest, i, T => by
    unfold fillFull.rows
    apply np_bind
    · apply np_foldlM
      intro T' item
      apply np_itemActions
      intro a
      exact np_bind _ _ (np_goto A I _) (fun J => np_pure _)
    · intro T'
      apply np_bind
      · apply np_foldlM
        intro T'' n
        split
        · exact np_pure _
        · exact np_bind _ _ (np_goto A I _) (fun J => np_pure _)
      · intro T''; exact np_rows A S reduceOn rest (i + 1) T''

theorem np_fillFull (A : Auto) (S : StateMap) (reduceOn : Item → List String) : NP (fillFull A S reduceOn) := by
  unfold fillFull; exact np_rows A S reduceOn _ _ _

theorem np_augment (g : SGrammar) (h : augStart g ≠ none) : NP (augment g) := by
  unfold augment
  cases hs : augStart g with
  | none => exact absurd hs h
  | some s => exact np_ok _

theorem np_buildSLR (g : SGrammar) (fuel : Nat) (h : augStart g ≠ none) : NP (buildSLR g fuel) := by
  unfold buildSLR
  apply np_bind _ _ (np_augment g h)
  intro g'
  apply np_bind _ _ (np_canonical _)
  intro C
  apply np_bind _ _ (np_fillFull _ _ _)
  intro T
  exact np_pure _

theorem np_buildLR1 (g : SGrammar) (fuel : Nat) (h : augStart g ≠ none) : NP (buildLR1 g fuel) := by
  unfold buildLR1
  apply np_bind _ _ (np_augment g h)
  intro g'
  apply np_bind _ _ (np_canonical _)
  intro C
  apply np_bind _ _ (np_fillFull _ _ _)
  intro T
  exact np_pure _

end AlgoVerif.C11.NoPanic
