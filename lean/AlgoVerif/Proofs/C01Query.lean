import AlgoVerif.Model.C01
import AlgoVerif.Proofs.C01Spec
/-!
# C01: the shared queries on a tree agree with the abstract map on its in-order listing
-/
namespace AlgoVerif.C01
open Tree

variable {K V : Type} {cmp : K → K → Int}

/-- every cached `size` is `1 + size(left) + size(right)` -/
def SizeOK : Tree K V → Prop
  | .nil => True
  | .node l _ _ s _ _ r => s = 1 + l.sz + r.sz ∧ SizeOK l ∧ SizeOK r

/-- the C01 invariant shared by the three trees: symmetric order and consistent sizes -/
def Inv (cmp : K → K → Int) (t : Tree K V) : Prop :=
  Spec.Sorted cmp t.toList ∧ SizeOK t

theorem inv_nil : Inv cmp (Tree.nil : Tree K V) := ⟨List.Pairwise.nil, trivial⟩

@[simp] theorem toList_nil : (Tree.nil : Tree K V).toList = [] := rfl
@[simp] theorem toList_node (l : Tree K V) (k v s h c r) :
    (Tree.node l k v s h c r).toList = l.toList ++ (k, v) :: r.toList := rfl
@[simp] theorem sz_nil : (Tree.nil : Tree K V).sz = 0 := rfl
@[simp] theorem sz_node (l : Tree K V) (k v s h c r) : (Tree.node l k v s h c r).sz = s := rfl

theorem sz_eq_length : ∀ {t : Tree K V}, SizeOK t → t.sz = t.toList.length
  | .nil, _ => rfl
  | .node l k v s h c r, hs => by
    obtain ⟨h1, h2, h3⟩ := hs
    simp only [sz_node, toList_node, List.length_append, List.length_cons, h1, sz_eq_length h2,
      sz_eq_length h3]
    omega

theorem isNil_iff_toList (t : Tree K V) : t.isNil = t.toList.isEmpty := by
  cases t <;> simp [Tree.isNil]

/-- what `Sorted` says at a node -/
theorem sorted_node {l r : Tree K V} {k : K} {v : V} {s h c} :
    Spec.Sorted cmp (Tree.node l k v s h c r).toList ↔
      Spec.Sorted cmp l.toList ∧ Spec.Sorted cmp r.toList ∧ (∀ x ∈ l.toList, cmp x.1 k < 0) ∧
        (∀ y ∈ r.toList, cmp k y.1 < 0) ∧ (∀ x ∈ l.toList, ∀ y ∈ r.toList, cmp x.1 y.1 < 0) :=
  sorted_append_cons

/-- `key ≥ k` and everything on the left is `< k`: everything on the left is `< key` -/
theorem ge_left (h : LawfulCmp cmp) {L : List (K × V)} {k key : K} (hl : ∀ x ∈ L, cmp x.1 k < 0)
    (hk : ¬ cmp key k < 0) : ∀ x ∈ L, 0 < cmp key x.1 := by
  intro x hx
  exact (h.gt_iff _ _).2 (h.lt_of_lt_of_not_lt (hl x hx) hk)

/-- `key ≤ k` and everything on the right is `> k`: everything on the right is `> key` -/
theorem le_right (h : LawfulCmp cmp) {R : List (K × V)} {k key : K} (hr : ∀ y ∈ R, cmp k y.1 < 0)
    (hk : ¬ 0 < cmp key k) : ∀ y ∈ R, cmp key y.1 < 0 := by
  intro y hy
  exact h.lt_of_not_lt_of_lt (fun h' => hk ((h.gt_iff _ _).2 h')) (hr y hy)

theorem get_eq (h : LawfulCmp cmp) (key : K) : ∀ {t : Tree K V}, Spec.Sorted cmp t.toList →
    get cmp t key = Spec.get cmp key t.toList
  | .nil, _ => rfl
  | .node l k v s hh c r, hs => by
    obtain ⟨hsl, hsr, hl, hr, -⟩ := sorted_node.1 hs
    simp only [get, toList_node, Spec.get, List.find?_append, List.find?_cons]
    split
    · rename_i hlt
      have hR := le_right h hr (by omega : ¬ 0 < cmp key k)
      have h1 : (r.toList.find? fun p => cmp key p.1 == 0) = none :=
        List.find?_eq_none.2 (fun y hy => by have := hR y hy; simp; omega)
      have h2 : (cmp key k == 0) = false := by simp; omega
      rw [get_eq h key hsl, Spec.get, h2, h1]; simp
    · rename_i hnlt
      have hL := ge_left h hl hnlt
      have h1 : (l.toList.find? fun p => cmp key p.1 == 0) = none :=
        List.find?_eq_none.2 (fun y hy => by have := hL y hy; simp; omega)
      split
      · rename_i hgt
        have h2 : (cmp key k == 0) = false := by simp; omega
        rw [get_eq h key hsr, Spec.get, h2, h1]; simp
      · rename_i hngt
        have h2 : (cmp key k == 0) = true := by simp; omega
        rw [h1, h2]; simp

theorem head_minOf : ∀ (l : Tree K V) (k : K) (v : V) (rest : List (K × V)),
    (l.toList ++ (k, v) :: rest).head? = some (minOf l k v)
  | .nil, _, _, _ => rfl
  | .node ll lk lv _ _ _ lr, k, v, rest => by
    simp only [toList_node, minOf, List.append_assoc, List.cons_append]
    exact head_minOf ll lk lv _

theorem last_maxOf : ∀ (r : Tree K V) (k : K) (v : V) (rest : List (K × V)),
    (rest ++ (k, v) :: r.toList).getLast? = some (maxOf r k v)
  | .nil, _, _, _ => by simp [maxOf]
  | .node rl rk rv _ _ _ rr, k, v, rest => by
    simp only [toList_node, maxOf]
    have := last_maxOf rr rk rv (rest ++ (k, v) :: rl.toList)
    simpa [List.append_assoc] using this

theorem minKV_eq (t : Tree K V) : minKV t = Spec.first t.toList := by
  cases t with
  | nil => rfl
  | node l k v s h c r => simp only [minKV, Spec.first, toList_node, head_minOf]

theorem maxKV_eq (t : Tree K V) : maxKV t = Spec.last t.toList := by
  cases t with
  | nil => rfl
  | node l k v s h c r => simp only [maxKV, Spec.last, toList_node, last_maxOf]

theorem getLast?_append_cons_filter {α : Type} (L F : List α) (a : α) :
    (L ++ a :: F).getLast? = some (F.getLast?.getD a) := by
  rw [List.getLast?_append, List.getLast?_cons]; rfl

theorem floor_eq (h : LawfulCmp cmp) (key : K) : ∀ {t : Tree K V}, Spec.Sorted cmp t.toList →
    floor cmp t key = Spec.floor cmp key t.toList
  | .nil, _ => rfl
  | .node l k v s hh c r, hs => by
    obtain ⟨hsl, hsr, hl, hr, -⟩ := sorted_node.1 hs
    simp only [floor, toList_node, Spec.floor, List.filter_append, List.filter_cons]
    by_cases hlt : cmp key k < 0
    · have hR := le_right h hr (by omega : ¬ 0 < cmp key k)
      have h1 : r.toList.filter (fun p => decide (cmp key p.1 ≥ 0)) = [] :=
        List.filter_eq_nil_iff.2 (fun y hy => by have := hR y hy; simp; omega)
      have h2 : decide (cmp key k ≥ 0) = false := by simp; omega
      have h3 : ¬ cmp key k = 0 := by omega
      rw [if_neg h3, if_pos hlt, floor_eq h key hsl, Spec.floor, h1, h2]; simp
    · have hL := ge_left h hl hlt
      have h1 : l.toList.filter (fun p => decide (cmp key p.1 ≥ 0)) = l.toList :=
        List.filter_eq_self.2 (fun y hy => by have := hL y hy; simp; omega)
      have h2 : decide (cmp key k ≥ 0) = true := by simp; omega
      rw [h1, h2]
      by_cases heq : cmp key k = 0
      · have hR := le_right h hr (by omega : ¬ 0 < cmp key k)
        have h3 : r.toList.filter (fun p => decide (cmp key p.1 ≥ 0)) = [] :=
          List.filter_eq_nil_iff.2 (fun y hy => by have := hR y hy; simp; omega)
        rw [if_pos heq, h3]; simp
      · rw [if_neg heq, if_neg hlt, floor_eq h key hsr, Spec.floor]
        simp only [if_true]
        rw [getLast?_append_cons_filter]
        cases (r.toList.filter fun p => decide (cmp key p.1 ≥ 0)).getLast? <;> rfl

theorem ceiling_eq (h : LawfulCmp cmp) (key : K) : ∀ {t : Tree K V}, Spec.Sorted cmp t.toList →
    ceiling cmp t key = Spec.ceiling cmp key t.toList
  | .nil, _ => rfl
  | .node l k v s hh c r, hs => by
    obtain ⟨hsl, hsr, hl, hr, -⟩ := sorted_node.1 hs
    simp only [ceiling, toList_node, Spec.ceiling, List.find?_append, List.find?_cons]
    by_cases hgt : cmp key k > 0
    · have hL := ge_left h hl (by omega : ¬ cmp key k < 0)
      have h1 : l.toList.find? (fun p => decide (cmp key p.1 ≤ 0)) = none :=
        List.find?_eq_none.2 (fun y hy => by have := hL y hy; simp; omega)
      have h2 : decide (cmp key k ≤ 0) = false := by simp; omega
      have h3 : ¬ cmp key k = 0 := by omega
      rw [if_neg h3, if_pos hgt, ceiling_eq h key hsr, Spec.ceiling, h1, h2]; simp
    · have h2 : decide (cmp key k ≤ 0) = true := by simp; omega
      rw [h2]
      by_cases heq : cmp key k = 0
      · have hL := ge_left h hl (by omega : ¬ cmp key k < 0)
        have h1 : l.toList.find? (fun p => decide (cmp key p.1 ≤ 0)) = none :=
          List.find?_eq_none.2 (fun y hy => by have := hL y hy; simp; omega)
        rw [if_pos heq, h1]; simp
      · rw [if_neg heq, if_neg hgt, ceiling_eq h key hsl, Spec.ceiling]
        cases (l.toList.find? fun p => decide (cmp key p.1 ≤ 0)) <;> rfl

theorem selectNode_eq : ∀ {t : Tree K V} (i : Nat), SizeOK t → selectNode t i = t.toList[i]?
  | .nil, _, _ => rfl
  | .node l k v s hh c r, i, hs => by
    obtain ⟨-, h2, h3⟩ := hs
    simp only [selectNode, toList_node, sz_eq_length h2, List.getElem?_append]
    split
    · exact selectNode_eq i h2
    · split
      · rename_i h4 h5
        rw [selectNode_eq _ h3]
        obtain ⟨j, hj⟩ : ∃ j, i - l.toList.length = j + 1 := ⟨i - l.toList.length - 1, by omega⟩
        rw [hj, List.getElem?_cons_succ]; rfl
      · rename_i h4 h5
        have : i - l.toList.length = 0 := by omega
        rw [this]; rfl

theorem select_eq {t : Tree K V} (hs : SizeOK t) (i : Int) :
    select t i = .ok (Spec.select t.toList i) := by
  unfold select Spec.select
  rw [sz_eq_length hs]
  by_cases hi : i < 0
  · simp [hi]
  · by_cases hi2 : i ≥ (t.toList.length : Int)
    · have : t.toList.length ≤ i.toNat := by omega
      simp [hi, hi2, List.getElem?_eq_none this]
    · have hlt : i.toNat < t.toList.length := by omega
      rw [if_neg (by omega), if_neg hi, selectNode_eq _ hs, List.getElem?_eq_getElem hlt]

theorem rank_eq (h : LawfulCmp cmp) (key : K) : ∀ {t : Tree K V}, Inv cmp t →
    rank cmp t key = Spec.rank cmp key t.toList
  | .nil, _ => rfl
  | .node l k v s hh c r, ⟨hs, hz⟩ => by
    obtain ⟨hsl, hsr, hl, hr, -⟩ := sorted_node.1 hs
    obtain ⟨-, hzl, hzr⟩ := hz
    simp only [rank, toList_node, Spec.rank, List.countP_append, List.countP_cons]
    by_cases hlt : cmp key k < 0
    · have hR := le_right h hr (by omega : ¬ 0 < cmp key k)
      have h1 : r.toList.countP (fun p => decide (cmp key p.1 > 0)) = 0 :=
        List.countP_eq_zero.2 (fun y hy => by have := hR y hy; simp; omega)
      have h2 : decide (cmp key k > 0) = false := by simp; omega
      rw [if_pos hlt, rank_eq h key ⟨hsl, hzl⟩, Spec.rank, h1, h2]; simp
    · have hL := ge_left h hl hlt
      have h1 : l.toList.countP (fun p => decide (cmp key p.1 > 0)) = l.toList.length :=
        List.countP_eq_length.2 (fun y hy => by have := hL y hy; simp; omega)
      rw [if_neg hlt, h1, sz_eq_length hzl]
      by_cases hgt : cmp key k > 0
      · have h2 : decide (cmp key k > 0) = true := by simp; omega
        rw [if_pos hgt, rank_eq h key ⟨hsr, hzr⟩, Spec.rank, h2]; simp; omega
      · have hR := le_right h hr (by omega : ¬ 0 < cmp key k)
        have h3 : r.toList.countP (fun p => decide (cmp key p.1 > 0)) = 0 :=
          List.countP_eq_zero.2 (fun y hy => by have := hR y hy; simp; omega)
        have h2 : decide (cmp key k > 0) = false := by simp; omega
        rw [if_neg hgt, h3, h2]; simp

theorem range_eq (h : LawfulCmp cmp) (lo hi : K) : ∀ {t : Tree K V}, Spec.Sorted cmp t.toList →
    range cmp t lo hi = Spec.range cmp lo hi t.toList
  | .nil, _ => rfl
  | .node l k v s hh c r, hs => by
    obtain ⟨hsl, hsr, hl, hr, -⟩ := sorted_node.1 hs
    simp only [range, toList_node, Spec.range, List.filter_append, List.filter_cons]
    have e1 : (if cmp lo k < 0 then range cmp l lo hi else []) =
        l.toList.filter (fun p => decide (cmp lo p.1 ≤ 0) && decide (cmp hi p.1 ≥ 0)) := by
      split
      · exact range_eq h lo hi hsl
      · rename_i hn
        have hL := ge_left h hl hn
        exact (List.filter_eq_nil_iff.2 (fun y hy => by have := hL y hy; simp; omega)).symm
    have e2 : (if cmp hi k > 0 then range cmp r lo hi else []) =
        r.toList.filter (fun p => decide (cmp lo p.1 ≤ 0) && decide (cmp hi p.1 ≥ 0)) := by
      split
      · exact range_eq h lo hi hsr
      · rename_i hn
        have hR := le_right h hr (by omega : ¬ 0 < cmp hi k)
        exact (List.filter_eq_nil_iff.2 (fun y hy => by have := hR y hy; simp; omega)).symm
    rw [e1, e2]
    by_cases hp : cmp lo k ≤ 0 ∧ cmp hi k ≥ 0
    · simp [hp]
    · have : (decide (cmp lo k ≤ 0) && decide (cmp hi k ≥ 0)) = false := by
        simp only [Bool.and_eq_false_iff, decide_eq_false_iff_not]; omega
      simp [hp, this]

end AlgoVerif.C01
