import AlgoVerif.Model.C10
import AlgoVerif.Spec.C10
import AlgoVerif.Proofs.C10Sets
import AlgoVerif.Proofs.C10Derives
/-! `NullableNonTerminals`: the result is the least set closed under the nullable rule, for every
iteration order; the set of non-terminals deriving ε is that least set too. -/
set_option linter.unusedSectionVars false
namespace AlgoVerif.C10
open AlgoVerif AlgoVerif.Gram
variable {T N : Type} [DecidableEq T] [DecidableEq N]

/-- every symbol of `body` is a non-terminal in `S` -/
def AllIn (S : N → Prop) (body : List (Sym T N)) : Prop :=
  ∀ s, s ∈ body → ∃ n, s = Sym.nonterm n ∧ S n

/-- closed under "all body symbols in the set ⇒ head in the set" -/
def NulClosed (g : Grammar T N) (S : N → Prop) : Prop :=
  ∀ p, p ∈ g.prods → AllIn S p.body → S p.head

theorem bodyAllIn_iff {nul : List N} {body : List (Sym T N)} :
    bodyAllIn nul body = true ↔ AllIn (· ∈ nul) body := by
  unfold bodyAllIn AllIn
  rw [List.all_eq_true]
  constructor
  · intro h s hs
    have := h s hs
    cases s with
    | term t => simp at this
    | nonterm n => exact ⟨n, rfl, by simpa using this⟩
  · intro h s hs
    obtain ⟨n, rfl, hn⟩ := h s hs
    simpa using hn

/-! ### the spec side -/

theorem derives_nil_of_allIn {g : Grammar T N} {body : List (Sym T N)}
    (h : AllIn (Spec.Nullable g) body) : Derives g body [] := by
  induction body with
  | nil => exact Derives.refl _
  | cons s rest ih =>
    obtain ⟨n, rfl, hn⟩ := h _ (List.mem_cons_self ..)
    have hr := ih fun s hs => h s (List.mem_cons_of_mem _ hs)
    have := Derives.append hn hr
    simpa using this

theorem spec_nullable_closed (g : Grammar T N) : NulClosed g (Spec.Nullable g) := by
  intro p hp hall
  exact (Derives.of_prod hp).trans (derives_nil_of_allIn hall)

theorem allIn_of_derivesN_nil {g : Grammar T N} {S : N → Prop} (hS : NulClosed g S) :
    ∀ n (α : List (Sym T N)), DerivesN g n α [] → AllIn S α := by
  intro n
  induction n using Nat.strongRecOn with
  | _ n ih =>
    intro α h
    cases α with
    | nil => intro s hs; cases hs
    | cons s α' =>
      have h' : DerivesN g n ([s] ++ α') [] := h
      obtain ⟨n₁, n₂, γ₁, γ₂, hn, hγ, d₁, d₂⟩ := h'.split
      have hγ' := (List.append_eq_nil_iff.1 hγ.symm)
      obtain ⟨h1, h2⟩ := hγ'
      subst h1; subst h2
      -- the head symbol
      cases s with
      | term t =>
        have := (DerivesN.of_terms (w := [t]) d₁).1
        simp at this
      | nonterm A =>
        cases n₁ with
        | zero => have := d₁.zero_eq; simp at this
        | succ k =>
          obtain ⟨p, hp, hA, dp⟩ := d₁.of_single
          have hb : AllIn S p.body := ih k (by omega) _ dp
          have hSA : S A := hA ▸ hS p hp hb
          have hrest : AllIn S α' := ih n₂ (by omega) _ d₂
          intro s hs
          rcases List.mem_cons.1 hs with rfl | hs
          · exact ⟨A, rfl, hSA⟩
          · exact hrest s hs

/-- the non-terminals deriving ε lie in every closed set -/
theorem spec_nullable_least {g : Grammar T N} {S : N → Prop} (hS : NulClosed g S) {A : N}
    (h : Spec.Nullable g A) : S A := by
  obtain ⟨n, hn⟩ := Derives.toDerivesN h
  obtain ⟨m, hm, hSm⟩ := allIn_of_derivesN_nil hS n _ hn _ (List.mem_singleton.2 rfl)
  cases hm; exact hSm

/-! ### the model side -/

theorem nullableGroup_flag (ps : List (GProd T N)) (nul : List N) :
    (nullableGroup ps (nul, true)).2 = true := by
  induction ps generalizing nul with
  | nil => rfl
  | cons p ps ih =>
    simp only [nullableGroup]
    split
    · exact ih _
    · split
      · exact ih _
      · exact ih _

theorem nullablePass_flag (gs : List (N × List (GProd T N))) (nul : List N) :
    (nullablePass gs (nul, true)).2 = true := by
  induction gs generalizing nul with
  | nil => rfl
  | cons hp gs ih =>
    obtain ⟨h, ps⟩ := hp
    simp only [nullablePass]
    split
    · exact ih _
    · have := nullableGroup_flag ps nul
      generalize nullableGroup ps (nul, true) = r at this ⊢
      obtain ⟨a, b⟩ := r
      simp at this; subst this
      exact ih _

/-- a group that leaves the flag down changed nothing and found no applicable production -/
theorem nullableGroup_quiet {ps : List (GProd T N)} {nul : List N} {r : List N × Bool}
    (h : nullableGroup ps (nul, false) = r) (hr : r.2 = false) :
    r.1 = nul ∧ ∀ p, p ∈ ps → bodyAllIn nul p.body = false := by
  induction ps generalizing nul with
  | nil => simp [nullableGroup] at h; subst h; exact ⟨rfl, by intro p hp; cases hp⟩
  | cons p ps ih =>
    simp only [nullableGroup] at h
    split at h
    · have := nullableGroup_flag ps (insertNew p.head nul)
      rw [h] at this; rw [this] at hr; cases hr
    · split at h
      · have := nullableGroup_flag ps (insertNew p.head nul)
        rw [h] at this; rw [this] at hr; cases hr
      · rename_i h2
        obtain ⟨h3, h4⟩ := ih h
        refine ⟨h3, ?_⟩
        intro q hq
        rcases List.mem_cons.1 hq with rfl | hq
        · simpa using h2
        · exact h4 q hq

theorem nullablePass_quiet {gs : List (N × List (GProd T N))} {nul : List N} {r : List N × Bool}
    (h : nullablePass gs (nul, false) = r) (hr : r.2 = false) :
    r.1 = nul ∧ ∀ hp, hp ∈ gs → hp.1 ∈ nul ∨ ∀ p, p ∈ hp.2 → bodyAllIn nul p.body = false := by
  induction gs generalizing nul with
  | nil => simp [nullablePass] at h; subst h; exact ⟨rfl, by intro p hp; cases hp⟩
  | cons hp gs ih =>
    obtain ⟨hd, ps⟩ := hp
    simp only [nullablePass] at h
    split at h
    · rename_i hin
      obtain ⟨h3, h4⟩ := ih h
      refine ⟨h3, ?_⟩
      intro q hq
      rcases List.mem_cons.1 hq with rfl | hq
      · exact Or.inl hin
      · exact h4 q hq
    · -- the group ran
      generalize hg : nullableGroup ps (nul, false) = rg at h
      obtain ⟨nul1, f1⟩ := rg
      cases f1 with
      | true =>
        have := nullablePass_flag gs nul1
        rw [h] at this; rw [this] at hr; cases hr
      | false =>
        obtain ⟨e1, e2⟩ := nullableGroup_quiet hg rfl
        simp at e1; subst e1
        obtain ⟨h3, h4⟩ := ih h
        refine ⟨h3, ?_⟩
        intro q hq
        rcases List.mem_cons.1 hq with rfl | hq
        · exact Or.inr e2
        · exact h4 q hq

/-- what a pass adds is forced by every closed set that contains the current set -/
theorem nullableGroup_sound {g : Grammar T N} {S : N → Prop} (hS : NulClosed g S)
    {ps : List (GProd T N)} (hps : ∀ p, p ∈ ps → p ∈ g.prods) {nul : List N} {f : Bool}
    (hnul : ∀ x, x ∈ nul → S x) : ∀ x, x ∈ (nullableGroup ps (nul, f)).1 → S x := by
  induction ps generalizing nul f with
  | nil => simpa [nullableGroup] using hnul
  | cons p ps ih =>
    have hp : p ∈ g.prods := hps p (List.mem_cons_self ..)
    have hps' : ∀ q, q ∈ ps → q ∈ g.prods := fun q hq => hps q (List.mem_cons_of_mem _ hq)
    simp only [nullableGroup]
    split
    · rename_i he
      apply ih hps'
      intro x hx
      rcases mem_insertNew.1 hx with rfl | hx
      · apply hS p hp
        have : p.body = [] := by simpa using he
        intro s hs; rw [this] at hs; cases hs
      · exact hnul x hx
    · split
      · rename_i hb
        apply ih hps'
        intro x hx
        rcases mem_insertNew.1 hx with rfl | hx
        · apply hS p hp
          intro s hs
          obtain ⟨n, hn, hmem⟩ := (bodyAllIn_iff.1 hb) s hs
          exact ⟨n, hn, hnul n hmem⟩
        · exact hnul x hx
      · exact ih hps' hnul

theorem nullablePass_sound {g : Grammar T N} {S : N → Prop} (hS : NulClosed g S)
    {gs : List (N × List (GProd T N))} (hgs : ∀ hp, hp ∈ gs → ∀ p, p ∈ hp.2 → p ∈ g.prods)
    {nul : List N} {f : Bool} (hnul : ∀ x, x ∈ nul → S x) :
    ∀ x, x ∈ (nullablePass gs (nul, f)).1 → S x := by
  induction gs generalizing nul f with
  | nil => simpa [nullablePass] using hnul
  | cons hp gs ih =>
    obtain ⟨hd, ps⟩ := hp
    have hgs' : ∀ hp, hp ∈ gs → ∀ p, p ∈ hp.2 → p ∈ g.prods :=
      fun q hq => hgs q (List.mem_cons_of_mem _ hq)
    simp only [nullablePass]
    split
    · exact ih hgs' hnul
    · have h1 := nullableGroup_sound hS (hgs (hd, ps) (List.mem_cons_self ..)) (f := f) hnul
      generalize nullableGroup ps (nul, f) = r at h1 ⊢
      obtain ⟨a, b⟩ := r
      exact ih hgs' h1

theorem mem_groups_prods {g : Grammar T N} {o : IterOrder T N} (ho : o.Fair) {i : Nat}
    {hp : N × List (GProd T N)} (h : hp ∈ groups g o i) : ∀ p, p ∈ hp.2 → p ∈ g.prods := by
  unfold groups at h
  obtain ⟨hd, _, rfl⟩ := List.mem_map.1 h
  intro p hpm
  have := (ho.prods i _ p).1 hpm
  exact (List.mem_filter.1 this).1

theorem mem_groups_of_prod {g : Grammar T N} {o : IterOrder T N} (ho : o.Fair) (i : Nat)
    {p : GProd T N} (hp : p ∈ g.prods) :
    ∃ ps, (p.head, ps) ∈ groups g o i ∧ p ∈ ps := by
  refine ⟨o.prods i (g.prods.filter fun q => decide (q.head = p.head)), ?_, ?_⟩
  · unfold groups
    apply List.mem_map.2
    refine ⟨p.head, ?_, rfl⟩
    apply (ho.heads i _ _).2
    unfold headsOf
    exact mem_dedup.2 (List.mem_map.2 ⟨p, hp, rfl⟩)
  · apply (ho.prods i _ _).2
    exact List.mem_filter.2 ⟨hp, by simp⟩

theorem mem_passProds_iff {g : Grammar T N} {o : IterOrder T N} (ho : o.Fair) (i : Nat) {p : GProd T N} :
    p ∈ passProds g o i ↔ p ∈ g.prods := by
  unfold passProds
  rw [List.mem_flatMap]
  constructor
  · rintro ⟨hp, h1, h2⟩
    exact mem_groups_prods ho h1 p h2
  · intro hp
    obtain ⟨ps, h1, h2⟩ := mem_groups_of_prod ho i hp
    exact ⟨_, h1, h2⟩

/-- the answer of `NullableNonTerminals` is closed … -/
theorem nullableLoop_closed {g : Grammar T N} {o : IterOrder T N} (ho : o.Fair) :
    ∀ (fuel i : Nat) (nul R : List N), nullableLoop g o fuel i nul = .ok R → NulClosed g (· ∈ R) := by
  intro fuel
  induction fuel with
  | zero => intro i nul R h; simp [nullableLoop] at h
  | succ fuel ih =>
    intro i nul R h
    simp only [nullableLoop] at h
    generalize hr : nullablePass (groups g o i) (nul, false) = r at h
    obtain ⟨nul', f⟩ := r
    cases f with
    | true => simp at h; exact ih _ _ _ h
    | false =>
      simp at h; subst h
      obtain ⟨e1, e2⟩ := nullablePass_quiet hr rfl
      simp at e1; subst e1
      intro p hp hall
      obtain ⟨ps, hg, hpps⟩ := mem_groups_of_prod ho i hp
      rcases e2 _ hg with h1 | h1
      · exact h1
      · have := h1 p hpps
        rw [bodyAllIn_iff.2 hall] at this
        cases this

/-- … and contained in every closed set -/
theorem nullableLoop_least {g : Grammar T N} {o : IterOrder T N} (ho : o.Fair) {S : N → Prop}
    (hS : NulClosed g S) :
    ∀ (fuel i : Nat) (nul R : List N), (∀ x, x ∈ nul → S x) → nullableLoop g o fuel i nul = .ok R →
      ∀ x, x ∈ R → S x := by
  intro fuel
  induction fuel with
  | zero => intro i nul R _ h; simp [nullableLoop] at h
  | succ fuel ih =>
    intro i nul R hnul h
    simp only [nullableLoop] at h
    have hs := nullablePass_sound hS (gs := groups g o i) (fun hp h => mem_groups_prods ho h) (f := false) hnul
    generalize nullablePass (groups g o i) (nul, false) = r at h hs
    obtain ⟨nul', f⟩ := r
    cases f with
    | true => simp at h; exact ih _ _ _ hs h
    | false => simp at h; subst h; exact hs

theorem nullable_exact {g : Grammar T N} {o : IterOrder T N} (ho : o.Fair) {R : List N}
    (h : nullable g o = .ok R) (A : N) : A ∈ R ↔ Spec.Nullable g A := by
  unfold nullable at h
  constructor
  · intro hA
    exact nullableLoop_least ho (spec_nullable_closed g) _ _ _ _ (by intro x hx; cases hx) h A hA
  · intro hA
    exact spec_nullable_least (nullableLoop_closed ho _ _ _ _ h) hA

end AlgoVerif.C10
