import AlgoVerif.Proofs.C13SM
/-! C13: `Union` accepts exactly the union of the operand languages. -/
namespace AlgoVerif.C13
open AlgoVerif AlgoVerif.C13.Spec

/-- the `for f := range nfa.Final.All() { ff := sm.Get(id, f); union.Add(ff, E, {final}) }` loop -/
def finalsFold (id : Nat) (fin : List Int) (m : SM) (u : NFA) : SM × NFA :=
  fin.foldl (fun (acc : SM × NFA) f =>
    ((acc.1.get id f).1, acc.2.add (acc.1.get id f).2 E [1])) (m, u)

theorem finalsFold_spec (id : Nat) (fin : List Int) (m : SM) (u : NFA) (lo : Int) (hm : m.Inv lo) :
    m.Le (finalsFold id fin m u).1 ∧ (finalsFold id fin m u).1.Inv lo ∧
    (finalsFold id fin m u).2.start = u.start ∧ (finalsFold id fin m u).2.final = u.final ∧
    (∀ f ∈ fin, ∃ x, (finalsFold id fin m u).1.find id f = some x) ∧
    (∀ x a y, (finalsFold id fin m u).2.Δ x a y ↔ u.Δ x a y ∨
      (a = E ∧ y = 1 ∧ ∃ f ∈ fin, (finalsFold id fin m u).1.find id f = some x)) := by
  induction fin generalizing m u with
  | nil => simp [finalsFold]; exact ⟨SM.Le.refl _, hm⟩
  | cons f fin ih =>
    simp only [finalsFold, List.foldl_cons]
    obtain ⟨g1, g2, g3⟩ := SM.get_spec m lo hm id f
    have := ih (m.get id f).1 (u.add (m.get id f).2 E [1]) g2
    simp only [finalsFold] at this
    obtain ⟨k1, k2, k3, k4, k5, k6⟩ := this
    refine ⟨SM.Le.trans g1 k1, k2, by rw [k3]; rfl, by rw [k4]; rfl, ?_, ?_⟩
    · intro f' hf'
      simp at hf'; rcases hf' with rfl | hf'
      · exact ⟨_, k1.keep _ _ _ g3⟩
      · exact k5 f' hf'
    · intro x a y
      rw [k6, NFA.Δ_add]
      simp only [List.mem_cons, List.not_mem_nil, or_false]
      constructor
      · rintro ((h | ⟨h1, h2, h3⟩) | ⟨h1, h2, f', h3, h4⟩)
        · left; exact h
        · right; exact ⟨h2, h3, f, Or.inl rfl, by rw [h1]; exact k1.keep _ _ _ g3⟩
        · right; exact ⟨h1, h2, f', Or.inr h3, h4⟩
      · rintro (h | ⟨h1, h2, f', h3 | h3, h4⟩)
        · left; left; exact h
        · subst h3; left; right
          exact ⟨SM.find_fun h4 (k1.keep _ _ _ g3), h1, h2⟩
        · right; exact ⟨h1, h2, f', h3, h4⟩

/-- the edges the copy of `n` under identifier `id` contributes to a union -/
def Emb (m : SM) (id : Nat) (n : NFA) (x a y : Int) : Prop :=
  (∃ s t, n.Δ s a t ∧ m.find id s = some x ∧ m.find id t = some y) ∨
  (a = E ∧ x = 0 ∧ m.find id n.start = some y) ∨
  (a = E ∧ y = 1 ∧ ∃ f ∈ n.final, m.find id f = some x)

/-- every state of `n` has a copy -/
structure Bound (m : SM) (id : Nat) (n : NFA) : Prop where
  edge : ∀ s a t, n.Δ s a t → (∃ x, m.find id s = some x) ∧ ∃ y, m.find id t = some y
  start : ∃ y, m.find id n.start = some y
  final : ∀ f ∈ n.final, ∃ x, m.find id f = some x

theorem Bound.mono {m m' : SM} {id : Nat} {n : NFA} (h : m.Le m') (hb : Bound m id n) : Bound m' id n :=
  ⟨fun s a t hd => by
      obtain ⟨⟨x, hx⟩, ⟨y, hy⟩⟩ := hb.edge s a t hd
      exact ⟨⟨x, h.keep _ _ _ hx⟩, ⟨y, h.keep _ _ _ hy⟩⟩,
    by obtain ⟨y, hy⟩ := hb.start; exact ⟨y, h.keep _ _ _ hy⟩,
    fun f hf => by obtain ⟨x, hx⟩ := hb.final f hf; exact ⟨x, h.keep _ _ _ hx⟩⟩

theorem Emb.mono {m m' : SM} {id : Nat} {n : NFA} (h : m.Le m') (hb : Bound m id n) (x a y : Int) :
    Emb m id n x a y ↔ Emb m' id n x a y := by
  constructor
  · rintro (⟨s, t, h1, h2, h3⟩ | ⟨h1, h2, h3⟩ | ⟨h1, h2, f, h3, h4⟩)
    · exact Or.inl ⟨s, t, h1, h.keep _ _ _ h2, h.keep _ _ _ h3⟩
    · exact Or.inr (Or.inl ⟨h1, h2, h.keep _ _ _ h3⟩)
    · exact Or.inr (Or.inr ⟨h1, h2, f, h3, h.keep _ _ _ h4⟩)
  · rintro (⟨s, t, h1, h2, h3⟩ | ⟨h1, h2, h3⟩ | ⟨h1, h2, f, h3, h4⟩)
    · obtain ⟨⟨x', hx⟩, ⟨y', hy⟩⟩ := hb.edge s a t h1
      have e1 := SM.find_fun h2 (h.keep _ _ _ hx)
      have e2 := SM.find_fun h3 (h.keep _ _ _ hy)
      subst e1; subst e2
      exact Or.inl ⟨s, t, h1, hx, hy⟩
    · obtain ⟨y', hy⟩ := hb.start
      have e2 := SM.find_fun h3 (h.keep _ _ _ hy); subst e2
      exact Or.inr (Or.inl ⟨h1, h2, hy⟩)
    · obtain ⟨x', hx⟩ := hb.final f h3
      have e1 := SM.find_fun h4 (h.keep _ _ _ hx); subst e1
      exact Or.inr (Or.inr ⟨h1, h2, f, h3, hx⟩)

theorem unionStep_spec (acc : SM × NFA) (id : Nat) (nfa : NFA) (lo : Int) (hm : acc.1.Inv lo) (hwf : nfa.WF) :
    acc.1.Le (unionStep acc id nfa).1 ∧ (unionStep acc id nfa).1.Inv lo ∧
    (unionStep acc id nfa).2.start = acc.2.start ∧ (unionStep acc id nfa).2.final = acc.2.final ∧
    Bound (unionStep acc id nfa).1 id nfa ∧
    (∀ x a y, (unionStep acc id nfa).2.Δ x a y ↔ acc.2.Δ x a y ∨ Emb (unionStep acc id nfa).1 id nfa x a y) := by
  obtain ⟨m, u⟩ := acc
  simp only at hm
  obtain ⟨c1, c2, c3, c4, c5, c6⟩ := copyTransL_spec id nfa.trans m u lo hm
  obtain ⟨g1, g2, g3⟩ := SM.get_spec (copyTransL id nfa.trans m u).1 lo c2 id nfa.start
  have fs := finalsFold_spec id nfa.final ((copyTransL id nfa.trans m u).1.get id nfa.start).1
    ((copyTransL id nfa.trans m u).2.add 0 E [((copyTransL id nfa.trans m u).1.get id nfa.start).2]) lo g2
  have hstep : unionStep (m, u) id nfa = finalsFold id nfa.final ((copyTransL id nfa.trans m u).1.get id nfa.start).1
    ((copyTransL id nfa.trans m u).2.add 0 E [((copyTransL id nfa.trans m u).1.get id nfa.start).2]) := rfl
  rw [hstep]
  obtain ⟨f1, f2, f3, f4, f5, f6⟩ := fs
  have hle := SM.Le.trans g1 f1
  refine ⟨SM.Le.trans c1 hle, f2, by rw [f3]; simpa using c3, by rw [f4]; simpa using c4, ?_, ?_⟩
  · refine ⟨?_, ⟨_, f1.keep _ _ _ g3⟩, f5⟩
    intro s a t hd
    obtain ⟨x, y, hx, hy⟩ := c5 s a t ((tblΔ_iff hwf s a t).2 hd)
    exact ⟨⟨x, hle.keep _ _ _ hx⟩, ⟨y, hle.keep _ _ _ hy⟩⟩
  · intro x a y
    rw [f6, NFA.Δ_add, c6]
    simp only [Emb, List.mem_cons, List.not_mem_nil, or_false]
    constructor
    · rintro (((h | ⟨s, t, h1, h2, h3⟩) | ⟨h1, h2, h3⟩) | h)
      · left; exact h
      · right; left; exact ⟨s, t, (tblΔ_iff hwf s a t).1 h1, hle.keep _ _ _ h2, hle.keep _ _ _ h3⟩
      · right; right; left; exact ⟨h2, h1, by rw [h3]; exact f1.keep _ _ _ g3⟩
      · right; right; right; exact h
    · rintro (h | ⟨s, t, h1, h2, h3⟩ | ⟨h1, h2, h3⟩ | h)
      · left; left; left; exact h
      · left; left; right
        obtain ⟨x', y', hx, hy⟩ := c5 s a t ((tblΔ_iff hwf s a t).2 h1)
        have e1 := SM.find_fun h2 (hle.keep _ _ _ hx)
        have e2 := SM.find_fun h3 (hle.keep _ _ _ hy)
        subst e1; subst e2
        exact ⟨s, t, (tblΔ_iff hwf s a t).2 h1, hx, hy⟩
      · left; right; exact ⟨h2, h1, SM.find_fun h3 (f1.keep _ _ _ g3)⟩
      · right; exact h

/-- the whole `for id, nfa := range nfas` loop -/
theorem unionFold_spec (nfas : List NFA) (k : Nat) (acc : SM × NFA) (lo : Int) (hm : acc.1.Inv lo)
    (hwf : ∀ n ∈ nfas, n.WF) :
    acc.1.Le (foldlIdx unionStep acc nfas k).1 ∧ (foldlIdx unionStep acc nfas k).1.Inv lo ∧
    (foldlIdx unionStep acc nfas k).2.start = acc.2.start ∧ (foldlIdx unionStep acc nfas k).2.final = acc.2.final ∧
    (∀ i n, nfas[i]? = some n → Bound (foldlIdx unionStep acc nfas k).1 (k + i) n) ∧
    (∀ x a y, (foldlIdx unionStep acc nfas k).2.Δ x a y ↔ acc.2.Δ x a y ∨
      ∃ i n, nfas[i]? = some n ∧ Emb (foldlIdx unionStep acc nfas k).1 (k + i) n x a y) := by
  induction nfas generalizing k acc with
  | nil => simp [foldlIdx]; exact ⟨SM.Le.refl _, hm⟩
  | cons n nfas ih =>
    simp only [foldlIdx]
    obtain ⟨u1, u2, u3, u4, u5, u6⟩ := unionStep_spec acc k n lo hm (hwf n (by simp))
    obtain ⟨k1, k2, k3, k4, k5, k6⟩ := ih (k + 1) (unionStep acc k n) u2 (fun n' hn' => hwf n' (by simp [hn']))
    refine ⟨SM.Le.trans u1 k1, k2, by rw [k3, u3], by rw [k4, u4], ?_, ?_⟩
    · intro i n' hn'
      cases i with
      | zero => simp at hn'; subst hn'; exact Bound.mono k1 u5
      | succ i =>
        simp at hn'
        have := k5 i n' hn'
        rw [show k + 1 + i = k + (i + 1) by omega] at this
        exact this
    · intro x a y
      rw [k6, u6]
      constructor
      · rintro ((h | h) | ⟨i, n', h1, h2⟩)
        · left; exact h
        · right; exact ⟨0, n, by simp, (Emb.mono k1 u5 x a y).1 h⟩
        · right; exact ⟨i + 1, n', by simpa using h1, by rw [show k + (i + 1) = k + 1 + i by omega]; exact h2⟩
      · rintro (h | ⟨i, n', h1, h2⟩)
        · left; left; exact h
        · cases i with
          | zero =>
            simp at h1; subst h1
            left; right; exact (Emb.mono k1 u5 x a y).2 h2
          | succ i =>
            right; exact ⟨i, n', by simpa using h1, by rw [show k + 1 + i = k + (i + 1) by omega]; exact h2⟩

/-! ### the language of a disjoint union of embedded copies -/

section lang
variable (δ : Int → Int → Int → Prop) (m : SM) (nfas : List NFA)
variable (hm : m.Inv 1)
variable (hδ : ∀ x a y, δ x a y ↔ ∃ i n, nfas[i]? = some n ∧ Emb m i n x a y)
variable (hb : ∀ i n, nfas[i]? = some n → Bound m i n)

include hm hδ hb

theorem union_embed_reach {i : Nat} {n : NFA} (hn : nfas[i]? = some n) {s t : Int} (h : EReach n.Δ s t)
    {x : Int} (hx : m.find i s = some x) : ∃ y, m.find i t = some y ∧ EReach δ x y := by
  induction h with
  | refl => exact ⟨x, hx, EReach.refl x⟩
  | step _ hd ih =>
    obtain ⟨y, hy, hr⟩ := ih
    rename_i t' u' _
    obtain ⟨_, ⟨z, hz⟩⟩ := (hb i n hn).edge _ _ _ hd
    refine ⟨z, hz, EReach.step hr ?_⟩
    rw [hδ]; exact ⟨i, n, hn, Or.inl ⟨_, _, hd, hy, hz⟩⟩

theorem union_embed_path {i : Nat} {n : NFA} (hn : nfas[i]? = some n) {s t : Int} {w : Word} (h : Path n.Δ s w t)
    {x : Int} (hx : m.find i s = some x) : ∃ y, m.find i t = some y ∧ Path δ x w y := by
  induction h generalizing x with
  | eps he =>
    obtain ⟨y, hy, hr⟩ := union_embed_reach δ m nfas hm hδ hb hn he hx
    exact ⟨y, hy, Path.eps hr⟩
  | cons he hd _ ih =>
    obtain ⟨y, hy, hr⟩ := union_embed_reach δ m nfas hm hδ hb hn he hx
    obtain ⟨_, ⟨z, hz⟩⟩ := (hb i n hn).edge _ _ _ hd
    obtain ⟨y', hy', hp⟩ := ih hz
    refine ⟨y', hy', Path.cons hr ?_ hp⟩
    rw [hδ]; exact ⟨i, n, hn, Or.inl ⟨_, _, hd, hy, hz⟩⟩

/-- ε-moves from a copied state stay in the copy or reach state 1 from a final state -/
theorem union_reach_from_copy {i : Nat} {n : NFA} (hn : nfas[i]? = some n) {s x y : Int}
    (hx : m.find i s = some x) (h : EReach δ x y) :
    (y = 1 ∧ ∃ f ∈ n.final, EReach n.Δ s f) ∨ (∃ t, m.find i t = some y ∧ EReach n.Δ s t) := by
  induction h with
  | refl => right; exact ⟨s, hx, EReach.refl s⟩
  | step _ hd ih =>
    rw [hδ] at hd
    obtain ⟨j, n', hn', he⟩ := hd
    rcases ih with ⟨rfl, _⟩ | ⟨t, ht, hr⟩
    · -- no edge leaves state 1
      rcases he with ⟨s2, t2, _, h2, _⟩ | ⟨_, h2, _⟩ | ⟨_, _, f, _, h4⟩
      · have := (SM.find_range hm h2).1; omega
      · omega
      · have := (SM.find_range hm h4).1; omega
    · rcases he with ⟨s2, t2, h1, h2, h3⟩ | ⟨_, h2, _⟩ | ⟨h1, h2, f, h3, h4⟩
      · obtain ⟨rfl, rfl⟩ := SM.inj hm h2 ht
        rw [hn] at hn'; injection hn' with hn'; subst hn'
        right; exact ⟨t2, h3, EReach.step hr (by rw [← E_eq] at *; exact h1)⟩
      · have := (SM.find_range hm ht).1; omega
      · obtain ⟨rfl, rfl⟩ := SM.inj hm h4 ht
        rw [hn] at hn'; injection hn' with hn'; subst hn'
        left; exact ⟨h2, f, h3, hr⟩

theorem union_path_from_copy {w : Word} (hE : E ∉ w) {x : Int} (h : Path δ x w 1) :
    ∀ {i : Nat} {n : NFA} {s : Int}, nfas[i]? = some n → m.find i s = some x →
      ∃ f ∈ n.final, Path n.Δ s w f := by
  generalize hone : (1 : Int) = one at h
  induction h with
  | eps he =>
    intro i n s hn hx
    subst hone
    rcases union_reach_from_copy δ m nfas hm hδ hb hn hx he with ⟨_, f, hf, hr⟩ | ⟨t, ht, _⟩
    · exact ⟨f, hf, Path.eps hr⟩
    · have := (SM.find_range hm ht).1; omega
  | cons he hd hp ih =>
    intro i n s hn hx
    rename_i x0 s1 s2 t0 a w'
    simp at hE
    rcases union_reach_from_copy δ m nfas hm hδ hb hn hx he with ⟨rfl, _⟩ | ⟨t, ht, hr⟩
    · rw [hδ] at hd
      obtain ⟨j, n', hn', hemb⟩ := hd
      rcases hemb with ⟨s2', t2, _, h2, _⟩ | ⟨_, h2, _⟩ | ⟨_, _, f, _, h4⟩
      · have := (SM.find_range hm h2).1; omega
      · omega
      · have := (SM.find_range hm h4).1; omega
    · rw [hδ] at hd
      obtain ⟨j, n', hn', hemb⟩ := hd
      rcases hemb with ⟨s2', t2, h1, h2, h3⟩ | ⟨h1, _, _⟩ | ⟨h1, _, _⟩
      · obtain ⟨rfl, rfl⟩ := SM.inj hm h2 ht
        rw [hn] at hn'; injection hn' with hn'; subst hn'
        obtain ⟨f, hf, hp'⟩ := ih hE.2 hone hn h3
        exact ⟨f, hf, Path.cons hr h1 hp'⟩
      · exact absurd h1.symm hE.1
      · exact absurd h1.symm hE.1

/-- ε-moves from state 0 -/
theorem union_reach_from_zero {y : Int} (h : EReach δ 0 y) :
    y = 0 ∨ ∃ i n, nfas[i]? = some n ∧
      ((y = 1 ∧ ∃ f ∈ n.final, EReach n.Δ n.start f) ∨ (∃ t, m.find i t = some y ∧ EReach n.Δ n.start t)) := by
  generalize hz : (0 : Int) = z at h
  induction h with
  | refl => left; rfl
  | step hr hd ih =>
    subst hz
    rcases ih with rfl | ⟨i, n, hn, h'⟩
    · rw [hδ] at hd
      obtain ⟨j, n', hn', hemb⟩ := hd
      rcases hemb with ⟨s2', t2, _, h2, _⟩ | ⟨_, _, h3⟩ | ⟨_, _, f, _, h4⟩
      · have := (SM.find_range hm h2).1; omega
      · right; exact ⟨j, n', hn', Or.inr ⟨n'.start, h3, EReach.refl _⟩⟩
      · have := (SM.find_range hm h4).1; omega
    · right
      refine ⟨i, n, hn, ?_⟩
      rcases h' with ⟨rfl, _⟩ | ⟨t, ht, hr'⟩
      · rw [hδ] at hd
        obtain ⟨j, n', hn', hemb⟩ := hd
        rcases hemb with ⟨s2', t2, _, h2, _⟩ | ⟨_, h2, _⟩ | ⟨_, _, f, _, h4⟩
        · have := (SM.find_range hm h2).1; omega
        · omega
        · have := (SM.find_range hm h4).1; omega
      · have hd' : δ _ Spec.eps _ := hd
        exact union_reach_from_copy δ m nfas hm hδ hb hn ht (EReach.step (EReach.refl _) hd') |>.elim
          (fun ⟨h1, f, hf, hrf⟩ => Or.inl ⟨h1, f, hf, EReach.trans hr' hrf⟩)
          (fun ⟨t', ht', hrt⟩ => Or.inr ⟨t', ht', EReach.trans hr' hrt⟩)

theorem union_lang_abstract (w : Word) (hE : E ∉ w) :
    nfaLang δ 0 (fun f => f ∈ [(1 : Int)]) w ↔ ∃ n ∈ nfas, n.lang w := by
  constructor
  · rintro ⟨f, hf, hp⟩
    simp at hf; subst hf
    cases hp with
    | eps he =>
      rcases union_reach_from_zero δ m nfas hm hδ hb he with h | ⟨i, n, hn, h'⟩
      · omega
      · refine ⟨n, List.mem_of_getElem? hn, ?_⟩
        rcases h' with ⟨_, f, hf, hr⟩ | ⟨t, ht, _⟩
        · exact ⟨f, hf, Path.eps hr⟩
        · have := (SM.find_range hm ht).1; omega
    | cons he hd hp' =>
      simp at hE
      rcases union_reach_from_zero δ m nfas hm hδ hb he with rfl | ⟨i, n, hn, h'⟩
      · rw [hδ] at hd
        obtain ⟨j, n', hn', hemb⟩ := hd
        rcases hemb with ⟨s2', t2, _, h2, _⟩ | ⟨h1, _, _⟩ | ⟨h1, _, _⟩
        · have := (SM.find_range hm h2).1; omega
        · exact absurd h1.symm hE.1
        · exact absurd h1.symm hE.1
      · refine ⟨n, List.mem_of_getElem? hn, ?_⟩
        rcases h' with ⟨rfl, _⟩ | ⟨t, ht, hr⟩
        · rw [hδ] at hd
          obtain ⟨j, n', hn', hemb⟩ := hd
          rcases hemb with ⟨s2', t2, _, h2, _⟩ | ⟨_, h2, _⟩ | ⟨_, _, f, _, h4⟩
          · have := (SM.find_range hm h2).1; omega
          · omega
          · have := (SM.find_range hm h4).1; omega
        · rw [hδ] at hd
          obtain ⟨j, n', hn', hemb⟩ := hd
          rcases hemb with ⟨s2', t2, h1, h2, h3⟩ | ⟨h1, _, _⟩ | ⟨h1, _, _⟩
          · obtain ⟨rfl, rfl⟩ := SM.inj hm h2 ht
            rw [hn] at hn'; injection hn' with hn'; subst hn'
            obtain ⟨f, hf, hp2⟩ := union_path_from_copy δ m nfas hm hδ hb hE.2 hp' hn h3
            exact ⟨f, hf, Path.cons hr h1 hp2⟩
          · exact absurd h1.symm hE.1
          · exact absurd h1.symm hE.1
  · rintro ⟨n, hn, f, hf, hp⟩
    obtain ⟨i, hi⟩ := List.mem_iff_getElem?.1 hn
    obtain ⟨x, hx⟩ := (hb i n hi).start
    obtain ⟨y, hy, hp'⟩ := union_embed_path δ m nfas hm hδ hb hi hp hx
    refine ⟨1, by simp, ?_⟩
    have h01 : δ 0 Spec.eps x := by rw [hδ]; exact ⟨i, n, hi, Or.inr (Or.inl ⟨E_eq.symm, rfl, hx⟩)⟩
    have hy1 : δ y Spec.eps 1 := by rw [hδ]; exact ⟨i, n, hi, Or.inr (Or.inr ⟨E_eq.symm, rfl, f, hf, hy⟩)⟩
    have := Path.snoc_eps hp' (EReach.step (EReach.refl y) hy1)
    cases this with
    | eps he => exact Path.eps (EReach.trans (EReach.step (EReach.refl 0) h01) he)
    | cons he hd hp2 => exact Path.cons (EReach.trans (EReach.step (EReach.refl 0) h01) he) hd hp2

end lang

/-- `Union` accepts exactly the union of the operand languages (words over non-ε symbols) -/
theorem NFA.union_lang (nfas : List NFA) (hwf : ∀ n ∈ nfas, n.WF) (w : Word) (hE : E ∉ w) :
    (NFA.union nfas).lang w ↔ ∃ n ∈ nfas, n.lang w := by
  obtain ⟨k1, k2, k3, k4, k5, k6⟩ := unionFold_spec nfas 0 (SM.new 1, NFA.new 0 [1]) 1 (SM.Inv_new 1) hwf
  have hδ : ∀ x a y, (NFA.union nfas).Δ x a y ↔
      ∃ i n, nfas[i]? = some n ∧ Emb (foldlIdx unionStep (SM.new 1, NFA.new 0 [1]) nfas 0).1 i n x a y := by
    intro x a y
    have := k6 x a y
    simp only [Nat.zero_add] at this
    rw [show (NFA.union nfas) = (foldlIdx unionStep (SM.new 1, NFA.new 0 [1]) nfas 0).2 from rfl, this]
    simp [NFA.new, NFA.empty_Δ]
  have hst : (NFA.union nfas).start = 0 := k3
  have hfin : (NFA.union nfas).final = [1] := by
    rw [show (NFA.union nfas).final = _ from k4]; rfl
  simp only [NFA.lang, hst, hfin]
  exact union_lang_abstract _ _ nfas k2 hδ (fun i n hn => by simpa using k5 i n hn) w hE

end AlgoVerif.C13
