import AlgoVerif.Proofs.C04Binomial
import AlgoVerif.Proofs.C04Fib
/-!
# C04: families whose heaps were built with different comparators of the same order

The heaps read a comparator only through the tests `> 0`, `< 0`, `≤ 0`, `== 0`.  Two comparators that agree in sign
(`SignEq`: `min`, `a - b`, `7 * (a - b)` on the integers, say) therefore make every Model function the same function,
and a family in which every heap was built with its own comparator of that kind (`ImplC.run`) has the trace of the
family built with one of them (`Impl.run`), to which `C04_binomial` / `C04_fibonacci` apply.
-/
namespace AlgoVerif.C04
variable {K V : Type}

/-- the two comparators agree in sign on every pair of keys -/
def SignEq (c1 c2 : K → K → Int) : Prop := ∀ a b, (c1 a b < 0 ↔ c2 a b < 0) ∧ (0 < c1 a b ↔ 0 < c2 a b)

theorem SignEq.refl (c : K → K → Int) : SignEq c c := fun _ _ => ⟨Iff.rfl, Iff.rfl⟩

theorem SignEq.lt {c1 c2 : K → K → Int} (h : SignEq c1 c2) (a b : K) : (c1 a b < 0) = (c2 a b < 0) :=
  propext (h a b).1

theorem SignEq.gt {c1 c2 : K → K → Int} (h : SignEq c1 c2) (a b : K) : (c1 a b > 0) = (c2 a b > 0) :=
  propext (h a b).2

theorem SignEq.le {c1 c2 : K → K → Int} (h : SignEq c1 c2) (a b : K) : (c1 a b ≤ 0) = (c2 a b ≤ 0) := by
  have := (h a b).2
  apply propext
  constructor <;> intro hh <;> omega

theorem SignEq.beq0 {c1 c2 : K → K → Int} (h : SignEq c1 c2) (a b : K) : (c1 a b == 0) = (c2 a b == 0) := by
  have h1 := (h a b).1
  have h2 := (h a b).2
  have : (c1 a b = 0) ↔ (c2 a b = 0) := by constructor <;> intro hh <;> omega
  rw [Bool.eq_iff_iff]
  simpa using this

/-- a lawful comparator stays lawful when replaced by one of the same sign -/
theorem SignEq.lawful {c1 c2 : K → K → Int} (h : SignEq c1 c2) (hc : LawfulCmp c2) : LawfulCmp c1 := by
  constructor
  · intro a b hab
    have h1 := (h a b).1
    have h2 := (h b a).2
    have := hc.sign a b (by omega)
    omega
  · intro a b c hab hbc
    have h1 := (h a b).2
    have h2 := (h b c).2
    have h3 := (h a c).2
    have := hc.trans a b c (by omega) (by omega)
    omega

/-! ### binomial heap -/

theorem consLoop_signEq {c1 c2 : K → K → Int} (h : SignEq c1 c2) :
    ∀ (rest pre : List (Tree K V)) (curr : Tree K V),
      Binomial.consLoop c1 pre curr rest = Binomial.consLoop c2 pre curr rest := by
  intro rest
  induction rest with
  | nil => intro pre curr; simp [Binomial.consLoop]
  | cons next rest ih =>
    intro pre curr
    simp only [Binomial.consLoop, h.gt, ih]

theorem consolidate_signEq {c1 c2 : K → K → Int} (h : SignEq c1 c2) (l : List (Tree K V)) :
    Binomial.consolidate c1 l = Binomial.consolidate c2 l := by
  cases l with
  | nil => rfl
  | cons a l => simp only [Binomial.consolidate, consLoop_signEq h]

theorem union_signEq {c1 c2 : K → K → Int} (h : SignEq c1 c2) (a b : List (Tree K V)) :
    Binomial.union c1 a b = Binomial.union c2 a b := by
  simp only [Binomial.union, consolidate_signEq h]

theorem findExtLoop_signEq {c1 c2 : K → K → Int} (h : SignEq c1 c2) :
    ∀ (rest pre : List (Tree K V)) (ext : Tree K V) (mid : List (Tree K V)),
      Binomial.findExtLoop c1 pre ext mid rest = Binomial.findExtLoop c2 pre ext mid rest := by
  intro rest
  induction rest with
  | nil => intro pre ext mid; simp [Binomial.findExtLoop]
  | cons s rest ih =>
    intro pre ext mid
    simp only [Binomial.findExtLoop, h.lt, ih]

theorem findExt_signEq {c1 c2 : K → K → Int} (h : SignEq c1 c2) (l : List (Tree K V)) :
    Binomial.findExt c1 l = Binomial.findExt c2 l := by
  cases l with
  | nil => rfl
  | cons a l => simp only [Binomial.findExt, findExtLoop_signEq h]

theorem Binomial.step_signEq {c1 c2 : K → K → Int} (h : SignEq c1 c2) (eqV : V → V → Bool) (s : Binomial K V)
    (op : Op K V) : Binomial.step c1 eqV s op = Binomial.step c2 eqV s op := by
  cases op <;>
    simp only [Binomial.step, Binomial.insert, Binomial.delete, Binomial.peek, Binomial.containsKey,
      union_signEq h, findExt_signEq h, h.beq0]

theorem Binomial.mergeWith_signEq {c1 c2 : K → K → Int} (h : SignEq c1 c2) (a b : Binomial K V) :
    a.mergeWith c1 b = a.mergeWith c2 b := by
  simp only [Binomial.mergeWith, union_signEq h]

/-! ### Fibonacci heap -/

theorem Cons.inner_signEq {c1 c2 : K → K → Int} (h : SignEq c1 c2) :
    ∀ (fuel : Nat) (st : Cons K V) (i : Nat), Cons.inner c1 fuel st i = Cons.inner c2 fuel st i := by
  intro fuel
  induction fuel with
  | zero => intro st i; rfl
  | succ fuel ih =>
    intro st i
    simp only [Cons.inner, h.gt, ih]

theorem Cons.outer_signEq {c1 c2 : K → K → Int} (h : SignEq c1 c2) :
    ∀ (fuel : Nat) (st : Cons K V) (i : Nat), Cons.outer c1 fuel st i = Cons.outer c2 fuel st i := by
  intro fuel
  induction fuel with
  | zero => intro st i; rfl
  | succ fuel ih =>
    intro st i
    simp only [Cons.outer, Cons.inner_signEq h, ih]

theorem pickExtId_signEq {c1 c2 : K → K → Int} (h : SignEq c1 c2) (ring : List (Nat × Tree K V)) (a : Option Nat)
    (b : Nat) : pickExtId c1 ring a b = pickExtId c2 ring a b := by
  simp only [pickExtId, h.le]

theorem pickLoop_signEq {c1 c2 : K → K → Int} (h : SignEq c1 c2) (ring : List (Nat × Tree K V)) :
    ∀ (l : List (Option Nat)) (ext : Option Nat), pickLoop c1 ring l ext = pickLoop c2 ring l ext := by
  intro l
  induction l with
  | nil => intro ext; rfl
  | cons r rs ih =>
    intro ext
    cases r with
    | none => simp only [pickLoop, ih]
    | some r => simp only [pickLoop, pickExtId_signEq h, ih]

theorem Fib.consolidate_signEq {c1 c2 : K → K → Int} (h : SignEq c1 c2) (n : Int) (roots : List (Tree K V)) :
    Fib.consolidate c1 n roots = Fib.consolidate c2 n roots := by
  simp only [Fib.consolidate, Cons.outer_signEq h, pickLoop_signEq h]

theorem Fib.step_signEq {c1 c2 : K → K → Int} (h : SignEq c1 c2) (eqV : V → V → Bool) (s : Fib K V)
    (op : Op K V) : Fib.step c1 eqV s op = Fib.step c2 eqV s op := by
  cases op <;>
    simp only [Fib.step, Fib.insert, Fib.delete, Fib.containsKey, Fib.consolidate_signEq h, h.le, h.beq0]

theorem Fib.mergeWith_signEq {c1 c2 : K → K → Int} (h : SignEq c1 c2) (a b : Fib K V) :
    a.mergeWith c1 b = a.mergeWith c2 b := by
  simp only [Fib.mergeWith, Fib.mergeRoots, h.le]

/-! ### from the operations to histories -/

/-- if every heap's comparator makes `step` and `merge` the functions that `cmp` makes them, the family built with
the comparators `cmps` has the trace of the family built with `cmp` alone -/
theorem ImplC.runFrom_eq (I : ImplC K V) (cmps : Nat → K → K → Int) (cmp : K → K → Int)
    (hstep : ∀ r s op, I.step (cmps r) s op = I.step cmp s op)
    (hmerge : ∀ r a b, I.merge (cmps r) a b = I.merge cmp a b) :
    ∀ (ops : List (MOp K V)) (regs : Nat → I.σ), I.runFrom cmps regs ops = (I.at cmp).runFrom regs ops := by
  intro ops
  induction ops with
  | nil => intro regs; rfl
  | cons op ops ih =>
    intro regs
    have hm : I.mstep cmps regs op = (I.at cmp).mstep regs op := by
      cases op <;> simp only [ImplC.mstep, Impl.mstep, ImplC.at, hstep, hmerge]
    simp only [ImplC.runFrom, Impl.runFrom, hm]
    cases (I.at cmp).mstep regs op with
    | ok p => exact congrArg (Outcome.ok p.2 :: ·) (ih p.1)
    | panic => rfl
    | diverge => rfl

theorem binomialImplC_at (cmp : K → K → Int) (eqV : V → V → Bool) :
    (binomialImplC (K := K) eqV).at cmp = binomialImpl cmp eqV := rfl

theorem fibImplC_at (cmp : K → K → Int) (eqV : V → V → Bool) :
    (fibImplC (K := K) eqV).at cmp = fibImpl cmp eqV := rfl

theorem binomial_mixed_run (cmp : K → K → Int) (eqV : V → V → Bool) (cmps : Nat → K → K → Int)
    (hs : ∀ r, SignEq (cmps r) cmp) (ops : List (MOp K V)) :
    (binomialImplC eqV).run cmps ops = (binomialImpl cmp eqV).run ops := by
  unfold ImplC.run Impl.run
  rw [← binomialImplC_at]
  exact ImplC.runFrom_eq (binomialImplC eqV) cmps cmp
    (fun r s op => Binomial.step_signEq (hs r) eqV s op)
    (fun r a b => congrArg Outcome.ok (Binomial.mergeWith_signEq (hs r) a b)) ops _

theorem fib_mixed_run (cmp : K → K → Int) (eqV : V → V → Bool) (cmps : Nat → K → K → Int)
    (hs : ∀ r, SignEq (cmps r) cmp) (ops : List (MOp K V)) :
    (fibImplC eqV).run cmps ops = (fibImpl cmp eqV).run ops := by
  unfold ImplC.run Impl.run
  rw [← fibImplC_at]
  exact ImplC.runFrom_eq (fibImplC eqV) cmps cmp
    (fun r s op => Fib.step_signEq (hs r) eqV s op)
    (fun r a b => congrArg Outcome.ok (Fib.mergeWith_signEq (hs r) a b)) ops _

/-- the comparators of the harness: `a - b` and `7 * (a - b)` have the sign of the normalised ascending comparator,
`b - a` that of the descending one -/
theorem signEq_cmpSub : SignEq cmpSub cmpAsc := by
  intro a b; unfold cmpSub cmpAsc; constructor <;> (split <;> try split) <;> omega
theorem signEq_cmpSub7 : SignEq cmpSub7 cmpAsc := by
  intro a b; unfold cmpSub7 cmpAsc; constructor <;> (split <;> try split) <;> omega
theorem signEq_cmpRevSub : SignEq cmpRevSub cmpDesc := by
  intro a b; unfold cmpRevSub cmpDesc; constructor <;> (split <;> try split) <;> omega

end AlgoVerif.C04
