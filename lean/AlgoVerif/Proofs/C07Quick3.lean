import AlgoVerif.Proofs.C07Basic
/-!
# C07 — 3-way quick sort (`sort/quick.go`, `quick3Way` / `Quick3Way`)

`q3Loop_spec`: Dijkstra's 3-way partition loop around the pivot value `v` (loop variables written as
casts of `Nat`s, `gt` as `gt1 - 1`); `quick3WayAux_spec`: the recursion sorts `a[lo..hi1)`, leaves
everything else untouched and preserves every predicate that holds on the whole segment;
`quick3Way_spec`: the Model returns `.ok` of the sorted permutation for every input.
-/
namespace AlgoVerif.C07
open AlgoVerif

variable {α : Type}

/-- every element of `a[lo..hi)` satisfies `P` (indices beyond `a.size` are ignored) -/
def AllSeg (P : α → Prop) (a : Array α) (lo hi : Nat) : Prop :=
  ∀ p, lo ≤ p → p < hi → (h : p < a.size) → P a[p]

theorem q3Loop_spec {cmp : α → α → Int} (v : α) (lo hi1 : Nat) :
    ∀ (f : Nat) (lt i gt1 : Nat) (a : Array α),
      gt1 - i < f → lo ≤ lt → lt < i → i ≤ gt1 → gt1 ≤ hi1 → hi1 ≤ a.size →
      AllSeg (fun x => cmp x v < 0) a lo lt →
      AllSeg (fun x => cmp x v = 0) a lt i →
      AllSeg (fun x => cmp x v > 0) a gt1 hi1 →
      ∃ (a' : Array α) (lt' gt1' : Nat),
        q3Loop cmp v f lt i ((gt1 : Int) - 1) a = .ok (a', (lt' : Int), (gt1' : Int) - 1) ∧
        a'.size = a.size ∧ a'.Perm a ∧
        (∀ p, (p < lo ∨ hi1 ≤ p) → (h : p < a.size) → (h' : p < a'.size) → a'[p] = a[p]) ∧
        (∀ P : α → Prop, AllSeg P a lo hi1 → AllSeg P a' lo hi1) ∧
        lo ≤ lt' ∧ lt' < gt1' ∧ gt1' ≤ hi1 ∧
        AllSeg (fun x => cmp x v < 0) a' lo lt' ∧
        AllSeg (fun x => cmp x v = 0) a' lt' gt1' ∧
        AllSeg (fun x => cmp x v > 0) a' gt1' hi1 := by
  intro f
  induction f with
  | zero => intros; omega
  | succ f ih =>
    intro lt i gt1 a hf h1 h2 h3 h4 h5 hL hM hR
    simp only [AllSeg] at hL hM hR ih ⊢
    unfold q3Loop
    by_cases hig : i < gt1
    · have c1 : (i : Int) ≤ (gt1 : Int) - 1 := by omega
      simp only [c1, ↓reduceIte]
      rw [get_nat (by omega : i < a.size)]
      simp only [ok_bind]
      by_cases hc : cmp a[i] v < 0
      · simp only [hc, ↓reduceIte]
        rw [swap_ok (by omega) (by omega) (by omega) (by omega)]
        simp only [ok_bind, Int.toNat_natCast]
        have e1 : (lt:Int)+1 = ((lt+1:Nat):Int) := by omega
        have e2 : (i:Int)+1 = ((i+1:Nat):Int) := by omega
        rw [e1, e2]
        obtain ⟨a', lt', gt1', r1, r2, r3, r4, r5, r6, r7, r8, r9, r10, r11⟩ :=
          ih (lt+1) (i+1) gt1 (a.swap lt i (by omega) (by omega)) (by omega) (by omega) (by omega)
            (by omega) h4 (by simpa using h5)
            (by
              intro p hp1 hp2 hp; simp only [Array.getElem_swap]
              have := hL p; have := hM p
              grind)
            (by
              intro p hp1 hp2 hp; simp only [Array.getElem_swap]
              have := hM p; have := hM lt
              grind)
            (by
              intro p hp1 hp2 hp; simp only [Array.getElem_swap]
              have := hR p
              grind)
        refine ⟨a', lt', gt1', r1, by simpa using r2, r3.trans (Array.swap_perm _ _), ?_, ?_,
          by omega, r7, r8, r9, r10, r11⟩
        · intro p hp h h'
          rw [r4 p hp (by simpa using h) h']
          simp only [Array.getElem_swap]
          grind
        · intro P hP
          apply r5
          intro p hp1 hp2 hp; simp only [Array.getElem_swap]
          have := hP p; have := hP lt; have := hP i
          grind
      · simp only [hc, ↓reduceIte]
        by_cases hc2 : cmp a[i] v > 0
        · simp only [hc2, ↓reduceIte]
          have e1 : ((gt1 : Int) - 1) = ((gt1 - 1 : Nat) : Int) := by omega
          rw [e1, swap_ok (by omega) (by omega) (by omega) (by omega)]
          simp only [ok_bind, Int.toNat_natCast]
          obtain ⟨a', lt', gt1', r1, r2, r3, r4, r5, r6, r7, r8, r9, r10, r11⟩ :=
            ih lt i (gt1 - 1) (a.swap i (gt1 - 1) (by omega) (by omega)) (by omega) h1 h2
              (by omega) (by omega) (by simpa using h5)
              (by
                intro p hp1 hp2 hp; simp only [Array.getElem_swap]
                have := hL p
                grind)
              (by
                intro p hp1 hp2 hp; simp only [Array.getElem_swap]
                have := hM p
                grind)
              (by
                intro p hp1 hp2 hp; simp only [Array.getElem_swap]
                have := hR p
                grind)
          refine ⟨a', lt', gt1', r1, by simpa using r2, r3.trans (Array.swap_perm _ _), ?_, ?_,
            r6, r7, r8, r9, r10, r11⟩
          · intro p hp h h'
            rw [r4 p hp (by simpa using h) h']
            simp only [Array.getElem_swap]
            grind
          · intro P hP
            apply r5
            intro p hp1 hp2 hp; simp only [Array.getElem_swap]
            have := hP p; have := hP (gt1 - 1); have := hP i
            grind
        · simp only [hc2, ↓reduceIte]
          have e2 : (i:Int)+1 = ((i+1:Nat):Int) := by omega
          rw [e2]
          obtain ⟨a', lt', gt1', r1, r2, r3, r4, r5, r6, r7, r8, r9, r10, r11⟩ :=
            ih lt (i+1) gt1 a (by omega) h1 (by omega) (by omega) h4 h5 hL
              (by
                intro p hp1 hp2 hp
                have := hM p
                grind)
              hR
          exact ⟨a', lt', gt1', r1, r2, r3, r4, r5, r6, r7, r8, r9, r10, r11⟩
    · have c1 : ¬ (i : Int) ≤ (gt1 : Int) - 1 := by omega
      simp only [c1, ↓reduceIte]
      have : i = gt1 := by omega
      subst this
      exact ⟨a, lt, i, rfl, rfl, Array.Perm.refl _, fun _ _ _ _ => rfl, fun _ h => h,
        h1, h2, h4, hL, hM, hR⟩

theorem quick3WayAux_spec {cmp : α → α → Int} (tp : TotalPreorder cmp) :
    ∀ (f : Nat) (a : Array α) (lo hi1 : Nat), hi1 ≤ a.size → hi1 - lo < f →
      ∃ a', quick3WayAux cmp f a (lo : Int) ((hi1 : Int) - 1) = .ok a' ∧
        a'.size = a.size ∧ a'.Perm a ∧
        (∀ p, (p < lo ∨ hi1 ≤ p) → (h : p < a.size) → (h' : p < a'.size) → a'[p] = a[p]) ∧
        (∀ P : α → Prop, AllSeg P a lo hi1 → AllSeg P a' lo hi1) ∧
        SortedSeg cmp a' lo hi1 := by
  intro f
  induction f with
  | zero => intros; omega
  | succ f ih =>
    intro a lo hi1 hsz hf
    unfold quick3WayAux
    by_cases hlh : hi1 ≤ lo + 1
    · have c1 : (lo : Int) ≥ (hi1 : Int) - 1 := by omega
      simp only [c1, ↓reduceIte]
      refine ⟨a, rfl, rfl, Array.Perm.refl _, fun _ _ _ _ => rfl, fun _ h => h, ?_⟩
      intro p q _ _ _ _; omega
    · have c1 : ¬ (lo : Int) ≥ (hi1 : Int) - 1 := by omega
      simp only [c1, ↓reduceIte]
      rw [get_nat (by omega : lo < a.size)]
      simp only [ok_bind]
      have e1 : (lo:Int)+1 = ((lo+1:Nat):Int) := by omega
      rw [e1]
      have hvv : cmp a[lo] a[lo] = 0 := by
        have := tp.flip a[lo] a[lo]; omega
      obtain ⟨a1, lt, gt1, r1, r2, r3, r4, r5, r6, r7, r8, r9, r10, r11⟩ :=
        q3Loop_spec (cmp := cmp) a[lo] lo hi1 (a.size + 1) lo (lo+1) hi1 a (by omega) (by omega)
          (by omega) (by omega) (by omega) hsz
          (by intro p _ _ _; omega)
          (by intro p _ _ _; have : p = lo := by omega
              subst this; exact hvv)
          (by intro p _ _ _; omega)
      rw [r1]
      simp only [ok_bind]
      have e2 : (gt1 : Int) - 1 + 1 = (gt1 : Int) := by omega
      rw [e2]
      obtain ⟨a2, s1, s2, s3, s4, s5, s6⟩ := ih a1 lo lt (by omega) (by omega)
      rw [s1]
      simp only [ok_bind]
      obtain ⟨a3, t1, t2, t3, t4, t5, t6⟩ := ih a2 gt1 hi1 (by omega) (by omega)
      refine ⟨a3, t1, by omega, (t3.trans s3).trans r3, ?_, ?_, ?_⟩
      · intro p hp h h'
        rw [t4 p (by omega) (by omega) h', s4 p (by omega) (by omega) (by omega), r4 p hp h (by omega)]
      · intro P hP
        have g1 := r5 P hP
        have g2 : AllSeg P a2 lo lt := s5 P (fun p hp1 hp2 h => g1 p hp1 (by omega) h)
        have g3 : AllSeg P a3 gt1 hi1 := t5 P (fun p hp1 hp2 h => by
          rw [s4 p (by omega) (by omega) h]; exact g1 p (by omega) hp2 (by omega))
        intro p hp1 hp2 h
        by_cases hpg : p < gt1
        · rw [t4 p (by omega) (by omega) h]
          by_cases hpl : p < lt
          · exact g2 p hp1 hpl (by omega)
          · rw [s4 p (by omega) (by omega) (by omega)]; exact g1 p hp1 hp2 (by omega)
        · exact g3 p (by omega) hp2 h
      · have L2 : AllSeg (fun x => cmp x a[lo] < 0) a2 lo lt := s5 _ r9
        have R3 : AllSeg (fun x => cmp x a[lo] > 0) a3 gt1 hi1 := t5 _ (fun p hp1 hp2 h => by
          rw [s4 p (by omega) (by omega) h]; exact r11 p hp1 hp2 (by omega))
        have hle : ∀ p, lo ≤ p → p < gt1 → (h : p < a3.size) → cmp a3[p] a[lo] ≤ 0 := by
          intro p hp1 hp2 h
          rw [t4 p (by omega) (by omega) h]
          by_cases hpl : p < lt
          · exact TotalPreorder.le_of_lt (L2 p hp1 hpl (by omega))
          · rw [s4 p (by omega) (by omega) (by omega)]
            have := r10 p (by omega) hp2 (by omega)
            simp only at this; omega
        have hge : ∀ p, lt ≤ p → p < hi1 → (h : p < a3.size) → cmp a[lo] a3[p] ≤ 0 := by
          intro p hp1 hp2 h
          by_cases hpg : p < gt1
          · rw [t4 p (by omega) (by omega) h, s4 p (by omega) (by omega) (by omega)]
            have := tp.eq_flip (r10 p hp1 hpg (by omega))
            omega
          · exact tp.le_of_gt (R3 p (by omega) hp2 h)
        intro p q hp hpq hq hqs
        by_cases hql : q < lt
        · rw [t4 p (by omega) (by omega) (by omega), t4 q (by omega) (by omega) (by omega)]
          exact s6 p q hp hpq hql (by omega)
        · by_cases hpg : p < gt1
          · exact tp.trans _ _ _ (hle p hp hpg (by omega)) (hge q (by omega) hq hqs)
          · exact t6 p q (by omega) hpq hq hqs

theorem quick3Way_spec {cmp : α → α → Int} (tp : TotalPreorder cmp) (a : Array α) :
    ∃ out, quick3Way cmp a = .ok out ∧ IsSortOf cmp out a := by
  obtain ⟨out, h1, h2, h3, _, _, h6⟩ := quick3WayAux_spec tp (a.size + 1) a 0 a.size (Nat.le_refl _) (by omega)
  refine ⟨out, by simpa [quick3Way] using h1, isSortOf_of (by rw [h2]; exact h6) h3⟩

end AlgoVerif.C07
