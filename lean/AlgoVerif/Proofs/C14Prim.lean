import AlgoVerif.Proofs.C14Dijkstra
import AlgoVerif.Proofs.C14Mst
/-!
# C14 proofs — eager Prim (`MinimumSpanningTree`) builds a spanning forest

One `prim(g, r)` run (root `r`, `O` = the vertices visited before the run, a set closed under the arcs):
queued vertices are unvisited and (except `r`) hold a parent edge to a vertex visited in this run; every
vertex visited in this run is connected to `r` by parent links; every neighbour of a vertex visited in this run
is visited or queued.  When the queue is empty the run has visited exactly the component of `r`.
Parent links lead to vertices visited earlier (a rank), so the links form a forest.
-/
namespace AlgoVerif.C14

def MST.dist (m : MST) (v : Nat) : Option Int := m.distTo.getD v none

/-- parent link of a *visited* vertex (these never change again) -/
def VLink (g : Graph) (m : MST) (w p : Nat) : Prop := Vis m.visited w ∧ TLink g m w p
def VArc (g : Graph) (m : MST) (a b : Nat) : Prop := VLink g m a b ∨ VLink g m b a

theorem joins_fun {e : Edge} {w p p' : Nat} (h : Joins e w p) (h' : Joins e w p') : p = p' := by
  unfold Joins at h h'
  omega

theorem VLink.mono {g : Graph} {m m' : MST} (hv : ∀ x, Vis m.visited x → Vis m'.visited x)
    (hp : ∀ x, Vis m.visited x → m'.par x = m.par x) {w p : Nat} (h : VLink g m w p) : VLink g m' w p := by
  obtain ⟨h1, h2, h3, h4⟩ := h
  exact ⟨hv w h1, by rw [hp w h1]; exact h2, by rw [hp w h1]; exact h3, by rw [hp w h1]; exact h4⟩

theorem VArc.mono {g : Graph} {m m' : MST} (hv : ∀ x, Vis m.visited x → Vis m'.visited x)
    (hp : ∀ x, Vis m.visited x → m'.par x = m.par x) {a b : Nat} (h : VArc g m a b) : VArc g m' a b := by
  rcases h with h | h
  · exact Or.inl (h.mono hv hp)
  · exact Or.inr (h.mono hv hp)

/-- the rank certificate of the parent links: ranks bound, distinct, decreasing towards the parent, and every
parent edge is a lightest stored edge between the vertices ranked before its child and the others -/
def ForestOK (g : Graph) (m : MST) : Prop :=
  ∃ (rank : Nat → Nat) (c : Nat),
    (∀ w, Vis m.visited w → rank w < c) ∧
    (∀ x y, Vis m.visited x → Vis m.visited y → rank x = rank y → x = y) ∧
    (∀ w p, VLink g m w p → Vis m.visited p ∧ rank p < rank w) ∧
    (∀ w p, VLink g m w p → ∀ f a b, g.StoredEdge f → Joins f a b → Vis m.visited a → rank a < rank w →
      (¬ Vis m.visited b ∨ rank w ≤ rank b) → (m.par w).w ≤ f.w)

structure MBase (g : Graph) (m : MST) : Prop where
  vsz : m.visited.size = g.n
  esz : m.edgeTo.size = g.n
  dsz : m.distTo.size = g.n
  hv : HInv g.n m.pq

/-- invariant of one `prim` run; `cur = some (w, done)`: inside the adjacency loop of `w` after `done` -/
structure RInv (g : Graph) (r : Nat) (O : Array Bool) (m : MST) (cur : Option (Nat × List Arc)) : Prop where
  base : MBase g m
  oldv : ∀ x, Vis O x → Vis m.visited x
  oldc : ∀ x, Vis O x → ∀ y, g.HasArc x y → Vis O y
  rnew : ¬ Vis O r
  keys : ∀ w k, m.pq.ky w = some k → ¬ Vis m.visited w ∧ m.dist w = some k ∧
    ((w = r ∧ m.par w = Edge.zero) ∨ (m.par w ≠ Edge.zero ∧ (m.par w).w = k ∧ ∃ p, Vis m.visited p ∧ ¬ Vis O p ∧
      Joins (m.par w) w p ∧ g.HasEdge p w (m.par w)))
  reached : ∀ w d, m.dist w = some d → Vis m.visited w ∨ m.pq.ky w = some d
  conn : ∀ w, Vis m.visited w → ¬ Vis O w → Reach (VArc g m) w r
  closed : ∀ w, Vis m.visited w → ¬ Vis O w → ∀ x ∈ g.adj.getD w [],
    (∀ d, cur = some (w, d) → x ∈ d) → Vis m.visited x.to ∨ ∃ k, m.pq.ky x.to = some k ∧ k ≤ x.e.w
  forest : ForestOK g m
  oldconn : ∀ x y, Vis O x → Vis O y → Reach g.HasArc x y → Reach (VArc g m) x y
  links : ∀ w, Vis m.visited w → m.par w ≠ Edge.zero → ∃ p, VLink g m w p
  zero : ∀ w, ¬ Vis m.visited w → m.pq.ky w = none → m.par w = Edge.zero
  rootq : Vis m.visited r ∨ (m.pq.ky r).isSome

theorem mdist_set {m : MST} {n : Nat} (hsz : m.distTo.size = n) {w : Nat} (hw : w < n) (d : Option Int)
    (vis : Array Bool) (e : Array Edge) (pq : IHeap) (v : Nat) :
    (MST.dist { visited := vis, edgeTo := e, distTo := m.distTo.set! w d, pq := pq } v) =
      if v = w then d else m.dist v := by
  simp only [MST.dist, getD_set!, hsz]
  by_cases h : w = v
  · subst h; simp [hw]
  · have : ¬ v = w := fun e => h e.symm
    simp [h, this]

theorem mpar_set {m : MST} {n : Nat} (hsz : m.edgeTo.size = n) {w : Nat} (hw : w < n) (e : Edge)
    (vis : Array Bool) (d : Array (Option Int)) (pq : IHeap) (v : Nat) :
    (MST.par { visited := vis, edgeTo := m.edgeTo.set! w e, distTo := d, pq := pq } v) =
      if v = w then e else m.par v := by
  simp only [MST.par, getD_set!, hsz]
  by_cases h : w = v
  · subst h; simp [hw]
  · have : ¬ v = w := fun e => h e.symm
    simp [h, this]

section

variable {g : Graph} (hg : g.WF) (hu : g.UWF) (r : Nat) (O : Array Bool)
include hg hu

theorem primInner_spec (w : Nat) :
    ∀ rest done (m : MST), g.adj.getD w [] = done ++ rest → RInv g r O m (some (w, done)) →
      Vis m.visited w → ¬ Vis O w →
      ∃ m', primInner rest m = .ok m' ∧ RInv g r O m' none ∧ m'.visited = m.visited := by
  intro rest
  induction rest with
  | nil =>
    intro done m hadj hin _ _
    refine ⟨m, rfl, { hin with closed := ?_ }, rfl⟩
    intro v hv hno x hx _
    apply hin.closed v hv hno x hx
    intro d hd
    cases hd
    have : g.adj.getD w [] = done := by simpa using hadj
    rw [← this]; exact hx
  | cons x rest ih =>
    intro done m hadj hin hwv hwo
    have hxmem : x ∈ g.adj.getD w [] := by rw [hadj]; simp
    have hadj' : g.adj.getD w [] = (done ++ [x]) ++ rest := by rw [hadj]; simp
    have hyn : x.to < g.n := hg.bound w x hxmem
    have hj : Joins x.e w x.to := hu w x hxmem
    have hgv : m.visited[x.to]? = some (m.visited.getD x.to false) :=
      getD_of_lt _ _ (by rw [hin.base.vsz]; exact hyn)
    -- extending `done` by an arc whose head is visited or queued
    have hext : ∀ m' : MST, RInv g r O m' (some (w, done)) →
        (Vis m'.visited x.to ∨ ∃ k, m'.pq.ky x.to = some k ∧ k ≤ x.e.w) →
        RInv g r O m' (some (w, done ++ [x])) := by
      intro m' hi hx
      refine { hi with closed := ?_ }
      intro v hv hno y hy hcur
      by_cases hyx : y = x ∧ v = w
      · rw [hyx.1]; exact hx
      · apply hi.closed v hv hno y hy
        intro d hd
        cases hd
        have := hcur (done ++ [x]) rfl
        rcases List.mem_append.1 this with h | h
        · exact h
        · have : y = x := by simpa using h
          exact absurd ⟨this, rfl⟩ hyx
    rcases vis_or_false (by rw [hin.base.vsz]; exact hyn : x.to < m.visited.size) with hvis | hunv
    · obtain ⟨m', k1, k2, k3⟩ := ih (done ++ [x]) m hadj' (hext m hin (Or.inl hvis)) hwv hwo
      refine ⟨m', ?_, k2, k3⟩
      rw [primInner]
      have : m.visited[x.to]? = some true := hvis
      rw [this]; exact k1
    · have hgd : m.distTo[x.to]? = some (m.dist x.to) := getD_of_lt _ _ (by rw [hin.base.dsz]; exact hyn)
      have hnv : ¬ Vis m.visited x.to := not_vis_of_false hunv
      by_cases hlt : ltDist x.e.w (m.dist x.to) = true
      · -- x.to gets a (better) parent edge
        have hle : ∀ old, m.pq.ky x.to = some old → x.e.w ≤ old := by
          intro old ho
          have := (hin.keys _ old ho).2.1
          rw [this] at hlt
          simp [ltDist] at hlt
          omega
        obtain ⟨pq', e1, hv1, hk1⟩ := upsert_spec hin.base.hv hyn x.e.w hle
        let m' : MST := { m with edgeTo := m.edgeTo.set! x.to x.e, distTo := m.distTo.set! x.to (some x.e.w), pq := pq' }
        have hdist : ∀ v, m'.dist v = if v = x.to then some x.e.w else m.dist v :=
          fun v => mdist_set hin.base.dsz hyn _ _ _ _ v
        have hpar : ∀ v, m'.par v = if v = x.to then x.e else m.par v :=
          fun v => mpar_set hin.base.esz hyn _ _ _ _ v
        have hky : ∀ v, m'.pq.ky v = if v = x.to then some x.e.w else m.pq.ky v := by
          intro v
          by_cases e : v = x.to
          · rw [e]; simp only [if_true]; exact hk1.1
          · simp only [e, if_false]; exact hk1.2 v e
        have hpv : ∀ v, Vis m.visited v → m'.par v = m.par v := by
          intro v hv
          have : v ≠ x.to := fun e => hnv (e ▸ hv)
          rw [hpar]; simp [this]
        have hvm : ∀ {a b}, VArc g m a b → VArc g m' a b := fun h => VArc.mono (m := m) (m' := m') (fun _ h => h) hpv h
        have hlm : ∀ {a b}, VLink g m' a b → VLink g m a b := by
          intro a b h
          have ha : Vis m.visited a := h.1
          obtain ⟨h1, h2, h3, h4⟩ := h
          rw [hpv a ha] at h2 h3 h4
          exact ⟨h1, h2, h3, h4⟩
        have hwx : x.to ≠ w := fun e => hnv (e ▸ hwv)
        have hin' : RInv g r O m' (some (w, done)) :=
          { base := ⟨hin.base.vsz, by show (m.edgeTo.set! _ _).size = _; rw [size_set!]; exact hin.base.esz,
                     by show (m.distTo.set! _ _).size = _; rw [size_set!]; exact hin.base.dsz, hv1⟩
            oldv := hin.oldv
            oldc := hin.oldc
            rnew := hin.rnew
            keys := by
              intro v k hk
              rw [hky] at hk
              rw [hdist, hpar]
              by_cases e : v = x.to
              · simp only [e, if_true] at hk ⊢
                refine ⟨hnv, hk, Or.inr ⟨?_, Option.some.inj hk, w, hwv, hwo, ?_, ?_⟩⟩
                · intro ez
                  have h1 : x.e.a = x.e.b := by rw [ez]; rfl
                  unfold Joins at hj; omega
                · unfold Joins at hj ⊢; omega
                · unfold Graph.HasEdge; exact hxmem
              · simp only [e, if_false] at hk ⊢
                exact hin.keys v k hk
            reached := by
              intro v d hd
              rw [hdist] at hd
              rw [hky]
              by_cases e : v = x.to
              · simp only [e, if_true] at hd ⊢; exact Or.inr hd
              · simp only [e, if_false] at hd ⊢; exact hin.reached v d hd
            conn := fun v hv hno => (hin.conn v hv hno).mono (fun _ _ h => hvm h)
            closed := by
              intro v hv hno y hy hcur
              rcases hin.closed v hv hno y hy hcur with h | ⟨k, h1, h2⟩
              · exact Or.inl h
              · right
                rw [hky]
                by_cases e : y.to = x.to
                · simp only [e, if_true]
                  rw [e] at h1
                  exact ⟨x.e.w, rfl, by have := hle k h1; omega⟩
                · simp only [e, if_false]
                  exact ⟨k, h1, h2⟩
            forest := by
              obtain ⟨rank, c, f1, f2, f3, f4⟩ := hin.forest
              refine ⟨rank, c, f1, f2, fun a b h => f3 a b (hlm h), ?_⟩
              intro a b h f a' b' hs hj ha' hr hb'
              rw [hpv a h.1]
              exact f4 a b (hlm h) f a' b' hs hj ha' hr hb'
            oldconn := fun a b ha hb hr => (hin.oldconn a b ha hb hr).mono (fun _ _ h => hvm h)
            links := by
              intro v hv hne
              rw [hpv v hv] at hne
              obtain ⟨p, hp⟩ := hin.links v hv hne
              exact ⟨p, VLink.mono (m := m) (m' := m') (fun _ h => h) hpv hp⟩
            zero := by
              intro v hv hk
              rw [hky] at hk
              by_cases e : v = x.to
              · simp [e] at hk
              · simp only [e, if_false] at hk
                rw [hpar]; simp only [e, if_false]
                exact hin.zero v hv hk
            rootq := by
              rcases hin.rootq with h | h
              · exact Or.inl h
              · right
                rw [hky]
                split
                · simp
                · exact h }
        have hq : ∃ k, m'.pq.ky x.to = some k ∧ k ≤ x.e.w := ⟨x.e.w, by rw [hky]; simp, Int.le_refl _⟩
        obtain ⟨m2, k1, k2, k3⟩ := ih (done ++ [x]) m' hadj' (hext m' hin' (Or.inr hq)) hwv hwo
        refine ⟨m2, ?_, k2, k3⟩
        rw [primInner, hunv, hgd]
        have hlt2 : x.to < m.edgeTo.size := by rw [hin.base.esz]; exact hyn
        simp only [hlt, if_true, hlt2, e1]
        exact k1
      · -- not better: x.to is already queued
        have hnlt : ltDist x.e.w (m.dist x.to) = false := by simpa using hlt
        have hq : ∃ k, m.pq.ky x.to = some k ∧ k ≤ x.e.w := by
          cases hd : m.dist x.to with
          | none => rw [hd] at hnlt; simp [ltDist] at hnlt
          | some d =>
            rw [hd] at hnlt
            simp [ltDist] at hnlt
            rcases hin.reached _ d hd with h | h
            · exact absurd h hnv
            · exact ⟨d, h, hnlt⟩
        obtain ⟨m2, k1, k2, k3⟩ := ih (done ++ [x]) m hadj' (hext m hin (Or.inr hq)) hwv hwo
        refine ⟨m2, ?_, k2, k3⟩
        rw [primInner, hunv, hgd]
        simp only [hnlt, Bool.false_eq_true, if_false]
        exact k1

theorem primLoop_spec :
    ∀ fuel (m : MST), RInv g r O m none → cntF m.visited ≤ fuel →
      ∃ m', primLoop g fuel m = .ok m' ∧ RInv g r O m' none ∧ m'.pq.isEmpty = true ∧
        (∀ x, Vis m.visited x → Vis m'.visited x) := by
  intro fuel
  induction fuel with
  | zero =>
    intro m hinv hc
    have hemp : m.pq.isEmpty = true := by
      rw [isEmpty_iff hinv.base.hv.s]
      intro j
      cases hk : m.pq.ky j with
      | none => rfl
      | some k =>
        exfalso
        have hj := (hinv.base.hv.s.pos_of_key hk).1
        have hnd := (hinv.keys j k hk).1
        rcases vis_or_false (by rw [hinv.base.vsz]; exact hj : j < m.visited.size) with h | h
        · exact hnd h
        · have := cntF_set h; omega
    exact ⟨m, by simp [primLoop, hemp], hinv, hemp, fun _ h => h⟩
  | succ fuel ih =>
    intro m hinv hc
    by_cases hemp : m.pq.isEmpty = true
    · exact ⟨m, by simp [primLoop, hemp], hinv, hemp, fun _ h => h⟩
    · have hne : m.pq.isEmpty = false := by simpa using hemp
      obtain ⟨pq', w, kw, e1, hv1, hwn, hkw, hmin, hupd⟩ := delete_spec hinv.base.hv hne
      obtain ⟨hnv, hdw, hsrc⟩ := hinv.keys w kw hkw
      have hunv : m.visited[w]? = some false := by
        rcases vis_or_false (by rw [hinv.base.vsz]; exact hwn : w < m.visited.size) with h | h
        · exact absurd h hnv
        · exact h
      have hcnt := cntF_set hunv
      have hwo : ¬ Vis O w := fun h => hnv (hinv.oldv w h)
      let m1 : MST := { m with pq := pq', visited := m.visited.set! w true }
      have hVm : ∀ x, Vis m.visited x → Vis m1.visited x := fun x hx => vis_set_of_vis hx
      have hVw : Vis m1.visited w := vis_set_self (by rw [hinv.base.vsz]; exact hwn)
      have hV1 : ∀ x, Vis m1.visited x → x = w ∨ Vis m.visited x := by
        intro x hx
        rcases vis_set.1 hx with ⟨e, _⟩ | h
        · exact Or.inl e.symm
        · exact Or.inr h
      have hky : ∀ v, v ≠ w → pq'.ky v = m.pq.ky v := hupd.2
      have hpar : ∀ v, m1.par v = m.par v := fun _ => rfl
      have hvm : ∀ {a b}, VArc g m a b → VArc g m1 a b := fun h => h.mono hVm (fun _ _ => rfl)
      -- the link of w to its parent (if w is not the root)
      have hwlink : (w = r ∧ m.par w = Edge.zero) ∨ ∃ p, VLink g m1 w p ∧ Vis m.visited p ∧ ¬ Vis O p := by
        rcases hsrc with h | ⟨h1, _, p, h2, h3, h4, h5⟩
        · exact Or.inl h
        · exact Or.inr ⟨p, ⟨hVw, h1, h4, h5⟩, h2, h3⟩
      have hin : RInv g r O m1 (some (w, [])) :=
        { base := ⟨by show (m.visited.set! w true).size = _; rw [size_set!]; exact hinv.base.vsz,
                   hinv.base.esz, hinv.base.dsz, hv1⟩
          oldv := fun x hx => hVm x (hinv.oldv x hx)
          oldc := hinv.oldc
          rnew := hinv.rnew
          keys := by
            intro v k hk
            have hvw : v ≠ w := by
              intro e; rw [e] at hk
              have : pq'.ky w = none := hupd.1
              rw [this] at hk; simp at hk
            have hk' : m.pq.ky v = some k := by rw [← hky v hvw]; exact hk
            obtain ⟨k1, k2, k3⟩ := hinv.keys v k hk'
            refine ⟨?_, k2, ?_⟩
            · intro h
              rcases hV1 v h with e | h'
              · exact hvw e
              · exact k1 h'
            · rcases k3 with h | ⟨h1, h0, p, h2, h3, h4, h5⟩
              · exact Or.inl h
              · exact Or.inr ⟨h1, h0, p, hVm p h2, h3, h4, h5⟩
          reached := by
            intro v d hd
            by_cases hvw : v = w
            · rw [hvw]; exact Or.inl hVw
            · rcases hinv.reached v d hd with h | h
              · exact Or.inl (hVm v h)
              · exact Or.inr (by show pq'.ky v = _; rw [hky v hvw]; exact h)
          conn := by
            intro v hv hno
            rcases hV1 v hv with e | h
            · rw [e]
              rcases hwlink with h | ⟨p, hl, hp, hpo⟩
              · rw [h.1]; exact .refl _
              · exact Reach.head (Or.inl hl) ((hinv.conn p hp hpo).mono (fun _ _ h => hvm h))
            · exact (hinv.conn v h hno).mono (fun _ _ h => hvm h)
          closed := by
            intro v hv hno x hx hcur
            by_cases hvw : v = w
            · subst hvw
              have := hcur [] rfl
              simp at this
            · rcases hV1 v hv with e | h
              · exact absurd e hvw
              · rcases hinv.closed v h hno x hx (fun d hd => by simp at hd) with h1 | h1
                · exact Or.inl (hVm _ h1)
                · by_cases hxw : x.to = w
                  · rw [hxw]; exact Or.inl hVw
                  · right
                    obtain ⟨k, k1, k2⟩ := h1
                    exact ⟨k, by show pq'.ky x.to = _; rw [hky _ hxw]; exact k1, k2⟩
          forest := by
            obtain ⟨rank, c, f1, f2, f3, f4⟩ := hinv.forest
            refine ⟨fun z => if z = w then c else rank z, c + 1, ?_, ?_, ?_, ?_⟩
            · intro v hv
              by_cases e : v = w
              · simp [e]
              · simp only [e, if_false]
                rcases hV1 v hv with e' | h
                · exact absurd e' e
                · have := f1 v h; omega
            · intro x y hx hy hxy
              by_cases ex : x = w <;> by_cases ey : y = w
              · rw [ex, ey]
              · simp only [ex, ey, if_true, if_false] at hxy
                rcases hV1 y hy with e' | h
                · exact absurd e' ey
                · have := f1 y h; omega
              · simp only [ex, ey, if_true, if_false] at hxy
                rcases hV1 x hx with e' | h
                · exact absurd e' ex
                · have := f1 x h; omega
              · simp only [ex, ey, if_false] at hxy
                rcases hV1 x hx with e' | h1
                · exact absurd e' ex
                · rcases hV1 y hy with e' | h2
                  · exact absurd e' ey
                  · exact f2 x y h1 h2 hxy
            · intro a p hl
              by_cases e : a = w
              · subst e
                rcases hwlink with h | ⟨p', hl', hp', _⟩
                · exact absurd h.2 hl.2.1
                · have : p = p' := joins_fun hl.2.2.1 hl'.2.2.1
                  subst this
                  refine ⟨hVm _ hp', ?_⟩
                  have hpw : p ≠ a := fun e => hnv (e ▸ hp')
                  simp only [hpw, if_false, if_true]
                  exact f1 p hp'
              · have ha : Vis m.visited a := by
                  rcases hV1 a hl.1 with e' | h
                  · exact absurd e' e
                  · exact h
                obtain ⟨k1, k2⟩ := f3 a p ⟨ha, hl.2⟩
                have hpw : p ≠ w := fun e' => hnv (e' ▸ k1)
                refine ⟨hVm _ k1, ?_⟩
                simp only [e, hpw, if_false]
                exact k2
            · intro a p hl f a' b' hs hj ha' hr hb'
              by_cases e : a = w
              · -- the vertex visited now: its parent edge carried the least key
                subst e
                simp only [if_true] at hr hb'
                rcases hsrc with h | ⟨_, hkey, _⟩
                · exact absurd h.2 hl.2.1
                · show (m.par a).w ≤ f.w
                  rw [hkey]
                  -- a' was visited before; b' is a or still unvisited
                  have ha'w : a' ≠ a := by
                    intro e'; rw [e'] at hr; simp at hr
                  simp only [ha'w, if_false] at hr
                  have ha'm : Vis m.visited a' := by
                    rcases hV1 a' ha' with e' | h
                    · exact absurd e' ha'w
                    · exact h
                  have hb'm : ¬ Vis m.visited b' := by
                    intro hb
                    have hbw : b' ≠ a := fun e' => hnv (e' ▸ hb)
                    rcases hb' with h | h
                    · exact h (hVm b' hb)
                    · simp only [hbw, if_false] at h
                      have := f1 b' hb; omega
                  have hedge : g.HasEdge a' b' f := by
                    rcases Joins.same hj (Joins.ends f) with ⟨rfl, rfl⟩ | ⟨rfl, rfl⟩
                    · exact hs.1
                    · exact hs.2
                  have ha'o : ¬ Vis O a' := by
                    intro ho
                    exact hb'm (hinv.oldv b' (hinv.oldc a' ho b' ⟨⟨b', f⟩, hedge, rfl⟩))
                  rcases hinv.closed a' ha'm ha'o ⟨b', f⟩ hedge (fun d hd => by simp at hd) with h | ⟨k, k1, k2⟩
                  · exact absurd h hb'm
                  · have := hmin b' k k1
                    have k2' : k ≤ f.w := k2
                    show kw ≤ f.w
                    omega
              · have ha : Vis m.visited a := by
                  rcases hV1 a hl.1 with e' | h
                  · exact absurd e' e
                  · exact h
                simp only [e, if_false] at hr hb'
                have hra := f1 a ha
                have ha'w : a' ≠ w := by
                  intro e'; rw [e'] at hr; simp at hr; omega
                simp only [ha'w, if_false] at hr
                have ha'm : Vis m.visited a' := by
                  rcases hV1 a' ha' with e' | h
                  · exact absurd e' ha'w
                  · exact h
                refine f4 a p ⟨ha, hl.2⟩ f a' b' hs hj ha'm hr ?_
                by_cases hbw : b' = w
                · rw [hbw]; exact Or.inl hnv
                · simp only [hbw, if_false] at hb'
                  rcases hb' with h | h
                  · exact Or.inl (fun hb => h (hVm b' hb))
                  · exact Or.inr h
          oldconn := fun a b ha hb hr => (hinv.oldconn a b ha hb hr).mono (fun _ _ h => hvm h)
          links := by
            intro v hv hne
            rcases hV1 v hv with e | h
            · subst e
              rcases hwlink with h | ⟨p, hl, _, _⟩
              · exact absurd h.2 hne
              · exact ⟨p, hl⟩
            · obtain ⟨p, hp⟩ := hinv.links v h hne
              exact ⟨p, hp.mono hVm (fun _ _ => rfl)⟩
          zero := by
            intro v hv hk
            have hvw : v ≠ w := fun e => hv (e ▸ hVw)
            have hv' : ¬ Vis m.visited v := fun h => hv (hVm v h)
            exact hinv.zero v hv' (by rw [← hky v hvw]; exact hk)
          rootq := by
            by_cases hrw : r = w
            · rw [hrw]; exact Or.inl hVw
            · rcases hinv.rootq with h | h
              · exact Or.inl (hVm r h)
              · right
                show (pq'.ky r).isSome
                rw [hky r hrw]; exact h }
      obtain ⟨m2, e2, hin2, hvis2⟩ :=
        primInner_spec hg hu r O w (g.adj.getD w []) [] m1 (by simp) hin hVw hwo
      obtain ⟨m3, e3, k1, k2, k3⟩ := ih m2 hin2 (by
        rw [hvis2]; show cntF (m.visited.set! w true) ≤ fuel; omega)
      refine ⟨m3, ?_, k1, k2, fun x hx => k3 x (by rw [hvis2]; exact hVm x hx)⟩
      rw [primLoop]
      have hwl : w < m.visited.size := by rw [hinv.base.vsz]; exact hwn
      simp only [hne, Bool.false_eq_true, if_false, e1, hwl, if_true]
      show (primInner (g.adj.getD w []) m1 >>= primLoop g fuel) = _
      rw [e2]
      exact e3

end

end AlgoVerif.C14

namespace AlgoVerif.C14

theorem VArc.symm {g : Graph} {m : MST} {a b : Nat} (h : VArc g m a b) : VArc g m b a := Or.symm h

/-- invariant between two `prim` runs -/
structure MInv (g : Graph) (m : MST) : Prop where
  base : MBase g m
  pqempty : ∀ j, m.pq.ky j = none
  closedV : ∀ x, Vis m.visited x → ∀ y, g.HasArc x y → Vis m.visited y
  conn : ∀ x y, Vis m.visited x → Vis m.visited y → Reach g.HasArc x y → Reach (VArc g m) x y
  forest : ForestOK g m
  links : ∀ w, Vis m.visited w → m.par w ≠ Edge.zero → ∃ p, VLink g m w p
  reachedV : ∀ w d, m.dist w = some d → Vis m.visited w
  zeroU : ∀ w, ¬ Vis m.visited w → m.par w = Edge.zero

section

variable {g : Graph} (hg : g.WF) (hu : g.UWF) (hsym : g.Symmetric)
include hg hu hsym

theorem prim_spec (m : MST) (hinv : MInv g m) (s : Nat) (hs : s < g.n) (hunv : m.visited[s]? = some false) :
    ∃ m', prim g m s = .ok m' ∧ MInv g m' ∧ (∀ x, Vis m.visited x → Vis m'.visited x) ∧ Vis m'.visited s := by
  have hnv : ¬ Vis m.visited s := not_vis_of_false hunv
  obtain ⟨pq0, e0, hv0, hk0⟩ := insert_spec hinv.base.hv hs (hinv.pqempty s) 0
  let m0 : MST := { m with distTo := m.distTo.set! s (some 0), pq := pq0 }
  have hdist : ∀ v, m0.dist v = if v = s then some 0 else m.dist v :=
    fun v => mdist_set hinv.base.dsz hs _ _ _ _ v
  have hky : ∀ v, m0.pq.ky v = if v = s then some 0 else none := by
    intro v
    by_cases e : v = s
    · rw [e]; simp only [if_true]; exact hk0.1
    · simp only [e, if_false]
      show pq0.ky v = none
      rw [hk0.2 v e]; exact hinv.pqempty v
  have hr0 : RInv g s m.visited m0 none :=
    { base := ⟨hinv.base.vsz, hinv.base.esz,
               by show (m.distTo.set! _ _).size = _; rw [size_set!]; exact hinv.base.dsz, hv0⟩
      oldv := fun _ h => h
      oldc := hinv.closedV
      rnew := hnv
      keys := by
        intro w k hk
        rw [hky] at hk
        split at hk
        · rename_i e
          subst e
          refine ⟨hnv, by rw [hdist]; simpa using hk, Or.inl ⟨rfl, hinv.zeroU w hnv⟩⟩
        · simp at hk
      reached := by
        intro w d hd
        rw [hdist] at hd
        rw [hky]
        by_cases e : w = s
        · simp only [e, if_true] at hd ⊢; exact Or.inr hd
        · simp only [e, if_false] at hd ⊢; exact Or.inl (hinv.reachedV w d hd)
      conn := fun w hv hno => absurd hv hno
      closed := fun w hv hno => absurd hv hno
      forest := hinv.forest
      oldconn := hinv.conn
      links := hinv.links
      zero := fun w hv _ => hinv.zeroU w hv
      rootq := Or.inr (by rw [hky]; simp) }
  have hcnt : cntF m0.visited ≤ g.n + 1 := by
    have := cntF_le_size m.visited
    rw [hinv.base.vsz] at this
    show cntF m.visited ≤ _; omega
  obtain ⟨m', e1, hr, hemp, hgrow⟩ := primLoop_spec hg hu s m.visited (g.n + 1) m0 hr0 hcnt
  have hallK : ∀ j, m'.pq.ky j = none := (isEmpty_iff hr.base.hv.s).1 hemp
  have hroot : Vis m'.visited s := by
    rcases hr.rootq with h | h
    · exact h
    · rw [hallK] at h; simp at h
  have hclosed : ∀ x, Vis m'.visited x → ∀ y, g.HasArc x y → Vis m'.visited y := by
    intro x hx y hy
    by_cases ho : Vis m.visited x
    · exact hr.oldv y (hinv.closedV x ho y hy)
    · obtain ⟨a, ha, rfl⟩ := hy
      rcases hr.closed x hx ho a ha (fun d hd => by simp at hd) with h | ⟨k, h, _⟩
      · exact h
      · rw [hallK] at h; simp at h
  have hold_closed : ∀ x y, Vis m.visited x → Reach g.HasArc x y → Vis m.visited y :=
    fun x y hx hr' => Reach.closed (S := Vis m.visited) (fun p q hp e => hinv.closedV p hp q e) hr' hx
  have hvsym : ∀ a b, VArc g m' a b → VArc g m' b a := fun _ _ h => h.symm
  refine ⟨m', ?_, ?_, fun x hx => hgrow x hx, hroot⟩
  · unfold prim
    have : s < m.distTo.size := by rw [hinv.base.dsz]; exact hs
    simp only [this, if_true, e0]
    exact e1
  · exact
      { base := hr.base
        pqempty := hallK
        closedV := hclosed
        conn := by
          intro x y hx hy hxy
          by_cases hox : Vis m.visited x <;> by_cases hoy : Vis m.visited y
          · exact hr.oldconn x y hox hoy hxy
          · exact absurd (hold_closed x y hox hxy) hoy
          · exact absurd (hold_closed y x hoy (hxy.symm hsym)) hox
          · exact (hr.conn x hx hox).trans ((hr.conn y hy hoy).symm hvsym)
        forest := hr.forest
        links := hr.links
        reachedV := by
          intro w d hd
          rcases hr.reached w d hd with h | h
          · exact h
          · rw [hallK] at h; simp at h
        zeroU := fun w hv => hr.zero w hv (hallK w) }

theorem mstOuter_spec :
    ∀ vs, (∀ v ∈ vs, v < g.n) → ∀ m, MInv g m →
      ∃ m', mstOuter g vs m = .ok m' ∧ MInv g m' ∧ (∀ x, Vis m.visited x → Vis m'.visited x) ∧
        ∀ v ∈ vs, Vis m'.visited v := by
  intro vs
  induction vs with
  | nil => intro _ m hinv; exact ⟨m, rfl, hinv, fun _ h => h, by simp⟩
  | cons v vs ih =>
    intro hvs m hinv
    have hvn : v < g.n := hvs v (by simp)
    have hvs' : ∀ w ∈ vs, w < g.n := fun w hw => hvs w (by simp [hw])
    rcases vis_or_false (by rw [hinv.base.vsz]; exact hvn : v < m.visited.size) with h1 | h1
    · obtain ⟨m', k1, k2, k3, k4⟩ := ih hvs' m hinv
      refine ⟨m', ?_, k2, k3, ?_⟩
      · have : m.visited[v]? = some true := h1
        simp only [mstOuter, this]; exact k1
      · intro w hw
        rcases List.mem_cons.1 hw with rfl | h
        · exact k3 _ h1
        · exact k4 w h
    · obtain ⟨m1, e1, hinv1, hg1, hv1⟩ := prim_spec hg hu hsym m hinv v hvn h1
      obtain ⟨m', k1, k2, k3, k4⟩ := ih hvs' m1 hinv1
      refine ⟨m', ?_, k2, fun x hx => k3 x (hg1 x hx), ?_⟩
      · simp only [mstOuter, h1, e1]; exact k1
      · intro w hw
        rcases List.mem_cons.1 hw with rfl | h
        · exact k3 _ hv1
        · exact k4 w h

/-- **MinimumSpanningTree builds a spanning forest** -/
theorem mst_spec :
    ∃ m, g.minimumSpanningTree = .ok m ∧ m.edgeTo.size = g.n ∧
      (∀ w, m.par w ≠ Edge.zero → ∃ p, TLink g m w p) ∧
      (∃ rank : Nat → Nat, ∀ w p, TLink g m w p → rank p < rank w) ∧
      (∀ u v, u < g.n → v < g.n → (Reach g.HasArc u v ↔ Reach (TArc g m) u v)) := by
  let m0 : MST := { visited := Array.replicate g.n false, edgeTo := Array.replicate g.n Edge.zero,
                    distTo := Array.replicate g.n none, pq := IHeap.new g.n }
  have hpar0 : ∀ w, m0.par w = Edge.zero := by
    intro w
    simp only [m0, MST.par]
    rw [getD_eq, Array.getElem?_replicate]; split <;> rfl
  have hdist0 : ∀ w, m0.dist w = none := by
    intro w
    simp only [m0, MST.dist]
    rw [getD_eq, Array.getElem?_replicate]; split <;> rfl
  have hinv0 : MInv g m0 :=
    { base := ⟨by simp [m0], by simp [m0], by simp [m0], hinv_new g.n⟩
      pqempty := ky_new g.n
      closedV := fun x hx => absurd hx vis_replicate_false
      conn := fun x _ hx => absurd hx vis_replicate_false
      forest := ⟨fun _ => 0, 0, fun w hw => absurd hw vis_replicate_false,
                 fun x _ hx => absurd hx vis_replicate_false,
                 fun w p h => absurd h.1 vis_replicate_false,
                 fun w p h => absurd h.1 vis_replicate_false⟩
      links := fun w hw => absurd hw vis_replicate_false
      reachedV := by intro w d hd; rw [hdist0] at hd; simp at hd
      zeroU := fun w _ => hpar0 w }
  obtain ⟨m, e1, hinv, _, hall⟩ :=
    mstOuter_spec hg hu hsym (List.range g.n) (fun v hv => List.mem_range.1 hv) m0 hinv0
  have hvis : ∀ w, w < g.n → Vis m.visited w := fun w hw => hall w (List.mem_range.2 hw)
  have hlt : ∀ w, m.par w ≠ Edge.zero → w < g.n := by
    intro w hne
    by_cases h : w < g.n
    · exact h
    · exfalso
      apply hne
      unfold MST.par Array.getD
      have : ¬ w < m.edgeTo.size := by rw [hinv.base.esz]; exact h
      simp [this]
  refine ⟨m, e1, hinv.base.esz, ?_, ?_, ?_⟩
  · intro w hne
    obtain ⟨p, hp⟩ := hinv.links w (hvis w (hlt w hne)) hne
    exact ⟨p, hp.2⟩
  · obtain ⟨rank, c, _, _, f3, _⟩ := hinv.forest
    exact ⟨rank, fun w p h => (f3 w p ⟨hvis w (hlt w h.1), h⟩).2⟩
  · intro u v hu' hv'
    constructor
    · intro h
      exact (hinv.conn u v (hvis u hu') (hvis v hv') h).mono
        (fun a b hab => hab.elim (fun x => Or.inl x.2) (fun x => Or.inr x.2))
    · intro h
      refine h.mono ?_
      intro a b hab
      have key : ∀ a b, TLink g m a b → g.HasArc b a := by
        intro a b hl
        exact ⟨⟨a, m.par a⟩, hl.2.2, rfl⟩
      rcases hab with h1 | h1
      · exact hsym _ _ (key a b h1)
      · exact key b a h1

end

end AlgoVerif.C14

namespace AlgoVerif.C14

theorem mem_edges {m : MST} {e : Edge} :
    e ∈ m.edges ↔ e ≠ Edge.zero ∧ ∃ w, w < m.edgeTo.size ∧ m.par w = e := by
  unfold MST.edges
  rw [List.mem_filter]
  constructor
  · rintro ⟨h1, h2⟩
    refine ⟨by simpa using h2, ?_⟩
    obtain ⟨i, hi, he⟩ := List.mem_iff_getElem.1 h1
    have hi' : i < m.edgeTo.size := by simpa using hi
    refine ⟨i, hi', ?_⟩
    unfold MST.par Array.getD
    simp only [hi', dite_true]
    simpa using he
  · rintro ⟨h1, w, hw, he⟩
    refine ⟨?_, by simpa using h1⟩
    apply List.mem_iff_getElem.2
    refine ⟨w, by simpa using hw, ?_⟩
    unfold MST.par Array.getD at he
    simp only [hw, dite_true] at he
    simpa using he

theorem wsum_edges (m : MST) : m.weight = wsum m.edges := by
  unfold MST.weight wsum
  have : ∀ (l : List Edge) (acc : Int), l.foldl (fun acc e => acc + e.w) acc = acc + (l.map (·.w)).sum := by
    intro l
    induction l with
    | nil => intro acc; simp
    | cons e r ih => intro acc; simp only [List.foldl_cons, List.map_cons, List.sum_cons]; rw [ih]; omega
  rw [this]; simp

section

variable {g : Graph} (hg : g.WF) (hu : g.UWF) (hsym : g.Symmetric)
include hg hu hsym

/-- the final state of `newMinimumSpanningTree` -/
theorem mst_final : ∃ m, g.minimumSpanningTree = .ok m ∧ MInv g m ∧ ∀ w, w < g.n → Vis m.visited w := by
  let m0 : MST := { visited := Array.replicate g.n false, edgeTo := Array.replicate g.n Edge.zero,
                    distTo := Array.replicate g.n none, pq := IHeap.new g.n }
  have hpar0 : ∀ w, m0.par w = Edge.zero := by
    intro w
    simp only [m0, MST.par]
    rw [getD_eq, Array.getElem?_replicate]; split <;> rfl
  have hdist0 : ∀ w, m0.dist w = none := by
    intro w
    simp only [m0, MST.dist]
    rw [getD_eq, Array.getElem?_replicate]; split <;> rfl
  have hinv0 : MInv g m0 :=
    { base := ⟨by simp [m0], by simp [m0], by simp [m0], hinv_new g.n⟩
      pqempty := ky_new g.n
      closedV := fun x hx => absurd hx vis_replicate_false
      conn := fun x _ hx => absurd hx vis_replicate_false
      forest := ⟨fun _ => 0, 0, fun w hw => absurd hw vis_replicate_false,
                 fun x _ hx => absurd hx vis_replicate_false,
                 fun w p h => absurd h.1 vis_replicate_false,
                 fun w p h => absurd h.1 vis_replicate_false⟩
      links := fun w hw => absurd hw vis_replicate_false
      reachedV := by intro w d hd; rw [hdist0] at hd; simp at hd
      zeroU := fun w _ => hpar0 w }
  obtain ⟨m, e1, hinv, _, hall⟩ :=
    mstOuter_spec hg hu hsym (List.range g.n) (fun v hv => List.mem_range.1 hv) m0 hinv0
  exact ⟨m, e1, hinv, fun w hw => hall w (List.mem_range.2 hw)⟩

/-- **the forest of `MinimumSpanningTree` has minimum weight among all spanning forests** -/
theorem mst_minimum (hst : g.UStored) :
    ∃ m, g.minimumSpanningTree = .ok m ∧ IsSpanningForest g m.edges ∧
      ∀ F, IsSpanningForest g F → m.weight ≤ wsum F := by
  obtain ⟨m, e1, hinv, hvis⟩ := mst_final hg hu hsym
  obtain ⟨rank, c, f1, f2, f3, f4⟩ := hinv.forest
  have hlt : ∀ w, m.par w ≠ Edge.zero → w < g.n := by
    intro w hne
    by_cases h : w < g.n
    · exact h
    · exfalso
      apply hne
      unfold MST.par Array.getD
      have : ¬ w < m.edgeTo.size := by rw [hinv.base.esz]; exact h
      simp [this]
  -- a stored edge has both ends among the vertices
  have hends : ∀ f, g.StoredEdge f → f.a < g.n ∧ f.b < g.n := by
    intro f hs
    have : g.HasArc f.a f.b := ⟨⟨f.b, f⟩, hs.1, rfl⟩
    exact ⟨hg.src_lt this, hg.arc_lt this⟩
  have hvl : ∀ w p, TLink g m w p → VLink g m w p := fun w p h => ⟨hvis w (hlt w h.1), h⟩
  let Lk : Nat → Nat → Edge → Prop := fun w p e => TLink g m w p ∧ m.par w = e
  have hmemT : ∀ w p e, Lk w p e → e ∈ m.edges := by
    intro w p e ⟨hl, he⟩
    rw [mem_edges]
    exact ⟨he ▸ hl.1, w, by rw [hinv.base.esz]; exact hlt w hl.1, he⟩
  have hstored : ∀ w p e, Lk w p e → g.StoredEdge e := by
    intro w p e ⟨hl, he⟩
    have := hst p ⟨w, m.par w⟩ hl.2.2
    exact he ▸ this
  have hlink : ∀ e ∈ m.edges, ∃ w p, Lk w p e := by
    intro e he
    obtain ⟨hne, w, hw, hp⟩ := mem_edges.1 he
    have hwn : w < g.n := by rw [← hinv.base.esz]; exact hw
    obtain ⟨p, hl⟩ := hinv.links w (hvis w hwn) (hp ▸ hne)
    exact ⟨w, p, hl.2, hp⟩
  -- tree arcs are edges of the list
  have hT : ∀ a b, VArc g m a b → EAdj m.edges a b := by
    intro a b hab
    rcases hab with h | h
    · exact ⟨m.par a, hmemT a b _ ⟨h.2, rfl⟩, h.2.2.1⟩
    · exact ⟨m.par b, hmemT b a _ ⟨h.2, rfl⟩, h.2.2.1.symm⟩
  have hspanT : ∀ f, g.StoredEdge f → EConn m.edges f.a f.b := by
    intro f hs
    obtain ⟨ha, hb⟩ := hends f hs
    have : Reach g.HasArc f.a f.b := Reach.single ⟨⟨f.b, f⟩, hs.1, rfl⟩
    exact (hinv.conn f.a f.b (hvis _ ha) (hvis _ hb) this).mono (fun a b h => hT a b h)
  have hnodup : m.edges.Nodup := by
    unfold MST.edges
    have hp : List.Pairwise (fun a b : Edge => a ≠ Edge.zero → b ≠ Edge.zero → a ≠ b) m.edgeTo.toList := by
      rw [List.pairwise_iff_getElem]
      intro i j hi hj hij ha hb hab
      have hi' : i < m.edgeTo.size := by simpa using hi
      have hj' : j < m.edgeTo.size := by simpa using hj
      have pi : m.par i = m.edgeTo.toList[i] := by
        unfold MST.par Array.getD; simp [hi']
      have pj : m.par j = m.edgeTo.toList[j] := by
        unfold MST.par Array.getD; simp [hj']
      have hin : i < g.n := by rw [← hinv.base.esz]; exact hi'
      have hjn : j < g.n := by rw [← hinv.base.esz]; exact hj'
      obtain ⟨p1, l1⟩ := hinv.links i (hvis i hin) (by rw [pi]; exact ha)
      obtain ⟨p2, l2⟩ := hinv.links j (hvis j hjn) (by rw [pj]; exact hb)
      have j1 : Joins (m.par i) i p1 := l1.2.2.1
      have j2 : Joins (m.par i) j p2 := by
        have := l2.2.2.1
        rw [pj, ← hab, ← pi] at this
        exact this
      have r1 := (f3 i p1 l1).2
      have r2 := (f3 j p2 l2).2
      rcases j1.same j2 with ⟨e1', _⟩ | ⟨e1', e2'⟩
      · omega
      · subst e1'; subst e2'; omega
    have := hp.filter (fun e => decide (e ≠ Edge.zero))
    refine this.imp_of_mem ?_
    intro a b ha hb h
    have ha' := (List.mem_filter.1 ha).2
    have hb' := (List.mem_filter.1 hb).2
    exact h (by simpa using ha') (by simpa using hb')
  have hcert : CutCert g.StoredEdge m.edges rank Lk :=
    { nodup := hnodup
      link := hlink
      mem := by
        intro w p e hl
        exact ⟨hmemT w p e hl, hl.2 ▸ hl.1.2.1, hstored w p e hl, (f3 w p (hvl w p hl.1)).2⟩
      inj := by
        intro w p e w' p' e' hl hl' hr
        have := f2 w w' (hvl w p hl.1).1 (hvl w' p' hl'.1).1 hr
        subst this
        rw [← hl.2, ← hl'.2]
      bound := ⟨c, fun w p e hl => f1 w (hvl w p hl.1).1⟩
      cut := by
        intro w p e hl f a b hs hj hr hb
        have := f4 w p (hvl w p hl.1) f a b hs hj (by
          obtain ⟨ha, hb'⟩ := hends f hs
          rcases hj.same (Joins.ends f) with ⟨rfl, rfl⟩ | ⟨rfl, rfl⟩
          · exact hvis _ ha
          · exact hvis _ hb') hr (Or.inr hb)
        rw [hl.2] at this
        exact this
      span := hspanT }
  refine ⟨m, e1, ⟨⟨hnodup, ?_⟩, ?_, hspanT⟩, ?_⟩
  · -- acyclic: the ends of a tree edge are not connected by the other tree edges (ranks)
    intro e he hcon
    obtain ⟨w, p, hl⟩ := hlink e he
    -- B = the vertices whose parent chain passes through w; it is closed under the other tree edges,
    -- contains w, and cannot contain p (ranks decrease along parent links)
    let Up : Nat → Prop := fun x => Reach (fun y q => ∃ e', Lk y q e') x w
    have hup_rank : ∀ x, Up x → rank w ≤ rank x := by
      intro x hx
      have : ∀ a b, Reach (fun y q => ∃ e', Lk y q e') a b → rank b ≤ rank a := by
        intro a b hab
        induction hab with
        | refl => exact Nat.le_refl _
        | tail _ hstep ih =>
          obtain ⟨e', hl'⟩ := hstep
          have := (f3 _ _ (hvl _ _ hl'.1)).2
          omega
      exact this x w hx
    have hclosed : ∀ a b, Up a → EAdj (m.edges.erase e) a b → Up b := by
      intro a b ha ⟨e', he', hj'⟩
      have hne : e' ≠ e := ((mem_erase_nodup hnodup).1 he').1
      obtain ⟨y, q, hl'⟩ := hlink e' (erase_sub he')
      have hjy : Joins e' y q := hl'.2 ▸ hl'.1.2.1
      -- a walk from x to w that starts with a parent link: head form of Reach
      have hhead : ∀ x, Up x → x = w ∨ ∃ q' e'', Lk x q' e'' ∧ Up q' := by
        intro x hx
        have : ∀ a b, Reach (fun y q => ∃ e', Lk y q e') a b → a = b ∨ ∃ q' e'', Lk a q' e'' ∧
            Reach (fun y q => ∃ e', Lk y q e') q' b := by
          intro a b hab
          induction hab with
          | refl => exact Or.inl rfl
          | @tail u v _ hstep ih =>
            rcases ih with rfl | ⟨q', e'', h1, h2⟩
            · obtain ⟨e3, h3⟩ := hstep
              exact Or.inr ⟨v, e3, h3, .refl _⟩
            · exact Or.inr ⟨q', e'', h1, .tail h2 hstep⟩
        exact this x w hx
      rcases hj'.same hjy with ⟨rfl, rfl⟩ | ⟨rfl, rfl⟩
      · -- a is the child: go up
        rcases hhead a ha with rfl | ⟨q', e'', h1, h2⟩
        · exfalso
          apply hne
          rw [← hl'.2, ← hl.2]
        · have hq : q' = b := by
            have j1 : Joins (m.par a) a q' := h1.1.2.1
            have j2 : Joins (m.par a) a b := hl'.1.2.1
            exact joins_fun j1 j2
          rw [← hq]; exact h2
      · -- a is the parent: b hangs below it
        exact Reach.head ⟨e', hl'⟩ ha
    have hp : Up p := Reach.closed (S := Up) hclosed
      (by
        have : Joins e w p := hl.2 ▸ hl.1.2.1
        rcases this.same (Joins.ends e) with ⟨rfl, rfl⟩ | ⟨rfl, rfl⟩
        · exact hcon
        · exact hcon.symm) (.refl _)
    have h1 := hup_rank p hp
    have h2 := (f3 w p (hvl w p hl.1)).2
    omega
  · intro f hf
    obtain ⟨w, p, hl⟩ := hlink f hf
    exact hstored w p f hl
  · intro F hF
    rw [wsum_edges]
    exact cut_rule_optimal hcert F hF.acyc hF.sub hF.span

end

end AlgoVerif.C14
