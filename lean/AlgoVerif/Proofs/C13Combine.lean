import AlgoVerif.Proofs.C13SubsetTerm
import AlgoVerif.Proofs.C13DfaTerm
import AlgoVerif.Proofs.C13Union
/-! C13: `CombineDFA` always returns and accepts the union of the operand languages. -/
namespace AlgoVerif.C13
open AlgoVerif AlgoVerif.C13.Spec

/-! ### well-formedness of the intermediate automata -/

theorem NFA.WF_foldl_add {α : Type} (L : List α) (f : α → Int × Int × List Int) (n0 : NFA) (h : n0.WF) :
    (L.foldl (fun acc e => acc.add (f e).1 (f e).2.1 (f e).2.2) n0).WF := by
  induction L generalizing n0 with
  | nil => exact h
  | cons e L ih => simp only [List.foldl_cons]; exact ih _ (NFA.WF_add h _ _ _)

theorem DFA.toNFA_WF (d : DFA) : d.toNFA.WF := by
  rw [d.toNFA_eq, List.foldl_map]
  exact NFA.WF_foldl_add (entries d.trans) (fun e => (e.1, e.2.1, [e.2.2])) _ (by simp [NFA.WF, ASorted])

theorem DFA.ofEntries_WF (s : Int) (f : List Int) (L : List (Int × Int × Int)) : (DFA.ofEntries s f L).WF := by
  unfold DFA.ofEntries
  suffices h : ∀ d0 : DFA, d0.WF → (L.foldl (fun (acc : DFA) e => acc.add e.1 e.2.1 e.2.2) d0).WF from
    h _ (by simp [DFA.WF, ASorted])
  induction L with
  | nil => intro d0 h; exact h
  | cons e L ih => intro d0 h; simp only [List.foldl_cons]; exact ih _ (DFA.WF_add h _ _ _)

theorem subsetStep_wf (n : NFA) (T : List Int) (i : Nat) (rem : List Int) (acc r : List (List Int) × DFA)
    (h : subsetStep n T i rem acc = .ok r) (hw : acc.2.WF) : r.2.WF := by
  induction rem generalizing acc with
  | nil => simp [subsetStep] at h; subst h; exact hw
  | cons a rem ih =>
    obtain ⟨U, hU, _⟩ := n.εClosure_spec (n.move T a)
    simp only [subsetStep, hU] at h
    cases hf : sqFind acc.1 U with
    | some j => simp only [hf] at h; exact ih _ h (DFA.WF_add hw _ _ _)
    | none => simp only [hf] at h; exact ih _ h (DFA.WF_add hw _ _ _)

theorem subsetLoop_wf (n : NFA) (syms : List Int) (fuel : Nat) (q : List (List Int)) (front : Nat) (dfa : DFA)
    (r : List (List Int) × DFA) (h : subsetLoop n syms fuel q front dfa = .ok r) (hw : dfa.WF) : r.2.WF := by
  induction fuel generalizing q front dfa with
  | zero =>
    unfold subsetLoop at h
    cases hq : q[front]? with
    | none => simp [hq] at h; subst h; exact hw
    | some T => simp [hq] at h
  | succ fuel ih =>
    unfold subsetLoop at h
    cases hq : q[front]? with
    | none => simp [hq] at h; subst h; exact hw
    | some T =>
      simp only [hq] at h
      cases hs : subsetStep n T front syms (q, dfa) with
      | ok r1 => simp only [hs] at h; exact ih _ _ _ h (subsetStep_wf n T front syms (q, dfa) r1 hs hw)
      | panic => simp [hs] at h
      | diverge => simp [hs] at h

/-- everything the later stages need to know about the result of the subset construction -/
theorem NFA.subsets_facts (n : NFA) (r : List (List Int) × DFA) (h : n.subsets = .ok r) :
    r.2.WF ∧ r.2.Proper ∧ r.2.start = 0 ∧ r.2.final = subsetFinals n.final r.1 ∧
    ∃ S0, r.1[0]? = some S0 ∧ Reps n n.start [] S0 ∧
      SInv n n.symbols r.1 r.2 r.1.length (fun _ => False) := by
  obtain ⟨S0, hS0, hS0m⟩ := n.εClosure_spec (mkSet [n.start])
  simp only [NFA.subsets, hS0] at h
  cases hl : subsetLoop n n.symbols n.subsetFuel [S0] 0 (DFA.new 0 []) with
  | panic => simp [hl] at h
  | diverge => simp [hl] at h
  | ok r0 =>
    simp only [hl] at h
    injection h with h
    subst h
    have hinv0 : SInv n n.symbols [S0] (DFA.new 0 []) 0 (fun _ => False) := by
      refine ⟨?_, ?_, ?_⟩
      · intro S hS; simp at hS; subst hS
        exact n.εClosure_sorted _ _ hS0 (ssorted_mkSet _)
      · intro i a j hk; simp [DFA.δ, DFA.new, aget] at hk
      · intro ii a hb; simp at hb
    obtain ⟨hinv, hpre, hstart⟩ := subsetLoop_spec n n.symbols _ _ _ _ r0 hl hinv0
    have hwf := subsetLoop_wf n n.symbols _ _ _ _ r0 hl (DFA.WF_new _ _)
    have hR0 : Reps n n.start [] S0 := by
      intro x; rw [hS0m]
      constructor
      · rintro ⟨s, hs, hr⟩; simp at hs; subst hs; exact Path.eps hr
      · intro hp; cases hp with | eps he => exact ⟨n.start, by simp, he⟩
    refine ⟨hwf, ⟨?_, ?_⟩, by rw [show r0.2.start = _ from hstart]; rfl, rfl, S0, getElem?_prefix hpre (by simp), hR0, ?_⟩
    · show (-1 : Int) ∉ subsetFinals n.final r0.1
      rw [mem_subsetFinals]
      rintro ⟨i, _, hi, _⟩
      omega
    · intro a
      show r0.2.δ (-1) a = none
      cases hd : r0.2.δ (-1) a with
      | none => rfl
      | some j =>
        obtain ⟨ii, _, _, _, e1, _⟩ := hinv.sound _ _ _ hd
        omega
    · exact ⟨hinv.sorted, hinv.sound, hinv.complete⟩

theorem NFA.subsets_ok (n : NFA) : ∃ r, n.subsets = .ok r := by
  obtain ⟨d, hd⟩ := n.toDFA_ok
  simp only [NFA.toDFA] at hd
  cases hs : n.subsets with
  | ok r => exact ⟨r, rfl⟩
  | panic => simp [hs] at hd
  | diverge => simp [hs] at hd

/-! ### `combineStep` is `unionStep` plus bookkeeping -/

theorem combineStep_fst (acc : (SM × NFA) × List (List State)) (id : Nat) (nfa : NFA) :
    (combineStep acc id nfa).1 = unionStep acc.1 id nfa := by
  simp only [combineStep, unionStep]
  generalize (copyTrans id nfa acc.1.1 acc.1.2).1.get id nfa.start = g
  generalize (copyTrans id nfa acc.1.1 acc.1.2).2.add 0 E [g.2] = u
  suffices h : ∀ (fin : List Int) (m : SM) (u : NFA) (l : List State),
      (fin.foldl (fun (a : (SM × NFA) × List State) f =>
        (((a.1.1.get id f).1, a.1.2.add (a.1.1.get id f).2 E [1]), a.2 ++ [(a.1.1.get id f).2])) ((m, u), l)).1 =
      fin.foldl (fun (acc : SM × NFA) f => ((acc.1.get id f).1, acc.2.add (acc.1.get id f).2 E [1])) (m, u) from
    h _ _ _ _
  intro fin
  induction fin with
  | nil => intro m u l; rfl
  | cons f fin ih => intro m u l; simp only [List.foldl_cons]; exact ih _ _ _

theorem combineFold_fst (ns : List NFA) (k : Nat) (acc : (SM × NFA) × List (List State)) :
    (foldlIdx combineStep acc ns k).1 = foldlIdx unionStep acc.1 ns k := by
  induction ns generalizing k acc with
  | nil => rfl
  | cons n ns ih =>
    simp only [foldlIdx]
    rw [ih, combineStep_fst]

/-- whenever `CombineDFA` returns, the result accepts the union of the operand languages -/
theorem combineDFA_lang (ds : List DFA) (hwf : ∀ d ∈ ds, d.WF) (hne : ∀ d ∈ ds, d.NoEps)
    (D : DFA) (fm : List (List Int)) (h : combineDFA ds = .ok (D, fm)) (w : Word) (hE : E ∉ w) :
    D.lang w ↔ ∃ d ∈ ds, d.lang w := by
  simp only [combineDFA] at h
  have hfst := combineFold_fst (ds.map DFA.toNFA) 0 ((SM.new 1, NFA.new 0 [1]), [])
  generalize foldlIdx combineStep ((SM.new 1, NFA.new 0 [1]), []) (ds.map DFA.toNFA) 0 = u at h hfst
  have hU : u.1.2 = NFA.union (ds.map DFA.toNFA) := by rw [hfst]; rfl
  cases hs : u.1.2.subsets with
  | panic => simp [hs] at h
  | diverge => simp [hs] at h
  | ok r =>
    simp only [hs] at h
    obtain ⟨rwf, rpr, _, _, _⟩ := u.1.2.subsets_facts r hs
    cases he : r.2.elimDead with
    | panic => simp [he] at h
    | diverge => simp [he] at h
    | ok combined =>
      simp only [he] at h
      cases hb : combined.bfsNumbering with
      | panic => simp [hb] at h
      | diverge => simp [hb] at h
      | ok m =>
        simp only [hb] at h
        injection h with h
        injection h with h1 h2
        have hcwf : combined.WF := by
          obtain ⟨vis, _, hc⟩ := r.2.elimDead_eq combined he
          rw [hc]; exact DFA.ofEntries_WF _ _ _
        have hre : combined.reindex = .ok (reindexWith combined m).2 := by simp [DFA.reindex, hb]
        rw [← h1, combined.reindex_lang _ hcwf hre w, r.2.elimDead_lang combined rwf rpr he w,
          u.1.2.subsets_lang r hs w hE, hU,
          NFA.union_lang _ (by intro n hn; obtain ⟨d, _, rfl⟩ := List.mem_map.1 hn; exact d.toNFA_WF) w hE]
        constructor
        · rintro ⟨n, hn, hl⟩
          obtain ⟨d, hd, rfl⟩ := List.mem_map.1 hn
          exact ⟨d, hd, (DFA.toNFA_lang (hwf d hd) (hne d hd) w).1 hl⟩
        · rintro ⟨d, hd, hl⟩
          exact ⟨d.toNFA, List.mem_map.2 ⟨d, hd, rfl⟩, (DFA.toNFA_lang (hwf d hd) (hne d hd) w).2 hl⟩

/-- `CombineDFA` always returns -/
theorem combineDFA_ok (ds : List DFA) : ∃ r, combineDFA ds = .ok r := by
  simp only [combineDFA]
  generalize foldlIdx combineStep ((SM.new 1, NFA.new 0 [1]), []) (ds.map DFA.toNFA) 0 = u
  obtain ⟨r, hr⟩ := u.1.2.subsets_ok
  simp only [hr]
  obtain ⟨c, hc⟩ := r.2.elimDead_ok
  simp only [hc]
  obtain ⟨d', hd'⟩ := c.reindex_ok
  simp only [DFA.reindex] at hd'
  cases hb : c.bfsNumbering with
  | ok m => simp only [hb]; exact ⟨_, rfl⟩
  | panic => simp [hb] at hd'
  | diverge => simp [hb] at hd'

end AlgoVerif.C13
